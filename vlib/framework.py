"""Orchestrator shared by every property check (see DESIGN.md section 3).

Verdict protocol:
  1. regenerate coq/gen from /repo, build the property's theorems (full .vo build
     of what they depend on).  A failed build = broken proof obligation.
  2. build the Go harness against /repo (-tags verif), run the implementation on
     generated cases, judge every observation inside Coq (vm_compute):
       code 2 = the implementation's observation violates the property oracle
       code 1 = model and implementation disagree (broken correspondence)
  3. code 2 (or a direct harness finding) -> VIOLATION with the case as replay,
     unless its input class is listed in KNOWN_FINDINGS.jsonl -> KNOWN-FINDING.
  4. broken obligation / correspondence without a failing input -> intensified
     search; still none -> VIOLATION ... no-failing-input-found.
"""
import concurrent.futures as cf
import fcntl
import hashlib
import json
import os
import re
import shutil
import subprocess
import sys
import time

ROOT = os.path.dirname(os.path.dirname(os.path.abspath(__file__)))
COQ = os.path.join(ROOT, "coq")
BUILD = os.path.join(ROOT, "build")
REPO = os.environ.get("VERIF_REPO", "/repo")
ALT = os.path.realpath(REPO) != "/repo"          # checking a scratch worktree (mutation self-test)
OUT = os.environ.get("VERIF_OUT") or (os.path.join(BUILD, "alt-out") if ALT else ROOT)
GOENV = dict(os.environ, GOFLAGS="-mod=mod", GOPROXY="off", GOSUMDB="off", GOTOOLCHAIN="local",
             CGO_ENABLED=os.environ.get("CGO_ENABLED", "0"))

TRUSTED_COMMON = [
    "Coq 8.16.1 kernel incl. vm_compute (no native_compute, no -type-in-type, all guard/positivity/universe checks on)",
    "no Axiom/Parameter/Admitted in the development (grep gate, Print Assumptions per theorem)",
    "Go harness + generators + python orchestrator (decide what is compared, not what is proved)",
    "translator harness/cmd/goconsts (constants and tables regenerated into coq/gen)",
]


def log(*a):
    print(*a, file=sys.stderr, flush=True)


class Lock:
    def __init__(self, name):
        os.makedirs(BUILD, exist_ok=True)
        self.path = os.path.join(BUILD, name + ".lock")

    def __enter__(self):
        self.f = open(self.path, "w")
        fcntl.flock(self.f, fcntl.LOCK_EX)

    def __exit__(self, *a):
        fcntl.flock(self.f, fcntl.LOCK_UN)
        self.f.close()


def run(cmd, timeout, cwd=None, env=None):
    try:
        p = subprocess.run(cmd, cwd=cwd, env=env, stdout=subprocess.PIPE, stderr=subprocess.STDOUT,
                           timeout=timeout, text=True, errors="replace")
        return p.returncode, p.stdout
    except subprocess.TimeoutExpired as e:
        out = e.stdout or ""
        if isinstance(out, bytes):
            out = out.decode(errors="replace")
        return 124, out + "\n[timeout after %ss]" % timeout


def load_cfg(pid):
    path = os.path.join(ROOT, "checks", pid + ".json")
    with open(path) as f:
        cfg = json.load(f)
    cfg.setdefault("n_quick", 1000)
    cfg.setdefault("n_thorough", cfg["n_quick"] * 50)
    cfg.setdefault("props_file", "props/%s.v" % pid)
    cfg.setdefault("make_timeout", 1500)
    cfg.setdefault("run_timeout_quick", 600)
    cfg.setdefault("run_timeout_thorough", 3 * 3600)
    cfg.setdefault("shard_timeout", 900)
    cfg.setdefault("trusted_base", [])
    cfg.setdefault("assumptions", [])
    cfg.setdefault("rule", "")
    cfg.setdefault("search_factor", 5)
    return cfg


def known_findings():
    """Committed known findings: KNOWN_FINDINGS.jsonl (assembled by bin/mkmanifest) united with
    checks/C*.findings.jsonl (their source).  Never written at run time."""
    import glob
    out, seen = [], set()
    # the per-property source files take precedence over the assembled file
    paths = sorted(glob.glob(os.path.join(ROOT, "checks", "C*.findings.jsonl"))) + [os.path.join(ROOT, "KNOWN_FINDINGS.jsonl")]
    for path in paths:
        if not os.path.exists(path):
            continue
        for line in open(path):
            line = line.strip()
            if line and not line.startswith("#"):
                try:
                    k = json.loads(line)
                except ValueError:
                    continue
                key = (k.get("property"), k.get("class"))
                if key not in seen:
                    seen.add(key)
                    out.append(k)
    return out


# ---------------------------------------------------------------- Coq side
def gen_and_build(pid, cfg):
    """Regenerate coq/gen, then build the property's .vo.  Returns dict."""
    res = {"ok": False, "log": "", "failed": None}
    with Lock("coq"):
        g = os.path.join(ROOT, "bin", "gen")
        if os.path.exists(g) and (not ALT or os.environ.get("VERIF_GEN") == "1"):
            rc, out = run([g], 600, env=GOENV)
            if rc != 0:
                res["log"] = out
                res["failed"] = "translator bin/gen failed"
                return res
        rc, out = run([os.path.join(ROOT, "bin", "coqproject")], 120)
        if rc != 0:
            res["log"] = out
            res["failed"] = "coq_makefile failed"
            return res
        target = cfg["props_file"].replace(".v", ".vo")
        models = [m.replace(".v", ".vo") for m in cfg.get("model_files", [])]
        t0 = time.time()
        rc, out = run(["make", "-k", "-j16", target] + models, cfg["make_timeout"], cwd=COQ)
        res["make_s"] = round(time.time() - t0, 1)
        res["log"] = out[-6000:]
        res["checker_cmd"] = "make -C coq -j16 %s   (coq_makefile, full .vo build, coqc 8.16.1)" % target
        if rc != 0:
            m = re.search(r'File "\./([^"]+)", line (\d+)', out)
            res["failed"] = "proof obligation no longer checks: %s" % (
                ("%s line %s" % (m.group(1), m.group(2))) if m else "make exit %d" % rc)
            if m:
                res["failed_lemma"] = lemma_at(os.path.join(COQ, m.group(1)), int(m.group(2)))
            return res
        res["ok"] = True
    return res


def lemma_at(path, line):
    """Name of the Lemma/Theorem enclosing a line."""
    name = None
    try:
        for i, l in enumerate(open(path), 1):
            m = re.match(r'\s*(?:Lemma|Theorem|Example|Corollary|Fact|Definition|Fixpoint)\s+([A-Za-z0-9_\']+)', l)
            if m:
                name = m.group(1)
            if i >= line:
                break
    except OSError:
        pass
    return name


def theorems_of(cfg):
    path = os.path.join(COQ, cfg["props_file"])
    names = []
    if os.path.exists(path):
        names = re.findall(r'^\s*(?:Theorem|Example)\s+([A-Za-z0-9_\']+)', open(path).read(), re.M)
    return names


def print_assumptions(pid, cfg, names):
    """Runs Print Assumptions for every property theorem; returns {name: text}."""
    d = os.path.join(BUILD, "assump")
    os.makedirs(d, exist_ok=True)
    mod = cfg["props_file"].replace(".v", "").replace("/", ".")
    f = os.path.join(d, "A_%s.v" % pid)
    with open(f, "w") as w:
        w.write("From verif Require Import %s.\n" % mod)
        for n in names:
            w.write('Redirect "%s/A_%s_%s" Print Assumptions %s.\n' % (d, pid, n, n))
    rc, out = run(["coqc", "-Q", COQ, "verif", f], 600, cwd=d)
    res = {}
    for n in names:
        p = os.path.join(d, "A_%s_%s.out" % (pid, n))
        if os.path.exists(p):
            res[n] = " ".join(open(p).read().split())
            os.remove(p)
        else:
            res[n] = "UNAVAILABLE: " + out[-300:]
    return res


def dep_closure(start):
    """Transitive closure of `From verif Require Import/Export …` starting from a .v file (relative to coq/)."""
    seen, todo = set(), [start]
    while todo:
        f = todo.pop()
        if f in seen:
            continue
        seen.add(f)
        try:
            txt = strip_comments(open(os.path.join(COQ, f), errors="replace").read())
        except OSError:
            continue
        for m in re.finditer(r'From\s+verif\s+Require\s+(?:Import|Export)\s+([\w.\s]+?)\.(?=\s|$)', txt):
            for mod in m.group(1).split():
                todo.append(mod.replace(".", "/") + ".v")
        for m in re.finditer(r'(?<!verif )Require\s+(?:Import|Export)\s+((?:verif\.[\w.]+\s*)+?)\.(?=\s|$)', txt):
            for mod in m.group(1).split():
                todo.append(mod[len("verif."):].replace(".", "/") + ".v")
    return sorted(seen)


def grep_gate(cfg):
    """No Axiom/Parameter/Admitted/admit etc. in any file the property's theorems depend on."""
    bad = []
    pat = re.compile(r'\b(Admitted|admit|Axiom|Axioms|Parameter|Parameters|Conjecture|Hypothesis|Variable|Variables|Hypotheses)\b|Unset\s+Guard|bypass_check|Admit Obligations|-type-in-type|-impredicative-set|native_compute')
    for rel in dep_closure(cfg["props_file"]):
        p = os.path.join(COQ, rel)
        if not os.path.exists(p):
            continue
        txt = strip_comments(open(p, errors="replace").read())
        depth = 0
        for ln, l in enumerate(txt.split("\n"), 1):
            if re.match(r'\s*Section\b', l):
                depth += 1
            if re.match(r'\s*End\b', l) and depth > 0:
                depth -= 1
            for m in pat.finditer(l):
                w = m.group(0)
                if w in ("Variable", "Variables", "Hypothesis", "Hypotheses") and depth > 0:
                    continue  # section-local, discharged at End
                bad.append("%s:%d:%s" % (os.path.relpath(p, ROOT), ln, w))
    return bad


def strip_comments(txt):
    out, depth, i = [], 0, 0
    while i < len(txt):
        if txt.startswith("(*", i):
            depth += 1
            i += 2
        elif txt.startswith("*)", i) and depth > 0:
            depth -= 1
            i += 2
        else:
            if depth == 0 or txt[i] == "\n":
                out.append(txt[i])
            i += 1
    return "".join(out)


# ---------------------------------------------------------------- Go side
def build_harness(pid):
    """Builds build/implrun_<pid>: a main that links only this property's runner package
    (harness/props/<pid lower>), against the current /repo with -tags verif."""
    with Lock("go"):
        h = os.path.join(ROOT, "harness")
        d = os.path.join(h, "cmd", "impl_" + pid.lower())
        os.makedirs(d, exist_ok=True)
        src = 'package main\n\nimport (\n\t_ "verifharness/props/%s"\n\t"verifharness/run"\n)\n\nfunc main() { run.Main() }\n' % pid.lower()
        mp = os.path.join(d, "main.go")
        if not os.path.exists(mp) or open(mp).read() != src:
            open(mp, "w").write(src)
        try:
            shutil.copy(os.path.join(REPO, "go.sum"), os.path.join(h, "go.sum"))
        except OSError:
            pass
        cmd = ["go", "build", "-tags", "verif"]
        if ALT:
            tagname = hashlib.sha1(REPO.encode()).hexdigest()[:8]
            mf = os.path.join(BUILD, "gomod_%s.mod" % tagname)
            open(mf, "w").write(open(os.path.join(h, "go.mod")).read().replace("=> /repo", "=> " + REPO))
            shutil.copy(os.path.join(REPO, "go.sum"), mf[:-4] + ".sum")
            cmd += ["-modfile", mf]
        return run(cmd + ["-o", os.path.join(BUILD, "implrun_" + pid + ("_alt" if ALT else "")), "./cmd/impl_" + pid.lower()],
                   1200, cwd=h, env=GOENV)


def run_impl(pid, seed, n, tier, outdir, timeout, mode="gen", replay=None):
    if os.path.exists(outdir):
        shutil.rmtree(outdir)
    os.makedirs(outdir)
    cmd = [os.path.join(BUILD, "implrun_" + pid + ("_alt" if ALT else "")), pid, "-seed", str(seed), "-n", str(n), "-tier", tier,
           "-out", outdir, "-mode", mode, "-corpus", os.path.join(ROOT, "corpus", pid)]
    if replay:
        cmd += ["-replay", replay]
    return run(cmd, timeout, cwd=ROOT, env=GOENV)


R_RE = re.compile(r'R\s*=\s*(\[.*?\])\s*:\s*list', re.S)


class Slot:
    """Machine-wide cap on concurrently running Coq shard evaluations (nproc slots,
    shared by all bin/check processes through lock files)."""
    N = os.cpu_count() or 16

    def __enter__(self):
        import random
        d = os.path.join(BUILD, "slots")
        os.makedirs(d, exist_ok=True)
        while True:
            start = random.randrange(self.N)
            for i in range(self.N):
                k = (start + i) % self.N
                f = open(os.path.join(d, "slot%d.lock" % k), "w")
                try:
                    fcntl.flock(f, fcntl.LOCK_EX | fcntl.LOCK_NB)
                    self.f = f
                    return self
                except OSError:
                    f.close()
            time.sleep(0.15)

    def __exit__(self, *a):
        fcntl.flock(self.f, fcntl.LOCK_UN)
        self.f.close()


def judge_shard(path, timeout):
    with Slot():
        return judge_shard_locked(path, timeout)


def judge_shard_locked(path, timeout):
    rc, out = run(["coqc", "-Q", COQ, "verif", os.path.basename(path)], timeout, cwd=os.path.dirname(path))
    if rc != 0:
        return None, out[-1500:]
    m = R_RE.search(out)
    if not m:
        return None, out[-1500:]
    body = re.sub(r'\s+', '', m.group(1))
    pairs = [(int(a), int(b)) for a, b in re.findall(r'\((\d+)(?:%N)?,(\d+)(?:%N)?\)', body)]
    return pairs, ""


def judge_all(outdir, timeout, workers=16):
    shards = sorted((f for f in os.listdir(outdir) if re.match(r'S\d+\.v$', f)),
                    key=lambda s: int(s[1:-2]))
    results, errors = {}, []
    with cf.ThreadPoolExecutor(max_workers=workers) as ex:
        futs = {ex.submit(judge_shard, os.path.join(outdir, s), timeout): s for s in shards}
        for fu in cf.as_completed(futs):
            s = futs[fu]
            pairs, err = fu.result()
            if pairs is None:
                errors.append((s, err))
            else:
                results[int(s[1:-2])] = pairs
    for f in os.listdir(outdir):
        if f.endswith((".vo", ".vok", ".vos", ".glob", ".aux")) or f.startswith("."):
            try:
                os.remove(os.path.join(outdir, f))
            except OSError:
                pass
    return results, errors


def load_cases(outdir):
    cases = []
    p = os.path.join(outdir, "cases.jsonl")
    if os.path.exists(p):
        for l in open(p, errors="replace"):
            try:
                cases.append(json.loads(l))
            except ValueError:
                break   # truncated last line: the harness died mid-write (reported via its exit code)
    return cases


def one_round(pid, cfg, seed, n, tier, tag, timeout, mode="gen"):
    """Runs implementation + judge once.  Returns dict with cases, oracle failures,
    mismatches, direct findings, errors."""
    outdir = os.path.join(BUILD, "cases", "%s-%s%s" % (pid, tag, "-alt" if ALT else ""))
    rc, out = run_impl(pid, seed, n, tier, outdir, timeout, mode=mode)
    r = {"n": n, "seed": seed, "outdir": outdir, "impl_rc": rc, "impl_log": out[-3000:], "cases": [], "oracle": [], "mismatch": [],
         "direct": [], "errors": [], "meta": {}}
    r["cases"] = load_cases(outdir)
    mp = os.path.join(outdir, "meta.json")
    if os.path.exists(mp):
        r["meta"] = json.load(open(mp))
    if rc != 0:
        r["errors"].append("implrun exit %d: %s" % (rc, out[-800:]))
    results, errors = judge_all(outdir, cfg["shard_timeout"])
    for s, e in errors:
        r["errors"].append("judge shard %s failed: %s" % (s, e[-600:]))
    index = {(c["shard"], c["j"]): c for c in r["cases"] if c.get("shard", -1) >= 0}
    for sh, pairs in results.items():
        for j, code in pairs:
            c = index.get((sh, j))
            if c is None:
                r["errors"].append("judge reported unknown case %d/%d" % (sh, j))
                continue
            (r["oracle"] if code == 2 else r["mismatch"]).append(c)
    r["direct"] = [c for c in r["cases"] if c.get("direct")]
    return r


# ---------------------------------------------------------------- verdict
def main(argv=None):
    argv = argv or sys.argv[1:]
    if not argv:
        print("usage: check <Cxx> [--tier quick|thorough] [--replay file]")
        return 2
    pid = argv[0]
    tier = os.environ.get("VERIF_TIER", "quick")
    replay = None
    i = 1
    while i < len(argv):
        if argv[i] == "--tier":
            tier = argv[i + 1]; i += 2
        elif argv[i] == "--replay":
            replay = argv[i + 1]; i += 2
        else:
            i += 1
    if tier not in ("quick", "thorough"):
        tier = "quick"
    try:
        seed = int(os.environ.get("VERIF_SEED", "1"))
    except ValueError:
        seed = 1
    t0 = time.time()
    cfg = load_cfg(pid)
    n = cfg["n_thorough"] if tier == "thorough" else cfg["n_quick"]
    timeout = cfg["run_timeout_thorough"] if tier == "thorough" else cfg["run_timeout_quick"]
    if replay:
        rp = json.load(open(replay))
        seed, n, tier = rp.get("seed", seed), rp.get("n", n), rp.get("tier", tier)
        log("replaying %s: seed=%s n=%s tier=%s" % (replay, seed, n, tier))

    known = [k for k in known_findings() if k.get("property") == pid and k.get("status", "known") == "known"]
    known_classes = {k["class"]: k for k in known}

    violations = []   # (kind, text, replay-dict)
    notes = []

    # 1. proofs
    gate = grep_gate(cfg)
    b = gen_and_build(pid, cfg)
    names = theorems_of(cfg)
    obligations = len(names)
    discharged = obligations if b["ok"] else 0
    assump = {}
    if b["ok"]:
        assump = print_assumptions(pid, cfg, names)
        log("[%s] %d theorems checked in %ss" % (pid, obligations, b.get("make_s")))
    else:
        log("[%s] BROKEN OBLIGATION: %s\n%s" % (pid, b["failed"], b["log"][-1500:]))
    chk_summary = None
    if b["ok"] and tier == "thorough":
        ok_chk, chk_summary = coqchk(pid, cfg)
        log("[%s] %s" % (pid, chk_summary))
        if not ok_chk:
            b["ok"] = False
            b["failed"] = chk_summary
            discharged = 0
    if gate:
        b["ok"] = False
        b["failed"] = "forbidden declarations: " + ", ".join(gate[:10])
        discharged = 0
    bad_axioms = {n: a for n, a in assump.items()
                  if "Closed under the global context" not in a and not allowed_axioms(a, cfg)}
    if bad_axioms:
        b["ok"] = False
        b["failed"] = "unexpected axioms: %s" % json.dumps(bad_axioms)[:600]
        discharged = obligations - len(bad_axioms)

    # model drift: anchored Go functions whose normalised AST changed since the pinned commit
    drift, fps = fingerprint_drift(cfg)
    if drift:
        n *= cfg["search_factor"]
        notes.append("model drift: anchored functions changed since the pinned commit: %s; sample multiplied by %d" % (
            ", ".join(drift), cfg["search_factor"]))
        log("[%s] drift in %s" % (pid, drift))

    # 2. implementation
    rc, out = build_harness(pid)
    rounds = []
    broken_corr = None
    if rc != 0:
        broken_corr = "harness does not build against the current /repo: " + out[-1200:]
        log(broken_corr)
    else:
        r = one_round(pid, cfg, seed, n, tier, "main", timeout)
        if any("inconsistent assumptions" in e or "bad version number" in e or "Cannot find a physical path" in e for e in r["errors"]):
            # a concurrent check rebuilt a shared .vo between our make and the shard evaluation
            log("[%s] shared library changed under us; rebuilding and re-running once" % pid)
            shutil.rmtree(r["outdir"], ignore_errors=True)
            b2 = gen_and_build(pid, cfg)
            if b2["ok"]:
                r = one_round(pid, cfg, seed, n, tier, "main", timeout)
        rounds.append(r)
        log("[%s] %d cases, %d oracle failures, %d mismatches, %d direct, %d errors" % (
            pid, len(r["cases"]), len(r["oracle"]), len(r["mismatch"]), len(r["direct"]), len(r["errors"])))
        need_search = (not b["ok"]) or r["mismatch"] or r["errors"]
        concrete = [c for c in r["oracle"] + r["direct"]
                    if not any(x in known_classes for x in str(c.get("class", "")).split("|"))]
        if need_search and not concrete:
            # intensified search for a failing input
            k = cfg["search_factor"]
            r2 = one_round(pid, cfg, seed + 7919, n * k, tier, "search", timeout * 2, mode="search")
            rounds.append(r2)
            log("[%s] search: %d cases, %d oracle failures, %d mismatches" % (
                pid, len(r2["cases"]), len(r2["oracle"]), len(r2["mismatch"])))

    # 3. classify
    seen_known, seen_new = {}, {}
    total_cases, dist, keys_nt = 0, {}, set()
    samples = []
    for r in rounds:
        total_cases += len(r["cases"])
        for k, v in r["meta"].get("dist", {}).items():
            dist[k] = dist.get(k, 0) + v
        for c in r["cases"]:
            if c.get("nontrivial"):
                keys_nt.add(hashlib.sha1(c.get("key", "").encode()).hexdigest())
        for c in r["oracle"] + r["direct"]:
            cl = c.get("class", "")
            # a case may carry several input classes joined by "|": it is a known finding if any of them is
            hit = [x for x in cl.split("|") if x in known_classes]
            if hit:
                for x in hit:
                    seen_known.setdefault(x, c)
            elif cl not in seen_new or desc_len(c) < desc_len(seen_new[cl][0]):
                seen_new[cl] = (c, r)   # keep the smallest failing case per class
        if not samples and r["cases"]:
            step = max(1, len(r["cases"]) // 5)
            samples = [r["cases"][i]["desc"] for i in range(0, len(r["cases"]), step)][:5]

    os.makedirs(os.path.join(OUT, "replay"), exist_ok=True)
    lines = []
    for cl, k in known_classes.items():
        if cl in seen_known:
            lines.append("KNOWN-FINDING: property=%s %s [class %s]" % (pid, k.get("what", ""), cl))
        else:
            notes.append("known finding class %s not exercised/observed in this run" % cl)
            if k.get("always_report", True):
                lines.append("KNOWN-FINDING: property=%s %s [class %s; not re-observed in this run]" % (pid, k.get("what", ""), cl))
    exit_code = 0
    for cl, (c, r) in list(seen_new.items())[:5]:
        rp = {"property": pid, "kind": "concrete", "class": cl, "seed": r["seed"],
              "n": r["n"], "tier": tier, "case": c,
              "what": c.get("direct") or "the implementation's observation violates the property oracle (judge code 2)",
              "replay_cmd": "bin/check %s --replay <this file>" % pid}
        path = os.path.join(OUT, "replay", "%s-%s-%s.json" % (pid, seed, re.sub(r'[^A-Za-z0-9_.-]+', '_', cl)[:40] or "case"))
        json.dump(rp, open(path, "w"), indent=1, default=str)
        lines.append("VIOLATION property=%s replay=%s" % (pid, path))
        exit_code = 1
    if not seen_new:
        why = None
        if not b["ok"]:
            why = b["failed"] + ((" (in %s)" % b["failed_lemma"]) if b.get("failed_lemma") else "")
        elif broken_corr:
            why = broken_corr
        else:
            mism = [c for r in rounds for c in r["mismatch"]]
            errs = [e for r in rounds for e in r["errors"]]
            if mism:
                why = "correspondence model/%s vs implementation no longer checks on %d cases; first: %s" % (
                    pid, len(mism), json.dumps(mism[0].get("desc"), default=str)[:1500])
            elif errs:
                why = "correspondence run failed: " + errs[0][:1500]
        if why:
            rp = {"property": pid, "kind": "no-failing-input-found", "seed": seed, "n": n, "tier": tier,
                  "no_longer_checks": why, "build_log": b.get("log", "")[-3000:],
                  "mismatches": [c for r in rounds for c in r["mismatch"]][:20]}
            path = os.path.join(OUT, "replay", "%s-%s-unproved.json" % (pid, seed))
            json.dump(rp, open(path, "w"), indent=1, default=str)
            lines.append("VIOLATION property=%s replay=%s no-failing-input-found" % (pid, path))
            exit_code = 1

    # 4. evidence
    ev = {
        "property_id": pid, "tier": tier, "seed": seed, "level": "proof",
        "coverage": {
            "obligations": max(obligations, 1), "discharged": discharged,
            "checker_cmd": b.get("checker_cmd", "make -C coq"),
            "trusted_base": TRUSTED_COMMON + cfg["trusted_base"] + [
                "Print Assumptions %s: %s" % (n_, a) for n_, a in assump.items()] + ([chk_summary] if chk_summary else []),
            "theorems": names,
            "evaluations": total_cases, "distinct_nontrivial": len(keys_nt),
            "rule": cfg["rule"], "samples": samples or ["none"],
            "distribution": dist,
            "traces_validated_against_impl": total_cases,
            "oracle_failures": sum(len(r["oracle"]) for r in rounds),
            "model_impl_mismatches": sum(len(r["mismatch"]) for r in rounds),
            "known_findings_seen": sorted(seen_known),
            "anchor_fingerprints": fps, "anchors_changed": drift,
            "notes": notes,
        },
        "assumptions": cfg["assumptions"],
        "wall_s": round(time.time() - t0, 1),
        "violations": sum(1 for l in lines if l.startswith("VIOLATION")),
    }
    os.makedirs(os.path.join(OUT, "evidence"), exist_ok=True)
    json.dump(ev, open(os.path.join(OUT, "evidence", pid + ".json"), "w"), indent=1, default=str)
    for r in rounds:
        shutil.rmtree(r["outdir"], ignore_errors=True)
    for l in lines:
        print(l)
    print("%s %s: %d theorems, %d cases, exit %d, %.0fs" % (pid, tier, obligations, total_cases, exit_code, time.time() - t0))
    return exit_code


def coqchk(pid, cfg):
    """Thorough tier: independent re-check of the property's .vo closure with coqchk -o.
    Returns (ok, summary).  Cached per content hash of the dependency closure."""
    files = dep_closure(cfg["props_file"])
    h = hashlib.sha1()
    for f in files:
        try:
            h.update(open(os.path.join(COQ, f), "rb").read())
        except OSError:
            pass
    stamp = os.path.join(BUILD, "coqchk_%s_%s.txt" % (pid, h.hexdigest()[:12]))
    if os.path.exists(stamp):
        out = open(stamp).read()
    else:
        mod = "verif." + cfg["props_file"].replace(".v", "").replace("/", ".")
        rc, out = run(["coqchk", "-silent", "-o", "-Q", COQ, "verif", mod], cfg.get("coqchk_timeout", 3000), cwd=COQ)
        if rc == 0:
            open(stamp, "w").write(out)
        else:
            return False, "coqchk failed: " + out[-800:]
    m = re.search(r'\* Axioms:(.*?)\* Constants/Inductives relying on type-in-type:(.*?)\* Constants/Inductives relying on unsafe.*?:(.*?)\* Inductives whose positivity is assumed:(.*)', out, re.S)
    if not m:
        return False, "coqchk output not understood: " + out[-400:]
    ax, tit, unsafe, pos = [" ".join(x.split()) for x in m.groups()]
    ok = tit == "<none>" and unsafe == "<none>" and pos == "<none>"
    if ax != "<none>":
        allowed = cfg.get("allowed_axioms", [])
        names = re.findall(r'([A-Za-z_][\w.\']*)\s*(?=$|\s)', ax)
        if not all(any(n.endswith(a) for a in allowed) for n in names):
            ok = False
    return ok, "coqchk -silent -o: axioms=%s; type-in-type=%s; unsafe fixpoints=%s; assumed positivity=%s" % (ax, tit, unsafe, pos)


def fingerprint_drift(cfg):
    """Compares the translator's function fingerprints with the committed baseline."""
    try:
        now = json.load(open(os.path.join(BUILD, "fingerprints.json")))
        base = json.load(open(os.path.join(ROOT, "fingerprints.base.json")))
    except (OSError, ValueError):
        return [], {}
    fps, drift = {}, []
    for a in cfg.get("anchors", []):
        fps[a] = now.get(a, "absent")
        if now.get(a) != base.get(a):
            drift.append(a)
    return drift, fps


def desc_len(c):
    return len(json.dumps(c.get("desc"), default=str))


def allowed_axioms(text, cfg):
    allowed = cfg.get("allowed_axioms", [])
    body = text.replace("Axioms:", "")
    found = re.findall(r'([A-Za-z_][A-Za-z0-9_.\']*)\s*:', body)
    return all(any(f.endswith(a) for a in allowed) for f in found) and bool(found)
