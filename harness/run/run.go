// implrun: runs the implementation side of one property's correspondence
// check and writes Coq shard files plus cases.jsonl into the output directory.
package run

import (
	"bufio"
	"encoding/json"
	"flag"
	"fmt"
	"math/rand"
	"os"
	"path/filepath"
	"strings"

	"verifharness/reg"
)

type caseRec struct {
	I          int    `json:"i"`
	Shard      int    `json:"shard"`
	J          int    `json:"j"`
	Key        string `json:"key"`
	Nontrivial bool   `json:"nontrivial"`
	Class      string `json:"class"`
	Direct     string `json:"direct,omitempty"`
	Desc       any    `json:"desc"`
}

func Main() {
	if len(os.Args) < 2 {
		fmt.Println(strings.Join(reg.IDs(), " "))
		return
	}
	id := os.Args[1]
	fs := flag.NewFlagSet("implrun", flag.ExitOnError)
	seed := fs.Int64("seed", 1, "PRNG seed")
	n := fs.Int("n", 100, "number of cases")
	out := fs.String("out", "", "output directory")
	tier := fs.String("tier", "quick", "tier")
	mode := fs.String("mode", "gen", "gen | replay | search")
	replay := fs.String("replay", "", "replay file")
	corpus := fs.String("corpus", "", "corpus directory")
	fs.Parse(os.Args[2:])
	spec := reg.Get(id)
	if spec == nil {
		fmt.Fprintf(os.Stderr, "unknown property %s\n", id)
		os.Exit(2)
	}
	if err := os.MkdirAll(*out, 0o755); err != nil {
		panic(err)
	}
	shardSize := spec.Shard
	if shardSize == 0 {
		shardSize = 400
	}
	jf, err := os.Create(filepath.Join(*out, "cases.jsonl"))
	if err != nil {
		panic(err)
	}
	jw := bufio.NewWriter(jf)
	enc := json.NewEncoder(jw)

	var cur []string
	shard, total := 0, 0
	flush := func() {
		if len(cur) == 0 {
			return
		}
		name := fmt.Sprintf("S%d", shard)
		f, err := os.Create(filepath.Join(*out, name+".v"))
		if err != nil {
			panic(err)
		}
		w := bufio.NewWriter(f)
		fmt.Fprintf(w, "%s\nFrom Coq Require Import String.\nOpen Scope string_scope.\n", spec.Imports)
		// one definition per case keeps the parser's memory flat
		for j, c := range cur {
			fmt.Fprintf(w, "Definition c%d := %s.\n", j, c)
		}
		fmt.Fprintf(w, "Definition cases := [")
		for j := range cur {
			if j > 0 {
				fmt.Fprint(w, "; ")
			}
			fmt.Fprintf(w, "c%d", j)
		}
		fmt.Fprintf(w, "].\nDefinition R := Eval vm_compute in (%s cases).\nPrint R.\n", spec.Judge)
		w.Flush()
		f.Close()
		shard++
		cur = nil
	}
	ctx := &reg.Ctx{Rand: rand.New(rand.NewSource(*seed)), Seed: *seed, N: *n, Tier: *tier, Mode: *mode,
		Dist: map[string]int{}}
	ctx.Scratch, _ = os.MkdirTemp("", "implrun-"+id+"-")
	defer os.RemoveAll(ctx.Scratch)
	if *replay != "" {
		ctx.Replay, _ = os.ReadFile(*replay)
	}
	if *corpus != "" {
		files, _ := filepath.Glob(filepath.Join(*corpus, "*"))
		for _, f := range files {
			if b, err := os.ReadFile(f); err == nil {
				ctx.Corpus = append(ctx.Corpus, b)
			}
		}
	}
	ctx.Emit = func(c reg.Case) {
		rec := caseRec{I: total, Shard: shard, J: len(cur), Key: c.Key, Nontrivial: c.Nontrivial,
			Class: c.Class, Direct: c.Direct, Desc: c.Desc}
		if c.Coq == "" {
			rec.Shard, rec.J = -1, -1
		} else {
			cur = append(cur, c.Coq)
		}
		enc.Encode(rec)
		total++
		if len(cur) >= shardSize {
			flush()
		}
	}
	spec.Run(ctx)
	flush()
	jw.Flush()
	jf.Close()
	meta, _ := json.Marshal(map[string]any{"property": id, "seed": *seed, "cases": total, "shards": shard, "dist": ctx.Dist})
	os.WriteFile(filepath.Join(*out, "meta.json"), meta, 0o644)
	fmt.Printf("implrun %s: %d cases, %d shards\n", id, total, shard)
}
