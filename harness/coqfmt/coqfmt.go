// Package coqfmt prints Go values as Coq terms for the generated case files.
package coqfmt

import (
	"encoding/hex"
	"fmt"
	"math/big"
	"strings"
)

// Bytes prints a byte string as (hx "6869") : list N.
func Bytes(b []byte) string {
	if len(b) == 0 {
		return "(@nil N)"
	}
	return `(hx "` + hex.EncodeToString(b) + `")`
}
func Str(s string) string { return Bytes([]byte(s)) }

func Z(i int64) string {
	if i < 0 {
		return fmt.Sprintf("(%d)%%Z", i)
	}
	return fmt.Sprintf("%d%%Z", i)
}
func BigZ(i *big.Int) string {
	if i.Sign() < 0 {
		return "(" + i.String() + ")%Z"
	}
	return i.String() + "%Z"
}
func N(i uint64) string { return fmt.Sprintf("%d%%N", i) }
func Nat(i int) string  { return fmt.Sprintf("%d%%nat", i) }
func Bool(b bool) string {
	if b {
		return "true"
	}
	return "false"
}
func List(items []string) string {
	if len(items) == 0 {
		return "[]"
	}
	return "[" + strings.Join(items, "; ") + "]"
}
func Some(s string) string { return "(Some " + s + ")" }
func None() string         { return "None" }
func Pair(a, b string) string { return "(" + a + ", " + b + ")" }
func App(f string, args ...string) string {
	return "(" + f + " " + strings.Join(args, " ") + ")"
}

// Runes prints a rune sequence as list N.
func Runes(rs []rune) string {
	items := make([]string, len(rs))
	for i, r := range rs {
		items[i] = fmt.Sprintf("%d", r)
	}
	if len(items) == 0 {
		return "(@nil N)"
	}
	return "[" + strings.Join(items, ";") + "]%N"
}
