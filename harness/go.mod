module verifharness

go 1.22

require src.elv.sh v0.0.0

require (
	github.com/mattn/go-isatty v0.0.20 // indirect
	golang.org/x/sync v0.8.0 // indirect
	golang.org/x/sys v0.24.0 // indirect
)

replace src.elv.sh => /repo
