module verifharness

go 1.22

require (
	go.etcd.io/bbolt v1.3.10
	src.elv.sh v0.0.0
)

require (
	github.com/mattn/go-isatty v0.0.20 // indirect
	github.com/sourcegraph/jsonrpc2 v0.2.0 // indirect
	golang.org/x/sync v0.8.0 // indirect
	golang.org/x/sys v0.24.0 // indirect
	pkg.nimblebun.works/go-lsp v1.1.0 // indirect
)

replace src.elv.sh => /repo

require github.com/yuin/goldmark v1.4.13 // C35: independent CommonMark reference (module cache, offline)
