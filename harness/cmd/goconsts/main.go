// goconsts is the translator half of the model/code tie: it parses the
// current /repo working tree and regenerates coq/gen/Consts.v (every
// package-level integer, boolean and string constant of the listed packages,
// evaluated by go/types) and coq/gen/Tables.v (listed literal tables), and
// writes a normalised-AST fingerprint of every top-level function of those
// packages to build/fingerprints.json.
//
// usage: goconsts -repo /repo -spec spec.json -out <coq/gen dir> -fp <file>
package main

import (
	"bytes"
	"crypto/sha1"
	"encoding/hex"
	"encoding/json"
	"flag"
	"fmt"
	"go/ast"
	"go/constant"
	"go/importer"
	"go/parser"
	"go/printer"
	"go/token"
	"go/types"
	"os"
	"path/filepath"
	"sort"
	"strconv"
	"strings"
)

type Spec struct {
	Packages []string `json:"packages"` // directories relative to the repo
	Tables   []struct {
		Pkg  string `json:"pkg"`
		Var  string `json:"var"`
		Name string `json:"name"` // Coq name
	} `json:"tables"`
}

type fakeImporter struct{ real types.Importer }

func (f fakeImporter) Import(path string) (*types.Package, error) {
	// Standard library packages are imported for real (needed for typed
	// constants such as os.O_RDONLY); everything else is an empty package.
	if f.real != nil && !strings.Contains(path, ".") {
		if p, err := f.real.Import(path); err == nil {
			return p, nil
		}
	}
	name := path[strings.LastIndex(path, "/")+1:]
	p := types.NewPackage(path, name)
	p.MarkComplete()
	return p, nil
}

// realImporter is only used when GOCONSTS_STD=1 (slow: compiles export data).
func realImporter() types.Importer {
	if os.Getenv("GOCONSTS_STD") == "1" {
		return importer.Default()
	}
	return nil
}

func coqIdent(s string) string {
	s = strings.NewReplacer("/", "_", "-", "_", ".", "_").Replace(s)
	return s
}

func main() {
	repo := flag.String("repo", "/repo", "repository root")
	specPath := flag.String("spec", "", "spec.json")
	out := flag.String("out", "", "output dir (coq/gen)")
	fp := flag.String("fp", "", "fingerprint output file")
	flag.Parse()
	var spec Spec
	b, err := os.ReadFile(*specPath)
	if err != nil {
		panic(err)
	}
	if err := json.Unmarshal(b, &spec); err != nil {
		panic(err)
	}
	var consts, tables bytes.Buffer
	consts.WriteString("(* Generated from /repo by harness/cmd/goconsts on every run; do not edit. *)\nFrom Coq Require Import ZArith List String.\nFrom verif Require Import lib.Base.\nImport ListNotations.\nOpen Scope Z_scope.\n\n")
	tables.WriteString("(* Generated from /repo by harness/cmd/goconsts on every run; do not edit. *)\nFrom Coq Require Import ZArith List String.\nFrom verif Require Import lib.Base.\nImport ListNotations.\nOpen Scope Z_scope.\n\n")
	fps := map[string]string{}
	pkgFiles := map[string][]*ast.File{}
	fset := token.NewFileSet()
	for _, dir := range spec.Packages {
		full := filepath.Join(*repo, dir)
		ents, err := os.ReadDir(full)
		if err != nil {
			fmt.Fprintf(os.Stderr, "goconsts: %v\n", err)
			continue
		}
		var files []*ast.File
		for _, e := range ents {
			n := e.Name()
			if !strings.HasSuffix(n, ".go") || strings.HasSuffix(n, "_test.go") || strings.HasSuffix(n, "_verif.go") || strings.HasPrefix(n, "zz_verif") || strings.HasPrefix(n, "zz_export_verif") ||
				strings.HasSuffix(n, "_windows.go") || strings.HasSuffix(n, "_plan9.go") || strings.HasSuffix(n, "_js.go") {
				continue
			}
			f, err := parser.ParseFile(fset, filepath.Join(full, n), nil, parser.SkipObjectResolution)
			if err != nil {
				fmt.Fprintf(os.Stderr, "goconsts: %v\n", err)
				continue
			}
			files = append(files, f)
		}
		pkgFiles[dir] = files
		conf := types.Config{Error: func(error) {}, Importer: fakeImporter{realImporter()}, FakeImportC: true}
		info := &types.Info{Defs: map[*ast.Ident]types.Object{}}
		conf.Check(dir, fset, files, info)
		type kv struct{ name, def string }
		var items []kv
		for id, obj := range info.Defs {
			c, ok := obj.(*types.Const)
			if !ok || c.Parent() != c.Pkg().Scope() || id.Name == "_" {
				continue
			}
			v := c.Val()
			switch v.Kind() {
			case constant.Int:
				items = append(items, kv{id.Name, fmt.Sprintf("Definition %s : Z := %s.", id.Name, zlit(v.ExactString()))})
			case constant.Bool:
				items = append(items, kv{id.Name, fmt.Sprintf("Definition %s : bool := %v.", id.Name, constant.BoolVal(v))})
			case constant.String:
				items = append(items, kv{id.Name, fmt.Sprintf("Definition %s : list N := %s.", id.Name, hx([]byte(constant.StringVal(v))))})
			case constant.Float:
				// rational form num/den of the exact value
				num, den := constant.Num(v), constant.Denom(v)
				if num.Kind() == constant.Int && den.Kind() == constant.Int {
					items = append(items, kv{id.Name, fmt.Sprintf("Definition %s : Z * Z := (%s, %s).", id.Name, zlit(num.ExactString()), zlit(den.ExactString()))})
				}
			}
		}
		sort.Slice(items, func(i, j int) bool { return items[i].name < items[j].name })
		fmt.Fprintf(&consts, "Module %s.\n", coqIdent(dir))
		for _, it := range items {
			fmt.Fprintf(&consts, "  %s\n", avoidKeyword(it.def))
		}
		fmt.Fprintf(&consts, "End %s.\n\n", coqIdent(dir))
		// fingerprints
		for _, f := range files {
			for _, d := range f.Decls {
				fd, ok := d.(*ast.FuncDecl)
				if !ok {
					continue
				}
				name := fd.Name.Name
				if fd.Recv != nil && len(fd.Recv.List) > 0 {
					var rb bytes.Buffer
					printer.Fprint(&rb, fset, fd.Recv.List[0].Type)
					name = strings.TrimPrefix(rb.String(), "*") + "." + name
				}
				fd.Doc = nil
				var pb bytes.Buffer
				printer.Fprint(&pb, token.NewFileSet(), fd) // fresh fileset: no positions, comments dropped
				h := sha1.Sum(pb.Bytes())
				fps[dir+":"+name] = hex.EncodeToString(h[:8])
			}
		}
	}
	for _, t := range spec.Tables {
		files := pkgFiles[t.Pkg]
		found := false
		for _, f := range files {
			for _, d := range f.Decls {
				gd, ok := d.(*ast.GenDecl)
				if !ok || gd.Tok != token.VAR {
					continue
				}
				for _, s := range gd.Specs {
					vs := s.(*ast.ValueSpec)
					for i, n := range vs.Names {
						if n.Name == t.Var && i < len(vs.Values) {
							term, ok := litTerm(vs.Values[i])
							if ok {
								fmt.Fprintf(&tables, "Definition %s := %s.\n\n", t.Name, term)
								found = true
							}
						}
					}
				}
			}
		}
		if !found {
			fmt.Fprintf(os.Stderr, "goconsts: table %s.%s not found or not literal\n", t.Pkg, t.Var)
			fmt.Fprintf(&tables, "(* table %s.%s not found *)\n", t.Pkg, t.Var)
		}
	}
	writeIfChanged(filepath.Join(*out, "Consts.v"), consts.Bytes())
	writeIfChanged(filepath.Join(*out, "Tables.v"), tables.Bytes())
	if *fp != "" {
		jb, _ := json.MarshalIndent(fps, "", " ")
		os.MkdirAll(filepath.Dir(*fp), 0o755)
		os.WriteFile(*fp, jb, 0o644)
	}
}

var coqKeywords = map[string]bool{"end": true, "at": true, "in": true, "as": true, "if": true, "then": true, "else": true,
	"let": true, "fun": true, "forall": true, "exists": true, "match": true, "with": true, "return": true, "Type": true, "Prop": true, "Set": true, "fix": true, "for": true, "where": true, "using": true,
	"Variable": true, "Variables": true, "Parameter": true, "Axiom": true, "Lemma": true, "Theorem": true, "Definition": true,
	"Hypothesis": true, "Section": true, "End": true, "Module": true, "Record": true, "Inductive": true, "Fixpoint": true,
	"Let": true, "Example": true, "Goal": true, "Proof": true, "Qed": true, "Check": true, "Print": true, "Eval": true,
	"Import": true, "Export": true, "Require": true, "Open": true, "Close": true, "Show": true, "Context": true, "Class": true,
	"Instance": true, "Structure": true, "Notation": true, "Conjecture": true, "Admitted": true}

func avoidKeyword(def string) string {
	parts := strings.SplitN(def, " ", 3)
	if len(parts) == 3 && coqKeywords[parts[1]] {
		parts[1] += "_"
	}
	return strings.Join(parts, " ")
}

func zlit(s string) string {
	if strings.HasPrefix(s, "-") {
		return "(" + s + ")"
	}
	return s
}

func hx(b []byte) string {
	if len(b) == 0 {
		return "(@nil N)"
	}
	return `(hx "` + hex.EncodeToString(b) + `"%string)`
}

// litTerm renders a composite literal of literals as nested Coq lists/tuples.
func litTerm(e ast.Expr) (string, bool) {
	switch x := e.(type) {
	case *ast.BasicLit:
		switch x.Kind {
		case token.INT:
			v := constant.MakeFromLiteral(x.Value, token.INT, 0)
			return zlit(v.ExactString()), true
		case token.CHAR:
			r, _, _, err := strconv.UnquoteChar(x.Value[1:len(x.Value)-1], '\'')
			if err != nil {
				return "", false
			}
			return fmt.Sprint(int(r)), true
		case token.STRING:
			s, err := strconv.Unquote(x.Value)
			if err != nil {
				return "", false
			}
			return hx([]byte(s)), true
		}
	case *ast.UnaryExpr:
		if x.Op == token.SUB {
			t, ok := litTerm(x.X)
			return "(-" + t + ")", ok
		}
	case *ast.ParenExpr:
		return litTerm(x.X)
	case *ast.KeyValueExpr:
		k, ok1 := litTerm(x.Key)
		v, ok2 := litTerm(x.Value)
		return "(" + k + ", " + v + ")", ok1 && ok2
	case *ast.CompositeLit:
		var parts []string
		for _, el := range x.Elts {
			t, ok := litTerm(el)
			if !ok {
				return "", false
			}
			parts = append(parts, t)
		}
		// struct-like elements (inside a slice literal, no explicit type) become tuples
		_, isArr := x.Type.(*ast.ArrayType)
		_, isMap := x.Type.(*ast.MapType)
		if x.Type == nil && !isArr && !isMap && len(parts) >= 2 && len(parts) <= 4 {
			return "(" + strings.Join(parts, ", ") + ")", true
		}
		if len(parts) == 0 {
			return "[]", true
		}
		return "[" + strings.Join(parts, "; ") + "]", true
	}
	return "", false
}

func writeIfChanged(path string, b []byte) {
	old, err := os.ReadFile(path)
	if err == nil && bytes.Equal(old, b) {
		return
	}
	os.MkdirAll(filepath.Dir(path), 0o755)
	if err := os.WriteFile(path, b, 0o644); err != nil {
		panic(err)
	}
}
