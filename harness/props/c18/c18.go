// Package c18: pipelines deliver data exactly once, in order, and never
// deadlock (pkg/eval/compile_effect.go:pipelineOp.exec, port.go, frame.go,
// exception.go).
//
// Random 2..6-stage pipelines are rendered to Elvish from the stage DSL of
// coq/model/C18.v and run through eval.Evaler.Eval under several GOMAXPROCS
// values with injected yields.  Every stage records, in its own program
// order, what it wrote, what it received and how it ended; the harness adds
// what Eval returned.  The model's acceptor judges that observation.  A run
// that does not finish is reported directly (watchdog).
package c18

import (
	"fmt"
	"os"
	"runtime"
	"strconv"
	"strings"
	"sync"
	"time"

	"src.elv.sh/pkg/eval"
	"src.elv.sh/pkg/eval/errs"
	"src.elv.sh/pkg/parse"
	. "verifharness/coqfmt"
	"verifharness/reg"
)

func init() {
	reg.Register(&reg.Spec{ID: "C18",
		Imports: "From verif Require Import lib.Base lib.C18_Lts model.C18.",
		Judge:   "C18.judge", Shard: 120, Run: run})
}

// ---- the DSL (mirror of coq/model/C18.v) ----

const (
	bandV = 0
	bandB = 1
)

type instr struct {
	Op   string `json:"op"` // send recv1 drain throw only
	Band int    `json:"band,omitempty"`
	X    uint64 `json:"x,omitempty"`
	Filt string `json:"filt,omitempty"` // all | no | m/r
	M, R uint64 `json:",omitempty"`
	HasT bool   `json:"hasT,omitempty"`
	TX   uint64 `json:"tx,omitempty"`
	Tag  uint64 `json:"tag,omitempty"`
}

// words: the case encoding decoded by C18.decode (3-byte big-endian words)
type words []byte

func (w *words) put(vs ...uint64) {
	for _, v := range vs {
		*w = append(*w, byte(v>>16), byte(v>>8), byte(v))
	}
}

func (i instr) enc(w *words) {
	switch i.Op {
	case "send":
		w.put(uint64(i.Band), i.X)
	case "recv1":
		w.put(2 + uint64(i.Band))
	case "drain":
		fk := uint64(0)
		switch i.Filt {
		case "no":
			fk = 1
		case "mod":
			fk = 2
		}
		ht := uint64(0)
		if i.HasT {
			ht = 1
		}
		w.put(4, fk, i.M, i.R, ht, i.TX, i.Tag)
	case "only":
		w.put(6, 0, uint64(i.Band)) // join = 0: since /repo f37fd5c the builtin does not join its helper after reader-gone
	default:
		w.put(5, i.Tag)
	}
}

type stageProg []instr

func (p stageProg) count(op string, band int) int {
	n := 0
	for _, i := range p {
		if i.Op == op && (band < 0 || i.Band == band) {
			n++
		}
	}
	return n
}

// ---- recording ----

type rawEv struct {
	kind string // try ok got eof
	band int
	x    uint64
	sel  string // for eof: Any | V | B
}

type recorder struct {
	mu    sync.Mutex
	evs   [][]rawEv
	exits []string // "" unknown, "ok", "gone", "fail:<tag>", "other"
}

func (r *recorder) add(k int, e rawEv) {
	r.mu.Lock()
	defer r.mu.Unlock()
	if k >= 0 && k < len(r.evs) {
		r.evs[k] = append(r.evs[k], e)
	}
}

func (r *recorder) exit(k int, s string) {
	r.mu.Lock()
	defer r.mu.Unlock()
	if k >= 0 && k < len(r.exits) {
		r.exits[k] = s
	}
}

const corrupt = 999997

// item "v12" or "b12-<pad>" -> band, id.  A damaged item gets the id [corrupt].
func parseItem(s string, padLen int) (int, uint64) {
	if s == "" {
		return bandV, corrupt
	}
	band := bandV
	body := s[1:]
	switch s[0] {
	case 'v':
	case 'b':
		band = bandB
		if i := strings.IndexByte(body, '-'); i >= 0 {
			pad := body[i+1:]
			body = body[:i]
			if len(pad) != padLen || strings.Trim(pad, "x") != "" {
				return band, corrupt
			}
		} else if padLen >= 0 {
			return band, corrupt
		}
	default:
		return bandV, corrupt
	}
	x, err := strconv.ParseUint(body, 10, 64)
	if err != nil {
		return band, corrupt
	}
	return band, x
}

func excKind(e any) string {
	exc, ok := e.(eval.Exception)
	if !ok {
		return "other"
	}
	switch r := exc.Reason().(type) {
	case errs.ReaderGone:
		return "gone"
	case eval.FailError:
		if s, ok := r.Content.(string); ok && strings.HasPrefix(s, "t") {
			if _, err := strconv.ParseUint(s[1:], 10, 64); err == nil {
				return "fail:" + s[1:]
			}
		}
	}
	return "other"
}

func encExit(w *words, kind string) {
	switch {
	case kind == "ok":
		w.put(0)
	case kind == "gone":
		w.put(1)
	case strings.HasPrefix(kind, "fail:"):
		t, _ := strconv.ParseUint(kind[5:], 10, 64)
		w.put(2, t)
	case kind == "":
		w.put(2, 999999) // the stage never reported how it ended
	default:
		w.put(2, 999998)
	}
}

func newEvaler(rec *recorder, pad string) *eval.Evaler {
	ev := eval.NewEvaler()
	padLen := len(pad)
	ns := eval.BuildNsNamed("verif").AddGoFns(map[string]any{
		"pad": func() string { return pad },
		"yield": func(n int) {
			if n < 3 {
				for i := 0; i <= n; i++ {
					runtime.Gosched()
				}
			} else {
				time.Sleep(30 * time.Microsecond)
			}
		},
		"try": func(k int, s string) {
			b, x := parseItem(s, -1)
			if i := strings.IndexByte(s, '-'); i >= 0 {
				b, x = parseItem(s, padLen)
			}
			rec.add(k, rawEv{kind: "try", band: b, x: x})
		},
		"ok": func(k int) { rec.add(k, rawEv{kind: "ok"}) },
		// each-callback: record the item, say what to do with it
		"got": func(k int, s string, filt string, tid string) string {
			b, x := parseItem(s, padLen)
			if b == bandV && strings.IndexByte(s, '-') >= 0 {
				x = corrupt
			}
			rec.add(k, rawEv{kind: "got", band: b, x: x})
			if tid != "-" {
				if t, err := strconv.ParseUint(tid, 10, 64); err == nil && t == x {
					return "t"
				}
			}
			switch {
			case filt == "all":
				return "f"
			case filt == "no":
				return "s"
			default:
				var m, r uint64
				fmt.Sscanf(filt, "%d/%d", &m, &r)
				rem := x
				if m != 0 {
					rem = x % m
				}
				if rem != r {
					return "f"
				}
				return "s"
			}
		},
		"eof": func(k int) { rec.add(k, rawEv{kind: "eof", sel: "Any"}) },
		// one line of the byte band, as returned by read-line ("" = end)
		"line": func(k int, s string) {
			if s == "" {
				rec.add(k, rawEv{kind: "eof", sel: "B"})
				return
			}
			b, x := parseItem(s, padLen)
			if b != bandB {
				x = corrupt
			}
			rec.add(k, rawEv{kind: "got", band: bandB, x: x})
		},
		// one receive on the value channel of the stage's input port
		"take1": func(fm *eval.Frame, k int) {
			v, ok := <-fm.InputChan()
			if !ok {
				rec.add(k, rawEv{kind: "eof", sel: "V"})
				return
			}
			s, _ := v.(string)
			b, x := parseItem(s, padLen)
			if b != bandV || strings.IndexByte(s, '-') >= 0 {
				x = corrupt
			}
			rec.add(k, rawEv{kind: "got", band: bandV, x: x})
		},
		"caught": func(k int, e any) { rec.exit(k, excKind(e)) },
		"done":   func(k int) { rec.exit(k, "ok") },
	})
	ev.ExtendBuiltin(eval.BuildNs().AddNs("verif", ns))
	return ev
}

// ---- rendering ----

type yielder struct {
	c    *reg.Ctx
	rate int // one yield per [rate] opportunities; 0 = none
}

func (y *yielder) maybe() string {
	if y.rate == 0 || y.c.Rand.Intn(y.rate) != 0 {
		return ""
	}
	return fmt.Sprintf("verif:yield %d; ", y.c.Rand.Intn(4))
}

func render(p []stageProg, y *yielder) string {
	var sb strings.Builder
	sb.WriteString("var pad = (verif:pad)\n")
	for k, st := range p {
		if k > 0 {
			sb.WriteString(" |\n")
		}
		fmt.Fprintf(&sb, "{ try { ")
		for j, in := range st {
			sb.WriteString(y.maybe())
			switch in.Op {
			case "send":
				if in.Band == bandV {
					fmt.Fprintf(&sb, "verif:try %d v%d; put v%d; verif:ok %d; ", k, in.X, in.X, k)
				} else {
					fmt.Fprintf(&sb, "verif:try %d b%d; echo b%d-$pad; verif:ok %d; ", k, in.X, in.X, k)
				}
			case "recv1":
				if in.Band == bandB {
					fmt.Fprintf(&sb, "verif:line %d (read-line); ", k)
				} else {
					fmt.Fprintf(&sb, "verif:take1 %d; ", k)
				}
			case "drain":
				brk := fmt.Sprintf("brk%d-%d", k, j)
				filt := in.Filt
				if filt == "mod" {
					filt = fmt.Sprintf("%d/%d", in.M, in.R)
				}
				tid := "-"
				if in.HasT {
					tid = strconv.FormatUint(in.TX, 10)
				}
				fmt.Fprintf(&sb, "var %s = $nil; each {|x| var a = (verif:got %d $x %s %s); %sif (eq $%s $nil) { if (eq $a f) { try { verif:try %d $x; %sif (eq $x[0] v) { put $x } else { echo $x }; verif:ok %d } catch e { set %s = $e } } elif (eq $a t) { set %s = ?(fail t%d) } } }; verif:eof %d; if (not-eq $%s $nil) { fail $%s }; ",
					brk, k, filt, tid, y.maybe(), brk, k, y.maybe(), k, brk, brk, in.Tag, k, brk, brk)
			case "throw":
				fmt.Fprintf(&sb, "fail t%d; ", in.Tag)
			case "only":
				if in.Band == bandV {
					sb.WriteString("only-values; ")
				} else {
					sb.WriteString("only-bytes; ")
				}
			}
		}
		fmt.Fprintf(&sb, "%snop } catch e { verif:caught %d $e; fail $e }; verif:done %d }", y.maybe(), k, k)
	}
	return sb.String()
}

// ---- generation ----

type pipe struct {
	Stages []stageProg
	BigPad bool
	Class  string
}

func genSends(c *reg.Ctx, k int, nv, nb int) stageProg {
	var p stageProg
	iv, ib := 0, 0
	for iv < nv || ib < nb {
		pickV := iv < nv && (ib >= nb || c.Rand.Intn(nv+nb) < nv)
		// runs of the same band make full buffers likelier
		run := 1 + c.Rand.Intn(6)
		for r := 0; r < run; r++ {
			if pickV && iv < nv {
				p = append(p, instr{Op: "send", Band: bandV, X: uint64(k*1000 + iv)})
				iv++
			} else if !pickV && ib < nb {
				p = append(p, instr{Op: "send", Band: bandB, X: uint64(k*1000 + ib)})
				ib++
			}
		}
	}
	return p
}

func amount(c *reg.Ctx) int {
	switch c.Rand.Intn(5) {
	case 0:
		return 0
	case 1:
		return 1 + c.Rand.Intn(5)
	case 2:
		return 30 + c.Rand.Intn(6) // around the value-channel capacity
	default:
		return 34 + c.Rand.Intn(16)
	}
}

func genFilt(c *reg.Ctx) instr {
	in := instr{Op: "drain"}
	switch c.Rand.Intn(4) {
	case 0:
		in.Filt = "all"
	case 1:
		in.Filt = "no"
	default:
		in.Filt = "mod"
		in.M = uint64(2 + c.Rand.Intn(4))
		in.R = uint64(c.Rand.Intn(int(in.M)))
	}
	return in
}

// A single-band reader is generated only behind a writer whose output on the
// other band fits the buffer; otherwise the pair can block for ever
// (checks/C18.md, observation "cross-band wait"; C18_cross_band_wait_can_block).
// Such pipelines are outside the property's quantifier and are never generated.
func safeForSingleBandReader(prev stageProg, b int) bool {
	if prev.isFilter() {
		return prev[0].Band == b
	}
	return prev.count("drain", -1) == 0 && prev.count("send", 1-b) <= 24
}

func (p stageProg) isFilter() bool { return len(p) == 1 && p[0].Op == "only" }

// a band filter for band b is placed only behind a stage that is no filter and
// writes band b alone (the judge collapses the filter: C18.collapse)
func filterBandFor(prev stageProg) (int, bool) {
	if prev.isFilter() || prev.count("drain", -1) > 0 || prev.count("only", -1) > 0 {
		return 0, false
	}
	nv, nb := prev.count("send", bandV), prev.count("send", bandB)
	switch {
	case nv > 0 && nb == 0:
		return bandV, true
	case nb > 0 && nv == 0:
		return bandB, true
	}
	return 0, false
}

// reads its input to the end (whatever happens downstream)?
func readsToEnd(p stageProg) bool {
	for _, in := range p {
		switch in.Op {
		case "drain", "only":
			return true
		case "send":
		default:
			return false
		}
	}
	return false
}

// the shape of the finding fixed by /repo f37fd5c: a band filter that has been
// told "reader gone" used to join its helper goroutine, which only ends when the
// upstream stage closes — and that stage was blocked on the band the filter no
// longer read.  Still planted and generated; a hang here is a Direct violation.
const filterClass = "band-filter-joins-drain-before-early-exit"

func inFilterClass(st []stageProg) bool {
	for k := 1; k+1 < len(st); k++ {
		if st[k].isFilter() && st[k-1].count("send", st[k][0].Band) > 32 && !readsToEnd(st[k+1]) {
			return true
		}
	}
	return false
}

func genPipe(c *reg.Ctx) pipe {
	n := 2 + c.Rand.Intn(5)
	var p pipe
	early, throws, filters := false, false, false
	maxItems := 0
	for k := 0; k < n; k++ {
		var st stageProg
		kind := c.Rand.Intn(10)
		if k == 0 && kind < 6 {
			kind = 0
		}
		if k > 0 && c.Rand.Intn(5) == 0 {
			if b, ok := filterBandFor(p.Stages[k-1]); ok {
				// only-values / only-bytes
				p.Stages = append(p.Stages, stageProg{{Op: "only", Band: b}})
				filters = true
				continue
			}
		}
		switch {
		case kind == 0: // producer
			nv, nb := amount(c), amount(c)
			if c.Rand.Intn(3) == 0 { // one band only
				if c.Rand.Intn(2) == 0 {
					nv = 0
				} else {
					nb = 0
				}
			}
			if nb >= 34 && c.Rand.Intn(3) == 0 {
				p.BigPad = true
			}
			st = genSends(c, k, nv, nb)
			if k > 0 {
				early = true // ignores its input
			}
			if nv+nb > maxItems {
				maxItems = nv + nb
			}
		case kind <= 4: // filter / forwarder / sink, possibly with sends around it
			if c.Rand.Intn(3) == 0 {
				st = append(st, genSends(c, k, c.Rand.Intn(4), c.Rand.Intn(4))...)
			}
			d := genFilt(c)
			if c.Rand.Intn(5) == 0 && k > 0 {
				// throw when a particular item of the previous producer shows up
				d.HasT, d.TX, d.Tag = true, uint64((k-1)*1000+c.Rand.Intn(40)), uint64(200+k)
				throws = true
			}
			st = append(st, d)
			if c.Rand.Intn(3) == 0 {
				for i := 0; i < 1+c.Rand.Intn(3); i++ {
					st = append(st, instr{Op: "send", Band: c.Rand.Intn(2), X: uint64(k*1000 + 900 + i)})
				}
			}
		case kind <= 6: // reads a few items of one band, then leaves (or throws)
			b := c.Rand.Intn(2)
			if k > 0 && !safeForSingleBandReader(p.Stages[k-1], b) {
				b = 1 - b
			}
			if k > 0 && !safeForSingleBandReader(p.Stages[k-1], b) {
				// leaves without reading anything
				early = true
				if c.Rand.Intn(2) == 0 {
					st = stageProg{{Op: "throw", Tag: uint64(100 + k)}}
					throws = true
				}
				break
			}
			for i := 0; i < c.Rand.Intn(5); i++ {
				st = append(st, instr{Op: "recv1", Band: b})
			}
			early = true
			switch c.Rand.Intn(3) {
			case 0:
				st = append(st, instr{Op: "throw", Tag: uint64(100 + k)})
				throws = true
			case 1:
				st = append(st, genSends(c, k, c.Rand.Intn(3), c.Rand.Intn(3))...)
			}
		case kind == 7: // exits at once
			early = true
		case kind == 8: // throws at once
			st = stageProg{{Op: "throw", Tag: uint64(100 + k)}}
			early, throws = true, true
		default: // producer in the middle that ignores its input
			st = genSends(c, k, amount(c), amount(c)/2)
			early = true
		}
		p.Stages = append(p.Stages, st)
	}
	switch {
	case early && throws:
		p.Class = "early-exit+throw"
	case early:
		p.Class = "early-exit"
	case throws:
		p.Class = "throw"
	default:
		p.Class = "read-to-end"
	}
	if maxItems > 32 {
		p.Class += "/overflow"
	}
	if p.BigPad {
		p.Class += "/bigbytes"
	}
	if filters {
		p.Class += "/filter"
	}
	if inFilterClass(p.Stages) {
		p.Class = filterClass
	}
	return p
}

// ---- running ----

type desc struct {
	Code       string   `json:"code"`
	GoMaxProcs int      `json:"gomaxprocs"`
	YieldRate  int      `json:"yield_rate"`
	Exits      []string `json:"exits"`
	Final      string   `json:"final"`
	Counts     string   `json:"counts"`
}

func encFinal(w *words, err error) string {
	if err == nil {
		w.put(0)
		return "nil"
	}
	exc, ok := err.(eval.Exception)
	if !ok {
		w.put(1, 2, 999998)
		return "non-exception: " + err.Error()
	}
	if pe, ok := exc.Reason().(eval.PipelineError); ok {
		var show []string
		w.put(2, uint64(len(pe.Errors)))
		for _, e := range pe.Errors {
			k := "ok"
			if e != nil && e.Reason() != nil {
				k = excKind(e)
			}
			encExit(w, k)
			show = append(show, k)
		}
		return "pipeline[" + strings.Join(show, " ") + "]"
	}
	k := excKind(exc)
	w.put(1)
	encExit(w, k)
	return k
}

func encHist(w *words, evs []rawEv) (int, int) {
	var out words
	cnt := uint64(0)
	sent, got := 0, 0
	for i := 0; i < len(evs); i++ {
		e := evs[i]
		cnt++
		switch e.kind {
		case "try":
			if i+1 < len(evs) && evs[i+1].kind == "ok" {
				out.put(uint64(e.band), e.x)
				sent++
				i++
			} else {
				out.put(2+uint64(e.band), e.x)
			}
		case "got":
			out.put(4+uint64(e.band), e.x)
			got++
		case "eof":
			switch e.sel {
			case "Any":
				out.put(6)
			case "V":
				out.put(7)
			default:
				out.put(8)
			}
		case "ok":
			// an ok without its try cannot come from the rendered code
			out.put(0, corrupt)
		}
	}
	w.put(cnt)
	*w = append(*w, out...)
	return sent, got
}

func runOnce(c *reg.Ctx, p pipe, procs, yieldRate int) {
	runOnceW(c, p, procs, yieldRate, 20*time.Second)
}

// hangs counts watchdog hits of generated pipelines; after two the run stops
// (every further pipeline would cost another watchdog period).
var hangs int

func runOnceW(c *reg.Ctx, p pipe, procs, yieldRate int, watchdog time.Duration) {
	if hangs >= 2 {
		return
	}

	t0 := time.Now()
	defer func() { if os.Getenv("C18_TIMING") != "" { fmt.Fprintf(os.Stderr, "T %8.1fms procs=%d rate=%d %s\n", float64(time.Since(t0).Microseconds())/1000, procs, yieldRate, p.Class) } }()
	y := &yielder{c: c, rate: yieldRate}
	code := render(p.Stages, y)
	n := len(p.Stages)
	rec := &recorder{evs: make([][]rawEv, n), exits: make([]string, n)}
	pad := ""
	if p.BigPad {
		pad = strings.Repeat("x", 2000)
	}
	ev := newEvaler(rec, pad)
	old := runtime.GOMAXPROCS(procs)
	defer runtime.GOMAXPROCS(old)

	port1, collect, perr := eval.CapturePort()
	if perr != nil {
		return
	}
	type res struct{ err error }
	done := make(chan res, 1)
	go func() {
		err := ev.Eval(parse.Source{Name: "[c18]", Code: code},
			eval.EvalCfg{Ports: []*eval.Port{nil, port1, nil}})
		done <- res{err}
	}()
	var err error
	select {
	case r := <-done:
		err = r.err
		collect()
	case <-time.After(watchdog):
		c.Count("HANG")
		hangs++
		c.Emit(reg.Case{Direct: fmt.Sprintf("pipeline did not finish within %v (deadlock): stages ended so far = ", watchdog) +
			strings.Join(func() []string { rec.mu.Lock(); defer rec.mu.Unlock(); return append([]string{}, rec.exits...) }(), ","),
			Desc:  desc{Code: code, GoMaxProcs: procs, YieldRate: yieldRate},
			Key:   fmt.Sprintf("%s/%d/%d", code, procs, yieldRate),
			Class: p.Class, Nontrivial: true})
		return
	}
	if _, bad := err.(*parse.Error); bad || (err != nil && strings.Contains(err.Error(), "compilation error")) {
		panic("c18: rendered pipeline does not compile: " + err.Error() + "\n" + code)
	}

	rec.mu.Lock()
	var w words
	var counts []string
	w.put(uint64(n))
	for k := 0; k < n; k++ {
		w.put(uint64(len(p.Stages[k])))
		for _, in := range p.Stages[k] {
			in.enc(&w)
		}
	}
	nontrivial := strings.Contains(p.Class, "overflow") || strings.Contains(p.Class, "early") || strings.Contains(p.Class, "throw")
	for k := 0; k < n; k++ {
		s, g := encHist(&w, rec.evs[k])
		counts = append(counts, fmt.Sprintf("%d:sent%d/got%d/%s", k, s, g, rec.exits[k]))
	}
	for k := 0; k < n; k++ {
		encExit(&w, rec.exits[k])
	}
	exitsCopy := append([]string{}, rec.exits...)
	rec.mu.Unlock()
	fshow := encFinal(&w, err)
	c.Count(p.Class)
	c.Count(fmt.Sprintf("stages=%d", n))
	c.Count("final=" + strings.SplitN(fshow, "[", 2)[0])
	c.Emit(reg.Case{
		Coq:        Bytes(w),
		Desc:       desc{Code: code, GoMaxProcs: procs, YieldRate: yieldRate, Exits: exitsCopy, Final: fshow, Counts: strings.Join(counts, " ")},
		Key:        fmt.Sprintf("%s/%d/%d", code, procs, yieldRate),
		Nontrivial: nontrivial,
		Class:      p.Class,
	})
}

var procsChoices = []int{1, 2, 4, 16}

func run(c *reg.Ctx) {
	// fixed pipelines first: the shapes the property names
	many := func(k, nv, nb int) stageProg {
		var p stageProg
		for i := 0; i < nv; i++ {
			p = append(p, instr{Op: "send", Band: bandV, X: uint64(k*1000 + i)})
		}
		for i := 0; i < nb; i++ {
			p = append(p, instr{Op: "send", Band: bandB, X: uint64(k*1000 + i)})
		}
		return p
	}
	sink := stageProg{{Op: "drain", Filt: "no"}}
	fwd := stageProg{{Op: "drain", Filt: "all"}}
	fixed := []pipe{
		{Stages: []stageProg{many(0, 70, 0), fwd, sink}, Class: "read-to-end/overflow"},
		{Stages: []stageProg{many(0, 0, 60), fwd, sink}, BigPad: true, Class: "read-to-end/overflow/bigbytes"},
		{Stages: []stageProg{many(0, 70, 0), {}}, Class: "early-exit/overflow"},
		{Stages: []stageProg{many(0, 0, 60), {}}, BigPad: true, Class: "early-exit/overflow/bigbytes"},
		{Stages: []stageProg{many(0, 70, 0), fwd, fwd, {{Op: "recv1", Band: bandV}}}, Class: "early-exit/overflow"},
		{Stages: []stageProg{many(0, 60, 0), {{Op: "throw", Tag: 101}}, {{Op: "throw", Tag: 102}}, sink}, Class: "early-exit+throw/overflow"},
		{Stages: []stageProg{{{Op: "throw", Tag: 100}}, many(1, 50, 50), {{Op: "drain", Filt: "all", HasT: true, TX: 1003, Tag: 202}}, {}}, Class: "early-exit+throw/overflow"},
		{Stages: []stageProg{many(0, 40, 10), {{Op: "drain", Filt: "all", HasT: true, TX: 20, Tag: 201}}, sink}, Class: "throw/overflow"},
	}
	for _, p := range fixed {
		for _, pr := range procsChoices {
			runOnce(c, p, pr, 3)
		}
	}
	// band filters: harmless positions, then the shape of the fixed finding
	// (`range 1000 | only-values | nop`)
	onlyV, onlyB := stageProg{{Op: "only", Band: bandV}}, stageProg{{Op: "only", Band: bandB}}
	for _, p := range []pipe{
		{Stages: []stageProg{many(0, 70, 0), onlyV, sink}, Class: "read-to-end/overflow/filter"},
		{Stages: []stageProg{many(0, 0, 60), onlyB, fwd, {}}, BigPad: true, Class: "early-exit/overflow/bigbytes/filter"},
		{Stages: []stageProg{many(0, 20, 0), onlyV, {}}, Class: "early-exit/filter"},
		{Stages: []stageProg{many(0, 70, 0), onlyV, {}}, Class: filterClass},
		{Stages: []stageProg{many(0, 0, 60), onlyB, {{Op: "throw", Tag: 102}}}, BigPad: true, Class: filterClass},
	} {
		runOnce(c, p, procsChoices[c.Rand.Intn(len(procsChoices))], 3)
	}
	for i := 0; i < c.N/3+1; i++ {
		p := genPipe(c)
		for r := 0; r < 3; r++ {
			rate := []int{0, 2, 6}[c.Rand.Intn(3)]
			runOnce(c, p, procsChoices[c.Rand.Intn(len(procsChoices))], rate)
		}
	}
}
