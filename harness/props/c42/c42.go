// Package c42: redirections (pkg/eval/compile_effect.go: redirOp.exec,
// evalForFd, growAccess, makeFlag, fileRedirPort, formOwnedPort.close).
//
// Generated forms with 1..4 redirections over fds 0..12 (plus planted invalid,
// negative and large ones), temp files with prior contents, file objects and
// pipe maps, byte writers (echo, print), value writers (put) and a reader
// (slurp) are executed through Evaler.Eval.  Because several inputs make the
// interpreter panic (sometimes in another goroutine), every program runs in a
// child process (this binary re-executed with VERIF_C42_CHILD=1) that serves
// jobs over stdin/stdout; when the child dies the job is recorded as a crash
// and a new child is started.  File contents, per-port byte and value outputs,
// the exception kind and the change of the number of open descriptors are
// judged inside Coq against model/C42.v (faithful model and reference
// semantics).
package c42

import (
	"fmt"
	"os"
	"strings"

	. "verifharness/coqfmt"
	"verifharness/reg"
)

func init() {
	if os.Getenv("VERIF_C42_CHILD") == "1" {
		childMain()
		os.Exit(0)
	}
	reg.Register(&reg.Spec{ID: "C42",
		Imports: "From verif Require Import lib.Base model.C42_Ports model.C42.",
		Judge:   "C42.judge", Shard: 150, Run: run})
}

// ---------------------------------------------------------------- AST (mirrors model/C42.v)

type fdv struct {
	Kind string // num | name | bad
	Num  int64
	Name int // 0,1,2
}

type src struct {
	Kind string // file | fd | close | obj | bad
	Path int
	Fd   fdv
	Obj  int
}

type redir struct {
	HasDst bool
	Dst    fdv
	Mode   int // 0 read 1 write 2 append 3 rdwr
	Src    src
}

type cmd struct {
	Kind string // echo print put slurp nop fail block
	S    string
	Body []form
}

type form struct {
	C  cmd
	Rs []redir
}

type prog struct {
	Pipe bool
	F    form // single form, or the reader of the pipeline
	W    form // writer of the pipeline
}

type job struct {
	ID    int
	Fs    []*string // initial contents of f0..f3 (nil: absent)
	Env   []string  // in:<p> | out:<p> | pipe | empty
	Extra []int     // extra ports 3..: sink index or -1 for a nil entry
	Prog  prog
	Src   string
}

var fdNames = []string{"stdin", "stdout", "stderr"}
var modeSign = []string{"<", ">", ">>", "<>"}
var modeCoq = []string{"MRead", "MWrite", "MAppend", "MRdWr"}

func (f fdv) text() string {
	switch f.Kind {
	case "num":
		return fmt.Sprint(f.Num)
	case "name":
		return fdNames[f.Name]
	}
	return "foo"
}

func (f fdv) coq() string {
	switch f.Kind {
	case "num":
		return App("FdNum", Z(f.Num))
	case "name":
		return App("FdName", Nat(f.Name))
	}
	return "FdBad"
}

func pathOf(dir string, p int) string { return fmt.Sprintf("%s/f%d", dir, p) }

func (r redir) text(dir string) string {
	var sb strings.Builder
	if r.HasDst {
		sb.WriteString(r.Dst.text())
	}
	sb.WriteString(modeSign[r.Mode])
	switch r.Src.Kind {
	case "file":
		sb.WriteString("'" + pathOf(dir, r.Src.Path) + "'")
	case "fd":
		sb.WriteString("&" + r.Src.Fd.text())
	case "close":
		sb.WriteString("&-")
	case "obj":
		sb.WriteString(fmt.Sprintf("$o%d", r.Src.Obj))
	default:
		sb.WriteString("[a]")
	}
	return sb.String()
}

func (r redir) coq() string {
	dst := None()
	if r.HasDst {
		dst = Some(r.Dst.coq())
	}
	var s string
	switch r.Src.Kind {
	case "file":
		s = App("SFile", Nat(r.Src.Path))
	case "fd":
		s = App("SFd", r.Src.Fd.coq())
	case "close":
		s = "SClose"
	case "obj":
		s = App("SObj", Nat(r.Src.Obj))
	default:
		s = "SBad"
	}
	return App("mkRedir", dst, modeCoq[r.Mode], s)
}

func (f form) text(dir string) string {
	var sb strings.Builder
	switch f.C.Kind {
	case "echo", "print", "put":
		sb.WriteString(f.C.Kind + " " + f.C.S)
	case "slurp", "nop":
		sb.WriteString(f.C.Kind)
	case "fail":
		sb.WriteString("fail x")
	case "block":
		sb.WriteString("{ ")
		for i, g := range f.C.Body {
			if i > 0 {
				sb.WriteString("; ")
			}
			sb.WriteString(g.text(dir))
		}
		sb.WriteString(" }")
	}
	for _, r := range f.Rs {
		sb.WriteString(" " + r.text(dir))
	}
	return sb.String()
}

func (f form) coq() string {
	var c string
	switch f.C.Kind {
	case "echo":
		c = App("CEcho", Str(f.C.S))
	case "print":
		c = App("CPrint", Str(f.C.S))
	case "put":
		c = App("CPut", Str(f.C.S))
	case "slurp":
		c = "CSlurp"
	case "nop":
		c = "CNop"
	case "fail":
		c = "CFail"
	case "block":
		var items []string
		for _, g := range f.C.Body {
			items = append(items, g.coq())
		}
		c = App("CBlock", List(items))
	}
	var rs []string
	for _, r := range f.Rs {
		rs = append(rs, r.coq())
	}
	return App("Form", c, List(rs))
}

func (p prog) text(dir string) string {
	if p.Pipe {
		return p.W.text(dir) + " | " + p.F.text(dir)
	}
	return p.F.text(dir)
}

func (p prog) coq() string {
	if p.Pipe {
		return App("PPipe", p.W.coq(), p.F.coq())
	}
	return App("PForm", p.F.coq())
}

// ---------------------------------------------------------------- input class

// redirections of one form, abstractly: which fds hold a port the form owns,
// and which fds share a port.  Reports the defect-prone input classes.
type formClass struct{ negDst, negSrc, srcMinus1, overShared, huge bool }

func (fc *formClass) merge(o formClass) {
	fc.negDst = fc.negDst || o.negDst
	fc.negSrc = fc.negSrc || o.negSrc
	fc.srcMinus1 = fc.srcMinus1 || o.srcMinus1
	fc.overShared = fc.overShared || o.overShared
	fc.huge = fc.huge || o.huge
}

func evalFd(f fdv) (int64, bool) {
	switch f.Kind {
	case "num":
		return f.Num, true
	case "name":
		return int64(f.Name), true
	}
	return 0, false
}

func dstOf(r redir) (int64, bool) {
	if !r.HasDst {
		if r.Mode == 0 {
			return 0, true
		}
		return 1, true
	}
	return evalFd(r.Dst)
}

// classify walks one form; owned0: fds whose port the form owns on entry
// (pipeline stages).
func classify(f form, owned0 map[int64]bool) formClass {
	var fc formClass
	tok := map[int64]int{} // fd -> identity of the port it holds (0: inherited, unknown)
	owned := map[int64]bool{}
	next := 1
	for fd := range owned0 {
		owned[fd] = true
		tok[fd] = next
		next++
	}
	for _, r := range f.Rs {
		d, ok := dstOf(r)
		if !ok {
			break
		}
		if d < 0 {
			fc.negDst = true
			break
		}
		if d > 1000 {
			fc.huge = true
		}
		if owned[d] {
			// an owned port is being replaced: is it still referenced elsewhere
			// (or by the source of this very redirection)?
			for e, t := range tok {
				if e != d && t == tok[d] {
					fc.overShared = true
				}
			}
			if r.Src.Kind == "fd" {
				if v, ok := evalFd(r.Src.Fd); ok && (v == d || tok[v] == tok[d]) {
					fc.overShared = true
				}
			}
		}
		owned[d] = false
		switch r.Src.Kind {
		case "file":
			tok[d] = next
			next++
			owned[d] = true
		case "fd":
			v, ok := evalFd(r.Src.Fd)
			if !ok {
				return fc
			}
			if v == -1 {
				fc.srcMinus1 = true
				tok[d] = next
				next++
			} else if v < 0 {
				fc.negSrc = true
				return fc
			} else {
				t, has := tok[v]
				if !has {
					// inherited port: give it an identity so later sharing is seen
					t = next
					next++
					tok[v] = t
				}
				tok[d] = t
			}
		default:
			tok[d] = next
			next++
		}
	}
	if f.C.Kind == "block" {
		for _, g := range f.C.Body {
			fc.merge(classify(g, nil))
		}
	}
	return fc
}

func touchesFd0(f form) bool {
	for _, r := range f.Rs {
		if d, ok := dstOf(r); ok && d == 0 {
			return true
		}
	}
	return false
}

func classOf(p prog) string {
	var fc formClass
	if p.Pipe {
		fc = classify(p.W, map[int64]bool{1: true})
		fc.merge(classify(p.F, map[int64]bool{0: true}))
	} else {
		fc = classify(p.F, nil)
	}
	switch {
	case fc.negDst:
		return "negative-dst-fd"
	case fc.negSrc:
		return "negative-src-fd"
	case p.Pipe && touchesFd0(p.F):
		return "pipe-reader-stdin-redir"
	case fc.overShared:
		return "redirect-over-shared-owned-port"
	case fc.srcMinus1:
		return "src-fd-minus-one"
	case fc.huge:
		return "large-fd"
	case p.Pipe:
		return "pipeline"
	}
	return "form"
}

// ---------------------------------------------------------------- generator

var contents = []string{"", "hello\n", "0123456789\n", "ab"}

func genWord(c *reg.Ctx) string {
	const al = "abcdefghijklmnopqrstuvwxyz0123456789"
	n := 1 + c.Rand.Intn(5)
	b := make([]byte, n)
	for i := range b {
		b[i] = al[c.Rand.Intn(len(al))]
	}
	// barewords that are all digits are still strings in Elvish
	return string(b)
}

type genCtx struct {
	c      *reg.Ctx
	env    []string
	nobj   int
	live   []int64 // fds known to hold a port
	reader bool    // pipeline reader: never use fd 0 as a source, never path 3
	plant  string
}

func (g *genCtx) pickFd() int64 {
	r := g.c.Rand
	if len(g.live) > 0 && r.Intn(4) != 0 {
		return g.live[r.Intn(len(g.live))]
	}
	if r.Intn(3) == 0 {
		return int64(r.Intn(13))
	}
	return int64(r.Intn(6))
}

func (g *genCtx) genSrcFd() fdv {
	r := g.c.Rand
	for {
		var f fdv
		if r.Intn(8) == 0 {
			f = fdv{Kind: "name", Name: r.Intn(3)}
		} else {
			f = fdv{Kind: "num", Num: g.pickFd()}
		}
		if v, _ := evalFd(f); g.reader && v == 0 {
			continue
		}
		return f
	}
}

func (g *genCtx) genRedir(outer bool) redir {
	r := g.c.Rand
	var rd redir
	rd.Mode = []int{1, 1, 1, 2, 2, 3, 0, 0}[r.Intn(8)]
	switch x := r.Intn(10); {
	case x < 4:
	case x < 9:
		rd.HasDst = true
		rd.Dst = fdv{Kind: "num", Num: g.pickFd()}
	default:
		rd.HasDst = true
		rd.Dst = fdv{Kind: "name", Name: r.Intn(3)}
	}
	if g.reader {
		if d, ok := dstOf(rd); ok && d == 0 {
			// a pipeline reader must not touch fd 0 (planted separately)
			rd.HasDst = true
			rd.Dst = fdv{Kind: "num", Num: int64(1 + r.Intn(5))}
		}
	}
	npaths := 4
	if g.reader {
		npaths = 3
	}
	switch x := r.Intn(20); {
	case x < 9 || (!outer && x < 4):
		rd.Src = src{Kind: "file", Path: r.Intn(npaths)}
	case x < 15:
		rd.Src = src{Kind: "fd", Fd: g.genSrcFd()}
	case x < 17:
		rd.Src = src{Kind: "close"}
	case x < 19 && g.nobj > 0:
		rd.Src = src{Kind: "obj", Obj: r.Intn(g.nobj)}
		if g.env[rd.Src.Obj] == "pipe" && rd.Mode == 0 {
			// reading an environment pipe whose write end is open would block forever
			rd.Mode = 1
		}
	case x < 19:
		rd.Src = src{Kind: "file", Path: r.Intn(npaths)}
	default:
		if r.Intn(2) == 0 {
			rd.Src = src{Kind: "bad"}
		} else {
			rd.Src = src{Kind: "fd", Fd: fdv{Kind: "bad"}}
		}
	}
	if r.Intn(60) == 0 && !g.reader {
		rd.HasDst = true
		rd.Dst = fdv{Kind: "bad"}
	}
	if d, ok := dstOf(rd); ok && d >= 0 {
		g.live = append(g.live, d)
	}
	return rd
}

// inner form: a writer or reader with 0..2 redirections, mostly >&n
func (g *genCtx) genInner(depth int) form {
	r := g.c.Rand
	var f form
	switch x := r.Intn(20); {
	case x < 7:
		f.C = cmd{Kind: "echo", S: genWord(g.c)}
	case x < 10:
		f.C = cmd{Kind: "print", S: genWord(g.c)}
	case x < 14:
		f.C = cmd{Kind: "put", S: genWord(g.c)}
	case x < 16:
		f.C = cmd{Kind: "slurp"}
	case x < 17:
		f.C = cmd{Kind: "nop"}
	case x < 18 && depth < 2:
		f.C = cmd{Kind: "block"}
		n := 1 + r.Intn(2)
		saved := append([]int64(nil), g.live...)
		for i := 0; i < n; i++ {
			f.C.Body = append(f.C.Body, g.genInner(depth+1))
		}
		g.live = saved
	case x < 19 && r.Intn(3) == 0:
		f.C = cmd{Kind: "fail"}
	default:
		f.C = cmd{Kind: "echo", S: genWord(g.c)}
	}
	saved := append([]int64(nil), g.live...)
	switch x := r.Intn(10); {
	case x < 6:
		// the typical inner redirection: write to / read from port n
		rd := redir{Src: src{Kind: "fd", Fd: g.genSrcFd()}}
		if f.C.Kind == "slurp" {
			rd.Mode = 0
		} else {
			rd.Mode = 1
		}
		f.Rs = append(f.Rs, rd)
	case x < 8:
	default:
		n := 1 + r.Intn(2)
		for i := 0; i < n; i++ {
			f.Rs = append(f.Rs, g.genRedir(false))
		}
	}
	g.live = saved
	return f
}

func (g *genCtx) genOuter() form {
	r := g.c.Rand
	var f form
	n := 1 + r.Intn(4)
	g.live = []int64{1, 2}
	for i := 0; i < n; i++ {
		f.Rs = append(f.Rs, g.genRedir(true))
	}
	if r.Intn(5) == 0 {
		// a single simple command
		f.C = g.genInner(2).C
		if f.C.Kind == "block" {
			f.C = cmd{Kind: "echo", S: genWord(g.c)}
		}
		return f
	}
	f.C = cmd{Kind: "block"}
	m := 1 + r.Intn(4)
	for i := 0; i < m; i++ {
		f.C.Body = append(f.C.Body, g.genInner(1))
	}
	return f
}

func genJob(c *reg.Ctx, id int, dir string) job {
	r := c.Rand
	j := job{ID: id}
	for p := 0; p < 4; p++ {
		if r.Intn(3) == 0 {
			j.Fs = append(j.Fs, nil)
		} else {
			s := contents[r.Intn(len(contents))]
			j.Fs = append(j.Fs, &s)
		}
	}
	g := &genCtx{c: c}
	if r.Intn(3) == 0 {
		n := 1 + r.Intn(2)
		for i := 0; i < n; i++ {
			switch r.Intn(6) {
			case 0:
				// file:open needs an existing file
				p := r.Intn(3)
				if j.Fs[p] == nil {
					s := "xyz\n"
					j.Fs[p] = &s
				}
				j.Env = append(j.Env, fmt.Sprintf("in:%d", p))
			case 1, 2:
				j.Env = append(j.Env, fmt.Sprintf("out:%d", r.Intn(3)))
			case 3, 4:
				j.Env = append(j.Env, "pipe")
			default:
				j.Env = append(j.Env, "empty")
			}
		}
		g.nobj = len(j.Env)
		g.env = j.Env
	}
	if r.Intn(3) == 0 {
		n := 1 + r.Intn(3)
		k := 2
		for i := 0; i < n; i++ {
			if r.Intn(3) == 0 {
				j.Extra = append(j.Extra, -1)
			} else {
				j.Extra = append(j.Extra, k)
				k++
			}
		}
	}
	if r.Intn(6) == 0 {
		// two-stage pipeline: the writer is one echo whose own redirections
		// only use path 3 or its own ports; the reader never uses path 3 or fd 0
		j.Prog.Pipe = true
		w := form{C: cmd{Kind: "echo", S: genWord(c)}}
		switch r.Intn(8) {
		case 0:
			w.Rs = []redir{{Mode: 1, Src: src{Kind: "file", Path: 3}}}
		case 1:
			w.Rs = []redir{{Mode: 2, Src: src{Kind: "file", Path: 3}}}
		case 2:
			w.Rs = []redir{{HasDst: true, Dst: fdv{Kind: "num", Num: 5}, Mode: 1, Src: src{Kind: "fd", Fd: fdv{Kind: "num", Num: 1}}}}
		case 3:
			w.Rs = []redir{{Mode: 1, Src: src{Kind: "close"}}}
		case 4:
			w.Rs = []redir{{Mode: 1, Src: src{Kind: "fd", Fd: fdv{Kind: "num", Num: 7}}}}
		}
		j.Prog.W = w
		g.reader = true
		j.Prog.F = g.genOuter()
		if r.Intn(2) == 0 {
			j.Prog.F = form{C: cmd{Kind: "slurp"}, Rs: j.Prog.F.Rs}
		}
	} else {
		j.Prog.F = g.genOuter()
	}
	j.Src = j.Prog.text(dir)
	return j
}

// ---------------------------------------------------------------- planted cases

func str(s string) *string { return &s }

func num(n int64) fdv { return fdv{Kind: "num", Num: n} }

func fileR(mode int, p int) redir { return redir{Mode: mode, Src: src{Kind: "file", Path: p}} }
func fileRd(dst int64, mode int, p int) redir {
	return redir{HasDst: true, Dst: num(dst), Mode: mode, Src: src{Kind: "file", Path: p}}
}
func dup(dst, s int64) redir {
	return redir{HasDst: true, Dst: num(dst), Mode: 1, Src: src{Kind: "fd", Fd: num(s)}}
}
func dupDefault(mode int, s int64) redir {
	return redir{Mode: mode, Src: src{Kind: "fd", Fd: num(s)}}
}
func closeR(dst int64) redir {
	return redir{HasDst: true, Dst: num(dst), Mode: 1, Src: src{Kind: "close"}}
}
func echoTo(s string, fd int64) form {
	return form{C: cmd{Kind: "echo", S: s}, Rs: []redir{dupDefault(1, fd)}}
}
func putTo(s string, fd int64) form {
	return form{C: cmd{Kind: "put", S: s}, Rs: []redir{dupDefault(1, fd)}}
}
func block(fs ...form) cmd { return cmd{Kind: "block", Body: fs} }

func planted(dir string) []job {
	all := []*string{str("hello\n"), str("0123456789\n"), nil, str("ab")}
	mk := func(p prog, env []string, extra []int) job {
		j := job{Fs: all, Env: env, Extra: extra, Prog: p}
		j.Src = p.text(dir)
		return j
	}
	one := func(f form) job { return mk(prog{F: f}, nil, nil) }
	e := func(s string) cmd { return cmd{Kind: "echo", S: s} }
	outerr := block(form{C: e("out")}, echoTo("err", 2))
	var js []job
	// the four operators on existing and missing files
	for mode := 0; mode < 4; mode++ {
		for p := 0; p < 4; p++ {
			js = append(js, one(form{C: block(form{C: e("xy")}, form{C: cmd{Kind: "slurp"}}), Rs: []redir{fileR(mode, p)}}))
			js = append(js, one(form{C: block(form{C: e("xy")}, form{C: e("z")}, form{C: cmd{Kind: "slurp"}, Rs: []redir{dupDefault(0, 1)}}),
				Rs: []redir{fileR(mode, p)}}))
		}
	}
	// the language reference's example: f >log 2>&1
	js = append(js, one(form{C: outerr, Rs: []redir{fileR(1, 2), dup(2, 1)}}))
	js = append(js, one(form{C: outerr, Rs: []redir{dup(2, 1), fileR(1, 2)}}))
	// shared offset after dup, with > and <>
	js = append(js, one(form{C: block(form{C: e("out")}, echoTo("err", 2), form{C: e("more")}), Rs: []redir{fileR(3, 1), dup(2, 1)}}))
	js = append(js, one(form{C: outerr, Rs: []redir{fileR(1, 2), fileRd(2, 1, 2)}}))
	js = append(js, one(form{C: outerr, Rs: []redir{fileR(2, 0), fileRd(2, 2, 0)}}))
	// closing
	js = append(js, one(form{C: cmd{Kind: "put", S: "v"}, Rs: []redir{{Mode: 1, Src: src{Kind: "close"}}}}))
	js = append(js, one(form{C: e("b"), Rs: []redir{{Mode: 1, Src: src{Kind: "close"}}}}))
	js = append(js, one(form{C: block(putTo("v", 5), form{C: e("after")}), Rs: []redir{closeR(5)}}))
	js = append(js, one(form{C: cmd{Kind: "put", S: "v"}, Rs: []redir{fileR(1, 2)}}))
	// invalid fds
	js = append(js, one(form{C: e("b"), Rs: []redir{dupDefault(1, 7)}}))
	js = append(js, one(form{C: e("b"), Rs: []redir{dup(9, 4)}}))
	js = append(js, one(form{C: e("b"), Rs: []redir{fileRd(5, 1, 2), dup(1, 4)}}))
	js = append(js, one(form{C: e("b"), Rs: []redir{fileRd(-1, 1, 2)}}))
	js = append(js, one(form{C: e("b"), Rs: []redir{fileRd(-3, 2, 0)}}))
	js = append(js, one(form{C: e("b"), Rs: []redir{dupDefault(1, -2)}}))
	js = append(js, one(form{C: cmd{Kind: "nop"}, Rs: []redir{dupDefault(1, -1)}}))
	js = append(js, one(form{C: e("b"), Rs: []redir{dupDefault(1, -1)}}))
	js = append(js, one(form{C: e("b"), Rs: []redir{dup(-1, 1)}}))
	js = append(js, one(form{C: block(echoTo("far", 5000)), Rs: []redir{fileRd(5000, 1, 2)}}))
	// an owned port replaced while still shared
	js = append(js, one(form{C: outerr, Rs: []redir{fileR(1, 2), dup(2, 1), fileR(1, 0)}}))
	js = append(js, one(form{C: e("b"), Rs: []redir{fileR(1, 2), dupDefault(1, 1)}}))
	js = append(js, one(form{C: block(echoTo("x", 3)), Rs: []redir{fileRd(4, 2, 0), dup(3, 4), closeR(4)}}))
	// replaced while not shared: closed at once, fine
	js = append(js, one(form{C: e("b"), Rs: []redir{fileR(1, 2), fileR(1, 0)}}))
	// failing body: files still closed
	js = append(js, one(form{C: cmd{Kind: "fail"}, Rs: []redir{fileR(1, 2), fileRd(5, 2, 0)}}))
	js = append(js, one(form{C: block(form{C: e("a")}, form{C: cmd{Kind: "fail"}}, form{C: e("b")}), Rs: []redir{fileR(1, 2)}}))
	js = append(js, one(form{C: e("b"), Rs: []redir{fileRd(5, 1, 2), fileR(0, 2), dupDefault(1, 9)}}))
	// file objects and maps
	js = append(js, mk(prog{F: form{C: e("b"), Rs: []redir{{Mode: 1, Src: src{Kind: "obj", Obj: 0}}}}}, []string{"out:2"}, nil))
	js = append(js, mk(prog{F: form{C: cmd{Kind: "slurp"}, Rs: []redir{{Mode: 0, Src: src{Kind: "obj", Obj: 0}}}}}, []string{"in:0"}, nil))
	js = append(js, mk(prog{F: form{C: e("b"), Rs: []redir{{Mode: 1, Src: src{Kind: "obj", Obj: 0}}}}}, []string{"pipe"}, nil))
	js = append(js, mk(prog{F: form{C: e("b"), Rs: []redir{{Mode: 2, Src: src{Kind: "obj", Obj: 0}}}}}, []string{"pipe"}, nil))
	js = append(js, mk(prog{F: form{C: e("b"), Rs: []redir{{Mode: 1, Src: src{Kind: "obj", Obj: 0}}}}}, []string{"empty"}, nil))
	js = append(js, mk(prog{F: form{C: e("b"), Rs: []redir{{Mode: 1, Src: src{Kind: "bad"}}}}}, nil, nil))
	// extra ports with a nil entry
	js = append(js, mk(prog{F: form{C: block(echoTo("p3", 3), putTo("v3", 3), echoTo("p5", 5)), Rs: nil}}, nil, []int{2, -1, 3}))
	js = append(js, mk(prog{F: form{C: e("b"), Rs: []redir{dupDefault(1, 4)}}}, nil, []int{2, -1, 3}))
	// pipelines
	sl := form{C: cmd{Kind: "slurp"}}
	js = append(js, mk(prog{Pipe: true, W: form{C: e("w")}, F: sl}, nil, nil))
	js = append(js, mk(prog{Pipe: true, W: form{C: e("w"), Rs: []redir{fileR(1, 3)}}, F: sl}, nil, nil))
	js = append(js, mk(prog{Pipe: true, W: form{C: e("w")}, F: form{C: cmd{Kind: "slurp"}, Rs: []redir{fileR(1, 2)}}}, nil, nil))
	js = append(js, mk(prog{Pipe: true, W: form{C: e("w")}, F: form{C: cmd{Kind: "slurp"}, Rs: []redir{fileR(0, 0)}}}, nil, nil))
	js = append(js, mk(prog{Pipe: true, W: form{C: e("w")}, F: form{C: cmd{Kind: "nop"}, Rs: []redir{{Mode: 0, Src: src{Kind: "close"}}}}}, nil, nil))
	js = append(js, mk(prog{Pipe: true, W: form{C: e("w")}, F: form{C: cmd{Kind: "slurp"}, Rs: []redir{{Mode: 0, Src: src{Kind: "obj", Obj: 0}}}}}, []string{"in:0"}, nil))
	js = append(js, mk(prog{Pipe: true, W: form{C: e("w"), Rs: []redir{dupDefault(1, 1)}}, F: sl}, nil, nil))
	return js
}

// ---------------------------------------------------------------- driver side

type desc struct {
	Src     string   `json:"src"`
	Fs      []string `json:"files"`
	Env     []string `json:"env,omitempty"`
	Extra   []int    `json:"extra,omitempty"`
	Obs     result   `json:"obs"`
	Crashed string   `json:"crash,omitempty"`
}

func fsCoq(fs []*string) string {
	var items []string
	for _, s := range fs {
		if s == nil {
			items = append(items, None())
		} else {
			items = append(items, Some(Str(*s)))
		}
	}
	return List(items)
}

func strsCoq(ss []string) string {
	var items []string
	for _, s := range ss {
		items = append(items, Str(s))
	}
	return List(items)
}

func emit(c *reg.Ctx, j job, res result, crash string, flags string) {
	var env []string
	for _, e := range j.Env {
		switch {
		case strings.HasPrefix(e, "in:"):
			env = append(env, App("OsIn", e[3:]+"%nat"))
		case strings.HasPrefix(e, "out:"):
			env = append(env, App("OsOut", e[4:]+"%nat"))
		case e == "pipe":
			env = append(env, "OsPipe")
		default:
			env = append(env, "OsMapEmpty")
		}
	}
	var extra []string
	for _, k := range j.Extra {
		if k < 0 {
			extra = append(extra, None())
		} else {
			extra = append(extra, Some(Nat(k)))
		}
	}
	var obs string
	if crash != "" {
		obs = App("mkObs", Bool(true), None(), "[]", "[]", "[]", "[]", Z(0))
	} else {
		exc := None()
		if res.Exc != "" {
			exc = Some(res.Exc)
		}
		var vs []string
		for _, v := range res.Values {
			vs = append(vs, strsCoq(v))
		}
		obs = App("mkObs", Bool(false), exc, fsCoq(res.Files), strsCoq(res.Bytes), List(vs), strsCoq(res.Pipes), Z(int64(res.FdDelta)))
	}
	class := classOf(j.Prog)
	c.Count(class)
	var fsd []string
	for _, s := range j.Fs {
		if s == nil {
			fsd = append(fsd, "<absent>")
		} else {
			fsd = append(fsd, *s)
		}
	}
	nred := len(j.Prog.F.Rs) + len(j.Prog.W.Rs)
	c.Emit(reg.Case{
		Coq:        App("mkCase", fsCoq(j.Fs), List(env), List(extra), j.Prog.coq(), flags, obs),
		Desc:       desc{Src: j.Src, Fs: fsd, Env: j.Env, Extra: j.Extra, Obs: res, Crashed: crash},
		Key:        fmt.Sprintf("%s|%v|%v|%v", j.Src, fsd, j.Env, j.Extra),
		Nontrivial: nred >= 1 && (j.Prog.F.C.Kind != "nop"),
		Class:      class,
	})
}

func run(c *reg.Ctx) {
	dir := c.Scratch + "/w"
	os.MkdirAll(dir, 0o755)
	var jobs []job
	for _, j := range planted(dir) {
		jobs = append(jobs, j)
	}
	for i := 0; i < c.N; i++ {
		jobs = append(jobs, genJob(c, 0, dir))
	}
	for i := range jobs {
		jobs[i].ID = i
	}
	d := &driver{dir: dir}
	defer d.stop()
	flags, err := d.flags()
	if err != nil {
		c.Emit(reg.Case{Direct: "C42 child could not report makeFlag: " + err.Error(), Class: "harness", Key: "flags"})
		return
	}
	for _, j := range jobs {
		res, crash, hang := d.do(j)
		if hang {
			c.Count("hang")
			c.Emit(reg.Case{Direct: "evaluation did not finish within the deadline: " + j.Src,
				Desc: desc{Src: j.Src}, Key: "hang|" + j.Src, Class: classOf(j.Prog), Nontrivial: true})
			continue
		}
		if crash == "" && res.Err != "" {
			c.Emit(reg.Case{Direct: "C42 harness problem: " + res.Err, Desc: desc{Src: j.Src}, Key: "err|" + j.Src, Class: "harness"})
			continue
		}
		emit(c, j, res, crash, flags)
	}
}
