package c42

// Child mode (VERIF_C42_CHILD=1): reads one JSON job per line on stdin, runs it
// in a fresh Evaler and answers one JSON line on stdout.  The parent restarts
// the child when it dies and records that job as a crash.

import (
	"bufio"
	"encoding/json"
	"errors"
	"fmt"
	"io"
	"os"
	"os/exec"
	"strings"
	"time"

	"src.elv.sh/pkg/eval"
	"src.elv.sh/pkg/eval/errs"
	"src.elv.sh/pkg/eval/vals"
	"src.elv.sh/pkg/mods"
	"src.elv.sh/pkg/parse"
	. "verifharness/coqfmt"
)

type result struct {
	ID      int        `json:"id"`
	Exc     string     `json:"exc,omitempty"` // Coq constructor of the kind
	Msg     string     `json:"msg,omitempty"`
	Files   []*string  `json:"files"`
	Bytes   []string   `json:"bytes"`
	Values  [][]string `json:"values"`
	Pipes   []string   `json:"pipes"`
	FdDelta int        `json:"fd_delta"`
	Flags   string     `json:"flags,omitempty"`
	Err     string     `json:"err,omitempty"` // harness-level problem
}

func countFds() int {
	es, err := os.ReadDir("/proc/self/fd")
	if err != nil {
		return -1
	}
	return len(es)
}

func excKind(err error) (string, string) {
	if err == nil {
		return "", ""
	}
	msg := err.Error()
	r := eval.Reason(err)
	if r == nil {
		r = err
	}
	var pe eval.PipelineError
	switch {
	case errors.As(r, &pe):
		return "EMulti", msg
	case r == eval.ErrPortDoesNotSupportValueOutput:
		return "EValueOut", msg
	case r == eval.ErrInterrupted:
		return "EInterrupted", msg
	}
	switch r.(type) {
	case eval.InvalidFD:
		return "EInvalidFD", msg
	case errs.BadValue:
		return "EBadValue", msg
	case eval.FailError:
		return "EFail", msg
	case *os.PathError:
		return "EIO", msg
	}
	if errors.Is(r, os.ErrInvalid) || errors.Is(r, os.ErrClosed) {
		return "EIO", msg
	}
	m := r.Error()
	if strings.HasPrefix(m, "failed to open file") || strings.HasPrefix(m, "can only use") {
		return "EOpen", msg
	}
	return "EOther", msg
}

func flagsCoq() string {
	var items []string
	for _, m := range []parse.RedirMode{parse.Read, parse.Write, parse.Append, parse.ReadWrite} {
		fl := eval.VerifC42MakeFlag(m)
		acc := fl & (os.O_RDONLY | os.O_WRONLY | os.O_RDWR)
		rd := acc == os.O_RDONLY || acc == os.O_RDWR
		wr := acc == os.O_WRONLY || acc == os.O_RDWR
		items = append(items, App("mkFlag", Bool(rd), Bool(wr), Bool(fl&os.O_CREATE != 0),
			Bool(fl&os.O_TRUNC != 0), Bool(fl&os.O_APPEND != 0)))
	}
	return List(items)
}

func runJob(dir string, j job) (res result) {
	res.ID = j.ID
	// files
	for p, s := range j.Fs {
		path := pathOf(dir, p)
		os.Remove(path)
		if s != nil {
			if err := os.WriteFile(path, []byte(*s), 0o644); err != nil {
				res.Err = err.Error()
				return
			}
		}
	}
	// sinks: one file and one channel per sink port
	nsinks := 2
	for _, k := range j.Extra {
		if k >= 0 {
			nsinks++
		}
	}
	sinkFiles := make([]*os.File, nsinks)
	sinkChans := make([]chan any, nsinks)
	for k := 0; k < nsinks; k++ {
		f, err := os.OpenFile(fmt.Sprintf("%s/sink%d", dir, k), os.O_WRONLY|os.O_CREATE|os.O_TRUNC, 0o644)
		if err != nil {
			res.Err = err.Error()
			return
		}
		sinkFiles[k] = f
		sinkChans[k] = make(chan any, 4096)
	}
	defer func() {
		for _, f := range sinkFiles {
			f.Close()
		}
	}()
	sinkPort := func(k int) *eval.Port { return &eval.Port{File: sinkFiles[k], Chan: sinkChans[k]} }
	ports := []*eval.Port{{File: eval.DevNull, Chan: eval.ClosedChan}, sinkPort(0), sinkPort(1)}
	for _, k := range j.Extra {
		if k < 0 {
			ports = append(ports, nil)
		} else {
			ports = append(ports, sinkPort(k))
		}
	}
	ev := eval.NewEvaler()
	mods.AddTo(ev)
	evalSrc := func(code string) error {
		return ev.Eval(parse.Source{Name: "c42", Code: code}, eval.EvalCfg{Ports: append([]*eval.Port(nil), ports...)})
	}
	// environment
	var pre strings.Builder
	pre.WriteString("use file\n")
	for i, e := range j.Env {
		switch {
		case strings.HasPrefix(e, "in:"):
			fmt.Fprintf(&pre, "var o%d = (file:open '%s/f%s')\n", i, dir, e[3:])
		case strings.HasPrefix(e, "out:"):
			fmt.Fprintf(&pre, "var o%d = (file:open-output '%s/f%s')\n", i, dir, e[4:])
		case e == "pipe":
			fmt.Fprintf(&pre, "var o%d = (file:pipe)\n", i)
		default:
			fmt.Fprintf(&pre, "var o%d = [&]\n", i)
		}
	}
	// the prelude uses output capture, which must not reach the sinks
	if err := ev.Eval(parse.Source{Name: "pre", Code: pre.String()}, eval.EvalCfg{}); err != nil {
		res.Err = "prelude: " + err.Error()
		return
	}
	before := countFds()
	err := evalSrc(j.Src)
	after := countFds()
	res.FdDelta = after - before
	res.Exc, res.Msg = excKind(err)
	// environment pipes: close the write end, read what is left
	for i, e := range j.Env {
		v, _ := ev.Global().Index(fmt.Sprintf("o%d", i))
		switch {
		case e == "pipe":
			w, _ := vals.Index(v, "w")
			r, _ := vals.Index(v, "r")
			if wf, ok := w.(*os.File); ok {
				wf.Close()
			}
			if rf, ok := r.(*os.File); ok {
				b, _ := io.ReadAll(rf)
				res.Pipes = append(res.Pipes, string(b))
				rf.Close()
			}
		case e == "empty":
		default:
			if f, ok := v.(*os.File); ok {
				f.Close()
			}
		}
	}
	if res.Pipes == nil {
		res.Pipes = []string{}
	}
	for p := range j.Fs {
		b, err := os.ReadFile(pathOf(dir, p))
		if err != nil {
			res.Files = append(res.Files, nil)
		} else {
			s := string(b)
			res.Files = append(res.Files, &s)
		}
	}
	for k := 0; k < nsinks; k++ {
		b, _ := os.ReadFile(fmt.Sprintf("%s/sink%d", dir, k))
		res.Bytes = append(res.Bytes, string(b))
		vs := []string{}
	drain:
		for {
			select {
			case v := <-sinkChans[k]:
				vs = append(vs, vals.ToString(v))
			default:
				break drain
			}
		}
		res.Values = append(res.Values, vs)
	}
	return
}

func childMain() {
	dir := os.Getenv("VERIF_C42_DIR")
	in := bufio.NewReaderSize(os.Stdin, 1<<20)
	out := bufio.NewWriter(os.Stdout)
	enc := json.NewEncoder(out)
	// warm up the runtime (epoll descriptors, module loading) before any census
	{
		ev := eval.NewEvaler()
		mods.AddTo(ev)
		ev.Eval(parse.Source{Name: "warm", Code: "use file; var p = (file:pipe); file:close $p[r]; file:close $p[w]; nop (echo a | slurp)"}, eval.EvalCfg{})
	}
	for {
		line, err := in.ReadBytes('\n')
		if len(line) > 0 {
			var j job
			if e := json.Unmarshal(line, &j); e != nil {
				enc.Encode(result{ID: -1, Err: e.Error()})
			} else if j.ID == -2 {
				enc.Encode(result{ID: -2, Flags: flagsCoq()})
			} else {
				enc.Encode(runJob(dir, j))
			}
			out.Flush()
		}
		if err != nil {
			return
		}
	}
}

// ---------------------------------------------------------------- parent side

type driver struct {
	dir   string
	cmd   *exec.Cmd
	stdin io.WriteCloser
	lines chan []byte
	errb  *strings.Builder
}

func (d *driver) start() error {
	exe, err := os.Executable()
	if err != nil {
		return err
	}
	cmd := exec.Command(exe)
	cmd.Env = append(os.Environ(), "VERIF_C42_CHILD=1", "VERIF_C42_DIR="+d.dir, "GOTRACEBACK=single")
	d.errb = &strings.Builder{}
	cmd.Stderr = &capWriter{b: d.errb, max: 4000}
	d.stdin, _ = cmd.StdinPipe()
	so, _ := cmd.StdoutPipe()
	if err := cmd.Start(); err != nil {
		return err
	}
	d.cmd = cmd
	d.lines = make(chan []byte, 4)
	go func(ch chan []byte) {
		r := bufio.NewReaderSize(so, 1<<20)
		for {
			l, err := r.ReadBytes('\n')
			if len(l) > 0 {
				ch <- l
			}
			if err != nil {
				close(ch)
				return
			}
		}
	}(d.lines)
	return nil
}

type capWriter struct {
	b   *strings.Builder
	max int
}

func (w *capWriter) Write(p []byte) (int, error) {
	if w.b.Len() < w.max {
		w.b.Write(p)
	}
	return len(p), nil
}

func (d *driver) stop() {
	if d.cmd != nil {
		d.stdin.Close()
		d.cmd.Process.Kill()
		d.cmd.Wait()
		d.cmd = nil
	}
}

// ask sends one job and waits for the answer; died = the child exited instead.
func (d *driver) ask(j job, deadline time.Duration) (res result, died string, hang bool) {
	if d.cmd == nil {
		if err := d.start(); err != nil {
			return result{Err: err.Error()}, "", false
		}
	}
	b, _ := json.Marshal(j)
	d.stdin.Write(append(b, '\n'))
	select {
	case l, ok := <-d.lines:
		if !ok {
			d.cmd.Wait()
			msg := d.errb.String()
			if i := strings.Index(msg, "\n\n"); i > 0 {
				msg = msg[:i]
			}
			if msg == "" {
				msg = "child exited"
			}
			d.cmd = nil
			return result{}, msg, false
		}
		json.Unmarshal(l, &res)
		return res, "", false
	case <-time.After(deadline):
		d.stop()
		return result{}, "", true
	}
}

func (d *driver) flags() (string, error) {
	res, died, hang := d.ask(job{ID: -2}, 120*time.Second)
	if died != "" || hang || res.Flags == "" {
		return "", fmt.Errorf("no answer (%s)", died)
	}
	return res.Flags, nil
}

func (d *driver) do(j job) (result, string, bool) {
	res, died, hang := d.ask(j, 120*time.Second)
	return res, died, hang
}
