package c15

// Fixed programs run first on every check: the constructs whose interaction
// random generation reaches rarely, and the planted defect classes.

func s(x string) Expr         { return EStr{x} }
func v(id int) Expr           { return EVar{id} }
func put(es ...Expr) Pipeline { return Pipeline{CBuiltin{B: "put", Args: es}} }
func bi(b string, es ...Expr) Pipeline {
	return Pipeline{CBuiltin{B: b, Args: es}}
}
func varDecl(id int, e Expr) Pipeline {
	return Pipeline{CVar{Lvs: []LValue{{X: id}}, Rhs: []Expr{e}, HasRhs: true}}
}
func list(es ...Expr) Expr { return EList{es} }

// Fixed returns the fixed corpus.
func Fixed() []Chunk {
	f0 := FnBase
	chunkp := func(c Chunk) *Chunk { return &c }
	return []Chunk{
		// set a[0] a[1] = x y (DESIGN section 7 item 13)
		{varDecl(0, list(s("1"), s("2"))),
			{CSet{Lvs: []LValue{{X: 0, Ix: []Expr{s("0")}}, {X: 0, Ix: []Expr{s("1")}}}, Rhs: []Expr{s("x"), s("y")}}},
			put(v(0))},
		// the same through with and tmp
		{varDecl(0, list(s("1"), s("2"))),
			{CWith{Assigns: []Assign{{[]LValue{{X: 0, Ix: []Expr{s("0")}}, {X: 0, Ix: []Expr{s("1")}}}, []Expr{s("x"), s("y")}}}, Body: Chunk{put(v(0))}}},
			put(v(0))},
		{varDecl(0, list(s("1"), list(s("2")))),
			{CCall{Head: ELam{Sig{Rest: -1}, Chunk{
				{CTmp{Lvs: []LValue{{X: 0, Ix: []Expr{s("1")}}, {X: 0, Ix: []Expr{s("0")}}}, Rhs: []Expr{s("x"), s("y")}}},
				put(v(0))}}}},
			put(v(0))},
		// right-hand side assigns the variable whose element is being set
		{varDecl(0, list(s("a"), s("b"))),
			{CSet{Lvs: []LValue{{X: 0, Ix: []Expr{s("0")}}}, Rhs: []Expr{ECapture{Chunk{
				{CSet{Lvs: []LValue{{X: 0}}, Rhs: []Expr{list(s("c"), s("d"))}}}, put(s("e"))}}}}},
			put(v(0))},
		// break inside try inside for inside a closure called from a pipeline, with a finally
		{{CBuiltin{B: "put", Args: []Expr{s("a"), s("b")}}, CBuiltin{B: "each", Args: []Expr{ELam{Sig{Args: []int{OptBase}, Rest: -1}, Chunk{
			{CFor{Decl: true, X: 1, E: list(s("1"), s("2"), s("3")), Body: Chunk{
				{CTry{Body: Chunk{put(v(1)), bi("break")}, CatchVar: -1, Fin: chunkp(Chunk{put(s("fin"), v(OptBase))})}},
				put(s("unreached"))}}},
			put(s("after"))}}}}}},
		// closures: counter pair sharing one variable, distinct instances
		{{CFn{F: f0, Sig: Sig{Rest: -1}, Body: Chunk{varDecl(0, s("0")),
			put(ELam{Sig{Rest: -1}, Chunk{put(v(0))}}, ELam{Sig{Rest: -1}, Chunk{{CSet{Lvs: []LValue{{X: 0}}, Rhs: []Expr{cap1(CBuiltin{B: "+", Args: []Expr{v(0), s("1")}})}}}}})}}},
			{CVar{Lvs: []LValue{{X: 1}, {X: 2}}, Rhs: []Expr{cap1(CCmd{F: f0})}, HasRhs: true}},
			{CCall{Head: v(1)}}, {CCall{Head: v(2)}}, {CCall{Head: v(1)}},
			{CVar{Lvs: []LValue{{X: 3}, {X: 4}}, Rhs: []Expr{cap1(CCmd{F: f0})}, HasRhs: true}},
			{CCall{Head: v(3)}}, {CCall{Head: v(1)}}},
		// shadowing: the function keeps the old variable
		{varDecl(0, s("old")), {CFn{F: f0, Sig: Sig{Rest: -1}, Body: Chunk{put(v(0))}}}, varDecl(0, list(v(0))), put(v(0)), {CCmd{F: f0}}},
		// recursion
		{{CFn{F: f0, Sig: Sig{Args: []int{OptBase}, Rest: -1}, Body: Chunk{{CIf{
			Conds:  []Expr{cap1(CBuiltin{B: "<=", Args: []Expr{v(OptBase), s("0")}})},
			Bodies: []Chunk{{put(s("1"))}},
			Else:   chunkp(Chunk{bi("*", v(OptBase), cap1(CCmd{F: f0, Args: []Expr{cap1(CBuiltin{B: "-", Args: []Expr{v(OptBase), s("1")}})}}))})}}}}},
			{CCmd{F: f0, Args: []Expr{s("5")}}}},
		// return falls through lambdas to the fn; defers of both run
		{{CFn{F: f0, Sig: Sig{Rest: -1}, Body: Chunk{
			bi("defer", ELam{Sig{Rest: -1}, Chunk{put(s("d-outer"))}}),
			{CCall{Head: ELam{Sig{Rest: -1}, Chunk{bi("defer", ELam{Sig{Rest: -1}, Chunk{put(s("d-inner"))}}), put(s("a")), bi("return")}}}},
			put(s("unreached"))}}},
			{CCmd{F: f0}}, put(s("c"))},
		// capture does not introduce a scope
		{bi("nop", ECapture{Chunk{varDecl(0, s("foo"))}}), put(v(0))},
		// rest arguments and options
		{{CFn{F: f0, Sig: Sig{Args: []int{OptBase, OptBase + 1, OptBase + 2}, Rest: 1, Opts: []Opt{{OptBase + 3, s("d")}}},
			Body: Chunk{put(v(OptBase), v(OptBase+1), v(OptBase+2), v(OptBase+3))}}},
			{CCmd{F: f0, Args: []Expr{s("1"), s("2"), s("3"), s("4")}, Opts: []Opt{{OptBase + 3, s("x")}}}},
			{CCmd{F: f0, Args: []Expr{s("1"), s("2")}}},
			{CCmd{F: f0, Args: []Expr{s("1")}}}},
		// defer: a callback that succeeds must not disturb the caller (checks/C15.md)
		{{CFor{Decl: true, X: 0, E: list(s("a"), s("b")), Body: Chunk{bi("defer", ELam{Sig{Rest: -1}, Chunk{put(s("d"))}}), put(v(0))}}}},
		{{CTry{Body: Chunk{bi("defer", ELam{Sig{Rest: -1}, Chunk{put(s("d"))}})}, HasCatch: true, CatchVar: 0, CatchDecl: true, Catch: Chunk{put(s("caught"), v(0))}, Else: chunkp(Chunk{put(s("else"))})}}},
		{{CTry{Body: Chunk{bi("fail", s("x"))}, CatchVar: -1, Fin: chunkp(Chunk{bi("defer", ELam{Sig{Rest: -1}, Chunk{put(s("d"))}})})}}, put(s("after"))},
		{{CCall{Head: ELam{Sig{Rest: -1}, Chunk{bi("defer", ELam{Sig{Rest: -1}, Chunk{bi("fail", s("a"))}}), bi("defer", ELam{Sig{Rest: -1}, Chunk{put(s("b"))}}), put(s("c"))}}}}, put(s("after"))},
		// loops with else: the else block runs only if the body never ran, also when the
		// last iteration ended by break / continue
		{varDecl(0, s("0")), {CWhile{Cond: cap1(CBuiltin{B: "<", Args: []Expr{v(0), s("2")}}),
			Body: Chunk{{CSet{Lvs: []LValue{{X: 0}}, Rhs: []Expr{cap1(CBuiltin{B: "+", Args: []Expr{v(0), s("1")}})}}}, put(v(0)), bi("continue")},
			Else: chunkp(Chunk{put(s("else"))})}}, put(s("end"))},
		{varDecl(0, s("0")), {CWhile{Cond: cap1(CBuiltin{B: "<", Args: []Expr{v(0), s("2")}}),
			Body: Chunk{{CSet{Lvs: []LValue{{X: 0}}, Rhs: []Expr{cap1(CBuiltin{B: "+", Args: []Expr{v(0), s("1")}})}}}, put(v(0)), bi("break")},
			Else: chunkp(Chunk{put(s("else"))})}}, put(s("end"))},
		{{CFor{Decl: true, X: 0, E: list(s("a"), s("b")), Body: Chunk{put(v(0)), bi("break")}, Else: chunkp(Chunk{put(s("else"))})}},
			{CFor{Decl: false, X: 0, E: list(), Body: Chunk{put(v(0))}, Else: chunkp(Chunk{put(s("else"), v(0))})}}},
		{{CWhile{Cond: v(ConstFalse), Body: Chunk{put(s("body"))}, Else: chunkp(Chunk{put(s("else"))})}}},
		// pipeline with two failing stages
		{{CCall{Head: ELam{Sig{Rest: -1}, Chunk{put(s("1")), bi("fail", s("a"))}}}, CBuiltin{B: "each", Args: []Expr{ELam{Sig{Args: []int{OptBase}, Rest: -1}, Chunk{put(v(OptBase)), bi("fail", s("b"))}}}}}},
	}
}
