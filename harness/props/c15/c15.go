package c15

import (
	"fmt"
	"os"

	. "verifharness/coqfmt"
	"verifharness/reg"
)

func init() {
	reg.Register(&reg.Spec{ID: "C15",
		Imports: "From verif Require Import lib.Base model.C15_Syntax model.C15.",
		Judge:   "C15.judge", Shard: 30, Run: run})
}

type desc struct {
	Src string `json:"src"`
	Out string `json:"out"`
	Exc string `json:"exc,omitempty"`
}

// ---- input classes (computed from the program text only) ----

func exprsMayAssign(es []Expr) bool {
	for _, e := range es {
		if exprMayAssign(e) {
			return true
		}
	}
	return false
}

// does evaluating e possibly run an assignment or user code?
func exprMayAssign(e Expr) bool {
	switch e := e.(type) {
	case EList:
		return exprsMayAssign(e.Es)
	case EMap:
		return exprsMayAssign(e.Ks) || exprsMayAssign(e.Vs)
	case EBraced:
		return exprsMayAssign(e.Es)
	case EIndex:
		return exprMayAssign(e.E) || exprsMayAssign(e.Ix)
	case ECompound:
		return exprsMayAssign(e.Es)
	case ECapture:
		return chunkMayAssign(e.C)
	case EExcCapture:
		return chunkMayAssign(e.C)
	}
	return false
}

func chunkMayAssign(c Chunk) bool {
	for _, p := range c {
		for _, cm := range p {
			switch cm := cm.(type) {
			case CBuiltin:
				if cm.B == "each" || cm.B == "defer" || exprsMayAssign(cm.Args) {
					return true
				}
			case CAnd:
				if exprsMayAssign(cm.Es) {
					return true
				}
			case COr:
				if exprsMayAssign(cm.Es) {
					return true
				}
			case CCoalesce:
				if exprsMayAssign(cm.Es) {
					return true
				}
			default:
				return true
			}
		}
	}
	return false
}

func assignClass(lvs []LValue, rhs []Expr) string {
	elem := map[int]bool{}
	count := map[int]int{}
	for _, lv := range lvs {
		count[lv.X]++
		if len(lv.Ix) > 0 {
			elem[lv.X] = true
		}
	}
	for x := range elem {
		if count[x] > 1 {
			return "multi-elem-lvalue-same-var"
		}
	}
	if len(elem) > 0 {
		if exprsMayAssign(rhs) {
			return "elem-lvalue-rhs-runs-code"
		}
		for _, lv := range lvs {
			if exprsMayAssign(lv.Ix) {
				return "elem-lvalue-rhs-runs-code"
			}
		}
	}
	return ""
}

// number of `defer` calls made directly by a closure body (captures do not
// start a new frame)
func directDefers(c Chunk) int {
	n := 0
	var inE func(e Expr)
	inEs := func(es []Expr) {
		for _, e := range es {
			inE(e)
		}
	}
	inE = func(e Expr) {
		switch e := e.(type) {
		case ECapture:
			n += directDefers(e.C)
		case EExcCapture:
			n += directDefers(e.C)
		case EList:
			inEs(e.Es)
		case EBraced:
			inEs(e.Es)
		case ECompound:
			inEs(e.Es)
		case EIndex:
			inE(e.E)
			inEs(e.Ix)
		case EMap:
			inEs(e.Ks)
			inEs(e.Vs)
		}
	}
	for _, p := range c {
		for _, cm := range p {
			switch cm := cm.(type) {
			case CBuiltin:
				if cm.B == "defer" {
					n++
				}
				inEs(cm.Args)
			case CCall:
				inEs(cm.Args)
			case CCmd:
				inEs(cm.Args)
			case CVar:
				inEs(cm.Rhs)
			case CSet:
				inEs(cm.Rhs)
			case CAnd:
				inEs(cm.Es)
			case COr:
				inEs(cm.Es)
			}
		}
	}
	return n
}

// a fixed finding (checks/C15.findings.jsonl): the class only names the input shape
const deferClass = "defer-ok-exception"

// ClassOf walks the program and reports the first defect-prone input class.
func ClassOf(c Chunk) string {
	cls := ""
	var walkE func(e Expr)
	var walkC func(c Chunk)
	note := func(s string) {
		if cls == "" {
			cls = s
		}
	}
	walkEs := func(es []Expr) {
		for _, e := range es {
			walkE(e)
		}
	}
	walkOpts := func(os []Opt) {
		for _, o := range os {
			walkE(o.E)
		}
	}
	walkLvs := func(lvs []LValue) {
		for _, lv := range lvs {
			walkEs(lv.Ix)
		}
	}
	walkE = func(e Expr) {
		switch e := e.(type) {
		case EList:
			walkEs(e.Es)
		case EMap:
			walkEs(e.Ks)
			walkEs(e.Vs)
		case ELam:
			walkOpts(e.Sig.Opts)
			if directDefers(e.Body) >= 2 {
				note(deferClass)
			}
			walkC(e.Body)
		case ECapture:
			walkC(e.C)
		case EExcCapture:
			walkC(e.C)
		case EBraced:
			walkEs(e.Es)
		case EIndex:
			walkE(e.E)
			walkEs(e.Ix)
		case ECompound:
			walkEs(e.Es)
		}
	}
	opt := func(c *Chunk) {
		if c != nil {
			if directDefers(*c) >= 2 {
				note(deferClass)
			}
			walkC(*c)
		}
	}
	// a block whose caller inspects the result of the call
	strict := func(c Chunk) {
		if directDefers(c) >= 1 {
			note(deferClass)
		}
	}
	loose := func(c Chunk) {
		if directDefers(c) >= 2 {
			note(deferClass)
		}
	}
	walkC = func(c Chunk) {
		for _, p := range c {
			for _, cm := range p {
				switch cm := cm.(type) {
				case CCall:
					walkE(cm.Head)
					walkEs(cm.Args)
					walkOpts(cm.Opts)
				case CCmd:
					walkEs(cm.Args)
					walkOpts(cm.Opts)
				case CBuiltin:
					walkEs(cm.Args)
					walkOpts(cm.Opts)
				case CVar:
					walkEs(cm.Rhs)
				case CSet:
					note(assignClass(cm.Lvs, cm.Rhs))
					walkLvs(cm.Lvs)
					walkEs(cm.Rhs)
				case CTmp:
					note(assignClass(cm.Lvs, cm.Rhs))
					walkLvs(cm.Lvs)
					walkEs(cm.Rhs)
				case CWith:
					for _, a := range cm.Assigns {
						note(assignClass(a.Lvs, a.Rhs))
						walkLvs(a.Lvs)
						walkEs(a.Rhs)
					}
					loose(cm.Body)
					walkC(cm.Body)
				case CDel:
					walkLvs(cm.Ts)
				case CIf:
					walkEs(cm.Conds)
					for _, b := range cm.Bodies {
						loose(b)
						walkC(b)
					}
					opt(cm.Else)
				case CWhile:
					walkE(cm.Cond)
					strict(cm.Body)
					walkC(cm.Body)
					opt(cm.Else)
				case CFor:
					walkE(cm.E)
					strict(cm.Body)
					walkC(cm.Body)
					opt(cm.Else)
				case CTry:
					strict(cm.Body)
					walkC(cm.Body)
					loose(cm.Catch)
					walkC(cm.Catch)
					opt(cm.Else)
					if cm.Fin != nil {
						strict(*cm.Fin)
					}
					opt(cm.Fin)
				case CFn:
					walkOpts(cm.Sig.Opts)
					loose(cm.Body)
					walkC(cm.Body)
				case CAnd:
					walkEs(cm.Es)
				case COr:
					walkEs(cm.Es)
				case CCoalesce:
					walkEs(cm.Es)
				}
			}
		}
	}
	walkC(c)
	if cls == "" {
		return "core"
	}
	return cls
}

func countCmds(c Chunk) int {
	n := 0
	for _, p := range c {
		n += len(p)
	}
	return n
}

var staticErrs, hangs int

// Emit runs prog and emits the case (program term, observed outputs, observed exception).
func Emit(c *reg.Ctx, bucket string, prog Chunk) {
	src := ProgSrc(prog)
	o := Run(src)
	class := ClassOf(prog)
	switch {
	case o.Hang:
		hangs++
		c.Count(bucket + "/hang")
		c.Emit(reg.Case{Desc: desc{Src: src}, Key: src, Class: class, Direct: "program did not finish within 20 s"})
		return
	case o.Panic != "":
		c.Count(bucket + "/panic")
		c.Emit(reg.Case{Desc: desc{Src: src, Exc: o.Panic}, Key: src, Class: class, Direct: "the evaluator panicked: " + o.Panic})
		return
	case o.Static:
		// a generator defect, not an observation of the property
		staticErrs++
		c.Count(bucket + "/static-error")
		if staticErrs <= 3 {
			fmt.Fprintf(os.Stderr, "c15: generated program does not compile: %v\n%s\n", o.Err, src)
		}
		return
	}
	c.Count(bucket + "/" + class)
	if o.Err != nil {
		c.Count("exception")
	}
	c.Emit(reg.Case{
		Coq:        App("mkCase", ChunkCoq(prog), ValsCoq(o.Out), ExcCoq(o.Err)),
		Desc:       desc{src, ValsText(o.Out), ExcText(o.Err)},
		Key:        src,
		Nontrivial: countCmds(prog) >= 2 && (len(o.Out) > 0 || o.Err != nil),
		Class:      class,
	})
}

func run(c *reg.Ctx) {
	for _, p := range Fixed() {
		Emit(c, "fixed", p)
	}
	for i := 0; i < c.N; i++ {
		g := NewGen(c.Rand)
		if i%12 == 11 {
			// the recorded defect classes, reached randomly as well
			g.Plant = true
			Emit(c, "planted", g.Program())
			continue
		}
		var prog Chunk
		for tries := 0; ; tries++ {
			prog = g.Program()
			if cls := ClassOf(prog); cls == "core" || cls == deferClass || tries > 20 {
				break
			}
			g = NewGen(c.Rand)
		}
		Emit(c, "random", prog)
	}
}
