package c15

import (
	"math/rand"
)

// Type-directed random program generator for the core language.

type Ty int

const (
	TStr    Ty = iota // a word
	TNumStr           // a string that is a decimal integer
	TNum              // a typed number
	TBool
	TList
	TMap
	TExc // an exception value (catch variable)
	TFn  // a closure
	TAny
)

type FnInfo struct {
	Sig      Sig
	ArgTys   []Ty
	Pure     bool // assigns nothing outside itself
	Recurses bool
}

type varInfo struct {
	id        int
	ty        Ty
	fn        *FnInfo
	protected bool
	born      int // birth stamp of the declaring scope
}

type scope struct {
	vars   []*varInfo
	parent *scope
	born   int
	noDecl bool // no declarations here (inside a capture)
	isBody bool // a closure body: `del` may remove its own variables
}

func (s *scope) find(id int) *varInfo {
	for sc := s; sc != nil; sc = sc.parent {
		for i := len(sc.vars) - 1; i >= 0; i-- {
			if sc.vars[i].id == id {
				return sc.vars[i]
			}
		}
	}
	return nil
}

func (s *scope) all() []*varInfo {
	seen := map[int]bool{}
	var out []*varInfo
	for sc := s; sc != nil; sc = sc.parent {
		for i := len(sc.vars) - 1; i >= 0; i-- {
			v := sc.vars[i]
			if !seen[v.id] {
				seen[v.id] = true
				out = append(out, v)
			}
		}
	}
	return out
}

func (s *scope) declScope() *scope {
	sc := s
	for sc.noDecl {
		sc = sc.parent
	}
	return sc
}

type Gen struct {
	R        *rand.Rand
	MaxDepth int
	nextVar  int
	nextFn   int
	nextOpt  int
	stamp    int
	// context
	inFn      int // nesting of closure bodies (tmp/defer allowed)
	inLoop    int
	pureSince int // -1: not in pure mode; otherwise assignable scopes have born >= pureSince
	fnBorn    []int
	fnImpure  []bool
	noCalls   int // no user calls / assignments (right-hand sides of element assignments)
	budget    int // remaining compound statements
	// feature knobs (C21 / C14 reuse the generator with other weights)
	Errors float64 // probability of a deliberately ill-typed operation
	Plant  bool    // also produce the recorded defect classes
	// per closure frame: has `defer` been used already (at most one per frame, to
	// keep callbacks spread over frames)
	deferOK []bool
}

// defer may be used in every kind of frame, loop and try bodies included
// (the class defer-ok-exception is fixed: checks/C15.fixes/defer-ok-exception.diff)
func (g *Gen) canDefer() bool {
	return g.Plant || len(g.deferOK) == 0 || g.deferOK[len(g.deferOK)-1] || g.p(0.5)
}

func NewGen(r *rand.Rand) *Gen {
	return &Gen{R: r, MaxDepth: 6, pureSince: -1, Errors: 0.06}
}

func (g *Gen) newScope(parent *scope) *scope {
	g.stamp++
	return &scope{parent: parent, born: g.stamp}
}

func (g *Gen) p(x float64) bool { return g.R.Float64() < x }
func (g *Gen) n(k int) int      { return g.R.Intn(k) }

var words = []string{"a", "b", "c", "foo", "bar", "x1", "k", "lorem"}
var numStrs = []string{"0", "1", "2", "3", "5", "10", "-1", "-2", "7"}
var idxStrs = []string{"0", "1", "-1", "2", "0", "1"}
var sliceStrs = []string{"1..", "..1", "0..2", "..=1", "-2..", "..", "1..=1"}

func (g *Gen) word() Expr   { return EStr{words[g.n(len(words))]} }
func (g *Gen) numStr() Expr { return EStr{numStrs[g.n(len(numStrs))]} }

func (g *Gen) varsOf(sc *scope, pred func(*varInfo) bool) []*varInfo {
	var out []*varInfo
	for _, v := range sc.all() {
		if pred(v) {
			out = append(out, v)
		}
	}
	return out
}

func (g *Gen) pickVar(sc *scope, ty Ty) *varInfo {
	vs := g.varsOf(sc, func(v *varInfo) bool { return v.ty == ty || (ty == TAny && v.ty != TFn && v.ty != TExc) })
	if len(vs) == 0 {
		return nil
	}
	return vs[g.n(len(vs))]
}

func (g *Gen) assignable(v *varInfo) bool {
	if v.protected || v.ty == TFn || v.ty == TExc || v.id >= FnBase {
		return false
	}
	if g.pureSince >= 0 && v.born < g.pureSince {
		return false
	}
	return true
}

func (g *Gen) noteAssign(v *varInfo) {
	for i := range g.fnBorn {
		if v.born < g.fnBorn[i] {
			g.fnImpure[i] = true
		}
	}
}

func (g *Gen) noteImpureCall() {
	for i := range g.fnImpure {
		g.fnImpure[i] = true
	}
}

func cap1(c Cmd) Expr { return ECapture{Chunk{Pipeline{c}}} }

// ---------------------------------------------------------------- expressions

func (g *Gen) anyTy() Ty {
	return []Ty{TStr, TStr, TNumStr, TNumStr, TNum, TBool, TList, TList, TMap}[g.n(9)]
}

// Expr of (probably) type ty yielding exactly one value.
func (g *Gen) Expr(sc *scope, ty Ty, d int) Expr {
	if ty == TAny {
		ty = g.anyTy()
	}
	if g.p(g.Errors) {
		// deliberately ill-typed: another type
		ty = g.anyTy()
	}
	if g.p(0.3) {
		if v := g.pickVar(sc, ty); v != nil {
			return EVar{v.id}
		}
	}
	deep := d < g.MaxDepth
	switch ty {
	case TStr:
		switch {
		case deep && g.p(0.15):
			// compound
			parts := []Expr{g.word()}
			if v := g.pickVar(sc, TStr); v != nil && g.p(0.6) {
				parts = append(parts, EVar{v.id})
			} else if g.p(0.5) {
				parts = append(parts, g.Expr(sc, TNum, d+1))
			} else {
				parts = append(parts, EBraced{[]Expr{g.word()}})
			}
			if g.p(0.3) {
				parts = append([]Expr{g.indexExpr(sc, d+1)}, parts...)
			}
			return ECompound{parts}
		case deep && g.p(0.15):
			return g.indexExpr(sc, d+1)
		case deep && g.p(0.08):
			return cap1(CCoalesce{[]Expr{EVar{ConstNil}, g.word()}})
		}
		return g.word()
	case TNumStr:
		return g.numStr()
	case TNum:
		if !deep {
			return cap1(CBuiltin{B: "+", Args: []Expr{g.numStr()}})
		}
		switch g.n(6) {
		case 0:
			if v := g.pickVar(sc, TList); v != nil {
				return cap1(CBuiltin{B: "count", Args: []Expr{EVar{v.id}}})
			}
			fallthrough
		case 1:
			return cap1(CBuiltin{B: "%", Args: []Expr{g.num(sc, d+1), g.num(sc, d+1)}})
		default:
			ops := []string{"+", "+", "-", "*"}
			n := 1 + g.n(3)
			args := make([]Expr, n)
			for i := range args {
				args[i] = g.num(sc, d+1)
			}
			return cap1(CBuiltin{B: ops[g.n(len(ops))], Args: args})
		}
	case TBool:
		if !deep || g.p(0.3) {
			if g.p(0.5) {
				return EVar{ConstTrue}
			}
			return EVar{ConstFalse}
		}
		switch g.n(7) {
		case 0:
			return cap1(CBuiltin{B: "eq", Args: []Expr{g.Expr(sc, TStr, d+1), g.Expr(sc, TStr, d+1)}})
		case 1:
			return cap1(CBuiltin{B: "not", Args: []Expr{g.Expr(sc, TBool, d+1)}})
		case 2:
			return EExcCapture{g.smallChunk(sc, d+1)}
		case 3:
			return cap1(CAnd{[]Expr{g.Expr(sc, TBool, d+1), g.Expr(sc, TAny, d+1)}})
		case 4:
			return cap1(COr{[]Expr{g.Expr(sc, TBool, d+1), g.Expr(sc, TAny, d+1)}})
		default:
			ops := []string{"<", "<=", "==", "!=", ">", ">="}
			op := ops[g.n(len(ops))]
			n := 2
			if op != "!=" && g.p(0.2) {
				n = 3
			}
			args := make([]Expr, n)
			for i := range args {
				args[i] = g.num(sc, d+1)
			}
			return cap1(CBuiltin{B: op, Args: args})
		}
	case TList:
		if deep && g.p(0.15) {
			if v := g.pickVar(sc, TList); v != nil {
				return EIndex{EVar{v.id}, []Expr{EStr{sliceStrs[g.n(len(sliceStrs))]}}}
			}
		}
		n := g.n(4)
		es := make([]Expr, 0, n)
		for i := 0; i < n; i++ {
			switch {
			case deep && g.p(0.15):
				es = append(es, g.Expr(sc, TList, d+2))
			case deep && g.p(0.1):
				es = append(es, g.multi(sc, d+1))
			case g.p(0.4):
				es = append(es, g.numStr())
			default:
				es = append(es, g.Expr(sc, TStr, d+1))
			}
		}
		return EList{es}
	case TMap:
		n := g.n(3)
		m := EMap{}
		for i := 0; i < n; i++ {
			m.Ks = append(m.Ks, g.word())
			if deep && g.p(0.25) {
				m.Vs = append(m.Vs, g.Expr(sc, []Ty{TList, TMap}[g.n(2)], d+2))
			} else {
				m.Vs = append(m.Vs, g.Expr(sc, TStr, d+1))
			}
		}
		return m
	}
	return g.word()
}

func (g *Gen) num(sc *scope, d int) Expr {
	if g.p(g.Errors / 2) {
		return g.word()
	}
	if g.p(0.25) {
		if v := g.pickVar(sc, []Ty{TNumStr, TNum}[g.n(2)]); v != nil {
			return EVar{v.id}
		}
	}
	if d < g.MaxDepth && g.p(0.2) {
		return g.Expr(sc, TNum, d+1)
	}
	return g.numStr()
}

// an expression that may yield several values
func (g *Gen) multi(sc *scope, d int) Expr {
	switch g.n(5) {
	case 0:
		return EBraced{[]Expr{g.word(), g.numStr()}}
	case 1:
		if v := g.pickVar(sc, TList); v != nil {
			return EExplode{v.id}
		}
		fallthrough
	case 2:
		return cap1(CBuiltin{B: "put", Args: []Expr{g.word(), g.word()}})
	case 3:
		return cap1(CBuiltin{B: "range", Args: []Expr{EStr{[]string{"0", "2", "3"}[g.n(3)]}}})
	default:
		return ECompound{[]Expr{EBraced{[]Expr{g.word(), g.word()}}, EBraced{[]Expr{g.numStr(), g.numStr()}}}}
	}
}

func (g *Gen) indexExpr(sc *scope, d int) Expr {
	if v := g.pickVar(sc, TMap); v != nil && g.p(0.4) {
		return EIndex{EVar{v.id}, []Expr{g.word()}}
	}
	if v := g.pickVar(sc, TList); v != nil && g.p(0.7) {
		ix := Expr(EStr{idxStrs[g.n(len(idxStrs))]})
		if g.p(0.15) {
			ix = g.Expr(sc, TNum, d+1)
		}
		e := EIndex{EVar{v.id}, []Expr{ix}}
		if g.p(0.1) {
			e.Ix = append(e.Ix, EStr{idxStrs[g.n(len(idxStrs))]})
		}
		return e
	}
	if g.p(0.5) {
		return EIndex{EList{[]Expr{g.word(), g.word(), g.numStr()}}, []Expr{EStr{idxStrs[g.n(len(idxStrs))]}}}
	}
	return EIndex{EMap{[]Expr{EStr{"a"}, EStr{"b"}}, []Expr{g.word(), g.numStr()}}, []Expr{g.word()}}
}

// argument list for `put` and friends: mostly single values, sometimes multi
func (g *Gen) args(sc *scope, d, max int) []Expr {
	n := 1 + g.n(max)
	out := make([]Expr, n)
	for i := range out {
		if d < g.MaxDepth && g.p(0.12) {
			out[i] = g.multi(sc, d+1)
		} else {
			out[i] = g.Expr(sc, TAny, d+1)
		}
	}
	return out
}

// a chunk for ?( ) / captures: no declarations
func (g *Gen) smallChunk(sc *scope, d int) Chunk {
	inner := g.newScope(sc)
	inner.noDecl = true
	n := 1 + g.n(2)
	var c Chunk
	for i := 0; i < n; i++ {
		c = append(c, g.simpleStmt(inner, d+1))
	}
	return c
}

// ---------------------------------------------------------------- statements

func (g *Gen) put(sc *scope, d int) Pipeline {
	return Pipeline{CBuiltin{B: "put", Args: g.args(sc, d, 2)}}
}

func (g *Gen) exit(sc *scope, d int) Pipeline {
	switch g.n(6) {
	case 0, 1:
		var arg Expr
		switch g.n(3) {
		case 0:
			arg = g.Expr(sc, TList, d+1)
		default:
			arg = g.word()
		}
		if v := g.pickVar(sc, TExc); v != nil && g.p(0.5) {
			arg = EVar{v.id}
		}
		return Pipeline{CBuiltin{B: "fail", Args: []Expr{arg}}}
	case 2:
		return Pipeline{CBuiltin{B: "break"}}
	case 3:
		return Pipeline{CBuiltin{B: "continue"}}
	default:
		return Pipeline{CBuiltin{B: "return"}}
	}
}

// statements without nested blocks
func (g *Gen) simpleStmt(sc *scope, d int) Pipeline {
	switch g.n(10) {
	case 0:
		if (g.inLoop > 0 && g.p(0.7)) || (g.inFn > 0 && g.p(0.4)) || g.p(0.15) {
			return g.exit(sc, d)
		}
	case 1:
		if s := g.setStmt(sc, d); s != nil {
			return s
		}
	case 2:
		if s := g.callStmt(sc, d); s != nil {
			return s
		}
	case 3:
		es := []Expr{g.Expr(sc, TAny, d+1), g.Expr(sc, TAny, d+1)}
		switch g.n(3) {
		case 0:
			return Pipeline{CAnd{es}}
		case 1:
			return Pipeline{COr{es}}
		default:
			return Pipeline{CCoalesce{[]Expr{EVar{ConstNil}, es[0]}}}
		}
	case 4:
		if s := g.elemStmt(sc, d); s != nil {
			return s
		}
	case 5:
		if v := g.pickVar(sc, TExc); v != nil {
			return Pipeline{CBuiltin{B: "put", Args: []Expr{EVar{v.id}, cap1(CBuiltin{B: "not", Args: []Expr{EVar{v.id}}})}}}
		}
	}
	return g.put(sc, d)
}

func (g *Gen) setStmt(sc *scope, d int) Pipeline {
	vs := g.varsOf(sc, g.assignable)
	if len(vs) == 0 || g.noCalls > 0 {
		return nil
	}
	v := vs[g.n(len(vs))]
	g.noteAssign(v)
	if g.p(0.2) && len(vs) >= 2 {
		// two variables, possibly with a rest variable and a multi-valued right-hand side
		w := vs[g.n(len(vs))]
		if w != v && w.ty == TList {
			g.noteAssign(w)
			return Pipeline{CSet{Lvs: []LValue{{X: v.id}, {Rest: true, X: w.id}},
				Rhs: []Expr{g.Expr(sc, v.ty, d+1), g.multi(sc, d+1)}}}
		}
		if w != v {
			g.noteAssign(w)
			return Pipeline{CSet{Lvs: []LValue{{X: v.id}, {X: w.id}},
				Rhs: []Expr{g.Expr(sc, v.ty, d+1), g.Expr(sc, w.ty, d+1)}}}
		}
	}
	rhs := []Expr{g.Expr(sc, v.ty, d+1)}
	if g.p(0.04) {
		rhs = append(rhs, g.word()) // arity mismatch
	}
	if g.inFn > 0 && g.p(0.3) {
		return Pipeline{CTmp{Lvs: []LValue{{X: v.id}}, Rhs: rhs}}
	}
	return Pipeline{CSet{Lvs: []LValue{{X: v.id}}, Rhs: rhs}}
}

// element assignment / deletion on a list or map variable
func (g *Gen) elemStmt(sc *scope, d int) Pipeline {
	vs := g.varsOf(sc, func(v *varInfo) bool { return g.assignable(v) && (v.ty == TList || v.ty == TMap) })
	if len(vs) == 0 || g.noCalls > 0 {
		return nil
	}
	v := vs[g.n(len(vs))]
	g.noteAssign(v)
	var ix []Expr
	if v.ty == TList {
		ix = []Expr{EStr{idxStrs[g.n(len(idxStrs))]}}
	} else {
		ix = []Expr{g.word()}
	}
	if g.p(0.25) {
		if g.p(0.5) {
			ix = append(ix, EStr{idxStrs[g.n(len(idxStrs))]})
		} else {
			ix = append(ix, g.word())
		}
	}
	g.noCalls++
	rhs := []Expr{g.Expr(sc, []Ty{TStr, TNumStr, TList, TMap}[g.n(4)], d+2)}
	g.noCalls--
	if g.Plant && g.p(0.3) {
		ix2 := []Expr{g.word()}
		if v.ty == TList {
			ix2 = []Expr{EStr{idxStrs[g.n(len(idxStrs))]}}
		}
		return Pipeline{CSet{Lvs: []LValue{{X: v.id, Ix: ix}, {X: v.id, Ix: ix2}}, Rhs: []Expr{rhs[0], g.word()}}}
	}
	switch {
	case v.ty == TMap && g.p(0.3):
		return Pipeline{CDel{[]LValue{{X: v.id, Ix: ix}}}}
	case g.inFn > 0 && g.p(0.25):
		return Pipeline{CTmp{Lvs: []LValue{{X: v.id, Ix: ix}}, Rhs: rhs}}
	}
	return Pipeline{CSet{Lvs: []LValue{{X: v.id, Ix: ix}}, Rhs: rhs}}
}

func (g *Gen) callArgs(sc *scope, f *FnInfo, d int) ([]Expr, []Opt) {
	var args []Expr
	for i := range f.Sig.Args {
		if i == f.Sig.Rest {
			for k := g.n(3); k > 0; k-- {
				args = append(args, g.Expr(sc, TStr, d+1))
			}
			continue
		}
		args = append(args, g.Expr(sc, f.ArgTys[i], d+1))
	}
	if g.p(0.04) {
		args = append(args, g.word(), g.word()) // maybe an arity error
	}
	if g.p(0.04) && len(args) > 0 {
		args = args[1:]
	}
	var opts []Opt
	for _, o := range f.Sig.Opts {
		if g.p(0.5) {
			opts = append(opts, Opt{o.X, g.Expr(sc, TStr, d+1)})
		}
	}
	if g.p(0.03) {
		opts = append(opts, Opt{OptBase + 99, g.word()}) // unknown option
	}
	return args, opts
}

func (g *Gen) callStmt(sc *scope, d int) Pipeline {
	if g.noCalls > 0 {
		return nil
	}
	fs := g.varsOf(sc, func(v *varInfo) bool {
		return v.ty == TFn && v.fn != nil && !v.fn.Recurses && (g.pureSince < 0 || v.fn.Pure)
	})
	if len(fs) == 0 {
		return nil
	}
	f := fs[g.n(len(fs))]
	if !f.fn.Pure {
		g.noteImpureCall()
	}
	args, opts := g.callArgs(sc, f.fn, d)
	if f.id >= FnBase && g.p(0.8) {
		return Pipeline{CCmd{F: f.id, Args: args, Opts: opts}}
	}
	return Pipeline{CCall{Head: EVar{f.id}, Args: args, Opts: opts}}
}

// signature with parameter types; parameters become variables of the body scope
func (g *Gen) sig(sc *scope, body *scope, d int) (Sig, []Ty) {
	s := Sig{Rest: -1}
	var tys []Ty
	n := g.n(3)
	for i := 0; i < n; i++ {
		id := OptBase + g.nextOpt
		g.nextOpt++
		ty := []Ty{TStr, TNumStr, TList}[g.n(3)]
		s.Args = append(s.Args, id)
		tys = append(tys, ty)
		body.vars = append(body.vars, &varInfo{id: id, ty: ty, born: body.born})
	}
	if g.p(0.25) {
		id := OptBase + g.nextOpt
		g.nextOpt++
		pos := g.n(len(s.Args) + 1)
		s.Args = append(s.Args[:pos], append([]int{id}, s.Args[pos:]...)...)
		tys = append(tys[:pos], append([]Ty{TList}, tys[pos:]...)...)
		s.Rest = pos
		body.vars = append(body.vars, &varInfo{id: id, ty: TList, born: body.born})
	}
	if g.p(0.25) {
		id := OptBase + g.nextOpt
		g.nextOpt++
		s.Opts = append(s.Opts, Opt{id, g.word()})
		body.vars = append(body.vars, &varInfo{id: id, ty: TStr, born: body.born})
	}
	return s, tys
}

// a lambda body with its own scope; reports purity
func (g *Gen) lambda(sc *scope, d int, withSig bool) (ELam, *FnInfo) {
	body := g.newScope(sc)
	body.isBody = true
	s := Sig{Rest: -1}
	var tys []Ty
	if withSig {
		s, tys = g.sig(sc, body, d)
	}
	g.fnBorn = append(g.fnBorn, body.born)
	g.fnImpure = append(g.fnImpure, false)
	g.inFn++
	savedLoop := g.inLoop
	g.inLoop = 0
	g.deferOK = append(g.deferOK, true)
	c := g.chunk(body, d+1, 1+g.n(3))
	g.deferOK = g.deferOK[:len(g.deferOK)-1]
	g.inLoop = savedLoop
	g.inFn--
	impure := g.fnImpure[len(g.fnImpure)-1]
	g.fnBorn = g.fnBorn[:len(g.fnBorn)-1]
	g.fnImpure = g.fnImpure[:len(g.fnImpure)-1]
	return ELam{s, c}, &FnInfo{Sig: s, ArgTys: tys, Pure: !impure}
}

// the body of a special command's block: a closure body, but loops stay visible
func (g *Gen) block(sc *scope, d int) Chunk { return g.blockD(sc, d, true) }

// blockD: the blocks whose caller inspects the result of the call (loop bodies,
// try body, finally) pass false; they use defer as freely as the others
func (g *Gen) blockD(sc *scope, d int, _ bool) Chunk {
	body := g.newScope(sc)
	body.isBody = true
	g.inFn++
	g.deferOK = append(g.deferOK, true)
	c := g.chunk(body, d+1, 1+g.n(3))
	g.deferOK = g.deferOK[:len(g.deferOK)-1]
	g.inFn--
	return c
}

func (g *Gen) optBlock(sc *scope, d int, p float64) *Chunk {
	if !g.p(p) {
		return nil
	}
	c := g.block(sc, d)
	return &c
}

func (g *Gen) fresh(sc *scope, ty Ty) *varInfo {
	ds := sc.declScope()
	var id int
	// sometimes shadow an existing ordinary variable of the same type
	if vs := g.varsOf(sc, func(v *varInfo) bool { return v.id < FnBase && !v.protected && v.ty == ty }); len(vs) > 0 && g.p(0.12) {
		id = vs[g.n(len(vs))].id
	} else {
		id = g.nextVar
		g.nextVar++
	}
	v := &varInfo{id: id, ty: ty, born: ds.born}
	return v
}

func (g *Gen) declare(sc *scope, v *varInfo) { ds := sc.declScope(); ds.vars = append(ds.vars, v) }

// Stmts generates one logical statement (possibly two pipelines: a counter and its loop).
func (g *Gen) Stmts(sc *scope, d int) []Pipeline {
	canDecl := !sc.noDecl
	compound := d < g.MaxDepth && g.budget > 0
	k := g.n(24)
	switch {
	case k < 4 && canDecl: // var
		ty := g.anyTy()
		e := g.Expr(sc, ty, d+1)
		m := g.multi(sc, d+1)
		v := g.fresh(sc, ty)
		g.declare(sc, v)
		if g.p(0.1) {
			w := g.fresh(sc, TList)
			if w.id != v.id {
				g.declare(sc, w)
				return []Pipeline{{CVar{Lvs: []LValue{{X: v.id}, {Rest: true, X: w.id}}, Rhs: []Expr{e, m}, HasRhs: true}}}
			}
		}
		return []Pipeline{{CVar{Lvs: []LValue{{X: v.id}}, Rhs: []Expr{e}, HasRhs: true}}}
	case k == 4 && compound: // if
		g.budget--
		c := CIf{}
		n := 1 + g.n(2)
		for i := 0; i < n; i++ {
			c.Conds = append(c.Conds, g.Expr(sc, TBool, d+1))
			c.Bodies = append(c.Bodies, g.block(sc, d))
		}
		c.Else = g.optBlock(sc, d, 0.5)
		return []Pipeline{{c}}
	case k == 5 && compound && canDecl: // while with a counter
		g.budget--
		i := &varInfo{id: g.nextVar, ty: TNumStr, protected: true, born: sc.declScope().born}
		g.nextVar++
		g.declare(sc, i)
		limit := 1 + g.n(3)
		init := "0"
		if g.p(0.15) {
			init = "5" // never iterates: else branch
		}
		g.inLoop++
		body := g.blockD(sc, d, false)
		g.inLoop--
		i.ty = TNum
		inc := Pipeline{CSet{Lvs: []LValue{{X: i.id}}, Rhs: []Expr{cap1(CBuiltin{B: "+", Args: []Expr{EVar{i.id}, EStr{"1"}}})}}}
		body = append(Chunk{inc}, body...)
		if g.p(0.3) {
			// the iteration ends by a flow command
			body = append(body, Pipeline{CBuiltin{B: []string{"break", "continue"}[g.n(2)]}})
		}
		w := CWhile{Cond: cap1(CBuiltin{B: "<", Args: []Expr{EVar{i.id}, EStr{[]string{"1", "2", "3"}[limit-1]}}}), Body: body, Else: g.optBlock(sc, d, 0.4)}
		return []Pipeline{{CVar{Lvs: []LValue{{X: i.id}}, Rhs: []Expr{EStr{init}}, HasRhs: true}}, {w}}
	case k == 6 && compound: // for
		g.budget--
		var x *varInfo
		decl := true
		if vs := g.varsOf(sc, func(v *varInfo) bool { return g.assignable(v) && v.id < FnBase }); len(vs) > 0 && g.p(0.3) {
			x = vs[g.n(len(vs))]
			decl = false
			x.ty = TAny
			g.noteAssign(x)
		} else if canDecl {
			x = &varInfo{id: g.nextVar, ty: TAny, born: sc.declScope().born}
			g.nextVar++
			g.declare(sc, x)
		} else {
			return []Pipeline{g.put(sc, d)}
		}
		x.ty = TStr
		iter := g.Expr(sc, TList, d+1)
		g.inLoop++
		body := g.blockD(sc, d, false)
		g.inLoop--
		return []Pipeline{{CFor{Decl: decl, X: x.id, E: iter, Body: body, Else: g.optBlock(sc, d, 0.3)}}}
	case k == 7 && compound: // try
		g.budget--
		t := CTry{CatchVar: -1}
		t.Body = g.blockD(sc, d, false)
		if g.p(0.75) {
			t.HasCatch = true
			var e *varInfo
			if g.p(0.6) && canDecl {
				e = &varInfo{id: g.nextVar, ty: TExc, born: sc.declScope().born}
				g.nextVar++
				g.declare(sc, e)
				t.CatchVar, t.CatchDecl = e.id, true
			}
			t.Catch = g.block(sc, d)
			t.Else = g.optBlock(sc, d, 0.3)
		}
		if !t.HasCatch || g.p(0.4) {
			c := g.blockD(sc, d, false)
			t.Fin = &c
		}
		return []Pipeline{{t}}
	case k == 8 && compound && canDecl && g.noCalls == 0: // fn
		g.budget--
		id := FnBase + g.nextFn
		g.nextFn++
		fv := &varInfo{id: id, ty: TFn, born: sc.declScope().born}
		// the function is in scope in its own body, but is not called there
		// except in the planted recursion pattern
		fv.fn = &FnInfo{Recurses: true}
		g.declare(sc, fv)
		lam, info := g.lambda(sc, d, true)
		fv.fn = info
		return []Pipeline{{CFn{F: id, Sig: lam.Sig, Body: lam.Body}}}
	case k == 9 && compound && canDecl && g.noCalls == 0: // closure in a variable
		g.budget--
		lam, info := g.lambda(sc, d, g.p(0.6))
		v := &varInfo{id: g.nextVar, ty: TFn, fn: info, born: sc.declScope().born}
		g.nextVar++
		g.declare(sc, v)
		return []Pipeline{{CVar{Lvs: []LValue{{X: v.id}}, Rhs: []Expr{lam}, HasRhs: true}}}
	case k == 10 && compound && g.noCalls == 0: // immediately called lambda
		g.budget--
		lam, info := g.lambda(sc, d, g.p(0.4))
		if !info.Pure {
			g.noteImpureCall()
		}
		args, opts := g.callArgs(sc, info, d)
		return []Pipeline{{CCall{Head: lam, Args: args, Opts: opts}}}
	case k == 11 && compound && g.noCalls == 0: // with
		vs := g.varsOf(sc, g.assignable)
		if len(vs) == 0 {
			break
		}
		g.budget--
		w := CWith{}
		for i, n := 0, 1+g.n(2); i < n; i++ {
			v := vs[g.n(len(vs))]
			g.noteAssign(v)
			lv := LValue{X: v.id}
			ty := v.ty
			if (v.ty == TList || v.ty == TMap) && g.p(0.4) {
				if v.ty == TList {
					lv.Ix = []Expr{EStr{idxStrs[g.n(len(idxStrs))]}}
				} else {
					lv.Ix = []Expr{g.word()}
				}
				ty = TStr
			}
			g.noCalls++
			rhs := []Expr{g.Expr(sc, ty, d+2)}
			g.noCalls--
			if g.p(0.05) {
				rhs = nil // arity error after earlier assignments
			}
			w.Assigns = append(w.Assigns, Assign{[]LValue{lv}, rhs})
		}
		w.Body = g.block(sc, d)
		return []Pipeline{{w}}
	case k == 12 && compound: // multi-stage pipeline of value-stream builtins
		g.budget--
		return []Pipeline{g.pipeline(sc, d)}
	case k == 13 && g.inFn > 0 && compound && g.noCalls == 0 && g.canDefer(): // defer
		g.budget--
		if len(g.deferOK) > 0 {
			g.deferOK[len(g.deferOK)-1] = false // one per frame
		}
		lam, info := g.lambda(sc, d, false)
		if !info.Pure {
			g.noteImpureCall()
		}
		return []Pipeline{{CBuiltin{B: "defer", Args: []Expr{lam}}}}
	case k == 14 && canDecl && sc.isBody: // del a local variable
		var own []*varInfo
		for _, v := range sc.vars {
			n := 0
			for _, w := range sc.all() {
				if w.id == v.id {
					n++
				}
			}
			if g.assignable(v) && v.id < FnBase && n == 1 && sc.parent.find(v.id) == nil {
				own = append(own, v)
			}
		}
		if len(own) == 0 || g.pureSince >= 0 {
			break
		}
		v := own[g.n(len(own))]
		for i, w := range sc.vars {
			if w == v {
				sc.vars = append(sc.vars[:i:i], sc.vars[i+1:]...)
				break
			}
		}
		return []Pipeline{{CDel{[]LValue{{X: v.id}}}}}
	case k == 15 && compound: // each over a list
		g.budget--
		return []Pipeline{{g.eachCmd(sc, d, g.Expr(sc, TList, d+1))}}
	}
	return []Pipeline{g.simpleStmt(sc, d)}
}

func (g *Gen) eachCmd(sc *scope, d int, list Expr) Cmd {
	body := g.newScope(sc)
	body.isBody = true
	id := OptBase + g.nextOpt
	g.nextOpt++
	body.vars = append(body.vars, &varInfo{id: id, ty: TStr, born: body.born})
	g.inFn++
	g.inLoop++
	g.deferOK = append(g.deferOK, true)
	c := g.chunk(body, d+1, 1+g.n(2))
	g.deferOK = g.deferOK[:len(g.deferOK)-1]
	g.inLoop--
	g.inFn--
	lam := ELam{Sig{Args: []int{id}, Rest: -1}, c}
	args := []Expr{lam}
	if list != nil {
		args = append(args, list)
	}
	return CBuiltin{B: "each", Args: args}
}

// all stages are generated in pure mode: nothing outside a stage is assigned
func (g *Gen) pipeline(sc *scope, d int) Pipeline {
	saved := g.pureSince
	if g.pureSince < 0 {
		g.stamp++
		g.pureSince = g.stamp
	}
	defer func() { g.pureSince = saved }()
	var p Pipeline
	first := g.newScope(sc)
	first.noDecl = true
	switch g.n(4) {
	case 0:
		p = append(p, CBuiltin{B: "range", Args: []Expr{EStr{[]string{"2", "3", "4"}[g.n(3)]}}})
	case 1:
		p = append(p, g.eachCmd(first, d, g.Expr(sc, TList, d+1)))
	case 2:
		st := g.Stmts(first, d+1)
		if len(st) == 1 && len(st[0]) == 1 {
			p = append(p, st[0][0])
			break
		}
		fallthrough
	default:
		args := g.args(sc, d, 3)
		if g.p(0.15) {
			// a first stage that outputs and then fails
			p = append(p, CCall{Head: ELam{Sig{Rest: -1}, Chunk{{CBuiltin{B: "put", Args: args}}, g.exit(sc, d)}}})
		} else {
			p = append(p, CBuiltin{B: "put", Args: args})
		}
	}
	for i, n := 0, 1+g.n(2); i < n; i++ {
		switch g.n(6) {
		case 0:
			p = append(p, CBuiltin{B: "take", Args: []Expr{EStr{[]string{"0", "1", "2", "5"}[g.n(4)]}}})
		case 1:
			p = append(p, CBuiltin{B: "drop", Args: []Expr{EStr{[]string{"0", "1", "2"}[g.n(3)]}}})
		case 2:
			p = append(p, CBuiltin{B: "count"})
		case 3:
			p = append(p, CBuiltin{B: "all"})
		default:
			p = append(p, g.eachCmd(first, d, nil))
		}
	}
	return p
}

func (g *Gen) chunk(sc *scope, d int, n int) Chunk {
	var c Chunk
	for i := 0; i < n; i++ {
		c = append(c, g.Stmts(sc, d)...)
	}
	return c
}

// Program generates a whole program.
func (g *Gen) Program() Chunk {
	top := g.newScope(nil)
	g.budget = 6 + g.n(10)
	n := 2 + g.n(5)
	c := g.chunk(top, 0, n)
	// make the final state visible
	var show []Expr
	for _, v := range top.all() {
		if v.ty != TFn && v.ty != TExc && len(show) < 4 {
			show = append(show, EVar{v.id})
		}
	}
	if len(show) > 0 {
		c = append(c, Pipeline{CBuiltin{B: "put", Args: show}})
	}
	return c
}
