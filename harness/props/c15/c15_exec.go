package c15

import (
	"fmt"
	"math/big"
	"time"

	"src.elv.sh/pkg/eval"
	"src.elv.sh/pkg/eval/vals"
	"src.elv.sh/pkg/parse"
	. "verifharness/coqfmt"
)

// Obs is what one run of a program showed.
type Obs struct {
	Out     []any  // values written to the value output
	Err     error  // nil, an eval.Exception, or a parse/compilation error
	Static  bool   // Err is a parse or compilation error
	Hang    bool   // did not finish in time
	Panic   string // the evaluator panicked
	ExcKind string
}

// Run evaluates src in a fresh Evaler with capture ports.
func Run(src string) Obs {
	type result struct {
		o Obs
	}
	ch := make(chan Obs, 1)
	go func() {
		var o Obs
		defer func() {
			if r := recover(); r != nil {
				o.Panic = fmt.Sprint(r)
				ch <- o
			}
		}()
		ev := eval.NewEvaler()
		port, collect, err := eval.ValueCapturePort()
		if err != nil {
			panic(err)
		}
		ports := []*eval.Port{eval.DummyInputPort, port, eval.DummyOutputPort}
		e := ev.Eval(parse.Source{Name: "p", Code: src}, eval.EvalCfg{Ports: ports})
		o.Out = collect()
		o.Err = e
		if e != nil {
			if _, ok := e.(eval.Exception); !ok {
				o.Static = true
			}
		}
		ch <- o
	}()
	select {
	case o := <-ch:
		return o
	case <-time.After(20 * time.Second):
		return Obs{Hang: true}
	}
}

var kindNames = map[string]string{
	"errs.ArityMismatch": "KArity", "errs.OutOfRange": "KRange", "vals.noSuchKeyError": "KNoKey",
	"errs.BadValue": "KBadValue", "vals.cannotConcat": "KConcat",
	"eval.UnsupportedOptionsError": "KBadOpt", "eval.WrongArgType": "KArgType",
}

// ExcCoq renders an exception (or nil) as a Coq value: VOk or VExc kind payload.
func ExcCoq(e error) string {
	if e == nil {
		return "VOk"
	}
	exc, ok := e.(eval.Exception)
	if !ok {
		return "VOpaque"
	}
	r := exc.Reason()
	if r == nil {
		return "VOk"
	}
	switch r := r.(type) {
	case eval.FailError:
		return App("VExc", "KFail", List([]string{ValCoq(r.Content)}))
	case eval.Flow:
		switch r {
		case eval.Break:
			return "(VExc KBreak [])"
		case eval.Continue:
			return "(VExc KContinue [])"
		case eval.Return:
			return "(VExc KReturn [])"
		}
	case eval.PipelineError:
		var items []string
		for _, x := range r.Errors {
			if x != nil && x.Reason() != nil {
				items = append(items, ExcCoq(x))
			}
		}
		return App("VExc", "KPipe", List(items))
	}
	if k, ok := kindNames[fmt.Sprintf("%T", r)]; ok {
		return App("VExc", k, "[]")
	}
	return "(VExc KOther [])"
}

// ExcText is a short human-readable form for descriptions.
func ExcText(e error) string {
	if e == nil {
		return ""
	}
	if exc, ok := e.(eval.Exception); ok && exc.Reason() != nil {
		return fmt.Sprintf("%T: %v", exc.Reason(), exc.Reason())
	}
	return fmt.Sprintf("%T: %v", e, e)
}

// ValCoq renders an Elvish value as a Coq term of type C15_Syntax.value.
func ValCoq(v any) string {
	switch v := v.(type) {
	case nil:
		return "VNil"
	case string:
		return App("VStr", Str(v))
	case int:
		return App("VNum", Z(int64(v)))
	case *big.Int:
		return App("VNum", BigZ(v))
	case bool:
		if v {
			return "(VBool true)"
		}
		return "(VBool false)"
	case vals.List:
		var items []string
		for it := v.Iterator(); it.HasElem(); it.Next() {
			items = append(items, ValCoq(it.Elem()))
		}
		return App("VList", List(items))
	case vals.Map:
		var items []string
		for it := v.Iterator(); it.HasElem(); it.Next() {
			k, x := it.Elem()
			items = append(items, Pair(ValCoq(k), ValCoq(x)))
		}
		return App("VMap", List(items))
	case eval.Exception:
		return ExcCoq(v)
	}
	return "VOpaque"
}

func ValsCoq(vs []any) string {
	items := make([]string, len(vs))
	for i, v := range vs {
		items[i] = ValCoq(v)
	}
	return List(items)
}

func ValsText(vs []any) string {
	s := ""
	for i, v := range vs {
		if i > 0 {
			s += " "
		}
		s += vals.ReprPlain(v)
	}
	return s
}
