// Package c15: core-language programs as an AST that prints both as Elvish
// source and as a Coq term of model/C15_Syntax.v (shared by C15, C21, C14).
package c15

import (
	"fmt"
	"strings"

	. "verifharness/coqfmt"
)

// Variable ids: 0..999 ordinary (v<k>), 1000..1999 functions (f<k>~),
// 2000..2999 options/parameters (o<k>), 3000.. the builtin constants.
const (
	FnBase     = 1000
	OptBase    = 2000
	ConstTrue  = 3000
	ConstFalse = 3001
	ConstNil   = 3002
	ConstOk    = 3003
)

func VarName(id int) string {
	switch {
	case id == ConstTrue:
		return "true"
	case id == ConstFalse:
		return "false"
	case id == ConstNil:
		return "nil"
	case id == ConstOk:
		return "ok"
	case id >= OptBase:
		return fmt.Sprintf("o%d", id-OptBase)
	case id >= FnBase:
		return fmt.Sprintf("f%d~", id-FnBase)
	default:
		return fmt.Sprintf("v%d", id)
	}
}

type Expr interface{}
type Cmd interface{}
type Pipeline []Cmd
type Chunk []Pipeline

type EStr struct{ S string }
type EVar struct{ X int }
type EExplode struct{ X int }
type EList struct{ Es []Expr }
type EMap struct{ Ks, Vs []Expr }
type ELam struct {
	Sig  Sig
	Body Chunk
}
type ECapture struct{ C Chunk }
type EExcCapture struct{ C Chunk }
type EBraced struct{ Es []Expr }
type EIndex struct {
	E  Expr
	Ix []Expr
}
type ECompound struct{ Es []Expr }

type Opt struct {
	X int
	E Expr
}
type Sig struct {
	Args []int
	Rest int // -1: none
	Opts []Opt
}

type CCall struct {
	Head Expr
	Args []Expr
	Opts []Opt
}
type CCmd struct {
	F    int
	Args []Expr
	Opts []Opt
}
type CBuiltin struct {
	B    string
	Args []Expr
	Opts []Opt
}
type LValue struct {
	Rest bool
	X    int
	Ix   []Expr
}
type CVar struct {
	Lvs    []LValue // no indices
	Rhs    []Expr
	HasRhs bool
}
type CSet struct {
	Lvs []LValue
	Rhs []Expr
}
type CTmp struct {
	Lvs []LValue
	Rhs []Expr
}
type Assign struct {
	Lvs []LValue
	Rhs []Expr
}
type CWith struct {
	Assigns []Assign
	Body    Chunk
}
type CDel struct{ Ts []LValue }
type CIf struct {
	Conds  []Expr
	Bodies []Chunk
	Else   *Chunk
}
type CWhile struct {
	Cond Expr
	Body Chunk
	Else *Chunk
}
type CFor struct {
	Decl bool
	X    int
	E    Expr
	Body Chunk
	Else *Chunk
}
type CTry struct {
	Body      Chunk
	HasCatch  bool
	CatchVar  int // -1: none
	CatchDecl bool
	Catch     Chunk
	Else, Fin *Chunk
}
type CFn struct {
	F    int
	Sig  Sig
	Body Chunk
}
type CAnd struct{ Es []Expr }
type COr struct{ Es []Expr }
type CCoalesce struct{ Es []Expr }

var builtinCoq = map[string]string{
	"put": "BPut", "nop": "BNop", "fail": "BFail", "break": "BBreak", "continue": "BContinue",
	"return": "BReturn", "+": "BAdd", "-": "BSub", "*": "BMul", "%": "BMod", "<": "BLt",
	"<=": "BLe", "==": "BEq", "!=": "BNe", ">": "BGt", ">=": "BGe", "eq": "BValEq",
	"not-eq": "BNotEq", "not": "BNot", "each": "BEach", "take": "BTake", "drop": "BDrop",
	"count": "BCount", "all": "BAll", "range": "BRange", "defer": "BDefer", "keys": "BKeys",
}

// ------------------------------------------------------------ Elvish source

func bareOK(s string) bool {
	if s == "" {
		return false
	}
	for _, c := range s {
		if !(c >= 'a' && c <= 'z' || c >= 'A' && c <= 'Z' || c >= '0' && c <= '9' || c == '-' || c == '_' || c == '.' || c == '+') {
			return false
		}
	}
	return true
}

func quote(s string) string { return "'" + strings.ReplaceAll(s, "'", "''") + "'" }

func strSrc(s string, forceQuote bool) string {
	if s == "" {
		return "''"
	}
	if !forceQuote && bareOK(s) {
		return s
	}
	// "..=" slices contain '=' which is fine inside a bareword, but keep it simple
	if !forceQuote && strings.Trim(s, "abcdefghijklmnopqrstuvwxyz0123456789-_.+=") == "" && s != "=" && !strings.HasPrefix(s, "=") {
		return s
	}
	return quote(s)
}

func exprsSrc(es []Expr) string {
	parts := make([]string, len(es))
	for i, e := range es {
		parts[i] = ExprSrc(e)
	}
	return strings.Join(parts, " ")
}

func sigSrc(s Sig) string {
	if len(s.Args) == 0 && len(s.Opts) == 0 {
		return ""
	}
	var parts []string
	for i, a := range s.Args {
		n := VarName(a)
		if i == s.Rest {
			n = "@" + n
		}
		parts = append(parts, n)
	}
	for _, o := range s.Opts {
		parts = append(parts, "&"+VarName(o.X)+"="+ExprSrc(o.E))
	}
	return "|" + strings.Join(parts, " ") + "|"
}

func lamSrc(s Sig, body Chunk) string {
	b := ChunkSrc(body)
	sg := sigSrc(s)
	if sg == "" {
		if b == "" {
			return "{ }"
		}
		return "{ " + b + " }"
	}
	if b == "" {
		return "{" + sg + " }"
	}
	return "{" + sg + " " + b + " }"
}

func blockSrc(c Chunk) string { return lamSrc(Sig{Rest: -1}, c) }

// isPrimary: can be indexed directly / does not need braces
func isPrimary(e Expr) bool {
	switch e.(type) {
	case ECompound:
		return false
	}
	return true
}

// CompoundParts returns the parts of a compound as they are printed — to Elvish
// source AND to the Coq term, so both denote the same program.  In Elvish a
// primary directly followed by [ ... ] is indexing, and juxtaposed compounds
// flatten; so a part that is itself a compound, and a non-first part whose text
// would start with '[' (list / map literal, or an indexing whose head is one),
// is wrapped in a braced list {part}, which evaluates to the same values.
func CompoundParts(e ECompound) []Expr {
	out := make([]Expr, len(e.Es))
	for i, p := range e.Es {
		switch q := p.(type) {
		case ECompound:
			out[i] = EBraced{[]Expr{q}}
		default:
			if i > 0 && startsWithBracket(p) {
				out[i] = EBraced{[]Expr{p}}
			} else {
				out[i] = p
			}
		}
	}
	return out
}

func startsWithBracket(e Expr) bool {
	switch e := e.(type) {
	case EList, EMap:
		return true
	case EIndex:
		return startsWithBracket(e.E)
	}
	return false
}

func ExprSrc(e Expr) string {
	switch e := e.(type) {
	case EStr:
		return strSrc(e.S, false)
	case EVar:
		return "$" + VarName(e.X)
	case EExplode:
		return "$@" + VarName(e.X)
	case EList:
		return "[" + exprsSrc(e.Es) + "]"
	case EMap:
		if len(e.Ks) == 0 {
			return "[&]"
		}
		parts := make([]string, len(e.Ks))
		for i := range e.Ks {
			parts[i] = "&" + ExprSrc(e.Ks[i]) + "=" + ExprSrc(e.Vs[i])
		}
		return "[" + strings.Join(parts, " ") + "]"
	case ELam:
		return lamSrc(e.Sig, e.Body)
	case ECapture:
		return "(" + ChunkSrc(e.C) + ")"
	case EExcCapture:
		return "?(" + ChunkSrc(e.C) + ")"
	case EBraced:
		return "{" + exprsSrc(e.Es) + "}"
	case EIndex:
		var head string
		switch h := e.E.(type) {
		case EStr:
			head = quote(h.S)
		case ECompound:
			head = "{" + ExprSrc(h) + "}"
		default:
			head = ExprSrc(h)
		}
		return head + "[" + exprsSrc(e.Ix) + "]"
	case ECompound:
		var sb strings.Builder
		prevStr := false
		for _, p := range CompoundParts(e) {
			isStr := false
			switch p := p.(type) {
			case EStr:
				// 'a''b' would be one string with an escaped quote: alternate the quoting style
				if prevStr {
					sb.WriteString("\"" + p.S + "\"")
				} else {
					sb.WriteString(quote(p.S))
					isStr = true
				}
			default:
				sb.WriteString(ExprSrc(p))
			}
			prevStr = isStr
		}
		return sb.String()
	}
	panic(fmt.Sprintf("ExprSrc: %T", e))
}

func optsSrc(opts []Opt) string {
	var sb strings.Builder
	for _, o := range opts {
		sb.WriteString(" &" + VarName(o.X) + "=" + ExprSrc(o.E))
	}
	return sb.String()
}

func argsSrc(args []Expr) string {
	if len(args) == 0 {
		return ""
	}
	return " " + exprsSrc(args)
}

func lvSrc(lv LValue) string {
	s := VarName(lv.X)
	if lv.Rest {
		s = "@" + s
	}
	for _, ix := range lv.Ix {
		s += "[" + ExprSrc(ix) + "]"
	}
	return s
}

func lvsSrc(lvs []LValue) string {
	parts := make([]string, len(lvs))
	for i, lv := range lvs {
		parts[i] = lvSrc(lv)
	}
	return strings.Join(parts, " ")
}

func CmdSrc(c Cmd) string {
	switch c := c.(type) {
	case CCall:
		return ExprSrc(c.Head) + argsSrc(c.Args) + optsSrc(c.Opts)
	case CCmd:
		return strings.TrimSuffix(VarName(c.F), "~") + argsSrc(c.Args) + optsSrc(c.Opts)
	case CBuiltin:
		return c.B + argsSrc(c.Args) + optsSrc(c.Opts)
	case CVar:
		if !c.HasRhs {
			return "var " + lvsSrc(c.Lvs)
		}
		return "var " + lvsSrc(c.Lvs) + " =" + argsSrc(c.Rhs)
	case CSet:
		return "set " + lvsSrc(c.Lvs) + " =" + argsSrc(c.Rhs)
	case CTmp:
		return "tmp " + lvsSrc(c.Lvs) + " =" + argsSrc(c.Rhs)
	case CWith:
		s := "with"
		for _, a := range c.Assigns {
			s += " [" + lvsSrc(a.Lvs) + " =" + argsSrc(a.Rhs) + "]"
		}
		return s + " " + blockSrc(c.Body)
	case CDel:
		return "del " + lvsSrc(c.Ts)
	case CIf:
		s := ""
		for i := range c.Conds {
			if i == 0 {
				s = "if "
			} else {
				s += " elif "
			}
			s += ExprSrc(c.Conds[i]) + " " + blockSrc(c.Bodies[i])
		}
		if c.Else != nil {
			s += " else " + blockSrc(*c.Else)
		}
		return s
	case CWhile:
		s := "while " + ExprSrc(c.Cond) + " " + blockSrc(c.Body)
		if c.Else != nil {
			s += " else " + blockSrc(*c.Else)
		}
		return s
	case CFor:
		s := "for " + VarName(c.X) + " " + ExprSrc(c.E) + " " + blockSrc(c.Body)
		if c.Else != nil {
			s += " else " + blockSrc(*c.Else)
		}
		return s
	case CTry:
		s := "try " + blockSrc(c.Body)
		if c.HasCatch {
			s += " catch"
			if c.CatchVar >= 0 {
				s += " " + VarName(c.CatchVar)
			}
			s += " " + blockSrc(c.Catch)
		}
		if c.Else != nil {
			s += " else " + blockSrc(*c.Else)
		}
		if c.Fin != nil {
			s += " finally " + blockSrc(*c.Fin)
		}
		return s
	case CFn:
		return "fn " + strings.TrimSuffix(VarName(c.F), "~") + " " + lamSrc(c.Sig, c.Body)
	case CAnd:
		return "and" + argsSrc(c.Es)
	case COr:
		return "or" + argsSrc(c.Es)
	case CCoalesce:
		return "coalesce" + argsSrc(c.Es)
	}
	panic(fmt.Sprintf("CmdSrc: %T", c))
}

func PipeSrc(p Pipeline) string {
	parts := make([]string, len(p))
	for i, c := range p {
		parts[i] = CmdSrc(c)
	}
	return strings.Join(parts, " | ")
}

func ChunkSrc(c Chunk) string {
	parts := make([]string, len(c))
	for i, p := range c {
		parts[i] = PipeSrc(p)
	}
	return strings.Join(parts, "; ")
}

// ProgSrc prints a top-level program, one pipeline per line.
func ProgSrc(c Chunk) string {
	parts := make([]string, len(c))
	for i, p := range c {
		parts[i] = PipeSrc(p)
	}
	return strings.Join(parts, "\n")
}

// ------------------------------------------------------------ Coq term

func nid(i int) string { return N(uint64(i)) }

func exprsCoq(es []Expr) string {
	items := make([]string, len(es))
	for i, e := range es {
		items[i] = ExprCoq(e)
	}
	return List(items)
}

func optsCoq(opts []Opt) string {
	items := make([]string, len(opts))
	for i, o := range opts {
		items[i] = Pair(nid(o.X), ExprCoq(o.E))
	}
	return List(items)
}

func restCoq(r int) string {
	if r < 0 {
		return None()
	}
	return Some(Nat(r))
}

func argsCoq(a []int) string {
	items := make([]string, len(a))
	for i, x := range a {
		items[i] = nid(x)
	}
	return List(items)
}

func optChunkCoq(c *Chunk) string {
	if c == nil {
		return None()
	}
	return Some(ChunkCoq(*c))
}

func ExprCoq(e Expr) string {
	switch e := e.(type) {
	case EStr:
		return App("EStr", Str(e.S))
	case EVar:
		return App("EVar", nid(e.X))
	case EExplode:
		return App("EExplode", nid(e.X))
	case EList:
		return App("EList", exprsCoq(e.Es))
	case EMap:
		items := make([]string, len(e.Ks))
		for i := range e.Ks {
			items[i] = Pair(ExprCoq(e.Ks[i]), ExprCoq(e.Vs[i]))
		}
		return App("EMap", List(items))
	case ELam:
		return App("ELam", argsCoq(e.Sig.Args), restCoq(e.Sig.Rest), optsCoq(e.Sig.Opts), ChunkCoq(e.Body))
	case ECapture:
		return App("ECapture", ChunkCoq(e.C))
	case EExcCapture:
		return App("EExcCapture", ChunkCoq(e.C))
	case EBraced:
		return App("EBraced", exprsCoq(e.Es))
	case EIndex:
		return App("EIndex", ExprCoq(e.E), exprsCoq(e.Ix))
	case ECompound:
		return App("ECompound", exprsCoq(CompoundParts(e)))
	}
	panic(fmt.Sprintf("ExprCoq: %T", e))
}

func lvCoq(lv LValue) string {
	return Pair(Pair(Bool(lv.Rest), nid(lv.X)), exprsCoq(lv.Ix))
}

func lvsCoq(lvs []LValue) string {
	items := make([]string, len(lvs))
	for i, lv := range lvs {
		items[i] = lvCoq(lv)
	}
	return List(items)
}

func CmdCoq(c Cmd) string {
	switch c := c.(type) {
	case CCall:
		return App("CCall", ExprCoq(c.Head), exprsCoq(c.Args), optsCoq(c.Opts))
	case CCmd:
		return App("CCmd", nid(c.F), exprsCoq(c.Args), optsCoq(c.Opts))
	case CBuiltin:
		b, ok := builtinCoq[c.B]
		if !ok {
			panic("unknown builtin " + c.B)
		}
		return App("CBuiltin", b, exprsCoq(c.Args), optsCoq(c.Opts))
	case CVar:
		items := make([]string, len(c.Lvs))
		for i, lv := range c.Lvs {
			items[i] = Pair(Bool(lv.Rest), nid(lv.X))
		}
		rhs := None()
		if c.HasRhs {
			rhs = Some(exprsCoq(c.Rhs))
		}
		return App("CVar", List(items), rhs)
	case CSet:
		return App("CSet", lvsCoq(c.Lvs), exprsCoq(c.Rhs))
	case CTmp:
		return App("CTmp", lvsCoq(c.Lvs), exprsCoq(c.Rhs))
	case CWith:
		items := make([]string, len(c.Assigns))
		for i, a := range c.Assigns {
			items[i] = Pair(lvsCoq(a.Lvs), exprsCoq(a.Rhs))
		}
		return App("CWith", List(items), ChunkCoq(c.Body))
	case CDel:
		items := make([]string, len(c.Ts))
		for i, t := range c.Ts {
			items[i] = Pair(nid(t.X), exprsCoq(t.Ix))
		}
		return App("CDel", List(items))
	case CIf:
		items := make([]string, len(c.Conds))
		for i := range c.Conds {
			items[i] = Pair(ExprCoq(c.Conds[i]), ChunkCoq(c.Bodies[i]))
		}
		return App("CIf", List(items), optChunkCoq(c.Else))
	case CWhile:
		return App("CWhile", ExprCoq(c.Cond), ChunkCoq(c.Body), optChunkCoq(c.Else))
	case CFor:
		return App("CFor", Bool(c.Decl), nid(c.X), ExprCoq(c.E), ChunkCoq(c.Body), optChunkCoq(c.Else))
	case CTry:
		catch := None()
		if c.HasCatch {
			cv := None()
			if c.CatchVar >= 0 {
				cv = Some(Pair(Bool(c.CatchDecl), nid(c.CatchVar)))
			}
			catch = Some(Pair(cv, ChunkCoq(c.Catch)))
		}
		return App("CTry", ChunkCoq(c.Body), catch, optChunkCoq(c.Else), optChunkCoq(c.Fin))
	case CFn:
		return App("CFn", nid(c.F), argsCoq(c.Sig.Args), restCoq(c.Sig.Rest), optsCoq(c.Sig.Opts), ChunkCoq(c.Body))
	case CAnd:
		return App("CAnd", exprsCoq(c.Es))
	case COr:
		return App("COr", exprsCoq(c.Es))
	case CCoalesce:
		return App("CCoalesce", exprsCoq(c.Es))
	}
	panic(fmt.Sprintf("CmdCoq: %T", c))
}

func ChunkCoq(c Chunk) string {
	ps := make([]string, len(c))
	for i, p := range c {
		cs := make([]string, len(p))
		for j, cm := range p {
			cs[j] = CmdCoq(cm)
		}
		ps[i] = List(cs)
	}
	return List(ps)
}
