package c35

import (
	"fmt"
	"os"
	"testing"

	"src.elv.sh/pkg/md"
)

func TestShowC35(t *testing.T) {
	doc := os.Getenv("C35_DOC")
	if doc == "" {
		t.Skip()
	}
	fmt.Printf("--- elvish\n%s--- goldmark\n%s", md.RenderString(doc, &md.HTMLCodec{}), goldmarkRender(doc).HTML)
}
