package c35

import (
	"math/rand"
	"strings"
	"testing"

	"verifharness/reg"
)

// Self-test of the candidate path: with the quirk detectors switched off, a
// document that hits a known goldmark defect outside the reliable class must be
// recorded as a candidate (judge code 0), not as a failing agreement case.
func TestCandidatePathC35(t *testing.T) {
	quirksOff = true
	defer func() { quirksOff = false }()
	var cases []reg.Case
	c := &reg.Ctx{Rand: rand.New(rand.NewSource(1)), Dist: map[string]int{}, Emit: func(k reg.Case) { cases = append(cases, k) }}
	tryGoldmark(c, "gen-inline", "*b q.foo* a*b *****x1*_** ![n** a [q.](https://e.f/g?h=i)](https://e.f/g?h=i)")
	cand, agree := 0, 0
	for _, k := range cases {
		if strings.HasPrefix(k.Coq, "(KCandidate") {
			cand++
		}
		if strings.HasPrefix(k.Coq, "(KAgree") {
			agree++
		}
	}
	found := false
	for k := range c.Dist {
		if strings.HasPrefix(k, "candidate/") {
			found = true
			t.Log(k)
		}
	}
	if cand != 1 || agree != 0 || !found {
		t.Fatalf("candidates=%d agree=%d dist=%v", cand, agree, c.Dist)
	}
}
