// Package c35: Markdown rendering is total and agrees with CommonMark on the
// supported subset (pkg/md: md.go, inline.go, html.go).
package c35

import (
	"encoding/json"
	"fmt"
	"os"
	"path/filepath"
	"strings"
	"time"
	"unicode"
	"unicode/utf8"

	"src.elv.sh/pkg/md"
	. "verifharness/coqfmt"
	"verifharness/props/c35/mdgen"
	"verifharness/reg"
)

func init() {
	reg.Register(&reg.Spec{ID: "C35",
		Imports: "From verif Require Import lib.Base model.C35_Bal model.C35_Inline model.C35.",
		Judge:   "C35.judge", Shard: 1500, Run: run})
}

type desc struct {
	Kind  string `json:"kind"`
	Input string `json:"input"`
	Obs   string `json:"obs,omitempty"`
	Ref   string `json:"ref,omitempty"`
	Note  string `json:"note,omitempty"`
}

// ---- rendering under a watchdog ----

type recCodec struct {
	md.HTMLCodec
	blocks  []string // Coq tokens of the block operations
	rawHTML bool
}

var containerKind = map[md.OpType][2]int{
	md.OpBlockquoteStart: {1, 0}, md.OpBlockquoteEnd: {2, 0},
	md.OpListItemStart: {1, 1}, md.OpListItemEnd: {2, 1},
	md.OpBulletListStart: {1, 2}, md.OpBulletListEnd: {2, 2},
	md.OpOrderedListStart: {1, 3}, md.OpOrderedListEnd: {2, 3},
}

func (c *recCodec) Do(op md.Op) {
	if k, ok := containerKind[op.Type]; ok {
		if k[0] == 1 {
			c.blocks = append(c.blocks, App("TO", N(uint64(k[1]))))
		} else {
			c.blocks = append(c.blocks, App("TC", N(uint64(k[1]))))
		}
	} else {
		c.blocks = append(c.blocks, "TL")
	}
	if op.Type == md.OpHTMLBlock {
		c.rawHTML = true
	}
	for _, io := range op.Content {
		if io.Type == md.OpRawHTML {
			c.rawHTML = true
		}
	}
	c.HTMLCodec.Do(op)
}

type rendered struct {
	html    string
	blocks  []string
	rawHTML bool
	fail    string // panic or hang
}

func render(doc string, limit time.Duration) rendered {
	ch := make(chan rendered, 1)
	go func() {
		var r rendered
		defer func() {
			if p := recover(); p != nil {
				r.fail = fmt.Sprintf("md.Render panicked: %v", p)
			}
			ch <- r
		}()
		c := &recCodec{}
		md.Render(doc, c)
		r.html, r.blocks, r.rawHTML = c.String(), c.blocks, c.rawHTML
	}()
	select {
	case r := <-ch:
		return r
	case <-time.After(limit):
		return rendered{fail: fmt.Sprintf("md.Render did not return within %v", limit)}
	}
}

func clip(s string, n int) string {
	if len(s) > n {
		return s[:n] + fmt.Sprintf("...(%d bytes)", len(s))
	}
	return s
}

// ---- the three end-to-end streams ----

// totality: arbitrary input; Direct violation on panic/hang; the output of
// documents without raw HTML must be well-formed HTML; the container
// operations must be balanced.
// lightTotal: only the totality verdict (used by the emphasis sweep, whose
// documents are judged by the agreement and kernel cases).
var lightTotal = false

func emitTotal(c *reg.Ctx, kind, doc string) rendered {
	r := render(doc, 60*time.Second)
	if lightTotal && r.fail == "" {
		c.Count("total/" + kind)
		return r
	}
	class := "total/" + kind
	c.Count(class)
	if r.fail != "" {
		c.Emit(reg.Case{Desc: desc{Kind: class, Input: doc, Note: r.fail}, Key: "T" + doc, Class: class,
			Nontrivial: true, Direct: r.fail + " on input " + fmt.Sprintf("%q", clip(doc, 400))})
		return r
	}
	if len(doc) > 1500 || len(r.html) > 5000 || len(r.blocks) > 1500 {
		// large adversarial inputs: totality only (keeps the Coq shards small)
		c.Emit(reg.Case{Coq: App("KBlocks", List(nil)), Desc: desc{Kind: class, Input: clip(doc, 200), Note: "totality only"},
			Key: "T" + doc, Class: class, Nontrivial: true})
		return r
	}
	c.Emit(reg.Case{Coq: App("KBlocks", List(r.blocks)), Desc: desc{Kind: class + "/blocks", Input: doc, Obs: strings.Join(r.blocks, " ")},
		Key: "B" + doc, Class: class, Nontrivial: len(r.blocks) > 1})
	if !r.rawHTML {
		c.Emit(reg.Case{Coq: App("KWf", Str(r.html)), Desc: desc{Kind: class + "/wf", Input: doc, Obs: r.html},
			Key: "W" + doc, Class: class, Nontrivial: len(doc) > 2})
	}
	return r
}

// agreement with a reference HTML
func emitAgree(c *reg.Ctx, class, doc, got, ref string, rawHTML bool) {
	c.Count("agree/" + class)
	c.Emit(reg.Case{Coq: App("KAgree", Bool(!rawHTML), Str(got), Str(ref)),
		Desc: desc{Kind: "agree", Input: doc, Obs: got, Ref: ref}, Key: "A" + doc, Class: class,
		Nontrivial: len(doc) > 3})
}

type specCase struct {
	Markdown string `json:"markdown"`
	HTML     string `json:"html"`
	Example  int    `json:"example"`
	Section  string `json:"section"`
}

func repoDir() string {
	if d := os.Getenv("VERIF_REPO"); d != "" {
		return d
	}
	return "/repo"
}

func LoadSpec() []specCase {
	var cases []specCase
	b, err := os.ReadFile(filepath.Join(repoDir(), "pkg/md/spec/spec.json"))
	if err != nil {
		panic(err)
	}
	if err := json.Unmarshal(b, &cases); err != nil {
		panic(err)
	}
	return cases
}

// SpecMarkdown returns the markdown of the spec examples (used by C36 too).
func SpecMarkdown() []string {
	var out []string
	for _, sc := range LoadSpec() {
		out = append(out, sc.Markdown)
	}
	return out
}

func runSpec(c *reg.Ctx) {
	for _, sc := range LoadSpec() {
		r := emitTotal(c, "spec", sc.Markdown)
		if r.fail != "" {
			continue
		}
		reason := specSkipReason(sc.Section, sc.Example)
		if reason == "" {
			reason = unsupportedSyntactic(sc.Markdown)
		}
		if reason != "" {
			c.Count("spec-outside-subset/" + reason)
			continue
		}
		class := "spec"
		if fc := findingClass(sc.Markdown, refResult{}); fc != "" {
			class = fc
		}
		emitAgree(c, class, sc.Markdown, normaliseElvish(r.html), normaliseRef(loosifyLists(sc.HTML)), r.rawHTML)
	}
}

// compareGoldmark renders doc with both implementations.  ok=false if the
// document is outside the supported subset or touches a known defect of the
// reference (reason says which).
func compareGoldmark(doc string) (got, want string, ref refResult, rawHTML bool, reason string) {
	if !utf8.ValidString(doc) || strings.ContainsRune(doc, 0) {
		return "", "", ref, false, "gen-outside-subset/not-text"
	}
	if r := unsupportedSyntactic(doc); r != "" {
		return "", "", ref, false, "gen-outside-subset/" + r
	}
	ref = goldmarkRender(doc)
	switch {
	case ref.Panic != "":
		return "", "", ref, false, "gen-reference-failed"
	case ref.TightList:
		return "", "", ref, false, "gen-outside-subset/tight-list"
	case ref.RefDefs:
		return "", "", ref, false, "gen-outside-subset/reference-link"
	case ref.Setext:
		return "", "", ref, false, "gen-outside-subset/setext-heading"
	}
	if q := refQuirk(doc); q != "" {
		return "", "", ref, false, "gen-reference-unreliable/" + q
	}
	r := render(doc, 60*time.Second)
	if r.fail != "" {
		return "", "", ref, false, "render-failed"
	}
	return normaliseElvish(r.html), normaliseRef(ref.HTML), ref, r.rawHTML, ""
}

// shrink deletes pieces of doc (at rune boundaries) as long as the two
// implementations still disagree on a document that is still comparable and
// not in a recorded deviation class.
func shrink(doc string) string {
	disagrees := func(d string) bool {
		got, want, ref, _, reason := compareGoldmark(d)
		return reason == "" && got != want && findingClass(d, ref) == ""
	}
	rs := []rune(doc)
	budget := 3000
	for size := len(rs) / 2; size >= 1; size /= 2 {
		for i := 0; i+size <= len(rs) && budget > 0; {
			cand := append(append([]rune{}, rs[:i]...), rs[i+size:]...)
			budget--
			if disagrees(string(cand)) {
				rs = cand
			} else {
				i += size
			}
		}
	}
	return string(rs)
}

// agreement with goldmark on a generated document.  goldmark is a proxy for
// CommonMark with defects of its own, so a disagreement with it alone raises a
// violation only if it is confirmed: the document (or what it shrinks to) lies
// in the class triaged as reliable (reliableShape), or in one of the recorded
// deviation classes of pkg/md.  Otherwise it is recorded in the evidence as a
// candidate (distribution key "candidate/...") and does not fail the check.
func tryGoldmark(c *reg.Ctx, kind, doc string) {
	if !strings.HasSuffix(doc, "\n") {
		doc += "\n"
	}
	r := emitTotal(c, kind, doc)
	if r.fail != "" {
		return
	}
	got, want, ref, rawHTML, reason := compareGoldmark(doc)
	if reason != "" {
		c.Count(reason)
		return
	}
	class := kind
	if fc := findingClass(doc, ref); fc != "" {
		class = fc
	}
	if got == want || class != kind || reliableShape(doc) {
		emitAgree(c, class, doc, got, want, rawHTML)
		return
	}
	small := shrink(doc)
	sgot, swant, _, sraw, sreason := compareGoldmark(small)
	if sreason == "" && sgot != swant && reliableShape(small) {
		c.Count("agree/confirmed-by-shrinking")
		emitAgree(c, kind, small, sgot, swant, sraw)
		return
	}
	c.Count(fmt.Sprintf("candidate/goldmark-only-disagreement %q", clip(small, 160)))
	c.Emit(reg.Case{Coq: App("KCandidate", Str(got), Str(want)),
		Desc: desc{Kind: "candidate", Input: doc, Obs: got, Ref: want, Note: "unconfirmed disagreement with goldmark; shrunk: " + fmt.Sprintf("%q", small)},
		Key:  "C" + doc, Class: kind, Nontrivial: true})
}

// ---- kernels ----

func optNat(i int) string {
	if i < 0 {
		return None()
	}
	return Some(Nat(i))
}

func emitKernel(c *reg.Ctx, kind, coq, input, obs string, nontrivial bool) {
	c.Count("kernel/" + kind)
	c.Emit(reg.Case{Coq: coq, Desc: desc{Kind: kind, Input: input, Obs: obs}, Key: kind + "|" + input,
		Class: "kernel-" + kind, Nontrivial: nontrivial})
}

var flankRunes = []rune{' ', '\n', ' ', 'a', '7', '中', '.', '*', '_', '$', '—', '€', '́'}

func runKernels(c *reg.Ctx, n int) {
	g := &mdgen.Gen{R: c.Rand}
	// 1. delimiter classification: all pairs of representative runes, both delimiters
	for _, b := range []rune{'*', '_'} {
		for _, p := range flankRunes {
			for _, nx := range flankRunes {
				o, cl := md.VerifC35CanOpenCloseEmphasis(b, p, nx)
				sp, pp := unicode.IsSpace(p), md.VerifC35IsUnicodePunct(p)
				sn, pn := unicode.IsSpace(nx), md.VerifC35IsUnicodePunct(nx)
				emitKernel(c, "flank", App("KFlank", Bool(b == '_'), Bool(sp), Bool(pp), Bool(sn), Bool(pn), Bool(o), Bool(cl)),
					fmt.Sprintf("%c %q %q", b, p, nx), fmt.Sprintf("open=%v close=%v", o, cl), true)
			}
		}
	}
	// 2. processEmphasis on random delimiter stacks
	for i := 0; i < n; i++ {
		k := 1 + c.Rand.Intn(9)
		if c.Rand.Intn(10) == 0 {
			k = 10 + c.Rand.Intn(20)
		}
		var ds []md.VerifC35Delim
		var coqDs []string
		for j := 0; j < k; j++ {
			var d md.VerifC35Delim
			switch c.Rand.Intn(12) {
			case 0, 1:
				d = md.VerifC35Delim{Typ: 'x', N: 1}
			case 2:
				d = md.VerifC35Delim{Typ: '[', N: 1}
			default:
				d = md.VerifC35Delim{Typ: "**_"[c.Rand.Intn(3)], N: 1 + c.Rand.Intn(4), CanOpen: c.Rand.Intn(3) > 0, CanClose: c.Rand.Intn(3) > 0}
				if c.Rand.Intn(6) == 0 {
					d.N = 1 + c.Rand.Intn(9)
				}
			}
			ds = append(ds, d)
			coqDs = append(coqDs, App("Din", N(uint64(d.Typ)), Nat(d.N), Bool(d.CanOpen), Bool(d.CanClose)))
		}
		toks := md.VerifC35ProcessEmphasis(ds)
		var coqT []string
		for _, t := range toks {
			switch t.Kind {
			case 0:
				coqT = append(coqT, App("OText", Nat(t.Piece), Nat(t.Len)))
			case 1:
				coqT = append(coqT, "(OStart false)")
			case 2:
				coqT = append(coqT, "(OEnd false)")
			case 3:
				coqT = append(coqT, "(OStart true)")
			case 4:
				coqT = append(coqT, "(OEnd true)")
			}
		}
		emitKernel(c, "emph", App("KEmph", List(coqDs), List(coqT)), fmt.Sprint(ds), fmt.Sprint(toks), len(toks) > len(ds))
	}
	// 3. code spans
	for i := 0; i < n/2; i++ {
		var sb strings.Builder
		for j, m := 0, 1+c.Rand.Intn(8); j < m; j++ {
			if c.Rand.Intn(2) == 0 {
				sb.WriteString(strings.Repeat("`", 1+c.Rand.Intn(4)))
			} else {
				sb.WriteString(g.Pick("a", " ", "\n", "b c", "é"))
			}
		}
		s := sb.String()
		// start right after a leading backtick run, as the parser does
		k := 0
		for k < len(s) && s[k] == '`' {
			k++
		}
		if k == 0 {
			s = "`" + s
			k = 1
			for k < len(s) && s[k] == '`' {
				k++
			}
		}
		j := md.VerifC35FindBacktickRun(s, s[:k], k)
		emitKernel(c, "backtick", App("KBacktick", Str(s), Nat(k), Nat(k), optNat(j)), s, fmt.Sprint(j), j >= 0)
		body := g.Pick(" a ", "  ", " ", "a\nb", " `` ", "x", " \n", "\n", " a", "a ", "  a  ", "")
		if c.Rand.Intn(2) == 0 {
			body = g.Pick(" ", "", "\n") + g.Plain(1+c.Rand.Intn(2)) + g.Pick(" ", "", "\n")
		}
		o := md.VerifC35NormalizeCodeSpanContent(body)
		emitKernel(c, "codenorm", App("KCodeNorm", Str(body), Str(o)), body, o, body != o)
	}
	// 4. link tails: structured, mutated, and soup
	for i := 0; i < n; i++ {
		var s string
		switch c.Rand.Intn(5) {
		case 0:
			s = g.LinkTail() + g.Pick("", " rest", ")")
		case 1:
			s = g.Mutate(g.LinkTail())
		case 2:
			s = "(" + g.TailSoup(1+c.Rand.Intn(8))
		case 3:
			s = "(" + g.Pick("", " ", "\n", "<") + g.TailSoup(c.Rand.Intn(5)) + g.Pick(")", ">)", " \"t\")", " 't')", " (t))", "")
		default:
			s = g.TailSoup(1 + c.Rand.Intn(6))
		}
		nn, d, t := md.VerifC35ParseLinkTail(s)
		obs := None()
		if nn >= 0 {
			obs = Some(Pair(Pair(Nat(nn), Str(d)), Str(t)))
		}
		emitKernel(c, "linktail", App("KLinkTail", Str(s), obs), s, fmt.Sprintf("%d %q %q", nn, d, t), nn >= 0)
	}
	// 5. character references and HTML escaping
	for i := 0; i < n/2; i++ {
		s := g.CharRefish()
		e := md.VerifC35LeadingCharRef(s)
		u := ""
		if e != "" {
			u = md.VerifC35UnescapeHTML(e)
		}
		emitKernel(c, "charref", App("KCharRef", Str(s), Nat(len(e)), Str(u)), s, fmt.Sprintf("%q -> %q", e, u), e != "")
		t := g.RandomBytes(c.Rand.Intn(12))
		if c.Rand.Intn(2) == 0 {
			t = g.Pick("<", ">", "&", "\"", "'", "a", "&amp;", "&lt;", "é") + t + g.Pick("<", "&", "\"", "")
		}
		o := md.VerifC35EscapeHTML(t)
		emitKernel(c, "escape", App("KEscape", Str(t), Str(o)), t, o, t != o)
	}
	// 6. line splitting
	for i := 0; i < n/4; i++ {
		var sb strings.Builder
		for j, m := 0, c.Rand.Intn(7); j < m; j++ {
			sb.WriteString(g.Pick("a", "b c", "", "\n", "\n", "é", " "))
		}
		s := sb.String()
		ls := md.VerifC35Lines(s)
		var cl []string
		for _, l := range ls {
			cl = append(cl, Str(l))
		}
		emitKernel(c, "lines", App("KLines", Str(s), List(cl)), s, fmt.Sprintf("%q", ls), strings.Contains(s, "\n"))
	}
}

// ---- emphasis-focused stream ----

// emphStack computes the delimiter stack the inline parser builds for a
// one-line text made only of delimiter runs and plain separators, with the
// real classification function.
func emphStack(text string) ([]md.VerifC35Delim, []string) {
	var ds []md.VerifC35Delim
	var coq []string
	rs := []rune(text)
	add := func(d md.VerifC35Delim) {
		ds = append(ds, d)
		coq = append(coq, App("Din", N(uint64(d.Typ)), Nat(d.N), Bool(d.CanOpen), Bool(d.CanClose)))
	}
	for i := 0; i < len(rs); {
		if rs[i] != '*' && rs[i] != '_' {
			add(md.VerifC35Delim{Typ: 'x', N: 1})
			for i < len(rs) && rs[i] != '*' && rs[i] != '_' {
				i++
			}
			continue
		}
		j := i
		for j < len(rs) && rs[j] == rs[i] {
			j++
		}
		prev, next := '\n', '\n'
		if i > 0 {
			prev = rs[i-1]
		}
		if j < len(rs) {
			next = rs[j]
		}
		o, cl := md.VerifC35CanOpenCloseEmphasis(rs[i], prev, next)
		add(md.VerifC35Delim{Typ: byte(rs[i]), N: j - i, CanOpen: o, CanClose: cl})
		i = j
	}
	return ds, coq
}

func tokCoq(toks []md.VerifC35Tok) []string {
	var coqT []string
	for _, t := range toks {
		switch t.Kind {
		case 0:
			coqT = append(coqT, App("OText", Nat(t.Piece), Nat(t.Len)))
		case 1:
			coqT = append(coqT, "(OStart false)")
		case 2:
			coqT = append(coqT, "(OEnd false)")
		case 3:
			coqT = append(coqT, "(OStart true)")
		case 4:
			coqT = append(coqT, "(OEnd true)")
		}
	}
	return coqT
}

// emphDoc judges one emphasis text twice: the delimiter-stack kernel against
// the Coq model (correspondence) and the rendered paragraph against goldmark
// (reliable class: no brackets).
func emphDoc(c *reg.Ctx, kind, text string) {
	ds, coq := emphStack(text)
	toks := md.VerifC35ProcessEmphasis(ds)
	c.Count("kernel/" + kind)
	c.Emit(reg.Case{Coq: App("KEmph", List(coq), List(tokCoq(toks))), Desc: desc{Kind: kind + "/stack", Input: text, Obs: fmt.Sprint(toks)},
		Key: kind + "|" + text, Class: "kernel-emph", Nontrivial: len(ds) > 1})
	lightTotal = true
	tryGoldmark(c, kind, text)
	lightTotal = false
}

func runEmphasis(c *reg.Ctx, n int) {
	// exhaustive: all sequences of up to 4 star runs of lengths up to 4 separated by
	// letters, bare and wrapped in letters
	letters := "abc"
	var rec func(prefix string, k int)
	rec = func(prefix string, k int) {
		if k > 0 {
			emphDoc(c, "emph-sweep", prefix)
			emphDoc(c, "emph-sweep", "x"+prefix+"y")
		}
		if k == 4 {
			return
		}
		for l := 1; l <= 4; l++ {
			next := prefix
			if k > 0 {
				next += string(letters[k-1])
			}
			rec(next+strings.Repeat("*", l), k+1)
		}
	}
	rec("", 0)
	// the shapes of the pre-0.30 openers_bottom bug and close relatives
	for _, t := range []string{"**a*b****", "*a**b*****", "__a_b____", "**a*b**** c", "***a**b*****", "*a*b***", "**a**b******", "a**b*c****", "**a_b*c****"} {
		emphDoc(c, "emph-fixed", t)
	}
	// random: 2-6 runs of lengths 1-5 of both delimiters, separated so that runs
	// are left-flanking, right-flanking or both
	seps := []string{"a", "b", " ", ".", "(", ")", "a ", " b", "a.", ".b", ", ", "é", ""}
	for i := 0; i < n; i++ {
		var sb strings.Builder
		sb.WriteString(seps[c.Rand.Intn(len(seps))])
		for k, m := 0, 2+c.Rand.Intn(5); k < m; k++ {
			ch := "*"
			if c.Rand.Intn(3) == 0 {
				ch = "_"
			}
			sb.WriteString(strings.Repeat(ch, 1+c.Rand.Intn(5)))
			if k < m-1 {
				sb.WriteString(seps[c.Rand.Intn(len(seps)-1)])
			} else {
				sb.WriteString(seps[c.Rand.Intn(len(seps))])
			}
		}
		emphDoc(c, "emph-random", strings.TrimSpace(sb.String()))
	}
}

// ---- the inline main loop against its model ----

var inlineAlphabet = []string{"a", "b", " ", "  ", "\n", "  \n", "\\\n", "*", "**", "_", "__", "***", "`", "``", "\\", "\\*", "\\a", "&", "&amp;", "&#35;", "&NewLine;", "&#10;", "&x;", "!", ".", "(", "x y", "\\`", " \n ", "#", "-", "1.", "\""}

func inlineCase(c *reg.Ctx, text string) {
	ops := md.VerifC35RenderInline(text)
	var coq []string
	for _, op := range ops {
		switch op.Kind {
		case 0:
			coq = append(coq, App("IOText", Str(op.Text)))
		case 1:
			coq = append(coq, App("IOCode", Str(op.Text)))
		case 2:
			coq = append(coq, "IONewline")
		case 3:
			coq = append(coq, "IOHard")
		case 4:
			coq = append(coq, "(IOEm true false)")
		case 5:
			coq = append(coq, "(IOEm false false)")
		case 6:
			coq = append(coq, "(IOEm true true)")
		case 7:
			coq = append(coq, "(IOEm false true)")
		default:
			return // outside the modelled constructs
		}
	}
	c.Count("kernel/inline-loop")
	c.Emit(reg.Case{Coq: App("KInline", Str(text), List(coq)), Desc: desc{Kind: "inline-loop", Input: text, Obs: fmt.Sprint(ops)},
		Key: "inl|" + text, Class: "kernel-inline-loop", Nontrivial: len(ops) > 1})
}

func runInlineLoop(c *reg.Ctx, n int) {
	for _, t := range []string{"", "a", "a  \nb", "a\\\nb", "`a` `` b ` c ``", "``a`b", "*a* **b** _c_", "a&amp;b&#10;c", "\\*a\\*", "a \n  b", "`a\nb`", "**a*b****", "a\\", "&", "!a", "a  ", "`"} {
		inlineCase(c, t)
	}
	for i := 0; i < n; i++ {
		var sb strings.Builder
		for k, m := 0, 1+c.Rand.Intn(9); k < m; k++ {
			sb.WriteString(inlineAlphabet[c.Rand.Intn(len(inlineAlphabet))])
		}
		// renderInline gets paragraph text: trimmed, never ending in a newline
		inlineCase(c, strings.Trim(sb.String(), " \t\n"))
	}
}

func run(c *reg.Ctx) {
	g := &mdgen.Gen{R: c.Rand}
	// 1. the CommonMark spec corpus
	runSpec(c)
	// 2. fixed regression documents: one per recorded deviation class and a few edge cases
	for _, doc := range []string{"&#0;x\n", "a\n1. \n", "a\n> 2. b\n>\n> 3. c\n", "a\n> -\n>\n> - b\n", "`a\n   b`\n", "[a](u \"t\n   x\")\n",
		"&quote;\n", "&quot;x\n", "- ```\n  a\n \n  ```\n\n- b\n", "", "\n", "\n\n\n", " ", "-", "- \n\n\n  a", "> ", ">\n>\n", "1.\n", "#", "# \n", "```", "~~~\n", "    ", "<", "&", "\\", "[", "![", "*", "_", "`"} {
		tryGoldmark(c, "fixed", doc)
	}
	// 3. kernels
	nk := c.N / 8
	if nk < 40 {
		nk = 40
	}
	runKernels(c, nk)
	runEmphasis(c, c.N/4)
	runInlineLoop(c, c.N/4)
	// 4. grammar-generated documents against goldmark
	nd := c.N / 4
	for i := 0; i < nd; i++ {
		switch c.Rand.Intn(6) {
		case 0:
			tryGoldmark(c, "gen-inline", g.Inline(2))
		case 1:
			tryGoldmark(c, "gen-block", strings.Join(g.Block(1), "\n"))
		case 2:
			tryGoldmark(c, "gen-inline-soup", g.InlineSoup(3+c.Rand.Intn(10)))
		case 3:
			tryGoldmark(c, "gen-soup", g.Soup(3+c.Rand.Intn(12)))
		default:
			tryGoldmark(c, "gen-doc", g.Doc())
		}
	}
	// 5. totality: arbitrary bytes, mutated spec examples, adversarial shapes
	spec := SpecMarkdown()
	nt := c.N / 4
	for i := 0; i < nt; i++ {
		switch c.Rand.Intn(5) {
		case 0:
			emitTotal(c, "random-bytes", g.RandomBytes(c.Rand.Intn(60)))
		case 1, 2:
			emitTotal(c, "mutated-spec", g.Mutate(spec[c.Rand.Intn(len(spec))]))
		case 3:
			size := 50 + c.Rand.Intn(400)
			if c.Tier == "thorough" && c.Rand.Intn(4) == 0 {
				size = 5000 + c.Rand.Intn(20000)
			}
			emitTotal(c, "adversarial", g.Adversarial(size))
		default:
			emitTotal(c, "soup", g.Soup(5+c.Rand.Intn(40)))
		}
	}
	// a few large adversarial inputs in every tier (termination within the watchdog)
	for i := 0; i < 8; i++ {
		emitTotal(c, "adversarial-large", g.Adversarial(4000+c.Rand.Intn(4000)))
	}
}
