package c35

// The CommonMark references for the agreement half of C35: the expectations of
// pkg/md/spec/spec.json and, as an independent implementation, goldmark v1.4.13
// (module cache).  Also: the detectors that decide whether a document uses a
// feature pkg/md documents as omitted (md.go package comment), and the
// normalisation of insignificant serialisation differences.

import (
	"bytes"
	"fmt"
	"regexp"
	"strings"
	"unicode"

	"github.com/yuin/goldmark"
	"github.com/yuin/goldmark/ast"
	"github.com/yuin/goldmark/parser"
	"github.com/yuin/goldmark/renderer/html"
	"github.com/yuin/goldmark/text"
)

// quirksOff disables refQuirk (used only by the self-test of the candidate path).
var quirksOff = false

var gm = goldmark.New(goldmark.WithRendererOptions(html.WithUnsafe(), html.WithXHTML()))

type refResult struct {
	HTML      string
	TightList bool // a list the reference renders tight
	RefDefs   bool // link reference definitions present
	Setext    bool // a heading that does not start with '#'
	// a code span, raw HTML element or link title that continues on an indented line
	IndentedContinuation bool
	Panic                string
}

// goldmarkRender renders with goldmark and reports the features of the
// document that are outside pkg/md's subset, as seen by the reference parser.
func goldmarkRender(src string) (res refResult) {
	defer func() {
		if r := recover(); r != nil {
			res.Panic = fmt.Sprint(r)
		}
	}()
	ctx := parser.NewContext()
	source := []byte(src)
	doc := gm.Parser().Parse(text.NewReader(source), parser.WithContext(ctx))
	res.RefDefs = len(ctx.References()) > 0
	ast.Walk(doc, func(n ast.Node, entering bool) (ast.WalkStatus, error) {
		if !entering {
			return ast.WalkContinue, nil
		}
		switch x := n.(type) {
		case *ast.List:
			if x.IsTight {
				res.TightList = true
			}
		case *ast.CodeSpan:
			i := 0
			for c := x.FirstChild(); c != nil; c = c.NextSibling() {
				if t, ok := c.(*ast.Text); ok && i > 0 && t.Segment.Start > 0 {
					if b := source[t.Segment.Start-1]; b == ' ' || b == '\t' {
						res.IndentedContinuation = true
					}
				}
				i++
			}
		case *ast.RawHTML:
			for i := 1; i < x.Segments.Len(); i++ {
				if st := x.Segments.At(i).Start; st > 0 && (source[st-1] == ' ' || source[st-1] == '\t') {
					res.IndentedContinuation = true
				}
			}
		case *ast.Link:
			if bytes.Contains(x.Title, []byte("\n")) {
				res.IndentedContinuation = true
			}
		case *ast.Image:
			if bytes.Contains(x.Title, []byte("\n")) {
				res.IndentedContinuation = true
			}
		case *ast.Heading:
			if x.Lines().Len() > 0 {
				seg := x.Lines().At(0)
				// walk back over spaces to the marker; ATX content is preceded by '#'s
				i := seg.Start - 1
				for i >= 0 && (source[i] == ' ' || source[i] == '\t') {
					i--
				}
				if i < 0 || source[i] != '#' {
					res.Setext = true
				}
			}
		}
		return ast.WalkContinue, nil
	})
	var b bytes.Buffer
	if err := gm.Renderer().Render(&b, source, doc); err != nil {
		res.Panic = "render error: " + err.Error()
	}
	res.HTML = b.String()
	return res
}

var (
	namedEntity      = regexp.MustCompile(`&[a-zA-Z0-9]+;`)
	setextLine       = regexp.MustCompile(`(?m)^[ >]*(=+|-+)[ \t]*$`)
	headingAttr      = regexp.MustCompile(`(?m)^[ >\-+*0-9.)]*#{1,6}[ \t].*\{[^}]+\}[ \t#]*$`)
	numericRef       = regexp.MustCompile(`&#(?:[xX][0-9a-fA-F]{1,6}|[0-9]{1,7});`)
	hrefSrcAttr      = regexp.MustCompile(`(href|src)="([^"]*)"`)
	looseItem        = regexp.MustCompile(`<li>([^<]+)</li>`)
	emptyItemRef     = "<li></li>"
	delimAfterMarker = regexp.MustCompile(`(?m)^[ >]*>[*_]`)
	declaration      = regexp.MustCompile(`<![a-zA-Z]`)
	nulRef           = regexp.MustCompile(`&#(?:0{1,7}|[xX]0{1,6});`)
	htmlStart15      = regexp.MustCompile(`^[ >\-+*0-9.)]*<(\?|!--|!\[CDATA\[|![A-Za-z]|(?i:pre|script|style|textarea))`)
)

// entities on which pkg/md and CommonMark agree (both decode them the same way)
var agreedEntities = map[string]bool{"lt": true, "gt": true, "amp": true, "apos": true, "quot": true,
	"Tab": true, "NewLine": true, "nbsp": true}

// unsupportedSyntactic names the documented omission a document uses, judged
// from the text alone ("" if none).  Conservative: it may exclude documents
// that would in fact render alike, never the converse.
func unsupportedSyntactic(src string) string {
	switch {
	case strings.Contains(src, "\t"):
		return "tab"
	case strings.Contains(src, "\r"):
		return "carriage-return"
	}
	for _, m := range namedEntity.FindAllString(src, -1) {
		name := m[1 : len(m)-1]
		if name == "quote" {
			continue // documented as supported; judged (see findingClass)
		}
		if !agreedEntities[name] {
			return "named-entity"
		}
	}
	lines := strings.Split(src, "\n")
	for i, l := range lines {
		if i > 0 && setextLine.MatchString(l) && strings.Trim(lines[i-1], " >\t") != "" {
			return "setext-heading"
		}
	}
	if headingAttr.MatchString(src) {
		return "ext-heading-attributes" // Pandoc extension, documented
	}
	return ""
}

// normaliseElvish / normaliseRef remove insignificant serialisation
// differences: how an empty list item is written and percent-encoding of
// non-ASCII bytes in URL attributes.
func pctEncodeNonASCII(html string) string {
	return hrefSrcAttr.ReplaceAllStringFunc(html, func(m string) string {
		var sb strings.Builder
		for i := 0; i < len(m); i++ {
			if m[i] >= 0x80 {
				fmt.Fprintf(&sb, "%%%02X", m[i])
			} else {
				sb.WriteByte(m[i])
			}
		}
		return sb.String()
	})
}

func normaliseElvish(h string) string {
	return strings.TrimRight(pctEncodeNonASCII(strings.ReplaceAll(h, "<li>\n</li>", emptyItemRef)), "\n") + "\n"
}

func normaliseRef(h string) string {
	return strings.TrimRight(pctEncodeNonASCII(strings.ReplaceAll(h, "<li>\n</li>", emptyItemRef)), "\n") + "\n"
}

// loosifyLists is the package's own test normalisation for spec expectations
// (testutils_test.go): single-line tight items are rewritten as loose ones.
func loosifyLists(html string) string {
	return looseItem.ReplaceAllString(html, "<li>\n<p>$1</p>\n</li>")
}

// specSkipReason mirrors testutils_test.go:skipReason, the list the package
// documentation names as the complete list of unsupported spec examples.
func specSkipReason(section string, example int) string {
	switch section {
	case "Tabs":
		return "tab"
	case "Setext headings":
		return "setext-heading"
	case "Link reference definitions":
		return "reference-link"
	}
	switch example {
	case 59, 115, 141, 300:
		return "setext-heading"
	case 23, 33, 317,
		527, 528, 529, 530, 531, 532, 533, 534, 535, 536, 537, 538, 539, 540, 541, 542, 543, 544, 545, 549, 550, 553, 554, 555, 556, 557, 558, 559, 560, 561, 562, 563, 564, 565, 566, 567, 568, 569, 570, 571, 573, 576, 577,
		582, 583, 584, 585, 586, 587, 588, 589, 591, 592, 593:
		return "reference-link"
	case 294, 296, 307, 318, 319, 320, 321, 323:
		return "tight-list"
	}
	return ""
}

// refQuirk names a known difference between goldmark v1.4.13 (CommonMark 0.30)
// and CommonMark 0.31.2 (which pkg/md targets) that the document touches; such
// documents are compared with the spec corpus only.  "" if none.
func refQuirk(src string) string {
	if quirksOff {
		return ""
	}
	// goldmark builds image alt text from Text nodes only: it drops autolinks
	// and raw HTML inside the description and leaves backslash escapes and
	// character references undecoded.  The spec (and its reference
	// implementations) use the plain string content, as pkg/md does.
	for rest := src; ; {
		i := strings.Index(rest, "![")
		if i < 0 {
			break
		}
		rest = rest[i+2:]
		alt := rest
		depth := 1
		for j := 0; j < len(rest); j++ {
			switch rest[j] {
			case '[':
				depth++
			case ']':
				depth--
			}
			if depth == 0 {
				alt = rest[:j]
				break
			}
		}
		if strings.ContainsAny(alt, "\\&<\n") {
			return "goldmark-image-alt"
		}
	}
	// goldmark mishandles emphasis delimiters inside a link text or image
	// description that stay unmatched there while delimiters are open outside
	// (it pairs them across the bracket and reorders nodes; 8 cases in 36 000
	// generated paragraphs, all of this shape).  Conservative syntactic test:
	// some bracket span contains '*' or '_' and a '*' or '_' occurs outside the
	// brackets earlier in the same paragraph.
	// The same happens when the bracket span with the delimiters contains
	// another bracket or is never closed.
	for _, para := range strings.Split(src, "\n\n") {
		depth, maxDepth, outside, inDelim, anyDelim := 0, 0, false, false, false
		for i := 0; i < len(para); i++ {
			switch para[i] {
			case '\\':
				i++
			case '[':
				depth++
				if depth > maxDepth {
					maxDepth = depth
				}
			case ']':
				if depth > 0 {
					depth--
				}
			case '*', '_':
				anyDelim = true
				if depth == 0 {
					outside = true
				} else {
					inDelim = true
					if outside {
						return "goldmark-emphasis-across-brackets"
					}
				}
			}
		}
		if anyDelim && maxDepth >= 2 {
			return "goldmark-emphasis-with-nested-brackets"
		}
		if depth > 0 && inDelim {
			return "goldmark-emphasis-in-unclosed-bracket"
		}
	}
	// goldmark keeps blank lines at the end of an HTML block of kinds 1-5 that
	// is closed by the end of its container, and restarts a block quote after a
	// bare ">" line inside such a block; the reference implementations strip
	// them (as pkg/md does).  Exclude multi-line blocks of these kinds.
	for _, l := range strings.Split(src, "\n") {
		if m := htmlStart15.FindStringSubmatch(l); m != nil {
			rest := l[len(m[0]):]
			closer := map[string]string{"?": "?>", "!--": "-->", "![CDATA[": "]]>"}[m[1]]
			if closer == "" {
				if m[1][0] == '!' {
					closer = ">"
				} else {
					closer = "</"
				}
			}
			if !strings.Contains(rest, closer) {
				return "goldmark-multiline-html-block"
			}
		}
	}
	// goldmark takes the block quote marker as the character before a delimiter
	// that starts the line right after it; the spec counts the line start as
	// whitespace.
	if delimAfterMarker.MatchString(src) {
		return "goldmark-delimiter-after-marker"
	}
	// goldmark does not see a hard line break in an escaped backslash followed
	// by backslash-newline (three backslashes before the line end).
	if strings.Contains(src, "\\\\\\\n") {
		return "goldmark-escaped-backslash-hard-break"
	}
	// CommonMark 0.31.2 (pkg/md's target) differs from 0.30 (goldmark v1.4.13)
	// in two places the generators can reach: Unicode symbols (S*) count as
	// punctuation for delimiter flanking, and "<!-->" / "<!--->" are comments.
	for rest := src; ; {
		i := strings.Index(rest, "<!--")
		if i < 0 {
			break
		}
		rest = rest[i+4:]
		if strings.HasPrefix(rest, ">") || strings.HasPrefix(rest, "->") {
			return "spec-0.31-html-comment"
		}
		j := strings.Index(rest, "-->")
		if j < 0 {
			continue
		}
		body := rest[:j]
		if strings.HasPrefix(body, ">") || strings.HasPrefix(body, "->") || strings.HasSuffix(body, "-") || strings.Contains(body, "--") {
			return "spec-0.31-html-comment"
		}
	}
	if declaration.MatchString(src) {
		return "spec-0.31-declaration"
	}
	for _, r := range src {
		if r >= 0x80 && unicode.IsSymbol(r) {
			return "spec-0.31-unicode-symbol"
		}
	}
	return ""
}

var (
	emptyItemSpace = regexp.MustCompile(`^[ >]*(?:[-+*]|[0-9]{1,9}[.)]) +$`)
	bqThenItem     = regexp.MustCompile(`^ {0,3}>[> ]*(?:[-+*]|([0-9]{1,9})[.)])(?: +(\S)|[ ]*$)`)
	startsQuote    = regexp.MustCompile(`^ {0,3}>`)
	spaceOnlyLine  = regexp.MustCompile(`(?m)^[ >]* +$`)
	listMarkerLine = regexp.MustCompile(`(?m)^[ >]*(?:[-+*]|[0-9]{1,9}[.)])(?: |$)`)
)

// findingClass gives inputs of the recorded deviation classes of pkg/md their
// own narrow class (computed from the input and the reference parse only).
func findingClass(src string, ref refResult) string {
	if nulRef.MatchString(src) {
		return "numeric-charref-nul"
	}
	if strings.Contains(src, "&quote;") || strings.Contains(src, "&quot;") {
		return "entity-quote"
	}
	lines := strings.Split(src, "\n")
	for i, l := range lines {
		if i == 0 || strings.Trim(lines[i-1], " >") == "" {
			continue
		}
		if emptyItemSpace.MatchString(l) {
			return "empty-item-trailing-space-after-paragraph"
		}
		if m := bqThenItem.FindStringSubmatch(l); m != nil && !startsQuote.MatchString(lines[i-1]) {
			if (m[1] != "" && strings.TrimLeft(m[1], "0") != "1") || m[2] == "" {
				return "list-in-new-blockquote-after-paragraph"
			}
		}
	}
	if ref.IndentedContinuation {
		return "indented-continuation-in-multiline-inline"
	}
	if spaceOnlyLine.MatchString(src) && listMarkerLine.MatchString(src) &&
		(strings.Contains(src, "```") || strings.Contains(src, "~~~")) {
		return "space-only-line-in-fenced-code-in-list-item"
	}
	return ""
}

// reliableShape says whether a document lies in the class for which goldmark
// was triaged as a reliable reference: no brackets (links, images), no angle
// brackets (raw HTML, autolinks, HTML blocks) — every defect of goldmark found
// during triage involves one of these, or one of the shapes refQuirk excludes.
// In this class a disagreement with goldmark alone is reported as a violation;
// outside it, it is reported only if shrinking leads into the class, and
// otherwise recorded in the evidence as a candidate (see c35.go).
func reliableShape(src string) bool {
	return !strings.ContainsAny(src, "[]<") && utf8Plain(src)
}

func utf8Plain(src string) bool {
	for _, r := range src {
		if r == 0xFFFD || r == 0 {
			return false
		}
	}
	return true
}
