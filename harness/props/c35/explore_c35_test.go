package c35

import (
	"fmt"
	"math/rand"
	"os"
	"strconv"
	"strings"
	"testing"

	"src.elv.sh/pkg/md"
	"verifharness/props/c35/mdgen"
)

// Exploration aid (not part of the check): prints disagreements between pkg/md
// and goldmark on generated documents.  go test -tags verif -run Explore -v
func TestExploreC35(t *testing.T) {
	n, _ := strconv.Atoi(os.Getenv("C35_N"))
	if n == 0 {
		t.Skip("set C35_N")
	}
	seed, _ := strconv.Atoi(os.Getenv("C35_SEED"))
	g := &mdgen.Gen{R: rand.New(rand.NewSource(int64(seed)))}
	mode := os.Getenv("C35_MODE")
	bad, total, excluded := 0, 0, map[string]int{}
	for i := 0; i < n; i++ {
		var doc string
		switch mode {
		case "soup":
			doc = g.Soup(3 + g.R.Intn(12))
		case "inline":
			doc = g.InlineSoup(3 + g.R.Intn(10))
		case "para":
			doc = g.Inline(2)
		case "mutate":
			doc = g.Mutate(g.Doc())
		case "block":
			doc = strings.Join(g.Block(1), "\n") + "\n"
		default:
			doc = g.Doc()
		}
		if !strings.HasSuffix(doc, "\n") {
			doc += "\n"
		}
		if r := unsupportedSyntactic(doc); r != "" {
			excluded[r]++
			continue
		}
		ref := goldmarkRender(doc)
		switch {
		case ref.Panic != "":
			excluded["ref-panic"]++
			continue
		case ref.TightList:
			excluded["tight"]++
			continue
		case ref.RefDefs:
			excluded["refdef"]++
			continue
		case ref.Setext:
			excluded["setext"]++
			continue
		}
		if r := refQuirk(doc); r != "" {
			excluded[r]++
			continue
		}
		if os.Getenv("C35_RELIABLE") != "" && !reliableShape(doc) {
			excluded["not-reliable-shape"]++
			continue
		}
		if fc := findingClass(doc, ref); fc != "" && os.Getenv("C35_FIXED") == "" {
			excluded["finding:"+fc]++
			continue
		}
		total++
		got := normaliseElvish(md.RenderString(doc, &md.HTMLCodec{}))
		want := normaliseRef(ref.HTML)
		if got != want {
			bad++
			if bad <= 25 {
				gl, wl := strings.Split(got, "\n"), strings.Split(want, "\n")
				k := 0
				for k < len(gl) && k < len(wl) && gl[k] == wl[k] {
					k++
				}
				g1, w1 := "<end>", "<end>"
				if k < len(gl) {
					g1 = gl[k]
				}
				if k < len(wl) {
					w1 = wl[k]
				}
				fmt.Printf("=== DISAGREE doc=%q\n  elvish  : %s\n  goldmark: %s\n", doc, g1, w1)
			}
		}
	}
	fmt.Println("compared", total, "disagree", bad, "excluded", excluded)
}
