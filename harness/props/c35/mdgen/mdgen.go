// Package mdgen generates Markdown documents for the C35/C36 runners:
// grammar-generated documents of pkg/md's supported subset, token soups that
// combine constructs in ways the spec examples do not, mutations of corpus
// documents, and adversarial inputs for the totality half.
package mdgen

import (
	"math/rand"
	"strings"
)

type Gen struct {
	R *rand.Rand
	// NoRawHTML suppresses raw HTML (blocks and inline) so that the output can
	// be judged by the tag-balance checker.
	NoRawHTML bool
	// NoEmphasisNesting keeps emphasis flat and separated (C36: nested and
	// consecutive emphasis are documented as unsupported by the formatter).
	NoEmphasisNesting bool
}

func (g *Gen) pick(xs ...string) string { return xs[g.R.Intn(len(xs))] }
func (g *Gen) chance(n int) bool        { return g.R.Intn(n) == 0 }

var words = []string{"a", "b", "foo", "bar", "x1", "é", "中文", "Zz", "it's", "q.", "(p)", "7", "n-m", "u_v", "w,"}

func (g *Gen) word() string { return words[g.R.Intn(len(words))] }

func (g *Gen) plain(n int) string {
	var ws []string
	for i := 0; i < n; i++ {
		ws = append(ws, g.word())
	}
	return strings.Join(ws, " ")
}

var safeURLs = []string{"http://a.b/c", "/url", "x.png", "#frag", "https://e.f/g?h=i", "mailto:k", "a/b_c", "u(v)w"}

func (g *Gen) linkTail() string {
	dest := g.pick(safeURLs...)
	switch g.R.Intn(8) {
	case 0:
		dest = "<" + g.pick("a b", "/u v", "x") + ">"
	case 1:
		dest = ""
	}
	title := ""
	switch g.R.Intn(5) {
	case 0:
		title = ` "` + g.plain(1+g.R.Intn(2)) + `"`
	case 1:
		title = ` '` + g.pick("t", "it\"s", "a (b)") + `'`
	case 2:
		title = ` (` + g.pick("t", "q'r", "s\"t") + `)`
	}
	if dest == "" && title != "" {
		dest = "<>"
	}
	return "(" + dest + title + ")"
}

// Inline produces one line worth of inline content (no newline).
func (g *Gen) Inline(depth int) string {
	n := 1 + g.R.Intn(4)
	var parts []string
	lastEmph := false
	for i := 0; i < n; i++ {
		k := g.R.Intn(22)
		if depth <= 0 && k >= 4 && k <= 9 {
			k = 0
		}
		if g.NoEmphasisNesting && k >= 4 && k <= 7 && (lastEmph || depth < 2) {
			k = 0
		}
		lastEmph = false
		switch k {
		case 0, 1, 2, 3:
			parts = append(parts, g.plain(1+g.R.Intn(3)))
		case 4:
			parts = append(parts, "*"+g.Inline(depth-1)+"*")
			lastEmph = true
		case 5:
			parts = append(parts, "**"+g.Inline(depth-1)+"**")
			lastEmph = true
		case 6:
			parts = append(parts, "_"+g.Inline(depth-1)+"_")
			lastEmph = true
		case 7:
			parts = append(parts, "__"+g.Inline(depth-1)+"__")
			lastEmph = true
		case 8:
			parts = append(parts, "["+g.Inline(depth-1)+"]"+g.linkTail())
		case 9:
			parts = append(parts, "!["+g.Inline(depth-1)+"]"+g.linkTail())
		case 10:
			tick := g.pick("`", "`", "``", "```")
			body := g.pick("code", "a b", " c ", "x`y", "``", "a  b", "<i>", "&amp;", "*e*", " ")
			if strings.Contains(body, tick) && len(tick) < 3 {
				tick += "`"
			}
			if strings.Contains(body, "`") && !(strings.HasPrefix(body, " ") && strings.HasSuffix(body, " ")) {
				body = " " + body + " "
			}
			parts = append(parts, tick+body+tick)
		case 11:
			parts = append(parts, g.pick("<http://a.b/c>", "<https://x.y?z=1&w=2>", "<foo@bar.baz>", "<mailto:q@r.s>"))
		case 12:
			if g.NoRawHTML {
				parts = append(parts, g.plain(1))
			} else {
				parts = append(parts, g.pick("<b>", "</b>", "<i class=\"k\">", "<br/>", "<!-- c -->", "<?pi?>", "<x-y z='1'>"))
			}
		case 13:
			parts = append(parts, g.pick("&amp;", "&lt;", "&gt;", "&#35;", "&#x22;", "&#X3c;", "&apos;", "&nbsp;", "&#960;", "&copy", "&;", "&#;", "& b"))
		case 14:
			parts = append(parts, `\`+g.pick("*", "_", "`", "[", "]", "\\", "<", "&", "#", "!", "a", "(", ">", "-", "+", "."))
		case 15:
			// stray delimiters and punctuation next to words
			parts = append(parts, g.pick("*", "**", "_", "__", "***", "*_", "_*", "]", "[", "![", "`", "<", ">", "!", "&", "\"", "'", "(", ")", "#", "~", "=", "+", "-", "1.", "a*b", "c_d", "e**f", "g__h", "*i", "j*", "_k", "l_", "**m", "n**", "(*o*)", "*(p)*", "\"*q*\"", "_(r)_s"))
		case 16:
			parts = append(parts, g.word()+g.pick("*", "_", "**", "__")+g.word()+g.pick("*", "_", "**", "__")+g.word())
		case 17:
			parts = append(parts, g.pick("*", "_")+g.pick("*", "_", "**")+g.word()+g.pick("*", "_", "**")+g.pick("*", "_"))
		case 18:
			parts = append(parts, g.pick("http://plain.url", "a@b.c", "5 > 3", "1 < 2", "x & y", "a b", "“q”", "e—f", "…"))
		default:
			parts = append(parts, g.plain(1+g.R.Intn(2)))
		}
	}
	sep := " "
	if g.chance(6) {
		sep = ""
	}
	return strings.Join(parts, sep)
}

// Paragraph returns 1..3 lines.
func (g *Gen) Paragraph() []string {
	n := 1 + g.R.Intn(3)
	if g.chance(2) {
		n = 1
	}
	var ls []string
	for i := 0; i < n; i++ {
		l := g.Inline(2)
		if i > 0 {
			// avoid accidentally starting another block on a continuation line
			l = g.word() + " " + l
		}
		if i < n-1 {
			switch g.R.Intn(8) {
			case 0:
				l += "  "
			case 1:
				l += `\`
			case 2:
				l += " "
			}
		}
		ls = append(ls, l)
	}
	if g.chance(10) {
		ls[0] = g.pick(" ", "  ", "   ") + ls[0]
	}
	return ls
}

func prefixLines(ls []string, first, rest string) []string {
	out := make([]string, len(ls))
	for i, l := range ls {
		p := rest
		if i == 0 {
			p = first
		}
		if l == "" {
			out[i] = strings.TrimRight(p, " ")
		} else {
			out[i] = p + l
		}
	}
	return out
}

// Block returns the lines of one block.
func (g *Gen) Block(depth int) []string {
	k := g.R.Intn(20)
	if depth <= 0 && k >= 12 {
		k = g.R.Intn(12)
	}
	switch k {
	case 0, 1, 2, 3:
		return g.Paragraph()
	case 4:
		h := strings.Repeat("#", 1+g.R.Intn(6)) + " " + g.Inline(2)
		switch g.R.Intn(6) {
		case 0:
			h += " " + strings.Repeat("#", 1+g.R.Intn(3))
		case 1:
			h += " #x"
		case 2:
			h = strings.Repeat("#", 1+g.R.Intn(6))
		}
		return []string{h}
	case 5:
		return []string{g.pick("***", "---", "___", "* * *", " - - -", "_  _  _", "*****", "--- ")}
	case 6, 7:
		fence := g.pick("```", "```", "~~~", "````", "~~~~")
		info := g.pick("", "", "elvish", "sh x", " go ", "a&amp;b", `c\*d`)
		if fence[0] == '`' && strings.Contains(info, "`") {
			info = ""
		}
		ls := []string{fence + info}
		for i, n := 0, g.R.Intn(4); i < n; i++ {
			ls = append(ls, g.pick("code", "  indented", "", "`` ticks", "~~", "<b>&amp;", "*not em*", "# not heading", "- x", "> y", "```x", "    deep"))
		}
		if !g.chance(8) {
			ls = append(ls, fence+g.pick("", "", "`", "  "))
			if strings.HasSuffix(ls[len(ls)-1], "`") && fence[0] == '~' {
				ls[len(ls)-1] = fence
			}
		}
		return ls
	case 8:
		var ls []string
		for i, n := 0, 1+g.R.Intn(3); i < n; i++ {
			ls = append(ls, "    "+g.pick("code", "  more", "*x*", "<y>", "- z", "&amp;"))
			if g.chance(4) && i < n-1 {
				ls = append(ls, "")
			}
		}
		return ls
	case 9:
		if g.NoRawHTML {
			return g.Paragraph()
		}
		switch g.R.Intn(5) {
		case 0:
			return []string{"<div>", g.pick("*hi*", "text", "<p>x</p>"), "</div>"}
		case 1:
			return []string{"<!-- comment", "", "still -->"}
		case 2:
			return []string{"<pre>", "", "*raw*", "</pre>"}
		case 3:
			return []string{"<table><tr><td>", "x", "</td></tr></table>"}
		default:
			return []string{g.pick("<a href=\"u\">", "</custom>", "<x-y>", "<?php", "<!DOCTYPE html>", "<![CDATA[ x ]]>")}
		}
	case 10, 11:
		return g.Paragraph()
	case 12, 13:
		inner := g.Blocks(depth-1, 1+g.R.Intn(2))
		mark := g.pick("> ", "> ", ">", " > ")
		out := prefixLines(inner, mark, mark)
		for i := range out {
			if out[i] == "" || strings.TrimSpace(out[i]) == "" {
				out[i] = ">"
			}
		}
		return out
	case 14, 15, 16:
		// loose bullet list: items separated by blank lines
		marker := g.pick("-", "+", "*")
		pad := strings.Repeat(" ", 1+g.R.Intn(3))
		var out []string
		n := 2 + g.R.Intn(2)
		for i := 0; i < n; i++ {
			inner := g.Blocks(depth-1, 1+g.R.Intn(2))
			if i > 0 {
				out = append(out, "")
			}
			out = append(out, prefixLines(inner, marker+pad, strings.Repeat(" ", 1+len(pad)))...)
		}
		return out
	default:
		// loose ordered list
		start := g.pick("1", "1", "2", "0", "10", "007")
		punct := g.pick(".", ")")
		var out []string
		n := 2 + g.R.Intn(2)
		for i := 0; i < n; i++ {
			inner := g.Blocks(depth-1, 1+g.R.Intn(2))
			if i > 0 {
				out = append(out, "")
			}
			m := start + punct + " "
			out = append(out, prefixLines(inner, m, strings.Repeat(" ", len(m)))...)
		}
		return out
	}
}

// Blocks returns n blocks separated by blank lines (occasionally not).
func (g *Gen) Blocks(depth, n int) []string {
	var out []string
	for i := 0; i < n; i++ {
		b := g.Block(depth)
		if i > 0 && (!g.chance(7) || depth < 2) {
			out = append(out, "")
		}
		out = append(out, b...)
	}
	return out
}

// Doc returns a grammar-generated document.
func (g *Gen) Doc() string {
	ls := g.Blocks(2, 1+g.R.Intn(4))
	s := strings.Join(ls, "\n")
	if !g.chance(5) {
		s += "\n"
	}
	return s
}

var soup = []string{"*", "**", "_", "__", "***", "`", "``", "[", "]", "(", ")", "](", "](/u)", "![", "!", "<", ">", "&", "\\", "\n", "\n", "\n\n",
	" ", " ", "  ", "a", "b", "é", "中", "#", "# ", "-", "- ", "+ ", "1. ", "2) ", "> ", ">", "    ", "```", "~~~", "&amp;", "&#35;", "&#0;", "<b>", "</b>",
	"<http://a.b>", "\"", "'", "***", "---", "___", "=", "\\\n", "  \n", "x", "y z", ".", "!", "?", ":", "<!--", "-->", "<?", "?>", "]]>", "<![CDATA[", "{#id}", " ", "€", " "}

// Soup returns a random concatenation of Markdown-flavoured tokens.
func (g *Gen) Soup(n int) string {
	var sb strings.Builder
	for i := 0; i < n; i++ {
		t := soup[g.R.Intn(len(soup))]
		if g.NoRawHTML && strings.ContainsAny(t, "<") {
			t = "z"
		}
		sb.WriteString(t)
	}
	return sb.String()
}

// InlineSoup is a one-paragraph soup: no newlines, no block markers at the start.
func (g *Gen) InlineSoup(n int) string {
	var sb strings.Builder
	sb.WriteString("w")
	for i := 0; i < n; i++ {
		t := soup[g.R.Intn(len(soup))]
		if strings.Contains(t, "\n") || t == "    " {
			t = " "
		}
		if g.NoRawHTML && strings.ContainsAny(t, "<") {
			t = "z"
		}
		sb.WriteString(t)
	}
	return sb.String()
}

// Mutate applies a few byte-level edits to s.
func (g *Gen) Mutate(s string) string {
	b := []byte(s)
	for k, n := 0, 1+g.R.Intn(3); k < n; k++ {
		tok := soup[g.R.Intn(len(soup))]
		switch g.R.Intn(4) {
		case 0: // insert a token
			i := g.R.Intn(len(b) + 1)
			b = append(b[:i:i], append([]byte(tok), b[i:]...)...)
		case 1: // delete a byte
			if len(b) > 0 {
				i := g.R.Intn(len(b))
				b = append(b[:i:i], b[i+1:]...)
			}
		case 2: // duplicate a slice
			if len(b) > 1 {
				i := g.R.Intn(len(b))
				j := i + g.R.Intn(len(b)-i)
				b = append(b[:j:j], append(append([]byte{}, b[i:j]...), b[j:]...)...)
			}
		default: // replace a byte
			if len(b) > 0 {
				b[g.R.Intn(len(b))] = tok[0]
			}
		}
	}
	return string(b)
}

// Adversarial returns inputs meant to stress termination and recursion depth.
func (g *Gen) Adversarial(size int) string {
	rep := func(s string) string { return strings.Repeat(s, size) }
	switch g.R.Intn(16) {
	case 0:
		return rep("[")
	case 1:
		return rep("[") + rep("]")
	case 2:
		return rep("*a ") + rep("*")
	case 3:
		return rep("_*")
	case 4:
		return rep(">")
	case 5:
		return rep("- ")
	case 6:
		return rep("`") + "a" + rep("` ")
	case 7:
		return rep("<")
	case 8:
		return rep("<!--")
	case 9:
		return rep("[a](")
	case 10:
		return rep("![") + rep("](b)")
	case 11:
		return rep("&#")
	case 12:
		return rep("1. ")
	case 13:
		return rep("\\")
	case 14:
		return rep("> - ") + "x\n" + rep("\n")
	default:
		return rep("*_`[<&\\!]") + rep("(")
	}
}

// RandomBytes returns arbitrary bytes (any value, including NUL, CR, tabs and
// invalid UTF-8).
func (g *Gen) RandomBytes(n int) string {
	b := make([]byte, n)
	for i := range b {
		switch g.R.Intn(3) {
		case 0:
			b[i] = byte(g.R.Intn(256))
		case 1:
			const al = "*_`[]()<>&\\!#-+>\n\t\r ~=1.\"'"
			b[i] = al[g.R.Intn(len(al))]
		default:
			b[i] = byte(32 + g.R.Intn(95))
		}
	}
	return string(b)
}

// exported helpers for the kernel generators

func (g *Gen) Pick(xs ...string) string { return g.pick(xs...) }
func (g *Gen) Plain(n int) string       { return g.plain(n) }
func (g *Gen) LinkTail() string         { return g.linkTail() }

var tailSoup = []string{"(", ")", "<", ">", "\"", "'", " ", "  ", "\n", "\t", "\\", "\\(", "\\)", "\\\"", "\\a", "&", "&amp;", "&#40;", "&#x29;", "&NewLine;",
	"&quote;", "&nope;", "&#", ";", "a", "b/c", "é", "\x01", "\x7f", "*", "[", "]"}

// TailSoup is a soup over the alphabet that matters to parseLinkTail.
func (g *Gen) TailSoup(n int) string {
	var sb strings.Builder
	for i := 0; i < n; i++ {
		sb.WriteString(tailSoup[g.R.Intn(len(tailSoup))])
	}
	return sb.String()
}

// CharRefish returns text that starts like a character reference.
func (g *Gen) CharRefish() string {
	digits := func(al string, n int) string {
		var sb strings.Builder
		for i := 0; i < n; i++ {
			sb.WriteByte(al[g.R.Intn(len(al))])
		}
		return sb.String()
	}
	var s string
	switch g.R.Intn(8) {
	case 0:
		s = "&" + g.pick("lt", "gt", "amp", "apos", "quote", "quot", "Tab", "NewLine", "nbsp", "copy", "x", "") + g.pick(";", ";", "", " ;")
	case 1:
		s = "&#" + digits("0123456789", g.R.Intn(9)) + g.pick(";", ";", "", "x;")
	case 2:
		s = "&#" + g.pick("x", "X") + digits("0123456789abcdefABCDEF", g.R.Intn(8)) + g.pick(";", ";", "", "g;")
	case 3:
		s = "&#" + g.pick("0", "00", "x0", "55296", "xD800", "xDFFF", "1114111", "1114112", "x10FFFF", "x110000", "9999999", "xFFFFFF", "65533", "128", "2047", "2048", "65535", "65536") + ";"
	case 4:
		s = "&" + digits("abcXYZ019", 1+g.R.Intn(12)) + g.pick(";", "")
	case 5:
		s = g.pick("&", "&#", "&#x", "&;", "&#;", "&#x;", "a&amp;", "", "&&amp;")
	default:
		s = "&" + digits("ab1#xX;& ", g.R.Intn(8))
	}
	return s + g.pick("", "", " tail", ";")
}
