// Package c14: histories of element assignments / deletions on one variable holding
// nested lists and maps, with aliases (other variable, closure capture, captured
// output) taken before each step and all compared after every step.
package c14

import (
	"fmt"
	"math/rand"

	. "verifharness/coqfmt"
	a "verifharness/props/c15"
	"verifharness/reg"
)

func init() {
	reg.Register(&reg.Spec{ID: "C14",
		Imports: "From verif Require Import lib.Base model.C15_Syntax model.C14.",
		Judge:   "C14.judge", Shard: 12, Run: run})
}

type desc struct {
	Src string `json:"src"`
	Out string `json:"out"`
	Exc string `json:"exc,omitempty"`
}

// Go-side picture of a value, only used to choose (mostly) valid paths
type val interface{}
type mapv struct {
	keys []string
	vals []val
}

type gen struct{ r *rand.Rand }

func (g *gen) n(k int) int      { return g.r.Intn(k) }
func (g *gen) p(x float64) bool { return g.r.Float64() < x }

var words = []string{"a", "b", "c", "k", "m", "x1"}

func (g *gen) word() string { return words[g.n(len(words))] }

func (g *gen) value(d int) val {
	if d <= 0 || g.p(0.35) {
		return g.word()
	}
	if g.p(0.55) {
		n := 1 + g.n(3)
		l := make([]val, n)
		for i := range l {
			l[i] = g.value(d - 1)
		}
		return l
	}
	m := &mapv{}
	for i, n := 0, 1+g.n(3); i < n; i++ {
		k := g.word()
		dup := false
		for _, k2 := range m.keys {
			dup = dup || k2 == k
		}
		if !dup {
			m.keys = append(m.keys, k)
			m.vals = append(m.vals, g.value(d-1))
		}
	}
	return m
}

func s(x string) a.Expr { return a.EStr{S: x} }

func valExpr(v val) a.Expr {
	switch v := v.(type) {
	case string:
		return s(v)
	case []val:
		es := make([]a.Expr, len(v))
		for i, x := range v {
			es[i] = valExpr(x)
		}
		return a.EList{Es: es}
	case *mapv:
		m := a.EMap{}
		for i, k := range v.keys {
			m.Ks = append(m.Ks, s(k))
			m.Vs = append(m.Vs, valExpr(v.vals[i]))
		}
		return m
	}
	panic("valExpr")
}

func valCoq(v val) string {
	switch v := v.(type) {
	case string:
		return App("VStr", Str(v))
	case []val:
		items := make([]string, len(v))
		for i, x := range v {
			items[i] = valCoq(x)
		}
		return App("VList", List(items))
	case *mapv:
		items := make([]string, len(v.keys))
		for i, k := range v.keys {
			items[i] = Pair(App("VStr", Str(k)), valCoq(v.vals[i]))
		}
		return App("VMap", List(items))
	}
	panic("valCoq")
}

func clone(v val) val {
	switch v := v.(type) {
	case []val:
		l := make([]val, len(v))
		for i, x := range v {
			l[i] = clone(x)
		}
		return l
	case *mapv:
		m := &mapv{keys: append([]string{}, v.keys...)}
		for _, x := range v.vals {
			m.vals = append(m.vals, clone(x))
		}
		return m
	}
	return v
}

// a path into v; del = the last container must be a map; may be made invalid
func (g *gen) path(v val, del bool) []string {
	var p []string
	cur := v
	for depth := 0; depth < 4; depth++ {
		switch c := cur.(type) {
		case string:
			if len(p) == 0 || g.p(0.1) {
				p = append(p, "0") // element of a string: not assignable here
			}
			return p
		case []val:
			if len(c) == 0 {
				p = append(p, "0")
				return p
			}
			i := g.n(len(c))
			ix := fmt.Sprint(i)
			if g.p(0.25) {
				ix = fmt.Sprint(i - len(c))
			}
			if g.p(0.08) {
				// just past the end (exactly len) or further
				ix = fmt.Sprint(len(c) + g.n(2))
			}
			p = append(p, ix)
			cur = c[i]
		case *mapv:
			if len(c.keys) == 0 || g.p(0.2) {
				p = append(p, g.word()) // possibly a new key
				return p
			}
			i := g.n(len(c.keys))
			p = append(p, c.keys[i])
			cur = c.vals[i]
		}
		if g.p(0.4) {
			if !del {
				return p
			}
		}
		if del {
			if _, ok := cur.(*mapv); !ok && len(p) > 0 {
				// stop one level up if the parent is a map (valid deletion), else go on
				return p
			}
		}
	}
	return p
}

// sequential (reference) semantics on the Go-side picture; ok=false if it raises
func assoc(v val, p []string, nv val) (val, bool) {
	if len(p) == 0 {
		return nv, true
	}
	switch c := v.(type) {
	case []val:
		var i int
		if _, err := fmt.Sscanf(p[0], "%d", &i); err != nil {
			return v, false
		}
		if i < 0 {
			i += len(c)
		}
		if i < 0 || i >= len(c) {
			return v, false
		}
		sub, ok := assoc(c[i], p[1:], nv)
		if !ok {
			return v, false
		}
		l := append([]val{}, c...)
		l[i] = sub
		return l, true
	case *mapv:
		for i, k := range c.keys {
			if k == p[0] {
				sub, ok := assoc(c.vals[i], p[1:], nv)
				if !ok {
					return v, false
				}
				m := &mapv{keys: append([]string{}, c.keys...), vals: append([]val{}, c.vals...)}
				m.vals[i] = sub
				return m, true
			}
		}
		if len(p) == 1 {
			return &mapv{keys: append(append([]string{}, c.keys...), p[0]), vals: append(append([]val{}, c.vals...), nv)}, true
		}
	}
	return v, false
}

func dissoc(v val, p []string) (val, bool) {
	if len(p) == 1 {
		m, ok := v.(*mapv)
		if !ok {
			return v, false
		}
		out := &mapv{}
		for i, k := range m.keys {
			if k != p[0] {
				out.keys = append(out.keys, k)
				out.vals = append(out.vals, m.vals[i])
			}
		}
		return out, true
	}
	switch c := v.(type) {
	case []val:
		var i int
		fmt.Sscanf(p[0], "%d", &i)
		if i < 0 {
			i += len(c)
		}
		if i < 0 || i >= len(c) {
			return v, false
		}
		sub, ok := dissoc(c[i], p[1:])
		if !ok {
			return v, false
		}
		l := append([]val{}, c...)
		l[i] = sub
		return l, true
	case *mapv:
		for i, k := range c.keys {
			if k == p[0] {
				sub, ok := dissoc(c.vals[i], p[1:])
				if !ok {
					return v, false
				}
				m := &mapv{keys: append([]string{}, c.keys...), vals: append([]val{}, c.vals...)}
				m.vals[i] = sub
				return m, true
			}
		}
	}
	return v, false
}

func pathExprs(p []string) []a.Expr {
	es := make([]a.Expr, len(p))
	for i, x := range p {
		es[i] = s(x)
	}
	return es
}

func pathCoq(p []string) string {
	items := make([]string, len(p))
	for i, x := range p {
		items[i] = App("VStr", Str(x))
	}
	return List(items)
}

const (
	vx      = 0
	aliasV  = 10
	closV   = 40
	outV    = 70
	mkFn    = a.FnBase
	mkParam = a.OptBase
)

func v(i int) a.Expr { return a.EVar{X: i} }

func put(es ...a.Expr) a.Pipeline { return a.Pipeline{a.CBuiltin{B: "put", Args: es}} }

func history(g *gen, nsteps int, plantMulti bool) (a.Chunk, []string, string) {
	cur := g.value(3)
	if _, ok := cur.(string); ok {
		cur = []val{cur, g.value(2)}
	}
	prog := a.Chunk{
		{a.CVar{Lvs: []a.LValue{{X: vx}}, Rhs: []a.Expr{valExpr(cur)}, HasRhs: true}},
		// fn f0 {|o0| put { put $o0 } }: a closure that captured the value
		{a.CFn{F: mkFn, Sig: a.Sig{Args: []int{mkParam}, Rest: -1}, Body: a.Chunk{put(a.ELam{Sig: a.Sig{Rest: -1}, Body: a.Chunk{put(v(mkParam))}})}}},
		put(a.EList{Es: []a.Expr{s("I"), v(vx)}}),
	}
	var steps []string
	class := "history"
	for i := 0; i < nsteps; i++ {
		// aliases taken before the step
		prog = append(prog,
			a.Pipeline{a.CVar{Lvs: []a.LValue{{X: aliasV + i}}, Rhs: []a.Expr{v(vx)}, HasRhs: true}},
			a.Pipeline{a.CVar{Lvs: []a.LValue{{X: closV + i}}, Rhs: []a.Expr{a.ECapture{C: a.Chunk{{a.CCmd{F: mkFn, Args: []a.Expr{v(vx)}}}}}}, HasRhs: true}},
			a.Pipeline{a.CVar{Lvs: []a.LValue{{X: outV + i}}, Rhs: []a.Expr{a.EList{Es: []a.Expr{a.ECapture{C: a.Chunk{put(v(vx))}}}}}, HasRhs: true}})
		is := fmt.Sprint(i)
		inside := put(a.EList{Es: []a.Expr{s("In"), s(is), v(vx)}})
		var st a.Cmd
		nv := g.value(2)
		k := g.n(10)
		if plantMulti && i == nsteps/2 {
			k = 99
		}
		switch {
		case k == 99: // set x[p1] x[p2] = v1 v2
			p1, p2 := g.path(cur, false), g.path(cur, false)
			nv2 := g.value(1)
			st = a.CSet{Lvs: []a.LValue{{X: vx, Ix: pathExprs(p1)}, {X: vx, Ix: pathExprs(p2)}}, Rhs: []a.Expr{valExpr(nv), valExpr(nv2)}}
			steps = append(steps, App("SMulti", pathCoq(p1), valCoq(nv), pathCoq(p2), valCoq(nv2)))
			if mid, ok := assoc(cur, p1, nv); ok {
				cur = mid
				if fin, ok := assoc(cur, p2, nv2); ok {
					cur = fin
				}
			}
			class = "multi-elem-lvalue-same-var"
		case k < 5:
			p := g.path(cur, false)
			st = a.CSet{Lvs: []a.LValue{{X: vx, Ix: pathExprs(p)}}, Rhs: []a.Expr{valExpr(nv)}}
			steps = append(steps, App("SSet", pathCoq(p), valCoq(nv)))
			if x, ok := assoc(cur, p, nv); ok {
				cur = x
			}
		case k < 7:
			p := g.path(cur, true)
			st = a.CDel{Ts: []a.LValue{{X: vx, Ix: pathExprs(p)}}}
			steps = append(steps, App("SDel", pathCoq(p)))
			if x, ok := dissoc(cur, p); ok {
				cur = x
			}
		case k < 8:
			p := g.path(cur, false)
			st = a.CCall{Head: a.ELam{Sig: a.Sig{Rest: -1}, Body: a.Chunk{
				{a.CTmp{Lvs: []a.LValue{{X: vx, Ix: pathExprs(p)}}, Rhs: []a.Expr{valExpr(nv)}}}, inside}}}
			steps = append(steps, App("STmp", pathCoq(p), valCoq(nv)))
		default:
			p := g.path(cur, false)
			st = a.CWith{Assigns: []a.Assign{{Lvs: []a.LValue{{X: vx, Ix: pathExprs(p)}}, Rhs: []a.Expr{valExpr(nv)}}}, Body: a.Chunk{inside}}
			steps = append(steps, App("SWith", pathCoq(p), valCoq(nv)))
		}
		prog = append(prog, a.Pipeline{a.CTry{Body: a.Chunk{{st}}, HasCatch: true, CatchVar: -1, Catch: a.Chunk{}}})
		// observe the variable and every alias taken so far
		row := []a.Expr{s("P"), s(is), v(vx)}
		for j := 0; j <= i; j++ {
			row = append(row, a.EList{Es: []a.Expr{
				v(aliasV + j),
				a.ECapture{C: a.Chunk{{a.CCall{Head: v(closV + j)}}}},
				a.EIndex{E: v(outV + j), Ix: []a.Expr{s("0")}}}})
		}
		prog = append(prog, put(a.EList{Es: row}))
	}
	return prog, steps, class
}

func emit(c *reg.Ctx, prog a.Chunk, steps []string, class string) {
	src := a.ProgSrc(prog)
	o := a.Run(src)
	switch {
	case o.Hang:
		c.Emit(reg.Case{Desc: desc{Src: src}, Key: src, Class: class, Direct: "program did not finish within 20 s"})
		return
	case o.Panic != "":
		c.Emit(reg.Case{Desc: desc{Src: src, Exc: o.Panic}, Key: src, Class: class, Direct: "the evaluator panicked: " + o.Panic})
		return
	case o.Static:
		c.Count("static-error")
		return
	}
	c.Count(class)
	c.Emit(reg.Case{
		Coq:        App("mkCase", a.ChunkCoq(prog), List(steps), a.ValsCoq(o.Out), a.ExcCoq(o.Err)),
		Desc:       desc{src, a.ValsText(o.Out), a.ExcText(o.Err)},
		Key:        src,
		Nontrivial: len(steps) >= 3,
		Class:      class,
	})
}

func run(c *reg.Ctx) {
	g := &gen{r: c.Rand}
	for i := 0; i < c.N; i++ {
		n := 2 + g.n(7)
		if c.Tier == "thorough" && i%10 == 0 {
			n = 30
		}
		prog, steps, class := history(g, n, i%15 == 7)
		emit(c, prog, steps, class)
	}
}
