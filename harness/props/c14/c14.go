// Package c14: histories of element assignments / deletions on one variable holding
// nested lists and maps, with aliases (other variable, closure capture, captured
// output) taken before each step and all compared after every step.
package c14

import (
	"fmt"
	"math/rand"

	"src.elv.sh/pkg/eval/vals"
	. "verifharness/coqfmt"
	a "verifharness/props/c15"
	"verifharness/reg"
)

func init() {
	reg.Register(&reg.Spec{ID: "C14",
		Imports: "From verif Require Import lib.Base model.C15_Syntax model.C14.",
		Judge:   "C14.judge", Shard: 12, Run: run})
}

type desc struct {
	Src string `json:"src"`
	Out string `json:"out"`
	Exc string `json:"exc,omitempty"`
}

// Go-side picture of a value, only used to choose (mostly) valid paths:
// string | numv | bool | nilv | []val | *mapv
type val interface{}
type numv int
type nilv struct{}
type mapv struct {
	keys []val
	vals []val
}

func eqVal(a, b val) bool {
	switch a := a.(type) {
	case string:
		b, ok := b.(string)
		return ok && a == b
	case numv:
		b, ok := b.(numv)
		return ok && a == b
	case bool:
		b, ok := b.(bool)
		return ok && a == b
	case nilv:
		_, ok := b.(nilv)
		return ok
	case []val:
		b, ok := b.([]val)
		if !ok || len(a) != len(b) {
			return false
		}
		for i := range a {
			if !eqVal(a[i], b[i]) {
				return false
			}
		}
		return true
	case *mapv:
		b, ok := b.(*mapv)
		if !ok || len(a.keys) != len(b.keys) {
			return false
		}
		for i, k := range a.keys {
			j := b.find(k)
			if j < 0 || !eqVal(a.vals[i], b.vals[j]) {
				return false
			}
		}
		return true
	}
	return false
}

func (m *mapv) find(k val) int {
	for i, k2 := range m.keys {
		if eqVal(k, k2) {
			return i
		}
	}
	return -1
}

// the Elvish value, to ask vals.Hash
func toElv(v val) any {
	switch v := v.(type) {
	case string:
		return v
	case numv:
		return int(v)
	case bool:
		return v
	case nilv:
		return nil
	case []val:
		items := make([]any, len(v))
		for i, x := range v {
			items[i] = toElv(x)
		}
		return vals.MakeList(items...)
	case *mapv:
		m := vals.EmptyMap
		for i, k := range v.keys {
			m = m.Assoc(toElv(k), toElv(v.vals[i]))
		}
		return m
	}
	panic("toElv")
}

// groups of 2-4 keys whose 32-bit hashes collide, found by computing vals.Hash
var collisionGroups [][]val

func init() {
	var cands []val
	cands = append(cands, true, false, nilv{}, "", []val{}, &mapv{})
	for i := 0; i <= 40; i++ {
		cands = append(cands, numv(i))
	}
	for _, w := range []string{"a", "b", "c", "k", "m", "x1"} {
		cands = append(cands, w, []val{w}, []val{[]val{w}})
	}
	cands = append(cands, []val{[]val{}}, []val{""}, []val{numv(0)}, []val{numv(1)}, []val{true}, []val{false},
		[]val{&mapv{}}, &mapv{keys: []val{""}, vals: []val{""}}, []val{nilv{}}, []val{"", ""}, []val{[]val{}, []val{}})
	byHash := map[uint32][]val{}
	var order []uint32
	for _, c := range cands {
		h := vals.Hash(toElv(c))
		if _, ok := byHash[h]; !ok {
			order = append(order, h)
		}
		byHash[h] = append(byHash[h], c)
	}
	for _, h := range order {
		if g := byHash[h]; len(g) >= 2 {
			if len(g) > 4 {
				g = g[:4]
			}
			collisionGroups = append(collisionGroups, g)
		}
	}
}

type gen struct {
	r *rand.Rand
	// shape of the history being generated
	collide bool // plant hash-colliding key groups
	bigMap  int  // minimum number of keys of the top-level map (0: small)
	bigList int  // length of the top-level list (0: small)
}

func (g *gen) n(k int) int      { return g.r.Intn(k) }
func (g *gen) p(x float64) bool { return g.r.Float64() < x }

var words = []string{"a", "b", "c", "k", "m", "x1"}

func (g *gen) word() string { return words[g.n(len(words))] }

func (g *gen) mapValue(d int, minKeys int) *mapv {
	m := &mapv{}
	add := func(k val, v val) {
		if m.find(k) < 0 {
			m.keys = append(m.keys, k)
			m.vals = append(m.vals, v)
		}
	}
	if g.collide && len(collisionGroups) > 0 && (d >= 2 || g.p(0.5)) {
		// one or two groups of colliding keys next to ordinary ones
		for i, n := 0, 1+g.n(2); i < n; i++ {
			grp := collisionGroups[g.n(len(collisionGroups))]
			for _, k := range grp {
				add(k, g.value(d-1))
			}
		}
	}
	for i, n := 0, 1+g.n(3); i < n; i++ {
		add(g.word(), g.value(d-1))
	}
	for i := 0; len(m.keys) < minKeys; i++ {
		add(fmt.Sprintf("k%d", i), g.value(0))
	}
	// shuffle the insertion order
	g.r.Shuffle(len(m.keys), func(i, j int) {
		m.keys[i], m.keys[j] = m.keys[j], m.keys[i]
		m.vals[i], m.vals[j] = m.vals[j], m.vals[i]
	})
	return m
}

func (g *gen) value(d int) val {
	if d <= 0 || g.p(0.35) {
		return g.word()
	}
	if g.p(0.5) {
		n := 1 + g.n(3)
		l := make([]val, n)
		for i := range l {
			l[i] = g.value(d - 1)
		}
		return l
	}
	return g.mapValue(d, 0)
}

func s(x string) a.Expr { return a.EStr{S: x} }

func valExpr(v val) a.Expr {
	switch v := v.(type) {
	case string:
		return s(v)
	case numv:
		// a typed number: (+ n)
		return a.ECapture{C: a.Chunk{{a.CBuiltin{B: "+", Args: []a.Expr{s(fmt.Sprint(int(v)))}}}}}
	case bool:
		if v {
			return a.EVar{X: a.ConstTrue}
		}
		return a.EVar{X: a.ConstFalse}
	case nilv:
		return a.EVar{X: a.ConstNil}
	case []val:
		es := make([]a.Expr, len(v))
		for i, x := range v {
			es[i] = valExpr(x)
		}
		return a.EList{Es: es}
	case *mapv:
		m := a.EMap{}
		for i, k := range v.keys {
			m.Ks = append(m.Ks, valExpr(k))
			m.Vs = append(m.Vs, valExpr(v.vals[i]))
		}
		return m
	}
	panic("valExpr")
}

func valCoq(v val) string {
	switch v := v.(type) {
	case string:
		return App("VStr", Str(v))
	case numv:
		return App("VNum", Z(int64(v)))
	case bool:
		return App("VBool", Bool(v))
	case nilv:
		return "VNil"
	case []val:
		items := make([]string, len(v))
		for i, x := range v {
			items[i] = valCoq(x)
		}
		return App("VList", List(items))
	case *mapv:
		items := make([]string, len(v.keys))
		for i, k := range v.keys {
			items[i] = Pair(valCoq(k), valCoq(v.vals[i]))
		}
		return App("VMap", List(items))
	}
	panic("valCoq")
}

// is k one of a group of colliding keys present in m?
func (g *gen) collidingKeys(m *mapv) []int {
	var out []int
	for _, grp := range collisionGroups {
		var here []int
		for _, k := range grp {
			if i := m.find(k); i >= 0 {
				here = append(here, i)
			}
		}
		if len(here) >= 2 {
			out = append(out, here...)
		}
	}
	return out
}

// a path into v; del = the last container must be a map; may be made invalid
func (g *gen) path(v val, del bool) []val {
	var p []val
	cur := v
	for depth := 0; depth < 4; depth++ {
		switch c := cur.(type) {
		case []val:
			if len(c) == 0 {
				return append(p, "0")
			}
			i := g.n(len(c))
			if len(c) > 8 {
				// positions around the chunk boundaries of the persistent vector
				b := []int{0, 30, 31, 32, 33, 1022, 1023, 1024, 1025, 1055, len(c) - 2, len(c) - 1}
				if j := b[g.n(len(b))]; j >= 0 && j < len(c) && g.p(0.8) {
					i = j
				}
			}
			ix := fmt.Sprint(i)
			if g.p(0.25) {
				ix = fmt.Sprint(i - len(c))
			}
			if g.p(0.08) {
				// just past the end (exactly len) or further
				ix = fmt.Sprint(len(c) + g.n(2))
			}
			p = append(p, ix)
			cur = c[i]
		case *mapv:
			if len(c.keys) == 0 || g.p(0.12) {
				// possibly a new key, sometimes one that collides with keys present
				if g.collide && g.p(0.5) && len(collisionGroups) > 0 {
					grp := collisionGroups[g.n(len(collisionGroups))]
					return append(p, grp[g.n(len(grp))])
				}
				return append(p, g.word())
			}
			i := g.n(len(c.keys))
			if ck := g.collidingKeys(c); len(ck) > 0 && g.p(0.7) {
				i = ck[g.n(len(ck))] // first / middle / last of a colliding group
			}
			p = append(p, c.keys[i])
			cur = c.vals[i]
		default:
			if len(p) == 0 || g.p(0.1) {
				p = append(p, "0") // element of a non-container: not assignable
			}
			return p
		}
		if g.p(0.45) && !del {
			return p
		}
		if del {
			if _, ok := cur.(*mapv); !ok || g.p(0.5) {
				return p
			}
		}
	}
	return p
}

func listIndex(ix val, n int) (int, bool) {
	sx, ok := ix.(string)
	if !ok {
		return 0, false
	}
	var i int
	if _, err := fmt.Sscanf(sx, "%d", &i); err != nil {
		return 0, false
	}
	if i < 0 {
		i += n
	}
	return i, i >= 0 && i < n
}

// sequential (reference) semantics on the Go-side picture; ok=false if it raises
func assoc(v val, p []val, nv val) (val, bool) {
	if len(p) == 0 {
		return nv, true
	}
	switch c := v.(type) {
	case []val:
		i, ok := listIndex(p[0], len(c))
		if !ok {
			return v, false
		}
		sub, ok := assoc(c[i], p[1:], nv)
		if !ok {
			return v, false
		}
		l := append([]val{}, c...)
		l[i] = sub
		return l, true
	case *mapv:
		if i := c.find(p[0]); i >= 0 {
			sub, ok := assoc(c.vals[i], p[1:], nv)
			if !ok {
				return v, false
			}
			m := &mapv{keys: append([]val{}, c.keys...), vals: append([]val{}, c.vals...)}
			m.vals[i] = sub
			return m, true
		}
		if len(p) == 1 {
			return &mapv{keys: append(append([]val{}, c.keys...), p[0]), vals: append(append([]val{}, c.vals...), nv)}, true
		}
	}
	return v, false
}

func dissoc(v val, p []val) (val, bool) {
	if len(p) == 1 {
		m, ok := v.(*mapv)
		if !ok {
			return v, false
		}
		out := &mapv{}
		for i, k := range m.keys {
			if !eqVal(k, p[0]) {
				out.keys = append(out.keys, k)
				out.vals = append(out.vals, m.vals[i])
			}
		}
		return out, true
	}
	switch c := v.(type) {
	case []val:
		i, ok := listIndex(p[0], len(c))
		if !ok {
			return v, false
		}
		sub, ok := dissoc(c[i], p[1:])
		if !ok {
			return v, false
		}
		l := append([]val{}, c...)
		l[i] = sub
		return l, true
	case *mapv:
		if i := c.find(p[0]); i >= 0 {
			sub, ok := dissoc(c.vals[i], p[1:])
			if !ok {
				return v, false
			}
			m := &mapv{keys: append([]val{}, c.keys...), vals: append([]val{}, c.vals...)}
			m.vals[i] = sub
			return m, true
		}
	}
	return v, false
}

func pathExprs(p []val) []a.Expr {
	es := make([]a.Expr, len(p))
	for i, x := range p {
		es[i] = valExpr(x)
	}
	return es
}

func pathCoq(p []val) string {
	items := make([]string, len(p))
	for i, x := range p {
		items[i] = valCoq(x)
	}
	return List(items)
}

const (
	vx      = 0
	rbMap   = 1 // locals of the re-building function
	rbKey   = 2
	aliasV  = 10
	closV   = 40
	outV    = 70
	boxV    = 100
	mkFn    = a.FnBase
	rbFn    = a.FnBase + 1
	mkParam = a.OptBase
	rbParam = a.OptBase + 1
	rbElem  = a.OptBase + 2
)

func v(i int) a.Expr { return a.EVar{X: i} }

func put(es ...a.Expr) a.Pipeline { return a.Pipeline{a.CBuiltin{B: "put", Args: es}} }

func capture(c a.Cmd) a.Expr { return a.ECapture{C: a.Chunk{{c}}} }

// history builds the program and the step descriptions.
func history(g *gen, nsteps int, plantMulti bool) (a.Chunk, []string, string) {
	var cur val
	switch {
	case g.bigList > 0:
		l := make([]val, g.bigList)
		for i := range l {
			l[i] = "a"
		}
		for i, n := 0, 2+g.n(3); i < n; i++ {
			l[g.n(len(l))] = g.value(1)
		}
		cur = l
	case g.bigMap > 0 || g.collide:
		cur = g.mapValue(3, g.bigMap)
	default:
		cur = g.value(3)
		if _, ok := cur.(string); ok {
			cur = []val{cur, g.value(2)}
		}
	}
	_, isMap := cur.(*mapv)
	// re-building an alias from its own iteration
	var rebuild a.Chunk
	if isMap {
		// fn f1 {|o1| var v1 = [&]; for v2 [(keys $o1)] { set v1[$v2] = $o1[$v2] }; put $v1 }
		rebuild = a.Chunk{
			{a.CVar{Lvs: []a.LValue{{X: rbMap}}, Rhs: []a.Expr{a.EMap{}}, HasRhs: true}},
			{a.CFor{Decl: true, X: rbKey, E: a.EList{Es: []a.Expr{capture(a.CBuiltin{B: "keys", Args: []a.Expr{v(rbParam)}})}},
				Body: a.Chunk{{a.CSet{Lvs: []a.LValue{{X: rbMap, Ix: []a.Expr{v(rbKey)}}},
					Rhs: []a.Expr{a.EIndex{E: v(rbParam), Ix: []a.Expr{v(rbKey)}}}}}}}},
			put(v(rbMap))}
	} else if g.p(0.5) {
		// fn f1 {|o1| put [(all $o1)] }
		rebuild = a.Chunk{put(a.EList{Es: []a.Expr{capture(a.CBuiltin{B: "all", Args: []a.Expr{v(rbParam)}})}})}
	} else {
		// fn f1 {|o1| put [(each {|o2| put $o2 } $o1)] }
		rebuild = a.Chunk{put(a.EList{Es: []a.Expr{capture(a.CBuiltin{B: "each", Args: []a.Expr{
			a.ELam{Sig: a.Sig{Args: []int{rbElem}, Rest: -1}, Body: a.Chunk{put(v(rbElem))}}, v(rbParam)}})}})}
	}
	prog := a.Chunk{
		{a.CVar{Lvs: []a.LValue{{X: vx}}, Rhs: []a.Expr{valExpr(cur)}, HasRhs: true}},
		// fn f0 {|o0| put { put $o0 } }: a closure that captured the value
		{a.CFn{F: mkFn, Sig: a.Sig{Args: []int{mkParam}, Rest: -1}, Body: a.Chunk{put(a.ELam{Sig: a.Sig{Rest: -1}, Body: a.Chunk{put(v(mkParam))}})}}},
		{a.CFn{F: rbFn, Sig: a.Sig{Args: []int{rbParam}, Rest: -1}, Body: rebuild}},
		put(a.EList{Es: []a.Expr{s("I"), v(vx)}}),
	}
	rb := func(e a.Expr) a.Expr { return capture(a.CCmd{F: rbFn, Args: []a.Expr{e}}) }
	var steps []string
	class := "history"
	switch {
	case g.bigList > 0:
		class = "big-list"
	case g.bigMap > 0:
		class = "big-map"
	case g.collide:
		class = "colliding-keys"
	}
	for i := 0; i < nsteps; i++ {
		// aliases taken before the step: other variable, closure capture, captured
		// output, outer container
		prog = append(prog,
			a.Pipeline{a.CVar{Lvs: []a.LValue{{X: aliasV + i}}, Rhs: []a.Expr{v(vx)}, HasRhs: true}},
			a.Pipeline{a.CVar{Lvs: []a.LValue{{X: closV + i}}, Rhs: []a.Expr{capture(a.CCmd{F: mkFn, Args: []a.Expr{v(vx)}})}, HasRhs: true}},
			a.Pipeline{a.CVar{Lvs: []a.LValue{{X: outV + i}}, Rhs: []a.Expr{a.EList{Es: []a.Expr{a.ECapture{C: a.Chunk{put(v(vx))}}}}}, HasRhs: true}},
			a.Pipeline{a.CVar{Lvs: []a.LValue{{X: boxV + i}}, Rhs: []a.Expr{a.EMap{Ks: []a.Expr{s("k")}, Vs: []a.Expr{v(vx)}}}, HasRhs: true}})
		is := fmt.Sprint(i)
		inside := put(a.EList{Es: []a.Expr{s("In"), s(is), v(vx)}})
		var st a.Cmd
		nv := g.value(2)
		k := g.n(10)
		if plantMulti && i == nsteps/2 {
			k = 99
		}
		switch {
		case k == 99: // set x[p1] x[p2] = v1 v2
			p1, p2 := g.path(cur, false), g.path(cur, false)
			nv2 := g.value(1)
			st = a.CSet{Lvs: []a.LValue{{X: vx, Ix: pathExprs(p1)}, {X: vx, Ix: pathExprs(p2)}}, Rhs: []a.Expr{valExpr(nv), valExpr(nv2)}}
			steps = append(steps, App("SMulti", pathCoq(p1), valCoq(nv), pathCoq(p2), valCoq(nv2)))
			// what the implementation does: the second assoc starts from the old container
			if fin, ok := assoc(cur, p2, nv2); ok {
				if _, ok1 := assoc(cur, p1, nv); ok1 {
					cur = fin
				}
			} else if mid, ok := assoc(cur, p1, nv); ok {
				cur = mid
			}
			class = "multi-elem-lvalue-same-var"
		case k < 4:
			p := g.path(cur, false)
			st = a.CSet{Lvs: []a.LValue{{X: vx, Ix: pathExprs(p)}}, Rhs: []a.Expr{valExpr(nv)}}
			steps = append(steps, App("SSet", pathCoq(p), valCoq(nv)))
			if x, ok := assoc(cur, p, nv); ok {
				cur = x
			}
		case k < 7:
			p := g.path(cur, true)
			st = a.CDel{Ts: []a.LValue{{X: vx, Ix: pathExprs(p)}}}
			steps = append(steps, App("SDel", pathCoq(p)))
			if x, ok := dissoc(cur, p); ok {
				cur = x
			}
		case k < 8:
			p := g.path(cur, false)
			st = a.CCall{Head: a.ELam{Sig: a.Sig{Rest: -1}, Body: a.Chunk{
				{a.CTmp{Lvs: []a.LValue{{X: vx, Ix: pathExprs(p)}}, Rhs: []a.Expr{valExpr(nv)}}}, inside}}}
			steps = append(steps, App("STmp", pathCoq(p), valCoq(nv)))
		default:
			p := g.path(cur, false)
			st = a.CWith{Assigns: []a.Assign{{Lvs: []a.LValue{{X: vx, Ix: pathExprs(p)}}, Rhs: []a.Expr{valExpr(nv)}}}, Body: a.Chunk{inside}}
			steps = append(steps, App("SWith", pathCoq(p), valCoq(nv)))
		}
		prog = append(prog, a.Pipeline{a.CTry{Body: a.Chunk{{st}}, HasCatch: true, CatchVar: -1, Catch: a.Chunk{}}})
		// observe the variable and every alias taken so far: the values, then
		// count and iteration
		row := []a.Expr{s("P"), s(is), v(vx)}
		crow := []a.Expr{s("C"), s(is)}
		for j := 0; j <= i; j++ {
			callClos := a.ECapture{C: a.Chunk{{a.CCall{Head: v(closV + j)}}}}
			boxed := a.EIndex{E: v(boxV + j), Ix: []a.Expr{s("k")}}
			row = append(row, a.EList{Es: []a.Expr{
				v(aliasV + j), callClos,
				a.EIndex{E: v(outV + j), Ix: []a.Expr{s("0")}}, boxed}})
			crow = append(crow, a.EList{Es: []a.Expr{
				capture(a.CBuiltin{B: "count", Args: []a.Expr{v(aliasV + j)}}),
				rb(v(aliasV + j)), rb(callClos), rb(boxed)}})
		}
		prog = append(prog, put(a.EList{Es: row}), put(a.EList{Es: crow}))
	}
	return prog, steps, class
}

func emit(c *reg.Ctx, prog a.Chunk, steps []string, class string) {
	src := a.ProgSrc(prog)
	o := a.Run(src)
	switch {
	case o.Hang:
		c.Emit(reg.Case{Desc: desc{Src: src}, Key: src, Class: class, Direct: "program did not finish within 20 s"})
		return
	case o.Panic != "":
		c.Emit(reg.Case{Desc: desc{Src: src, Exc: o.Panic}, Key: src, Class: class, Direct: "the evaluator panicked: " + o.Panic})
		return
	case o.Static:
		c.Count("static-error")
		return
	}
	c.Count(class)
	c.Emit(reg.Case{
		Coq:        App("mkCase", a.ChunkCoq(prog), List(steps), a.ValsCoq(o.Out), a.ExcCoq(o.Err)),
		Desc:       desc{src, a.ValsText(o.Out), a.ExcText(o.Err)},
		Key:        src,
		Nontrivial: len(steps) >= 3,
		Class:      class,
	})
}

func run(c *reg.Ctx) {
	// the colliding groups found by vals.Hash are part of the evidence
	c.Dist["collision-groups-found"] = len(collisionGroups)
	for i := 0; i < c.N; i++ {
		g := &gen{r: c.Rand}
		n := 2 + g.n(7)
		switch i % 10 {
		case 1, 4, 7:
			g.collide = true
		case 2:
			g.collide = true
			g.bigMap = []int{9, 17, 20}[g.n(3)]
			n = 2 + g.n(3)
		case 5:
			g.bigList = []int{31, 32, 33, 34, 40}[g.n(5)]
			n = 2 + g.n(3)
		case 8:
			if i%50 == 8 || c.Tier == "thorough" {
				g.bigList = []int{1024, 1025, 1056, 1057}[g.n(4)]
				n = 2
			}
		}
		if c.Tier == "thorough" && i%10 == 0 {
			n = 25
		}
		prog, steps, class := history(g, n, i%15 == 3)
		emit(c, prog, steps, class)
	}
}
