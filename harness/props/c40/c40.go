// Package c40: finished evaluations leave no file descriptors or goroutines
// behind (pkg/eval/compile_effect.go: pipelineOp.exec, formOwnedPort.close;
// port.go: PipePort; frame.go: IterateInputs; builtin_fn_flow.go: peach,
// run-parallel).
//
// Generated programs of the statement language of coq/model/C40.v (forms with
// file redirections, pipelines, output captures, each over the inputs, peach,
// run-parallel, try, failing commands at every position, an early-exiting
// pipeline reader, cancellation of the context through verif:cancel) are each
// run many times in one child process; the number of entries of /proc/self/fd
// and runtime.NumGoroutine() are taken before and after (with a settle loop and
// generous deadlines).  Growth is a violation with the program as replay.  The
// outcome (ok / exception) and the model's ledger balance are judged in Coq.
package c40

import (
	"fmt"
	"os"
	"strings"

	. "verifharness/coqfmt"
	"verifharness/reg"
)

func init() {
	if os.Getenv("VERIF_C40_CHILD") == "1" {
		childMain()
		os.Exit(0)
	}
	reg.Register(&reg.Spec{ID: "C40",
		Imports: "From verif Require Import lib.Base model.C42_Ports model.C40.",
		Judge:   "C40.judge", Shard: 40, Run: run})
}

// ---------------------------------------------------------------- AST (mirrors model/C40.v)

type redir struct {
	Text string // with %D for the scratch directory
	Coq  string
}

type stage struct {
	Rs   []redir
	Body []stmt
}

type stmt struct {
	Kind   string // nop fail cancel echo range form pipe capture eachin peach runpar try
	S      string
	N      int
	Rs     []redir
	Body   []stmt
	Stages []stage
	Fs     [][]stmt
	Fn     bool // form only: rendered as a function definition and a call with the redirections
}

func fileRedir(dst int, mode int, p int) redir {
	sign := []string{"<", ">", ">>", "<>"}[mode]
	mc := []string{"MRead", "MWrite", "MAppend", "MRdWr"}[mode]
	d, dc := "", None()
	if dst >= 0 {
		d = fmt.Sprint(dst)
		dc = Some(App("FdNum", Z(int64(dst))))
	}
	return redir{Text: fmt.Sprintf("%s%s'%%D/f%d'", d, sign, p), Coq: App("mkRedir", dc, mc, App("SFile", Nat(p)))}
}

func dupRedir(dst int, src int) redir {
	return redir{Text: fmt.Sprintf("%d>&%d", dst, src),
		Coq: App("mkRedir", Some(App("FdNum", Z(int64(dst)))), "MWrite", App("SFd", App("FdNum", Z(int64(src)))))}
}

func closeRedir(dst int) redir {
	return redir{Text: fmt.Sprintf("%d>&-", dst),
		Coq: App("mkRedir", Some(App("FdNum", Z(int64(dst)))), "MWrite", "SClose")}
}

func bodyText(b []stmt) string {
	var parts []string
	for _, s := range b {
		parts = append(parts, s.text())
	}
	return strings.Join(parts, "; ")
}

func rsText(rs []redir) string {
	var sb strings.Builder
	for _, r := range rs {
		sb.WriteString(" " + r.Text)
	}
	return sb.String()
}

func (s stmt) text() string {
	switch s.Kind {
	case "nop":
		return "nop"
	case "fail":
		return "fail x"
	case "cancel":
		return "verif:cancel"
	case "echo":
		return "echo " + s.S
	case "range":
		return fmt.Sprintf("range %d", s.N)
	case "form":
		if s.Fn {
			return "fn vf { " + bodyText(s.Body) + " }; vf" + rsText(s.Rs)
		}
		return "{ " + bodyText(s.Body) + " }" + rsText(s.Rs)
	case "pipe":
		var parts []string
		for _, st := range s.Stages {
			parts = append(parts, "{ "+bodyText(st.Body)+" }"+rsText(st.Rs))
		}
		return strings.Join(parts, " | ")
	case "capture":
		return "nop (" + bodyText(s.Body) + ")"
	case "eachin":
		return "each {|_| " + bodyText(s.Body) + " }"
	case "peach":
		return "peach {|_| " + bodyText(s.Body) + " } [" + strings.TrimSpace(strings.Repeat("x ", s.N)) + "]"
	case "runpar":
		var parts []string
		for _, f := range s.Fs {
			parts = append(parts, "{ "+bodyText(f)+" }")
		}
		return "run-parallel " + strings.Join(parts, " ")
	case "try":
		return "try { " + bodyText(s.Body) + " } catch { }"
	}
	return "nop"
}

func bodyCoq(b []stmt) string {
	var items []string
	for _, s := range b {
		items = append(items, s.coq())
	}
	return List(items)
}

func rsCoq(rs []redir) string {
	var items []string
	for _, r := range rs {
		items = append(items, r.Coq)
	}
	return List(items)
}

func (s stmt) coq() string {
	switch s.Kind {
	case "nop":
		return "SNop"
	case "fail":
		return "SFail"
	case "cancel":
		return "SCancel"
	case "echo":
		return App("SEcho", Str(s.S))
	case "range":
		return App("SRange", Nat(s.N))
	case "form":
		return App("SForm", rsCoq(s.Rs), bodyCoq(s.Body))
	case "pipe":
		var items []string
		for _, st := range s.Stages {
			items = append(items, Pair(rsCoq(st.Rs), bodyCoq(st.Body)))
		}
		return App("SPipe", List(items))
	case "capture":
		return App("SCapture", bodyCoq(s.Body))
	case "eachin":
		return App("SEachIn", bodyCoq(s.Body))
	case "peach":
		return App("SPeach", Nat(s.N), bodyCoq(s.Body))
	case "runpar":
		var items []string
		for _, f := range s.Fs {
			items = append(items, bodyCoq(f))
		}
		return App("SRunPar", List(items))
	case "try":
		return App("STry", bodyCoq(s.Body))
	}
	return "SNop"
}

// ---------------------------------------------------------------- generator

// Generation context.  The restrictions keep the outcome (ok / exception) of a
// program independent of the schedule:
//   - out == "pipe": port 1 is a pipeline pipe whose reader may leave early; a
//     writer (echo, range) may then only be the last statement of the stage
//   - in0: "dummy" (no inputs), "pipetop" (directly in a stage that reads a
//     pipe: each is allowed), "nested" (port 0 may be shared: no each)
type gctx struct {
	c     *reg.Ctx
	out   string // sink | pipe | file | closed
	in0   string
	depth int
}

func (g gctx) genRedirs(stageIn bool) ([]redir, string) {
	r := g.c.Rand
	var rs []redir
	out := g.out
	n := r.Intn(3)
	if r.Intn(4) == 0 {
		n = 3
	}
	for i := 0; i < n; i++ {
		switch x := r.Intn(12); {
		case x < 3:
			rs = append(rs, fileRedir(-1, 1+r.Intn(2), 1+r.Intn(2)))
			out = "file"
		case x < 4:
			rs = append(rs, fileRedir(-1, 3, 1+r.Intn(2)))
			out = "file"
		case x < 6:
			rs = append(rs, fileRedir(2+r.Intn(5), 1+r.Intn(2), 1+r.Intn(2)))
		case x < 7:
			if !stageIn {
				rs = append(rs, fileRedir(-1, 0, 0))
			}
		case x < 8:
			rs = append(rs, dupRedir(2, 1))
		case x < 9:
			rs = append(rs, dupRedir(3+r.Intn(3), 2))
		case x < 10:
			if r.Intn(2) == 0 {
				rs = append(rs, closeRedir(1))
				out = "closed"
			} else {
				rs = append(rs, closeRedir(2))
			}
		case x < 11:
			// an invalid source fd: the redirection list fails half-way
			rs = append(rs, dupRedir(1+r.Intn(4), 9+r.Intn(3)))
			return rs, out
		default:
			rs = append(rs, fileRedir(-1, 0, 3)) // < on a file that may not exist
			if stageIn {
				rs = rs[:len(rs)-1]
			}
		}
	}
	return rs, out
}

func (g gctx) genBody(maxLen int) []stmt {
	n := g.c.Rand.Intn(maxLen + 1)
	var b []stmt
	for i := 0; i < n; i++ {
		b = append(b, g.genStmt())
	}
	return b
}

func (g gctx) writer() stmt {
	if g.c.Rand.Intn(3) == 0 {
		return stmt{Kind: "range", N: []int{0, 1, 3, 40, 100}[g.c.Rand.Intn(5)]}
	}
	return stmt{Kind: "echo", S: fmt.Sprintf("w%d", g.c.Rand.Intn(100))}
}

func (g gctx) genStmt() stmt {
	r := g.c.Rand
	sub := g
	sub.depth++
	if sub.in0 == "pipetop" {
		sub.in0 = "nested"
	}
	leaf := g.depth >= 3
	for {
		x := r.Intn(24)
		switch {
		case x < 3:
			return stmt{Kind: "nop"}
		case x < 5:
			return stmt{Kind: "fail"}
		case x < 6:
			if r.Intn(3) == 0 {
				return stmt{Kind: "cancel"}
			}
		case x < 9:
			if g.out != "pipe" {
				return g.writer()
			}
		case leaf:
			return stmt{Kind: "nop"}
		case x < 11:
			return g.genAliasNest()
		case x < 13:
			rs, out := g.genRedirs(false)
			sub.out = out
			for _, rd := range rs {
				if strings.HasPrefix(rd.Text, "<") {
					// port 0 is now a file with one shared offset: each only directly here
					sub.in0 = "pipetop"
				}
			}
			return stmt{Kind: "form", Rs: rs, Body: sub.genBody(3)}
		case x < 16:
			return g.genPipe()
		case x < 18:
			sub.out = "sink" // the capture pipe is always drained
			return stmt{Kind: "capture", Body: sub.genBody(3)}
		case x < 19:
			if g.in0 == "dummy" || g.in0 == "pipetop" {
				return stmt{Kind: "eachin", Body: sub.genBody(2)}
			}
		case x < 21:
			sub.in0 = "dummy"
			return stmt{Kind: "peach", N: r.Intn(4), Body: sub.genBody(2)}
		case x < 22:
			s := stmt{Kind: "runpar"}
			k := 1 + r.Intn(3)
			for i := 0; i < k; i++ {
				s.Fs = append(s.Fs, sub.genBody(2))
			}
			return s
		default:
			return stmt{Kind: "try", Body: sub.genBody(3)}
		}
	}
}

// ---------------------------------------------------------------- aliased ports x file redirections

// outer redirection lists that make several fds share one port
func aliasOuters() [][]redir {
	return [][]redir{
		{dupRedir(2, 1)}, {dupRedir(3, 1)}, {dupRedir(4, 1)}, {dupRedir(5, 1)},
		{dupRedir(3, 2)}, {dupRedir(5, 2)}, {dupRedir(2, 1), dupRedir(3, 1)},
		{dupRedir(3, 0)}, {dupRedir(4, 2), dupRedir(5, 4)}, {dupRedir(1, 2)},
	}
}

// inner forms with one file redirection of every kind
func aliasInners() []stmt {
	e := stmt{Kind: "echo", S: "in"}
	n := stmt{Kind: "nop"}
	return []stmt{
		{Kind: "form", Rs: []redir{fileRedir(-1, 1, 1)}, Body: []stmt{e}},
		{Kind: "form", Rs: []redir{fileRedir(-1, 2, 1)}, Body: []stmt{e}},
		{Kind: "form", Rs: []redir{fileRedir(-1, 3, 2)}, Body: []stmt{e}},
		{Kind: "form", Rs: []redir{fileRedir(-1, 0, 0)}, Body: []stmt{n}},
		{Kind: "form", Rs: []redir{fileRedir(2, 1, 2)}, Body: []stmt{e}},
		{Kind: "form", Rs: []redir{fileRedir(2, 2, 1)}, Body: []stmt{n}},
		{Kind: "form", Rs: []redir{fileRedir(3, 1, 1)}, Body: []stmt{e}},
		{Kind: "form", Rs: []redir{fileRedir(4, 2, 2), fileRedir(-1, 1, 1)}, Body: []stmt{e}},
	}
}

// a random nest: outer dups, inner file redirections, sometimes a failure
func (g gctx) genAliasNest() stmt {
	r := g.c.Rand
	outs, ins := aliasOuters(), aliasInners()
	var body []stmt
	k := 1 + r.Intn(3)
	for i := 0; i < k; i++ {
		in := ins[r.Intn(len(ins))]
		if g.out == "pipe" {
			// port 1 may be a pipeline pipe here: no writer except at the end of the stage
			in.Body = []stmt{{Kind: "nop"}}
		}
		if r.Intn(5) == 0 {
			in.Body = append(append([]stmt(nil), in.Body...), stmt{Kind: "fail"})
		}
		if r.Intn(4) == 0 {
			in.Fn = true
		}
		body = append(body, in)
	}
	nest := stmt{Kind: "form", Rs: outs[r.Intn(len(outs))], Body: body, Fn: r.Intn(4) == 0}
	if r.Intn(3) == 0 {
		nest = stmt{Kind: "form", Rs: outs[r.Intn(len(outs))], Body: []stmt{nest}}
	}
	return nest
}

func (g gctx) genPipe() stmt {
	r := g.c.Rand
	k := 2 + r.Intn(3)
	s := stmt{Kind: "pipe"}
	for i := 0; i < k; i++ {
		sub := g
		sub.depth++
		stageIn := i > 0
		if stageIn {
			sub.in0 = "pipetop"
		} else if sub.in0 == "pipetop" {
			sub.in0 = "nested"
		}
		if i < k-1 {
			sub.out = "pipe"
		}
		var st stage
		if r.Intn(3) == 0 {
			rs, out := sub.genRedirs(stageIn)
			st.Rs = rs
			if i < k-1 && out == "sink" {
				out = "pipe"
			}
			sub.out = out
		}
		st.Body = sub.genBody(2)
		if i < k-1 && sub.out == "pipe" && r.Intn(3) != 0 {
			st.Body = append(st.Body, sub.writer())
		}
		s.Stages = append(s.Stages, st)
	}
	return s
}

func genProg(c *reg.Ctx) []stmt {
	g := gctx{c: c, out: "sink", in0: "dummy"}
	n := 1 + c.Rand.Intn(3)
	var b []stmt
	if c.Rand.Intn(3) == 0 {
		b = append(b, g.genAliasNest())
	}
	for i := 0; i < n; i++ {
		b = append(b, g.genStmt())
	}
	return b
}

// plantedAlias: the family "file redirection inside a form whose ports alias each
// other through outer n>&m" -- emitted first in every run, whatever the seed.
type prg struct {
	body  []stmt
	alias bool // run with ports 1 and 2 being one port object
}

func plantedAlias() []prg {
	var ps []prg
	ins := aliasInners()
	fail := stmt{Kind: "fail"}
	withFn := func(b []stmt) []stmt {
		var o []stmt
		for _, s := range b {
			s.Fn = true
			o = append(o, s)
		}
		return o
	}
	for _, out := range aliasOuters() {
		// { in1; in2; ... } outer
		ps = append(ps, prg{body: []stmt{{Kind: "form", Rs: out, Body: ins}}})
		// fn vf { fn vf {..}; vf >f; ... }; vf outer
		ps = append(ps, prg{body: []stmt{{Kind: "form", Rs: out, Body: withFn(ins), Fn: true}}})
		// two alias depths
		ps = append(ps, prg{body: []stmt{{Kind: "form", Rs: []redir{dupRedir(2, 1)},
			Body: []stmt{{Kind: "form", Rs: out, Body: []stmt{{Kind: "form", Body: ins}}}}}}})
		// the command inside throws / a later inner form throws
		bad := append([]stmt(nil), ins[:3]...)
		last := ins[0]
		last.Body = []stmt{{Kind: "echo", S: "x"}, fail}
		bad = append(bad, last)
		ps = append(ps, prg{body: []stmt{{Kind: "try", Body: []stmt{{Kind: "form", Rs: out, Body: bad}}}}})
		ps = append(ps, prg{body: []stmt{{Kind: "form", Rs: out, Body: []stmt{last}}}})
	}
	// no outer dup at all: the evaluation's own ports 1 and 2 are one object
	ps = append(ps, prg{body: ins, alias: true})
	ps = append(ps, prg{body: withFn(ins), alias: true})
	ps = append(ps, prg{body: []stmt{{Kind: "form", Rs: []redir{dupRedir(3, 2)}, Body: ins}}, alias: true})
	return ps
}

// ---------------------------------------------------------------- planted programs

func planted() [][]stmt {
	nop := stmt{Kind: "nop"}
	fail := stmt{Kind: "fail"}
	echo := stmt{Kind: "echo", S: "hi"}
	cancel := stmt{Kind: "cancel"}
	form := func(rs []redir, b ...stmt) stmt { return stmt{Kind: "form", Rs: rs, Body: b} }
	pipe := func(sts ...stage) stmt { return stmt{Kind: "pipe", Stages: sts} }
	st := func(b ...stmt) stage { return stage{Body: b} }
	wr := fileRedir(-1, 1, 1)
	return [][]stmt{
		{form([]redir{wr}, echo)},
		{form([]redir{wr}, fail)},                                  // the command throws with a file open
		{form([]redir{wr, fileRedir(5, 2, 2), dupRedir(1, 9)}, echo)}, // a later redirection throws
		{form([]redir{wr, fileRedir(-1, 1, 2)}, echo)},             // replaced: closed at once
		{form([]redir{wr, dupRedir(2, 1), fileRedir(-1, 1, 2)}, echo)},
		{form([]redir{fileRedir(-1, 0, 0)}, stmt{Kind: "eachin", Body: []stmt{nop}})},
		{form([]redir{fileRedir(-1, 0, 3)}, nop)}, // may not exist
		{pipe(st(echo), st(nop))},                 // reader leaves early
		{pipe(st(stmt{Kind: "range", N: 100}), st(nop))},
		{pipe(st(echo), st(fail), st(nop))}, // a middle stage fails
		{pipe(st(fail), st(fail), st(fail))},
		{pipe(st(echo), stage{Rs: []redir{dupRedir(1, 9)}, Body: []stmt{nop}}, st(nop))}, // a middle stage fails to start
		{pipe(st(stmt{Kind: "range", N: 3}), st(stmt{Kind: "eachin", Body: []stmt{form([]redir{fileRedir(-1, 2, 1)}, echo)}}))},
		{pipe(st(stmt{Kind: "range", N: 3}), st(stmt{Kind: "eachin", Body: []stmt{fail}}))},
		{pipe(stage{Rs: []redir{wr}, Body: []stmt{echo}}, st(stmt{Kind: "eachin", Body: []stmt{nop}}))},
		{{Kind: "capture", Body: []stmt{echo, stmt{Kind: "range", N: 3}}}},
		{{Kind: "capture", Body: []stmt{echo, fail}}}, // exception inside a capture
		{{Kind: "capture", Body: []stmt{{Kind: "capture", Body: []stmt{fail}}}}},
		{{Kind: "eachin", Body: []stmt{nop}}},
		{{Kind: "peach", N: 3, Body: []stmt{form([]redir{fileRedir(-1, 2, 1)}, echo)}}},
		{{Kind: "peach", N: 3, Body: []stmt{fail}}},
		{{Kind: "runpar", Fs: [][]stmt{{echo}, {fail}, {form([]redir{wr}, echo)}}}},
		{{Kind: "try", Body: []stmt{form([]redir{wr}, fail)}}, echo},
		{cancel, echo},
		{form([]redir{wr}, cancel, echo)},
		{pipe(st(cancel), st(nop)), nop},
		{{Kind: "capture", Body: []stmt{cancel, echo}}},
		{{Kind: "try", Body: []stmt{cancel}}, pipe(st(echo), st(nop))},
		{{Kind: "peach", N: 2, Body: []stmt{cancel}}},
	}
}

// ---------------------------------------------------------------- run

type desc struct {
	Src     string `json:"src"`
	Reps    int    `json:"reps"`
	Outcome string `json:"outcome"`
	FdGrow  int    `json:"fd_growth"`
	GorGrow int    `json:"goroutine_growth"`
	Note    string `json:"note,omitempty"`
}

func features(b []stmt, m map[string]bool) {
	for _, s := range b {
		m[s.Kind] = true
		if len(s.Rs) > 0 {
			m["redir"] = true
		}
		features(s.Body, m)
		for _, st := range s.Stages {
			if len(st.Rs) > 0 {
				m["redir"] = true
			}
			features(st.Body, m)
		}
		for _, f := range s.Fs {
			features(f, m)
		}
	}
}

func run(c *reg.Ctx) {
	dir := c.Scratch + "/w"
	os.MkdirAll(dir, 0o755)
	reps := 100
	if c.Tier == "thorough" {
		reps = 200
	}
	var progs []prg
	progs = append(progs, plantedAlias()...)
	for _, b := range planted() {
		progs = append(progs, prg{body: b})
	}
	for i := 0; i < c.N; i++ {
		progs = append(progs, prg{body: genProg(c), alias: c.Rand.Intn(8) == 0})
	}
	d := &driver{dir: dir}
	defer d.stop()
	fsCoq := List([]string{Some(Str("seed\nline2\n")), None(), Some(Str("old\n")), None()})
	for _, pg := range progs {
		p := pg.body
		src := strings.ReplaceAll(bodyText(p), "%D", dir)
		shown := bodyText(p)
		if pg.alias {
			shown = "[ports 1,2 aliased] " + shown
		}
		feat := map[string]bool{}
		features(p, feat)
		class := "plain"
		switch {
		case feat["cancel"]:
			class = "interrupt"
		case feat["pipe"]:
			class = "pipeline"
		case feat["capture"]:
			class = "capture"
		case feat["peach"] || feat["runpar"]:
			class = "parallel"
		case feat["redir"]:
			class = "redirection"
		}
		c.Count(class)
		res, died, hang := d.do(job{Src: src, Reps: reps, Alias: pg.alias})
		switch {
		case hang:
			c.Emit(reg.Case{Direct: "evaluation did not finish within the deadline: " + shown,
				Desc: desc{Src: shown, Reps: reps}, Key: "hang|" + shown, Class: class, Nontrivial: true})
			continue
		case res.Err != "":
			c.Emit(reg.Case{Direct: "C40 harness problem: " + res.Err, Desc: desc{Src: shown}, Key: "err|" + shown, Class: "harness"})
			continue
		}
		out := "OOk"
		if died != "" {
			out = "OCrash"
		} else if res.Outcome == "exc" {
			out = "OExc"
		}
		dsc := desc{Src: shown, Reps: reps, Outcome: res.Outcome, FdGrow: res.FdGrow, GorGrow: res.GorGrow, Note: res.Note}
		if died != "" {
			dsc.Outcome = "crash: " + died
		}
		if res.Outcome == "mixed" {
			c.Emit(reg.Case{Direct: "the outcome differs between repetitions of " + shown + ": " + res.Note,
				Desc: dsc, Key: "mixed|" + shown, Class: class, Nontrivial: true})
			continue
		}
		c.Emit(reg.Case{
			Coq: App("mkCase", fsCoq, bodyCoq(p), Nat(reps), Bool(pg.alias), out, Z(int64(res.FdGrow)), Z(int64(res.GorGrow))),
			Desc: dsc, Key: shown,
			Nontrivial: feat["redir"] || feat["pipe"] || feat["capture"] || feat["peach"] || feat["runpar"] || feat["eachin"],
			Class:      class,
		})
	}
}
