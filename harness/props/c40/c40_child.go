package c40

// Child mode (VERIF_C40_CHILD=1): one JSON job per line on stdin (a program and
// the number of repetitions), one JSON answer per line on stdout.

import (
	"bufio"
	"context"
	"encoding/json"
	"fmt"
	"io"
	"os"
	"os/exec"
	"runtime"
	"runtime/debug"
	"strings"
	"sync"
	"time"

	"src.elv.sh/pkg/eval"
	"src.elv.sh/pkg/mods"
	"src.elv.sh/pkg/parse"
)

type job struct {
	Src   string
	Reps  int
	Alias bool // ports 1 and 2 are one *Port
}

type answer struct {
	Outcome string `json:"outcome"` // ok | exc | mixed
	FdGrow  int    `json:"fd_growth"`
	GorGrow int    `json:"gor_growth"`
	Note    string `json:"note,omitempty"`
	Err     string `json:"err,omitempty"`
}

func countFds() int {
	es, err := os.ReadDir("/proc/self/fd")
	if err != nil {
		return -1
	}
	return len(es)
}

// settle waits until the goroutine and descriptor counts are back at (or
// below) the baseline; a slow machine must not look like a leak, so it keeps
// waiting while the counts still move, gives up only after they have not
// changed for 1.5 s (a stable surplus), and never waits longer than the deadline.
func settle(g0, fd0 int, deadline, stable time.Duration) (int, int) {
	end := time.Now().Add(deadline)
	lastG, lastFd, lastChange := -1, -1, time.Now()
	for {
		runtime.Gosched()
		g, fd := runtime.NumGoroutine(), countFds()
		if g != lastG || fd != lastFd {
			lastG, lastFd, lastChange = g, fd, time.Now()
		}
		if (g <= g0 && fd <= fd0) || time.Now().After(end) || time.Since(lastChange) > stable {
			return g, fd
		}
		time.Sleep(5 * time.Millisecond)
	}
}

func runJob(dir string, j job) (a answer) {
	// fresh files: f0 and f2 exist, f1 and f3 do not
	os.WriteFile(dir+"/f0", []byte("seed\nline2\n"), 0o644)
	os.Remove(dir + "/f1")
	os.WriteFile(dir+"/f2", []byte("old\n"), 0o644)
	os.Remove(dir + "/f3")

	var mu sync.Mutex
	var cancel context.CancelFunc
	ev := eval.NewEvaler()
	mods.AddTo(ev)
	ns := eval.BuildNsNamed("verif").AddGoFns(map[string]any{
		"cancel": func() {
			mu.Lock()
			c := cancel
			mu.Unlock()
			if c != nil {
				c()
			}
		},
	})
	ev.ExtendBuiltin(eval.BuildNs().AddNs("verif", ns))

	null, err := os.OpenFile(os.DevNull, os.O_WRONLY, 0)
	if err != nil {
		a.Err = err.Error()
		return
	}
	defer null.Close()
	// value sinks: drained by two goroutines that exist before the census
	ch1, ch2 := make(chan any, 64), make(chan any, 64)
	var dw sync.WaitGroup
	dw.Add(2)
	for _, ch := range []chan any{ch1, ch2} {
		go func(ch chan any) {
			defer dw.Done()
			for range ch {
			}
		}(ch)
	}
	defer func() { close(ch1); close(ch2); dw.Wait() }()
	ports := []*eval.Port{{File: eval.DevNull, Chan: eval.ClosedChan}, {File: null, Chan: ch1}, {File: null, Chan: ch2}}
	if j.Alias {
		ports[2] = ports[1]
	}

	// The context of a repetition is cancelled only by verif:cancel: a goroutine
	// that waits for the end of the context is a leak when the context never
	// ends (the usual case).  The cancel functions are called after the census.
	var pending []context.CancelFunc
	defer func() {
		for _, c := range pending {
			c()
		}
	}()
	once := func() string {
		ctx, c := context.WithCancel(context.Background())
		pending = append(pending, c)
		mu.Lock()
		cancel = c
		mu.Unlock()
		err := ev.Eval(parse.Source{Name: "c40", Code: j.Src},
			eval.EvalCfg{Ports: append([]*eval.Port(nil), ports...), Interrupts: ctx})
		if err != nil {
			return "exc"
		}
		return "ok"
	}
	// warm-up: lazily created runtime descriptors and goroutines
	first := once()
	once()
	// A leaked *os.File would be closed by its finalizer at the next garbage
	// collection, which hides the leak from the census: no collection while
	// the repetitions run.  Before that, flush what earlier jobs left behind.
	runtime.GC()
	runtime.GC()
	time.Sleep(20 * time.Millisecond)
	oldGC := debug.SetGCPercent(-1)
	defer func() {
		debug.SetGCPercent(oldGC)
		runtime.GC()
	}()
	g0, fd0 := settle(0, 0, 5*time.Second, 60*time.Millisecond)
	g0, fd0 = settle(g0, fd0, 5*time.Second, 60*time.Millisecond)
	a.Outcome = first
	for i := 0; i < j.Reps; i++ {
		if o := once(); o != a.Outcome {
			a.Note = fmt.Sprintf("repetition %d: %s, first: %s", i, o, first)
			a.Outcome = "mixed"
			break
		}
	}
	g1, fd1 := settle(g0, fd0, 30*time.Second, 1500*time.Millisecond)
	a.FdGrow, a.GorGrow = fd1-fd0, g1-g0
	return
}

func childMain() {
	dir := os.Getenv("VERIF_C40_DIR")
	in := bufio.NewReaderSize(os.Stdin, 1<<20)
	out := bufio.NewWriter(os.Stdout)
	enc := json.NewEncoder(out)
	for {
		line, err := in.ReadBytes('\n')
		if len(line) > 0 {
			var j job
			if e := json.Unmarshal(line, &j); e != nil {
				enc.Encode(answer{Err: e.Error()})
			} else {
				enc.Encode(runJob(dir, j))
			}
			out.Flush()
		}
		if err != nil {
			return
		}
	}
}

// ---------------------------------------------------------------- parent side

type driver struct {
	dir   string
	cmd   *exec.Cmd
	stdin io.WriteCloser
	lines chan []byte
	errb  *strings.Builder
}

type capWriter struct {
	b   *strings.Builder
	max int
}

func (w *capWriter) Write(p []byte) (int, error) {
	if w.b.Len() < w.max {
		w.b.Write(p)
	}
	return len(p), nil
}

func (d *driver) start() error {
	exe, err := os.Executable()
	if err != nil {
		return err
	}
	cmd := exec.Command(exe)
	cmd.Env = append(os.Environ(), "VERIF_C40_CHILD=1", "VERIF_C40_DIR="+d.dir, "GOTRACEBACK=single")
	d.errb = &strings.Builder{}
	cmd.Stderr = &capWriter{b: d.errb, max: 3000}
	d.stdin, _ = cmd.StdinPipe()
	so, _ := cmd.StdoutPipe()
	if err := cmd.Start(); err != nil {
		return err
	}
	d.cmd = cmd
	d.lines = make(chan []byte, 4)
	go func(ch chan []byte) {
		r := bufio.NewReaderSize(so, 1<<20)
		for {
			l, err := r.ReadBytes('\n')
			if len(l) > 0 {
				ch <- l
			}
			if err != nil {
				close(ch)
				return
			}
		}
	}(d.lines)
	return nil
}

func (d *driver) stop() {
	if d.cmd != nil {
		d.stdin.Close()
		d.cmd.Process.Kill()
		d.cmd.Wait()
		d.cmd = nil
	}
}

func (d *driver) do(j job) (res answer, died string, hang bool) {
	if d.cmd == nil {
		if err := d.start(); err != nil {
			return answer{Err: err.Error()}, "", false
		}
	}
	b, _ := json.Marshal(j)
	d.stdin.Write(append(b, '\n'))
	select {
	case l, ok := <-d.lines:
		if !ok {
			d.cmd.Wait()
			msg := d.errb.String()
			if i := strings.Index(msg, "\n\n"); i > 0 {
				msg = msg[:i]
			}
			if msg == "" {
				msg = "child exited"
			}
			d.cmd = nil
			return answer{}, msg, false
		}
		json.Unmarshal(l, &res)
		return res, "", false
	case <-time.After(300 * time.Second):
		d.stop()
		return answer{}, "", true
	}
}
