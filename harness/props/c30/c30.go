// Package c30: syntax highlighting never changes the text and is never stale
// (pkg/edit/highlight).
package c30

import (
	"fmt"
	"hash/fnv"
	"math/rand"
	"runtime"
	"strings"
	"sync"
	"sync/atomic"
	"time"

	"src.elv.sh/pkg/edit/highlight"
	"src.elv.sh/pkg/eval"
	"src.elv.sh/pkg/parse"
	"src.elv.sh/pkg/ui"
	. "verifharness/coqfmt"
	"verifharness/reg"
)

func init() {
	reg.Register(&reg.Spec{ID: "C30",
		Imports: "From verif Require Import lib.Base model.C30. From Coq Require Import Init.Byte.",
		Judge:   "C30.judge", Shard: 400, Run: run})
}

// ---------------------------------------------------------------- Coq terms

// bl prints a byte string as a list of Init.Byte constructors, bt one small
// number as a Byte constructor (these parse far faster than literals).
func bl(s string) string {
	if len(s) == 0 {
		return "[]"
	}
	var sb strings.Builder
	sb.Grow(4*len(s) + 2)
	sb.WriteByte('[')
	for i := 0; i < len(s); i++ {
		if i > 0 {
			sb.WriteByte(';')
		}
		fmt.Fprintf(&sb, "x%02x", s[i])
	}
	sb.WriteByte(']')
	return sb.String()
}
func bt(i int) string {
	if i < 0 || i > 255 {
		panic(fmt.Sprintf("c30: number %d does not fit the case syntax", i))
	}
	return fmt.Sprintf("x%02x", i)
}
func bls(l []string) string {
	items := make([]string, len(l))
	for i, s := range l {
		items[i] = bl(s)
	}
	return List(items)
}

// enc interns region types and styles of one case into two tables.
type enc struct {
	types, styles []string
	ti, si        map[string]int
}

func newEnc() *enc { return &enc{ti: map[string]int{}, si: map[string]int{}} }

func (e *enc) typ(s string) int {
	i, ok := e.ti[s]
	if !ok {
		i = len(e.types)
		e.ti[s] = i
		e.types = append(e.types, s)
	}
	return i
}
func (e *enc) style(s string) int {
	i, ok := e.si[s]
	if !ok {
		i = len(e.styles)
		e.si[s] = i
		e.styles = append(e.styles, s)
	}
	return i
}

func (e *enc) regions(rs []highlight.VerifRegion) string {
	items := make([]string, len(rs))
	for i, r := range rs {
		k := "Lexical"
		if r.Kind == 1 {
			k = "Semantic"
		}
		items[i] = fmt.Sprintf("(CR %s %s %s %s)", bt(r.Begin), bt(r.End), k, bt(e.typ(r.Type)))
	}
	return List(items)
}

func (e *enc) text(t ui.Text) string {
	items := make([]string, len(t))
	for i, s := range t {
		items[i] = fmt.Sprintf("(CS %s %s)", bl(s.Text), bt(e.style(s.Style.SGR())))
	}
	return List(items)
}

// tables must be called after everything else has been encoded; it adds the
// theme entries of all types seen.
func (e *enc) tables() string {
	var th []string
	for i := 0; i < len(e.types); i++ {
		if st := highlight.VerifStyleOf(e.types[i]); st != "" {
			th = append(th, fmt.Sprintf("(TE %s %s)", bt(i), bt(e.style(st))))
		}
	}
	good, bad := highlight.VerifCommandStyles()
	gi, bi := e.style(good), e.style(bad)
	return App("mkTables", bls(e.types), bls(e.styles), List(th), bt(gi), bt(bi))
}

func textShow(t ui.Text) string {
	var sb strings.Builder
	for _, s := range t {
		fmt.Fprintf(&sb, "%q/%s ", s.Text, s.Style.SGR())
	}
	return sb.String()
}

// goodCmd is the (pure) command lookup used everywhere.
func goodCmd(name string) bool {
	switch name {
	case "echo", "put", "if", "for", "var", "set":
		return true
	case "nop", "try", "del", "tmp":
		return false
	}
	h := fnv.New32a()
	h.Write([]byte(name))
	return h.Sum32()%2 == 0
}

// the good names among the command regions of the given codes
func goodCoq(codes []string, fixed [][]highlight.VerifRegion) string {
	seen := map[string]bool{}
	var items []string
	for i, code := range codes {
		for _, r := range fixed[i] {
			if r.Type == highlight.VerifCommandType && r.Begin <= r.End && r.End <= len(code) {
				name := code[r.Begin:r.End]
				if goodCmd(name) && !seen[name] {
					seen[name] = true
					items = append(items, bl(name))
				}
			}
		}
	}
	return List(items)
}

func hasCommandRegion(rs []highlight.VerifRegion) bool {
	for _, r := range rs {
		if r.Type == highlight.VerifCommandType {
			return true
		}
	}
	return false
}

// ---------------------------------------------------------------- generators

var words = []string{"echo", "put", "nop", "ls", "a", "x", "foo", "é", "中文", "a-b", "e:cat", "./run", "1.5", "if", "else", "="}
var vars = []string{"x", "y", "foo", "e", "@rest", "ns:v", "é"}

func pick(r *rand.Rand, l []string) string { return l[r.Intn(len(l))] }

func genArg(r *rand.Rand, depth int) string {
	switch r.Intn(16) {
	case 0:
		return "'" + pick(r, words) + " q'"
	case 1:
		return "\"" + pick(r, words) + "\\n\""
	case 2:
		return "$" + pick(r, vars)
	case 3:
		return "$" + pick(r, vars) + "[" + pick(r, words) + "]"
	case 4:
		return "*." + pick(r, words)
	case 5:
		return "~/" + pick(r, words)
	case 6:
		return "{" + pick(r, words) + "," + pick(r, words) + "}"
	case 7:
		return "[" + pick(r, words) + " " + pick(r, words) + "]"
	case 8:
		return "[&" + pick(r, words) + "=" + pick(r, words) + "]"
	case 9:
		return "&" + pick(r, words) + "=" + pick(r, words)
	case 10:
		if depth > 0 {
			return "{|" + pick(r, vars) + "| " + genStmt(r, depth-1) + " }"
		}
		return "{ }"
	case 11:
		if depth > 0 {
			return "(" + genStmt(r, depth-1) + ")"
		}
		return "()"
	case 12:
		return pick(r, words) + "$" + pick(r, vars) + "'" + pick(r, words) + "'"
	case 13:
		return "?(" + pick(r, words) + ")"
	case 14:
		return "**"
	}
	return pick(r, words)
}

func genArgs(r *rand.Rand, depth int) string {
	n := r.Intn(4)
	var sb strings.Builder
	for i := 0; i < n; i++ {
		sb.WriteString(" ")
		sb.WriteString(genArg(r, depth))
	}
	return sb.String()
}

func genBlock(r *rand.Rand, depth int) string {
	if depth <= 0 {
		return "{ }"
	}
	return "{ " + genStmt(r, depth-1) + " }"
}

func genStmt(r *rand.Rand, depth int) string {
	switch r.Intn(14) {
	case 0:
		return pick(r, []string{"var", "set", "tmp"}) + " " + pick(r, vars) + " = " + genArg(r, depth)
	case 1:
		return "del " + pick(r, vars)
	case 2:
		s := "if " + genArg(r, 0) + " " + genBlock(r, depth)
		if r.Intn(2) == 0 {
			s += " elif " + genArg(r, 0) + " " + genBlock(r, depth)
		}
		if r.Intn(2) == 0 {
			s += " else " + genBlock(r, depth)
		}
		return s
	case 3:
		s := "for " + pick(r, vars) + " [" + pick(r, words) + "] " + genBlock(r, depth)
		if r.Intn(3) == 0 {
			s += " else " + genBlock(r, depth)
		}
		return s
	case 4:
		s := "try " + genBlock(r, depth)
		if r.Intn(2) == 0 {
			s += " " + pick(r, []string{"catch", "except"}) + " " + pick(r, vars) + " " + genBlock(r, depth)
		}
		if r.Intn(3) == 0 {
			s += " else " + genBlock(r, depth)
		}
		if r.Intn(3) == 0 {
			s += " finally " + genBlock(r, depth)
		}
		return s
	case 5:
		return pick(r, words) + genArgs(r, depth) + " | " + pick(r, words) + genArgs(r, depth)
	case 6:
		return pick(r, words) + genArgs(r, depth) + " " + pick(r, []string{">", ">>", "<", "2>", "2>&1", "?>"}) + " " + pick(r, words)
	case 7:
		return "# " + pick(r, words) + " " + pick(r, words)
	case 8:
		return pick(r, vars) + " = " + genArg(r, depth)
	}
	return pick(r, words) + genArgs(r, depth)
}

func genValid(r *rand.Rand) string {
	n := 1 + r.Intn(3)
	var sb strings.Builder
	for i := 0; i < n; i++ {
		if i > 0 {
			sb.WriteString(pick(r, []string{"\n", "; ", "\n  ", " # c\n"}))
		}
		sb.WriteString(genStmt(r, 2))
	}
	if r.Intn(4) == 0 {
		sb.WriteString("\n")
	}
	return sb.String()
}

const soup = "'\"()[]{}|&;$#\\\n \t<>?*~=,^:@a1é"

func genInvalid(r *rand.Rand) string {
	s := []byte(genValid(r))
	k := 1 + r.Intn(3)
	for i := 0; i < k && len(s) > 0; i++ {
		p := r.Intn(len(s) + 1)
		switch r.Intn(4) {
		case 0: // delete
			if p < len(s) {
				s = append(s[:p:p], s[p+1:]...)
			}
		case 1: // insert
			rs := []rune(soup)
			ins := []byte(string(rs[r.Intn(len(rs))]))
			s = append(s[:p:p], append(ins, s[p:]...)...)
		case 2: // truncate
			s = s[:p]
		case 3: // token soup
			var sb strings.Builder
			rs := []rune(soup)
			for j := 0; j < 1+r.Intn(12); j++ {
				sb.WriteRune(rs[r.Intn(len(rs))])
			}
			s = append(s[:p:p], append([]byte(sb.String()), s[p:]...)...)
		}
	}
	return string(s)
}

var badBytes = []string{"\xff", "\xc0", "\xc3", "\xe4\xb8", "\xed\xa0\x80", "\x00", "\xf0\x9f", "\x80", "\xfe\xff"}

func genBadUTF8(r *rand.Rand) string {
	var s string
	if r.Intn(2) == 0 {
		s = genValid(r)
	} else {
		s = genInvalid(r)
	}
	k := 1 + r.Intn(3)
	for i := 0; i < k; i++ {
		p := r.Intn(len(s) + 1)
		s = s[:p] + pick(r, badBytes) + s[p:]
	}
	return s
}

func genFuzz(r *rand.Rand) string {
	n := r.Intn(24)
	b := make([]byte, n)
	for i := range b {
		if r.Intn(3) == 0 {
			b[i] = byte(r.Intn(256))
		} else {
			b[i] = soup[r.Intn(len(soup))]
		}
	}
	return string(b)
}

func genCode(r *rand.Rand) (string, string) {
	switch x := r.Intn(10); {
	case x < 4:
		return genValid(r), "valid"
	case x < 7:
		return genInvalid(r), "mutated"
	case x < 9:
		return genBadUTF8(r), "bad-utf8"
	}
	return genFuzz(r), "fuzz"
}

// ---------------------------------------------------------------- one highlight call

type hlDesc struct {
	Code  string `json:"code"`
	Mode  string `json:"mode"`
	Check bool   `json:"check"`
	Raw   string `json:"raw"`
	Fixed string `json:"fixed"`
	Ret   string `json:"ret"`
	Late  string `json:"late,omitempty"`
}

var modeCoq = map[string]string{"nolookup": "MNoLookup", "fast": "MFast", "slow": "MSlow"}

type env struct {
	c     *reg.Ctx
	check func(parse.Tree) (string, []*eval.CompilationError)
}

func (e *env) cfg(withCheck bool) highlight.Config {
	cfg := highlight.Config{}
	if withCheck {
		cfg.Check = e.check
	}
	return cfg
}

func (e *env) oneHighlight(code, gen, mode string, withCheck bool) {
	c := e.c
	class := gen + "/" + mode
	if withCheck {
		class += "/check"
	}
	c.Count(class)
	cfg := e.cfg(withCheck)
	d := hlDesc{Code: code, Mode: mode, Check: withCheck}
	direct := ""
	var raw, fixed []highlight.VerifRegion
	var ret, late ui.Text
	haveLate := false
	func() {
		defer func() {
			if p := recover(); p != nil {
				direct = fmt.Sprintf("highlight panicked on %q (%s): %v", code, class, p)
			}
		}()
		raw = highlight.VerifRawRegions(code, cfg)
		fixed = highlight.VerifFixRegions(raw)
		switch mode {
		case "nolookup":
			ret, _ = highlight.VerifHighlight(code, cfg, func(ui.Text) {})
		case "fast":
			cfg.HasCommand = goodCmd
			old := highlight.VerifSetMaxBlockForLate(20 * time.Second)
			ret, _ = highlight.VerifHighlight(code, cfg, func(ui.Text) {})
			highlight.VerifSetMaxBlockForLate(old)
		case "slow":
			gate := make(chan struct{})
			cfg.HasCommand = func(name string) bool { <-gate; return goodCmd(name) }
			lateCh := make(chan ui.Text, 4)
			old := highlight.VerifSetMaxBlockForLate(200 * time.Microsecond)
			ret, _ = highlight.VerifHighlight(code, cfg, func(t ui.Text) { lateCh <- t })
			highlight.VerifSetMaxBlockForLate(old)
			close(gate)
			if hasCommandRegion(fixed) {
				select {
				case late = <-lateCh:
					haveLate = true
				case <-time.After(10 * time.Second):
				}
			}
		}
	}()
	if direct != "" {
		c.Emit(reg.Case{Desc: d, Key: class + "/" + code, Class: class, Direct: direct, Nontrivial: true})
		return
	}
	d.Raw, d.Fixed, d.Ret = fmt.Sprint(raw), fmt.Sprint(fixed), textShow(ret)
	en := newEnc()
	rawCoq, fixedCoq, retCoq := en.regions(raw), en.regions(fixed), en.text(ret)
	lateCoq := None()
	if haveLate {
		lateCoq = Some(en.text(late))
		d.Late = textShow(late)
	}
	c.Emit(reg.Case{
		Coq: App("KHl", en.tables(), bl(code), rawCoq, fixedCoq, modeCoq[mode],
			goodCoq([]string{code}, [][]highlight.VerifRegion{fixed}), retCoq, lateCoq),
		Desc: d, Key: class + "/" + code, Class: class,
		Nontrivial: len(fixed) >= 2 && len(raw) > len(fixed),
	})
}

// ---------------------------------------------------------------- fixRegions on synthetic lists

type fixDesc struct {
	Len   int    `json:"len"`
	Raw   string `json:"raw"`
	Fixed string `json:"fixed"`
}

func (e *env) oneFix() {
	c := e.c
	r := c.Rand
	L := r.Intn(24)
	k := r.Intn(10)
	if r.Intn(4) == 0 {
		k = 10 + r.Intn(30) // beyond the insertion-sort threshold of sort.Slice
	}
	types := []string{"a", "b", "command", "error", "variable"}
	raw := make([]highlight.VerifRegion, k)
	for i := range raw {
		b := r.Intn(L + 1)
		var en int
		switch r.Intn(4) {
		case 0:
			en = b // empty region
		case 1:
			en = b + r.Intn(L-b+1)
		default:
			en = b + r.Intn(min(L-b, 4)+1)
		}
		raw[i] = highlight.VerifRegion{Begin: b, End: en, Kind: r.Intn(2), Type: pick(r, types)}
		if i > 0 && r.Intn(4) == 0 { // plant ties and nestings
			raw[i].Begin = raw[i-1].Begin
			if raw[i].End < raw[i].Begin {
				raw[i].End = raw[i].Begin
			}
		}
	}
	class := "fix/small"
	if k > 12 {
		class = "fix/large"
	}
	c.Count(class)
	var fixed []highlight.VerifRegion
	direct := ""
	func() {
		defer func() {
			if p := recover(); p != nil {
				direct = fmt.Sprintf("fixRegions panicked on %v: %v", raw, p)
			}
		}()
		fixed = highlight.VerifFixRegions(raw)
	}()
	d := fixDesc{L, fmt.Sprint(raw), fmt.Sprint(fixed)}
	if direct != "" {
		c.Emit(reg.Case{Desc: d, Key: d.Raw, Class: class, Direct: direct})
		return
	}
	en := newEnc()
	rawCoq, fixedCoq := en.regions(raw), en.regions(fixed)
	c.Emit(reg.Case{
		Coq:  App("KFix", bt(L), en.tables(), rawCoq, fixedCoq),
		Desc: d, Key: fmt.Sprint(L) + d.Raw, Class: class, Nontrivial: len(fixed) < len(raw) && len(fixed) >= 2,
	})
}

// ---------------------------------------------------------------- recorded traces of a Highlighter

type tev struct {
	kind int // 0 Get, 1 notify, 2 invalidate
	code string
	text ui.Text
}

// gate holds command lookups back: lookups that start while it is closed wait
// until releaseAll; pass lets later lookups through without releasing the
// ones already waiting.
type gate struct {
	mu   sync.Mutex
	hold bool
	ch   chan struct{}
	all  []chan struct{}
}

func (g *gate) wait() {
	g.mu.Lock()
	h, ch := g.hold, g.ch
	g.mu.Unlock()
	if h {
		<-ch
	}
}
func (g *gate) close() {
	g.mu.Lock()
	if !g.hold {
		g.hold, g.ch = true, make(chan struct{})
		g.all = append(g.all, g.ch)
	}
	g.mu.Unlock()
}
func (g *gate) pass() {
	g.mu.Lock()
	g.hold = false
	g.mu.Unlock()
}
func (g *gate) releaseAll() {
	g.mu.Lock()
	g.hold = false
	for _, ch := range g.all {
		close(ch)
	}
	g.all = nil
	g.mu.Unlock()
}

type recorder struct {
	mu     sync.Mutex // serialises Get/InvalidateCache and the log
	hl     *highlight.Highlighter
	log    []tev
	direct string
}

func (rc *recorder) get(code string) {
	rc.mu.Lock()
	defer rc.mu.Unlock()
	defer func() {
		if p := recover(); p != nil && rc.direct == "" {
			rc.direct = fmt.Sprintf("Highlighter.Get panicked on %q: %v", code, p)
		}
	}()
	t, _ := rc.hl.Get(code)
	rc.log = append(rc.log, tev{0, code, t})
}
func (rc *recorder) inv() {
	rc.mu.Lock()
	defer rc.mu.Unlock()
	rc.hl.InvalidateCache()
	rc.log = append(rc.log, tev{kind: 2})
}
func (rc *recorder) notify() {
	rc.mu.Lock()
	defer rc.mu.Unlock()
	rc.log = append(rc.log, tev{kind: 1})
}

// settle waits until the late goroutines have finished (goroutine count back
// to the base line), at most max.
func settle(base int, max time.Duration) {
	deadline := time.Now().Add(max)
	for time.Now().Before(deadline) {
		if runtime.NumGoroutine() <= base {
			// give a just-finished callback's notification time to be logged
			time.Sleep(200 * time.Microsecond)
			if runtime.NumGoroutine() <= base {
				return
			}
		}
		time.Sleep(200 * time.Microsecond)
	}
}

// stableCount waits until the number of goroutines stops changing (left-overs
// of earlier cases have exited) and returns it.
func stableCount() int {
	n := runtime.NumGoroutine()
	for i := 0; i < 50; i++ {
		time.Sleep(100 * time.Microsecond)
		m := runtime.NumGoroutine()
		if m == n {
			return n
		}
		n = m
	}
	return n
}

type traceDesc struct {
	Kind   string   `json:"kind"`
	Pool   []string `json:"pool"`
	Events []string `json:"events"`
}

// genPool: a few short codes, at least two with commands, two of equal length
// that differ in one byte, one without commands.
func (e *env) genPool() []string {
	r := e.c.Rand
	var pool []string
	seen := map[string]bool{"": true}
	add := func(s string) {
		if !seen[s] && len(s) <= 28 {
			seen[s] = true
			pool = append(pool, s)
		}
	}
	for len(pool) < 2 {
		add(pick(r, words[:6]) + genArgs(r, 0))
	}
	// same length, one byte changed
	b := []byte(pool[0])
	b[len(b)-1] ^= 1
	add(string(b))
	add(pick(r, []string{"$x", "# c", "'q'", "[a]", "$e[", "~"}))
	for i := 0; i < 6 && len(pool) < 5; i++ {
		s, _ := genCode(r)
		add(s)
	}
	return pool
}

func (e *env) oneTrace(planted int) {
	c := e.c
	r := c.Rand
	withCheck := r.Intn(3) == 0
	cfg := e.cfg(withCheck)
	pool := e.genPool()
	g := &gate{}
	var sleepMu sync.Mutex
	sr := rand.New(rand.NewSource(r.Int63()))
	var randomDelay atomic.Bool
	cfg.HasCommand = func(name string) bool {
		g.wait()
		if randomDelay.Load() {
			sleepMu.Lock()
			d := time.Duration(sr.Intn(1500)) * time.Microsecond
			sleepMu.Unlock()
			time.Sleep(d)
		}
		return goodCmd(name)
	}
	old := highlight.VerifSetMaxBlockForLate(500 * time.Microsecond)
	defer highlight.VerifSetMaxBlockForLate(old)

	rec := &recorder{hl: highlight.NewHighlighter(cfg)}
	done := make(chan struct{})
	var cur atomic.Value
	cur.Store(pool[0])
	var wg sync.WaitGroup
	wg.Add(1)
	redraw := planted == 0 // random scenarios: the editor redraws on a late update
	go func() {
		defer wg.Done()
		for {
			select {
			case <-rec.hl.LateUpdates():
				rec.notify()
				if redraw {
					rec.get(cur.Load().(string))
				}
			case <-done:
				return
			}
		}
	}()
	base := stableCount()
	kind := fmt.Sprintf("planted-%d", planted)
	a, b := pool[0], pool[1]
	a2 := pool[2] // same length as a
	nocmd := pool[3%len(pool)]
	const maxSettle = 400 * time.Millisecond
	switch planted {
	case 1: // a late result arrives after the code has changed
		g.close()
		rec.get(a)
		g.pass()
		rec.get(nocmd)
		g.releaseAll()
		settle(base, maxSettle)
		rec.get(nocmd)
		rec.get(a)
		settle(base, maxSettle)
		rec.get(a)
	case 2: // a late result arrives while the code is still current
		g.close()
		rec.get(a)
		g.releaseAll()
		settle(base, maxSettle)
		rec.get(a)
		rec.get(a2)
		settle(base, maxSettle)
		rec.get(a2)
		rec.get(a)
	case 3: // a, b, a again: two callbacks for a outstanding
		g.close()
		rec.get(a)
		g.pass()
		rec.get(b)
		g.close()
		rec.get(a)
		g.releaseAll()
		settle(base, maxSettle)
		rec.get(a)
		rec.get(b)
		settle(base, maxSettle)
		rec.get(b)
	case 4: // invalidation while a callback is outstanding
		g.close()
		rec.get(a)
		rec.inv()
		g.releaseAll()
		settle(base, maxSettle)
		rec.get("")
		rec.get(a)
		settle(base, maxSettle)
		rec.inv()
		rec.get("")
	case 5: // codes of equal length in a row, no delays
		rec.get(a)
		rec.get(a2)
		rec.get(a)
		rec.get(b)
		rec.get(a2)
		settle(base, maxSettle)
		rec.get(a2)
	case 6: // a late result arrives while a code of the same length is current
		g.close()
		rec.get(a)
		g.pass()
		rec.get(a2)
		g.releaseAll()
		settle(base, maxSettle)
		rec.get(a2)
		rec.get(a)
		settle(base, maxSettle)
		rec.get(a)
	default:
		kind = "random"
		randomDelay.Store(true)
		steps := 8 + r.Intn(16)
		wcodes := make([]string, steps)
		wdel := make([]time.Duration, steps)
		edel := make([]time.Duration, steps)
		einv := make([]bool, steps)
		for i := 0; i < steps; i++ {
			wcodes[i] = pool[r.Intn(len(pool))]
			if r.Intn(12) == 0 {
				wcodes[i] = ""
			}
			wdel[i] = time.Duration(r.Intn(1200)) * time.Microsecond
			edel[i] = time.Duration(r.Intn(1200)) * time.Microsecond
			einv[i] = r.Intn(10) == 0
		}
		var w2 sync.WaitGroup
		w2.Add(2)
		go func() { // the code changes
			defer w2.Done()
			for i := 0; i < steps; i++ {
				time.Sleep(wdel[i])
				cur.Store(wcodes[i])
			}
		}()
		go func() { // the editor redraws
			defer w2.Done()
			for i := 0; i < steps; i++ {
				time.Sleep(edel[i])
				if einv[i] {
					rec.inv()
				} else {
					rec.get(cur.Load().(string))
				}
			}
		}()
		w2.Wait()
		settle(base, maxSettle)
		rec.get(cur.Load().(string))
	}
	g.releaseAll()
	settle(base, maxSettle)
	close(done)
	wg.Wait()

	class := "trace/" + kind
	c.Count(class)
	rec.mu.Lock()
	log, direct := rec.log, rec.direct
	rec.mu.Unlock()
	if len(log) > 60 {
		log = log[:60]
	}
	// pool + the empty code, with their fixed regions
	codes := append(append([]string{}, pool...), "")
	idx := map[string]int{}
	fixed := make([][]highlight.VerifRegion, len(codes))
	var poolItems []string
	en := newEnc()
	for i, code := range codes {
		idx[code] = i
		func() {
			defer func() {
				if p := recover(); p != nil && direct == "" {
					direct = fmt.Sprintf("highlight panicked on %q: %v", code, p)
				}
			}()
			fixed[i] = highlight.VerifFixRegions(highlight.VerifRawRegions(code, cfg))
		}()
		poolItems = append(poolItems, Pair(bl(code), en.regions(fixed[i])))
	}
	d := traceDesc{Kind: kind, Pool: codes}
	var texts, evs []string
	tidx := map[string]int{}
	for _, ev := range log {
		switch ev.kind {
		case 0:
			tc := en.text(ev.text)
			ti, ok := tidx[tc]
			if !ok {
				ti = len(texts)
				tidx[tc] = ti
				texts = append(texts, tc)
			}
			evs = append(evs, fmt.Sprintf("(KGet %s %s)", bt(idx[ev.code]), bt(ti)))
			d.Events = append(d.Events, fmt.Sprintf("Get(%q) = %s", ev.code, textShow(ev.text)))
		case 1:
			evs = append(evs, "KNotify")
			d.Events = append(d.Events, "late-update")
		case 2:
			evs = append(evs, "KInv")
			d.Events = append(d.Events, "InvalidateCache")
		}
	}
	key := strings.Join(d.Events, "|")
	if direct != "" {
		c.Emit(reg.Case{Desc: d, Key: key, Class: class, Direct: direct, Nontrivial: true})
		return
	}
	c.Emit(reg.Case{
		Coq:  App("KTrace", en.tables(), List(poolItems), goodCoq(codes, fixed), List(texts), List(evs)),
		Desc: d, Key: key, Class: class, Nontrivial: len(evs) >= 4,
	})
}

// ---------------------------------------------------------------- run

func run(c *reg.Ctx) {
	ev := eval.NewEvaler()
	e := &env{c: c, check: func(t parse.Tree) (string, []*eval.CompilationError) {
		_, err := ev.CheckTree(t, nil)
		return "", eval.UnpackCompilationErrors(err)
	}}
	modes := []string{"nolookup", "fast", "slow"}

	// 1. fixed codes: the shapes emitRegions treats specially, boundary cases
	fixedCodes := []string{"", " ", "\n", "echo", "echo a", "echo 'a' \"b\" $x *.go ~ # c",
		"var x = 1", "set x = 1", "set @x y = 1 2", "tmp x = 1", "del x y", "var x", "var x[0] = 1",
		"if a { } elif b { } else { }", "for x [a] { } else { }", "for x", "for", "if", "try",
		"try { } catch e { } else { } finally { }", "try { } except e { }", "try { } finally { }",
		"a | b > c", "a 2>&1", "?(a)", "(a)", "[a b]", "[&a=b]", "{a,b}", "{ a }", "{|x| a }",
		"echo (", "echo [", "echo {", "echo '", "echo \"", "echo $", "echo a)", "a ]", "a }", "| a", "a |", "a >",
		"$x", "$x[", "&a=", "a&", "a b=c", "x=1 a", "\"\\x\"", "e:ls", "ls\xff", "\xff", "\xffecho a", "echo \xe4\xb8", "'\xff'",
		"nonexistent-cmd $nonexistent", "set nonexistent = 1", "var a; var a", "put $e[", "a;b\nc"}
	for _, code := range fixedCodes {
		for _, m := range modes {
			e.oneHighlight(code, "fixed", m, false)
		}
		e.oneHighlight(code, "fixed", modes[c.Rand.Intn(3)], true)
	}
	// 2. planted schedules, each a few times with different pools
	reps := 3
	if c.Tier == "thorough" {
		reps = 40
	}
	for i := 0; i < reps; i++ {
		for p := 1; p <= 6; p++ {
			e.oneTrace(p)
		}
	}
	// 3. generated codes through highlight
	for i := 0; i < c.N; i++ {
		code, gen := genCode(c.Rand)
		if len(code) > 200 {
			code = code[:200]
		}
		m := modes[c.Rand.Intn(3)]
		e.oneHighlight(code, gen, m, c.Rand.Intn(3) == 0)
	}
	// 4. fixRegions on synthetic region lists
	for i := 0; i < c.N/4; i++ {
		e.oneFix()
	}
	// 5. random concurrent scenarios
	for i := 0; i < c.N/12; i++ {
		e.oneTrace(0)
	}
}
