// Package c37: error positions (pkg/diag/context.go).
package c37

import (
	"fmt"
	"regexp"
	"strconv"
	"strings"

	"src.elv.sh/pkg/diag"
	"src.elv.sh/pkg/eval"
	"src.elv.sh/pkg/parse"
	. "verifharness/coqfmt"
	"verifharness/reg"
)

func init() {
	reg.Register(&reg.Spec{ID: "C37",
		Imports: "From verif Require Import lib.Base model.C37.",
		Judge:   "C37.judge", Shard: 500, Run: run})
}

type desc struct {
	Src      string `json:"src"`
	From, To int
	Via      string `json:"via"`
	Obs      string `json:"obs"`
}

var alphabets = []string{"a\n", "ab\n\n", "aé\n", "a \n\t中", "\n"}

func genSrc(c *reg.Ctx) string {
	al := []rune(alphabets[c.Rand.Intn(len(alphabets))])
	n := c.Rand.Intn(24)
	if c.Rand.Intn(10) == 0 {
		n = c.Rand.Intn(120)
	}
	var sb strings.Builder
	for i := 0; i < n; i++ {
		sb.WriteRune(al[c.Rand.Intn(len(al))])
	}
	return sb.String()
}

var formRe = regexp.MustCompile(`^name:(\d+):(\d+)(?:-(\d+))?(?::(\d+))?`)

// form parses the range description at the start of Context.Show.
func form(show string) (string, bool) {
	m := formRe.FindStringSubmatch(show)
	if m == nil {
		return "", false
	}
	z := func(s string) string { i, _ := strconv.ParseInt(s, 10, 64); return Z(i) }
	switch {
	case m[3] == "":
		return App("FPoint", z(m[1]), z(m[2])), true
	case m[4] == "":
		return App("FLine", z(m[1]), z(m[2]), z(m[3])), true
	default:
		return App("FMulti", z(m[1]), z(m[2]), z(m[3]), z(m[4])), true
	}
}

func emit(c *reg.Ctx, via, src string, from, to int, ctx *diag.Context) {
	show := ctx.Show("")
	f, ok := form(show)
	if !ok {
		f = "(FPoint 0 0)"
	}
	det := App("mkDetails", Z(int64(ctx.StartLine)), Z(int64(ctx.StartCol)),
		Z(int64(ctx.EndLine)), Z(int64(ctx.EndCol)), Str(ctx.Body), Str(ctx.Head), Str(ctx.Tail))
	body := src[from:to]
	class := "plain"
	switch {
	case from == to:
		class = "empty"
	case strings.HasSuffix(body, "\n\n"):
		class = "ends-2nl"
	case strings.HasSuffix(body, "\n"):
		class = "ends-nl"
	case strings.Contains(body, "\n"):
		class = "multiline"
	}
	c.Count(via + "/" + class)
	c.Emit(reg.Case{
		Coq: App("mkCase", Str(src), Nat(from), Nat(to), det, f),
		Desc: desc{src, from, to, via, fmt.Sprintf("%d:%d-%d:%d head=%q body=%q tail=%q show=%q",
			ctx.StartLine, ctx.StartCol, ctx.EndLine, ctx.EndCol, ctx.Head, ctx.Body, ctx.Tail, show)},
		Key:        fmt.Sprintf("%q/%d/%d", src, from, to),
		Nontrivial: strings.Contains(src, "\n") && len(src) > 2,
		Class:      class,
	})
}

func run(c *reg.Ctx) {
	// 1. exhaustive small: all sources of length <= 4 over {a, \n} with all ranges
	//    (thorough: up to 7 symbols over {a, é, \n})
	maxLen, letters := 4, []string{"a", "\n"}
	if c.Tier == "thorough" {
		maxLen, letters = 6, []string{"a", "é", "\n"}
	}
	small := []string{""}
	level := []string{""}
	for l := 0; l < maxLen; l++ {
		var next []string
		for _, s := range level {
			for _, x := range letters {
				next = append(next, s+x)
			}
		}
		small = append(small, next...)
		level = next
	}
	for _, s := range small {
		for from := 0; from <= len(s); from++ {
			for to := from; to <= len(s); to++ {
				emit(c, "NewContext", s, from, to, diag.NewContext("name", s, diag.Ranging{From: from, To: to}))
			}
		}
	}
	// 2. random sources and ranges through diag.NewContext
	for i := 0; i < c.N; i++ {
		src := genSrc(c)
		from := c.Rand.Intn(len(src) + 1)
		to := from + c.Rand.Intn(len(src)-from+1)
		if c.Rand.Intn(4) == 0 && to < len(src) {
			// bias: end right after a newline
			if j := strings.IndexByte(src[to:], '\n'); j >= 0 {
				to += j + 1
			}
		}
		emit(c, "NewContext", src, from, to, diag.NewContext("name", src, diag.Ranging{From: from, To: to}))
	}
	// 3. through real parse errors, compilation errors and exception tracebacks
	progs := []string{"echo (", "put [a\n b", "\n\nput $nonexistent\n", "nop\n  fail x\n",
		"fn f {\n fail y\n}\nf", "var x = 1\nset y = 2", "echo a\necho $x[\n", "if true {\n put 'a\n}",
		"put aé; put $z", "\n\n  (fail q)\n"}
	for i := 0; i < c.N/10+len(progs); i++ {
		src := progs[i%len(progs)]
		if i >= len(progs) {
			// prepend random lines so that the error moves
			src = strings.Repeat("nop é\n", c.Rand.Intn(4)) + strings.Repeat(" ", c.Rand.Intn(3)) + src
		}
		viaErrors(c, src)
	}
}

func viaErrors(c *reg.Ctx, src string) {
	tree, err := parse.Parse(parse.Source{Name: "name", Code: src}, parse.Config{})
	if err != nil {
		for _, e := range parse.UnpackErrors(err) {
			emit(c, "parse-error", src, e.Context.From, e.Context.To, &e.Context)
		}
		return
	}
	ev := eval.NewEvaler()
	_, cerr := ev.CheckTree(tree, nil)
	if cerr != nil {
		for _, e := range eval.UnpackCompilationErrors(cerr) {
			emit(c, "compile-error", src, e.Context.From, e.Context.To, &e.Context)
		}
		return
	}
	xerr := ev.Eval(parse.Source{Name: "name", Code: src}, eval.EvalCfg{})
	if exc, ok := xerr.(eval.Exception); ok {
		for st := exc.StackTrace(); st != nil; st = st.Next {
			if st.Head.Name == "name" {
				emit(c, "traceback", src, st.Head.From, st.Head.To, st.Head)
			}
		}
	}
}
