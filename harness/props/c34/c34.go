// Package c34: width handling (pkg/wcwidth, term.BufferBuilder, tk rendering).
//
// Cases: wcwidth.OfRune at every boundary of the implementation's width
// function, wcwidth.Trim / Force on random strings, tk.renderView +
// truncateToHeight (through the add-only hook tk.VerifC34RenderView) compared
// cell by cell with the model, and whole widgets (code area, list box, text
// view, label) rendered at random sizes and judged by the line-width / height
// oracle.
package c34

import (
	"fmt"
	"strings"

	"src.elv.sh/pkg/cli/term"
	"src.elv.sh/pkg/cli/tk"
	"src.elv.sh/pkg/ui"
	"src.elv.sh/pkg/wcwidth"
	. "verifharness/coqfmt"
	"verifharness/reg"
)

func init() {
	reg.Register(&reg.Spec{ID: "C34",
		Imports: "From verif Require Import lib.Base model.C34_width model.C34.",
		Judge:   "C34.judge", Shard: 700, Run: run})
}

type desc struct {
	Kind string `json:"kind"`
	In   string `json:"in"`
	Arg  string `json:"arg"`
	Obs  string `json:"obs"`
}

// ---------------------------------------------------------------- strings

var alphabets = [][]rune{
	[]rune("ab "),
	[]rune("a中文"),
	[]rune("éá̀"),
	[]rune("a\t\x01\x7f\u0085"),
	[]rune("😀ｗ​x"),
	[]rune("aᅠᅟᄀ"),
}

func genStr(c *reg.Ctx) string {
	al := alphabets[c.Rand.Intn(len(alphabets))]
	n := c.Rand.Intn(8)
	if c.Rand.Intn(10) == 0 {
		n = c.Rand.Intn(40)
	}
	var sb strings.Builder
	for i := 0; i < n; i++ {
		if c.Rand.Intn(8) == 0 {
			al = alphabets[c.Rand.Intn(len(alphabets))]
		}
		sb.WriteRune(al[c.Rand.Intn(len(al))])
	}
	s := sb.String()
	if c.Rand.Intn(8) == 0 && len(s) > 0 {
		// invalid UTF-8: cut inside a sequence or insert a stray byte
		i := c.Rand.Intn(len(s))
		if c.Rand.Intn(2) == 0 {
			s = s[:i] + string([]byte{byte(0x80 + c.Rand.Intn(0x80))}) + s[i:]
		} else {
			s = s[:i] + s[min(i+1, len(s)):]
		}
	}
	return s
}

func stringClass(s string) string {
	cl := "ascii"
	for _, r := range s {
		switch {
		case r == 0xFFFD:
			return "invalid-utf8"
		case r < 0x20 || r == 0x7f:
			cl = "control"
		case wcwidth.OfRune(r) == 2 && cl != "control":
			cl = "wide"
		case wcwidth.OfRune(r) == 0 && cl == "ascii":
			cl = "zero-width"
		case r >= 0x80 && cl == "ascii":
			cl = "multibyte"
		}
	}
	return cl
}

func ofRuneCases(c *reg.Ctx) {
	emit := func(r rune) {
		if r < 0 || r > 0x110000 {
			return
		}
		w := wcwidth.OfRune(r)
		c.Count("OfRune")
		c.Emit(reg.Case{
			Coq:        App("COfRune", N(uint64(r)), Z(int64(w))),
			Desc:       desc{Kind: "OfRune", In: fmt.Sprintf("U+%04X", r), Obs: fmt.Sprint(w)},
			Key:        fmt.Sprintf("ofrune/%d", r),
			Nontrivial: r >= 0x80,
			Class:      "ofrune",
		})
	}
	// every boundary of the implementation's width function
	prev := wcwidth.OfRune(0)
	emit(0)
	for r := rune(1); r <= 0x110000; r++ {
		w := wcwidth.OfRune(r)
		if w != prev {
			emit(r - 1)
			emit(r)
			prev = w
		}
	}
	// the documented interval ends of the wide condition, and neighbours
	for _, r := range []rune{0x1100, 0x115f, 0x2329, 0x232a, 0x2e80, 0x303f, 0xa4cf, 0xac00, 0xd7a3, 0xf900, 0xfaff,
		0xfe10, 0xfe19, 0xfe30, 0xfe6f, 0xff00, 0xff60, 0xffe0, 0xffe6, 0x20000, 0x2fffd, 0x30000, 0x3fffd, 0x1f300, 0x1f6ff,
		0x300, 0x36f, 0xe0100, 0xe01ef, 0x7f, 0xa0, 0x20, 0x10ffff} {
		emit(r - 1)
		emit(r)
		emit(r + 1)
	}
	for i := 0; i < 200; i++ {
		emit(rune(c.Rand.Intn(0x30000)))
	}
}

func trimForce(c *reg.Ctx) {
	s := genStr(c)
	total := wcwidth.Of(s)
	n := c.Rand.Intn(total+3) - c.Rand.Intn(2)
	cl := stringClass(s)
	if c.Rand.Intn(2) == 0 {
		out := wcwidth.Trim(s, n)
		c.Count("Trim/" + cl)
		c.Emit(reg.Case{
			Coq:        App("CTrim", Str(s), Z(int64(n)), Str(out)),
			Desc:       desc{Kind: "Trim", In: fmt.Sprintf("%q", s), Arg: fmt.Sprint(n), Obs: fmt.Sprintf("%q", out)},
			Key:        fmt.Sprintf("trim/%q/%d", s, n),
			Nontrivial: len(s) > 1 && n < total,
			Class:      "trim-" + cl,
		})
		return
	}
	if n < 0 {
		n = 0 // Force panics on negative widths (outside the property's domain)
	}
	out := wcwidth.Force(s, n)
	c.Count("Force/" + cl)
	c.Emit(reg.Case{
		Coq:        App("CForce", Str(s), Z(int64(n)), Str(out)),
		Desc:       desc{Kind: "Force", In: fmt.Sprintf("%q", s), Arg: fmt.Sprint(n), Obs: fmt.Sprintf("%q", out)},
		Key:        fmt.Sprintf("force/%q/%d", s, n),
		Nontrivial: len(s) > 1,
		Class:      "force-" + cl,
	})
}

// ---------------------------------------------------------------- styled text and buffers

var styles = []ui.Styling{nil, ui.Bold, ui.FgRed, ui.Stylings(ui.Inverse, ui.BgBlue), ui.Underlined}

func genLineStr(c *reg.Ctx, newlines bool) string {
	s := genStr(c)
	if !newlines {
		return strings.ReplaceAll(s, "\n", " ")
	}
	if c.Rand.Intn(3) == 0 && len(s) > 0 {
		i := c.Rand.Intn(len(s) + 1)
		// keep rune boundaries
		for i < len(s) && !isStart(s[i]) {
			i++
		}
		s = s[:i] + "\n" + s[i:]
	}
	return s
}

// hasControl: does s contain a character that BufferBuilder shows as ^X
// (newline excluded: it is a line separator for the widgets that accept it)?
func hasControl(s string) bool {
	for _, r := range s {
		if (r < 0x20 && r != '\n') || r == 0x7f {
			return true
		}
	}
	return false
}

func isStart(b byte) bool { return b&0xC0 != 0x80 }

func genText(c *reg.Ctx, maxSegs int, newlines bool) ui.Text {
	n := c.Rand.Intn(maxSegs + 1)
	var parts []ui.Text
	for i := 0; i < n; i++ {
		parts = append(parts, ui.T(genLineStr(c, newlines), styles[c.Rand.Intn(len(styles))]))
	}
	return ui.Concat(parts...)
}

func coqSText(t ui.Text) string {
	items := make([]string, len(t))
	for i, seg := range t {
		items[i] = Pair(Str(seg.Style.SGR()), Str(seg.Text))
	}
	if len(items) == 0 {
		return "(@nil (bytes * bytes))"
	}
	return List(items)
}

// coqELines prints lines as (texts, styles), every cell followed by a NUL byte.
func coqELines(lines [][]term.Cell) string {
	ls := make([]string, len(lines))
	for i, l := range lines {
		var tb, sb strings.Builder
		for _, cell := range l {
			tb.WriteString(cell.Text)
			tb.WriteByte(0)
			sb.WriteString(cell.Style)
			sb.WriteByte(0)
		}
		ls[i] = Pair(Str(tb.String()), Str(sb.String()))
	}
	if len(ls) == 0 {
		return "(@nil eline)"
	}
	return List(ls)
}

// coqLineTexts prints each line as the concatenation of its cells' texts.
func coqLineTexts(lines [][]term.Cell) string {
	ls := make([]string, len(lines))
	for i, l := range lines {
		var tb strings.Builder
		for _, cell := range l {
			tb.WriteString(cell.Text)
		}
		ls[i] = Str(tb.String())
	}
	if len(ls) == 0 {
		return "(@nil bytes)"
	}
	return List(ls)
}

func showText(t ui.Text) string {
	var sb strings.Builder
	for _, s := range t {
		fmt.Fprintf(&sb, "{%q %s}", s.Text, s.Style.SGR())
	}
	return sb.String()
}

func showBuf(b *term.Buffer) string {
	var sb strings.Builder
	fmt.Fprintf(&sb, "W=%d dot=%d,%d lines=%d widths=", b.Width, b.Dot.Line, b.Dot.Col, len(b.Lines))
	for _, l := range b.Lines {
		w := 0
		for _, cell := range l {
			w += wcwidth.Of(cell.Text)
		}
		fmt.Fprintf(&sb, "%d ", w)
	}
	return sb.String()
}

func textLen(t ui.Text) int {
	n := 0
	for _, s := range t {
		n += len(s.Text)
	}
	return n
}

func textStr(t ui.Text) string {
	var sb strings.Builder
	for _, s := range t {
		sb.WriteString(s.Text)
	}
	return sb.String()
}

func genSize(c *reg.Ctx) (int, int) {
	w := 2 + c.Rand.Intn(6)
	if c.Rand.Intn(3) == 0 {
		w = 2 + c.Rand.Intn(30)
	}
	h := 1 + c.Rand.Intn(5)
	if c.Rand.Intn(6) == 0 {
		h = 1 + c.Rand.Intn(30)
	}
	return w, h
}

func viewCase(c *reg.Ctx) {
	prompt := genText(c, 2, c.Rand.Intn(4) == 0)
	if c.Rand.Intn(3) == 0 {
		prompt = ui.T("~> ")
	}
	var rprompt ui.Text
	if c.Rand.Intn(2) == 0 {
		rprompt = genText(c, 2, c.Rand.Intn(5) == 0)
	}
	code := genText(c, 4, true)
	n := textLen(code)
	dot := c.Rand.Intn(n + 1)
	s := textStr(code)
	if c.Rand.Intn(10) != 0 { // mostly at a rune boundary
		for dot < n && !isStart(s[dot]) {
			dot++
		}
	}
	var tips []ui.Text
	for i := c.Rand.Intn(3); i > 0; i-- {
		tips = append(tips, genText(c, 2, c.Rand.Intn(3) == 0))
	}
	width, height := genSize(c)
	if c.Rand.Intn(10) == 0 {
		height = 0
	}
	parts := code.Partition(dot)
	buf := tk.VerifC34RenderView(prompt, rprompt, code, dot, tips, width, height)
	tipItems := make([]string, len(tips))
	shownTips := ""
	for i, t := range tips {
		tipItems[i] = coqSText(t)
		shownTips += " tip=" + showText(t)
	}
	tipsCoq := "(@nil stext)"
	if len(tips) > 0 {
		tipsCoq = List(tipItems)
	}
	v := App("mkView", coqSText(prompt), coqSText(parts[0]), coqSText(parts[1]), coqSText(rprompt), tipsCoq)
	obs := App("mkEBuf", Z(int64(buf.Width)), coqELines(buf.Lines), Pair(Z(int64(buf.Dot.Line)), Z(int64(buf.Dot.Col))))
	cl := "view-" + stringClass(textStr(prompt)+s+textStr(rprompt))
	c.Count(cl)
	c.Emit(reg.Case{
		Coq: App("CView", v, Z(int64(width)), Z(int64(height)), obs),
		Desc: desc{Kind: "renderView", In: fmt.Sprintf("prompt=%s code=%s dot=%d rprompt=%s%s", showText(prompt), showText(code), dot, showText(rprompt), shownTips),
			Arg: fmt.Sprintf("%dx%d", width, height), Obs: showBuf(buf)},
		Key:        v + fmt.Sprint(width, height),
		Nontrivial: n > 0,
		Class:      cl,
	})
}

// ---------------------------------------------------------------- widgets

type items []ui.Text

func (it items) Show(i int) ui.Text { return it[i] }
func (it items) Len() int           { return len(it) }

// suffixed appends the aspect to every class of a "|"-joined class list.
func suffixed(class, suffix string) string {
	parts := strings.Split(class, "|")
	for i := range parts {
		parts[i] += suffix
	}
	return strings.Join(parts, "|")
}

func renderWidget(c *reg.Ctx, kind, coqKind, class, in string, width, height int, render func() *term.Buffer) {
	var buf *term.Buffer
	var panicked any
	func() {
		defer func() { panicked = recover() }()
		buf = render()
	}()
	if panicked != nil {
		c.Count(kind + "/panic")
		c.Emit(reg.Case{Direct: fmt.Sprintf("%s.Render(%d, %d) panicked: %v", kind, width, height, panicked),
			Desc: desc{Kind: kind, In: in, Arg: fmt.Sprintf("%dx%d", width, height)}, Key: in, Class: suffixed(class, "-panic")})
		return
	}
	var lines [][]term.Cell
	if buf != nil {
		lines = buf.Lines
	}
	obs := coqLineTexts(lines)
	shown := "nil"
	if buf != nil {
		shown = showBuf(buf)
	}
	for _, asp := range []string{"AWidth", "AHeight"} {
		cl := suffixed(class, "-width")
		if asp == "AHeight" {
			cl = suffixed(class, "-height")
		}
		c.Count(cl)
		c.Emit(reg.Case{
			Coq:        App("CWidget", coqKind, asp, Z(int64(width)), Z(int64(height)), obs),
			Desc:       desc{Kind: kind + " " + asp, In: in, Arg: fmt.Sprintf("%dx%d", width, height), Obs: shown},
			Key:        kind + asp + in + fmt.Sprint(width, height),
			Nontrivial: len(lines) > 0,
			Class:      cl,
		})
	}
}

func codeAreaWidget(c *reg.Ctx) {
	prompt := genText(c, 2, c.Rand.Intn(4) == 0)
	rprompt := genText(c, 2, false)
	content := genLineStr(c, true) + genLineStr(c, true)
	dot := c.Rand.Intn(len(content) + 1)
	for dot < len(content) && !isStart(content[dot]) {
		dot++
	}
	var pending tk.PendingCode
	if c.Rand.Intn(2) == 0 {
		from := c.Rand.Intn(len(content) + 1)
		for from < len(content) && !isStart(content[from]) {
			from++
		}
		to := from + c.Rand.Intn(len(content)-from+1)
		for to < len(content) && !isStart(content[to]) {
			to++
		}
		pending = tk.PendingCode{From: from, To: to, Content: genLineStr(c, false)}
	}
	tips := []ui.Text{}
	for i := c.Rand.Intn(3); i > 0; i-- {
		tips = append(tips, genText(c, 2, c.Rand.Intn(3) == 0))
	}
	seed := c.Rand.Int63()
	hl := func(code string) (ui.Text, []ui.Text) {
		// a deterministic "highlighter": style chunks of the code
		var parts []ui.Text
		i, k := 0, int(seed%5)
		for i < len(code) {
			j := min(i+1+k%4, len(code))
			for j < len(code) && !isStart(code[j]) {
				j++
			}
			parts = append(parts, ui.T(code[i:j], styles[k%len(styles)]))
			i, k = j, k+1
		}
		return ui.Concat(parts...), tips
	}
	w := tk.NewCodeArea(tk.CodeAreaSpec{
		Prompt: func() ui.Text { return prompt }, RPrompt: func() ui.Text { return rprompt }, Highlighter: hl,
		State: tk.CodeAreaState{Buffer: tk.CodeBuffer{Content: content, Dot: dot}, Pending: pending,
			HideRPrompt: c.Rand.Intn(4) == 0, HideTips: c.Rand.Intn(4) == 0}})
	width, height := genSize(c)
	in := fmt.Sprintf("prompt=%s rprompt=%s content=%q dot=%d pending=%v tips=%d", showText(prompt), showText(rprompt), content, dot, pending, len(tips))
	renderWidget(c, "CodeArea", "WCodeArea", "codearea", in, width, height, func() *term.Buffer { return w.Render(width, height) })
}

func listBoxWidget(c *reg.Ctx) {
	horizontal := c.Rand.Intn(3) == 0
	n := c.Rand.Intn(8)
	if c.Rand.Intn(8) == 0 {
		n = c.Rand.Intn(40)
	}
	its := make(items, n)
	multiline := false
	totalLines := 0
	for i := range its {
		nl := !horizontal && c.Rand.Intn(3) == 0
		t := genText(c, 2, nl)
		if len(t) == 0 {
			t = ui.T("x")
		}
		its[i] = t
		k := t.CountLines()
		totalLines += k
		if k > 1 {
			multiline = true
		}
	}
	sel := 0
	if n > 0 {
		sel = c.Rand.Intn(n)
	}
	if c.Rand.Intn(10) == 0 {
		sel = c.Rand.Intn(n+3) - 1
	}
	first := 0
	if n > 0 && c.Rand.Intn(2) == 0 {
		first = c.Rand.Intn(n)
	}
	padding := c.Rand.Intn(2)
	extend := c.Rand.Intn(2) == 0
	width, height := genSize(c)
	var its2 tk.Items = its
	if n == 0 && c.Rand.Intn(2) == 0 {
		its2 = nil
	}
	w := tk.NewListBox(tk.ListBoxSpec{Horizontal: horizontal, Padding: padding, ExtendStyle: extend,
		Placeholder: ui.T("(no items)"),
		State:       tk.ListBoxState{Items: its2, Selected: sel, First: first}})
	var shown []string
	ctl, zeroWidth := false, false
	for _, t := range its {
		shown = append(shown, showText(t))
		ctl = ctl || hasControl(textStr(t))
		zeroWidth = zeroWidth || wcwidth.Of(textStr(t)) == 0
	}
	// All applicable input classes, joined by "|" (every predicate is evaluated
	// on the input independently, so that a recorded class is never hidden by
	// another trait of the same input).
	classes := []string{"listbox-vertical"}
	if horizontal {
		classes = []string{"listbox-horizontal"}
	}
	if ctl {
		classes = append(classes, "listbox-ctl") // known: control characters are 0 wide for wcwidth, 2 on screen
	}
	if horizontal && n > 0 && (sel < 0 || sel >= n) {
		classes = append(classes, "listbox-horizontal-selection-out-of-range")
	}
	if extend && ((horizontal && (padding >= 1 || zeroWidth)) || width <= padding+1) {
		// ExtendStyle with possibly no room for the right spacing: a column as
		// wide as the padding (cropped last column, tiny width) or of zero width
		classes = append(classes, "listbox-extendstyle-empty-spacing")
	}
	if !horizontal && multiline && totalLines > height {
		classes = append(classes, "listbox-vertical-multiline-overflow")
	}
	class := strings.Join(classes, "|")
	in := fmt.Sprintf("horizontal=%v padding=%d extend=%v selected=%d first=%d items=%s", horizontal, padding, extend, sel, first, strings.Join(shown, ","))
	renderWidget(c, "ListBox", "WListBox", class, in, width, height, func() *term.Buffer { return w.Render(width, height) })
}

func textViewWidget(c *reg.Ctx) {
	n := c.Rand.Intn(10)
	lines := make([]string, n)
	for i := range lines {
		lines[i] = genLineStr(c, false)
	}
	first := 0
	if n > 0 {
		first = c.Rand.Intn(n)
	}
	scrollable := c.Rand.Intn(2) == 0
	width, height := genSize(c)
	w := tk.NewTextView(tk.TextViewSpec{Scrollable: scrollable, State: tk.TextViewState{Lines: lines, First: first}})
	in := fmt.Sprintf("scrollable=%v first=%d lines=%q", scrollable, first, lines)
	class := "textview"
	if hasControl(strings.Join(lines, "")) {
		class = "textview|textview-ctl"
	}
	renderWidget(c, "TextView", "WTextView", class, in, width, height, func() *term.Buffer { return w.Render(width, height) })
}

func labelWidget(c *reg.Ctx) {
	t := genText(c, 4, true)
	width, height := genSize(c)
	renderWidget(c, "Label", "WLabel", "label", showText(t), width, height, func() *term.Buffer { return tk.Label{Content: t}.Render(width, height) })
}

func fixed(c *reg.Ctx) {
	// the reproduced list box defect: a multi-line item crossing the bottom edge
	its := items{ui.T("a\nb"), ui.T("c\nd\ne\nf\ng"), ui.T("h")}
	w := tk.NewListBox(tk.ListBoxSpec{State: tk.ListBoxState{Items: its, Selected: 0}})
	renderWidget(c, "ListBox", "WListBox", "listbox-vertical-multiline-overflow", `items="a\nb","c\nd\ne\nf\ng","h" selected=0`, 10, 3,
		func() *term.Buffer { return w.Render(10, 3) })
	// ExtendStyle with no room for the right spacing (content width == padding)
	its2 := items{ui.T("x"), ui.T("x"), ui.T("x"), ui.T(" a ba "), ui.T("x")}
	w2 := tk.NewListBox(tk.ListBoxSpec{Padding: 1, ExtendStyle: true, State: tk.ListBoxState{Items: its2, Selected: 2}})
	renderWidget(c, "ListBox", "WListBox", "listbox-extendstyle-empty-spacing", `padding=1 extend=true items=x,x,x," a ba ",x selected=2`, 2, 3,
		func() *term.Buffer { return w2.Render(2, 3) })
	// horizontal layout with the selection out of range
	its3 := items{ui.T("x"), ui.T("x"), ui.T("aa文a中")}
	w3 := tk.NewListBox(tk.ListBoxSpec{Horizontal: true, Padding: 1, State: tk.ListBoxState{Items: its3, Selected: -1}})
	renderWidget(c, "ListBox", "WListBox", "listbox-horizontal-selection-out-of-range", `horizontal=true padding=1 items=x,x,"aa文a中" selected=-1`, 3, 1,
		func() *term.Buffer { return w3.Render(3, 1) })
}

func run(c *reg.Ctx) {
	fixed(c)
	ofRuneCases(c)
	for i := 0; i < c.N; i++ {
		switch c.Rand.Intn(12) {
		case 0, 1, 2, 3, 4:
			trimForce(c)
		case 5, 6, 7:
			viewCase(c)
		case 8:
			codeAreaWidget(c)
		case 9:
			listBoxWidget(c)
		case 10:
			textViewWidget(c)
		default:
			labelWidget(c)
		}
	}
}
