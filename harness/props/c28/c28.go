// Package c28: editor buffer commands and code-area key handling
// (pkg/edit/buffer_builtins.go, pkg/cli/tk/codearea.go).
//
// Every case is one history: an initial buffer, a configuration (abbreviation
// tables, paste quoting) and a sequence of events (buffer builtins applied the
// way pkg/edit applies them, through MutateState on a real tk.CodeArea; key
// events; bracketed-paste brackets; outside replacements of the buffer).  The
// buffer content and dot are observed after every event.
package c28

import (
	"fmt"
	"sort"
	"strings"
	"unicode"
	"unicode/utf8"

	"src.elv.sh/pkg/cli/term"
	"src.elv.sh/pkg/cli/tk"
	"src.elv.sh/pkg/edit"
	"src.elv.sh/pkg/ui"
	"src.elv.sh/pkg/wcwidth"
	. "verifharness/coqfmt"
	"verifharness/reg"
)

func init() {
	reg.Register(&reg.Spec{ID: "C28",
		Imports: "From verif Require Import lib.Base model.C28.",
		Judge:   "C28.judge", Shard: 24, Run: run})
}

// builtin name -> Coq constructor of model.C28.cmd
var cmdCoq = map[string]string{
	"move-dot-left": "MoveLeft", "move-dot-right": "MoveRight",
	"move-dot-left-word": "(MoveLeftW FWord)", "move-dot-right-word": "(MoveRightW FWord)",
	"move-dot-left-small-word": "(MoveLeftW FSmall)", "move-dot-right-small-word": "(MoveRightW FSmall)",
	"move-dot-left-alnum-word": "(MoveLeftW FAlnum)", "move-dot-right-alnum-word": "(MoveRightW FAlnum)",
	"move-dot-sol": "MoveSOL", "move-dot-eol": "MoveEOL", "move-dot-up": "MoveUp", "move-dot-down": "MoveDown",
	"kill-rune-left": "KillRuneLeft", "kill-rune-right": "KillRuneRight",
	"kill-word-left": "(KillWLeft FWord)", "kill-word-right": "(KillWRight FWord)",
	"kill-small-word-left": "(KillWLeft FSmall)", "kill-small-word-right": "(KillWRight FSmall)",
	"kill-alnum-word-left": "(KillWLeft FAlnum)", "kill-alnum-word-right": "(KillWRight FAlnum)",
	"kill-line-left": "KillLineLeft", "kill-line-right": "KillLineRight",
	"transpose-rune": "TransposeRune", "transpose-word": "(TransposeW FWord)",
	"transpose-small-word": "(TransposeW FSmall)", "transpose-alnum-word": "(TransposeW FAlnum)",
}

// kill builtin -> the move builtin whose target it deletes up to
var killMover = map[string]string{
	"kill-rune-left": "move-dot-left", "kill-rune-right": "move-dot-right",
	"kill-word-left": "move-dot-left-word", "kill-word-right": "move-dot-right-word",
	"kill-small-word-left": "move-dot-left-small-word", "kill-small-word-right": "move-dot-right-small-word",
	"kill-alnum-word-left": "move-dot-left-alnum-word", "kill-alnum-word-right": "move-dot-right-alnum-word",
	"kill-line-left": "move-dot-sol", "kill-line-right": "move-dot-eol",
}

var cmdNames []string

func init() {
	for n := range cmdCoq {
		cmdNames = append(cmdNames, n)
	}
	sort.Strings(cmdNames)
}

type abbr struct{ A, F string }

type config struct {
	Simple, Command, SmallWord []abbr
	Quote                      bool
}

// event kinds
type event struct {
	Kind  string `json:"k"` // key | paste | cmd | set
	Rune  rune   `json:"r,omitempty"`
	Mod   int    `json:"m,omitempty"`
	Start bool   `json:"s,omitempty"`
	Cmd   string `json:"c,omitempty"`
	Text  string `json:"t,omitempty"`
	Dot   int    `json:"d,omitempty"`
}

type observed struct {
	Content string `json:"c"`
	Dot     int    `json:"d"`
	Aux     int    `json:"a,omitempty"`
}

type desc struct {
	Init   string     `json:"init"`
	Dot    int        `json:"dot"`
	Cfg    config     `json:"cfg"`
	Events []event    `json:"events"`
	Obs    []observed `json:"obs"`
	Panic  string     `json:"panic,omitempty"`
}

func runesOf(s string) string { return Runes([]rune(s)) }

func abbrsCoq(l []abbr) string {
	items := make([]string, len(l))
	for i, a := range l {
		items[i] = Pair(runesOf(a.A), runesOf(a.F))
	}
	return List(items)
}

func (e event) coq() string {
	switch e.Kind {
	case "key":
		return App("EKey", Z(int64(e.Rune)), Z(int64(e.Mod)))
	case "paste":
		return App("EPaste", Bool(e.Start))
	case "cmd":
		return App("ECmd", cmdCoq[e.Cmd])
	default:
		return App("ESet", runesOf(e.Text), Nat(utf8.RuneCountInString(e.Text[:e.Dot])))
	}
}

// history runs one history on a real CodeArea and emits the case.
func history(c *reg.Ctx, gen string, init string, dot int, cfg config, evs []event) {
	builtins := edit.VerifC28BufferBuiltins()
	each := func(l []abbr) func(func(a, f string)) {
		return func(f func(a, f string)) {
			for _, p := range l {
				f(p.A, p.F)
			}
		}
	}
	ca := tk.NewCodeArea(tk.CodeAreaSpec{
		SimpleAbbreviations:    each(cfg.Simple),
		CommandAbbreviations:   each(cfg.Command),
		SmallWordAbbreviations: each(cfg.SmallWord),
		QuotePaste:             func() bool { return cfg.Quote },
		State:                  tk.CodeAreaState{Buffer: tk.CodeBuffer{Content: init, Dot: dot}},
	})
	runeSet := map[rune]bool{}
	note := func(s string) {
		for _, r := range s {
			runeSet[r] = true
		}
	}
	note(init)
	for _, l := range [][]abbr{cfg.Simple, cfg.Command, cfg.SmallWord} {
		for _, p := range l {
			note(p.A)
			note(p.F)
		}
	}
	var obs []observed
	var steps []string
	panicked := ""
	changed := 0
	nonASCII := false
	for i, e := range evs {
		before := ca.CopyState().Buffer
		aux := 0
		func() {
			defer func() {
				if r := recover(); r != nil {
					panicked = fmt.Sprintf("panic at event %d (%+v) on %q dot %d: %v", i, e, before.Content, before.Dot, r)
				}
			}()
			switch e.Kind {
			case "key":
				if e.Rune >= 0 {
					runeSet[e.Rune] = true
				}
				ca.Handle(term.KeyEvent{Rune: e.Rune, Mod: ui.Mod(e.Mod)})
			case "paste":
				ca.Handle(term.PasteSetting(e.Start))
			case "cmd":
				fn := builtins[e.Cmd]
				if fn == nil {
					panic("builtin " + e.Cmd + " is missing from bufferBuiltinsData")
				}
				if mv, ok := killMover[e.Cmd]; ok {
					b := before
					builtins[mv](&b)
					aux = b.Dot
				}
				// the way pkg/edit/buffer_builtins.go:initBufferBuiltins applies it
				ca.MutateState(func(s *tk.CodeAreaState) { fn(&s.Buffer) })
			case "set":
				note(e.Text)
				ca.MutateState(func(s *tk.CodeAreaState) { s.Buffer = tk.CodeBuffer{Content: e.Text, Dot: e.Dot} })
			}
		}()
		if panicked != "" {
			break
		}
		after := ca.CopyState().Buffer
		if after != before {
			changed++
		}
		note(after.Content)
		obs = append(obs, observed{after.Content, after.Dot, aux})
		steps = append(steps, Pair(e.coq(), App("mkObs", Str(after.Content), Nat(after.Dot), Nat(aux))))
	}
	// the table of Go's own answers for every rune that occurs
	var rs []rune
	for r := range runeSet {
		rs = append(rs, r)
		if r >= 0x80 {
			nonASCII = true
		}
	}
	sort.Slice(rs, func(i, j int) bool { return rs[i] < rs[j] })
	tab := make([]string, len(rs))
	for i, r := range rs {
		fl := 0
		for bit, f := range []func(rune) bool{unicode.IsSpace, unicode.IsLetter, unicode.IsNumber, unicode.IsMark, unicode.IsGraphic, unicode.IsPrint} {
			if f(r) {
				fl |= 1 << bit
			}
		}
		tab[i] = fmt.Sprintf("(%d%%N, %d%%N, %s)", r, fl, Z(int64(wcwidth.OfRune(r))))
	}
	class := gen
	if nonASCII {
		class += "/wide"
	}
	c.Count(class)
	d := desc{init, dot, cfg, evs, obs, panicked}
	key := fmt.Sprintf("%q/%d/%v/%v", init, dot, cfg, evs)
	if panicked != "" {
		c.Emit(reg.Case{Direct: panicked, Desc: d, Key: key, Nontrivial: true, Class: class})
		return
	}
	coq := App("mkCase", List(tab),
		App("mkCfg", abbrsCoq(cfg.Simple), abbrsCoq(cfg.Command), abbrsCoq(cfg.SmallWord), Bool(cfg.Quote)),
		runesOf(init), Nat(utf8.RuneCountInString(init[:dot])), List(steps))
	c.Emit(reg.Case{Coq: coq, Desc: d, Key: key, Nontrivial: changed >= 3, Class: class})
}

// ---------------------------------------------------------------- generators

var (
	letters  = []rune("abcxZ07éλ٣")
	spaces   = []rune("   \t 　")
	puncts   = []rune("-/.~|;({^'\"$_+,}<*")
	wides    = []rune("中文ｗ😀한")
	combs    = []rune{0x0301, 0x0308, 0x200b}
	triggers = []rune(" -/.;|x中  ")
)

func pick(c *reg.Ctx, l []rune) rune { return l[c.Rand.Intn(len(l))] }

// profile: relative weights of letters, spaces, punctuation, wide, combining, newline
type profile struct {
	name               string
	l, s, p, w, cb, nl int
}

var profiles = []profile{
	{"ascii-words", 6, 4, 2, 0, 0, 1},
	{"wide", 3, 3, 1, 5, 2, 2},
	{"lines", 3, 2, 1, 2, 1, 5},
	{"punct", 3, 3, 6, 1, 0, 1},
	{"spaces", 2, 8, 1, 1, 0, 1},
	{"mixed", 3, 3, 3, 3, 1, 2},
}

func genText(c *reg.Ctx, p profile, maxTokens int) string {
	var sb strings.Builder
	total := p.l + p.s + p.p + p.w + p.cb + p.nl
	n := c.Rand.Intn(maxTokens + 1)
	for i := 0; i < n; i++ {
		k := c.Rand.Intn(total)
		run := 1 + c.Rand.Intn(3)
		var set []rune
		switch {
		case k < p.l:
			set = letters
		case k < p.l+p.s:
			set = spaces
		case k < p.l+p.s+p.p:
			set = puncts
		case k < p.l+p.s+p.p+p.w:
			set = wides
		case k < p.l+p.s+p.p+p.w+p.cb:
			set, run = combs, 1
		default:
			set, run = []rune{'\n'}, 1+c.Rand.Intn(2)
		}
		for j := 0; j < run; j++ {
			sb.WriteRune(pick(c, set))
		}
	}
	return sb.String()
}

// a dot on a rune boundary of s
func genDot(c *reg.Ctx, s string) int {
	n := utf8.RuneCountInString(s)
	k := c.Rand.Intn(n + 1)
	switch c.Rand.Intn(6) {
	case 0:
		k = 0
	case 1:
		k = n
	}
	return len(string([]rune(s)[:k]))
}

var simplePool = []abbr{{"xx", "expanded text"}, {"é", "e-acute"}, {"中", "zhong"}, {"ab", ""}, {"||", " or "},
	{"bab", "B"}, {"~h", "/home/ü"}, {"7", "seven 中"}, {"a ", "A"}}
var commandPool = []abbr{{"l", "ls -l"}, {"gc", "git commit"}, {"é", "echo 文"}, {"x7", "中"}, {"a/b", "ab"}, {"ls", ""}}
var smallWordPool = []abbr{{"gcm", "git checkout master"}, {"h", "hello"}, {"中文", "cn"}, {"->", "arrow"},
	{"eh", "é-h"}, {"7", "٣"}, {"λ", "lambda"}, {"a-b", "x"}}

func genAbbrs(c *reg.Ctx, pool []abbr) []abbr {
	var out []abbr
	if c.Rand.Intn(12) == 0 {
		return nil
	}
	perm := c.Rand.Perm(len(pool))
	n := 1 + c.Rand.Intn(len(pool))
	for _, i := range perm[:n] {
		out = append(out, pool[i])
	}
	return out
}

func key(r rune) event           { return event{Kind: "key", Rune: r} }
func keym(r rune, m int) event   { return event{Kind: "key", Rune: r, Mod: m} }
func cmd(n string) event         { return event{Kind: "cmd", Cmd: n} }
func setb(s string, d int) event { return event{Kind: "set", Text: s, Dot: d} }

func typed(s string) []event {
	var out []event
	for _, r := range s {
		out = append(out, key(r))
	}
	return out
}

// all configured abbreviations of the three kinds
func allAbbrs(cfg config) []abbr {
	var l []abbr
	l = append(l, cfg.Simple...)
	l = append(l, cfg.Simple...) // simple ones twice: they fire anywhere
	l = append(l, cfg.SmallWord...)
	l = append(l, cfg.Command...)
	return l
}

// abbrText: text made of the configured abbreviations' own runes: a prefix, a full
// abbreviation, a near miss (one rune replaced / doubled / dropped), sometimes followed by a trigger.
func abbrText(c *reg.Ctx, cfg config) string {
	l := allAbbrs(cfg)
	if len(l) == 0 {
		return string(pick(c, letters))
	}
	ar := []rune(l[c.Rand.Intn(len(l))].A)
	var out []rune
	switch c.Rand.Intn(5) {
	case 0: // proper prefix
		out = ar[:c.Rand.Intn(len(ar))]
	case 1, 2: // the abbreviation
		out = ar
	case 3: // one rune replaced by a rune of another abbreviation (or doubled)
		out = append([]rune{}, ar...)
		other := []rune(l[c.Rand.Intn(len(l))].A)
		i := c.Rand.Intn(len(out))
		if c.Rand.Intn(3) == 0 {
			out = append(out[:i+1], out[i:]...)
		} else {
			out[i] = other[c.Rand.Intn(len(other))]
		}
	default: // one rune dropped
		i := c.Rand.Intn(len(ar))
		out = append(append([]rune{}, ar[:i]...), ar[i+1:]...)
	}
	if c.Rand.Intn(4) == 0 {
		out = append(out, pick(c, triggers))
	}
	return string(out)
}

// external commands for the planted pattern: moves, kills, transposes, vertical motions
var externals = []string{"move-dot-left", "move-dot-left", "move-dot-right", "move-dot-sol", "move-dot-eol", "move-dot-left-word",
	"move-dot-left-small-word", "move-dot-up", "move-dot-down", "kill-rune-left", "kill-rune-right", "kill-word-left",
	"kill-small-word-left", "kill-line-left", "transpose-rune", "transpose-word", "transpose-small-word", "transpose-alnum-word"}

func backspaceKey(c *reg.Ctx) event {
	if c.Rand.Intn(4) == 0 {
		return keym('H', int(ui.Ctrl))
	}
	return key(ui.Backspace)
}

// planted: [multi-byte context] · prefix of an abbreviation (+ extra runes) typed · external
// command through MutateState · Backspace · rest of the abbreviation typed [· trigger], with the
// external command before, after, or on both sides of the Backspace.
func planted(c *reg.Ctx, cfg config) []event {
	l := allAbbrs(cfg)
	if len(l) == 0 {
		return []event{backspaceKey(c)}
	}
	ar := []rune(l[c.Rand.Intn(len(l))].A)
	var evs []event
	switch c.Rand.Intn(4) {
	case 0:
		evs = append(evs, typed(string(pick(c, wides)))...)
	case 1:
		evs = append(evs, typed("é"+string(pick(c, spaces)))...)
	}
	cut := c.Rand.Intn(len(ar)) // the rest is never empty
	evs = append(evs, typed(string(ar[:cut]))...)
	extra := 1 + c.Rand.Intn(2) // the runes that Backspace will remove (or not)
	for i := 0; i < extra; i++ {
		if c.Rand.Intn(2) == 0 {
			evs = append(evs, key(ar[c.Rand.Intn(len(ar))]))
		} else {
			evs = append(evs, key(pick(c, letters)))
		}
	}
	ext := func() event { return cmd(externals[c.Rand.Intn(len(externals))]) }
	switch c.Rand.Intn(6) {
	case 0, 1, 2:
		evs = append(evs, ext(), backspaceKey(c))
	case 3:
		evs = append(evs, backspaceKey(c), ext())
	case 4:
		evs = append(evs, ext(), backspaceKey(c), ext())
	default:
		evs = append(evs, ext(), ext(), backspaceKey(c))
	}
	if c.Rand.Intn(5) == 0 {
		evs = append(evs, backspaceKey(c))
	}
	evs = append(evs, typed(string(ar[cut:]))...)
	if c.Rand.Intn(2) == 0 {
		evs = append(evs, key(pick(c, triggers)))
	}
	return evs
}

func genEvents(c *reg.Ctx, p profile, cfg config, n int) []event {
	var evs []event
	for len(evs) < n {
		switch k := c.Rand.Intn(100); {
		case k < 28:
			if c.Rand.Intn(6) == 0 { // vertical motions need several lines; give them their share
				evs = append(evs, cmd([]string{"move-dot-up", "move-dot-down"}[c.Rand.Intn(2)]))
			} else {
				evs = append(evs, cmd(cmdNames[c.Rand.Intn(len(cmdNames))]))
			}
		case k < 36: // type a little text
			evs = append(evs, typed(genText(c, p, 2))...)
		case k < 50: // type runes of the configured abbreviations: prefixes, full abbreviations, near misses
			evs = append(evs, typed(abbrText(c, cfg))...)
		case k < 62: // prefix typed, external move/edit, Backspace, rest typed (and variants)
			evs = append(evs, planted(c, cfg)...)
		case k < 67:
			evs = append(evs, key(ui.Backspace))
		case k < 69:
			evs = append(evs, keym('H', int(ui.Ctrl)))
		case k < 70:
			evs = append(evs, key('\n'))
		case k < 74: // keys that are not inserted
			opts := []event{key(ui.Left), key(ui.F1), keym('a', int(ui.Alt)), keym('H', int(ui.Alt)), keym('H', int(ui.Ctrl|ui.Alt)),
				keym(ui.Backspace, int(ui.Ctrl)), key('\t'), key(1), key(0x200b), key(0xd800), key(0x110000), key(0xfffd), key(0)}
			evs = append(evs, opts[c.Rand.Intn(len(opts))])
		case k < 81: // a bracketed paste
			if c.Rand.Intn(8) != 0 {
				evs = append(evs, event{Kind: "paste", Start: true})
			}
			body := genText(c, p, 3)
			switch c.Rand.Intn(8) {
			case 0:
				body += "it's"
			case 1:
				body = "~" + body
			case 2:
				body += "\x1b[1m\x00\x7f"
			case 3:
				body += "a\\\"b"
			}
			evs = append(evs, typed(body)...)
			if c.Rand.Intn(6) == 0 {
				opts := []event{key(ui.Backspace), keym('H', int(ui.Ctrl)), key(ui.F1), key(0xd800), key(0x110000), key(0xfffd), key('\n'), key(0x85), key(0xe000)}
				evs = append(evs, opts[c.Rand.Intn(len(opts))])
			}
			if c.Rand.Intn(5) == 0 {
				evs = append(evs, cmd(cmdNames[c.Rand.Intn(len(cmdNames))]))
			}
			if c.Rand.Intn(8) != 0 {
				evs = append(evs, event{Kind: "paste", Start: false})
			}
		case k < 84: // outside replacement of the buffer
			s := genText(c, p, 6)
			evs = append(evs, setb(s, genDot(c, s)))
		case k < 92: // type an abbreviation and a trigger
			var pool []abbr
			switch c.Rand.Intn(3) {
			case 0:
				pool = cfg.Simple
			case 1:
				pool = cfg.SmallWord
			default:
				pool = cfg.Command
			}
			if len(pool) == 0 {
				continue
			}
			a := pool[c.Rand.Intn(len(pool))]
			if c.Rand.Intn(3) == 0 {
				evs = append(evs, cmd("move-dot-eol"))
			}
			if c.Rand.Intn(3) == 0 {
				evs = append(evs, key(pick(c, triggers)))
			}
			ar := []rune(a.A)
			cut := c.Rand.Intn(len(ar) + 1)
			evs = append(evs, typed(string(ar[:cut]))...)
			switch c.Rand.Intn(6) {
			case 0: // interrupt the insertion and come back to the same state
				evs = append(evs, cmd("move-dot-left"), cmd("move-dot-right"))
			case 1: // interrupt it for good: the rest is typed somewhere else
				evs = append(evs, cmd([]string{"move-dot-left", "move-dot-sol", "move-dot-left-word", "kill-rune-left", "transpose-rune"}[c.Rand.Intn(5)]))
			}
			evs = append(evs, typed(string(ar[cut:]))...)
			evs = append(evs, key(pick(c, triggers)))
		default: // a command position at the end of the buffer, then a command abbreviation
			if len(cfg.Command) == 0 {
				continue
			}
			a := cfg.Command[c.Rand.Intn(len(cfg.Command))]
			pre := []string{"", "\n", "a\n", "^\n", "|", "| ", ";", "; \t", "{ ", "{", "{\n", "(", "( ", "^", "a ", "^\n\n", " \n", "中\n", "^ \n ", "x\t\n  "}[c.Rand.Intn(20)]
			if c.Rand.Intn(2) == 0 {
				evs = append(evs, setb(pre, len(pre)))
			} else {
				evs = append(evs, cmd("move-dot-eol"))
				for _, r := range pre { // typed where possible, otherwise pasted
					if unicode.IsGraphic(r) {
						evs = append(evs, key(r))
					} else {
						evs = append(evs, event{Kind: "paste", Start: true}, key(r), event{Kind: "paste", Start: false})
					}
				}
			}
			evs = append(evs, typed(a.A)...)
			evs = append(evs, key(' '))
		}
	}
	return evs
}

func run(c *reg.Ctx) {
	noCfg := config{}
	// 1. exhaustive: every buffer up to length L over a 5-rune alphabet, every dot,
	// every builtin, packed as set/cmd pairs
	alpha := []rune{'a', ' ', '中', '\n'}
	L := 2
	if c.Tier == "thorough" {
		alpha = append(alpha, '-')
		L = 3
	}
	bufs := []string{""}
	for l, frontier := 0, []string{""}; l < L; l++ {
		var next []string
		for _, s := range frontier {
			for _, r := range alpha {
				next = append(next, s+string(r))
			}
		}
		bufs = append(bufs, next...)
		frontier = next
	}
	var evs []event
	flush := func() {
		if len(evs) > 0 {
			history(c, "exhaustive", "", 0, noCfg, evs)
			evs = nil
		}
	}
	for _, s := range bufs {
		for d := 0; d <= len(s); d++ {
			if d < len(s) && !utf8.RuneStart(s[d]) {
				continue
			}
			for _, n := range cmdNames {
				evs = append(evs, setb(s, d), cmd(n))
				if len(evs) >= 120 {
					flush()
				}
			}
		}
	}
	flush()
	// 2. fixed histories around the special cases of the code
	dnCfg := config{Simple: []abbr{{"dn", "/dev/null"}}, Command: []abbr{{"ls", "ls -l"}},
		SmallWord: []abbr{{"gcm", "git checkout master"}}}
	fixed := []struct {
		init string
		dot  int
		cfg  config
		evs  []event
	}{
		{"", 0, config{Simple: []abbr{{"xx", "full"}}}, append(typed("axx"), cmd("transpose-rune"))},
		{"", 0, config{Command: []abbr{{"l", "ls -l"}}}, typed("l ")},
		{"echo |", 6, config{Command: []abbr{{"l", "ls -l"}}}, typed(" l ")},
		{"^\n", 2, config{Command: []abbr{{"l", "ls -l"}}}, typed("l ")},
		{"", 0, config{SmallWord: []abbr{{"gcm", "git checkout master"}}}, typed("echo gcm ")},
		{"", 0, config{SmallWord: []abbr{{"gcm", "git checkout master"}}}, typed("xgcm ")},
		{"中文 ab", 3, noCfg, []event{cmd("transpose-word"), cmd("move-dot-up"), cmd("kill-word-left")}},
		{"ab\n中文中\nabcdef", 15, noCfg, []event{cmd("move-dot-up"), cmd("move-dot-up"), cmd("move-dot-down"), cmd("move-dot-down")}},
		{"a", 1, config{Quote: true}, []event{{Kind: "paste", Start: true}, key('i'), key('\''), key('s'), {Kind: "paste", Start: false},
			{Kind: "paste", Start: false}, {Kind: "paste", Start: true}, key(7), key(0x110000), key(0x80), key(0x1f600), {Kind: "paste", Start: false}}},
		// prefix typed · external move/edit · Backspace · rest typed, with dn -> /dev/null
		{"", 0, dnCfg, []event{key('d'), key('x'), cmd("move-dot-left"), key(ui.Backspace), key('n')}},
		{"世", 3, dnCfg, []event{key('d'), key('x'), cmd("move-dot-left"), cmd("move-dot-left"), key(ui.Backspace), key('n')}},
		{"世", 3, dnCfg, []event{key('d'), key('x'), cmd("move-dot-left"), key(ui.Backspace), key('n'), key(' ')}},
		{"", 0, dnCfg, []event{key('d'), key('x'), cmd("kill-rune-left"), key(ui.Backspace), key('n')}},
		{"", 0, dnCfg, []event{key('d'), key('x'), cmd("transpose-rune"), keym('H', int(ui.Ctrl)), key('n')}},
		{"a 世", 5, dnCfg, []event{key('d'), key('x'), cmd("transpose-word"), key(ui.Backspace), key('n')}},
		{"世\nab", 6, dnCfg, []event{key('d'), key('x'), cmd("move-dot-up"), key(ui.Backspace), key('n')}},
		{"ab\n世", 2, dnCfg, []event{key('d'), key('x'), cmd("move-dot-down"), key(ui.Backspace), key('n')}},
		{"世界", 6, dnCfg, []event{key('d'), key('x'), cmd("kill-word-left"), key(ui.Backspace), key('n')}},
		{"世", 3, dnCfg, []event{key('d'), key('x'), key(ui.Backspace), cmd("move-dot-left"), key('n')}},
		{"世", 3, dnCfg, []event{key('d'), key('x'), cmd("move-dot-sol"), key(ui.Backspace), cmd("move-dot-eol"), key('n')}},
		{"世", 3, dnCfg, []event{key('d'), key('x'), key('y'), cmd("move-dot-left"), key(ui.Backspace), key(ui.Backspace), key('n')}},
		{"x 世", 5, dnCfg, []event{key(' '), key('g'), key('c'), key('x'), cmd("move-dot-left-word"), key(ui.Backspace), key('m'), key(' ')}},
		{"世", 3, dnCfg, []event{key('d'), key('x'), {Kind: "paste", Start: true}, key('世'), {Kind: "paste", Start: false}, cmd("move-dot-left"), key(ui.Backspace), key('n')}},
		{"世;", 4, dnCfg, []event{key('l'), key('x'), cmd("move-dot-left"), key(ui.Backspace), key('s'), key(' ')}},
	}
	for _, f := range fixed {
		history(c, "fixed", f.init, f.dot, f.cfg, f.evs)
	}
	// 3. random histories
	for i := 0; i < c.N; i++ {
		p := profiles[c.Rand.Intn(len(profiles))]
		init := ""
		if c.Rand.Intn(5) != 0 {
			init = genText(c, p, 10)
		}
		cfg := config{genAbbrs(c, simplePool), genAbbrs(c, commandPool), genAbbrs(c, smallWordPool), c.Rand.Intn(2) == 0}
		n := 40
		if c.Rand.Intn(10) == 0 {
			n = 100
		}
		history(c, p.name, init, genDot(c, init), cfg, genEvents(c, p, cfg, n))
	}
}
