// Package c02: errors in prefixes of valid programs are partial, and the
// editor's Enter decision (isSyntaxComplete) agrees. For a program the runner
// observes parse.Parse and edit.isSyntaxComplete on every proper prefix cut at
// a rune boundary; the oracle check_C02 and the comparison with the parser
// model run inside Coq.
package c02

import (
	"fmt"
	"unicode/utf8"

	"src.elv.sh/pkg/edit"
	. "verifharness/coqfmt"
	"verifharness/props/c01"
	"verifharness/reg"
)

func init() {
	reg.Register(&reg.Spec{ID: "C02",
		Imports: "From verif Require Import lib.Base model.C01_Parse model.C02.",
		Judge:   "C02.judge", Shard: 30, Run: run})
}

// Fixed are hand-written valid programs exercising every construct.
var Fixed = []string{
	"echo a", "a|b", "a |\n b", "a &", "a;b\nc", "echo 'it''s' \"x\\ty\"", "put \"\\x41\\u00e9\\U0001F600\\101\\c@\\^?\\e\\\\\\\"\"",
	"put $x $@y $x[0] $'q r' $\"d\" $x:y~", "put * ** ? a*b ~ ~/x", "put (a) ?(b) (a;b)", "put [a b] [] [&] [&k=v] [&k=v &l=[x]]",
	"put [a\n b]", "{ a }", "{\n a\n}", "{|x| a }", "{|x @r &o=v| put $x }", "put {a,b} {a, b} {a}{b} a{b,c}d", "put $x[0][1..] a[b c]",
	"a >f", "a 2>f <g >>h <>i", "a 2>&1 >&2", "a > f", "a &k=v &l=", "a &k= v", "a # c\nb", "# only\n", "a ^\n b", "a ^\r\n b",
	"echo é 中 $é", "x = y", "a=b c", "fn f {|a| put $a }\nf 1 | each {|x| echo $x }", "if $t { a } else { b }",
	"put [&a=[&b=c]][a][b]", "a <b", "a<b", "e:ls -l --color=auto", "put 'x'\"y\"$z(w)[v]{u}", "a\r\nb", "a;;b", " a ", "\n\na\n\n",
	"var x = [(put a) ?(fail)]", "put \"a\nb\" 'c\nd'",
	// every escape form with values across its range; all cuts inside an escape
	`echo "\U000D8000"`, `echo "\U000DFFFF"`, `echo "\U0010FFFF"`, `echo "\U00000000"`, `echo "\U000dbcde"`,
	`echo "\uD7FF\uE000\uFFFF\u0000"`, `echo "\udabc"`, `echo "\x00\xFF\x7f\xaB"`, `echo "\000\377\177\012"`,
	`echo "\c?\c@\c_\^?\^@\^_\cA"`, `echo "\a\b\f\n\r\t\v\e\\\""`, `put $"\U000D8000"`, `put a"\U000DABCD"b`,
	// cuts inside the other multi-character tokens
	"put $ns:var: $e:x~ $@rest $x[0][1]", "cmd &key=val &k2= &k3=[a]", "cmd >&2 2>&1 <>f >>g 3<h", "a # comment text\nb # more",
	"a ^\n b ^\r\n c", "put ?(x) (y) [z] [&k=v] {a,b} { w } {|p| q }", "put a[1][2] $m[k][l]", "e:cmd ~/p ~u/q **/*.go ??",
}

type pdesc struct {
	Len      int    `json:"len"`
	Errors   string `json:"errors"`
	Complete bool   `json:"complete"`
}

type desc struct {
	Src      string  `json:"src"`
	Stream   string  `json:"stream"`
	Full     string  `json:"full_errors"`
	Prefixes []pdesc `json:"prefixes_with_errors"`
}

type runner struct {
	c    *reg.Ctx
	seen map[string]bool
	dead bool // a parse did not return or panicked: stop generating
}

func (rn *runner) emit(stream, s string) bool {
	if rn.seen[s] || rn.dead {
		return false
	}
	rn.seen[s] = true
	c := rn.c
	_, full, bad := c01.SafeParse(s)
	if bad != "" {
		rn.dead = true
		c.Emit(reg.Case{Desc: desc{Src: s, Stream: stream}, Key: fmt.Sprintf("%q", s), Nontrivial: true, Class: "crash", Direct: bad})
		return false
	}
	valid := len(full) == 0
	d := desc{Src: s, Stream: stream, Full: c01.ErrsText(full)}
	var obs []string
	// every proper prefix cut where a rune of the text starts (the positions a
	// Go range loop visits; for valid UTF-8 these are the character boundaries)
	for i := range s {
		if i == 0 {
			continue
		}
		p := s[:i]
		_, errs, bad := c01.SafeParse(p)
		if bad != "" {
			rn.dead = true
			c.Emit(reg.Case{Desc: desc{Src: p, Stream: stream}, Key: fmt.Sprintf("%q", p), Nontrivial: true, Class: "crash", Direct: bad})
			return false
		}
		complete := edit.VerifIsSyntaxComplete(p)
		obs = append(obs, App("mkPN", N(uint64(i)), c01.Errs(errs), Bool(complete)))
		if len(errs) > 0 {
			d.Prefixes = append(d.Prefixes, pdesc{i, c01.ErrsText(errs), complete})
		}
	}
	class := "valid"
	if !valid {
		class = "invalid"
	}
	if !utf8.ValidString(s) {
		class = "invalid-utf8"
	}
	c.Count(stream + "/" + class)
	c.Emit(reg.Case{
		Coq:        App("mkCase", Str(s), c01.Errs(full), List(obs), c01.PrintTable(s), Bool(len(s) <= c01.CmpLimit)),
		Desc:       d,
		Key:        fmt.Sprintf("%q", s),
		Nontrivial: valid && len(s) >= 8,
		Class:      class,
	})
	return valid
}

func run(c *reg.Ctx) {
	rn := &runner{c: c, seen: map[string]bool{}}
	r := c.Rand
	for _, b := range c.Corpus {
		rn.emit("corpus", string(b))
	}
	for _, s := range Fixed {
		rn.emit("fixed", s)
	}
	// valid programs of the C01 fixed list are welcome too
	for _, s := range c01.Fixed {
		if len(s) <= 60 {
			rn.emit("fixed-c01", s)
		}
	}
	maxLen := 44
	if c.Tier == "thorough" {
		maxLen = 64
	}
	// token fragments whose inside is worth cutting
	frags := []string{"$ns:var:", "$e:f~", "$@r", "&key=val", "&k=", ">&2", "2>&1", "<>f", ">>g", "# c\n", "^\n", "^\r\n", "?(a)", "(a)", "[a]",
		"[&k=v]", "{a,b}", "{ a }", "{|p| q }", "x[1][2]", "'q''r'", "**", "~/p", "a|b", "a;b", "&"}
	for i := 0; i < c.N; i++ {
		if k := r.Intn(10); k < 2 {
			// "escapes": a command with double-quoted strings made of 1-3 escapes
			s := r.Intn(2) == 0
			var sb []byte
			sb = append(sb, "e "...)
			if s {
				sb = append(sb, "$"...)
			}
			sb = append(sb, '"')
			for j := 1 + r.Intn(3); j > 0; j-- {
				sb = append(sb, c01.Escape(r)...)
			}
			sb = append(sb, '"')
			rn.emit("escapes", string(sb))
			continue
		} else if k == 2 {
			s := "c"
			for j := 1 + r.Intn(3); j > 0; j-- {
				s += " " + frags[r.Intn(len(frags))]
			}
			rn.emit("tokens", s)
			continue
		}
		if r.Intn(10) == 0 {
			s := c01.Mutate(r, c01.GenProgram(r, 1))
			if len(s) <= maxLen {
				rn.emit("mutation", s)
			}
			continue
		}
		// grammar stream: valid programs wanted
		for try := 0; try < 20; try++ {
			s := c01.GenProgram(r, 1+r.Intn(2))
			if len(s) > maxLen || len(s) < 2 {
				continue
			}
			if _, errs, _ := c01.SafeParse(s); len(errs) > 0 && try < 19 {
				continue
			}
			rn.emit("grammar", s)
			break
		}
	}
}
