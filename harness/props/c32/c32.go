// Package c32: the editor event loop (pkg/cli/loop.go) handles events serially
// and never loses a redraw.
//
// The real loop (reached through the verif hook pkg/cli/zz_verif_c32.go) is
// driven by concurrent producer goroutines and by requests issued from inside
// its own callbacks. Every environment call (Input/Redraw/Return) is made while
// holding the recorder mutex, and the callbacks append their start/end records
// under the same mutex, so the recorded observable trace is a total order in
// which every request sits at its atomic point relative to the callback
// boundaries. The loop's internal steps (extractRedrawFull, the selects) stay
// unobserved and race freely with the producers; the Coq acceptor places them.
package c32

import (
	"fmt"
	"runtime"
	"strconv"
	"strings"
	"sync"
	"time"

	"src.elv.sh/pkg/cli"
	. "verifharness/coqfmt"
	"verifharness/reg"
)

func init() {
	reg.Register(&reg.Spec{ID: "C32",
		Imports: "From verif Require Import lib.Base model.C32.",
		Judge:   "C32.judge", Shard: 100, Run: run})
}

// watchdog is deliberately generous: the machine may be heavily loaded, and a
// healthy case needs well under a millisecond of CPU.
const watchdog = 180 * time.Second

// One environment action.
type op struct {
	K byte // 'I' input, 'R' redraw, 'T' return
	V int  // event id / 0|1 (full) / return value
	Y int  // Gosched calls before the action
}

func (o op) String() string { return fmt.Sprintf("%c%d", o.K, o.V) }

// MarshalJSON prints an action compactly ("I5", "R1", "T7").
func (o op) MarshalJSON() ([]byte, error) { return []byte(strconv.Quote(o.String())), nil }

type phase struct {
	Producers [][]op `json:"producers"`
}

type scenario struct {
	Name   string       `json:"name"`
	Procs  int          `json:"gomaxprocs"`
	Pre    []op         `json:"pre,omitempty"`    // before Run starts
	Inline map[int][]op `json:"inline,omitempty"` // inside the k-th callback (0-based, all callbacks counted)
	Phases []phase      `json:"phases,omitempty"`
	CbY    []int        `json:"cb_yields,omitempty"` // Gosched calls inside callbacks, cycled
	Final  int          `json:"final_return"`        // Return issued at the end so that Run terminates
}

type recorder struct {
	mu      sync.Mutex
	obs     []string // Coq terms
	txt     []string // compact text
	incb    bool
	lastEnd byte // 'r' redraw end, 'h' handle end, 'f' final end
	ncb     int
	skipped int
	done    bool
}

func (r *recorder) add(coq, txt string) {
	r.obs = append(r.obs, coq)
	r.txt = append(r.txt, txt)
}

type desc struct {
	Scenario scenario `json:"scenario"`
	Trace    string   `json:"trace"`
	Note     string   `json:"note,omitempty"`
}

// do performs one environment action at its atomic point in the recorded order.
func do(lp *cli.VerifC32Loop, r *recorder, o op) {
	for i := 0; i < o.Y; i++ {
		runtime.Gosched()
	}
	r.mu.Lock()
	defer r.mu.Unlock()
	switch o.K {
	case 'I':
		// Input blocks on a full buffer; the model says the same (no step). The
		// harness never issues a blocking Input: it would hold the recorder.
		if in, _, _ := lp.Pending(); in >= cli.VerifC32InputChSize {
			r.skipped++
			return
		}
		r.add(App("EInput", N(uint64(o.V))), fmt.Sprintf("I%d", o.V))
		lp.Input(o.V)
	case 'R':
		r.add(App("ERedraw", Bool(o.V != 0)), fmt.Sprintf("R%d", o.V))
		lp.Redraw(o.V != 0)
	case 'T':
		r.add(App("EReturn", N(uint64(o.V))), fmt.Sprintf("T%d", o.V))
		lp.Return(strconv.Itoa(o.V), nil)
	}
}

// execute runs one scenario against a fresh loop. direct != "" reports a hang.
func execute(sc scenario) (r *recorder, direct string) {
	old := runtime.GOMAXPROCS(sc.Procs)
	defer runtime.GOMAXPROCS(old)
	lp := cli.VerifC32NewLoop()
	r = &recorder{}
	cbEnter := func(coq, txt string) int {
		r.mu.Lock()
		r.add(coq, txt)
		r.incb = true
		k := r.ncb
		r.ncb++
		r.mu.Unlock()
		return k
	}
	cbBody := func(k int) {
		if len(sc.CbY) > 0 {
			for i := 0; i < sc.CbY[k%len(sc.CbY)]; i++ {
				runtime.Gosched()
			}
		}
		for _, o := range sc.Inline[k] {
			do(lp, r, o)
		}
	}
	cbLeave := func(coq, txt string, kind byte) {
		r.mu.Lock()
		r.add(coq, txt)
		r.incb = false
		r.lastEnd = kind
		r.mu.Unlock()
	}
	lp.HandleCb(func(ev any) {
		id, _ := ev.(int)
		k := cbEnter(App("CHandleStart", N(uint64(id))), fmt.Sprintf("hs%d", id))
		cbBody(k)
		cbLeave("CHandleEnd", "he", 'h')
	})
	lp.RedrawCb(func(flag uint) {
		f := flag&cli.VerifC32FullRedraw != 0
		rest := flag &^ (cli.VerifC32FullRedraw | cli.VerifC32FinalRedraw)
		fs := 0
		if f {
			fs = 1
		}
		if rest != 0 {
			fs = int(flag) + 100 // unknown bits: no model label matches; shows in the trace text
		}
		if flag&cli.VerifC32FinalRedraw != 0 {
			k := cbEnter(App("CFinalStart", Bool(f)), fmt.Sprintf("fs%d", fs))
			cbBody(k)
			cbLeave("CFinalEnd", "fe", 'f')
			return
		}
		k := cbEnter(App("CRedrawStart", Bool(f)), fmt.Sprintf("rs%d", fs))
		cbBody(k)
		cbLeave("CRedrawEnd", "re", 'r')
	})

	for _, o := range sc.Pre {
		do(lp, r, o)
	}
	runDone := make(chan struct{})
	gidCh := make(chan string, 1)
	go func() {
		gidCh <- goroutineHeader()
		buf, _ := lp.Run()
		v, err := strconv.Atoi(buf)
		if err != nil {
			v = 999999
		}
		r.mu.Lock()
		r.add(App("CReturned", N(uint64(v))), fmt.Sprintf("ret%d", v))
		r.done = true
		r.mu.Unlock()
		close(runDone)
	}()

	gid := <-gidCh
	deadline := time.Now().Add(watchdog)
	// settle waits until the loop is provably blocked in its select, or Run has
	// returned. Blocked = no producer is running (the caller waited for them),
	// the loop is outside any callback, all three channels are empty, and the
	// Go runtime reports the goroutine executing Run as parked in a select
	// (only the blocking 3-way select of Run can park it). Nothing can wake it
	// until the harness issues the next request.
	settle := func() string {
		for spin := 0; ; spin++ {
			r.mu.Lock()
			in, tk, rt := lp.Pending()
			if r.done {
				r.mu.Unlock()
				return ""
			}
			if !r.incb && in == 0 && tk == 0 && rt == 0 && parkedInSelect(gid) {
				r.add("OQuiesce", "Q")
				r.mu.Unlock()
				return ""
			}
			stuck := fmt.Sprintf("in-callback=%v last-finished=%q pending inputs=%d token=%d return=%d", r.incb, r.lastEnd, in, tk, rt)
			r.mu.Unlock()
			if time.Now().After(deadline) {
				return "the loop neither blocked in its select nor returned within " + watchdog.String() + " (hang): " + stuck
			}
			if spin < 200 {
				runtime.Gosched()
			} else {
				time.Sleep(100 * time.Microsecond)
			}
		}
	}

	if d := settle(); d != "" {
		return r, d
	}
	for _, ph := range sc.Phases {
		var wg sync.WaitGroup
		for _, ops := range ph.Producers {
			wg.Add(1)
			go func(ops []op) {
				defer wg.Done()
				for _, o := range ops {
					do(lp, r, o)
				}
			}(ops)
		}
		wg.Wait()
		if d := settle(); d != "" {
			return r, d
		}
	}
	do(lp, r, op{K: 'T', V: sc.Final})
	select {
	case <-runDone:
	case <-time.After(time.Until(deadline) + time.Second):
		r.mu.Lock()
		in, tk, rt := lp.Pending()
		stuck := fmt.Sprintf("in-callback=%v last-finished=%q pending inputs=%d token=%d return=%d", r.incb, r.lastEnd, in, tk, rt)
		r.mu.Unlock()
		return r, "Run did not return within " + watchdog.String() + " after Return was called (hang): " + stuck
	}
	return r, ""
}

// goroutineHeader returns "goroutine N " for the calling goroutine.
func goroutineHeader() string {
	buf := make([]byte, 64)
	buf = buf[:runtime.Stack(buf, false)]
	f := strings.Fields(string(buf))
	if len(f) < 2 {
		return "goroutine ? "
	}
	return "goroutine " + f[1] + " "
}

// parkedInSelect reports whether the goroutine with the given header is parked
// in a select according to the runtime's own goroutine dump.
func parkedInSelect(gid string) bool {
	buf := make([]byte, 1<<16)
	for {
		n := runtime.Stack(buf, true)
		if n < len(buf) {
			buf = buf[:n]
			break
		}
		buf = make([]byte, 2*len(buf))
	}
	s := "\n" + string(buf)
	i := strings.Index(s, "\n"+gid+"[")
	if i < 0 {
		return false
	}
	rest := s[i+1+len(gid):]
	return strings.HasPrefix(rest, "[select]") || strings.HasPrefix(rest, "[select,")
}

// emit runs one scenario and emits its case; it reports whether the run hung.
func emit(c *reg.Ctx, class string, sc scenario) bool {
	r, direct := execute(sc)
	r.mu.Lock()
	obs := append([]string(nil), r.obs...)
	trace := strings.Join(r.txt, " ")
	skipped := r.skipped
	r.mu.Unlock()
	c.Count(class)
	note := ""
	if skipped > 0 {
		note = fmt.Sprintf("%d Input calls not issued (buffer full)", skipped)
		c.Count("inputs-not-issued-buffer-full")
	}
	nontrivial := strings.Contains(trace, "R") && strings.Contains(trace, "hs")
	cs := reg.Case{
		Desc:       desc{sc, trace, note},
		Key:        fmt.Sprintf("%s/%d/%v/%v/%v/%s", sc.Name, sc.Procs, sc.Pre, sc.Inline, sc.Phases, trace),
		Nontrivial: nontrivial,
		Class:      class,
	}
	if direct != "" {
		cs.Direct = direct
	} else {
		cs.Coq = App("mkCase", List(obs))
	}
	c.Emit(cs)
	return direct != ""
}

// ---- planted scenarios: the interleavings that the defect-prone code paths need ----

func planted() []struct {
	class string
	sc    scenario
} {
	type ps = struct {
		class string
		sc    scenario
	}
	I := func(v int) op { return op{K: 'I', V: v} }
	R := func(f int) op { return op{K: 'R', V: f} }
	T := func(v int) op { return op{K: 'T', V: v} }
	var out []ps
	add := func(class string, sc scenario) {
		if sc.Procs == 0 {
			sc.Procs = 2
		}
		sc.Name = class
		sc.Final = 900
		out = append(out, ps{class, sc})
	}
	// full redraw requested while a redraw is being drawn
	add("full-during-redraw", scenario{Inline: map[int][]op{0: {R(1)}}})
	add("full-during-redraw", scenario{Pre: []op{R(0)}, Inline: map[int][]op{0: {R(1)}, 1: {R(1)}}})
	// plain request then full request while a token is already pending
	add("full-after-pending-token", scenario{Inline: map[int][]op{0: {R(0), R(1)}}})
	add("full-after-pending-token", scenario{Pre: []op{R(0), R(1)}})
	add("full-after-pending-token", scenario{Inline: map[int][]op{0: {I(1)}, 1: {R(0), R(1)}}})
	// redraw requested from the event handler, and between handler and redraw
	add("redraw-from-handler", scenario{Inline: map[int][]op{0: {I(1), I(2)}, 1: {R(1)}, 2: {R(0)}}})
	add("redraw-before-run", scenario{Pre: []op{R(1)}})
	add("redraw-before-run", scenario{Pre: []op{R(0), I(1)}})
	// several events queued at once: drained in order, one redraw afterwards
	add("burst-in-order", scenario{Inline: map[int][]op{0: {I(1), I(2), I(3), I(4), I(5)}}})
	add("burst-in-order", scenario{Pre: []op{I(3), I(1), I(2)}, Inline: map[int][]op{1: {I(9), I(8)}, 2: {I(7)}}})
	// return racing with a redraw request / with queued input (select picks at random: repeated)
	for i := 0; i < 10; i++ {
		add("return-races-redraw", scenario{Inline: map[int][]op{0: {R(0), T(5)}}, Procs: 1 + i%3})
		add("return-races-redraw", scenario{Inline: map[int][]op{0: {R(1), T(5), I(1)}}, Procs: 1 + i%3})
	}
	add("return-from-handler", scenario{Inline: map[int][]op{0: {I(1), I(2)}, 1: {R(1), T(7)}}})
	add("return-from-handler", scenario{Inline: map[int][]op{0: {I(1), I(2)}, 2: {T(7), R(1)}}})
	add("return-before-run", scenario{Pre: []op{T(4)}})
	// first Return wins
	add("two-returns", scenario{Inline: map[int][]op{0: {T(3), T(4)}}})
	add("two-returns", scenario{Inline: map[int][]op{0: {I(1)}, 1: {T(3), T(4), T(5)}}})
	add("two-returns", scenario{Pre: []op{T(6)}, Inline: map[int][]op{0: {T(3)}}})
	// requests after the loop has returned are harmless
	add("after-return", scenario{Inline: map[int][]op{0: {T(2)}},
		Phases: []phase{{[][]op{{R(1), I(1), T(8)}}}}})
	// the input buffer filled to its capacity from inside a callback
	var fill []op
	for i := 1; i <= cli.VerifC32InputChSize+2; i++ {
		fill = append(fill, I(i))
	}
	add("fill-to-capacity", scenario{Inline: map[int][]op{0: fill}})
	return out
}

// ---- random scenarios ----

func genOps(c *reg.Ctx, n int, nextEv *int, wRet int) []op {
	ops := make([]op, 0, n)
	for i := 0; i < n; i++ {
		var o op
		switch x := c.Rand.Intn(100); {
		case x < 45:
			*nextEv++
			o = op{K: 'I', V: *nextEv}
		case x < 100-wRet:
			o = op{K: 'R', V: c.Rand.Intn(2)}
		default:
			o = op{K: 'T', V: 1 + c.Rand.Intn(50)}
		}
		if c.Rand.Intn(3) == 0 {
			o.Y = c.Rand.Intn(4)
		}
		ops = append(ops, o)
	}
	return ops
}

func random(c *reg.Ctx, i int) (string, scenario) {
	procs := []int{1, 2, 3, 4, 8, 16}[c.Rand.Intn(6)]
	sc := scenario{Procs: procs, Inline: map[int][]op{}, Final: 900}
	nextEv := 0
	class := "concurrent"
	wRet := 0
	switch c.Rand.Intn(4) {
	case 0:
		class, wRet = "concurrent-return-race", 6
	case 1:
		class = "inline-and-concurrent"
	}
	if c.Rand.Intn(3) == 0 {
		sc.Pre = genOps(c, c.Rand.Intn(4), &nextEv, 0)
	}
	if class != "concurrent" {
		for k := 0; k < 12; k++ {
			if c.Rand.Intn(3) == 0 {
				sc.Inline[k] = genOps(c, 1+c.Rand.Intn(3), &nextEv, wRet)
			}
		}
	}
	for k := 0; k < 4; k++ {
		sc.CbY = append(sc.CbY, c.Rand.Intn(3))
	}
	nph := 1 + c.Rand.Intn(3)
	budget := 60 + c.Rand.Intn(100)
	if c.Tier == "thorough" && c.Rand.Intn(4) == 0 {
		budget *= 3
	}
	for p := 0; p < nph; p++ {
		var ph phase
		np := 1 + c.Rand.Intn(4)
		for q := 0; q < np; q++ {
			ph.Producers = append(ph.Producers, genOps(c, 1+c.Rand.Intn(budget/(nph*np)+1), &nextEv, wRet))
		}
		sc.Phases = append(sc.Phases, ph)
	}
	sc.Name = fmt.Sprintf("%s-%d", class, i)
	return class, sc
}

func run(c *reg.Ctx) {
	reps := 1
	if c.Tier == "thorough" {
		reps = 20
	}
	for rep := 0; rep < reps; rep++ {
		for _, p := range planted() {
			if emit(c, p.class, p.sc) {
				return // a hung loop goroutine is still alive; one hang is enough
			}
		}
	}
	for i := 0; i < c.N; i++ {
		class, sc := random(c, i)
		if emit(c, class, sc) {
			return
		}
	}
}
