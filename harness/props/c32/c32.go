// Package c32: the editor event loop (pkg/cli/loop.go) handles events serially
// and never loses a redraw.
//
// The real loop (reached through the verif hook pkg/cli/zz_verif_c32.go) is
// driven by concurrent producer goroutines and by requests issued from inside
// its own callbacks. Every environment call (Input/Redraw/Return) is made while
// holding the recorder mutex, and the callbacks append their start/end records
// under the same mutex, so the recorded observable trace is a total order in
// which every request sits at its atomic point relative to the callback
// boundaries. The loop's internal steps (extractRedrawFull, the selects) stay
// unobserved and race freely with the producers; the Coq acceptor places them.
package c32

import (
	"encoding/json"
	"fmt"
	"runtime"
	"strconv"
	"strings"
	"sync"
	"time"

	"src.elv.sh/pkg/cli"
	. "verifharness/coqfmt"
	"verifharness/reg"
)

func init() {
	reg.Register(&reg.Spec{ID: "C32",
		Imports: "From verif Require Import lib.Base model.C32.",
		Judge:   "C32.judge", Shard: 100, Run: run})
}

// watchdog is deliberately generous: the machine may be heavily loaded, and a
// healthy case needs well under a millisecond of CPU.
const watchdog = 180 * time.Second

// One environment action.
type op struct {
	K byte // 'I' input, 'R' redraw, 'T' return
	V int  // event id / 0|1 (full) / return value
	Y int  // Gosched calls before the action
}

func (o op) String() string { return fmt.Sprintf("%c%d", o.K, o.V) }

// MarshalJSON prints an action compactly ("I5", "R1", "T7").
func (o op) MarshalJSON() ([]byte, error) { return []byte(strconv.Quote(o.String())), nil }

type phase struct {
	Producers [][]op `json:"producers"`
}

type scenario struct {
	Name   string       `json:"name"`
	Procs  int          `json:"gomaxprocs"`
	Pre    []op         `json:"pre,omitempty"`    // before Run starts
	Inline map[int][]op `json:"inline,omitempty"` // inside the k-th callback (0-based, all callbacks counted)
	Phases []phase      `json:"phases,omitempty"`
	CbY    []int        `json:"cb_yields,omitempty"` // Gosched calls inside callbacks, cycled
	Final  int          `json:"final_return"`        // Return issued at the end so that Run terminates
	Stage  *stage       `json:"stage,omitempty"`     // staged at redrawMutex instead of phases
}

type recorder struct {
	mu      sync.Mutex
	obs     []string // Coq terms
	txt     []string // compact text
	incb    bool
	lastEnd byte // 'r' redraw end, 'h' handle end, 'f' final end
	ncb     int
	skipped int
	done    bool
}

func (r *recorder) add(coq, txt string) {
	r.obs = append(r.obs, coq)
	r.txt = append(r.txt, txt)
}

type desc struct {
	Scenario scenario `json:"scenario"`
	Trace    string   `json:"trace"`
	Note     string   `json:"note,omitempty"`
}

// do performs one environment action at its atomic point in the recorded order.
func do(lp *cli.VerifC32Loop, r *recorder, o op) {
	for i := 0; i < o.Y; i++ {
		runtime.Gosched()
	}
	r.mu.Lock()
	defer r.mu.Unlock()
	switch o.K {
	case 'I':
		// Input blocks on a full buffer; the model says the same (no step). The
		// harness never issues a blocking Input: it would hold the recorder.
		if in, _, _ := lp.Pending(); in >= cli.VerifC32InputChSize {
			r.skipped++
			return
		}
		r.add(App("EInput", N(uint64(o.V))), fmt.Sprintf("I%d", o.V))
		lp.Input(o.V)
	case 'R':
		r.add(App("ERedraw", Bool(o.V != 0)), fmt.Sprintf("R%d", o.V))
		lp.Redraw(o.V != 0)
	case 'T':
		r.add(App("EReturn", N(uint64(o.V))), fmt.Sprintf("T%d", o.V))
		lp.Return(strconv.Itoa(o.V), nil)
	}
}

// rig is one fresh loop with recording callbacks and a running Run goroutine.
type rig struct {
	lp       *cli.VerifC32Loop
	r        *recorder
	runDone  chan struct{}
	gid      string // "goroutine N " of the goroutine executing Run
	deadline time.Time
}

func (g *rig) stuck() string {
	in, tk, rt := g.lp.Pending()
	return fmt.Sprintf("in-callback=%v last-finished=%q pending inputs=%d token=%d return=%d run-goroutine=%s",
		g.r.incb, g.r.lastEnd, in, tk, rt, goroutineState(g.gid))
}

// newRig creates the loop, installs the recording callbacks, performs the
// scenario's pre-run requests and starts Run.
func newRig(sc scenario) *rig {
	lp := cli.VerifC32NewLoop()
	r := &recorder{}
	cbEnter := func(coq, txt string) int {
		r.mu.Lock()
		r.add(coq, txt)
		r.incb = true
		k := r.ncb
		r.ncb++
		r.mu.Unlock()
		return k
	}
	cbBody := func(k int) {
		if len(sc.CbY) > 0 {
			for i := 0; i < sc.CbY[k%len(sc.CbY)]; i++ {
				runtime.Gosched()
			}
		}
		for _, o := range sc.Inline[k] {
			do(lp, r, o)
		}
	}
	cbLeave := func(coq, txt string, kind byte) {
		r.mu.Lock()
		r.add(coq, txt)
		r.incb = false
		r.lastEnd = kind
		r.mu.Unlock()
	}
	lp.HandleCb(func(ev any) {
		id, _ := ev.(int)
		k := cbEnter(App("CHandleStart", N(uint64(id))), fmt.Sprintf("hs%d", id))
		cbBody(k)
		cbLeave("CHandleEnd", "he", 'h')
	})
	lp.RedrawCb(func(flag uint) {
		f := flag&cli.VerifC32FullRedraw != 0
		rest := flag &^ (cli.VerifC32FullRedraw | cli.VerifC32FinalRedraw)
		fs := 0
		if f {
			fs = 1
		}
		if rest != 0 {
			fs = int(flag) + 100 // unknown bits: no model label matches; shows in the trace text
		}
		if flag&cli.VerifC32FinalRedraw != 0 {
			k := cbEnter(App("CFinalStart", Bool(f)), fmt.Sprintf("fs%d", fs))
			cbBody(k)
			cbLeave("CFinalEnd", "fe", 'f')
			return
		}
		k := cbEnter(App("CRedrawStart", Bool(f)), fmt.Sprintf("rs%d", fs))
		cbBody(k)
		cbLeave("CRedrawEnd", "re", 'r')
	})

	for _, o := range sc.Pre {
		do(lp, r, o)
	}
	g := &rig{lp: lp, r: r, runDone: make(chan struct{})}
	gidCh := make(chan string, 1)
	go func() {
		gidCh <- goroutineHeader()
		buf, _ := lp.Run()
		v, err := strconv.Atoi(buf)
		if err != nil {
			v = 999999
		}
		r.mu.Lock()
		r.add(App("CReturned", N(uint64(v))), fmt.Sprintf("ret%d", v))
		r.done = true
		r.mu.Unlock()
		close(g.runDone)
	}()
	g.gid = <-gidCh
	g.deadline = time.Now().Add(watchdog)
	return g
}

// settle waits until the loop is provably blocked in its select, or Run has
// returned. Blocked = no producer is running (the caller waited for them),
// the loop is outside any callback, all three channels are empty, and the
// Go runtime reports the goroutine executing Run as parked in a select
// (only the blocking 3-way select of Run can park it). Nothing can wake it
// until the harness issues the next request. A non-empty result is a hang.
func (g *rig) settle() string {
	r, lp := g.r, g.lp
	for spin := 0; ; spin++ {
		r.mu.Lock()
		in, tk, rt := lp.Pending()
		if r.done {
			r.mu.Unlock()
			return ""
		}
		if !r.incb && in == 0 && tk == 0 && rt == 0 && strings.HasPrefix(goroutineState(g.gid), "select") {
			r.add("OQuiesce", "Q")
			r.mu.Unlock()
			return ""
		}
		stuck := g.stuck()
		r.mu.Unlock()
		if time.Now().After(g.deadline) {
			return "the loop neither blocked in its select nor returned within " + watchdog.String() + " (hang): " + stuck
		}
		if spin < 200 {
			runtime.Gosched()
		} else {
			time.Sleep(100 * time.Microsecond)
		}
	}
}

// finish issues the final Return and waits for Run to return.
func (g *rig) finish(final int) string {
	do(g.lp, g.r, op{K: 'T', V: final})
	select {
	case <-g.runDone:
		return ""
	case <-time.After(time.Until(g.deadline) + time.Second):
		g.r.mu.Lock()
		stuck := g.stuck()
		g.r.mu.Unlock()
		return "Run did not return within " + watchdog.String() + " after Return was called (hang): " + stuck
	}
}

// execute runs one scenario against a fresh loop. direct != "" reports a hang.
func execute(sc scenario) (r *recorder, direct string) {
	old := runtime.GOMAXPROCS(sc.Procs)
	defer runtime.GOMAXPROCS(old)
	if sc.Stage != nil {
		return executeStaged(sc)
	}
	g := newRig(sc)
	if d := g.settle(); d != "" {
		return g.r, d
	}
	for _, ph := range sc.Phases {
		var wg sync.WaitGroup
		for _, ops := range ph.Producers {
			wg.Add(1)
			go func(ops []op) {
				defer wg.Done()
				for _, o := range ops {
					do(g.lp, g.r, o)
				}
			}(ops)
		}
		wg.Wait()
		if d := g.settle(); d != "" {
			return g.r, d
		}
	}
	return g.r, g.finish(sc.Final)
}

// ---- staged scenarios: the loop and the callers of Redraw are lined up at
// redrawMutex (held by the harness through the hook), then released ----

// stage describes one staged episode. The harness locks redrawMutex while the
// loop is blocked in its select, then
//   - LoopFirst: issues Input events so that the loop handles them and queues
//     at the mutex in extractRedrawFull BEFORE the Redraw calls are made;
//   - makes the Redraw calls, each from its own goroutine (the code under test
//     blocks on the mutex; the invocation is recorded as ERedrawCall, whose two
//     halves the acceptor places);
//   - otherwise issues the Input events after the calls;
//   - waits briefly, unlocks, waits for the calls to return and for the loop
//     to block again.
type stage struct {
	LoopFirst bool  `json:"loop_first"`
	Inputs    int   `json:"inputs"`
	Calls     []int `json:"calls"` // 1 = Redraw(true), 0 = Redraw(false), in invocation order
	Rounds    int   `json:"rounds"`
}

// waitState polls until the goroutine's wait reason starts with one of the
// prefixes, or the goroutine is gone, or a short time-out expires (the staging
// is best effort: soundness of the recorded trace does not depend on it).
func waitState(gid string, max time.Duration, prefixes ...string) {
	end := time.Now().Add(max)
	for {
		st := goroutineState(gid)
		if st == "" {
			return
		}
		for _, p := range prefixes {
			if strings.HasPrefix(st, p) {
				return
			}
		}
		if time.Now().After(end) {
			return
		}
		runtime.Gosched()
		time.Sleep(20 * time.Microsecond)
	}
}

func executeStaged(sc scenario) (*recorder, string) {
	g := newRig(sc)
	lp, r := g.lp, g.r
	if d := g.settle(); d != "" {
		return r, d
	}
	st := sc.Stage
	ev := 0
	inputs := func() {
		for i := 0; i < st.Inputs; i++ {
			ev++
			do(lp, r, op{K: 'I', V: ev})
		}
		if st.Inputs > 0 {
			// the loop handles them and then queues at the mutex
			waitState(g.gid, 50*time.Millisecond, "sync.Mutex.Lock", "semacquire")
		}
	}
	for round := 0; round < st.Rounds; round++ {
		r.mu.Lock()
		done := r.done
		r.mu.Unlock()
		if done {
			break
		}
		lp.VerifC32LockRedraw()
		if st.LoopFirst {
			inputs()
		}
		var wg sync.WaitGroup
		for _, f := range st.Calls {
			f := f
			// the invocation is recorded before the call and outside of it: the
			// caller must not hold the recorder while it waits for the mutex
			r.mu.Lock()
			r.add(App("ERedrawCall", Bool(f != 0)), fmt.Sprintf("RC%d", f))
			r.mu.Unlock()
			gidCh := make(chan string, 1)
			wg.Add(1)
			go func() {
				defer wg.Done()
				gidCh <- goroutineHeader()
				lp.Redraw(f != 0)
			}()
			// wait until this caller is parked on the mutex (or has returned)
			waitState(<-gidCh, 50*time.Millisecond, "sync.Mutex.Lock", "semacquire")
		}
		if !st.LoopFirst {
			inputs()
		}
		// give a loop that was (wrongly) woken the time to reach the mutex
		waitState(g.gid, 2*time.Millisecond, "sync.Mutex.Lock", "semacquire")
		lp.VerifC32UnlockRedraw()
		wg.Wait()
		if d := g.settle(); d != "" {
			return r, d
		}
	}
	return r, g.finish(sc.Final)
}

// goroutineHeader returns "goroutine N " for the calling goroutine.
func goroutineHeader() string {
	buf := make([]byte, 64)
	buf = buf[:runtime.Stack(buf, false)]
	f := strings.Fields(string(buf))
	if len(f) < 2 {
		return "goroutine ? "
	}
	return "goroutine " + f[1] + " "
}

// goroutineState returns the wait reason the runtime's goroutine dump shows for
// the goroutine with the given header ("select", "sync.Mutex.Lock", "running",
// "runnable", ...; a duration suffix is possible), or "" if it no longer exists.
func goroutineState(gid string) string {
	buf := make([]byte, 1<<16)
	for {
		n := runtime.Stack(buf, true)
		if n < len(buf) {
			buf = buf[:n]
			break
		}
		buf = make([]byte, 2*len(buf))
	}
	s := "\n" + string(buf)
	i := strings.Index(s, "\n"+gid+"[")
	if i < 0 {
		return ""
	}
	rest := s[i+2+len(gid):]
	if j := strings.IndexByte(rest, ']'); j >= 0 {
		return rest[:j]
	}
	return ""
}

// emit runs one scenario and emits its case; it reports whether the run hung.
func emit(c *reg.Ctx, class string, sc scenario) bool {
	r, direct := execute(sc)
	r.mu.Lock()
	obs := append([]string(nil), r.obs...)
	trace := strings.Join(r.txt, " ")
	skipped := r.skipped
	r.mu.Unlock()
	c.Count(class)
	note := ""
	if skipped > 0 {
		note = fmt.Sprintf("%d Input calls not issued (buffer full)", skipped)
		c.Count("inputs-not-issued-buffer-full")
	}
	nontrivial := strings.Contains(trace, "R") && strings.Contains(trace, "hs")
	scJSON, _ := json.Marshal(sc)
	cs := reg.Case{
		Desc:       desc{sc, trace, note},
		Key:        string(scJSON) + "/" + trace,
		Nontrivial: nontrivial,
		Class:      class,
	}
	if direct != "" {
		cs.Direct = direct
	} else {
		cs.Coq = App("mkCase", List(obs))
	}
	c.Emit(cs)
	return direct != ""
}

// ---- planted scenarios: the interleavings that the defect-prone code paths need ----

func planted() []struct {
	class string
	sc    scenario
} {
	type ps = struct {
		class string
		sc    scenario
	}
	I := func(v int) op { return op{K: 'I', V: v} }
	R := func(f int) op { return op{K: 'R', V: f} }
	T := func(v int) op { return op{K: 'T', V: v} }
	var out []ps
	add := func(class string, sc scenario) {
		if sc.Procs == 0 {
			sc.Procs = 2
		}
		sc.Name = class
		sc.Final = 900
		out = append(out, ps{class, sc})
	}
	// full redraw requested while a redraw is being drawn
	add("full-during-redraw", scenario{Inline: map[int][]op{0: {R(1)}}})
	add("full-during-redraw", scenario{Pre: []op{R(0)}, Inline: map[int][]op{0: {R(1)}, 1: {R(1)}}})
	// plain request then full request while a token is already pending
	add("full-after-pending-token", scenario{Inline: map[int][]op{0: {R(0), R(1)}}})
	add("full-after-pending-token", scenario{Pre: []op{R(0), R(1)}})
	add("full-after-pending-token", scenario{Inline: map[int][]op{0: {I(1)}, 1: {R(0), R(1)}}})
	// redraw requested from the event handler, and between handler and redraw
	add("redraw-from-handler", scenario{Inline: map[int][]op{0: {I(1), I(2)}, 1: {R(1)}, 2: {R(0)}}})
	add("redraw-before-run", scenario{Pre: []op{R(1)}})
	add("redraw-before-run", scenario{Pre: []op{R(0), I(1)}})
	// several events queued at once: drained in order, one redraw afterwards
	add("burst-in-order", scenario{Inline: map[int][]op{0: {I(1), I(2), I(3), I(4), I(5)}}})
	add("burst-in-order", scenario{Pre: []op{I(3), I(1), I(2)}, Inline: map[int][]op{1: {I(9), I(8)}, 2: {I(7)}}})
	// return racing with a redraw request / with queued input (select picks at random: repeated)
	for i := 0; i < 10; i++ {
		add("return-races-redraw", scenario{Inline: map[int][]op{0: {R(0), T(5)}}, Procs: 1 + i%3})
		add("return-races-redraw", scenario{Inline: map[int][]op{0: {R(1), T(5), I(1)}}, Procs: 1 + i%3})
	}
	add("return-from-handler", scenario{Inline: map[int][]op{0: {I(1), I(2)}, 1: {R(1), T(7)}}})
	add("return-from-handler", scenario{Inline: map[int][]op{0: {I(1), I(2)}, 2: {T(7), R(1)}}})
	add("return-before-run", scenario{Pre: []op{T(4)}})
	// first Return wins
	add("two-returns", scenario{Inline: map[int][]op{0: {T(3), T(4)}}})
	add("two-returns", scenario{Inline: map[int][]op{0: {I(1)}, 1: {T(3), T(4), T(5)}}})
	add("two-returns", scenario{Pre: []op{T(6)}, Inline: map[int][]op{0: {T(3)}}})
	// requests after the loop has returned are harmless
	add("after-return", scenario{Inline: map[int][]op{0: {T(2)}},
		Phases: []phase{{[][]op{{R(1), I(1), T(8)}}}}})
	// staged at redrawMutex: the loop queued at extractRedrawFull before Redraw is
	// called, and callers queued before the loop; single P makes the hand-over
	// order after the unlock deterministic, several Ps vary it
	for _, procs := range []int{1, 1, 1, 2, 4} {
		add("staged-loop-queued-first", scenario{Procs: procs, Stage: &stage{LoopFirst: true, Inputs: 1, Calls: []int{1}, Rounds: 3}})
		add("staged-loop-queued-first", scenario{Procs: procs, Stage: &stage{LoopFirst: true, Inputs: 2, Calls: []int{0, 1}, Rounds: 2}})
		add("staged-callers-first", scenario{Procs: procs, Stage: &stage{Calls: []int{1}, Rounds: 2}})
		add("staged-callers-first", scenario{Procs: procs, Stage: &stage{Inputs: 1, Calls: []int{1, 0}, Rounds: 2}})
	}
	add("staged-callers-first", scenario{Procs: 2, Stage: &stage{Calls: []int{1, 1}, Rounds: 2}})
	add("staged-callers-first", scenario{Procs: 1, Stage: &stage{Calls: []int{0}, Rounds: 2}})
	add("staged-loop-queued-first", scenario{Procs: 1, Stage: &stage{LoopFirst: true, Inputs: 1, Calls: []int{0}, Rounds: 2}})
	// the input buffer filled to its capacity from inside a callback
	var fill []op
	for i := 1; i <= cli.VerifC32InputChSize+2; i++ {
		fill = append(fill, I(i))
	}
	add("fill-to-capacity", scenario{Inline: map[int][]op{0: fill}})
	return out
}

// ---- random scenarios ----

func genOps(c *reg.Ctx, n int, nextEv *int, wRet int) []op {
	ops := make([]op, 0, n)
	for i := 0; i < n; i++ {
		var o op
		switch x := c.Rand.Intn(100); {
		case x < 45:
			*nextEv++
			o = op{K: 'I', V: *nextEv}
		case x < 100-wRet:
			o = op{K: 'R', V: c.Rand.Intn(2)}
		default:
			o = op{K: 'T', V: 1 + c.Rand.Intn(50)}
		}
		if c.Rand.Intn(3) == 0 {
			o.Y = c.Rand.Intn(4)
		}
		ops = append(ops, o)
	}
	return ops
}

func random(c *reg.Ctx, i int) (string, scenario) {
	procs := []int{1, 2, 3, 4, 8, 16}[c.Rand.Intn(6)]
	sc := scenario{Procs: procs, Inline: map[int][]op{}, Final: 900}
	nextEv := 0
	class := "concurrent"
	wRet := 0
	switch c.Rand.Intn(4) {
	case 0:
		class, wRet = "concurrent-return-race", 6
	case 1:
		class = "inline-and-concurrent"
	}
	if c.Rand.Intn(3) == 0 {
		sc.Pre = genOps(c, c.Rand.Intn(4), &nextEv, 0)
	}
	if class != "concurrent" {
		for k := 0; k < 12; k++ {
			if c.Rand.Intn(3) == 0 {
				sc.Inline[k] = genOps(c, 1+c.Rand.Intn(3), &nextEv, wRet)
			}
		}
	}
	for k := 0; k < 4; k++ {
		sc.CbY = append(sc.CbY, c.Rand.Intn(3))
	}
	nph := 1 + c.Rand.Intn(3)
	budget := 60 + c.Rand.Intn(100)
	if c.Tier == "thorough" && c.Rand.Intn(4) == 0 {
		budget *= 3
	}
	for p := 0; p < nph; p++ {
		var ph phase
		np := 1 + c.Rand.Intn(4)
		for q := 0; q < np; q++ {
			ph.Producers = append(ph.Producers, genOps(c, 1+c.Rand.Intn(budget/(nph*np)+1), &nextEv, wRet))
		}
		sc.Phases = append(sc.Phases, ph)
	}
	sc.Name = fmt.Sprintf("%s-%d", class, i)
	return class, sc
}

// ---- second line: time-boxed API-only storm of concurrent Redraw calls ----

type stressDesc struct {
	Rounds int    `json:"rounds_total"`
	Count  int    `json:"rounds_with_this_trace"`
	Trace  string `json:"trace"`
	Note   string `json:"note"`
}

// stress runs rounds of 2-4 goroutines that call Redraw concurrently through
// the plain API (nothing is held across the call; only the invocation is
// recorded, as ERedrawCall), lets the loop block again after each round, and
// emits every distinct round trace once (prefixed by the trace that leads to
// the blocked state every round starts from). A lost full redraw shows up as a
// round whose last blocked marker is not preceded by a full redraw.
func stress(c *reg.Ctx, dur time.Duration) bool {
	old := runtime.GOMAXPROCS(4)
	defer runtime.GOMAXPROCS(old)
	lp := cli.VerifC32NewLoop()
	var mu sync.Mutex
	var coq, txt []string
	incb := false
	rec := func(cq, tx string, in bool) {
		mu.Lock()
		coq = append(coq, cq)
		txt = append(txt, tx)
		incb = in
		mu.Unlock()
	}
	lp.HandleCb(func(any) {})
	final := false
	lp.RedrawCb(func(flag uint) {
		if flag&cli.VerifC32FinalRedraw != 0 {
			final = true
			return
		}
		f := flag&cli.VerifC32FullRedraw != 0
		fs := "rs0"
		if f {
			fs = "rs1"
		}
		rec(App("CRedrawStart", Bool(f)), fs, true)
		rec("CRedrawEnd", "re", false)
	})
	runDone := make(chan struct{})
	gidCh := make(chan string, 1)
	go func() {
		gidCh <- goroutineHeader()
		lp.Run()
		close(runDone)
	}()
	gid := <-gidCh
	hang := func(what string) bool {
		c.Count("stress-redraw-storm")
		c.Emit(reg.Case{Class: "stress-redraw-storm", Key: "stress-hang", Desc: stressDesc{Note: what},
			Direct: what})
		return true
	}
	blocked := func() bool {
		end := time.Now().Add(watchdog)
		for spin := 0; ; spin++ {
			mu.Lock()
			in, tk, rt := lp.Pending()
			ok := !incb && in == 0 && tk == 0 && rt == 0
			mu.Unlock()
			if ok && strings.HasPrefix(goroutineState(gid), "select") {
				return true
			}
			if time.Now().After(end) {
				return false
			}
			if spin < 50 {
				runtime.Gosched()
			} else {
				time.Sleep(20 * time.Microsecond)
			}
		}
	}
	if !blocked() {
		return hang("stress: the loop did not block in its select within " + watchdog.String() + " after start (hang)")
	}
	mu.Lock()
	prefixCoq := append(append([]string(nil), coq...), "OQuiesce")
	prefixTxt := strings.Join(txt, " ") + " Q"
	mu.Unlock()
	type shape struct {
		coq   []string
		count int
	}
	shapes := map[string]*shape{}
	var order []string
	rounds := 0
	stop := time.Now().Add(dur)
	for time.Now().Before(stop) {
		mu.Lock()
		coq, txt = coq[:0], txt[:0]
		mu.Unlock()
		n := 2 + c.Rand.Intn(3)
		fulls := make([]bool, n)
		for i := range fulls {
			fulls[i] = c.Rand.Intn(8) != 0
		}
		start := make(chan struct{})
		var wg sync.WaitGroup
		for _, f := range fulls {
			f := f
			wg.Add(1)
			go func() {
				defer wg.Done()
				<-start
				fs := "RC0"
				if f {
					fs = "RC1"
				}
				rec2 := App("ERedrawCall", Bool(f))
				mu.Lock()
				coq = append(coq, rec2)
				txt = append(txt, fs)
				mu.Unlock()
				lp.Redraw(f)
			}()
		}
		close(start)
		wg.Wait()
		if !blocked() {
			return hang("stress: the loop did not block in its select within " + watchdog.String() + " after a round of Redraw calls (hang)")
		}
		rounds++
		mu.Lock()
		key := strings.Join(txt, " ")
		if sh := shapes[key]; sh != nil {
			sh.count++
		} else {
			shapes[key] = &shape{append(append(append([]string(nil), prefixCoq...), coq...), "OQuiesce"), 1}
			order = append(order, key)
		}
		mu.Unlock()
	}
	lp.Return("0", nil)
	select {
	case <-runDone:
	case <-time.After(watchdog):
		return hang("stress: Run did not return within " + watchdog.String() + " after Return (hang)")
	}
	_ = final
	c.Dist["stress-rounds"] += rounds
	for _, key := range order {
		sh := shapes[key]
		c.Count("stress-redraw-storm")
		c.Emit(reg.Case{
			Coq:        App("mkCase", List(sh.coq)),
			Desc:       stressDesc{rounds, sh.count, prefixTxt + " " + key + " Q", "one round of concurrent Redraw calls from a blocked loop, plain API"},
			Key:        "stress/" + key,
			Nontrivial: true,
			Class:      "stress-redraw-storm",
		})
	}
	return false
}

func run(c *reg.Ctx) {
	reps := 1
	if c.Tier == "thorough" {
		reps = 20
	}
	for rep := 0; rep < reps; rep++ {
		for _, p := range planted() {
			if emit(c, p.class, p.sc) {
				return // a hung loop goroutine is still alive; one hang is enough
			}
		}
	}
	dur := 3 * time.Second
	if c.Tier == "thorough" {
		dur = 20 * time.Second
	}
	if stress(c, dur) {
		return
	}
	for i := 0; i < c.N; i++ {
		class, sc := random(c, i)
		if emit(c, class, sc) {
			return
		}
	}
}
