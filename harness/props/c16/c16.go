// Package c16: code with static errors never runs, and the static check agrees
// (pkg/eval/eval.go: Eval, Check, CheckTree; pkg/shell/script.go: -compileonly).
//
// Every case is run in two evalers built the same way:
//   - the twin B gives the reference inputs of the model: parse.Parse called
//     directly, B.CheckTree (B knows one more module than A, Eval compiles with no
//     module names at all: validates that compile's error result does not depend on
//     the module-name argument), and what the error-free variant of the program
//     does when it runs (outputs, variable/file/env changes);
//   - the subject A is observed: Check, `elvish -compileonly` (shell.Program run
//     in-process; the real binary in the thorough tier), then Eval with capture
//     ports, with full snapshots of the observable state before and after.
package c16

import (
	"bytes"
	"crypto/sha1"
	"encoding/json"
	"fmt"
	"os"
	"os/exec"
	"path/filepath"
	"reflect"
	"sort"
	"strings"
	"time"

	"src.elv.sh/pkg/eval"
	"src.elv.sh/pkg/eval/vals"
	"src.elv.sh/pkg/eval/vars"
	"src.elv.sh/pkg/mods"
	"src.elv.sh/pkg/parse"
	"src.elv.sh/pkg/prog"
	"src.elv.sh/pkg/shell"
	. "verifharness/coqfmt"
	"verifharness/reg"
)

func init() {
	reg.Register(&reg.Spec{ID: "C16",
		Imports: "From verif Require Import lib.Base model.C16.",
		Judge:   "C16.judge", Shard: 150, Run: run})
}

// ---------------------------------------------------------------- observation

type effect struct {
	Kind     int     `json:"k"`
	Name     string  `json:"n,omitempty"`
	Old, New *string `json:",omitempty"`
}

func sp(s string) *string { return &s }

func (e effect) coq() string {
	o := func(p *string) string {
		if p == nil {
			return None()
		}
		if len(*p) > 16 {
			// long contents are compared through a digest (the full text is in Desc)
			h := sha1.Sum([]byte(*p))
			return Some(Bytes(h[:8]))
		}
		return Some(Str(*p))
	}
	return App("mkEff", N(uint64(e.Kind)), Str(e.Name), o(e.Old), o(e.New))
}

func effsCoq(es []effect) string {
	items := make([]string, len(es))
	for i, e := range es {
		items[i] = e.coq()
	}
	return List(items)
}

type rng [2]int

func rangesCoq(rs []rng) string {
	items := make([]string, len(rs))
	for i, r := range rs {
		items[i] = Pair(N(uint64(r[0])), N(uint64(r[1])))
	}
	return List(items)
}

var envNames = []string{"C16_E1", "C16_E2"}
var bvarNames = []string{"value-out-indicator", "notify-bg-job-success", "c16-bvar"}

// subject is one evaler plus the harness-side witnesses of execution.
type subject struct {
	ev    *eval.Evaler
	dir   string
	ticks int
}

type snapshot struct {
	gptr  *eval.Ns
	vars  map[string]string
	files map[string]string
	env   map[string]string
	bvars map[string]string
}

func reprVal(v any) string {
	switch v.(type) {
	case eval.Callable:
		return "<fn>"
	case *eval.Ns:
		return "<ns>"
	}
	return vals.ReprPlain(v)
}

// identity of the storage behind a variable (0 if unknown)
func varID(v vars.Var) (id uintptr) {
	defer func() {
		if recover() != nil {
			id = 0
		}
	}()
	rv := reflect.ValueOf(v)
	switch rv.Kind() {
	case reflect.Ptr:
		return rv.Pointer()
	case reflect.Struct:
		for i := 0; i < rv.NumField(); i++ {
			f := rv.Field(i)
			if f.Kind() == reflect.Interface && !f.IsNil() && f.Elem().Kind() == reflect.Ptr {
				return f.Elem().Pointer()
			}
			if f.Kind() == reflect.Ptr && !f.IsNil() {
				return f.Pointer()
			}
		}
	}
	return 0
}

func (s *subject) snap() snapshot {
	sn := snapshot{vars: map[string]string{}, files: map[string]string{}, env: map[string]string{}, bvars: map[string]string{}}
	g := s.ev.Global()
	sn.gptr = g
	g.IterateKeysString(func(k string) {
		v := g.IndexString(k)
		if v == nil {
			return
		}
		sn.vars[k] = fmt.Sprintf("%s\x00%x", reprVal(v.Get()), varID(v))
	})
	filepath.Walk(s.dir, func(p string, info os.FileInfo, err error) error {
		if err == nil && !info.IsDir() {
			b, _ := os.ReadFile(p)
			rel, _ := filepath.Rel(s.dir, p)
			sn.files[rel] = string(b)
		}
		return nil
	})
	for _, n := range envNames {
		if v, ok := os.LookupEnv(n); ok {
			sn.env[n] = v
		}
	}
	b := s.ev.Builtin()
	for _, n := range bvarNames {
		if v := b.IndexString(n); v != nil {
			sn.bvars[n] = reprVal(v.Get())
		}
	}
	sn.bvars["c16-ticks"] = fmt.Sprint(s.ticks)
	return sn
}

func diffMap(kind int, a, b map[string]string, isVar bool) []effect {
	names := map[string]bool{}
	for k := range a {
		names[k] = true
	}
	for k := range b {
		names[k] = true
	}
	var ks []string
	for k := range names {
		ks = append(ks, k)
	}
	sort.Strings(ks)
	var out []effect
	show := func(s string, other string, has bool) *string {
		if !isVar {
			return sp(s)
		}
		r, id, _ := strings.Cut(s, "\x00")
		if has {
			r2, id2, _ := strings.Cut(other, "\x00")
			if r == r2 && id != id2 {
				return sp(r + " (rebound)")
			}
		}
		return sp(r)
	}
	for _, k := range ks {
		va, ina := a[k]
		vb, inb := b[k]
		if ina && inb && va == vb {
			continue
		}
		e := effect{Kind: kind, Name: k}
		if ina {
			e.Old = show(va, "", false)
		}
		if inb {
			e.New = show(vb, va, ina)
		}
		out = append(out, e)
	}
	return out
}

func diff(a, b snapshot) []effect {
	var out []effect
	out = append(out, diffMap(3, a.vars, b.vars, true)...)
	out = append(out, diffMap(4, a.files, b.files, false)...)
	out = append(out, diffMap(5, a.env, b.env, false)...)
	out = append(out, diffMap(6, a.bvars, b.bvars, false)...)
	return out
}

type evalObs struct {
	Kind    string // parse | compile | ok | exc
	Ranges  []rng
	Effects []effect
	Direct  string
}

func rangesOfParse(err error) []rng {
	var rs []rng
	for _, e := range parse.UnpackErrors(err) {
		rs = append(rs, rng{e.Context.From, e.Context.To})
	}
	return rs
}
func rangesOfCompile(err error) []rng {
	var rs []rng
	for _, e := range eval.UnpackCompilationErrors(err) {
		rs = append(rs, rng{e.Context.From, e.Context.To})
	}
	return rs
}

const srcName = "[c16]"

// evalCapture runs Evaler.Eval with capture ports under a watchdog, and reports
// outputs and state differences as effects.
func (s *subject) evalCapture(code string, mode int) evalObs {
	before := s.snap()
	outPort, outDone, err1 := eval.CapturePort()
	errPort, errDone, err2 := eval.CapturePort()
	if err1 != nil || err2 != nil {
		return evalObs{Direct: "harness: cannot create capture ports"}
	}
	cfg := eval.EvalCfg{Ports: []*eval.Port{eval.DummyInputPort, outPort, errPort}}
	if mode == 1 {
		cfg.Global = s.ev.Global()
	}
	type res struct {
		err error
		pan any
	}
	ch := make(chan res, 1)
	go func() {
		var r res
		defer func() {
			if p := recover(); p != nil {
				r.pan = p
			}
			ch <- r
		}()
		r.err = s.ev.Eval(parse.Source{Name: srcName, Code: code}, cfg)
	}()
	var r res
	select {
	case r = <-ch:
	case <-time.After(10 * time.Second):
		return evalObs{Direct: "Eval did not return within 10s (lock held while code runs, or lock never released?)"}
	}
	vs, ob := outDone()
	evs, eb := errDone()
	if r.pan != nil {
		return evalObs{Direct: fmt.Sprintf("Go panic inside Evaler.Eval: %v", r.pan)}
	}
	// the mutex must be free again
	lk := make(chan struct{}, 1)
	go func() { s.ev.Global(); lk <- struct{}{} }()
	select {
	case <-lk:
	case <-time.After(8 * time.Second):
		return evalObs{Direct: "ev.mu still held after Evaler.Eval returned (Global() blocks)"}
	}
	after := s.snap()
	var o evalObs
	switch {
	case len(parse.UnpackErrors(r.err)) > 0:
		o.Kind, o.Ranges = "parse", rangesOfParse(r.err)
	case len(eval.UnpackCompilationErrors(r.err)) > 0:
		o.Kind, o.Ranges = "compile", rangesOfCompile(r.err)
	case r.err != nil:
		o.Kind = "exc"
	default:
		o.Kind = "ok"
	}
	if len(ob) > 0 {
		o.Effects = append(o.Effects, effect{Kind: 0, New: sp(string(ob))})
	}
	if len(eb) > 0 || len(evs) > 0 {
		o.Effects = append(o.Effects, effect{Kind: 1, New: sp(string(eb) + reprAll(evs))})
	}
	if len(vs) > 0 {
		o.Effects = append(o.Effects, effect{Kind: 2, New: sp(reprAll(vs))})
	}
	o.Effects = append(o.Effects, diff(before, after)...)
	if before.gptr != after.gptr {
		o.Effects = append(o.Effects, effect{Kind: 7, Name: "Global()"})
	}
	return o
}

func reprAll(vs []any) string {
	var sb strings.Builder
	for _, v := range vs {
		sb.WriteString(reprVal(v))
		sb.WriteByte('\n')
	}
	return sb.String()
}

// ---------------------------------------------------------------- evalers

const libCode = "echo c16lib-loaded\nvar v = 7\nfn hi { echo hi-from-lib }\n"

func newSubject(c *reg.Ctx, fresh bool, extraMod bool) *subject {
	s := &subject{dir: filepath.Join(c.Scratch, "w")}
	os.RemoveAll(s.dir)
	os.MkdirAll(s.dir, 0o755)
	for _, n := range envNames {
		os.Unsetenv(n)
	}
	ev := eval.NewEvaler()
	mods.AddTo(ev)
	ev.LibDirs = []string{filepath.Join(c.Scratch, "lib")}
	if !fresh {
		// builtins added by the embedding program, as the editor does
		ev.ExtendBuiltin(eval.BuildNs().
			AddVar("c16-bvar", vars.FromInit("b0")).
			AddGoFn("c16-tick", func() { s.ticks++ }))
	}
	if extraMod {
		ev.AddModule("c16x", eval.BuildNs().AddVar("v", vars.FromInit("1")).Ns())
	}
	s.ev = ev
	return s
}

func setupCode(dir string) string {
	return "var a = 1\nvar l = [x y]\nvar m = [&k=v]\nvar tmpv = t\n" +
		"fn f {|x| put 'f:'$x }\nfn h { echo from-h }\nvar dir = " + parse.Quote(dir) + "\n"
}

// ---------------------------------------------------------------- generator

type errForm struct {
	tag, text string
	parse     bool
}

var errForms = []errForm{
	// parse errors
	{"unclosed-paren", "echo (", true}, {"unclosed-bracket", "put [a", true},
	{"unterminated-sq", "echo 'unterminated", true}, {"unterminated-dq", "put \"abc", true},
	{"stray-brace", "}", true}, {"stray-bracket", "]", true}, {"stray-paren", "put a)", true},
	{"trailing-pipe", "echo a |", true}, {"unclosed-brace", "put {", true},
	{"unclosed-index", "echo $a[", true}, {"redir-no-target", "echo >", true},
	{"double-amp", "echo a b &&", true}, {"unclosed-map", "put [&k", true},
	{"bad-escape", "echo \"\\x\"", true}, {"bad-octal", "echo \"\\400\"", true},
	{"lambda-args-open", "put {|a", true}, {"dollar-alone", "put $", true},
	{"map-empty-key", "put [&=b]", true}, {"unclosed-capture", "put ?(", true},
	// compilation errors
	{"undef-var", "put $nonexistent", false}, {"undef-ns-var", "put $undefined:x", false},
	{"undef-in-capture", "var v9 = (put $undef3)", false}, {"undef-in-redir", "echo a > (put $undef4)", false},
	{"undef-mod-str", "put $str:nonexistent", false}, {"undef-mod-math", "put $math:pi", false},
	{"undef-mod-twin-only", "put $c16x:v", false}, {"undef-fn-var", "put $nonexistent~", false},
	{"set-undef", "set nonexist = 1", false}, {"two-rest", "var @p @q = 1 2", false},
	{"var-with-index", "var a[0] = 1", false}, {"var-qualified", "var a:b = 1", false},
	{"lvalue-composite", "set {a}{b} = 1", false}, {"lvalue-variable", "set $a = 1", false},
	{"set-no-rhs", "set a", false}, {"set-readonly", "set pid = 1", false}, {"set-nil", "set nil = 1", false},
	{"empty-var-name", "var '' = 1", false}, {"empty-var-use", "put $''", false},
	{"if-no-cond", "if", false}, {"if-no-body", "if $true", false}, {"if-dangling-else", "if $true { } else", false},
	{"if-bad-keyword", "if a { } foo { }", false}, {"elif-no-cond", "if a { } elif", false},
	{"while-no-cond", "while", false}, {"while-dangling-else", "while a { } else", false},
	{"for-no-iter", "for x", false}, {"for-dangling-else", "for x [a] { } else", false},
	{"for-qualified", "for a:b [1] { }", false}, {"for-bad-lvalue", "for [x] [1] { }", false},
	{"for-body-not-lambda", "for x y [1] { }", false},
	{"try-alone", "try { }", false}, {"try-else-no-catch", "try { } else { }", false},
	{"try-finally-no-body", "try { } finally", false}, {"try-extra", "try { } catch e { } finally { } extra", false},
	{"catch-body-not-lambda", "try { } catch a b { }", false},
	{"fn-no-name", "fn", false}, {"fn-no-body", "fn f2", false}, {"fn-body-not-lambda", "fn f2 g", false},
	{"two-rest-args", "fn f2 {|@a @b| }", false}, {"dup-arg", "put {|a a| }", false},
	{"qualified-arg", "put {|a:b| }", false}, {"opt-no-default", "put {|&o| }", false},
	{"del-dollar", "del $a", false}, {"del-undef", "del nonexist", false}, {"del-qualified", "del a:b", false},
	{"del-builtin", "del pid", false}, {"del-second-undef", "del E:C16_E1 nonexist", false},
	{"use-no-spec", "use", false}, {"use-extra", "use a b c", false}, {"use-variable", "use $a", false},
	{"pragma-unknown", "pragma foo = bar", false}, {"pragma-no-eq", "pragma unknown-command", false},
	{"pragma-bad-value", "pragma unknown-command = weird", false}, {"pragma-bad-eq", "pragma unknown-command : disallow", false},
	{"tmp-outside-fn", "tmp a = 1", false}, {"with-no-args", "with", false}, {"with-no-lambda", "with a = 1", false},
	{"with-undef", "with [zz = 1] { }", false},
	{"strict-unknown-cmd", "pragma unknown-command = disallow; nonexistent-cmd-c16", false},
	{"strict-unknown-cmd-in-fn", "fn sc { pragma unknown-command = disallow; nonexistent-cmd-c16 }", false},
	// not static errors (controls): must run
	{"ctl-break", "break", false}, {"ctl-unknown-cmd", "nonexistent-cmd-c16", false},
	{"ctl-var-twice", "var x7 x7 = 1 2", false}, {"ctl-tmp-in-fn", "fn t9 { tmp a = 9; put $a }; t9", false},
}

type gen struct {
	c     *reg.Ctx
	fresh bool
	del   bool
}

func (g *gen) pick(ss ...string) string { return ss[g.c.Rand.Intn(len(ss))] }

// one side-effecting, deterministic, valid statement (given the setup names)
func (g *gen) effectStmt() string {
	r := g.c.Rand
	n := 30
	if !g.fresh {
		n = 33
	}
	switch r.Intn(n) {
	case 0:
		return "echo " + g.pick("hello", "a b", "'q é'")
	case 1:
		return "print raw"
	case 2:
		return "put foo bar"
	case 3:
		return "put $a $@l"
	case 4:
		return "echo to-err >&2"
	case 5:
		return "set a = " + g.pick("2", "two", "[n]")
	case 6:
		return "set l = [$@l z]"
	case 7:
		return "set a l = A [L]"
	case 8:
		return "set m[k] = w"
	case 9:
		return "var b = 3"
	case 10:
		return "var a = shadow"
	case 11:
		return "fn g { echo g }"
	case 12:
		if !g.del {
			g.del = true
			return "del tmpv"
		}
		return "nop"
	case 13:
		return "echo data > $dir/f1"
	case 14:
		return "echo more >> $dir/f1"
	case 15:
		return "print x > $dir/" + g.pick("f2", "f3")
	case 16:
		return "set E:C16_E1 = val"
	case 17:
		return "set-env C16_E2 v2"
	case 18:
		return "set value-out-indicator = '> '"
	case 19:
		return "set notify-bg-job-success = $false"
	case 20:
		return "f arg"
	case 21:
		return "h"
	case 22:
		return "{ echo nested }"
	case 23:
		return "if $true { echo yes } else { echo no }"
	case 24:
		return "for x [1 2] { put $x }"
	case 25:
		return "each {|x| put $x } [p q]"
	case 26:
		return "put $num-bg-jobs (count $args)"
	case 27:
		return g.pick("use c16lib", "use c16lib; c16lib:hi", "use str; put (str:to-upper ab)", "use math")
	case 28:
		return "try { fail oops } catch e { echo caught }"
	case 29:
		return g.pick("var v2 = (put computed)", "put a | each {|x| set a = $x }", "while $false { }", "pragma unknown-command = external")
	case 30:
		return "c16-tick"
	case 31:
		return "set c16-bvar = b1"
	default:
		return "c16-tick; put $c16-bvar"
	}
}

// program is a generated source with its error-free variant.
type program struct {
	src, valid string
	class      string
	pos        string // where the error was put
}

func (g *gen) wrap(e string) (string, string) {
	switch g.c.Rand.Intn(10) {
	case 0:
		return "fn zz { " + e + " }", "in-fn"
	case 1:
		return "if $false { " + e + " }", "in-dead-if"
	case 2:
		return "nop { " + e + " }", "in-lambda"
	case 3:
		return "echo same-line; " + e, "same-line"
	case 4:
		return "put z | each {|x| " + e + " }", "in-pipeline"
	case 5:
		return "{ { " + e + " } }", "deep"
	default:
		return e, "stmt"
	}
}

func (g *gen) program() program {
	r := g.c.Rand
	var pre []string
	if g.fresh {
		pre = append(pre, strings.Split(strings.TrimSuffix(setupCode(filepath.Join(g.c.Scratch, "w")), "\n"), "\n")...)
	}
	nBefore := 1 + r.Intn(4)
	nAfter := r.Intn(3)
	var before, after []string
	for i := 0; i < nBefore; i++ {
		before = append(before, g.effectStmt())
	}
	for i := 0; i < nAfter; i++ {
		after = append(after, g.effectStmt())
	}
	sep := "\n"
	if r.Intn(6) == 0 {
		sep = "; "
	}
	join := func(parts ...[]string) string {
		var all []string
		for _, p := range parts {
			all = append(all, p...)
		}
		return strings.Join(all, sep)
	}
	end := g.pick("\n", "\n", "")
	valid := join(pre, before, after) + end
	if r.Intn(5) == 0 {
		return program{valid, valid, "valid", ""}
	}
	ef := errForms[r.Intn(len(errForms))]
	etext, pos := g.wrap(ef.text)
	kind := "compile"
	if ef.parse {
		kind = "parse"
	}
	if strings.HasPrefix(ef.tag, "ctl-") {
		kind = "control"
	}
	if r.Intn(12) == 0 {
		// error first: nothing before it
		return program{join(pre, []string{etext}, before, after) + end, valid, kind + ":" + ef.tag, "first/" + pos}
	}
	if nAfter == 0 && end == "" {
		pos += "/at-eof"
	}
	return program{join(pre, before, []string{etext}, after) + end, valid, kind + ":" + ef.tag, pos}
}

var soupTokens = []string{"{", "}", "[", "]", "(", ")", "|", ";", "$a", "$", "'", "\"", "&", ">", "<", "=", "\n", " ",
	"a", "set", "var", "fn", "if", "echo", "put", "x", "$nope", "~", "@", "{|", "|}", "\\", "#", "1", "del", "use", "try", "catch", "else"}

func (g *gen) soup() program {
	n := 1 + g.c.Rand.Intn(8)
	var sb strings.Builder
	sb.WriteString("echo before\n")
	for i := 0; i < n; i++ {
		sb.WriteString(soupTokens[g.c.Rand.Intn(len(soupTokens))])
		if g.c.Rand.Intn(2) == 0 {
			sb.WriteByte(' ')
		}
	}
	return program{sb.String(), "echo before\n", "soup", ""}
}

// ---------------------------------------------------------------- static checks

type checkObs struct {
	Parse, Compile []rng
	Direct         string
}

func (s *subject) check(code string, withWriter bool) (o checkObs) {
	defer func() {
		if p := recover(); p != nil {
			o.Direct = fmt.Sprintf("Go panic inside Evaler.Check: %v", p)
		}
	}()
	var pe, ce error
	if withWriter {
		var w bytes.Buffer
		pe, _, ce = s.ev.Check(parse.Source{Name: srcName, Code: code}, &w)
	} else {
		pe, _, ce = s.ev.Check(parse.Source{Name: srcName, Code: code}, nil)
	}
	return checkObs{Parse: rangesOfParse(pe), Compile: rangesOfCompile(ce)}
}

type coObs struct {
	Exit   int
	Ranges []rng
	Stdout string `json:",omitempty"`
}

func parseCoJSON(out []byte) ([]rng, bool) {
	var errs []struct {
		Start, End int
	}
	if err := json.Unmarshal(bytes.TrimSpace(out), &errs); err != nil {
		return nil, false
	}
	var rs []rng
	for _, e := range errs {
		rs = append(rs, rng{e.Start, e.End})
	}
	return rs, true
}

// compileOnly runs the shell program's script entry with -compileonly -json in-process.
func compileOnly(c *reg.Ctx, code string) (o coObs, direct string) {
	defer func() {
		if p := recover(); p != nil {
			direct = fmt.Sprintf("Go panic inside elvish -compileonly: %v", p)
		}
	}()
	path := filepath.Join(c.Scratch, "co.elv")
	os.WriteFile(path, []byte(code), 0o644)
	outF, _ := os.Create(filepath.Join(c.Scratch, "co.out"))
	errF, _ := os.Create(filepath.Join(c.Scratch, "co.err"))
	defer outF.Close()
	defer errF.Close()
	exit := prog.Run([3]*os.File{eval.DevNull, outF, errF}, []string{"elvish", "-compileonly", "-json", path}, &shell.Program{})
	out, _ := os.ReadFile(filepath.Join(c.Scratch, "co.out"))
	rs, ok := parseCoJSON(out)
	if !ok {
		return coObs{Exit: exit, Stdout: string(out)}, "elvish -compileonly -json printed something that is not a JSON error list: " + string(out)
	}
	return coObs{Exit: exit, Ranges: rs}, ""
}

// the real binary (thorough tier): -compileonly -json, and plain script mode
func binaryRuns(c *reg.Ctx, bin, code string, static bool) (o coObs, direct string) {
	path := filepath.Join(c.Scratch, "bin.elv")
	os.WriteFile(path, []byte(code), 0o644)
	cmd := exec.Command(bin, "-compileonly", "-json", path)
	cmd.Dir = c.Scratch
	out, err := cmd.Output()
	exit := 0
	if ee, ok := err.(*exec.ExitError); ok {
		exit = ee.ExitCode()
	} else if err != nil {
		return o, "cannot run " + bin + ": " + err.Error()
	}
	rs, ok := parseCoJSON(out)
	if !ok {
		return coObs{Exit: exit, Stdout: string(out)}, "elvish -compileonly -json printed something that is not a JSON error list: " + string(out)
	}
	o = coObs{Exit: exit, Ranges: rs}
	if static {
		// script mode on code with a static error: no output on stdout, status 2
		cmd := exec.Command(bin, path)
		cmd.Dir = c.Scratch
		var so bytes.Buffer
		cmd.Stdout = &so
		err := cmd.Run()
		ex := 0
		if ee, ok := err.(*exec.ExitError); ok {
			ex = ee.ExitCode()
		}
		if so.Len() > 0 || ex != 2 {
			return o, fmt.Sprintf("elvish <script> with a static error: exit %d, stdout %q", ex, so.String())
		}
	}
	return o, ""
}

// ---------------------------------------------------------------- one case

type desc struct {
	Src       string   `json:"src"`
	Mode      int      `json:"mode"`
	Fresh     bool     `json:"fresh_context"`
	Pos       string   `json:"error_at,omitempty"`
	RefParse  []rng    `json:"ref_parse,omitempty"`
	RefComp   []rng    `json:"ref_compile,omitempty"`
	WouldDo   []effect `json:"error_free_variant_does,omitempty"`
	Eval      evalObs  `json:"eval"`
	Check     checkObs `json:"check"`
	CheckEffs []effect `json:"check_effects,omitempty"`
	CO        *coObs   `json:"compileonly,omitempty"`
}

func kindCoq(k string) string {
	switch k {
	case "parse":
		return "KParse"
	case "compile":
		return "KCompile"
	case "exc":
		return "KExc"
	}
	return "KOk"
}

func splitGlobal(es []effect) ([]effect, bool) {
	var out []effect
	same := true
	for _, e := range es {
		if e.Kind == 7 {
			same = false
			continue
		}
		out = append(out, e)
	}
	return out, same
}

// number of direct findings (panic, hang, leaked lock) so far; the run stops
// after maxDirects of them (each hang costs seconds)
var directs int

const maxDirects = 5

func runCase(c *reg.Ctx, p program, fresh bool, mode int, bin string) {
	d := desc{Src: p.src, Mode: mode, Fresh: fresh, Pos: p.pos}
	direct := ""
	note := func(s string) {
		if direct == "" && s != "" {
			direct = s
		}
	}
	setup := setupCode(filepath.Join(c.Scratch, "w"))

	// ---- twin B: reference inputs of the model
	B := newSubject(c, fresh, true)
	if !fresh {
		if o := B.evalCapture(setup, 0); o.Kind != "ok" {
			panic("c16: setup code failed in twin: " + o.Kind + o.Direct)
		}
	}
	tree, perr := parse.Parse(parse.Source{Name: srcName, Code: p.src}, parse.Config{})
	d.RefParse = rangesOfParse(perr)
	func() {
		defer func() {
			if r := recover(); r != nil {
				note(fmt.Sprintf("Go panic inside Evaler.CheckTree: %v", r))
			}
		}()
		_, cerr := B.ev.CheckTree(tree, nil)
		d.RefComp = rangesOfCompile(cerr)
	}()
	// what the code would do if it ran: the program itself when it has no static
	// error, else its error-free variant
	toRun := p.valid
	if len(d.RefParse) == 0 && len(d.RefComp) == 0 {
		toRun = p.src
	}
	would := B.evalCapture(toRun, mode)
	note(would.Direct) // a panic or hang while the error-free variant runs is a finding too
	wouldEffs, _ := splitGlobal(would.Effects)
	d.WouldDo = wouldEffs
	refExc := would.Kind == "exc"

	// ---- subject A
	A := newSubject(c, fresh, false)
	if !fresh {
		if o := A.evalCapture(setup, 0); o.Kind != "ok" {
			panic("c16: setup code failed: " + o.Kind + o.Direct)
		}
	}
	s0 := A.snap()
	d.Check = A.check(p.src, c.Rand.Intn(2) == 0)
	note(d.Check.Direct)
	s1 := A.snap()
	d.CheckEffs = diff(s0, s1)
	if s0.gptr != s1.gptr {
		d.CheckEffs = append(d.CheckEffs, effect{Kind: 7, Name: "Global()"})
	}
	withCO := fresh && mode == 0
	if withCO {
		co, dir := compileOnly(c, p.src)
		note(dir)
		d.CO = &co
	}
	d.Eval = A.evalCapture(p.src, mode)
	note(d.Eval.Direct)
	if withCO && bin != "" && direct == "" {
		co, dir := binaryRuns(c, bin, p.src, d.Eval.Kind == "parse" || d.Eval.Kind == "compile")
		note(dir)
		if dir == "" && (co.Exit != d.CO.Exit || fmt.Sprint(co.Ranges) != fmt.Sprint(d.CO.Ranges)) {
			note(fmt.Sprintf("the elvish binary and shell.Program in-process disagree on -compileonly: %v vs %v", co, *d.CO))
		}
	}

	evEffs, same := splitGlobal(d.Eval.Effects)
	co := None()
	if d.CO != nil {
		co = Some(Pair(Z(int64(d.CO.Exit)), rangesCoq(d.CO.Ranges)))
	}
	obs := App("mkObs", kindCoq(d.Eval.Kind), rangesCoq(d.Eval.Ranges), effsCoq(evEffs), Bool(same),
		rangesCoq(d.Check.Parse), rangesCoq(d.Check.Compile), effsCoq(d.CheckEffs), co)
	term := App("mkCase", N(uint64(mode)), rangesCoq(d.RefParse), rangesCoq(d.RefComp),
		effsCoq(wouldEffs), Bool(refExc), Bool(withCO), obs)
	refStatic := len(d.RefParse) > 0 || len(d.RefComp) > 0
	cs := reg.Case{Coq: term, Desc: d, Key: fmt.Sprintf("%v/%d/%q", fresh, mode, p.src),
		Nontrivial: refStatic && len(wouldEffs) > 0, Class: p.class}
	if direct != "" {
		cs.Coq, cs.Direct = "", direct
		directs++
	}
	bucket := p.class
	if i := strings.IndexByte(bucket, ':'); i >= 0 {
		bucket = bucket[:i]
	}
	ctx := "repl"
	if fresh {
		ctx = "fresh"
	}
	c.Count(fmt.Sprintf("%s/%s/mode%d", bucket, ctx, mode))
	if p.pos != "" {
		c.Count("error-position/" + p.pos)
	}
	c.Count("eval-result/" + d.Eval.Kind)
	c.Emit(cs)
}

// Nested evaluations go through Frame.PrepareEval, which has the same phase
// structure (parse; compile; on error return; prepare; exec).  The inner code has
// a static error after an echo of a marker: the marker must never be printed.
var nestedCases = []struct{ tag, code string }{
	{"eval-compile-error", "eval 'echo inner-ran; put $nonexistent'"},
	{"eval-parse-error", "eval 'echo inner-ran; echo ('"},
	{"eval-special-form", "eval 'echo inner-ran\nvar inner = 1\nif'"},
	{"eval-ns-compile-error", "eval &ns=(ns [&]) 'echo inner-ran; set nonexist = 1'"},
	{"use-compile-error", "use c16bad"},
	{"use-parse-error", "use c16badparse"},
	{"use-twice", "try { use c16bad } catch { }; use c16bad"},
	{"eval-in-fn", "fn w { eval 'echo inner-ran; del nonexist' }; w"},
}

func runNested(c *reg.Ctx) {
	for _, nc := range nestedCases {
		A := newSubject(c, false, false)
		if o := A.evalCapture(setupCode(A.dir), 0); o.Kind != "ok" {
			panic("c16: setup code failed: " + o.Kind + o.Direct)
		}
		o := A.evalCapture(nc.code, 0)
		direct := o.Direct
		if direct == "" && o.Kind != "exc" {
			direct = "nested evaluation of code with a static error did not raise an exception: Eval returned " + o.Kind
		}
		for _, e := range o.Effects {
			if direct == "" && (e.Kind <= 2 || e.Name == "inner") && e.New != nil && strings.Contains(*e.New+e.Name, "inner") {
				direct = fmt.Sprintf("nested evaluation (eval/use) reported a static error but part of that code ran: %q", *e.New)
			}
		}
		c.Count("nested")
		if direct != "" {
			directs++
		}
		c.Emit(reg.Case{Desc: map[string]any{"src": nc.code, "eval": o}, Key: "nested/" + nc.code,
			Nontrivial: true, Class: "nested:" + nc.tag, Direct: direct})
		if directs >= maxDirects {
			return
		}
	}
}

func buildBinary(c *reg.Ctx) string {
	if b := os.Getenv("C16_ELVISH"); b != "" {
		return b
	}
	repo := os.Getenv("VERIF_REPO")
	if repo == "" {
		repo = "/repo"
	}
	bin := filepath.Join(c.Scratch, "elvish-bin")
	cmd := exec.Command("go", "build", "-o", bin, "./cmd/elvish")
	cmd.Dir = repo
	if out, err := cmd.CombinedOutput(); err != nil {
		fmt.Fprintf(os.Stderr, "c16: cannot build elvish: %v\n%s\n", err, out)
		return ""
	}
	return bin
}

func run(c *reg.Ctx) {
	os.MkdirAll(filepath.Join(c.Scratch, "lib"), 0o755)
	os.WriteFile(filepath.Join(c.Scratch, "lib", "c16lib.elv"), []byte(libCode), 0o644)
	os.WriteFile(filepath.Join(c.Scratch, "lib", "c16bad.elv"), []byte("echo inner-ran\nvar q = 1\nput $nonexistent\n"), 0o644)
	os.WriteFile(filepath.Join(c.Scratch, "lib", "c16badparse.elv"), []byte("echo inner-ran\necho (\n"), 0o644)
	runNested(c)
	if directs >= maxDirects {
		return
	}
	bin := ""
	if c.Tier == "thorough" {
		bin = buildBinary(c)
	}
	binEvery := 25

	// 1. every error form once, plain, after one fixed effect of every kind, in both contexts
	fixedEffects := "echo hello\nput v\nset a = 2\nvar b = 3\necho data > $dir/f1\nset E:C16_E1 = val\nset value-out-indicator = '> '\n"
	for _, fresh := range []bool{true, false} {
		pre := ""
		if fresh {
			pre = setupCode(filepath.Join(c.Scratch, "w"))
		}
		for _, ef := range errForms {
			kind := "compile"
			if ef.parse {
				kind = "parse"
			}
			if strings.HasPrefix(ef.tag, "ctl-") {
				kind = "control"
			}
			valid := pre + fixedEffects + "echo end\n"
			src := pre + fixedEffects + ef.text + "\necho end\n"
			runCase(c, program{src, valid, kind + ":" + ef.tag, "stmt"}, fresh, 0, bin)
			if directs >= maxDirects {
				return
			}
		}
	}
	// 2. generated programs
	for i := 0; i < c.N; i++ {
		fresh := c.Rand.Intn(5) < 2
		mode := 0
		if c.Rand.Intn(7) == 0 {
			mode = 1
		}
		g := &gen{c: c, fresh: fresh}
		var p program
		if c.Rand.Intn(12) == 0 {
			p = g.soup()
		} else {
			p = g.program()
		}
		b := ""
		if bin != "" && i%binEvery == 0 {
			b = bin
		}
		runCase(c, p, fresh, mode, b)
		if directs >= maxDirects {
			return
		}
	}
}
