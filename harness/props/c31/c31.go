// Package c31: terminal input decoding (pkg/cli/term readEvent / readRune)
// driven through the verif hook with a fake byte source. A stream is a list of
// items (a byte, or a gap longer than any timeout); every read is logged with
// the timeout it was issued with. readEvent is called until it reports the
// end of input; each call's outcome and read log are the observation.
package c31

import (
	"encoding/hex"
	"errors"
	"fmt"
	"sort"
	"strings"
	"time"
	"unicode"
	"unicode/utf8"

	"src.elv.sh/pkg/cli/term"
	"src.elv.sh/pkg/ui"
	. "verifharness/coqfmt"
	"verifharness/reg"
)

func init() {
	reg.Register(&reg.Spec{ID: "C31",
		Imports: "From verif Require Import lib.Base model.C31.",
		Judge:   "C31.judge", Shard: 800, Run: run})
}

const gap = -1 // an item: a silence longer than any timeout

var errEOF = errors.New("verif: end of input")

type hang struct{ reads int }

// fake byte source
type fake struct {
	items []int
	pos   int
	log   []int64
	reads int
	limit int
}

func (f *fake) ReadByteWithTimeout(t time.Duration) (byte, error) {
	f.log = append(f.log, int64(t))
	f.reads++
	if f.reads > f.limit {
		panic(hang{f.reads})
	}
	for {
		if f.pos >= len(f.items) {
			return 0, errEOF
		}
		it := f.items[f.pos]
		f.pos++
		if it >= 0 {
			return byte(it), nil
		}
		if t >= 0 {
			return 0, term.VerifErrTimeout()
		}
		// a read without timeout waits through the gap
	}
}

type call struct {
	Obs  string  `json:"obs"` // Coq term
	Log  []int64 `json:"log"`
	Used int     `json:"used"` // items consumed
	eof  bool
}

var seqMsgs = map[string]string{
	"incomplete mouse event": "IncompleteMouse",
	"incomplete CSI":         "IncompleteCSI",
	"bad CPR":                "BadCPR",
	"bad SGR mouse event":    "BadSGR",
	"bad CSI":                "BadCSI",
	"bad G3":                 "BadG3",
}

func obsTerm(ev term.Event, err error) (string, bool) {
	if (ev == nil) == (err == nil) {
		return "OBad", false
	}
	if err != nil {
		switch {
		case err == errEOF:
			return "(OErr ErrEOF)", true
		case err == term.VerifErrTimeout():
			return "(OErr ErrTimeout)", false
		}
		if msg, ok := term.VerifSeqErrorMsg(err); ok {
			k, known := seqMsgs[msg]
			if !known {
				k = "SeqOther"
			}
			return "(OErr (ErrSeq " + k + "))", false
		}
		return "(OErr ErrOther)", false
	}
	switch e := ev.(type) {
	case term.KeyEvent:
		return App("OEv", App("EKey", App("mkKey", Z(int64(e.Rune)), Z(int64(e.Mod))))), false
	case term.MouseEvent:
		return App("OEv", App("EMouse", Z(int64(e.Line)), Z(int64(e.Col)), Bool(e.Down), Z(int64(e.Button)), Z(int64(e.Mod)))), false
	case term.CursorPosition:
		return App("OEv", App("ECursor", Z(int64(e.Line)), Z(int64(e.Col)))), false
	case term.PasteSetting:
		return App("OEv", App("EPaste", Bool(bool(e)))), false
	}
	return "OBad", false
}

// decode runs readEvent until the end of input. direct != "" reports a crash or hang.
func decode(items []int) (calls []call, direct string) {
	f := &fake{items: items, limit: 20*len(items) + 200}
	type res struct {
		calls  []call
		direct string
	}
	ch := make(chan res, 1)
	go func() {
		var cs []call
		defer func() {
			if r := recover(); r != nil {
				if h, ok := r.(hang); ok {
					ch <- res{cs, fmt.Sprintf("hang: readEvent keeps reading (%d reads for %d items, at item %d)", h.reads, len(items), f.pos)}
				} else {
					ch <- res{cs, fmt.Sprintf("panic in readEvent: %v", r)}
				}
			}
		}()
		for n := 0; ; n++ {
			if n > len(items)+2 {
				ch <- res{cs, fmt.Sprintf("no progress: %d readEvent calls on %d items without reaching the end of input", n, len(items))}
				return
			}
			f.log = nil
			before := f.pos
			ev, err := term.VerifReadEvent(f)
			o, eof := obsTerm(ev, err)
			cs = append(cs, call{Obs: o, Log: f.log, Used: f.pos - before, eof: eof})
			if eof {
				break
			}
		}
		ch <- res{cs, ""}
	}()
	select {
	case r := <-ch:
		return r.calls, r.direct
	case <-time.After(10 * time.Second):
		return nil, "hang: readEvent did not return within 10s on a reader that never blocks"
	}
}

func chunksTerm(items []int) string {
	var parts []string
	var cur []byte
	flush := func() {
		if len(cur) > 0 {
			parts = append(parts, App("Bs", Bytes(cur)))
			cur = nil
		}
	}
	for _, it := range items {
		if it == gap {
			flush()
			parts = append(parts, "Gap")
		} else {
			cur = append(cur, byte(it))
		}
	}
	flush()
	return List(parts)
}

func itemsString(items []int) string {
	var sb strings.Builder
	var cur []byte
	flush := func() {
		if len(cur) > 0 {
			sb.WriteString(hex.EncodeToString(cur))
			cur = nil
		}
	}
	for _, it := range items {
		if it == gap {
			flush()
			sb.WriteString("_")
		} else {
			cur = append(cur, byte(it))
		}
	}
	flush()
	return sb.String()
}

type gr struct {
	Gaps int
	R    rune
}

type desc struct {
	Stream string `json:"stream"` // hex, "_" = gap
	Text   string `json:"text,omitempty"`
	Gen    string `json:"gen"`
	Calls  []call `json:"calls"`
}

func emit(c *reg.Ctx, gen, class string, items []int, text []gr) {
	calls, direct := decode(items)
	c.Count(gen)
	d := desc{Stream: itemsString(items), Gen: gen, Calls: calls}
	txt := None()
	if text != nil {
		var ps []string
		var sb strings.Builder
		for _, g := range text {
			ps = append(ps, Pair(Nat(g.Gaps), N(uint64(g.R))))
			sb.WriteRune(g.R)
		}
		txt = Some(List(ps))
		d.Text = sb.String()
	}
	key := d.Stream
	nontrivial := len(items) >= 2
	if direct != "" {
		c.Emit(reg.Case{Desc: d, Key: key, Nontrivial: nontrivial, Class: class, Direct: direct})
		return
	}
	var os []string
	for _, cl := range calls {
		ls := make([]string, len(cl.Log))
		for i, t := range cl.Log {
			ls[i] = Z(t)
		}
		os = append(os, Pair(cl.Obs, List(ls)))
	}
	c.Emit(reg.Case{
		Coq:  App("CStream", chunksTerm(items), txt, List(os)),
		Desc: d, Key: key, Nontrivial: nontrivial, Class: class,
	})
}

// ---------------------------------------------------------------- tables
func emitTables(c *reg.Ctx) {
	g3, byLast, tilde, tilde27 := term.VerifKeyTables()
	ks, us := term.VerifTimeouts()
	keyTab := func(m map[rune]ui.Key) string {
		var ks []int
		for k := range m {
			ks = append(ks, int(k))
		}
		sort.Ints(ks)
		var ps []string
		for _, k := range ks {
			v := m[rune(k)]
			ps = append(ps, Pair(Z(int64(k)), App("mkKey", Z(int64(v.Rune)), Z(int64(v.Mod)))))
		}
		return List(ps)
	}
	runeTab := func(m map[int]rune) string {
		var ks []int
		for k := range m {
			ks = append(ks, k)
		}
		sort.Ints(ks)
		var ps []string
		for _, k := range ks {
			ps = append(ps, Pair(Z(int64(k)), Z(int64(m[k]))))
		}
		return List(ps)
	}
	c.Count("tables")
	c.Emit(reg.Case{
		Coq: App("CTables", keyTab(g3), keyTab(byLast), runeTab(tilde), runeTab(tilde27), Z(int64(ks)), Z(int64(us))),
		Desc: map[string]any{"tables": "g3Seq csiSeqByLast csiSeqTilde csiSeqTilde27 keySeqTimeout utf8SeqTimeout",
			"keySeqTimeout": int64(ks), "utf8SeqTimeout": int64(us), "g3": len(g3), "byLast": len(byLast),
			"tilde": len(tilde), "tilde27": len(tilde27)},
		Key: "tables", Class: "tables",
	})
}

// ---------------------------------------------------------------- generators
func bytesOf(s string) []int {
	r := make([]int, len(s))
	for i := 0; i < len(s); i++ {
		r[i] = int(s[i])
	}
	return r
}

var finals = "ABCDHFZabcdPQRSMm~$^@RuEIq "

func num(c *reg.Ctx) string {
	switch c.Rand.Intn(12) {
	case 0:
		return ""
	case 1:
		return "200"
	case 2:
		return "201"
	case 3:
		return "27"
	case 4:
		return "1"
	case 5: // overflow of int64
		return []string{"9223372036854775807", "9223372036854775808", "18446744073709551616", "18446744073709551617",
			"99999999999999999999999", "18446744073709551621"}[c.Rand.Intn(6)]
	case 6:
		return fmt.Sprint(c.Rand.Intn(70))
	case 7:
		return fmt.Sprint(c.Rand.Intn(18))
	case 8:
		return "0" + fmt.Sprint(c.Rand.Intn(30))
	default:
		return fmt.Sprint(c.Rand.Intn(26))
	}
}

// a well-formed (or nearly) escape sequence
func genSeq(c *reg.Ctx) string {
	pre := "\x1b"
	if c.Rand.Intn(5) == 0 {
		pre = "\x1b\x1b"
	}
	pick := func(s string) string { return string(s[c.Rand.Intn(len(s))]) }
	switch c.Rand.Intn(14) {
	case 0: // CSI by last
		return pre + "[" + pick("ABCDHFZabcd")
	case 1: // modified
		return pre + "[1;" + fmt.Sprint(c.Rand.Intn(19)) + pick("ABCDHFZabcd")
	case 2: // tilde
		return pre + "[" + num(c) + "~"
	case 3:
		return pre + "[" + num(c) + ";" + fmt.Sprint(c.Rand.Intn(19)) + "~"
	case 4:
		return pre + "[27;" + fmt.Sprint(c.Rand.Intn(19)) + ";" + fmt.Sprint(c.Rand.Intn(70)) + "~"
	case 5: // urxvt
		return pre + "[" + num(c) + pick("$^@")
	case 6: // SGR mouse
		return pre + "[<" + fmt.Sprint(c.Rand.Intn(40)) + ";" + fmt.Sprint(c.Rand.Intn(300)) + ";" + fmt.Sprint(c.Rand.Intn(100)) + pick("mM")
	case 7: // X10 mouse
		b := []byte{byte(32 + c.Rand.Intn(64)), byte(32 + c.Rand.Intn(90)), byte(32 + c.Rand.Intn(90))}
		if c.Rand.Intn(4) == 0 {
			return pre + "[M" + string(rune(32+c.Rand.Intn(400))) + string(rune(32+c.Rand.Intn(3000))) + string(b[2:])
		}
		return pre + "[M" + string(b)
	case 8: // CPR
		return pre + "[" + num(c) + ";" + num(c) + "R"
	case 9: // G3
		return pre + "O" + pick("ABCDHFMabcdPQRSxZ")
	case 10: // Alt-key
		if c.Rand.Intn(3) == 0 {
			return pre + string(rune(c.Rand.Intn(32)))
		}
		return pre + string(rune(32+c.Rand.Intn(96)))
	case 11: // paste
		return pre + "[" + []string{"", "", "<"}[c.Rand.Intn(3)] + []string{"200", "201"}[c.Rand.Intn(2)] + "~"
	case 12: // arbitrary parameters
		n := c.Rand.Intn(5)
		s := pre + "["
		if c.Rand.Intn(4) == 0 {
			s += "<"
		}
		for i := 0; i < n; i++ {
			if i > 0 || c.Rand.Intn(5) == 0 {
				s += ";"
			}
			s += num(c)
		}
		return s + pick(finals)
	default:
		return pre + "[" + num(c) + ";" + num(c) + ";" + num(c) + pick(finals)
	}
}

var soup = []string{"\x1b", "\x1b", "[", "[", "O", "<", "M", "m", "R", "~", ";", ";", "0", "1", "2", "5", "7", "9",
	"200", "201", "27", "A", "Z", "a", "P", "$", "^", "@", "x", " ", "\t", "\n", "\r", "\x7f", "\x00", "\x1e", "\x1f",
	"é", "中", "😀", "\xc3", "\xe4\xb8", "\xf0\x9f", "\x80", "\xbf", "\xf8", "\xff", "\xc0\x9b", "\xe0\x80\x9b"}

func genSoup(c *reg.Ctx) []int {
	n := 1 + c.Rand.Intn(10)
	var items []int
	for i := 0; i < n; i++ {
		switch r := c.Rand.Intn(20); {
		case r < 2:
			items = append(items, gap)
		case r < 3:
			items = append(items, c.Rand.Intn(256))
		default:
			items = append(items, bytesOf(soup[c.Rand.Intn(len(soup))])...)
		}
	}
	return items
}

// mutate: truncate, insert gaps, flip a byte
func mutate(c *reg.Ctx, items []int) ([]int, string) {
	switch c.Rand.Intn(6) {
	case 0:
		if len(items) > 1 {
			return items[:1+c.Rand.Intn(len(items)-1)], "truncated"
		}
	case 1:
		if len(items) > 1 {
			k := 1 + c.Rand.Intn(len(items)-1)
			out := append(append(append([]int{}, items[:k]...), gap), items[k:]...)
			return out, "gap-inside"
		}
	case 2:
		if len(items) > 0 {
			out := append([]int{}, items...)
			out[c.Rand.Intn(len(out))] = c.Rand.Intn(256)
			return out, "byte-flipped"
		}
	case 3:
		return append(append([]int{}, items...), gap), "gap-after"
	}
	return items, "intact"
}

var plainRanges = [][2]rune{{0x20, 0x7e}, {0x20, 0x7e}, {0xa0, 0x24f}, {0x370, 0x3ff}, {0x400, 0x4ff}, {0x7f0, 0x810},
	{0x4e00, 0x9fff}, {0x3040, 0x30ff}, {0xfff0, 0xfffd}, {0x10000, 0x10100}, {0x1f600, 0x1f64f}, {0x20000, 0x2a6df},
	{0xd7f0, 0xd7ff}, {0xe000, 0xe010}, {0x10fff0, 0x10ffff}, {0x80, 0x9f}}

var plainBoundary = []rune{0x20, 0x7e, 0x80, 0xa0, 0x7ff, 0x800, 0xfff, 0x1000, 0xd7ff, 0xe000, 0xfffd, 0xffff, 0x10000,
	0x3ffff, 0x40000, 0xfffff, 0x100000, 0x10ffff, '[', 'O', 'M', '<', ';', '~', '0', 0x9b, 0x1b + 0x40, 0x6db, 0x101b, 0x1b1b}

// a rune that is a Unicode scalar value and not a control character
func genPlainRune(c *reg.Ctx, printableOnly bool) rune {
	for {
		var r rune
		if c.Rand.Intn(6) == 0 {
			r = plainBoundary[c.Rand.Intn(len(plainBoundary))]
		} else {
			rg := plainRanges[c.Rand.Intn(len(plainRanges))]
			r = rg[0] + rune(c.Rand.Intn(int(rg[1]-rg[0])+1))
		}
		if !utf8.ValidRune(r) || r < 0x20 || r == 0x7f {
			continue
		}
		if printableOnly && !unicode.IsPrint(r) {
			continue
		}
		return r
	}
}

func genText(c *reg.Ctx, gaps bool, printableOnly bool) ([]int, []gr) {
	n := 1 + c.Rand.Intn(12)
	var items []int
	text := []gr{}
	for i := 0; i < n; i++ {
		g := 0
		if gaps && c.Rand.Intn(3) == 0 {
			g = 1 + c.Rand.Intn(2)
		}
		r := genPlainRune(c, printableOnly)
		for j := 0; j < g; j++ {
			items = append(items, gap)
		}
		items = append(items, bytesOf(string(r))...)
		text = append(text, gr{g, r})
	}
	return items, text
}

var exAlphabetQuick = []string{"\x1b", "[", "O", "<", "M", ";", "1", "~", "A", "R", "m", "_", "\xc3", "\xa9"}
var exAlphabetThorough = []string{"\x1b", "[", "O", "<", "M", ";", "1", "2", "0", "~", "A", "R", "m", "_", "\xc3", "\xa9", "x", "\x00", "\xf0", "$"}

func exhaustive(c *reg.Ctx, alpha []string, maxLen int) {
	var rec func(prefix []int, depth int)
	rec = func(prefix []int, depth int) {
		if depth > 0 {
			emit(c, "exhaustive", "exhaustive", prefix, nil)
		}
		if depth == maxLen {
			return
		}
		for _, a := range alpha {
			it := gap
			if a != "_" {
				it = int(a[0])
			}
			rec(append(append([]int{}, prefix...), it), depth+1)
		}
	}
	rec(nil, 0)
}

var fixed = []string{
	"", "_", "\x1b", "\x1b_", "\x1b\x1b", "\x1b\x1b_x", "\x1b[", "\x1b[_A", "\x1bO", "\x1bO_P", "\x1b\x1bOP", "\x1b\x1b[A",
	"\x1b[A", "\x1b[1;5A", "\x1b[1;17A", "\x1b[1;0A", "\x1b[;A", "\x1b[;;A", "\x1b[3~", "\x1b[3;5~", "\x1b[27;5;9~", "\x1b[27;5;63~",
	"\x1b[200~", "\x1b[201~", "\x1b[<200~", "\x1b[0200~", "\x1b[18446744073709551816~", "\x1b[3$", "\x1b[3^", "\x1b[3@",
	"\x1b[<0;10;20M", "\x1b[<3;1;1m", "\x1b[<28;1;1M", "\x1b[<0;1M", "\x1b[0;10;20M", "\x1b[M !!", "\x1b[M#!!", "\x1b[M\x3f\xc4\x80\xe4\xb8\xad",
	"\x1b[M !", "\x1b[M", "\x1b[10;20R", "\x1b[10R", "\x1b[<10;20R", "\x1b[1;", "\x1b[1", "\x1b[<", "\x1b[x", "\x1bOx", "\x1bx", "\x1b\x00", "\x1b\x7f",
	"\x1b\x1b\x1b", "\x1b\xc3\xa9", "\x1b\xc3_\xa9", "\xc3_\xa9", "\xe4\xb8", "\xf0\x9f\x98", "\x80", "\xff", "\xc0\x9b[A", "a\x1b[Ab", "\x1b[1;5A\x1b[1;5B",
	"\x00", "\t", "\n", "\r", "\x7f", "\x1e", "\x1f", "\x01", "\x1d",
}

func parseFixed(s string) []int {
	var items []int
	for i := 0; i < len(s); i++ {
		if s[i] == '_' {
			items = append(items, gap)
		} else {
			items = append(items, int(s[i]))
		}
	}
	return items
}

func run(c *reg.Ctx) {
	emitTables(c)
	for _, s := range fixed {
		emit(c, "fixed", "fixed", parseFixed(s), nil)
	}
	// every leader byte followed by enough continuation-like bytes, and cut short
	for b := 0; b < 256; b++ {
		emit(c, "leaders", "leaders", []int{b, 0x9b, 0xa9, 0x80, 'x'}, nil)
		if b >= 0x80 {
			emit(c, "leaders", "leaders", []int{b, 0xbf}, nil)
			emit(c, "leaders", "leaders", []int{0x1b, b, 0x9b, gap, 0xa9}, nil)
		}
	}
	// boundary scalar values as plain text
	for _, r := range plainBoundary {
		if utf8.ValidRune(r) && r >= 0x20 && r != 0x7f {
			emit(c, "text-boundary", "plain-text", bytesOf(string(r)), []gr{{0, r}})
		}
	}
	if c.Tier == "thorough" && c.N >= 100000 { // not in the intensified search of a quick run
		exhaustive(c, exAlphabetThorough, 4)
	} else {
		exhaustive(c, exAlphabetQuick, 3)
	}
	for i := 0; i < c.N; i++ {
		switch k := c.Rand.Intn(20); {
		case k < 4: // plain printable text
			items, text := genText(c, false, true)
			emit(c, "text-printable", "plain-text", items, text)
		case k < 6: // non-control scalar values, gaps between characters
			items, text := genText(c, true, c.Rand.Intn(2) == 0)
			emit(c, "text-gaps", "plain-text-gaps", items, text)
		case k < 11: // one sequence, possibly damaged, possibly in context
			items := bytesOf(genSeq(c))
			items, how := mutate(c, items)
			if c.Rand.Intn(3) == 0 {
				pre, _ := genText(c, false, true)
				items = append(pre[:1+c.Rand.Intn(len(pre))], items...)
			}
			if c.Rand.Intn(3) == 0 {
				items = append(items, bytesOf(genSeq(c))...)
			}
			emit(c, "seq-"+how, "escape-seq", items, nil)
		case k < 14: // several sequences back to back with random gaps
			var items []int
			for j := 0; j < 2+c.Rand.Intn(4); j++ {
				items = append(items, bytesOf(genSeq(c))...)
				if c.Rand.Intn(3) == 0 {
					items = append(items, gap)
				}
			}
			items, how := mutate(c, items)
			emit(c, "seqs-"+how, "escape-seq", items, nil)
		case k < 19:
			emit(c, "soup", "soup", genSoup(c), nil)
		default: // random bytes
			n := 1 + c.Rand.Intn(12)
			items := make([]int, n)
			for j := range items {
				if c.Rand.Intn(8) == 0 {
					items[j] = gap
				} else {
					items[j] = c.Rand.Intn(256)
				}
			}
			emit(c, "random-bytes", "random-bytes", items, nil)
		}
	}
}
