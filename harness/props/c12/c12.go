// Package c12: inexact arithmetic (+ - * / with at least one float argument,
// math: floor ceil round round-to-even trunc abs min max on floats, inexact-num,
// exact-num), through eval, compared bit-exactly (NaN by kind) inside Coq.
package c12

import (
	"fmt"
	"math"
	"math/big"
	"math/rand"

	"verifharness/props/c11"
	"verifharness/reg"
)

func init() {
	reg.Register(&reg.Spec{ID: "C12",
		Imports: "From Coq Require Import QArith.\nFrom verif Require Import lib.Base model.C11_Num model.C12.",
		Judge:   "C12.judge", Shard: 250, Run: run})
}

type desc struct {
	Cmd  string `json:"cmd"`
	Args string `json:"args"`
	Obs  string `json:"obs"`
}

func pow2(k uint) *big.Int              { return new(big.Int).Lsh(big.NewInt(1), k) }
func addi(z *big.Int, d int64) *big.Int { return new(big.Int).Add(z, big.NewInt(d)) }

var specials = []float64{
	0, math.Copysign(0, -1), math.Inf(1), math.Inf(-1), math.NaN(),
	math.SmallestNonzeroFloat64, -math.SmallestNonzeroFloat64, // 2^-1074
	math.Float64frombits(0x000FFFFFFFFFFFFF), // largest subnormal
	math.Float64frombits(0x0010000000000000), // smallest normal
	math.Float64frombits(0x8010000000000000),
	math.MaxFloat64, -math.MaxFloat64,
	1, -1, 0.5, -0.5, 1.5, -1.5, 2.5, -2.5, 3.5, 0.1, 0.2, 0.3, 1e308, 1e-308, 1e16, 3,
	0.49999999999999994, -0.49999999999999994, 0.5000000000000001, // round() traps
	4503599627370495.5, 4503599627370496.5, -4503599627370495.5, // 2^52 - 0.5
	9007199254740992, 9007199254740991, 9007199254740994, // 2^53
	9223372036854775808, -9223372036854775808, 18446744073709551616, // 2^63, 2^64
	math.Float64frombits(0x43DFFFFFFFFFFFFF), // just below 2^63
}

// GenFloat: specials, subnormals, random bit patterns, small halves.
func GenFloat(r *rand.Rand) float64 {
	switch r.Intn(8) {
	case 0, 1, 2:
		return specials[r.Intn(len(specials))]
	case 3: // any bit pattern (includes NaNs with payloads, subnormals)
		return math.Float64frombits(r.Uint64())
	case 4: // subnormal
		return math.Float64frombits(r.Uint64()&0x800FFFFFFFFFFFFF | uint64(r.Intn(2)))
	case 5: // k/2 and k/4: ties of the rounding functions
		return float64(r.Intn(41)-20) / float64([]int{2, 4}[r.Intn(2)])
	case 6: // moderate exponent, random mantissa
		return math.Ldexp(r.Float64()*2-1, r.Intn(140)-70)
	default: // near the top of the range
		return math.Ldexp(r.Float64()*2-1, 1024-r.Intn(4))
	}
}

func normInt(z *big.Int) any { return c11.NormInt(z) }
func normRat(n, d *big.Int) any {
	if d.Sign() == 0 {
		d = big.NewInt(1)
	}
	return c11.NormRat(new(big.Rat).SetFrac(n, d))
}

// randBits: a random positive integer with exactly k bits.
func randBits(r *rand.Rand, k uint) *big.Int {
	z := new(big.Int).Rand(r, pow2(k-1))
	return z.Add(z, pow2(k-1))
}

// GenRatForFloat: non-integer rationals whose numerator and/or denominator do not fit
// in 53 bits: word-sized parts in (2^53, 2^63), parts just above 2^63, and huge
// parts.  Converting the parts separately and dividing (double rounding) is off by
// one ulp on a good share of these; only one correctly rounded division is right.
func GenRatForFloat(r *rand.Rand) any {
	var n, d *big.Int
	wide := func() *big.Int { return randBits(r, uint(54+r.Intn(10))) } // (2^53, 2^63)
	switch r.Intn(8) {
	case 0: // wide numerator, small denominator
		n, d = wide(), big.NewInt(int64(2+r.Intn(1000000)))
	case 1: // small numerator, wide denominator
		n, d = big.NewInt(int64(1+r.Intn(1000000))), wide()
	case 2, 3: // both wide
		n, d = wide(), wide()
	case 4: // any two int64-sized parts
		n, d = randBits(r, uint(1+r.Intn(63))), randBits(r, uint(1+r.Intn(63)))
	case 5: // one part just above 2^63
		n, d = randBits(r, uint(64+r.Intn(3))), randBits(r, uint(40+r.Intn(24)))
		if r.Intn(2) == 0 {
			n, d = d, n
		}
	case 6: // wide numerator over a power of two (ties after the first rounding)
		n, d = wide(), pow2(uint(1+r.Intn(80)))
		n.SetBit(n, 0, 1)
	default: // huge parts, quotient of moderate size
		k := uint(200 + r.Intn(1000))
		n, d = randBits(r, k+uint(r.Intn(60))), randBits(r, k)
	}
	if r.Intn(2) == 0 {
		n.Neg(n)
	}
	q := new(big.Rat).SetFrac(n, d)
	if q.IsInt() {
		q.Add(q, big.NewRat(1, 3))
	}
	return c11.NormRat(q)
}

// GenExactForFloat: exact numbers whose conversion is delicate.
func GenExactForFloat(r *rand.Rand) any {
	if r.Intn(3) == 0 {
		return GenRatForFloat(r)
	}
	sgn := func(z *big.Int) *big.Int {
		if r.Intn(2) == 0 {
			return new(big.Int).Neg(z)
		}
		return z
	}
	d := int64(r.Intn(7) - 3)
	switch r.Intn(12) {
	case 0:
		return r.Intn(7) - 3
	case 1: // near 2^53 .. 2^56: rounding of machine ints
		return normInt(sgn(addi(pow2(uint(53+r.Intn(4))), d)))
	case 2: // near 2^63 and 2^64: the documented infinity rule
		return normInt(sgn(addi(pow2(uint(63+r.Intn(2))), d)))
	case 3: // near 2^1024
		return normInt(sgn(addi(pow2(uint(1023+r.Intn(2))), d)))
	case 4: // any int64
		return int(int64(r.Uint64()))
	case 5: // ints with 54..64 significant bits: ties
		z := new(big.Int).Lsh(big.NewInt(int64(r.Uint64()>>11|1<<52)), uint(1+r.Intn(10)))
		z.Add(z, new(big.Int).Lsh(big.NewInt(1), uint(r.Intn(10)))) // maybe exactly the half
		if !z.IsInt64() {
			z.Rsh(z, 2)
		}
		return normInt(sgn(z))
	case 6: // rationals near 2^-1074 (ties with zero and the smallest subnormals)
		return normRat(sgn(big.NewInt(int64(1+r.Intn(8)))), addi(pow2(uint(1072+r.Intn(5))), int64(r.Intn(3)-1)))
	case 7: // simple fractions
		return normRat(big.NewInt(int64(r.Intn(41)-20)), big.NewInt(int64(1+r.Intn(12))))
	case 8: // rationals with a tie at 53 bits: (2^54 + 2k+1) / 2^j
		n := addi(new(big.Int).Lsh(big.NewInt(int64(r.Uint64()>>11|1<<52)), 1), 1)
		return normRat(sgn(n), pow2(uint(r.Intn(1100))))
	case 9: // huge rationals around the overflow threshold 2^1024 - 2^970
		n := addi(new(big.Int).Sub(pow2(1025), pow2(971)), d)
		return normRat(sgn(n), big.NewInt(2))
	case 10: // random big rational
		n := new(big.Int).Rand(r, pow2(uint(1+r.Intn(1200))))
		m := new(big.Int).Rand(r, pow2(uint(1+r.Intn(1200))))
		return normRat(sgn(n), addi(m, 1))
	default: // big ints
		return normInt(sgn(new(big.Int).Rand(r, pow2(uint(60+r.Intn(80))))))
	}
}

func kinds(args []any) string {
	s := ""
	for _, a := range args {
		switch a.(type) {
		case int:
			s += "i"
		case *big.Int:
			s += "b"
		case *big.Rat:
			s += "r"
		case float64:
			s += "f"
		}
	}
	return s
}

type runner struct {
	c   *reg.Ctx
	env *c11.Env
}

func (x *runner) emit(cmd string, args []any, bucket string) {
	o := x.env.Call(cmd, args, nil)
	c := x.env.Cmds[cmd]
	class := cmd + "/" + bucket
	x.c.Count(class)
	nt := false
	for _, a := range args {
		if f, ok := a.(float64); ok && f != 1 {
			nt = true
		}
	}
	x.c.Emit(reg.Case{
		Coq:        c11.CaseCoq(c, args, nil, o),
		Desc:       desc{cmd, c11.NumsText(args), c11.ObsText(o)},
		Key:        fmt.Sprintf("%s %s", cmd, c11.NumsText(args)),
		Nontrivial: nt || cmd == "inexact-num",
		Class:      class,
	})
}

func run(c *reg.Ctx) {
	x := &runner{c: c, env: c11.NewEnv()}
	r := c.Rand
	x.fixed()
	arith := []string{"+", "-", "*", "/"}
	unary := []string{"math:floor", "math:ceil", "math:round", "math:round-to-even", "math:trunc", "math:abs"}
	for i := 0; i < c.N; i++ {
		switch k := r.Intn(20); {
		case k < 10: // arithmetic with at least one float among 1..6 arguments
			cmd := arith[r.Intn(4)]
			n := 1 + r.Intn(6)
			args := make([]any, n)
			for j := range args {
				if r.Intn(5) < 3 {
					args[j] = GenFloat(r)
				} else {
					args[j] = GenExactForFloat(r)
				}
			}
			if r.Intn(10) != 0 {
				args[r.Intn(n)] = GenFloat(r)
			}
			x.emit(cmd, args, kindsBucket(args))
		case k < 14:
			x.emit(unary[r.Intn(len(unary))], []any{GenFloat(r)}, "f")
		case k < 16:
			a := GenExactForFloat(r)
			if r.Intn(6) == 0 {
				a = GenFloat(r)
			}
			x.emit("inexact-num", []any{a}, kinds([]any{a}))
		case k < 17: // wide rationals through the conversion alone ...
			x.emit("inexact-num", []any{GenRatForFloat(r)}, "wide-rat")
		case k < 18: // ... and through mixed arithmetic, where only the float argument forces the conversion
			q := GenRatForFloat(r)
			f := []float64{0, 1, -1, 0.5, 3, 1e-300, math.Copysign(0, -1)}[r.Intn(7)]
			if r.Intn(3) == 0 {
				f = GenFloat(r)
			}
			args := []any{q, f}
			if r.Intn(2) == 0 {
				args = []any{f, q}
			}
			x.emit(arith[r.Intn(4)], args, "wide-rat")
		case k < 19:
			x.emit("exact-num", []any{GenFloat(r)}, "f")
		default: // min / max with floats (Go's math.Max/Min special cases)
			n := 1 + r.Intn(4)
			args := make([]any, n)
			for j := range args {
				if r.Intn(4) == 0 {
					args[j] = GenExactForFloat(r)
				} else {
					args[j] = GenFloat(r)
				}
			}
			args[r.Intn(n)] = GenFloat(r)
			x.emit([]string{"math:min", "math:max"}[r.Intn(2)], args, "mixed")
		}
	}
}

func kindsBucket(args []any) string {
	k := kinds(args)
	hasF, hasE := false, false
	for _, ch := range k {
		if ch == 'f' {
			hasF = true
		} else {
			hasE = true
		}
	}
	switch {
	case hasF && hasE:
		return "mixed"
	case hasF:
		return "floats"
	}
	return "exact"
}

func (x *runner) fixed() {
	nz := math.Copysign(0, -1)
	inf := math.Inf(1)
	I := func(s string) any { z, _ := new(big.Int).SetString(s, 0); return normInt(z) }
	type fc struct {
		cmd  string
		args []any
	}
	for _, f := range []fc{
		{"+", []any{nz}}, {"+", []any{nz, nz}}, {"+", []any{0.1, 0.2}}, {"+", []any{1e308, 1e308, -1e308}},
		{"+", []any{1e16, 1, -1e16}}, {"+", []any{1, 1e16, -1e16}}, {"+", []any{inf, -inf}},
		{"+", []any{I("9007199254740993"), 0.0}}, {"+", []any{I("9223372036854775808"), 0.0}},
		{"+", []any{big.NewRat(1, 3), 0.0}}, {"+", []any{I("9223372036854775807"), 1.0}},
		{"-", []any{0.0}}, {"-", []any{nz}}, {"-", []any{math.NaN()}}, {"-", []any{0.0, 0.0}}, {"-", []any{nz, 0.0}},
		{"-", []any{1.0, 0.1, 0.2}}, {"-", []any{inf, inf}}, {"-", []any{1, 0.5}},
		{"*", []any{nz}}, {"*", []any{nz, 1}}, {"*", []any{0, inf}}, {"*", []any{0, math.NaN()}}, {"*", []any{0, 0.5}},
		{"*", []any{inf, 0}}, {"*", []any{0.0, inf}}, {"*", []any{1e200, 1e200, 1e-200}}, {"*", []any{1e200, 1e-200, 1e200}},
		{"*", []any{math.SmallestNonzeroFloat64, 0.5}}, {"*", []any{math.SmallestNonzeroFloat64, 1.5}},
		{"/", []any{2.0}}, {"/", []any{0.0}}, {"/", []any{nz}}, {"/", []any{1, 0.0}}, {"/", []any{1, nz}}, {"/", []any{0.0, 0.0}},
		{"/", []any{0, 0.0}}, {"/", []any{0, math.NaN()}}, {"/", []any{0.0, 0}}, {"/", []any{1.0, 3}}, {"/", []any{1, 3.0, 3}},
		{"/", []any{1.0, big.NewRat(1, 3)}}, {"/", []any{inf, inf}}, {"/", []any{math.SmallestNonzeroFloat64, 2}},
		{"math:round", []any{0.49999999999999994}}, {"math:round", []any{-0.5}}, {"math:round", []any{4503599627370495.5}},
		{"math:round-to-even", []any{0.5}}, {"math:round-to-even", []any{1.5}}, {"math:round-to-even", []any{-2.5}},
		{"math:floor", []any{-0.5}}, {"math:ceil", []any{-0.5}}, {"math:trunc", []any{-0.5}}, {"math:floor", []any{nz}},
		{"math:ceil", []any{math.SmallestNonzeroFloat64}}, {"math:floor", []any{-math.SmallestNonzeroFloat64}},
		{"math:abs", []any{nz}}, {"math:abs", []any{-inf}}, {"math:abs", []any{math.NaN()}},
		{"inexact-num", []any{I("1000000000000000000")}}, {"inexact-num", []any{I("10000000000000000000")}},
		{"inexact-num", []any{I("-10000000000000000000")}}, {"inexact-num", []any{I("9223372036854775807")}},
		{"inexact-num", []any{I("9223372036854775808")}}, {"inexact-num", []any{I("-9223372036854775808")}},
		{"inexact-num", []any{I("-9223372036854775809")}}, {"inexact-num", []any{I("9007199254740993")}},
		{"inexact-num", []any{I("9007199254740995")}}, {"inexact-num", []any{big.NewRat(1, 2)}},
		{"inexact-num", []any{c11.NormRat(new(big.Rat).SetFrac(big.NewInt(1), pow2(1074)))}},
		{"inexact-num", []any{c11.NormRat(new(big.Rat).SetFrac(big.NewInt(1), pow2(1075)))}},
		{"inexact-num", []any{c11.NormRat(new(big.Rat).SetFrac(big.NewInt(3), pow2(1075)))}},
		{"inexact-num", []any{c11.NormRat(new(big.Rat).SetFrac(big.NewInt(-1), addi(pow2(1075), -1)))}},
		{"inexact-num", []any{big.NewRat(-30056887691420949, 730996)}}, {"+", []any{big.NewRat(-30056887691420949, 730996), 0.0}},
		{"*", []any{1.0, big.NewRat(9007199254740993, 5)}}, {"/", []any{big.NewRat(9223372036854775807, 9007199254740993), 1.0}},
		{"-", []any{big.NewRat(3, 9223372036854775807), 0.0}},
		{"exact-num", []any{0.125}}, {"exact-num", []any{0.1}}, {"exact-num", []any{nz}}, {"exact-num", []any{2.0}},
		{"exact-num", []any{1e30}}, {"exact-num", []any{math.SmallestNonzeroFloat64}}, {"exact-num", []any{math.MaxFloat64}},
		{"exact-num", []any{9223372036854775808.0}}, {"exact-num", []any{-9223372036854775808.0}},
		{"exact-num", []any{inf}}, {"exact-num", []any{math.NaN()}},
		{"math:max", []any{0.0, nz}}, {"math:max", []any{nz, 0.0}}, {"math:min", []any{0.0, nz}}, {"math:max", []any{inf, math.NaN()}},
		{"math:min", []any{math.NaN(), -inf}}, {"math:max", []any{math.NaN(), 1.0}}, {"math:max", []any{1, 2.5}},
	} {
		x.emit(f.cmd, f.args, "fixed")
	}
}
