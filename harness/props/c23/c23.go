// Package c23: wildcard expansion (pkg/glob, pkg/eval/glob.go).
//
// Random file trees are created on disk under c.Scratch; patterns derived from
// their names are expanded through glob.Glob and through Elvish wildcard
// expressions; every observation is judged in Coq against the model (faithful to
// the code) and against the reference matcher (the property).
package c23

import (
	"context"
	"fmt"
	"os"
	"path/filepath"
	"sort"
	"strings"
	"time"
	"unicode"
	"unicode/utf8"

	"src.elv.sh/pkg/eval"
	"src.elv.sh/pkg/glob"
	"src.elv.sh/pkg/parse"
	. "verifharness/coqfmt"
	"verifharness/reg"
)

func init() {
	reg.Register(&reg.Spec{ID: "C23",
		Imports: "From verif Require Import lib.Base model.C23.",
		Judge:   "C23.judge", Shard: 120, Run: run})
}

// ---------------------------------------------------------------- trees

const (
	kFile = iota
	kDir
	kLink
)

type node struct {
	kind     int
	name     string
	children []*node
	target   string
}

func (n *node) coq() string {
	switch n.kind {
	case kFile:
		return "File"
	case kLink:
		return App("Link", Str(n.target))
	}
	if len(n.children) > 8 {
		flat := true
		names := make([]string, len(n.children))
		for i, ch := range n.children {
			flat = flat && ch.kind == kFile
			names[i] = ch.name
		}
		if flat {
			return App("flat_tree", Str(strings.Join(names, "/")))
		}
	}
	items := make([]string, len(n.children))
	for i, ch := range n.children {
		items[i] = Pair(Str(ch.name), ch.coq())
	}
	return App("Dir", List(items))
}

func (n *node) show() string {
	switch n.kind {
	case kFile:
		return "-"
	case kLink:
		return "->" + n.target
	}
	parts := make([]string, len(n.children))
	for i, ch := range n.children {
		parts[i] = fmt.Sprintf("%q:%s", ch.name, ch.show())
	}
	return "{" + strings.Join(parts, " ") + "}"
}

func (n *node) hasLink() bool {
	if n.kind == kLink {
		return true
	}
	for _, ch := range n.children {
		if ch.hasLink() {
			return true
		}
	}
	return false
}

func (n *node) write(path string) error {
	switch n.kind {
	case kFile:
		return os.WriteFile(path, nil, 0o644)
	case kLink:
		return os.Symlink(n.target, path)
	}
	if err := os.Mkdir(path, 0o755); err != nil && !os.IsExist(err) {
		return err
	}
	for _, ch := range n.children {
		if err := ch.write(filepath.Join(path, ch.name)); err != nil {
			return err
		}
	}
	return nil
}

// all paths (as component lists) of the tree
func (n *node) paths(prefix []string, out *[][]string) {
	for _, ch := range n.children {
		p := append(append([]string{}, prefix...), ch.name)
		*out = append(*out, p)
		if ch.kind == kDir {
			ch.paths(p, out)
		}
	}
}

var alphabets = [][]rune{
	[]rune("abcx"),
	[]rune("abx.1"),
	[]rune("ab. é中"),
	[]rune("ax*?[\\-"),
	[]rune("bcdx"),
	[]rune("aB1. -_"),
	[]rune("aeé中😀"),
	[]rune("xzaéñ"),
	[]rune("dseéñ😀"),
	[]rune("ab中😀"),
}

func genName(c *reg.Ctx, al []rune) string {
	for {
		n := 1 + c.Rand.Intn(3)
		if c.Rand.Intn(6) == 0 {
			n = 4 + c.Rand.Intn(2)
		}
		rs := make([]rune, n)
		for i := range rs {
			rs[i] = al[c.Rand.Intn(len(al))]
		}
		if c.Rand.Intn(6) == 0 {
			rs[0] = '.'
		}
		s := string(rs)
		if s == "." || s == ".." || strings.TrimSpace(s) == "" {
			continue
		}
		return s
	}
}

func genTree(c *reg.Ctx, vocab []string, depth int) *node {
	d := &node{kind: kDir}
	n := c.Rand.Intn(5)
	if depth == 0 {
		n = 2 + c.Rand.Intn(5)
	}
	used := map[string]bool{}
	for i := 0; i < n; i++ {
		name := vocab[c.Rand.Intn(len(vocab))]
		if used[name] {
			continue
		}
		used[name] = true
		var ch *node
		switch r := c.Rand.Intn(10); {
		case r < 4 && depth < 3:
			ch = genTree(c, vocab, depth+1)
		case r < 5:
			// symlink: to a vocabulary name (may or may not exist here), to the parent,
			// to a path below, or to itself
			var t string
			k := c.Rand.Intn(6)
			if depth < 2 && (k == 0 || k == 3) {
				k = 5 // a link that leads above the generated root is outside the model
			}
			switch k {
			case 0:
				t = ".."
			case 1:
				t = name // self loop
			case 2:
				t = vocab[c.Rand.Intn(len(vocab))] + "/" + vocab[c.Rand.Intn(len(vocab))]
			case 3:
				t = "../" + vocab[c.Rand.Intn(len(vocab))]
			default:
				t = vocab[c.Rand.Intn(len(vocab))]
			}
			ch = &node{kind: kLink, target: t}
		default:
			ch = &node{kind: kFile}
		}
		ch.name = name
		d.children = append(d.children, ch)
	}
	sort.Slice(d.children, func(i, j int) bool { return d.children[i].name < d.children[j].name })
	return d
}

func lit(name string, children ...*node) *node { // fixed trees
	if children == nil {
		return &node{kind: kFile, name: name}
	}
	return &node{kind: kDir, name: name, children: children}
}
func dir(name string, children ...*node) *node {
	return &node{kind: kDir, name: name, children: children}
}
func link(name, target string) *node { return &node{kind: kLink, name: name, target: target} }

// ---------------------------------------------------------------- pattern pieces

type mod struct {
	Kind string // nomatch-ok but match-hidden type set range class
	Arg  string
	// for range: lo, hi, inclusive; for class: the table over the alphabet
	Lo, Hi rune
	Incl   bool
	Table  string
}

type piece struct {
	Str  string // literal text when Wild == ""
	Wild string // "*", "**", "?"
	Mods []mod
	Var  bool // render the literal through a variable
}

func (m mod) text() string {
	switch m.Kind {
	case "nomatch-ok", "match-hidden":
		return m.Kind
	case "but":
		return "but:" + m.Arg
	case "type":
		return "type:" + m.Arg
	case "set":
		return "set:" + m.Arg
	case "range":
		sep := "-"
		if !m.Incl {
			sep = "~"
		}
		return "range:" + string(m.Lo) + sep + string(m.Hi)
	case "class":
		return m.Arg
	}
	return m.Kind
}

func (m mod) coq() string {
	switch m.Kind {
	case "nomatch-ok":
		return "MNomatchOk"
	case "match-hidden":
		return "MMatchHidden"
	case "but":
		return App("MBut", Str(m.Arg))
	case "type":
		return App("MType", Bool(m.Arg == "dir"))
	case "set":
		return App("MMatcher", App("MSet", Str(m.Arg)))
	case "range":
		return App("MMatcher", App("MRange", N(uint64(m.Lo)), N(uint64(m.Hi)), Bool(m.Incl)))
	case "class":
		return App("MMatcher", App("MSet", Str(m.Table)))
	}
	panic("mod")
}

func (m mod) restricts() bool { return m.Kind == "set" || m.Kind == "range" || m.Kind == "class" }

func squote(s string) string { return "'" + strings.ReplaceAll(s, "'", "''") + "'" }

func wty(w string) string {
	switch w {
	case "*":
		return "Star"
	case "**":
		return "StarStar"
	}
	return "Question"
}

func piecesCoq(ps []piece) string {
	items := make([]string, len(ps))
	for i, p := range ps {
		if p.Wild == "" {
			items[i] = App("PStr", Str(p.Str))
		} else {
			ms := make([]string, len(p.Mods))
			for j, m := range p.Mods {
				ms[j] = m.coq()
			}
			items[i] = App("PWild", wty(p.Wild), List(ms))
		}
	}
	return List(items)
}

// Elvish source of the expression; vars collects "var vN = '...'" definitions
func piecesCode(ps []piece) (pre, expr string) {
	var sb, pb strings.Builder
	prevQuoted := false
	for i, p := range ps {
		if p.Wild != "" {
			sb.WriteString(p.Wild)
			for _, m := range p.Mods {
				sb.WriteString("[" + squote(m.text()) + "]")
			}
			prevQuoted = false
			continue
		}
		if p.Var || prevQuoted {
			// a second quoted string right after a quoted one would be read as an
			// escaped quote; go through a variable (also yields adjacent Literals)
			fmt.Fprintf(&pb, "var v%d = %s\n", i, squote(p.Str))
			fmt.Fprintf(&sb, "$v%d", i)
			prevQuoted = false
			continue
		}
		sb.WriteString(squote(p.Str))
		prevQuoted = true
	}
	return pb.String(), sb.String()
}

// mirror of the segment structure, for the input class only
type mseg struct {
	kind       byte // 'l', '/', 'w'
	ty         string
	hidden     bool
	restricted bool
}

func msegsOfPieces(ps []piece) []mseg {
	var out []mseg
	for _, p := range ps {
		if p.Wild != "" {
			s := mseg{kind: 'w', ty: p.Wild}
			for _, m := range p.Mods {
				if m.Kind == "match-hidden" {
					s.hidden = true
				}
				if m.restricts() {
					s.restricted = true
				}
			}
			out = append(out, s)
			continue
		}
		inLit, prevSlash := false, false
		for i := 0; i < len(p.Str); i++ {
			if p.Str[i] == '/' {
				if !prevSlash {
					out = append(out, mseg{kind: '/'})
				}
				prevSlash, inLit = true, false
			} else {
				if !inLit {
					out = append(out, mseg{kind: 'l'})
				}
				inLit, prevSlash = true, false
			}
		}
	}
	return out
}

func msegsOfPattern(p glob.Pattern) []mseg {
	var out []mseg
	for _, s := range p.Segments {
		switch s := s.(type) {
		case glob.Literal:
			out = append(out, mseg{kind: 'l'})
		case glob.Slash:
			out = append(out, mseg{kind: '/'})
		case glob.Wild:
			ty := "?"
			if s.Type == glob.Star {
				ty = "*"
			} else if s.Type == glob.StarStar {
				ty = "**"
			}
			out = append(out, mseg{kind: 'w', ty: ty, hidden: s.MatchHidden, restricted: len(s.Matchers) > 0})
		}
	}
	return out
}

// classify names the input class (from the input only).
func classify(route string, ms []mseg, typeRegular, treeHasLink bool) string {
	nss := 0
	for _, s := range ms {
		if s.kind == 'w' && s.ty == "**" {
			nss++
		}
	}
	if nss >= 2 {
		return "double-starstar-duplicates"
	}
	// per slash-separated element
	var elems [][]mseg
	cur := []mseg{}
	for _, s := range ms {
		if s.kind == '/' {
			elems = append(elems, cur)
			cur = []mseg{}
		} else {
			cur = append(cur, s)
		}
	}
	elems = append(elems, cur)
	for _, e := range elems {
		stars := 0
		for _, s := range e {
			if s.kind == 'w' && s.ty != "?" {
				if stars > 0 && s.restricted {
					return "restricted-star-backtracking"
				}
				stars++
			}
		}
	}
	for _, e := range elems {
		for i, s := range e {
			if s.kind == 'w' && s.ty != "?" && s.hidden && (i == 0 || s.ty == "**") {
				for _, t := range e[i+1:] {
					if t.kind == 'w' && !t.hidden {
						return "hidden-dot-after-empty-star"
					}
				}
			}
		}
	}
	if typeRegular && treeHasLink {
		return "type-regular-symlink"
	}
	feat := "plain"
	switch {
	case nss == 1:
		feat = "starstar"
	case len(elems) > 1:
		feat = "multi-element"
	}
	return route + "/" + feat
}

// ---------------------------------------------------------------- running

type world struct {
	id   int
	root *node
	abs  string   // absolute path of the root
	cwd  []string // directories below the root
}

func (w *world) coq() string {
	cw := make([]string, len(w.cwd))
	for i, s := range w.cwd {
		cw[i] = Str(s)
	}
	return App("mkWorld", w.root.coq(), List(cw), Str(w.abs))
}

type desc struct {
	Tree  string `json:"tree"`
	Cwd   string `json:"cwd"`
	Route string `json:"route"`
	Input string `json:"input"`
	Obs   string `json:"obs"`
}

func kindOf(m os.FileMode) string {
	switch {
	case m&os.ModeSymlink != 0:
		return "KLink"
	case m.IsDir():
		return "KDir"
	case m.IsRegular():
		return "KFile"
	}
	return "KOther"
}

func segsCoq(p glob.Pattern) string {
	items := make([]string, len(p.Segments))
	for i, s := range p.Segments {
		switch s := s.(type) {
		case glob.Literal:
			items[i] = App("Lit", Str(s.Data))
		case glob.Slash:
			items[i] = "Slash"
		case glob.Wild:
			ty := "Question"
			if s.Type == glob.Star {
				ty = "Star"
			} else if s.Type == glob.StarStar {
				ty = "StarStar"
			}
			items[i] = App("Wild", App("mkWild", ty, Bool(s.MatchHidden), "[]"))
		}
	}
	return List(items)
}

func chdir(w *world) {
	if err := os.Chdir(filepath.Join(append([]string{w.abs}, w.cwd...)...)); err != nil {
		panic(err)
	}
}

func runGlob(c *reg.Ctx, w *world, pat string) {
	chdir(w)
	var items []string
	var seen []string
	direct := ""
	func() {
		defer func() {
			if r := recover(); r != nil {
				direct = fmt.Sprintf("glob.Glob(%q) panicked: %v", pat, r)
			}
		}()
		glob.Glob(pat, func(pi glob.PathInfo) bool {
			items = append(items, Pair(Str(pi.Path), kindOf(pi.Info.Mode())))
			seen = append(seen, pi.Path)
			if len(seen) > maxResults {
				direct = fmt.Sprintf("glob.Glob(%q): runaway expansion, more than %d paths from a tree of a few dozen entries", pat, maxResults)
				return false
			}
			return true
		})
	}()
	if direct != "" {
		c.Emit(reg.Case{Direct: direct, Class: "glob/runaway",
			Desc: desc{w.root.show(), strings.Join(w.cwd, "/"), "glob.Glob", pat, direct},
			Key:  fmt.Sprintf("g/%d/%q", w.id, pat)})
		return
	}
	parsed := glob.Parse(pat)
	ms := msegsOfPattern(parsed)
	class := classify("glob", ms, false, w.root.hasLink())
	if !utf8.ValidString(pat) {
		class = "glob/invalid-utf8"
	}
	c.Count(class)
	hasWild := false
	for _, s := range ms {
		if s.kind == 'w' {
			hasWild = true
		}
	}
	c.Emit(reg.Case{
		Coq: App("mkCase", w.coq(), App("RGlob", Str(pat)),
			App("ObsGlob", List(items), segsCoq(parsed))),
		Desc:       desc{w.root.show(), strings.Join(w.cwd, "/"), "glob.Glob", pat, fmt.Sprintf("%q", seen)},
		Key:        fmt.Sprintf("g/%d/%q", w.id, pat),
		Nontrivial: hasWild && len(seen) > 0,
		Class:      class,
	})
}

var evaler = eval.NewEvaler()

const maxResults = 3000

func runElvish(c *reg.Ctx, w *world, ps []piece) {
	chdir(w)
	pre, expr := piecesCode(ps)
	code := pre + "put " + expr
	port, collect, err := eval.CapturePort()
	if err != nil {
		panic(err)
	}
	ctx, cancel := context.WithTimeout(context.Background(), 10*time.Second)
	xerr := evaler.Eval(parse.Source{Name: "[c23]", Code: code},
		eval.EvalCfg{Ports: []*eval.Port{eval.DummyInputPort, port, eval.DummyOutputPort}, Interrupts: ctx})
	cancel()
	vs, _ := collect()
	if len(vs) > maxResults {
		msg := fmt.Sprintf("%s: runaway expansion, more than %d paths from a tree of a few dozen entries", code, maxResults)
		c.Emit(reg.Case{Direct: msg, Class: "elvish/runaway",
			Desc: desc{w.root.show(), strings.Join(w.cwd, "/"), "elvish", code, msg},
			Key:  fmt.Sprintf("e/%d/%q", w.id, code)})
		return
	}
	var obs, obsText string
	if xerr == nil {
		items := make([]string, 0, len(vs))
		strs := make([]string, 0, len(vs))
		ok := true
		for _, v := range vs {
			s, isStr := v.(string)
			if !isStr {
				ok = false
				break
			}
			items = append(items, Str(s))
			strs = append(strs, s)
		}
		if ok {
			obs, obsText = App("OPaths", List(items)), fmt.Sprintf("%q", strs)
		} else {
			obs, obsText = "OOther", "non-string output"
		}
	} else {
		obs, obsText = "OOther", xerr.Error()
		if exc, ok := xerr.(eval.Exception); ok {
			switch exc.Reason() {
			case eval.ErrWildcardNoMatch:
				obs = "ONoMatch"
			case eval.ErrMultipleTypeModifiers:
				obs = "OTypeErr"
			}
		}
	}
	typeRegular, hasWild := false, false
	for _, p := range ps {
		if p.Wild != "" {
			hasWild = true
		}
		for _, m := range p.Mods {
			if m.Kind == "type" && m.Arg == "regular" {
				typeRegular = true
			}
		}
	}
	class := classify("elvish", msegsOfPieces(ps), typeRegular, w.root.hasLink())
	c.Count(class)
	c.Emit(reg.Case{
		Coq:        App("mkCase", w.coq(), App("RElvish", piecesCoq(ps)), App("ObsElvish", obs)),
		Desc:       desc{w.root.show(), strings.Join(w.cwd, "/"), "elvish", code, obsText},
		Key:        fmt.Sprintf("e/%d/%q", w.id, code),
		Nontrivial: hasWild && strings.HasPrefix(obs, "(OPaths [") && len(vs) > 0,
		Class:      class,
	})
}

// ---------------------------------------------------------------- generators

var nworld int

func newWorld(c *reg.Ctx, root *node, cwd []string) *world {
	nworld++
	abs := filepath.Join(c.Scratch, fmt.Sprintf("t%d", nworld))
	if err := root.write(abs); err != nil {
		panic(err)
	}
	return &world{id: nworld, root: root, abs: abs, cwd: cwd}
}

// escape glob.Parse metacharacters
func esc(s string) string {
	var sb strings.Builder
	for _, r := range s {
		if r == '*' || r == '?' || r == '\\' {
			sb.WriteByte('\\')
		}
		sb.WriteRune(r)
	}
	return sb.String()
}

// element patterns for one name, as a sequence of "tokens": literal text or wildcard
type tok struct {
	lit  string
	wild string
}

func genElem(c *reg.Ctx, name string, vocab []string) []tok {
	rs := []rune(name)
	// fixed run over rs[i:j]: each rune as itself or as ?
	fixedRun := func(i, j int) []tok {
		var ts []tok
		for _, r := range rs[i:j] {
			if c.Rand.Intn(2) == 0 {
				ts = append(ts, tok{wild: "?"})
			} else {
				ts = append(ts, tok{lit: string(r)})
			}
		}
		return ts
	}
	if c.Rand.Intn(3) == 0 {
		// [prefix] * fixed-run [* fixed-run]: the chunks after a star end at the
		// last runes of the name, so their size in runes vs bytes matters
		star := "*"
		if c.Rand.Intn(5) == 0 {
			star = "**"
		}
		n := len(rs)
		a := c.Rand.Intn(n + 1)     // prefix rs[:a] literal or dropped
		b := a + c.Rand.Intn(n-a+1) // first star covers rs[a:b]
		var ts []tok
		if a > 0 && c.Rand.Intn(2) == 0 {
			ts = append(ts, fixedRun(0, a)...)
			ts = append(ts, tok{wild: star})
		} else {
			ts = append(ts, tok{wild: star})
			b = a + c.Rand.Intn(n-a+1)
		}
		if b < n && c.Rand.Intn(3) == 0 {
			// two chunks: fixed rs[b:m], star over part, fixed tail
			m := b + 1 + c.Rand.Intn(n-b)
			e := m + c.Rand.Intn(n-m+1)
			ts = append(ts, fixedRun(b, m)...)
			ts = append(ts, tok{wild: "*"})
			ts = append(ts, fixedRun(e, n)...)
		} else {
			ts = append(ts, fixedRun(b, n)...)
		}
		return compactKeepQ(ts)
	}
	switch c.Rand.Intn(12) {
	case 0:
		return []tok{{lit: name}}
	case 1:
		return []tok{{wild: "*"}}
	case 2:
		ts := make([]tok, len(rs))
		for i := range ts {
			ts[i] = tok{wild: "?"}
		}
		return ts
	case 3: // prefix*
		k := c.Rand.Intn(len(rs) + 1)
		return compact([]tok{{lit: string(rs[:k])}, {wild: "*"}})
	case 4: // *suffix
		k := c.Rand.Intn(len(rs) + 1)
		return compact([]tok{{wild: "*"}, {lit: string(rs[k:])}})
	case 5: // replace one rune by ?
		k := c.Rand.Intn(len(rs))
		return compact([]tok{{lit: string(rs[:k])}, {wild: "?"}, {lit: string(rs[k+1:])}})
	case 6: // *mid*
		i := c.Rand.Intn(len(rs) + 1)
		j := i + c.Rand.Intn(len(rs)-i+1)
		return compact([]tok{{wild: "*"}, {lit: string(rs[i:j])}, {wild: "*"}})
	case 7: // a*b
		i := c.Rand.Intn(len(rs) + 1)
		j := i + c.Rand.Intn(len(rs)-i+1)
		return compact([]tok{{lit: string(rs[:i])}, {wild: "*"}, {lit: string(rs[j:])}})
	case 8: // ?*  or *?
		if c.Rand.Intn(2) == 0 {
			return []tok{{wild: "?"}, {wild: "*"}}
		}
		return []tok{{wild: "*"}, {wild: "?"}}
	case 9: // another vocabulary name
		return []tok{{lit: vocab[c.Rand.Intn(len(vocab))]}}
	case 10: // **
		return []tok{{wild: "**"}}
	default: // random mixture over the name
		var ts []tok
		for _, r := range rs {
			switch c.Rand.Intn(4) {
			case 0:
				ts = append(ts, tok{wild: "*"})
			case 1:
				ts = append(ts, tok{wild: "?"})
			default:
				ts = append(ts, tok{lit: string(r)})
			}
		}
		return compact(ts)
	}
}

// compactKeepQ merges neighbouring literals and stars, keeps every ?
func compactKeepQ(ts []tok) []tok { return compact(ts) }

func compact(ts []tok) []tok {
	var out []tok
	for _, t := range ts {
		if t.wild == "" && t.lit == "" {
			continue
		}
		if t.wild == "" && len(out) > 0 && out[len(out)-1].wild == "" {
			out[len(out)-1].lit += t.lit
			continue
		}
		if t.wild != "" && t.wild != "?" && len(out) > 0 && out[len(out)-1].wild != "" && out[len(out)-1].wild != "?" {
			// two adjacent stars would read as another wildcard
			if t.wild == "**" {
				out[len(out)-1].wild = "**"
			}
			continue
		}
		out = append(out, t)
	}
	if len(out) == 0 {
		out = []tok{{wild: "*"}}
	}
	return out
}

// a pattern as tokens, derived from a path of the tree
func genToks(c *reg.Ctx, w *world, vocab []string, all [][]string) []tok {
	var comps []string
	if len(all) > 0 && c.Rand.Intn(8) != 0 {
		comps = all[c.Rand.Intn(len(all))]
		// relative to the working directory when the path is below it
		if len(comps) > len(w.cwd) && equalPrefix(comps, w.cwd) {
			comps = comps[len(w.cwd):]
		} else if len(w.cwd) > 0 {
			up := make([]string, len(w.cwd))
			for i := range up {
				up[i] = ".."
			}
			comps = append(up, comps...)
		}
	} else {
		n := 1 + c.Rand.Intn(3)
		for i := 0; i < n; i++ {
			comps = append(comps, vocab[c.Rand.Intn(len(vocab))])
		}
	}
	var ts []tok
	for i, comp := range comps {
		if i > 0 {
			switch r := c.Rand.Intn(12); {
			case r == 0:
				ts = append(ts, tok{wild: "**"}) // a**b
			case r == 1:
				ts = append(ts, tok{lit: "/"}, tok{wild: "**"}, tok{lit: "/"})
			case r == 2 && len(w.cwd) == 0 && i >= 1:
				ts = append(ts, tok{lit: "/./"})
			case r == 3 && i >= 1 && comps[i-1] != ".." && comps[i-1] != ".":
				ts = append(ts, tok{lit: "/../"}, tok{lit: comps[i-1]}, tok{lit: "/"})
			case r == 4:
				ts = append(ts, tok{lit: "//"})
			default:
				ts = append(ts, tok{lit: "/"})
			}
		}
		if comp == ".." || comp == "." {
			ts = append(ts, tok{lit: comp})
			continue
		}
		ts = append(ts, genElem(c, comp, vocab)...)
	}
	switch c.Rand.Intn(14) {
	case 0:
		ts = append(ts, tok{lit: "/"})
	case 1:
		ts = append(ts, tok{lit: "/"}, tok{wild: "*"})
	case 2:
		ts = append([]tok{{wild: "**"}}, ts...)
	case 3:
		ts = append(ts, tok{wild: "**"})
	case 4:
		ts = append([]tok{{lit: "./"}}, ts...)
	case 5:
		if len(w.cwd) == 0 {
			ts = append([]tok{{lit: w.abs + "/"}}, ts...)
		}
	}
	hasWild := false
	for _, t := range ts {
		if t.wild != "" {
			hasWild = true
		}
	}
	if !hasWild {
		ts = append(ts, tok{wild: "*"})
	}
	// merge neighbouring wildcards that would read as another wildcard
	var out []tok
	for _, t := range ts {
		if len(out) > 0 && t.wild != "" && out[len(out)-1].wild != "" &&
			strings.HasPrefix(t.wild, "*") && strings.HasSuffix(out[len(out)-1].wild, "*") {
			out[len(out)-1].wild = "**"
			continue
		}
		out = append(out, t)
	}
	return out
}

func equalPrefix(a, pre []string) bool {
	if len(a) < len(pre) {
		return false
	}
	for i := range pre {
		if a[i] != pre[i] {
			return false
		}
	}
	return true
}

func toksToPattern(c *reg.Ctx, ts []tok) string {
	var sb strings.Builder
	for _, t := range ts {
		if t.wild != "" {
			sb.WriteString(t.wild)
		} else if c.Rand.Intn(25) == 0 {
			sb.WriteString(t.lit) // unescaped: metacharacters of the name act as wildcards
		} else {
			// escape everything but the slashes
			parts := strings.Split(t.lit, "/")
			for i := range parts {
				parts[i] = esc(parts[i])
			}
			sb.WriteString(strings.Join(parts, "/"))
		}
	}
	return sb.String()
}

var classNames = []struct {
	name string
	f    func(rune) bool
}{{"digit", unicode.IsDigit}, {"letter", unicode.IsLetter}, {"lower", unicode.IsLower},
	{"upper", unicode.IsUpper}, {"punct", unicode.IsPunct}, {"space", unicode.IsSpace},
	{"symbol", unicode.IsSymbol}, {"graphic", unicode.IsGraphic}, {"print", unicode.IsPrint},
	{"control", unicode.IsControl}, {"mark", unicode.IsMark}, {"number", unicode.IsNumber},
	{"title", unicode.IsTitle}}

func genMatcher(c *reg.Ctx, al []rune) mod {
	switch c.Rand.Intn(4) {
	case 0, 1:
		n := 1 + c.Rand.Intn(3)
		rs := make([]rune, n)
		for i := range rs {
			rs[i] = al[c.Rand.Intn(len(al))]
		}
		return mod{Kind: "set", Arg: string(rs)}
	case 2:
		a, b := al[c.Rand.Intn(len(al))], al[c.Rand.Intn(len(al))]
		if a > b {
			a, b = b, a
		}
		if c.Rand.Intn(3) == 0 {
			a, b = 'a', 'c'
		}
		return mod{Kind: "range", Lo: a, Hi: b, Incl: c.Rand.Intn(2) == 0}
	default:
		cl := classNames[c.Rand.Intn(len(classNames))]
		var tb []rune
		// every rune that can occur in a name of this case
		for _, r := range allRunes {
			if cl.f(r) {
				tb = append(tb, r)
			}
		}
		return mod{Kind: "class", Arg: cl.name, Table: string(tb)}
	}
}

var allRunes = func() []rune {
	seen := map[rune]bool{}
	var out []rune
	for _, al := range alphabets {
		for _, r := range al {
			if !seen[r] {
				seen[r] = true
				out = append(out, r)
			}
		}
	}
	// runes of fixed trees and of the scratch path
	for _, r := range "0123456789abcdefghijklmnopqrstuvwxyzABCDEFGHIJKLMNOPQRSTUVWXYZ-_./" {
		if !seen[r] {
			seen[r] = true
			out = append(out, r)
		}
	}
	return out
}()

func toksToPieces(c *reg.Ctx, w *world, ts []tok, al []rune, vocab []string, all [][]string) []piece {
	var ps []piece
	typeUsed := false
	for _, t := range ts {
		if t.wild == "" {
			p := piece{Str: t.lit, Var: c.Rand.Intn(10) == 0}
			// sometimes split a literal into two adjacent pieces
			if rs := []rune(t.lit); len(rs) >= 2 && c.Rand.Intn(8) == 0 {
				k := 1 + c.Rand.Intn(len(rs)-1)
				ps = append(ps, piece{Str: string(rs[:k])}, piece{Str: string(rs[k:])})
				continue
			}
			ps = append(ps, p)
			continue
		}
		p := piece{Wild: t.wild}
		if t.wild == "?" && c.Rand.Intn(3) == 0 {
			// single-character matcher: a set or a range over the alphabet
			if c.Rand.Intn(2) == 0 {
				p.Mods = append(p.Mods, mod{Kind: "set", Arg: string(al)})
			} else {
				lo, hi := al[0], al[0]
				for _, r := range al {
					if r < lo {
						lo = r
					}
					if r > hi {
						hi = r
					}
				}
				p.Mods = append(p.Mods, mod{Kind: "range", Lo: lo, Hi: hi, Incl: true})
			}
			ps = append(ps, p)
			continue
		}
		nm := 0
		switch r := c.Rand.Intn(10); {
		case r < 4:
			nm = 0
		case r < 8:
			nm = 1
		default:
			nm = 2 + c.Rand.Intn(2)
		}
		for i := 0; i < nm; i++ {
			switch r := c.Rand.Intn(20); {
			case r < 5:
				p.Mods = append(p.Mods, mod{Kind: "match-hidden"})
			case r < 8:
				p.Mods = append(p.Mods, mod{Kind: "nomatch-ok"})
			case r < 11:
				// but: a real path (relative) or a vocabulary name
				arg := vocab[c.Rand.Intn(len(vocab))]
				if len(all) > 0 && c.Rand.Intn(2) == 0 {
					arg = strings.Join(all[c.Rand.Intn(len(all))], "/")
				}
				p.Mods = append(p.Mods, mod{Kind: "but", Arg: arg})
			case r < 14:
				if typeUsed && c.Rand.Intn(6) != 0 {
					continue
				}
				typeUsed = true
				arg := "dir"
				if c.Rand.Intn(2) == 0 {
					arg = "regular"
				}
				p.Mods = append(p.Mods, mod{Kind: "type", Arg: arg})
			default:
				p.Mods = append(p.Mods, genMatcher(c, al))
			}
		}
		ps = append(ps, p)
	}
	return ps
}

func (w *world) dirsBelow() [][]string {
	var all [][]string
	w.root.paths(nil, &all)
	var out [][]string
	for _, p := range all {
		n := w.root
		ok := true
		for _, comp := range p {
			var next *node
			for _, ch := range n.children {
				if ch.name == comp {
					next = ch
				}
			}
			if next == nil || next.kind != kDir {
				ok = false
				break
			}
			n = next
		}
		if ok {
			out = append(out, p)
		}
	}
	return out
}

// ---------------------------------------------------------------- fixed cases

func fixedCases(c *reg.Ctx) {
	star := piece{Wild: "*"}
	set := func(w, s string) piece { return piece{Wild: w, Mods: []mod{{Kind: "set", Arg: s}}} }
	mh := func(w string) piece { return piece{Wild: w, Mods: []mod{{Kind: "match-hidden"}}} }
	str := func(s string) piece { return piece{Str: s} }

	// the documentation's example tree
	docTree := dir("", lit(".x.conf"), lit("a.cc"), lit("ax.conf"), lit("foo.cc"),
		dir("d", lit(".x.conf"), lit("ax.conf"), lit("y.cc")),
		dir(".d2", lit(".x.conf"), lit("ax.conf")))
	w := newWorld(c, docTree, nil)
	for _, p := range []string{"?.cc", "*.cc", "**.cc", "?x.conf", "d/*.conf", "**.conf", "*", "**", "*/", "**/",
		"*/*", ".*", ".*/*", "d/../*", "./*", "d/./*.cc", "nonexistent/*", "a.cc/*", "a.cc", "d", "d/", "zz", "",
		"/", w.abs + "/*", w.abs + "/d/**", "*\\", "\\", "a\\.cc", "***", "*//*", "d//y.cc", "**/**", "**x**", "**.c**"} {
		runGlob(c, w, p)
	}
	for _, ps := range [][]piece{
		{star}, {mh("*")}, {mh("*"), str(".conf")}, {mh("*"), str("/"), star, str(".conf")},
		{piece{Wild: "?", Mods: []mod{{Kind: "set", Arg: ".a"}}}, str("x.conf")},
		{piece{Wild: "?", Mods: []mod{{Kind: "set", Arg: ".a"}, {Kind: "match-hidden"}}}, str("x.conf")},
		{set("*", "abc/")}, {str("bad"), star}, {str("bad"), piece{Wild: "*", Mods: []mod{{Kind: "nomatch-ok"}}}},
		{piece{Wild: "**", Mods: []mod{{Kind: "type", Arg: "dir"}}}},
		{piece{Wild: "**", Mods: []mod{{Kind: "type", Arg: "regular"}}}},
		{piece{Wild: "*", Mods: []mod{{Kind: "type", Arg: "regular"}}}, str("/"), piece{Wild: "*", Mods: []mod{{Kind: "type", Arg: "dir"}}}},
		{piece{Wild: "*", Mods: []mod{{Kind: "but", Arg: "a.cc"}, {Kind: "but", Arg: "d"}}}},
		{piece{Wild: "**", Mods: []mod{{Kind: "but", Arg: "d/y.cc"}}}, str(".cc")},
		{star, str("/"), piece{Wild: "*", Mods: []mod{{Kind: "nomatch-ok"}}}, str(".cpp")},
		{mh("**"), str(".conf")}, {str("d/"), star}, {star, str("/"), str("y.cc")},
		{star, piece{Str: ".", Var: true}, str("cc")},
	} {
		runElvish(c, w, ps)
	}

	// restricted star after another star: the greedy matcher does not backtrack
	w = newWorld(c, dir("", lit("bxbcd"), lit("bcd"), lit("bbcd"), lit("ccd"), lit("cd"), dir("s", lit("bxbcd"))), nil)
	runElvish(c, w, []piece{star, str("b"), set("*", "c"), str("d")})
	runElvish(c, w, []piece{set("*", "c"), str("c"), set("*", "d")})
	runElvish(c, w, []piece{star, str("/"), star, str("b"), set("*", "c"), str("d")})
	runElvish(c, w, []piece{set("*", "bc"), str("d")})
	runElvish(c, w, []piece{set("*", "bx"), str("b"), star, str("d")})

	// two ** in one pattern
	w = newWorld(c, dir("", dir("x", dir("x", lit("x")), lit("y")), lit("y")), nil)
	for _, p := range []string{"**x**", "**/**", "**x", "x**", "**/x/**", "x**x**"} {
		runGlob(c, w, p)
	}
	runElvish(c, w, []piece{{Wild: "**"}, str("x"), {Wild: "**"}})

	// a wildcard without match-hidden after a match-hidden star that matches nothing
	w = newWorld(c, dir("", lit(".x"), lit("ax"), lit("."+"y"), dir(".d", lit(".x")), dir("d", lit(".x"))), nil)
	runElvish(c, w, []piece{mh("*"), {Wild: "?"}, str("x")})
	runElvish(c, w, []piece{mh("**"), {Wild: "?"}, str("x")})
	runElvish(c, w, []piece{mh("*"), star})
	runElvish(c, w, []piece{mh("?"), star})
	runElvish(c, w, []piece{star, mh("?"), piece{Wild: "*", Mods: []mod{{Kind: "nomatch-ok"}}}})

	// symbolic links
	w = newWorld(c, dir("", lit("reg"), dir("d", lit("f"), link("up", "..")), link("lnk", "reg"),
		link("dlnk", "d"), link("dangling", "nowhere"), link("loop", "loop")), nil)
	for _, p := range []string{"*", "*/", "*/*", "dlnk/*", "lnk/*", "loop/*", "dangling", "dangling/", "dlnk/up/*", "d/up/d/*", "**", "dlnk", "dlnk/"} {
		runGlob(c, w, p)
	}
	for _, t := range []string{"regular", "dir"} {
		runElvish(c, w, []piece{{Wild: "*", Mods: []mod{{Kind: "type", Arg: t}}}})
		runElvish(c, w, []piece{{Wild: "**", Mods: []mod{{Kind: "type", Arg: t}, {Kind: "nomatch-ok"}}}})
	}
	runElvish(c, w, []piece{{Wild: "*", Mods: []mod{{Kind: "type", Arg: "dir"}, {Kind: "type", Arg: "regular"}}}})
	runElvish(c, w, []piece{{Wild: "*", Mods: []mod{{Kind: "type", Arg: "dir"}}}, str("/"), {Wild: "*", Mods: []mod{{Kind: "type", Arg: "regular"}}}})

	// working directory below the root, ".." in patterns
	w = newWorld(c, dir("", lit("top"), dir("a", lit("f"), dir("b", lit("g")))), []string{"a"})
	for _, p := range []string{"*", "../*", "b/../*", "../a/b/*", "**", "../**", "./b/*", "b/./../*"} {
		runGlob(c, w, p)
	}
	runElvish(c, w, []piece{str("../"), star, str("/"), star})
}

// flat directory, many short names: exercises matchElement alone
func flatCases(c *reg.Ctx, n int) {
	al := []rune("ab.")
	var names []string
	cur := []string{""}
	for l := 0; l < 2; l++ {
		var next []string
		for _, s := range cur {
			for _, r := range al {
				next = append(next, s+string(r))
			}
		}
		names = append(names, next...)
		cur = next
	}
	names = append(names, "aab", "ab.", "..a", ".ab", "a.b", "bab", "...")
	root := dir("")
	for _, nm := range names {
		if nm == "." || nm == ".." {
			continue
		}
		root.children = append(root.children, lit(nm))
	}
	w := newWorld(c, root, nil)
	toks := []string{"a", "b", ".", "*", "?", "**"}
	for i := 0; i < n; i++ {
		k := 1 + c.Rand.Intn(5)
		var sb strings.Builder
		for j := 0; j < k; j++ {
			sb.WriteString(toks[c.Rand.Intn(len(toks))])
		}
		runGlob(c, w, sb.String())
	}
	for i := 0; i < n; i++ {
		k := 1 + c.Rand.Intn(4)
		var ts []tok
		for j := 0; j < k; j++ {
			t := toks[c.Rand.Intn(len(toks))]
			if t == "*" || t == "?" || t == "**" {
				ts = append(ts, tok{wild: t})
			} else {
				ts = append(ts, tok{lit: t})
			}
		}
		ts = compact(ts)
		hw := false
		for _, t := range ts {
			hw = hw || t.wild != ""
		}
		if !hw {
			ts = append(ts, tok{wild: "*"})
		}
		ps := toksToPieces(c, w, ts, al, []string{"a", "ab", ".a"}, nil)
		runElvish(c, w, ps)
	}
}

// sweepCases: every pattern of <= 4 tokens over {*, ?, a, é} against every name
// of <= 3 runes over {a, é, 中} in one flat directory (matchElement alone);
// patterns that parse to the same segments are run once.
func sweepCases(c *reg.Ctx) {
	nameAl := []string{"a", "é", "中"}
	var names []string
	cur := []string{""}
	for l := 0; l < 3; l++ {
		var next []string
		for _, s := range cur {
			for _, r := range nameAl {
				next = append(next, s+r)
			}
		}
		names = append(names, next...)
		cur = next
	}
	root := dir("")
	for _, nm := range names {
		root.children = append(root.children, lit(nm))
	}
	sort.Slice(root.children, func(i, j int) bool { return root.children[i].name < root.children[j].name })
	w := newWorld(c, root, nil)
	toks := []string{"*", "?", "a", "é"}
	seen := map[string]bool{}
	pats := []string{""}
	for l := 0; l < 4; l++ {
		var next []string
		for _, p := range pats {
			if len([]rune(p)) == l {
				for _, t := range toks {
					next = append(next, p+t)
				}
			}
		}
		pats = append(pats, next...)
	}
	for _, p := range pats[1:] {
		key := segsCoq(glob.Parse(p))
		if seen[key] {
			continue
		}
		seen[key] = true
		runGlob(c, w, p)
	}
	// 4-byte runes and single-character matchers on the same kind of names
	root2 := dir("")
	al2 := []rune("aé中😀z")
	for _, r1 := range al2 {
		root2.children = append(root2.children, lit(string(r1)))
		for _, r2 := range al2 {
			root2.children = append(root2.children, lit(string([]rune{r1, r2})))
		}
	}
	for _, nm := range []string{"xaé", "azé", "señ", "aé中", "中é😀", "😀a😀", "zz中"} {
		root2.children = append(root2.children, lit(nm))
	}
	sort.Slice(root2.children, func(i, j int) bool { return root2.children[i].name < root2.children[j].name })
	w2 := newWorld(c, root2, nil)
	for _, p := range []string{"*??", "*z?", "x*a?", "**e?", "*?", "*é", "*?é", "*中?", "?*?", "*😀", "*?😀", "a*?", "*a?*?", "*?*?", "**??", "*é?"} {
		runGlob(c, w2, p)
	}
	toks2 := []string{"a", "é", "中", "😀", "z", "*", "?", "?", "**"}
	for i := 0; i < c.N/10; i++ {
		k := 2 + c.Rand.Intn(4)
		var ts []tok
		for j := 0; j < k; j++ {
			t := toks2[c.Rand.Intn(len(toks2))]
			if j == 0 && c.Rand.Intn(2) == 0 {
				t = "*"
			}
			if t == "*" || t == "?" || t == "**" {
				ts = append(ts, tok{wild: t})
			} else {
				ts = append(ts, tok{lit: t})
			}
		}
		ts = compact(ts)
		if i%2 == 0 {
			var sb strings.Builder
			for _, t := range ts {
				sb.WriteString(t.wild + t.lit)
			}
			runGlob(c, w2, sb.String())
			continue
		}
		hw := false
		for _, t := range ts {
			hw = hw || t.wild != ""
		}
		if !hw {
			ts = append([]tok{{wild: "*"}}, ts...)
		}
		runElvish(c, w2, toksToPieces(c, w2, ts, al2, []string{"a", "aé", "😀"}, nil))
	}
}

func run(c *reg.Ctx) {
	home, _ := os.Getwd()
	defer os.Chdir(home)
	fixedCases(c)
	sweepCases(c)
	flatCases(c, c.N/12)

	perTree := 24
	ntrees := c.N / perTree
	if ntrees < 1 {
		ntrees = 1
	}
	for t := 0; t < ntrees; t++ {
		al := alphabets[c.Rand.Intn(len(alphabets))]
		nv := 3 + c.Rand.Intn(5)
		vocab := make([]string, nv)
		for i := range vocab {
			vocab[i] = genName(c, al)
		}
		root := genTree(c, vocab, 0)
		w := newWorld(c, root, nil)
		if dirs := w.dirsBelow(); len(dirs) > 0 && c.Rand.Intn(4) == 0 {
			w.cwd = dirs[c.Rand.Intn(len(dirs))]
		}
		var all [][]string
		root.paths(nil, &all)
		for i := 0; i < perTree; i++ {
			ts := genToks(c, w, vocab, all)
			if c.Rand.Intn(2) == 0 {
				pat := toksToPattern(c, ts)
				switch c.Rand.Intn(40) {
				case 0:
					pat += "\\" // trailing backslash
				case 1:
					pat = strings.Replace(pat, "*", "***", 1)
				case 2:
					pat += "\xff" // invalid UTF-8 in the pattern
				case 3:
					pat = "\xc3" + pat
				}
				runGlob(c, w, pat)
			} else {
				// Elvish cannot start an expression with a slash-only literal followed by
				// nothing; any token list works since literals are quoted
				runElvish(c, w, toksToPieces(c, w, ts, al, vocab, all))
			}
		}
		if c.Tier == "quick" || t%8 == 7 {
			os.Chdir(home)
			os.RemoveAll(w.abs)
		}
	}
}
