// Package c11: exact arithmetic (+ - * / % range, math: abs ceil floor round
// round-to-even trunc min max pow) on exact arguments, through eval.
package c11

import (
	"fmt"
	"math"
	"math/big"
	"math/rand"

	"verifharness/reg"
)

func init() {
	reg.Register(&reg.Spec{ID: "C11",
		Imports: "From Coq Require Import QArith.\nFrom verif Require Import lib.Base model.C11_Num model.C11.",
		Judge:   "C11.judge", Shard: 400, Run: run})
}

type desc struct {
	Cmd  string `json:"cmd"`
	Args string `json:"args"`
	Step string `json:"step,omitempty"`
	Obs  string `json:"obs"`
}

func bi(s string) *big.Int { z, _ := new(big.Int).SetString(s, 0); return z }
func pow2(k uint) *big.Int { return new(big.Int).Lsh(big.NewInt(1), k) }
func addi(z *big.Int, d int64) *big.Int { return new(big.Int).Add(z, big.NewInt(d)) }
func neg(z *big.Int) *big.Int           { return new(big.Int).Neg(z) }

// boundary integers (as big.Int; normalised by NormInt)
func boundaryInts() []*big.Int {
	var l []*big.Int
	for _, k := range []uint{31, 32, 53, 62, 63, 64, 65, 127, 128} {
		for d := int64(-2); d <= 2; d++ {
			l = append(l, addi(pow2(k), d), neg(addi(pow2(k), d)))
		}
	}
	return l
}

var bounds = boundaryInts()

// GenInt: machine ints biased to 0, ±1 and the ±2^63 boundaries, and big ints.
func GenInt(r *rand.Rand) *big.Int {
	switch r.Intn(10) {
	case 0:
		return big.NewInt(0)
	case 1:
		return big.NewInt(int64(r.Intn(3) - 1))
	case 2, 3:
		return big.NewInt(int64(r.Intn(41) - 20))
	case 4:
		return big.NewInt(int64(r.Uint64())) // any int64
	case 5, 6:
		return bounds[r.Intn(len(bounds))]
	case 7:
		return big.NewInt(int64(r.Intn(2000001) - 1000000))
	default: // random big, 64..200 bits
		z := new(big.Int).Rand(r, pow2(uint(64+r.Intn(137))))
		if r.Intn(2) == 0 {
			z.Neg(z)
		}
		return z
	}
}

// GenRat: rationals (possibly integer-valued before normalisation).
func GenRat(r *rand.Rand) *big.Rat {
	var n, d *big.Int
	switch r.Intn(6) {
	case 0: // halves: ties for round / round-to-even
		n, d = addi(new(big.Int).Mul(GenInt(r), big.NewInt(2)), 1), big.NewInt(2)
	case 1:
		n, d = big.NewInt(int64(r.Intn(41)-20)), big.NewInt(int64(1+r.Intn(12)))
	case 2:
		n, d = GenInt(r), big.NewInt(int64(1+r.Intn(1000)))
	case 3:
		n, d = big.NewInt(int64(r.Intn(2001)-1000)), new(big.Int).Abs(GenInt(r))
	default:
		n, d = GenInt(r), new(big.Int).Abs(GenInt(r))
	}
	if d.Sign() == 0 {
		d = big.NewInt(3)
	}
	return new(big.Rat).SetFrac(n, d)
}

// GenExact: a canonical exact number.
func GenExact(r *rand.Rand) any {
	if r.Intn(3) == 0 {
		return NormRat(GenRat(r))
	}
	return NormInt(GenInt(r))
}

func kindOf(v any) string {
	switch v.(type) {
	case int:
		return "i"
	case *big.Int:
		return "b"
	case *big.Rat:
		return "r"
	case float64:
		return "f"
	}
	return "?"
}

var targets = []*big.Rat{
	new(big.Rat), big.NewRat(1, 1), big.NewRat(-1, 1), big.NewRat(1, 2),
	new(big.Rat).SetInt(addi(pow2(63), -1)), new(big.Rat).SetInt(pow2(63)),
	new(big.Rat).SetInt(neg(pow2(63))), new(big.Rat).SetInt(addi(neg(pow2(63)), -1)),
	new(big.Rat).SetInt(pow2(64)),
}

type runner struct {
	c   *reg.Ctx
	env *Env
}

func (x *runner) emit(cmd string, args []any, step any, bucket string) {
	o := x.env.Call(cmd, args, step)
	c := x.env.Cmds[cmd]
	class := cmd + "/" + bucket
	// narrow input classes: the repaired defect and the ambiguous-documentation case
	if cmd == "math:pow" && len(args) == 2 && IsExactZero(args[0]) {
		if e := ToRat(args[1]); e != nil && e.IsInt() && e.Sign() < 0 {
			class = "pow-zero-negative-exponent"
		}
	}
	if cmd == "/" && len(args) == 1 && IsExactZero(args[0]) {
		class = "div-reciprocal-of-exact-zero"
	}
	kinds := ""
	for _, a := range args {
		kinds += kindOf(a)
	}
	x.c.Count(class)
	st := ""
	if step != nil {
		st = NumText(step)
	}
	x.c.Emit(reg.Case{
		Coq:        CaseCoq(c, args, step, o),
		Desc:       desc{cmd, NumsText(args), st, ObsText(o)},
		Key:        fmt.Sprintf("%s %s &%s", cmd, NumsText(args), st),
		Nontrivial: len(args) >= 1 && (len(kinds) >= 2 || kinds != "i" || cmd == "range"),
		Class:      class,
	})
}

func ratArgs(qs ...*big.Rat) []any {
	l := make([]any, len(qs))
	for i, q := range qs {
		l[i] = NormRat(q)
	}
	return l
}

func run(c *reg.Ctx) {
	x := &runner{c: c, env: NewEnv()}
	r := c.Rand
	x.fixed()
	variadic := []string{"+", "-", "*", "/", "math:min", "math:max"}
	unary := []string{"math:abs", "math:ceil", "math:floor", "math:round", "math:round-to-even", "math:trunc"}
	for i := 0; i < c.N; i++ {
		switch k := r.Intn(20); {
		case k < 9: // variadic with 0..6 arguments
			cmd := variadic[r.Intn(len(variadic))]
			n := r.Intn(7)
			if cmd == "/" && n == 0 {
				n = 1 // "/" alone is cd /
			}
			args := make([]any, n)
			for j := range args {
				args[j] = GenExact(r)
			}
			bucket := "random"
			if n >= 2 && r.Intn(3) == 0 {
				// plant the last argument so that the result hits a boundary value
				x.plant(cmd, args)
				bucket = "planted"
			}
			x.emit(cmd, args, nil, bucket)
		case k < 12:
			cmd := unary[r.Intn(len(unary))]
			var a any
			if r.Intn(2) == 0 {
				a = NormRat(GenRat(r))
			} else {
				a = GenExact(r)
			}
			x.emit(cmd, []any{a}, nil, kindOf(a))
		case k < 14:
			x.genRem()
		case k < 17:
			x.genPow()
		case k < 19:
			x.genRange()
		case k == 19 && r.Intn(2) == 0: // the exact-zero rules of * and / with inexact arguments
			x.genZeroRule()
		default: // wrong arity
			cmds := append(append([]string{"%", "math:pow", "range"}, unary...), "-", "math:min", "math:max")
			cmd := cmds[r.Intn(len(cmds))]
			n := []int{0, 1, 2, 3}[r.Intn(4)]
			args := make([]any, n)
			for j := range args {
				args[j] = NormInt(big.NewInt(int64(1 + r.Intn(5))))
			}
			x.emit(cmd, args, nil, "arity")
		}
	}
}

// plant rewrites the last argument so that the exact result is one of targets.
func (x *runner) plant(cmd string, args []any) {
	r := x.c.Rand
	t := targets[r.Intn(len(targets))]
	n := len(args)
	acc := new(big.Rat)
	switch cmd {
	case "+":
		for _, a := range args[:n-1] {
			acc.Add(acc, ToRat(a))
		}
		args[n-1] = NormRat(new(big.Rat).Sub(t, acc))
	case "-":
		acc.Set(ToRat(args[0]))
		for _, a := range args[1 : n-1] {
			acc.Sub(acc, ToRat(a))
		}
		args[n-1] = NormRat(new(big.Rat).Sub(acc, t))
	case "*":
		acc.SetInt64(1)
		for _, a := range args[:n-1] {
			acc.Mul(acc, ToRat(a))
		}
		if acc.Sign() != 0 {
			args[n-1] = NormRat(new(big.Rat).Quo(t, acc))
		}
	case "/":
		acc.Set(ToRat(args[0]))
		for _, a := range args[1 : n-1] {
			if ToRat(a).Sign() == 0 {
				return
			}
			acc.Quo(acc, ToRat(a))
		}
		if t.Sign() != 0 && acc.Sign() != 0 {
			args[n-1] = NormRat(new(big.Rat).Quo(acc, t))
		}
	default: // min/max: duplicate an element in another representation class
		args[n-1] = args[r.Intn(n-1)]
	}
}

var floatPool = []float64{0.5, -1.5, 3, 1e308, 5e-324, 0, math.Copysign(0, -1), math.NaN(), math.Inf(1), math.Inf(-1)}

// genZeroRule: * and / with an exact 0 among floats and exact numbers.
func (x *runner) genZeroRule() {
	r := x.c.Rand
	n := 1 + r.Intn(5)
	args := make([]any, n)
	for j := range args {
		switch r.Intn(3) {
		case 0:
			args[j] = floatPool[r.Intn(len(floatPool))]
		case 1:
			args[j] = GenExact(r)
		default:
			args[j] = 0
		}
	}
	if r.Intn(2) == 0 {
		args[0] = 0
		x.emit("/", args, nil, "zero-rule")
	} else {
		args[r.Intn(n)] = 0
		x.emit("*", args, nil, "zero-rule")
	}
}

func (x *runner) genRem() {
	r := x.c.Rand
	var a, b any
	switch r.Intn(6) {
	case 0:
		a, b = NormInt(GenInt(r)), NormInt(big.NewInt(int64(r.Intn(7)-3)))
	case 1:
		a, b = math.MinInt64, -1
	case 2:
		a, b = GenExact(r), GenExact(r) // may be rationals: documented error
	default:
		a, b = NormInt(GenInt(r)), NormInt(GenInt(r))
	}
	x.emit("%", []any{a, b}, nil, kindOf(a)+kindOf(b))
}

func (x *runner) genPow() {
	r := x.c.Rand
	bases := []any{0, 1, -1, 2, -2, 3, 10, -10, 7, 1 << 31, 1 << 32, math.MaxInt64, math.MinInt64,
		NormInt(pow2(63)), NormInt(pow2(64)), NormRat(big.NewRat(1, 2)), NormRat(big.NewRat(-1, 2)),
		NormRat(big.NewRat(-3, 2)), NormRat(big.NewRat(10, 3))}
	var b, e any
	if r.Intn(3) == 0 {
		b = GenExact(r)
	} else {
		b = bases[r.Intn(len(bases))]
	}
	switch r.Intn(8) {
	case 0:
		e = []int{0, 1, -1}[r.Intn(3)]
	case 1:
		e = []int{2, -2, 62, 63, 64, -63, -64}[r.Intn(7)]
	case 2: // big exponent only where it is cheap
		bb, ok := b.(int)
		if ok && bb >= -1 && bb <= 1 {
			z := GenInt(r)
			e = NormInt(z)
		} else {
			e = r.Intn(81) - 40
		}
	case 3:
		if r.Intn(2) == 0 {
			b = 0
		}
		e = -1 - r.Intn(5)
	default:
		e = r.Intn(81) - 40
	}
	x.emit("math:pow", []any{b, e}, nil, kindOf(b)+kindOf(e))
}

func (x *runner) genRange() {
	r := x.c.Rand
	var start, step *big.Rat
	switch r.Intn(5) {
	case 0: // near the int boundaries, int step
		edge := []*big.Int{addi(pow2(63), -1), neg(pow2(63)), pow2(63), pow2(64)}[r.Intn(4)]
		start = new(big.Rat).SetInt(addi(edge, int64(r.Intn(41)-20)))
		step = big.NewRat(int64(1+r.Intn(9)), 1)
	case 1: // rationals
		start, step = GenRat(r), big.NewRat(int64(1+r.Intn(9)), int64(1+r.Intn(9)))
	case 2: // big step
		start = new(big.Rat).SetInt(GenInt(r))
		step = new(big.Rat).SetInt(new(big.Int).Abs(GenInt(r)))
		if step.Sign() == 0 {
			step.SetInt64(1)
		}
	default:
		start, step = big.NewRat(int64(r.Intn(41)-20), 1), big.NewRat(int64(1+r.Intn(5)), 1)
	}
	if r.Intn(2) == 0 {
		step.Neg(step)
	}
	count := int64(r.Intn(12))
	// end = start + step*count - fraction of a step (or exactly on an element)
	end := new(big.Rat).Add(start, new(big.Rat).Mul(step, big.NewRat(count, 1)))
	if r.Intn(3) != 0 && count > 0 {
		end.Sub(end, new(big.Rat).Mul(step, big.NewRat(int64(r.Intn(4)), 4)))
	}
	if end.IsInt() != (start.IsInt() && step.IsInt()) && r.Intn(2) == 0 {
		// keep an all-integer call all-integer
		end = new(big.Rat).Add(start, new(big.Rat).Mul(step, big.NewRat(count, 1)))
	}
	var st any = NormRat(step)
	bucket := "step"
	switch r.Intn(8) {
	case 0:
		if new(big.Rat).Abs(step).Cmp(big.NewRat(1, 1)) == 0 {
			st, bucket = nil, "default-step"
		}
	case 1:
		st, bucket = NormRat(new(big.Rat).Neg(step)), "wrong-sign-step"
	case 2:
		st, bucket = 0, "zero-step"
	}
	if new(big.Rat).Abs(step).Cmp(big.NewRat(1, 1)) == 0 && r.Intn(2) == 0 && bucket == "step" {
		st, bucket = nil, "default-step"
	}
	if start.Sign() == 0 && r.Intn(2) == 0 {
		x.emit("range", []any{NormRat(end)}, st, bucket+"-1arg")
		return
	}
	x.emit("range", []any{NormRat(start), NormRat(end)}, st, bucket)
}

// fixed cases: the defect classes, the documented examples and the boundary
// combinations random generation hits rarely.
func (x *runner) fixed() {
	I := func(s string) any { return NormInt(bi(s)) }
	R := func(a, b int64) any { return NormRat(big.NewRat(a, b)) }
	maxI, minI := I("9223372036854775807"), I("-9223372036854775808")
	for _, e := range []any{-1, -2, -3, -40, I("-18446744073709551616")} {
		x.emit("math:pow", []any{0, e}, nil, "fixed")
	}
	x.emit("/", []any{0}, nil, "fixed")
	type fc struct {
		cmd  string
		args []any
		step any
	}
	for _, f := range []fc{
		{"+", nil, nil}, {"*", nil, nil}, {"-", nil, nil}, {"math:min", nil, nil}, {"math:max", nil, nil},
		{"+", []any{maxI, 1}, nil}, {"+", []any{minI, -1}, nil}, {"+", []any{I("9223372036854775808"), -1}, nil},
		{"+", []any{R(1, 2), R(1, 2)}, nil}, {"+", []any{R(1, 3), R(2, 3), maxI}, nil},
		{"-", []any{minI}, nil}, {"-", []any{minI, 1}, nil}, {"-", []any{I("-9223372036854775809"), -1}, nil},
		{"-", []any{R(1, 2)}, nil}, {"-", []any{R(3, 2), R(1, 2)}, nil},
		{"*", []any{minI, -1}, nil}, {"*", []any{I("4294967296"), I("2147483648")}, nil},
		{"*", []any{I("4294967296"), I("-2147483648")}, nil}, {"*", []any{R(2, 3), R(3, 2)}, nil},
		{"*", []any{0, R(1, 2), I("18446744073709551616")}, nil},
		{"*", []any{0, 0.5}, nil}, {"*", []any{0.5, 0}, nil}, {"*", []any{0, math.NaN()}, nil}, {"*", []any{0, math.Inf(1)}, nil},
		{"*", []any{math.Inf(-1), 0}, nil}, {"/", []any{0, 1.5}, nil}, {"/", []any{0, math.NaN()}, nil}, {"/", []any{0, 0.0}, nil},
		{"/", []any{0, math.Inf(1), 2}, nil}, {"/", []any{1.5, 0}, nil}, {"/", []any{0, 2.5, 0}, nil},
		{"/", []any{1, 0}, nil}, {"/", []any{0, 0}, nil}, {"/", []any{0, 5}, nil}, {"/", []any{R(1, 2), 3, 0}, nil},
		{"/", []any{minI, -1}, nil}, {"/", []any{I("18446744073709551616"), 2}, nil}, {"/", []any{6, 3}, nil},
		{"/", []any{2}, nil}, {"/", []any{R(1, 2)}, nil}, {"/", []any{R(-1, 3)}, nil},
		{"%", []any{minI, -1}, nil}, {"%", []any{-10, 3}, nil}, {"%", []any{10, -3}, nil}, {"%", []any{10, 0}, nil},
		{"%", []any{I("10000000000000000000"), 3}, nil}, {"%", []any{I("-10000000000000000000"), I("9223372036854775808")}, nil},
		{"%", []any{I("10000000000000000000"), 0}, nil}, {"%", []any{R(1, 2), 3}, nil}, {"%", []any{3, R(1, 2)}, nil},
		{"math:abs", []any{minI}, nil}, {"math:abs", []any{I("-9223372036854775807")}, nil},
		{"math:abs", []any{I("-9223372036854775809")}, nil}, {"math:abs", []any{R(-1, 2)}, nil},
		{"math:round", []any{R(5, 2)}, nil}, {"math:round", []any{R(-5, 2)}, nil}, {"math:round", []any{R(-1, 2)}, nil},
		{"math:round-to-even", []any{R(5, 2)}, nil}, {"math:round-to-even", []any{R(7, 2)}, nil},
		{"math:round-to-even", []any{R(-5, 2)}, nil}, {"math:round-to-even", []any{R(-7, 2)}, nil},
		{"math:round-to-even", []any{R(-1, 2)}, nil}, {"math:round-to-even", []any{R(1, 2)}, nil},
		{"math:ceil", []any{R(-1, 2)}, nil}, {"math:floor", []any{R(-1, 2)}, nil}, {"math:trunc", []any{R(-7, 2)}, nil},
		{"math:ceil", []any{NormRat(new(big.Rat).SetFrac(addi(pow2(64), -1), big.NewInt(2)))}, nil},
		{"math:floor", []any{NormRat(new(big.Rat).SetFrac(neg(addi(pow2(64), 1)), big.NewInt(2)))}, nil},
		{"math:min", []any{3, R(1, 2), I("-100000000000000000000")}, nil}, {"math:max", []any{minI, I("9223372036854775808")}, nil},
		{"math:pow", []any{2, 63}, nil}, {"math:pow", []any{-2, 63}, nil}, {"math:pow", []any{2, 64}, nil},
		{"math:pow", []any{2, -63}, nil}, {"math:pow", []any{R(1, 2), -63}, nil}, {"math:pow", []any{R(-1, 2), -3}, nil},
		{"math:pow", []any{0, 0}, nil}, {"math:pow", []any{0, 5}, nil}, {"math:pow", []any{R(2, 3), 0}, nil},
		{"math:pow", []any{R(2, 3), 1}, nil}, {"math:pow", []any{R(2, 3), -1}, nil}, {"math:pow", []any{-1, I("18446744073709551617")}, nil},
		{"range", []any{I("9223372036854775800"), maxI}, 5}, {"range", []any{I("-9223372036854775800"), minI}, -5},
		{"range", []any{I("9223372036854775805"), I("9223372036854775810")}, nil},
		{"range", []any{I("-9223372036854775805"), I("-9223372036854775810")}, nil},
		{"range", []any{R(9, 10)}, R(3, 10)}, {"range", []any{4, 0}, nil}, {"range", []any{4}, nil},
		{"range", []any{5, 5}, -1}, {"range", []any{5}, 0}, {"range", []any{0, 3}, I("18446744073709551616")},
		{"range", []any{maxI}, maxI}, {"range", []any{minI, maxI}, maxI},
	} {
		x.emit(f.cmd, f.args, f.step, "fixed")
	}
}
