// Shared by the C11 and C12 runners: calling the arithmetic builtins through
// an Evaler (goFn.Call: arity test, ScanToGo, the Go function, FromGo, value
// output), surviving Go panics, and printing numbers/observations as Coq terms
// of model/C11_Num.v.
package c11

import (
	"fmt"
	"math"
	"math/big"
	"strings"

	"src.elv.sh/pkg/eval"
	"src.elv.sh/pkg/eval/errs"
	mathmod "src.elv.sh/pkg/mods/math"
	. "verifharness/coqfmt"
)

// Cmd is one command under test.
type Cmd struct {
	Name string // Elvish name
	Coq  string // constructor of C11_Num.cmd
	Fn   eval.Callable
}

// Env holds the Evaler and the commands.
type Env struct {
	Ev   *eval.Evaler
	Cmds map[string]*Cmd
}

var cmdTable = [][3]string{
	{"+", "CAdd", ""}, {"-", "CSub", ""}, {"*", "CMul", ""}, {"/", "CDiv", ""}, {"%", "CRem", ""},
	{"range", "CRange", ""}, {"exact-num", "CExactNum", ""}, {"inexact-num", "CInexactNum", ""},
	{"math:abs", "CAbs", "abs"}, {"math:ceil", "CCeil", "ceil"}, {"math:floor", "CFloor", "floor"},
	{"math:round", "CRound", "round"}, {"math:round-to-even", "CRoundEven", "round-to-even"},
	{"math:trunc", "CTrunc", "trunc"}, {"math:min", "CMin", "min"}, {"math:max", "CMax", "max"},
	{"math:pow", "CPow", "pow"},
}

func NewEnv() *Env {
	ev := eval.NewEvaler()
	ev.AddModule("math", mathmod.Ns)
	e := &Env{Ev: ev, Cmds: map[string]*Cmd{}}
	for _, t := range cmdTable {
		var v any
		if t[2] == "" {
			v = ev.Builtin().IndexString(t[0] + "~").Get()
		} else {
			v = mathmod.Ns.IndexString(t[2] + "~").Get()
		}
		e.Cmds[t[0]] = &Cmd{Name: t[0], Coq: t[1], Fn: v.(eval.Callable)}
	}
	return e
}

// Obs is what one call did.
type Obs struct {
	Vals  []any  // values put on the value output
	Err   string // error kind ("" = none)
	Panic string // panic text ("" = none)
}

// Call runs the command with typed arguments (and &step for range) and survives
// a Go panic inside the builtin.
func (e *Env) Call(cmd string, args []any, step any) (o Obs) {
	c := e.Cmds[cmd]
	port, collect, err := eval.ValueCapturePort()
	if err != nil {
		panic(err)
	}
	opts := map[string]any{}
	if step != nil {
		opts["step"] = step
	}
	func() {
		defer func() {
			if r := recover(); r != nil {
				o.Panic = fmt.Sprint(r)
			}
		}()
		err := e.Ev.Call(c.Fn, eval.CallCfg{Args: args, Opts: opts, From: "[verif]"},
			eval.EvalCfg{Ports: []*eval.Port{eval.DummyInputPort, port, eval.DummyOutputPort}})
		o.Err = ErrKind(err)
	}()
	o.Vals = collect()
	return o
}

// ErrKind maps an error to a constructor of C11_Num.err ("" for nil).
func ErrKind(err error) string {
	if err == nil {
		return ""
	}
	if exc, ok := err.(eval.Exception); ok {
		err = exc.Reason()
	}
	switch e := err.(type) {
	case errs.ArityMismatch:
		return "EArity"
	case errs.BadValue:
		switch e.What {
		case "divisor":
			return "EDivZero"
		case "argument":
			return "ENotExactInt"
		case "step":
			return "EBadStep"
		case "argument here":
			return "ENotFinite"
		}
	}
	return "EOther"
}

// NumCoq prints a Go number as a C11_Num.num term; ok=false for non-numbers.
func NumCoq(v any) (string, bool) {
	switch v := v.(type) {
	case int:
		return App("NInt", Z(int64(v))), true
	case *big.Int:
		return App("NBig", BigZ(v)), true
	case *big.Rat:
		return App("NRat", App("Qmake", BigZ(v.Num()), v.Denom().String()+"%positive")), true
	case float64:
		return App("NFloat", App("fb", fmt.Sprintf("%d%%Z", math.Float64bits(v)))), true
	}
	return "", false
}

// NumText prints a number for descriptions and keys (kind-tagged).
func NumText(v any) string {
	switch v := v.(type) {
	case int:
		return fmt.Sprintf("i%d", v)
	case *big.Int:
		return "b" + v.String()
	case *big.Rat:
		return "r" + v.String()
	case float64:
		return fmt.Sprintf("f%v/%016x", v, math.Float64bits(v))
	case nil:
		return "-"
	}
	return fmt.Sprintf("?%T:%v", v, v)
}

func NumsText(vs []any) string {
	s := make([]string, len(vs))
	for i, v := range vs {
		s[i] = NumText(v)
	}
	return strings.Join(s, " ")
}

// ObsCoq prints the observation as a C11_Num.result term.
func ObsCoq(o Obs) string {
	switch {
	case o.Panic != "":
		return "RPanic"
	case o.Err != "":
		return App("RErr", o.Err)
	}
	items := make([]string, len(o.Vals))
	for i, v := range o.Vals {
		t, ok := NumCoq(v)
		if !ok {
			return "RUnmodelled"
		}
		items[i] = t
	}
	return App("RVals", List(items))
}

func ObsText(o Obs) string {
	switch {
	case o.Panic != "":
		return "PANIC: " + o.Panic
	case o.Err != "":
		return "error " + o.Err
	}
	return "values " + NumsText(o.Vals)
}

// CaseCoq prints a C11_Num.case term.
func CaseCoq(c *Cmd, args []any, step any, o Obs) string {
	items := make([]string, len(args))
	for i, a := range args {
		items[i], _ = NumCoq(a)
	}
	st := None()
	if step != nil {
		s, _ := NumCoq(step)
		st = Some(s)
	}
	return App("mkCase", c.Coq, List(items), st, ObsCoq(o))
}

// NormInt / NormRat give the canonical Elvish representation of an exact value
// (written here independently of vals.Normalize*, which is code under test).
func NormInt(z *big.Int) any {
	if z.IsInt64() {
		return int(z.Int64())
	}
	return new(big.Int).Set(z)
}
func NormRat(q *big.Rat) any {
	if q.IsInt() {
		return NormInt(q.Num())
	}
	return new(big.Rat).Set(q)
}

// ToRat gives the exact value of an exact number.
func ToRat(v any) *big.Rat {
	switch v := v.(type) {
	case int:
		return new(big.Rat).SetInt64(int64(v))
	case *big.Int:
		return new(big.Rat).SetInt(v)
	case *big.Rat:
		return v
	}
	return nil
}

func IsExactZero(v any) bool { i, ok := v.(int); return ok && i == 0 }
