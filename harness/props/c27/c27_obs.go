package c27

// Observation of real processes from outside (procfs, and one connect probe for the path owner):
// which daemon processes exist for a socket path, which of them listen, which
// listening socket the path currently refers to, who holds the flock on the db.

import (
	"bytes"
	"fmt"
	"net"
	"os"
	"path/filepath"
	"sort"
	"strconv"
	"strings"
	"syscall"
	"time"
)

type daemonObs struct {
	Pid       int  `json:"pid"`
	Listening bool `json:"listening"`
	DBOpen    bool `json:"dbopen"`
}

type snapObs struct {
	Exists  bool        `json:"exists"`
	Owner   int         `json:"owner"` // pid or 0
	Lock    int         `json:"lock"`  // pid or 0
	Daemons []daemonObs `json:"daemons"`
	Shells  []string    `json:"shells"` // none | err | conn:<pid> | dead | gone
}

// daemonPids: live processes whose command line has "-sock <sock>" (elvish
// -daemon started through the shim, or the outdated daemon), except strace.
func daemonPids(sock string) []int {
	var pids []int
	ents, _ := os.ReadDir("/proc")
	for _, e := range ents {
		pid, err := strconv.Atoi(e.Name())
		if err != nil {
			continue
		}
		b, err := os.ReadFile("/proc/" + e.Name() + "/cmdline")
		if err != nil || len(b) == 0 {
			continue
		}
		args := strings.Split(strings.TrimRight(string(b), "\x00"), "\x00")
		if len(args) == 0 || strings.HasSuffix(args[0], "strace") {
			continue
		}
		if argAfter(args, "-sock") != sock {
			continue
		}
		// zombies keep no cmdline, but double-check the state
		if st, err := os.ReadFile("/proc/" + e.Name() + "/stat"); err == nil {
			if i := bytes.LastIndexByte(st, ')'); i >= 0 && i+2 < len(st) && st[i+2] == 'Z' {
				continue
			}
		}
		pids = append(pids, pid)
	}
	sort.Ints(pids)
	return pids
}

// fdInfo: socket inodes held by pid and whether it has file `db` open.
func fdInfo(pid int, db string) (socks map[uint64]bool, dbOpen bool) {
	socks = map[uint64]bool{}
	dir := fmt.Sprintf("/proc/%d/fd", pid)
	ents, _ := os.ReadDir(dir)
	for _, e := range ents {
		l, err := os.Readlink(filepath.Join(dir, e.Name()))
		if err != nil {
			continue
		}
		if strings.HasPrefix(l, "socket:[") {
			if n, err := strconv.ParseUint(l[8:len(l)-1], 10, 64); err == nil {
				socks[n] = true
			}
		} else if l == db {
			dbOpen = true
		}
	}
	return
}

// listeningInodes: socket inodes of listening unix stream sockets bound to the
// path name (from /proc/net/unix; several may carry the same name after an
// unlink + re-bind, so this does not say which one the path refers to).
func listeningInodes(sock string) map[uint64]bool {
	res := map[uint64]bool{}
	b, err := os.ReadFile("/proc/net/unix")
	if err != nil {
		return res
	}
	for _, line := range strings.Split(string(b), "\n") {
		// Num RefCount Protocol Flags Type St Inode Path
		f := strings.Fields(line)
		if len(f) < 8 || f[7] != sock {
			continue
		}
		flags, _ := strconv.ParseUint(f[3], 16, 64)
		if flags&0x10000 == 0 { // __SO_ACCEPTCON
			continue
		}
		if ino, err := strconv.ParseUint(f[6], 10, 64); err == nil {
			res[ino] = true
		}
	}
	return res
}

// probeOwner connects to the path and asks the kernel for the credentials of
// the listener (SO_PEERCRED = the process that called listen).  The kernel has
// no non-intrusive interface for this here (CONFIG_UNIX_DIAG is off), so the
// caller must only probe a settled system, and decides whether the connection
// may be closed at once (see world.snapshot).
func probeOwner(sock string) (int, net.Conn) {
	c, err := net.DialTimeout("unix", sock, 5*time.Second)
	if err != nil {
		return 0, nil
	}
	pid := 0
	if rc, err := c.(*net.UnixConn).SyscallConn(); err == nil {
		rc.Control(func(fd uintptr) {
			if u, err := syscall.GetsockoptUcred(int(fd), syscall.SOL_SOCKET, syscall.SO_PEERCRED); err == nil {
				pid = int(u.Pid)
			}
		})
	}
	return pid, c
}

// lockHolder: pid holding a flock on the file (from /proc/locks), 0 if none.
func lockHolder(db string) int {
	var st syscall.Stat_t
	if err := syscall.Stat(db, &st); err != nil {
		return 0
	}
	b, err := os.ReadFile("/proc/locks")
	if err != nil {
		return 0
	}
	for _, line := range strings.Split(string(b), "\n") {
		f := strings.Fields(line)
		// "1: FLOCK ADVISORY WRITE pid maj:min:inode start end"   (blocked waiters have "->")
		if len(f) < 6 || f[1] != "FLOCK" {
			continue
		}
		parts := strings.Split(f[5], ":")
		if len(parts) != 3 {
			continue
		}
		ino, err := strconv.ParseUint(parts[2], 10, 64)
		if err != nil || ino != st.Ino {
			continue
		}
		pid, _ := strconv.Atoi(f[4])
		return pid
	}
	return 0
}

// observe takes one snapshot of the outside-visible facts, except the owner of
// the path (see probeOwner).
func observe(sock, db string) (snapObs, error) {
	var s snapObs
	var st syscall.Stat_t
	if err := syscall.Lstat(sock, &st); err == nil {
		s.Exists = true
	}
	listening := listeningInodes(sock)
	for _, pid := range daemonPids(sock) {
		fds, dbOpen := fdInfo(pid, db)
		d := daemonObs{Pid: pid, DBOpen: dbOpen}
		for ino := range fds {
			if listening[ino] {
				d.Listening = true
			}
		}
		s.Daemons = append(s.Daemons, d)
	}
	s.Lock = lockHolder(db)
	return s, nil
}
