// Package c27: daemon activation yields one live daemon per socket
// (pkg/daemon/activate.go, server.go, client.go).
//
// Real processes: the elvish binary is built from the repository under test once
// per run; activators are re-executions of this harness binary that call
// daemon.Activate (see c27_child.go); every daemon is a real `elvish -daemon`.
// Interleavings are driven from outside: when each process is released, a stale
// socket file prepared in advance, SIGSTOP/SIGCONT on activators, and (for the
// recorded defect recipes) a strace delay injected after one system call.
// After every scripted action the outside-visible facts are recorded
// (c27_obs.go) and the whole trace is judged inside Coq by check_C27, and --
// where the model's patient explorer is cheap enough -- compared with the set of
// traces the model can produce.
package c27

import (
	"bufio"
	"encoding/json"
	"fmt"
	"io"
	"net"
	"os"
	"os/exec"
	"path/filepath"
	"strconv"
	"strings"
	"sync"
	"syscall"
	"time"

	. "verifharness/coqfmt"
	"verifharness/reg"
)

func init() {
	childDispatch()
	reg.Register(&reg.Spec{ID: "C27",
		Imports: "From verif Require Import lib.Base model.C27.",
		Judge:   "C27.judge", Shard: 6, Run: run})
}

// ---------------------------------------------------------------- scenario plans

type action struct {
	K      string `json:"k"`                // acts | leave | crash
	Shells []int  `json:"shells,omitempty"` // acts
	S      int    `json:"s,omitempty"`      // leave, crash (peer of shell S)
	// race control for acts with several shells
	JitterMs []int `json:"jitter_ms,omitempty"` // release delay per shell
	StopIdx  int   `json:"stop_idx,omitempty"`  // shell index in Shells to SIGSTOP (-1 none)
	StopAtMs int   `json:"stop_at_ms,omitempty"`
	StopForM int   `json:"stop_for_ms,omitempty"`
	// Hold: this shell (started under strace, which stops it with SIGSTOP right
	// after its first connect returned, i.e. before the os.Remove of the stale socket) is released
	// first; the others run only once it is held, and it is continued when they
	// have finished.  0 = nobody (shell 0 is never the held one).
	Hold int `json:"hold,omitempty"`
	// HoldOld: the outdated daemon (started under strace, which stops it right after
	// its first unlinkat = the os.Remove of its exit path) is continued as soon as
	// the successor daemon listens.
	HoldOld bool `json:"hold_old,omitempty"`
}

type plan struct {
	Name    string   `json:"name"`
	Class   string   `json:"class"`
	N       int      `json:"n"`
	Stale   bool     `json:"stale"`
	Old     bool     `json:"old"`
	Corr    bool     `json:"corr"`
	Actions []action `json:"actions"`
	// strace injection specs (outside scheduler for the recorded defect recipes)
	StraceShell  map[int]string `json:"strace_shell,omitempty"`
	StraceOld    string         `json:"strace_old,omitempty"`
	StraceDaemon string         `json:"strace_daemon,omitempty"`
}

type desc struct {
	Plan   plan      `json:"plan"`
	S0     snapObs   `json:"s0"`
	Snaps  []snapObs `json:"snaps"`
	Errors []string  `json:"activate_errors,omitempty"`
	Note   string    `json:"note,omitempty"`
}

// ---------------------------------------------------------------- world

type shell struct {
	idx    int
	cmd    *exec.Cmd
	in     io.WriteCloser
	out    *bufio.Reader
	state  string // none | err | conn | dead | gone
	traced bool
	pid    int // peer pid after a successful activation
	err    string
}

type world struct {
	dir, sock, db, run string
	exe                string
	shells             []*shell
	old                *exec.Cmd
	extra              []*exec.Cmd
	probes             map[int]net.Conn
	timeoutMs          int
	errs               []string
}

func newWorld(scratch string, i int, exe string) *world {
	dir := filepath.Join(scratch, fmt.Sprintf("s%d", i))
	os.MkdirAll(filepath.Join(dir, "run"), 0o755)
	return &world{dir: dir, sock: filepath.Join(dir, "sock"), db: filepath.Join(dir, "db"),
		run: filepath.Join(dir, "run"), exe: exe, timeoutMs: 15000, probes: map[int]net.Conn{}}
}

func (w *world) startShell(idx int, strace string) (*shell, error) {
	var cmd *exec.Cmd
	if strace != "" {
		st, err := lookStrace()
		if err != nil {
			return nil, err
		}
		args := append(strings.Fields(strings.ReplaceAll(strace, "@LOG@", filepath.Join(w.dir, fmt.Sprintf("strace-%d.log", idx)))), w.exe)
		cmd = exec.Command(st, args...)
	} else {
		cmd = exec.Command(w.exe)
	}
	cmd.Env = []string{childEnv + "=shell", "VERIF_C27_SOCK=" + w.sock, "VERIF_C27_DB=" + w.db,
		"VERIF_C27_RUN=" + w.run, "VERIF_C27_TIMEOUT_MS=" + strconv.Itoa(w.timeoutMs)}
	cmd.Stderr = io.Discard
	in, err := cmd.StdinPipe()
	if err != nil {
		return nil, err
	}
	outp, err := cmd.StdoutPipe()
	if err != nil {
		return nil, err
	}
	if err := cmd.Start(); err != nil {
		return nil, err
	}
	sh := &shell{idx: idx, cmd: cmd, in: in, out: bufio.NewReader(outp), state: "none", traced: strace != ""}
	line, err := sh.readLine(60 * time.Second)
	if err != nil || line != "ready" {
		cmd.Process.Kill()
		return nil, fmt.Errorf("shell child did not come up: %q %v", line, err)
	}
	return sh, nil
}

func (s *shell) readLine(d time.Duration) (string, error) {
	type r struct {
		l string
		e error
	}
	ch := make(chan r, 1)
	go func() { l, e := s.out.ReadString('\n'); ch <- r{strings.TrimSpace(l), e} }()
	select {
	case x := <-ch:
		return x.l, x.e
	case <-time.After(d):
		return "", fmt.Errorf("timeout")
	}
}

func (s *shell) send(cmd string) { io.WriteString(s.in, cmd+"\n") }

func (s *shell) awaitResult(d time.Duration) {
	line, err := s.readLine(d)
	if err != nil || !strings.HasPrefix(line, "R ") {
		s.state, s.err = "err", fmt.Sprintf("harness: no activation result: %q %v", line, err)
		return
	}
	var r actResult
	json.Unmarshal([]byte(line[2:]), &r)
	if r.OK {
		s.state, s.pid = "conn", r.Pid
	} else {
		s.state, s.err = "err", r.Err
	}
}

func (s *shell) ping() int {
	s.send("ping")
	line, err := s.readLine(30 * time.Second)
	if err != nil || !strings.HasPrefix(line, "P ") {
		return -1
	}
	p, _ := strconv.Atoi(line[2:])
	return p
}

func (s *shell) leave() {
	s.send("exit")
	s.readLine(30 * time.Second)
	s.in.Close()
	done := make(chan struct{})
	go func() { s.cmd.Wait(); close(done) }()
	select {
	case <-done:
	case <-time.After(func() time.Duration {
		if s.traced {
			return 200 * time.Millisecond
		}
		return 5 * time.Second
	}()):
		// strace -f keeps running while a followed daemon lives; do not wait for it
	}
	s.state = "gone"
}

// settled: no daemon process is in the middle of starting up or exiting.
func settled(o snapObs) bool {
	if o.Lock != 0 {
		// /proc/locks may still show a process that is already gone from /proc/<pid>/cmdline
		held := false
		for _, d := range o.Daemons {
			held = held || d.Pid == o.Lock
		}
		if !held {
			return false
		}
	}
	for _, d := range o.Daemons {
		if !d.Listening {
			return false // before listen, or past closing the listener
		}
		if d.DBOpen && o.Lock != d.Pid {
			return false // waiting for the database lock
		}
	}
	return true
}

func sameDaemons(a, b snapObs) bool {
	if len(a.Daemons) != len(b.Daemons) || a.Owner != b.Owner || a.Lock != b.Lock || a.Exists != b.Exists {
		return false
	}
	for i := range a.Daemons {
		if a.Daemons[i] != b.Daemons[i] {
			return false
		}
	}
	return true
}

// snapshot waits until the daemons are settled (two equal consecutive
// observations), then pings every connected shell.
func (w *world) snapshot(gone func(snapObs) bool) (snapObs, error) {
	deadline := time.Now().Add(25 * time.Second)
	var prev snapObs
	havePrev := false
	for {
		o, err := observe(w.sock, w.db)
		if err != nil {
			return o, err
		}
		ok := settled(o) && (gone == nil || gone(o))
		if ok && havePrev && sameDaemons(prev, o) {
			prev = o
			break
		}
		prev, havePrev = o, ok
		if time.Now().After(deadline) {
			break
		}
		time.Sleep(40 * time.Millisecond)
	}
	clients := map[int]bool{}
	for _, sh := range w.shells {
		switch sh.state {
		case "conn":
			if p := sh.ping(); p > 0 {
				clients[p] = true
				prev.Shells = append(prev.Shells, "conn:"+strconv.Itoa(p))
			} else {
				// once dropped, a client is not asked again (its next call would re-dial)
				sh.state = "dead"
				prev.Shells = append(prev.Shells, "dead")
			}
		default:
			prev.Shells = append(prev.Shells, sh.state)
		}
	}
	{
		// the owner of the path: one connect probe, only now that things are settled
		if prev.Exists {
			anyListening := false
			for _, d := range prev.Daemons {
				anyListening = anyListening || d.Listening
			}
			if anyListening {
				pid, conn := probeOwner(w.sock)
				for _, d := range prev.Daemons {
					if d.Pid == pid && d.Listening {
						prev.Owner = pid
					}
				}
				if conn != nil {
					if pid > 0 && !clients[pid] {
						// closing the only connection of a daemon would make it exit: keep it
						if old := w.probes[pid]; old != nil {
							conn.Close()
						} else {
							w.probes[pid] = conn
						}
					} else {
						conn.Close()
					}
				}
			}
		}
		for pid, conn := range w.probes {
			if clients[pid] && conn != nil {
				conn.Close()
				delete(w.probes, pid)
			}
		}
	}
	return prev, nil
}

func (w *world) cleanup() {
	for _, c := range w.probes {
		if c != nil {
			c.Close()
		}
	}
	for _, sh := range w.shells {
		if sh != nil && sh.cmd.Process != nil {
			sh.cmd.Process.Kill()
		}
	}
	if w.old != nil && w.old.Process != nil {
		w.old.Process.Kill()
	}
	for i := 0; i < 3; i++ {
		for _, pid := range daemonPids(w.sock) {
			syscall.Kill(pid, syscall.SIGKILL)
		}
		time.Sleep(20 * time.Millisecond)
	}
	for _, c := range w.extra {
		if c.Process != nil {
			c.Process.Kill()
		}
	}
	for _, sh := range w.shells {
		if sh != nil {
			go sh.cmd.Wait()
		}
	}
	if w.old != nil {
		go w.old.Wait()
	}
	os.RemoveAll(w.dir)
}

// makeStale leaves a socket file nobody listens on (what a SIGKILLed daemon leaves).
func makeStale(sock string) error {
	l, err := net.Listen("unix", sock)
	if err != nil {
		return err
	}
	l.(*net.UnixListener).SetUnlinkOnClose(false)
	return l.Close()
}

// ---------------------------------------------------------------- running a plan

func snapCoq(o snapObs) string {
	opt := func(p int) string {
		if p > 0 {
			return Some(N(uint64(p)))
		}
		return None()
	}
	var ds, shs []string
	for _, d := range o.Daemons {
		ds = append(ds, Pair(N(uint64(d.Pid)), Bool(d.Listening)))
	}
	for _, s := range o.Shells {
		switch {
		case s == "none":
			shs = append(shs, "ONone")
		case s == "err":
			shs = append(shs, "OErr")
		case s == "dead":
			shs = append(shs, "ODead")
		case s == "gone":
			shs = append(shs, "OGone")
		case strings.HasPrefix(s, "conn:"):
			p, _ := strconv.Atoi(s[5:])
			shs = append(shs, App("OConn", N(uint64(p))))
		}
	}
	return App("mkSnap", Bool(o.Exists), opt(o.Owner), opt(o.Lock), List(ds), List(shs))
}

func actionCoq(a action) string {
	switch a.K {
	case "acts":
		var l []string
		for _, s := range a.Shells {
			l = append(l, Nat(s))
		}
		return App("AActs", List(l))
	case "leave":
		return App("ALeave", Nat(a.S))
	default:
		return App("ACrashPeer", Nat(a.S))
	}
}

func runPlan(scratch string, i int, exe, elvishVer string, p plan) (d desc, coq string, direct string) {
	d.Plan = p
	w := newWorld(scratch, i, exe)
	defer w.cleanup()
	fail := func(f string, a ...any) (desc, string, string) {
		d.Note = fmt.Sprintf(f, a...)
		return d, "", "harness: " + d.Note
	}
	if p.StraceDaemon != "" {
		os.WriteFile(filepath.Join(w.dir, "strace-daemon"), []byte(p.StraceDaemon), 0o644)
	}
	if p.Stale {
		if err := makeStale(w.sock); err != nil {
			return fail("cannot prepare stale socket: %v", err)
		}
	}
	if p.Old {
		ver, _ := strconv.Atoi(elvishVer)
		args := []string{"-c27-olddaemon", "-sock", w.sock, "-db", w.db, "-ver", strconv.Itoa(ver - 1)}
		if p.StraceOld != "" {
			st, err := lookStrace()
			if err != nil {
				return fail("no strace")
			}
			spec := strings.ReplaceAll(p.StraceOld, "@LOG@", filepath.Join(w.dir, "strace-old.log"))
			w.old = exec.Command(st, append(append(strings.Fields(spec), w.exe), args...)...)
		} else {
			w.old = exec.Command(w.exe, args...)
		}
		w.old.Env = []string{}
		lf, _ := os.Create(filepath.Join(w.run, "old.log"))
		w.old.Stdout, w.old.Stderr = lf, lf
		if err := w.old.Start(); err != nil {
			return fail("cannot start outdated daemon: %v", err)
		}
		lf.Close()
		// wait until it serves with the database
		ok := false
		for t := 0; t < 600; t++ {
			o, err := observe(w.sock, w.db)
			if err == nil && len(o.Daemons) == 1 && o.Daemons[0].Listening && o.Lock == o.Daemons[0].Pid {
				ok = true
				break
			}
			time.Sleep(25 * time.Millisecond)
		}
		if !ok {
			return fail("outdated daemon did not come up")
		}
	}
	for s := 0; s < p.N; s++ {
		sh, err := w.startShell(s, p.StraceShell[s])
		if err != nil {
			return fail("cannot start shell %d: %v", s, err)
		}
		w.shells = append(w.shells, sh)
	}
	s0, err := w.snapshot(nil)
	if err != nil {
		return fail("observe: %v", err)
	}
	d.S0 = s0
	var steps []string
	for _, a := range p.Actions {
		var gone func(snapObs) bool
		switch a.K {
		case "acts":
			var wg sync.WaitGroup
			holdPid := 0
			if a.Hold > 0 {
				hs := w.shells[a.Hold]
				hs.send("go")
				holdPid = waitHeld(hs.cmd.Process.Pid, filepath.Join(w.dir, fmt.Sprintf("strace-%d.log", a.Hold)), 40*time.Second)
				if holdPid == 0 {
					d.Note = "held shell did not reach its os.Remove (it saw no stale socket?)"
				}
			}
			for k, s := range a.Shells {
				sh := w.shells[s]
				if a.Hold > 0 && s == a.Hold {
					continue
				}
				delay := 0
				if k < len(a.JitterMs) {
					delay = a.JitterMs[k]
				}
				wg.Add(1)
				go func() {
					defer wg.Done()
					time.Sleep(time.Duration(delay) * time.Millisecond)
					sh.send("go")
					sh.awaitResult(time.Duration(w.timeoutMs)*3*time.Millisecond + 60*time.Second)
				}()
			}
			if a.Hold == 0 && len(a.Shells) > 1 && a.StopIdx >= 0 && a.StopIdx < len(a.Shells) && a.StopForM > 0 {
				sh := w.shells[a.Shells[a.StopIdx]]
				time.Sleep(time.Duration(a.StopAtMs) * time.Millisecond)
				syscall.Kill(sh.cmd.Process.Pid, syscall.SIGSTOP)
				time.Sleep(time.Duration(a.StopForM) * time.Millisecond)
				syscall.Kill(sh.cmd.Process.Pid, syscall.SIGCONT)
			}
			if a.HoldOld && w.old != nil {
				oldPid := waitHeld(w.old.Process.Pid, filepath.Join(w.dir, "strace-old.log"), 40*time.Second)
				if oldPid == 0 {
					d.Note = "outdated daemon was not held after its os.Remove"
				} else {
					// wait until the successor has bound the path, then let the old daemon finish
					for t0 := time.Now(); time.Since(t0) < 30*time.Second; time.Sleep(20 * time.Millisecond) {
						o, err := observe(w.sock, w.db)
						n := 0
						for _, dd := range o.Daemons {
							if dd.Listening {
								n++
							}
						}
						if err == nil && n >= 2 && o.Exists {
							break
						}
					}
					syscall.Kill(oldPid, syscall.SIGCONT)
				}
			}
			if a.Hold > 0 {
				wg.Wait()
				if holdPid > 0 {
					syscall.Kill(holdPid, syscall.SIGCONT)
				}
				w.shells[a.Hold].awaitResult(time.Duration(w.timeoutMs)*3*time.Millisecond + 60*time.Second)
			}
			wg.Wait()
			for _, s := range a.Shells {
				if w.shells[s].state == "err" {
					d.Errors = append(d.Errors, fmt.Sprintf("shell %d: %s", s, w.shells[s].err))
				}
			}
		case "leave":
			sh := w.shells[a.S]
			peer, last := 0, false
			if sh.state == "conn" {
				peer, last = sh.pid, true
				for _, o := range w.shells {
					if o != sh && o.state == "conn" && o.pid == peer {
						last = false
					}
				}
			}
			sh.leave()
			if last {
				// the daemon is expected to exit: wait (bounded) until it is gone
				t0 := time.Now()
				gone = func(o snapObs) bool {
					if time.Since(t0) > 12*time.Second {
						return true
					}
					for _, dd := range o.Daemons {
						if dd.Pid == peer {
							return false
						}
					}
					return true
				}
			} else {
				time.Sleep(120 * time.Millisecond)
			}
		case "crash":
			sh := w.shells[a.S]
			if sh.state == "conn" && sh.pid > 0 {
				peer := sh.pid
				syscall.Kill(peer, syscall.SIGKILL)
				t0 := time.Now()
				gone = func(o snapObs) bool {
					if time.Since(t0) > 12*time.Second {
						return true
					}
					for _, dd := range o.Daemons {
						if dd.Pid == peer {
							return false
						}
					}
					return true
				}
			}
		}
		o, err := w.snapshot(gone)
		if err != nil {
			return fail("observe: %v", err)
		}
		// the harness's own view of who is connected follows what ping said
		for k, sh := range w.shells {
			if sh.state == "conn" && k < len(o.Shells) {
				if strings.HasPrefix(o.Shells[k], "conn:") {
					sh.pid, _ = strconv.Atoi(o.Shells[k][5:])
				}
			}
		}
		d.Snaps = append(d.Snaps, o)
		steps = append(steps, Pair(actionCoq(a), snapCoq(o)))
	}
	coq = App("mkCase", Nat(p.N), Bool(p.Stale), Bool(p.Old), Bool(p.Corr), snapCoq(d.S0), List(steps))
	return d, coq, ""
}

// timeoutish: an activation error that only says "too slow" (loaded machine).
func timeoutish(d desc) bool {
	for _, e := range d.Errors {
		if strings.Contains(e, "did not come up within") || strings.Contains(e, "did not remove socket within") ||
			strings.Contains(e, "no activation result") {
			return true
		}
	}
	return false
}

// ---------------------------------------------------------------- plans

func acts(shells ...int) action { return action{K: "acts", Shells: shells, StopIdx: -1} }
func leave(s int) action        { return action{K: "leave", S: s} }
func crash(s int) action        { return action{K: "crash", S: s} }

func fixedPlans() []plan {
	return []plan{
		{Name: "clean-start-1", Class: "serialized-clean", N: 1, Corr: true,
			Actions: []action{acts(0), leave(0)}},
		{Name: "live-daemon-3-serialized", Class: "serialized-clean", N: 3, Corr: true,
			Actions: []action{acts(0), acts(1), acts(2), leave(1), leave(0), leave(2)}},
		{Name: "stale-socket-2-serialized", Class: "serialized-stale", N: 2, Stale: true, Corr: true,
			Actions: []action{acts(0), acts(1), leave(0), leave(1)}},
		{Name: "crash-then-activate", Class: "serialized-crash", N: 3, Corr: true,
			Actions: []action{acts(0), acts(1), crash(0), acts(2), leave(2)}},
		{Name: "exit-after-last-client-then-restart", Class: "serialized-restart", N: 3, Corr: true,
			Actions: []action{acts(0), leave(0), acts(1), acts(2), leave(1), leave(2)}},
		{Name: "version-mismatch", Class: "serialized-outdated", N: 2, Old: true, Corr: true,
			Actions: []action{acts(0), acts(1), leave(0), leave(1)}},
	}
}

// the recorded defect (DESIGN section 7 item 14), replayed deterministically: shell 1 is
// stopped (SIGSTOP injected by strace when its first connect returns, refused)
// between detectDaemon = connectionRefused and os.Remove; shell 0 then activates
// completely; shell 1 is continued.
func recipeStale() plan {
	return plan{Name: "recipe-concurrent-stale", Class: "concurrent-activation-stale-socket", N: 2, Stale: true, Corr: true,
		StraceShell: map[int]string{1: "-f -b execve -q -o @LOG@ -e trace=connect -e inject=connect:signal=SIGSTOP:when=1"},
		Actions: []action{{K: "acts", Shells: []int{1, 0}, StopIdx: -1, Hold: 1},
			leave(0), leave(1)}}
}

// the second unlink of Serve's exit path (listener.Close), replayed with an
// outdated daemon and ONE shell: the old daemon is stopped right after its
// os.Remove; the shell sees the path gone and spawns the successor; once the
// successor listens the old daemon continues: st.Close, listener.Close = unlink.
func recipeUpgrade() plan {
	return plan{Name: "recipe-upgrade-second-unlink", Class: "upgrade-old-daemon-second-unlink", N: 2, Old: true, Corr: true,
		StraceOld: "-f -b execve -q -o @LOG@ -e trace=unlinkat -e inject=unlinkat:signal=SIGSTOP:when=1",
		Actions:   []action{{K: "acts", Shells: []int{0}, StopIdx: -1, HoldOld: true}, acts(1), leave(0), leave(1)}}
}

// waitHeld waits until strace reports that the process it traces (child of
// strace process spid) was stopped by the injected SIGSTOP, and returns its pid
// (0 on timeout).  The signal is delivered when the syscall returns.
func waitHeld(spid int, log string, d time.Duration) int {
	deadline := time.Now().Add(d)
	for time.Now().Before(deadline) {
		if b, err := os.ReadFile(log); err == nil && strings.Contains(string(b), "stopped by SIGSTOP") {
			if pid := childOf(spid); pid > 0 && stoppedState(pid) {
				return pid
			}
		}
		time.Sleep(25 * time.Millisecond)
	}
	return 0
}

func statFields(pid int) []string {
	b, err := os.ReadFile(fmt.Sprintf("/proc/%d/stat", pid))
	if err != nil {
		return nil
	}
	s := string(b)
	i := strings.LastIndexByte(s, ')')
	if i < 0 {
		return nil
	}
	return strings.Fields(s[i+1:]) // state ppid ...
}

func stoppedState(pid int) bool {
	f := statFields(pid)
	return len(f) > 0 && (f[0] == "T" || f[0] == "t")
}

func childOf(ppid int) int {
	ents, _ := os.ReadDir("/proc")
	for _, e := range ents {
		pid, err := strconv.Atoi(e.Name())
		if err != nil {
			continue
		}
		f := statFields(pid)
		if len(f) > 1 && f[1] == strconv.Itoa(ppid) {
			return pid
		}
	}
	return 0
}

func randomPlan(c *reg.Ctx) plan {
	r := c.Rand
	switch r.Intn(10) {
	case 0, 1, 2: // serialized random script
		n := 2 + r.Intn(3)
		stale := r.Intn(3) == 0
		p := plan{Name: "serialized-random", N: n, Stale: stale, Corr: true, Class: "serialized-random"}
		if stale {
			p.Class = "serialized-stale"
		}
		var connected []int
		next := 0
		crashed := false
		for len(p.Actions) < 2*n+1 {
			k := r.Intn(10)
			switch {
			case next < n && (k < 5 || len(connected) == 0):
				p.Actions = append(p.Actions, acts(next))
				connected = append(connected, next)
				next++
			case k < 8 && len(connected) > 0:
				j := r.Intn(len(connected))
				p.Actions = append(p.Actions, leave(connected[j]))
				connected = append(connected[:j], connected[j+1:]...)
			case !crashed && len(connected) > 0:
				p.Actions = append(p.Actions, crash(connected[0]))
				connected = nil
				crashed = true
				p.Class = "serialized-crash"
			default:
				if next >= n && len(connected) == 0 {
					return p
				}
			}
		}
		return p
	default: // race of 2..4 concurrent activators
		n := 2 + r.Intn(3)
		if r.Intn(2) == 0 {
			n = 2
		}
		stale := r.Intn(2) == 0
		p := plan{Name: "race", N: n, Stale: stale, Corr: n == 2, Class: "concurrent-clean"}
		if stale {
			p.Class = "concurrent-activation-stale-socket"
		}
		a := action{K: "acts", StopIdx: -1}
		for s := 0; s < n; s++ {
			a.Shells = append(a.Shells, s)
			a.JitterMs = append(a.JitterMs, r.Intn(12))
		}
		if r.Intn(3) > 0 {
			a.StopIdx = r.Intn(n)
			a.StopAtMs = r.Intn(25)
			a.StopForM = 20 + r.Intn(200)
		}
		p.Actions = append(p.Actions, a)
		// then everybody leaves, in a random order
		for _, s := range r.Perm(n) {
			p.Actions = append(p.Actions, leave(s))
		}
		return p
	}
}

// ---------------------------------------------------------------- run

func repoDir() string {
	if r := os.Getenv("VERIF_REPO"); r != "" {
		return r
	}
	return "/repo"
}

func run(c *reg.Ctx) {
	exe, err := os.Executable()
	if err != nil {
		c.Emit(reg.Case{Direct: "harness: os.Executable: " + err.Error(), Class: "harness", Key: "self"})
		return
	}
	elvish := filepath.Join(c.Scratch, "elvish")
	bcmd := exec.Command("go", "build", "-o", elvish, "./cmd/elvish")
	bcmd.Dir = repoDir()
	bcmd.Env = append(os.Environ(), "GOFLAGS=-mod=mod", "GOPROXY=off", "GOSUMDB=off", "GOTOOLCHAIN=local", "CGO_ENABLED=0")
	if out, err := bcmd.CombinedOutput(); err != nil {
		c.Emit(reg.Case{Direct: "harness: cannot build cmd/elvish: " + err.Error() + ": " + string(out), Class: "harness", Key: "build"})
		return
	}
	// the API version of the tree under test, asked from a real daemon
	ver := probeVersion(c.Scratch, exe)

	plans := fixedPlans()
	if _, err := lookStrace(); err == nil {
		plans = append(plans, recipeStale(), recipeUpgrade())
	}
	for i := 0; i < c.N; i++ {
		plans = append(plans, randomPlan(c))
	}
	type out struct {
		d      desc
		coq    string
		direct string
	}
	res := make([]out, len(plans))
	par := 3
	if c.Tier == "thorough" {
		par = 4
	}
	sem := make(chan struct{}, par)
	var wg sync.WaitGroup
	for i := range plans {
		wg.Add(1)
		sem <- struct{}{}
		go func(i int) {
			defer wg.Done()
			defer func() { <-sem }()
			for attempt := 0; attempt < 3; attempt++ {
				d, coq, direct := runPlan(c.Scratch, i*10+attempt, exe, ver, plans[i])
				res[i] = out{d, coq, direct}
				// a run that only shows "too slow" is repeated (bounded)
				if direct == "" && !timeoutish(d) {
					break
				}
				if attempt < 2 {
					res[i].d.Note = "repeated: too slow"
				}
			}
		}(i)
	}
	wg.Wait()
	for i, p := range plans {
		o := res[i]
		c.Count(p.Class)
		b, _ := json.Marshal(p)
		cs := reg.Case{Coq: o.coq, Desc: o.d, Key: string(b), Class: p.Class,
			Nontrivial: p.N >= 2 || p.Stale || p.Old, Direct: o.direct}
		if o.direct != "" {
			cs.Coq = ""
			cs.Class = "harness"
		}
		c.Emit(cs)
	}
}

func probeVersion(scratch, exe string) string {
	w := newWorld(scratch, 99999, exe)
	defer w.cleanup()
	sh, err := w.startShell(0, "")
	if err != nil {
		return "0"
	}
	w.shells = append(w.shells, sh)
	sh.send("go")
	line, err := sh.readLine(90 * time.Second)
	if err != nil || !strings.HasPrefix(line, "R ") {
		return "0"
	}
	var r actResult
	json.Unmarshal([]byte(line[2:]), &r)
	sh.leave()
	return strconv.Itoa(r.Ver)
}
