package c27

// Child modes of the harness binary.
//
//  1. "<exe> -daemon -db D -sock S": this is what daemon.Activate starts, because
//     spawn() uses os.Executable() -- and the activator IS the harness binary.
//     The shim replaces itself (execve, same pid) by the real elvish binary that
//     the run built from the repository under test:  <scratch>/elvish, found as
//     dir(dir(S))/elvish.  If dir(S)/strace-daemon exists, its content is a
//     strace injection spec and the daemon is started under strace (used to
//     widen a race window from outside; no source hooks).
//  2. VERIF_C27_CHILD=shell: an activator.  Line protocol on stdin/stdout:
//     "go" -> daemon.Activate -> "R {json}";  "ping" -> Pid RPC over the held
//     client -> "P <pid|-1>";  "exit" -> client.Close -> "X", exit.
//  3. "<exe> -c27-olddaemon -sock S -db D -ver V": daemon.Serve answering Version
//     with V (the exported ServeOpts.Version test knob) -- an outdated daemon.

import (
	"bufio"
	"bytes"
	"encoding/json"
	"fmt"
	"os"
	"path/filepath"
	"strconv"
	"strings"
	"syscall"
	"time"

	"src.elv.sh/pkg/daemon"
	"src.elv.sh/pkg/daemon/daemondefs"
)

const childEnv = "VERIF_C27_CHILD"

type actResult struct {
	OK  bool   `json:"ok"`
	Pid int    `json:"pid"`
	Ver int    `json:"ver"`
	Err string `json:"err,omitempty"`
	Log string `json:"log,omitempty"`
}

func argAfter(args []string, flag string) string {
	for i := 0; i+1 < len(args); i++ {
		if args[i] == flag {
			return args[i+1]
		}
	}
	return ""
}

func childDispatch() {
	if len(os.Args) > 1 && os.Args[1] == "-daemon" {
		shimDaemon()
		os.Exit(97)
	}
	if len(os.Args) > 1 && os.Args[1] == "-c27-olddaemon" {
		ver, _ := strconv.Atoi(argAfter(os.Args, "-ver"))
		code := daemon.Serve(argAfter(os.Args, "-sock"), argAfter(os.Args, "-db"), daemon.ServeOpts{Version: &ver})
		os.Exit(code)
	}
	if os.Getenv(childEnv) == "shell" {
		shellChild()
		os.Exit(0)
	}
}

func shimDaemon() {
	sock := argAfter(os.Args, "-sock")
	scn := filepath.Dir(sock)
	elvish := filepath.Join(filepath.Dir(scn), "elvish")
	args := append([]string{elvish}, os.Args[1:]...)
	if spec, err := os.ReadFile(filepath.Join(scn, "strace-daemon")); err == nil {
		if st, err := lookStrace(); err == nil {
			sargs := append([]string{st}, strings.Fields(strings.TrimSpace(string(spec)))...)
			sargs = append(sargs, args...)
			syscall.Exec(st, sargs, []string{})
		}
	}
	err := syscall.Exec(elvish, args, []string{})
	fmt.Fprintln(os.Stderr, "c27 shim: exec failed:", err)
}

func lookStrace() (string, error) {
	for _, p := range []string{"/usr/bin/strace", "/bin/strace", "/usr/local/bin/strace"} {
		if _, err := os.Stat(p); err == nil {
			return p, nil
		}
	}
	return "", os.ErrNotExist
}

func shellChild() {
	cfg := &daemondefs.SpawnConfig{
		DbPath:   os.Getenv("VERIF_C27_DB"),
		SockPath: os.Getenv("VERIF_C27_SOCK"),
		RunDir:   os.Getenv("VERIF_C27_RUN"),
	}
	if ms, err := strconv.Atoi(os.Getenv("VERIF_C27_TIMEOUT_MS")); err == nil && ms > 0 {
		d := time.Duration(ms) * time.Millisecond
		daemon.VerifC27SetTimeouts(d, d)
	}
	in := bufio.NewReader(os.Stdin)
	out := bufio.NewWriter(os.Stdout)
	say := func(s string) { out.WriteString(s + "\n"); out.Flush() }
	var cl daemondefs.Client
	say("ready")
	for {
		line, err := in.ReadString('\n')
		if err != nil {
			if cl != nil {
				cl.Close()
			}
			return
		}
		switch strings.TrimSpace(line) {
		case "go":
			var log bytes.Buffer
			var res actResult
			c, err := daemon.Activate(&log, cfg)
			res.Log = log.String()
			if err != nil {
				res.Err = err.Error()
				// an error result: give the connection (if any) back at once
				if c != nil {
					c.Close()
				}
			} else {
				cl = c
				res.OK = true
				res.Pid, err = cl.Pid()
				if err != nil {
					res.Pid = -1
					res.Err = "pid rpc after activation: " + err.Error()
				}
				res.Ver, _ = cl.Version()
			}
			b, _ := json.Marshal(res)
			say("R " + string(b))
		case "ping":
			pid := -1
			if cl != nil {
				if p, err := cl.Pid(); err == nil {
					pid = p
				}
			}
			say("P " + strconv.Itoa(pid))
		case "exit":
			if cl != nil {
				cl.Close()
			}
			say("X")
			return
		}
	}
}
