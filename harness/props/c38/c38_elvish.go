package c38

import (
	"fmt"
	"os"
	"strings"
	"sync"

	"src.elv.sh/pkg/cli"
	"src.elv.sh/pkg/edit"
	"src.elv.sh/pkg/eval"
	"src.elv.sh/pkg/eval/vals"
	"src.elv.sh/pkg/getopt"
	"src.elv.sh/pkg/mods"
	"src.elv.sh/pkg/parse"
	"verifharness/reg"
)

// The Elvish-level entry points (flag:parse-getopt, edit:complete-getopt) are
// thin glue over getopt.Parse / getopt.Complete.  They are tied to the directly
// judged observations here: what comes out of Elvish must be what the Go call
// returned for the same input; a disagreement is reported as a direct finding.

var (
	evOnce sync.Once
	ev     *eval.Evaler
)

func evaler() *eval.Evaler {
	evOnce.Do(func() {
		ev = eval.NewEvaler()
		mods.AddTo(ev)
		devnull, _ := os.OpenFile(os.DevNull, os.O_RDWR, 0)
		ed := edit.NewEditor(cli.NewTTY(devnull, devnull), ev, nil)
		ev.ExtendBuiltin(eval.BuildNs().AddNs("edit", ed))
	})
	return ev
}

func evalValues(code string) ([]any, error) {
	e := evaler()
	port, collect, err := eval.ValueCapturePort()
	if err != nil {
		return nil, err
	}
	err = e.Eval(parse.Source{Name: "[c38]", Code: code},
		eval.EvalCfg{Ports: []*eval.Port{eval.DummyInputPort, port, eval.DummyOutputPort}})
	return collect(), err
}

func elvBool(b bool) string {
	if b {
		return "$true"
	}
	return "$false"
}

func elvList(ss []string) string {
	q := make([]string, len(ss))
	for i, s := range ss {
		q[i] = parse.Quote(s)
	}
	return "[" + strings.Join(q, " ") + "]"
}

func elvSpec(s *getopt.OptionSpec, extra string) string {
	var sb strings.Builder
	sb.WriteString("[")
	if s.Short != 0 {
		sb.WriteString("&short=" + parse.Quote(string(s.Short)) + " ")
	}
	if s.Long != "" {
		sb.WriteString("&long=" + parse.Quote(s.Long) + " ")
	}
	switch s.Arity {
	case getopt.RequiredArgument:
		sb.WriteString("&arg-required=$true ")
	case getopt.OptionalArgument:
		sb.WriteString("&arg-optional=$true ")
	}
	sb.WriteString(extra + "]")
	return sb.String()
}

func mapStr(m any, k string) string {
	v, err := vals.Index(m, k)
	if err != nil {
		return ""
	}
	s, _ := v.(string)
	return s
}

func mapBool(m any, k string) bool {
	v, err := vals.Index(m, k)
	if err != nil {
		return false
	}
	b, _ := v.(bool)
	return b
}

func listOf(v any) []any {
	var out []any
	vals.Iterate(v, func(x any) bool { out = append(out, x); return true })
	return out
}

func viaElvish(c *reg.Ctx, sel cfgSel, specs []*getopt.OptionSpec, args []string) {
	for _, s := range specs {
		if s.Short == 0 && s.Long == "" {
			return
		}
	}
	viaFlagParse(c, sel, specs, args)
	if len(args) > 0 {
		viaCompleteGetopt(c, specs, args)
	}
}

func direct(c *reg.Ctx, via, class string, d desc, what string) {
	d.Via = via
	c.Count(via + "/" + class)
	c.Emit(reg.Case{Desc: d, Key: fmt.Sprintf("%s|%s|%v|%q", via, d.Cfg, d.Specs, d.Args),
		Nontrivial: len(d.Args) > 1, Class: class, Direct: what})
}

func viaFlagParse(c *reg.Ctx, sel cfgSel, specs []*getopt.OptionSpec, args []string) {
	dd, sf, lo := sel.conv()
	specStrs := make([]string, len(specs))
	for i, s := range specs {
		specStrs[i] = elvSpec(s, "")
	}
	code := fmt.Sprintf("use flag; flag:parse-getopt &stop-after-double-dash=%s &stop-before-non-flag=%s &long-only=%s %s [%s]",
		elvBool(dd), elvBool(sf), elvBool(lo), elvList(args), strings.Join(specStrs, " "))
	d := desc{Call: "Parse", Cfg: sel.String(), Specs: descSpecs(specs), Args: args}
	class := classOf("Parse", sel, specs, args)
	if class == "parse" {
		class = "flag-parse-getopt"
	}
	opts, non, err := getopt.Parse(append([]string(nil), args...), copySpecs(specs), sel.goCfg())
	out, everr := evalValues(code)
	what := ""
	switch {
	case err != nil && everr == nil:
		what = fmt.Sprintf("getopt.Parse fails (%v) but flag:parse-getopt succeeds", err)
	case err == nil && everr != nil:
		what = fmt.Sprintf("getopt.Parse succeeds but flag:parse-getopt fails: %v", everr)
	case err == nil:
		if len(out) != 2 {
			what = fmt.Sprintf("flag:parse-getopt put %d values", len(out))
			break
		}
		fl, nn := listOf(out[0]), listOf(out[1])
		if len(fl) != len(opts) || len(nn) != len(non) {
			what = fmt.Sprintf("flag:parse-getopt: %d flags, %d args; getopt.Parse: %d, %d", len(fl), len(nn), len(opts), len(non))
			break
		}
		for i, f := range fl {
			spec, _ := vals.Index(f, "spec")
			o := opts[i]
			wantShort := ""
			if o.Spec.Short != 0 {
				wantShort = string(o.Spec.Short)
			}
			if mapStr(f, "arg") != o.Argument || mapBool(f, "long") != o.Long ||
				mapStr(spec, "short") != wantShort || mapStr(spec, "long") != o.Spec.Long {
				what = fmt.Sprintf("flag %d from flag:parse-getopt is %s, getopt.Parse has %s", i, vals.ReprPlain(f), optStr(o))
			}
		}
		for i, a := range nn {
			if a != non[i] {
				what = fmt.Sprintf("arg %d from flag:parse-getopt is %v, getopt.Parse has %q", i, a, non[i])
			}
		}
	}
	d.Obs = fmt.Sprintf("elvish: %v err=%v; go: opts=%s non=%q err=%v", len(out), everr, optsStr(opts), non, err)
	direct(c, "flag:parse-getopt", class, d, what)
}

// viaCompleteGetopt calls edit:complete-getopt (fixed to the GNU configuration)
// with completers that reveal the context, and compares with getopt.Complete.
func viaCompleteGetopt(c *reg.Ctx, specs []*getopt.OptionSpec, args []string) {
	sel := cfgSel{name: "GNU"}
	specStrs := make([]string, len(specs))
	for i, s := range specs {
		specStrs[i] = elvSpec(s, fmt.Sprintf("&completer={|a| put [optarg %d $a] }", i))
	}
	handlers := "{|a| put [arg 0 $a] } {|a| put [arg 1 $a] } {|a| put [arg 2 $a] } {|a| put [arg more $a] } ..."
	code := fmt.Sprintf("edit:complete-getopt %s [%s] [%s]", elvList(args), strings.Join(specStrs, " "), handlers)
	d := desc{Call: "Complete", Cfg: "GNU", Specs: descSpecs(specs), Args: args}
	class := classOf("Complete", sel, specs, args)
	if class == "complete" {
		class = "edit-complete-getopt"
	}
	sp := copySpecs(specs)
	_, non, ctx := getopt.Complete(append([]string(nil), args...), sp, getopt.GNU)
	out, everr := evalValues(code)
	var got []string
	for _, v := range out {
		got = append(got, vals.ReprPlain(v))
	}
	// what the documented glue must produce for this context
	var want []string
	idx := func(s *getopt.OptionSpec) int {
		for i, x := range sp {
			if x == s {
				return i
			}
		}
		return -1
	}
	argTag := func(text string) string {
		n := "more"
		if len(non) < 3 {
			n = fmt.Sprint(len(non))
		}
		return vals.ReprPlain(vals.MakeList("arg", n, text))
	}
	switch ctx.Type {
	case getopt.OptionOrArgument, getopt.Argument:
		want = []string{argTag(ctx.Text)}
	case getopt.OptionArgument:
		if i := idx(ctx.Option.Spec); i >= 0 {
			want = []string{vals.ReprPlain(vals.MakeList("optarg", fmt.Sprint(i), ctx.Option.Argument))}
		}
	default:
		want = nil // candidates are complex items; only their number is compared below
	}
	what := ""
	switch ctx.Type {
	case getopt.OptionOrArgument, getopt.Argument, getopt.OptionArgument:
		if everr != nil || fmt.Sprint(got) != fmt.Sprint(want) {
			what = fmt.Sprintf("edit:complete-getopt produced %v (err %v); getopt.Complete's context {%s %s %q} with %d arguments requires %v",
				got, everr, ctxTypeName(ctx.Type), optStr(ctx.Option), ctx.Text, len(non), want)
		}
	default:
		n := 0
		for _, s := range sp {
			switch ctx.Type {
			case getopt.AnyOption:
				if s.Short != 0 {
					n++
				}
				if s.Long != "" {
					n++
				}
			case getopt.LongOption:
				if s.Long != "" && strings.HasPrefix(s.Long, ctx.Text) {
					n++
				}
			case getopt.ChainShortOption:
				if s.Short != 0 {
					n++
				}
			}
		}
		if everr != nil || len(got) != n {
			what = fmt.Sprintf("edit:complete-getopt produced %d candidates (err %v); context %s %q requires %d",
				len(got), everr, ctxTypeName(ctx.Type), ctx.Text, n)
		}
	}
	d.Obs = fmt.Sprintf("elvish: %v err=%v; go ctx={%s %s %q} non=%q", got, everr, ctxTypeName(ctx.Type), optStr(ctx.Option), ctx.Text, non)
	direct(c, "edit:complete-getopt", class, d, what)
}
