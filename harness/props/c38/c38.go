// Package c38: option parsing (pkg/getopt/getopt.go) against the getopt_long
// conventions. Observations of getopt.Parse and getopt.Complete are judged in
// Coq (model/C38.v); flag:parse-getopt is tied to getopt.Parse in c38_elvish.go.
package c38

import (
	"fmt"
	"strings"
	"unicode/utf8"

	"src.elv.sh/pkg/getopt"
	. "verifharness/coqfmt"
	"verifharness/reg"
)

func init() {
	reg.Register(&reg.Spec{ID: "C38",
		Imports: "From verif Require Import lib.Base model.C38.",
		Judge:   "C38.judge", Shard: 250, Run: run})
}

type specD struct {
	Short rune   `json:"short"`
	Long  string `json:"long"`
	Arity string `json:"arity"`
}

type desc struct {
	Call  string   `json:"call"`
	Cfg   string   `json:"cfg"`
	Specs []specD  `json:"specs"`
	Args  []string `json:"args"`
	Obs   string   `json:"obs"`
	Via   string   `json:"via,omitempty"`
}

// cfgSel is one way of selecting a configuration.
type cfgSel struct {
	name string // GNU, BSD, or flags
	dd   bool
	sf   bool
	lo   bool
}

func (s cfgSel) goCfg() getopt.Config {
	switch s.name {
	case "GNU":
		return getopt.GNU
	case "BSD":
		return getopt.BSD
	}
	var c getopt.Config
	if s.dd {
		c |= getopt.StopAfterDoubleDash
	}
	if s.sf {
		c |= getopt.StopBeforeFirstNonOption
	}
	if s.lo {
		c |= getopt.LongOnly
	}
	return c
}

func (s cfgSel) coq() string {
	switch s.name {
	case "GNU":
		return "CGNU"
	case "BSD":
		return "CBSD"
	}
	return App("CFlags", Bool(s.dd), Bool(s.sf), Bool(s.lo))
}

func (s cfgSel) String() string {
	if s.name != "flags" {
		return s.name
	}
	return fmt.Sprintf("flags(dd=%v,sf=%v,lo=%v)", s.dd, s.sf, s.lo)
}

// conventions selected (only used to steer the generator)
func (s cfgSel) conv() (dd, sf, lo bool) {
	switch s.name {
	case "GNU":
		return true, false, false
	case "BSD":
		return true, true, false
	}
	return s.dd, s.sf, s.lo
}

var allCfgs = func() []cfgSel {
	l := []cfgSel{{name: "GNU"}, {name: "BSD"}}
	for i := 0; i < 8; i++ {
		l = append(l, cfgSel{"flags", i&1 != 0, i&2 != 0, i&4 != 0})
	}
	return l
}()

func arityName(a getopt.Arity) string {
	switch a {
	case getopt.NoArgument:
		return "NoArg"
	case getopt.RequiredArgument:
		return "ReqArg"
	case getopt.OptionalArgument:
		return "OptArg"
	}
	return fmt.Sprintf("(BadArity %d)", uint(a))
}

func str(s string) string { return App("u", Str(s)) }

func specCoq(s *getopt.OptionSpec) string {
	return App("mkSpec", N(uint64(s.Short)), str(s.Long), arityName(s.Arity))
}

func optCoq(o *getopt.Option) string {
	return App("mkOpt", specCoq(o.Spec), Bool(o.Unknown), Bool(o.Long), str(o.Argument))
}

func optsCoq(os []*getopt.Option) string {
	items := make([]string, len(os))
	for i, o := range os {
		items[i] = optCoq(o)
	}
	return List(items)
}

func strsCoq(ss []string) string {
	items := make([]string, len(ss))
	for i, s := range ss {
		items[i] = str(s)
	}
	return List(items)
}

func optStr(o *getopt.Option) string {
	if o == nil {
		return "nil"
	}
	return fmt.Sprintf("{%q/%q/%s unk=%v long=%v arg=%q}", string(o.Spec.Short), o.Spec.Long,
		arityName(o.Spec.Arity), o.Unknown, o.Long, o.Argument)
}

func optsStr(os []*getopt.Option) string {
	var sb strings.Builder
	for _, o := range os {
		sb.WriteString(optStr(o))
	}
	return sb.String()
}

// error kinds of getopt.Parse's error, in order
func errKinds(err error) ([]string, string) {
	if err == nil {
		return nil, ""
	}
	msg := err.Error()
	parts := []string{msg}
	if strings.HasPrefix(msg, "multiple errors: ") {
		parts = strings.Split(strings.TrimPrefix(msg, "multiple errors: "), "; ")
	}
	var kinds []string
	for _, p := range parts {
		switch {
		case strings.HasPrefix(p, "missing argument for "):
			kinds = append(kinds, "EMissing")
		case strings.HasPrefix(p, "unknown option "):
			kinds = append(kinds, "EUnknown")
		default:
			return nil, "unclassified error: " + p
		}
	}
	return kinds, ""
}

func ctxTypeName(t getopt.ContextType) string {
	switch t {
	case getopt.OptionOrArgument:
		return "OptionOrArgument"
	case getopt.AnyOption:
		return "AnyOption"
	case getopt.LongOption:
		return "LongOption"
	case getopt.ChainShortOption:
		return "ChainShortOption"
	case getopt.OptionArgument:
		return "OptionArgument"
	case getopt.Argument:
		return "Argument"
	}
	return fmt.Sprintf("(BadCtx %d)", uint(t))
}

// classOf names the input class; defect-prone inputs get their own narrow class.
func classOf(call string, sel cfgSel, specs []*getopt.OptionSpec, args []string) string {
	hasEmptyLong, hasZeroShort := false, false
	for _, s := range specs {
		if s.Long == "" {
			hasEmptyLong = true
		}
		if s.Short == 0 {
			hasZeroShort = true
		}
	}
	_, _, lo := sel.conv()
	for _, a := range args {
		if !utf8.ValidString(a) && strings.HasPrefix(a, "-") && !strings.HasPrefix(a, "--") && !lo {
			return "short-invalid-utf8"
		}
	}
	for _, a := range args {
		if hasEmptyLong && (strings.HasPrefix(a, "--=") || (lo && strings.HasPrefix(a, "-="))) {
			return "empty-long-name-eq"
		}
	}
	for _, a := range args {
		if hasZeroShort && !lo && strings.HasPrefix(a, "-") && !strings.HasPrefix(a, "--") &&
			strings.ContainsRune(a, 0) {
			return "nul-short-name"
		}
	}
	if call == "Complete" && len(args) == 0 {
		return "complete-empty-args"
	}
	for _, s := range specs {
		if strings.ContainsRune(s.Long, '=') {
			return "long-name-with-eq"
		}
	}
	return strings.ToLower(call)
}

func copySpecs(specs []*getopt.OptionSpec) []*getopt.OptionSpec {
	out := make([]*getopt.OptionSpec, len(specs))
	for i, s := range specs {
		c := *s
		out[i] = &c
	}
	return out
}

func descSpecs(specs []*getopt.OptionSpec) []specD {
	out := make([]specD, len(specs))
	for i, s := range specs {
		out[i] = specD{s.Short, s.Long, arityName(s.Arity)}
	}
	return out
}

func nontrivial(specs []*getopt.OptionSpec, args []string) bool {
	if len(specs) == 0 || len(args) < 2 {
		return false
	}
	for _, a := range args {
		if len(a) > 1 && a[0] == '-' {
			return true
		}
	}
	return false
}

func emit(c *reg.Ctx, call string, sel cfgSel, specs []*getopt.OptionSpec, args []string, via string) {
	class := classOf(call, sel, specs, args)
	specItems := make([]string, len(specs))
	for i, s := range specs {
		specItems[i] = specCoq(s)
	}
	callCoq := "CallParse"
	if call == "Complete" {
		callCoq = "CallComplete"
	}
	key := fmt.Sprintf("%s|%s|%v|%q", call, sel, descSpecs(specs), args)
	d := desc{Call: call, Cfg: sel.String(), Specs: descSpecs(specs), Args: args, Via: via}
	c.Count(call + "/" + sel.name + "/" + class)

	var obs string
	var panicked any
	func() {
		defer func() { panicked = recover() }()
		sp := copySpecs(specs)
		ar := append([]string(nil), args...)
		if call == "Parse" {
			opts, non, err := getopt.Parse(ar, sp, sel.goCfg())
			kinds, bad := errKinds(err)
			if bad != "" {
				kinds = []string{"(" + bad + ")"}
			}
			obs = App("ObsParse", optsCoq(opts), strsCoq(non), List(kinds))
			d.Obs = fmt.Sprintf("opts=%s non=%q err=%v", optsStr(opts), non, err)
		} else {
			opts, non, ctx := getopt.Complete(ar, sp, sel.goCfg())
			o := None()
			if ctx.Option != nil {
				o = Some(optCoq(ctx.Option))
			}
			obs = App("ObsComplete", optsCoq(opts), strsCoq(non),
				App("mkCtx", ctxTypeName(ctx.Type), o, str(ctx.Text)))
			d.Obs = fmt.Sprintf("opts=%s non=%q ctx={%s %s %q}", optsStr(opts), non,
				ctxTypeName(ctx.Type), optStr(ctx.Option), ctx.Text)
		}
	}()
	cs := reg.Case{Desc: d, Key: key, Nontrivial: nontrivial(specs, args), Class: class}
	valid := true
	for _, a := range args {
		valid = valid && utf8.ValidString(a)
	}
	switch {
	case panicked != nil && call == "Complete" && len(args) == 0:
		d.Obs = fmt.Sprintf("panic: %v", panicked)
		cs.Desc = d
		cs.Coq = App("mkCase", callCoq, sel.coq(), List(specItems), strsCoq(args), "ObsPanic")
	case panicked != nil:
		d.Obs = fmt.Sprintf("panic: %v", panicked)
		cs.Desc = d
		cs.Direct = fmt.Sprintf("getopt.%s panics: %v", call, panicked)
	case !valid:
		// the model speaks about valid UTF-8 only; see invalidUTF8 for what is checked
		return
	default:
		cs.Desc = d
		cs.Coq = App("mkCase", callCoq, sel.coq(), List(specItems), strsCoq(args), obs)
	}
	c.Emit(cs)
}

// ---------------------------------------------------------------- generators

var shortPool = []rune{'a', 'b', 'c', 'o', 'p', 'x', 'é', 'v', '1'}
var longPool = []string{"foo", "bar", "fo", "foo-bar", "o", "é", "all", "a", "ab"}
var wordPool = []string{"", "x", "-", "--", "-a", "--foo", "v=1", "é", "a b", "file.txt", "=", "--=y", "0"}

func pick[T any](c *reg.Ctx, l []T) T { return l[c.Rand.Intn(len(l))] }

func genSpecs(c *reg.Ctx) []*getopt.OptionSpec {
	n := c.Rand.Intn(6)
	var specs []*getopt.OptionSpec
	usedS, usedL := map[rune]bool{}, map[string]bool{}
	dupOK := c.Rand.Intn(12) == 0
	for i := 0; i < n; i++ {
		s := &getopt.OptionSpec{Arity: getopt.Arity(c.Rand.Intn(3))}
		kind := c.Rand.Intn(3) // 0 short-only, 1 long-only, 2 both
		if kind != 1 {
			s.Short = pick(c, shortPool)
			switch c.Rand.Intn(40) {
			case 0:
				s.Short = '='
			case 1:
				s.Short = '-'
			}
			if usedS[s.Short] && !dupOK {
				continue
			}
			usedS[s.Short] = true
		}
		if kind != 0 {
			s.Long = pick(c, longPool)
			switch c.Rand.Intn(60) {
			case 0:
				s.Long = "-lead"
			case 1:
				s.Long = "k=v"
			}
			if usedL[s.Long] && !dupOK {
				continue
			}
			usedL[s.Long] = true
		}
		specs = append(specs, s)
	}
	return specs
}

// genArgs renders a random item sequence for the configuration (mostly valid).
func genArgs(c *reg.Ctx, sel cfgSel, specs []*getopt.OptionSpec) []string {
	dd, _, lo := sel.conv()
	var flags, shortArg, longs []*getopt.OptionSpec
	for _, s := range specs {
		if s.Short != 0 {
			if s.Arity == getopt.NoArgument {
				flags = append(flags, s)
			} else {
				shortArg = append(shortArg, s)
			}
		}
		if s.Long != "" {
			longs = append(longs, s)
		}
	}
	argVal := func() string { return pick(c, wordPool) }
	var args []string
	n := c.Rand.Intn(6)
	if c.Rand.Intn(8) == 0 {
		n += c.Rand.Intn(10)
	}
	for i := 0; i < n; i++ {
		switch k := c.Rand.Intn(10); {
		case k < 3 && !lo: // a word of short options
			w := "-"
			for j := c.Rand.Intn(4); j > 0 && len(flags) > 0; j-- {
				w += string(pick(c, flags).Short)
			}
			switch e := c.Rand.Intn(6); {
			case e < 2 && len(shortArg) > 0:
				s := pick(c, shortArg)
				w += string(s.Short)
				switch {
				case c.Rand.Intn(2) == 0:
					a := argVal()
					w += a // attached (empty = none)
				case s.Arity == getopt.RequiredArgument && (i < n-1 || c.Rand.Intn(2) == 0):
					args = append(args, w)
					w = argVal() // detached
				}
			case e == 2:
				w += string(pick(c, []rune{'z', 'q', 'é', '=', '-'})) + pick(c, []string{"", "rest", "=1"})
			}
			args = append(args, w)
		case k < 6 && (len(longs) > 0 || k == 5): // a long option
			d := "--"
			if lo && c.Rand.Intn(2) == 0 {
				d = "-"
			}
			if len(longs) == 0 || c.Rand.Intn(6) == 0 {
				// unknown long option
				args = append(args, d+pick(c, []string{"nope", "fo", "foo-", "x", "é"})+pick(c, []string{"", "=", "=v"}))
				continue
			}
			s := pick(c, longs)
			w := d + s.Long
			switch {
			case s.Arity == getopt.NoArgument:
				if c.Rand.Intn(15) == 0 {
					w += "=unexpected"
				}
			case c.Rand.Intn(2) == 0:
				w += "=" + argVal()
			case s.Arity == getopt.RequiredArgument && (i < n-1 || c.Rand.Intn(2) == 0):
				args = append(args, w)
				w = argVal()
			}
			args = append(args, w)
		case k == 6 && dd || k == 6 && c.Rand.Intn(3) == 0:
			args = append(args, "--")
		default:
			args = append(args, pick(c, wordPool))
		}
	}
	return args
}

var rawRunes = []rune{'-', '-', '=', 'a', 'o', 'x', 'f', 0, 'é', ' '}

// genRaw: the malformed stream — words of random runes and fragments of names.
func genRaw(c *reg.Ctx, specs []*getopt.OptionSpec) []string {
	n := c.Rand.Intn(6)
	args := make([]string, n)
	for i := range args {
		var sb strings.Builder
		for j := c.Rand.Intn(6); j > 0; j-- {
			if len(specs) > 0 && c.Rand.Intn(4) == 0 {
				s := pick(c, specs)
				if c.Rand.Intn(2) == 0 && s.Short != 0 {
					sb.WriteRune(s.Short)
				} else {
					sb.WriteString(s.Long)
				}
			} else {
				sb.WriteRune(pick(c, rawRunes))
			}
		}
		args[i] = sb.String()
	}
	return args
}

func sp(short rune, long string, a getopt.Arity) *getopt.OptionSpec {
	return &getopt.OptionSpec{Short: short, Long: long, Arity: a}
}

func run(c *reg.Ctx) {
	both := func(sel cfgSel, specs []*getopt.OptionSpec, args []string, via string) {
		emit(c, "Parse", sel, specs, args, via)
		emit(c, "Complete", sel, specs, args, via)
	}
	// 1. fixed: the table of conventions and the planted defect classes, under every configuration
	std := []*getopt.OptionSpec{sp('a', "all", getopt.NoArgument), sp('b', "", getopt.NoArgument),
		sp('o', "output", getopt.RequiredArgument), sp('p', "param", getopt.OptionalArgument),
		sp(0, "long-only", getopt.NoArgument), sp(0, "req", getopt.RequiredArgument)}
	fixed := [][]string{
		{}, {""}, {"-"}, {"--"}, {"-ab"}, {"-abofile", "x"}, {"-abo", "file", "x"}, {"-o"}, {"-abo"},
		{"-p", "x"}, {"-pval", "x"}, {"--all", "x", "-b"}, {"--output=f", "--output", "g", "--output"},
		{"--param", "x"}, {"--param=x"}, {"--param="}, {"x", "-a", "--", "-b"}, {"--", "-a"}, {"-o", "--", "-a"},
		{"--req", "--", "x"}, {"-all"}, {"-output", "f"}, {"-output=f"}, {"--unknown", "--unknown=v", "-z", "-zrest", "-az"},
		{"-", "-a"}, {"a", "-", "--", "-a"}, {"--all=oops"}, {"---all"}, {"-a-b"}, {"--o"}, {"-=x"}, {"--=x"},
		{"--=x", "y"}, {"-a", "--=", "-b"}, {"-\x00"}, {"-a\x00b"}, {"--\x00"}, {"-b", "-\x00", "x"},
		{"--req"}, {"-long-only"}, {"--long-only", ""}, {"-o", ""}, {"-ao", "", ""},
		{"--", ""}, {"x", ""}, {"x", "-"}, {"--", "--"}, {"-p", "-"}, {"-a", "--param", "--", "--all"},
	}
	for _, sel := range allCfgs {
		for _, args := range fixed {
			both(sel, std, args, "fixed")
		}
	}
	// short-only and long-only spec lists with the defect inputs
	for _, sel := range allCfgs {
		both(sel, []*getopt.OptionSpec{sp('a', "", getopt.RequiredArgument)}, []string{"--=x", "rest"}, "planted")
		both(sel, []*getopt.OptionSpec{sp('a', "", getopt.NoArgument)}, []string{"-=x", "rest"}, "planted")
		both(sel, []*getopt.OptionSpec{sp(0, "foo", getopt.RequiredArgument)}, []string{"-\x00", "rest"}, "planted")
		both(sel, []*getopt.OptionSpec{sp('a', "foo", getopt.RequiredArgument)}, []string{"--=x", "-\x00", "rest"}, "planted")
	}
	invalidUTF8(c)

	// 2. random specs; args = rendered item sequences (mostly valid) or the malformed stream
	for i := 0; i < c.N/5; i++ {
		specs := genSpecs(c)
		sel := allCfgs[c.Rand.Intn(len(allCfgs))]
		var args []string
		via := "items"
		if c.Rand.Intn(5) == 0 {
			args, via = genRaw(c, specs), "raw"
		} else {
			args = genArgs(c, sel, specs)
		}
		if c.Rand.Intn(3) == 0 {
			// the same argument list under every configuration
			for _, s2 := range allCfgs {
				emit(c, "Parse", s2, specs, args, via)
			}
		}
		both(sel, specs, args, via)
		if i%10 == 0 {
			viaElvish(c, sel, specs, args)
		}
	}
}

// invalidUTF8: words of short options that are not valid UTF-8 are outside the
// rune model; they are judged here directly.  The oracle: no panic; every
// option character is what Go's decoder yields at that byte offset (U+FFFD, one
// byte wide, for an invalid byte); the argument of an unknown or argument-taking
// option is the exact byte suffix of the word after that character.
func invalidUTF8(c *reg.Ctx) {
	specs := []*getopt.OptionSpec{sp('a', "all", getopt.NoArgument), sp('b', "", getopt.NoArgument),
		sp('o', "output", getopt.RequiredArgument), sp('p', "", getopt.OptionalArgument)}
	words := []string{"-\xff", "-\xffa", "-\xffab", "-\xffabc", "-\xffabcd", "-a\xff", "-ab\xffrest",
		"-o\xff", "-o\xffab", "-p\xc3", "-a\xe2\x82", "-a\xe2\x82rest", "-\xc3\xa9\xff", "-ab\x80\x80", "-\xed\xa0\x80x"}
	bad := []string{"\xff", "\x80", "\xc3", "\xe2\x82", "\xf0\x9f", "\xed\xa0\x80", "\xc0\xaf"}
	n := c.N / 40
	for i := 0; i < n; i++ {
		w := "-"
		for j := c.Rand.Intn(3); j > 0; j-- {
			w += pick(c, []string{"a", "b"})
		}
		if c.Rand.Intn(3) == 0 {
			w += pick(c, []string{"o", "p"})
		}
		w += pick(c, bad) + pick(c, []string{"", "a", "ab", "abc", "é", "=x", "\xff"})
		words = append(words, w)
	}
	for _, w := range words {
		args := []string{w, "next"}
		sel := cfgSel{name: "GNU"}
		class := classOf("Parse", sel, specs, args)
		d := desc{Call: "Parse", Cfg: "GNU", Specs: descSpecs(specs), Args: args, Via: "invalid-utf8"}
		cs := reg.Case{Key: fmt.Sprintf("invalid|%q", args), Class: class, Nontrivial: true}
		// expected reading of the word
		type exp struct {
			short   rune
			unknown bool
			arg     string
		}
		var want []exp
		needNext := false
		body := w[1:]
		for i := 0; i < len(body); {
			r, size := utf8.DecodeRuneInString(body[i:])
			var found *getopt.OptionSpec
			for _, s := range specs {
				if s.Short != 0 && s.Short == r {
					found = s
					break
				}
			}
			rest := body[i+size:]
			if found != nil && found.Arity == getopt.NoArgument {
				want = append(want, exp{r, false, ""})
				i += size
				continue
			}
			if found != nil {
				if rest == "" && found.Arity == getopt.RequiredArgument {
					needNext = true
					rest = "next"
				}
				want = append(want, exp{r, false, rest})
			} else {
				want = append(want, exp{r, true, rest})
			}
			break
		}
		func() {
			defer func() {
				if r := recover(); r != nil {
					d.Obs = fmt.Sprintf("panic: %v", r)
					cs.Direct = fmt.Sprintf("getopt.Parse panics on %q: %v", args, r)
				}
			}()
			opts, non, _ := getopt.Parse(append([]string(nil), args...), copySpecs(specs), getopt.GNU)
			d.Obs = fmt.Sprintf("opts=%s non=%q", optsStr(opts), non)
			ok := len(opts) == len(want) && (needNext && len(non) == 0 || !needNext && len(non) == 1 && non[0] == "next")
			for i := 0; ok && i < len(want); i++ {
				o := opts[i]
				ok = o.Spec.Short == want[i].short && o.Unknown == want[i].unknown && o.Argument == want[i].arg && !o.Long
			}
			if !ok {
				cs.Direct = fmt.Sprintf("getopt.Parse(%q) returns %s with arguments %q; the word reads as %+v (each argument is the exact byte suffix)",
					args, optsStr(opts), non, want)
			}
		}()
		cs.Desc = d
		c.Count("Parse/GNU/" + class)
		c.Emit(cs)
	}
}
