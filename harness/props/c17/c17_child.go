package c17

// Child mode: the harness binary re-executes itself with VERIF_C17_CHILD=1.
// The child builds an Evaler (all bundled modules, an edit: namespace built
// on a dummy terminal, and the verif: test builtins), reads programs as JSON
// lines from stdin, evaluates each under recover + watchdog and answers with
// one JSON line per program.  A Go panic on a goroutine other than the
// evaluating one, a Go "fatal error" (deadlock detector, out of memory,
// concurrent map writes, stack exhaustion) or a wedged process kills or blocks
// the child only; the parent attributes it to the program announced last.

import (
	"bufio"
	"encoding/json"
	"fmt"
	"os"
	"path/filepath"
	"reflect"
	"regexp"
	"runtime"
	"runtime/debug"
	"sort"
	"strings"
	"syscall"
	"time"

	"src.elv.sh/pkg/cli"
	"src.elv.sh/pkg/edit"
	"src.elv.sh/pkg/eval"
	"src.elv.sh/pkg/eval/errs"
	"src.elv.sh/pkg/eval/vals"
	"src.elv.sh/pkg/eval/vars"
	"src.elv.sh/pkg/mods"
	"src.elv.sh/pkg/parse"
)

// request: one program.
type request struct {
	I         int    `json:"i"`
	Code      string `json:"code"`
	TimeoutMs int    `json:"timeout_ms"`
	// Sig, when set, (re)defines the test builtin verif:g before Code runs.
	Sig *sigDesc `json:"sig,omitempty"`
}

// response: what happened.
type response struct {
	Start   bool     `json:"start,omitempty"` // announcement written before the program runs
	I       int      `json:"i"`
	Outcome string   `json:"outcome,omitempty"` // ok | exception | parse-error | compile-error | panic | hang | busy
	Kind    string   `json:"kind,omitempty"`    // Go type of the exception's reason
	Msg     string   `json:"msg,omitempty"`
	Lo      int      `json:"lo,omitempty"` // ArityMismatch fields
	Hi      int      `json:"hi,omitempty"`
	Act     int      `json:"act,omitempty"`
	ArgNum  int      `json:"argnum,omitempty"` // WrongArgType position (parsed from the message)
	Vals    []string `json:"vals,omitempty"`   // repr of value outputs (bounded)
	Bytes   string   `json:"bytes,omitempty"`  // byte output (bounded)
	Stack   string   `json:"stack,omitempty"`
	Rec     []string `json:"rec,omitempty"` // what verif:g / verif:ports recorded
}

const memLimit = 3 << 30 // address-space limit of the child (bytes)

func init() {
	if os.Getenv("VERIF_C17_CHILD") == "1" {
		childMain()
		os.Exit(0)
	}
}

// moduleNames are the modules imported into the base namespace.
var moduleNames = []string{"math", "str", "re", "path", "os", "file", "flag", "doc", "md",
	"platform", "runtime", "unix", "epm", "readline-binding"}

// editPure are the editor helpers that do not need an active editing session.
var editPure = map[string]bool{
	"match-prefix": true, "match-subseq": true, "match-substr": true,
	"complex-candidate": true, "complete-getopt": true, "complete-filename": true,
	"complete-dirname": true, "complete-sudo": true, "key": true, "binding-table": true,
	"wordify": true, "command-history": true, "add-var": true, "add-vars": true, "del-var": true, "del-vars": true,
}

type world struct {
	ev      *eval.Evaler
	base    *eval.Ns
	scratch string
	rec     []string
	devnull *os.File
	orig    []*os.File
}

// newWorld builds the Evaler used both for enumeration (parent) and for
// evaluation (child).
func newWorld(scratch string) *world {
	w := &world{scratch: scratch}
	ev := eval.NewEvaler()
	mods.AddTo(ev)
	w.ev = ev
	w.devnull, _ = os.Open(os.DevNull)
	// editor namespace on a dummy terminal; never activated
	func() {
		defer func() { recover() }()
		wr, _ := os.OpenFile(os.DevNull, os.O_WRONLY, 0)
		ed := edit.NewEditor(cli.NewTTY(w.devnull, wr), ev, nil)
		ev.ExtendBuiltin(eval.BuildNs().AddNs("edit", ed))
	}()
	ev.ExtendBuiltin(eval.BuildNs().AddNs("verif", w.verifNs()))
	var use strings.Builder
	for _, m := range moduleNames {
		fmt.Fprintf(&use, "use %s\n", m)
	}
	if err := ev.Eval(parse.Source{Name: "[c17-base]", Code: use.String()}, eval.EvalCfg{}); err != nil {
		// a module that no longer loads: still usable, the enumeration shrinks
		for _, m := range moduleNames {
			ev.Eval(parse.Source{Name: "[c17-base]", Code: "use " + m}, eval.EvalCfg{})
		}
	}
	w.base = ev.Global()
	return w
}

// commands enumerates every callable reachable from the builtin namespace and
// the imported modules, by reflection over the namespaces.
func (w *world) commands() []string {
	var out []string
	add := func(prefix string, ns *eval.Ns, filter map[string]bool) {
		ns.IterateKeysString(func(k string) {
			if !strings.HasSuffix(k, eval.FnSuffix) {
				return
			}
			v, _ := ns.Index(k)
			if _, ok := v.(eval.Callable); !ok {
				return
			}
			name := strings.TrimSuffix(k, eval.FnSuffix)
			if filter != nil && !filter[name] {
				return
			}
			out = append(out, prefix+name)
		})
	}
	add("", w.ev.Builtin(), nil)
	sub := func(holder *eval.Ns, name string, filter map[string]bool) {
		v, ok := holder.Index(name + eval.NsSuffix)
		if !ok {
			return
		}
		if ns, ok := v.(*eval.Ns); ok {
			add(name+":", ns, filter)
		}
	}
	for _, m := range moduleNames {
		sub(w.base, m, nil)
	}
	sub(w.ev.Builtin(), "edit", editPure)
	sort.Strings(out)
	// drop the harness's own helpers
	var res []string
	for _, c := range out {
		if !strings.HasPrefix(c, "verif:") {
			res = append(res, c)
		}
	}
	return res
}

// ---- verif: namespace ---------------------------------------------------

// sigDesc describes a Go function signature to synthesise with reflect.
type sigDesc struct {
	Params   []string `json:"params"` // frame rawopts opts inputs string int float num any list map bool fn
	Variadic bool     `json:"variadic"`
	Rets     []string `json:"rets"` // string int strs named err-nil err
}

type testOpts struct {
	Foo string
	Bar int
}

func (o *testOpts) SetDefaultOptions() { o.Foo = "dflt" }

type namedStrs []string

var paramTypes = map[string]reflect.Type{
	"frame":   reflect.TypeOf((*eval.Frame)(nil)),
	"rawopts": reflect.TypeOf(eval.RawOptions(nil)),
	"opts":    reflect.TypeOf(testOpts{}),
	"inputs":  reflect.TypeOf(eval.Inputs(nil)),
	"string":  reflect.TypeOf(""),
	"int":     reflect.TypeOf(0),
	"float":   reflect.TypeOf(0.0),
	"num":     reflect.TypeOf((*vals.Num)(nil)).Elem(),
	"any":     reflect.TypeOf((*any)(nil)).Elem(),
	"list":    reflect.TypeOf((*vals.List)(nil)).Elem(),
	"map":     reflect.TypeOf((*vals.Map)(nil)).Elem(),
	"bool":    reflect.TypeOf(false),
	"fn":      reflect.TypeOf((*eval.Callable)(nil)).Elem(),
}

var errType = reflect.TypeOf((*error)(nil)).Elem()

func (w *world) makeFn(s *sigDesc) (impl any, err error) {
	defer func() {
		if r := recover(); r != nil {
			err = fmt.Errorf("cannot build: %v", r)
		}
	}()
	var in, out []reflect.Type
	for i, p := range s.Params {
		t, ok := paramTypes[p]
		if !ok {
			return nil, fmt.Errorf("bad param %q", p)
		}
		if s.Variadic && i == len(s.Params)-1 {
			t = reflect.SliceOf(t)
		}
		in = append(in, t)
	}
	for _, r := range s.Rets {
		switch r {
		case "string":
			out = append(out, reflect.TypeOf(""))
		case "int":
			out = append(out, reflect.TypeOf(0))
		case "strs":
			out = append(out, reflect.TypeOf([]string(nil)))
		case "named":
			out = append(out, reflect.TypeOf(namedStrs(nil)))
		case "err", "err-nil":
			out = append(out, errType)
		}
	}
	ft := reflect.FuncOf(in, out, s.Variadic)
	f := reflect.MakeFunc(ft, func(args []reflect.Value) []reflect.Value {
		// record what the implementation received: one token per Go parameter
		var got []string
		for i, a := range args {
			if s.Variadic && i == len(args)-1 {
				got = append(got, fmt.Sprintf("var%d", a.Len()))
			} else if s.Params[i] == "inputs" {
				n := 0
				a.Interface().(eval.Inputs)(func(any) { n++ })
				got = append(got, fmt.Sprintf("inputs%d", n))
			} else {
				got = append(got, s.Params[i])
			}
		}
		w.rec = append(w.rec, "called:"+strings.Join(got, ","))
		var rets []reflect.Value
		for _, r := range s.Rets {
			switch r {
			case "string":
				rets = append(rets, reflect.ValueOf("s"))
			case "int":
				rets = append(rets, reflect.ValueOf(7))
			case "strs":
				rets = append(rets, reflect.ValueOf([]string{"x", "y"}))
			case "named":
				rets = append(rets, reflect.ValueOf(namedStrs{"x", "y"}))
			case "err-nil":
				rets = append(rets, reflect.Zero(errType))
			case "err":
				rets = append(rets, reflect.ValueOf(fmt.Errorf("test error")).Convert(errType))
			}
		}
		return rets
	})
	return f.Interface(), nil
}

// verifNs: helpers callable from programs.
func (w *world) verifNs() *eval.Ns {
	// file values that never block: reads hit end of file at once
	pr, _ := os.Open(os.DevNull)
	pw, _ := os.OpenFile(os.DevNull, os.O_WRONLY, 0)
	return eval.BuildNsNamed("verif").AddVar("pipe", vars.NewReadOnly(vals.Pipe{R: pr, W: pw})).AddGoFns(map[string]any{
		// sink reads a bounded amount of input and returns, so that upstream
		// writers see "reader gone" instead of producing unbounded output.
		"sink": func(fm *eval.Frame) {
			ch := fm.InputChan()
			done := make(chan struct{})
			go func() {
				buf := make([]byte, 4096)
				total := 0
				for total < 1<<16 {
					n, err := fm.InputFile().Read(buf)
					total += n
					if err != nil {
						break
					}
				}
				close(done)
			}()
			for i := 0; i < 64; i++ {
				if _, ok := <-ch; !ok {
					break
				}
			}
			select {
			case <-done:
			case <-time.After(20 * time.Millisecond):
			}
		},
		// ports reports the state of the first 12 entries of the port table.
		"ports": func(fm *eval.Frame) {
			var sb []string
			for i := 0; i < 12; i++ {
				p := fm.Port(i)
				switch {
				case p == nil:
					sb = append(sb, "None")
				case p.File == nil && p.Chan == nil:
					sb = append(sb, "(Some PClosed)")
				case p.File == nil:
					sb = append(sb, "(Some PValue)")
				default:
					tok := "(Some PValue)"
					name := filepath.Base(p.File.Name())
					for k, f := range w.orig {
						if f == p.File {
							tok = fmt.Sprintf("(Some (POrig %d))", k)
						}
					}
					var n int
					if _, err := fmt.Sscanf(name, "rf%d", &n); err == nil {
						tok = fmt.Sprintf("(Some (PFile %d))", n)
					} else if _, err := fmt.Sscanf(name, "f%d", &n); err == nil {
						tok = fmt.Sprintf("(Some (PFile %d))", n)
					} else if strings.HasPrefix(tok, "(Some PValue") && p.File != pr && p.File != pw {
						if name == "|0" {
							tok = "(Some PPipeIn)"
						} else if name == "|1" {
							tok = "(Some PPipeOut)"
						}
					}
					sb = append(sb, tok)
				}
			}
			w.rec = append(w.rec, "ports:"+strings.Join(sb, ";"))
		},
	}).Ns()
}

// ---- running one program -------------------------------------------------

var bgRe = regexp.MustCompile(`&\s*($|[;|\n)}])`)
var argNumRe = regexp.MustCompile(`wrong type for arg #(\d+)`)

func (w *world) runOne(req *request) (resp response) {
	resp.I = req.I
	w.rec = nil
	os.Chdir(w.scratch)
	setEnv(w.scratch)
	global := w.base
	if req.Sig != nil {
		impl, err := w.makeFn(req.Sig)
		if err != nil {
			resp.Outcome = "skip"
			resp.Msg = err.Error()
			return
		}
		var fn eval.Callable
		func() {
			defer func() {
				if r := recover(); r != nil {
					resp.Outcome = "skip"
					resp.Msg = fmt.Sprint("NewGoFn: ", r)
				}
			}()
			fn = eval.NewGoFn("g", impl)
		}()
		if fn == nil {
			return
		}
		global = eval.CombineNs(w.base, eval.BuildNs().AddFn("g", fn).Ns())
	}
	in, _ := os.Open(os.DevNull)
	defer in.Close()
	outPort, collect, err := eval.CapturePort()
	if err != nil {
		resp.Outcome = "skip"
		resp.Msg = err.Error()
		return
	}
	errPort, collectErr, _ := eval.CapturePort()
	ports := []*eval.Port{{File: in, Chan: eval.ClosedChan}, outPort, errPort}
	w.orig = []*os.File{in, outPort.File, errPort.File}
	err = w.ev.Eval(parse.Source{Name: "[c17]", Code: req.Code}, eval.EvalCfg{Ports: ports, Global: global})
	if bgRe.MatchString(req.Code) {
		// let a background job that outlives the evaluation fail while this
		// program is still the announced one
		time.Sleep(30 * time.Millisecond)
	}
	vs, bs := collect()
	if bgRe.MatchString(req.Code) {
		time.Sleep(30 * time.Millisecond)
	}
	if collectErr != nil {
		collectErr()
	}
	for i, v := range vs {
		if i >= 40 {
			break
		}
		r := vals.ReprPlain(v)
		if len(r) > 200 {
			r = r[:200]
		}
		resp.Vals = append(resp.Vals, r)
	}
	if len(bs) > 400 {
		bs = bs[:400]
	}
	resp.Bytes = string(bs)
	resp.Rec = w.rec
	switch {
	case err == nil:
		resp.Outcome = "ok"
	case parse.UnpackErrors(err) != nil:
		resp.Outcome = "parse-error"
	case eval.UnpackCompilationErrors(err) != nil:
		resp.Outcome = "compile-error"
	default:
		resp.Outcome = "exception"
		reason := err
		if exc, ok := err.(eval.Exception); ok {
			reason = exc.Reason()
		}
		resp.Kind = fmt.Sprintf("%T", reason)
		resp.Msg = trunc(reason.Error(), 200)
		if am, ok := reason.(errs.ArityMismatch); ok {
			resp.Lo, resp.Hi, resp.Act = am.ValidLow, am.ValidHigh, am.Actual
		}
		if m := argNumRe.FindStringSubmatch(reason.Error()); m != nil {
			fmt.Sscan(m[1], &resp.ArgNum)
		}
	}
	return
}

func trunc(s string, n int) string {
	if len(s) > n {
		return s[:n]
	}
	return s
}

func setEnv(scratch string) {
	os.Setenv("HOME", filepath.Join(scratch, "home"))
	os.Setenv("PATH", filepath.Join(scratch, "nobin"))
	os.Setenv("TMPDIR", filepath.Join(scratch, "tmp"))
	os.Setenv("XDG_CONFIG_HOME", filepath.Join(scratch, "xdg"))
	os.Setenv("XDG_DATA_HOME", filepath.Join(scratch, "xdg"))
	os.Setenv("XDG_STATE_HOME", filepath.Join(scratch, "xdg"))
	os.Setenv("XDG_RUNTIME_DIR", filepath.Join(scratch, "xdg"))
}

func childMain() {
	scratch := os.Getenv("VERIF_C17_SCRATCH")
	for _, d := range []string{"home", "nobin", "tmp", "xdg"} {
		os.MkdirAll(filepath.Join(scratch, d), 0o755)
	}
	setEnv(scratch)
	os.Chdir(scratch)
	lim := syscall.Rlimit{Cur: memLimit, Max: memLimit}
	syscall.Setrlimit(syscall.RLIMIT_AS, &lim)
	debug.SetMaxStack(256 << 20)
	debug.SetTraceback("all")
	w := newWorld(scratch)
	out := bufio.NewWriter(os.Stdout)
	enc := json.NewEncoder(out)
	sc := bufio.NewScanner(os.Stdin)
	sc.Buffer(make([]byte, 1<<20), 1<<26)
	for sc.Scan() {
		var req request
		if json.Unmarshal(sc.Bytes(), &req) != nil {
			continue
		}
		enc.Encode(response{Start: true, I: req.I})
		out.Flush()
		done := make(chan response, 1)
		go func() {
			var resp response
			defer func() {
				if r := recover(); r != nil {
					resp = response{I: req.I, Outcome: "panic", Msg: trunc(fmt.Sprint(r), 300),
						Stack: trunc(string(debug.Stack()), 3000)}
				}
				done <- resp
			}()
			resp = w.runOne(&req)
		}()
		to := time.Duration(req.TimeoutMs) * time.Millisecond
		if to == 0 {
			to = 3 * time.Second
		}
		select {
		case resp := <-done:
			enc.Encode(resp)
			out.Flush()
		case <-time.After(to):
			buf := make([]byte, 1<<20)
			buf = buf[:runtime.Stack(buf, true)]
			blocked := allBlocked(string(buf))
			resp := response{I: req.I, Outcome: "busy", Stack: trunc(elvStacks(string(buf)), 4000)}
			if blocked {
				resp.Outcome = "hang"
			}
			enc.Encode(resp)
			out.Flush()
			os.Exit(3) // the evaluating goroutine cannot be stopped: start over
		}
	}
}

var goroutineHdr = regexp.MustCompile(`(?m)^goroutine \d+ \[([^\],]+)`)

// allBlocked decides, from a dump of all goroutine stacks, whether every
// goroutine that is executing interpreter code is blocked (channel, select,
// mutex, wait group, I/O wait) as opposed to running.
func allBlocked(dump string) bool {
	for _, g := range strings.Split(dump, "\n\n") {
		if !strings.Contains(g, "src.elv.sh/") || strings.Contains(g, "c17.childMain") && !strings.Contains(g, "runOne") {
			continue
		}
		m := goroutineHdr.FindStringSubmatch(g)
		if m == nil {
			continue
		}
		switch m[1] {
		case "running", "runnable", "syscall", "sleep", "GC assist wait", "GC assist marking", "GC sweep wait", "GC worker (idle)":
			return false
		}
	}
	return true
}

func elvStacks(dump string) string {
	var keep []string
	for _, g := range strings.Split(dump, "\n\n") {
		if strings.Contains(g, "src.elv.sh/") {
			keep = append(keep, trunc(g, 1200))
		}
	}
	return strings.Join(keep, "\n\n")
}
