package c17

// Parent side of the child protocol: keeps one child process alive, feeds it
// programs, and turns a dead or wedged child into an attributable outcome.

import (
	"bufio"
	"bytes"
	"encoding/json"
	"os"
	"os/exec"
	"strings"
	"sync"
	"time"
)

type driver struct {
	scratch string
	cmd     *exec.Cmd
	in      *bufio.Writer
	inPipe  interface{ Close() error }
	lines   chan []byte
	stderr  *lockedBuf
	spawns  int
}

type lockedBuf struct {
	mu sync.Mutex
	b  bytes.Buffer
}

func (l *lockedBuf) Write(p []byte) (int, error) {
	l.mu.Lock()
	defer l.mu.Unlock()
	if l.b.Len() > 1<<20 {
		return len(p), nil
	}
	return l.b.Write(p)
}
func (l *lockedBuf) String() string { l.mu.Lock(); defer l.mu.Unlock(); return l.b.String() }

func (d *driver) start() error {
	exe, err := os.Executable()
	if err != nil {
		return err
	}
	cmd := exec.Command(exe)
	cmd.Env = append(os.Environ(), "VERIF_C17_CHILD=1", "VERIF_C17_SCRATCH="+d.scratch, "GOTRACEBACK=all")
	stdin, err := cmd.StdinPipe()
	if err != nil {
		return err
	}
	stdout, err := cmd.StdoutPipe()
	if err != nil {
		return err
	}
	d.stderr = &lockedBuf{}
	cmd.Stderr = d.stderr
	if err := cmd.Start(); err != nil {
		return err
	}
	d.cmd, d.in, d.inPipe = cmd, bufio.NewWriter(stdin), stdin
	d.lines = make(chan []byte, 16)
	d.spawns++
	go func(ch chan []byte) {
		r := bufio.NewReaderSize(stdout, 1<<20)
		for {
			line, err := r.ReadBytes('\n')
			if len(line) > 0 {
				ch <- line
			}
			if err != nil {
				close(ch)
				return
			}
		}
	}(d.lines)
	return nil
}

func (d *driver) stop() {
	if d.cmd == nil {
		return
	}
	d.inPipe.Close()
	done := make(chan struct{})
	go func() { d.cmd.Wait(); close(done) }()
	select {
	case <-done:
	case <-time.After(2 * time.Second):
		d.cmd.Process.Kill()
		<-done
	}
	d.cmd = nil
}

func (d *driver) kill() {
	if d.cmd != nil {
		d.cmd.Process.Kill()
		d.cmd.Wait()
		d.cmd = nil
	}
}

// exec1 runs one program and always returns an outcome:
// the child's answer, or "fatal" (child died: Go fatal error or panic on
// another goroutine), or "unresponsive" (no answer and no exit).
func (d *driver) exec1(req *request) response {
	if d.cmd == nil {
		if err := d.start(); err != nil {
			return response{I: req.I, Outcome: "skip", Msg: "cannot start child: " + err.Error()}
		}
	}
	if req.TimeoutMs == 0 {
		req.TimeoutMs = 3000
	}
	b, _ := json.Marshal(req)
	d.in.Write(b)
	d.in.WriteByte('\n')
	if err := d.in.Flush(); err != nil {
		d.kill()
		return response{I: req.I, Outcome: "skip", Msg: "child not accepting input"}
	}
	deadline := time.After(time.Duration(req.TimeoutMs)*time.Millisecond + 8*time.Second)
	for {
		select {
		case line, ok := <-d.lines:
			if !ok {
				// child is gone without an answer
				d.cmd.Wait()
				st := d.cmd.ProcessState.String()
				d.cmd = nil
				return response{I: req.I, Outcome: "fatal", Msg: st + ": " + firstFatalLine(d.stderr.String()),
					Stack: trunc(relevantStderr(d.stderr.String()), 4000)}
			}
			var r response
			if json.Unmarshal(line, &r) != nil || r.Start || r.I != req.I {
				continue
			}
			if r.Outcome == "hang" || r.Outcome == "busy" {
				// the child exits by itself after reporting
				for range d.lines {
				}
				d.cmd.Wait()
				d.cmd = nil
			}
			return r
		case <-deadline:
			d.kill()
			return response{I: req.I, Outcome: "unresponsive", Msg: "no answer within the outer deadline; child killed"}
		}
	}
}

func firstFatalLine(s string) string {
	for _, l := range strings.Split(s, "\n") {
		if strings.HasPrefix(l, "fatal error:") || strings.HasPrefix(l, "panic:") || strings.HasPrefix(l, "runtime:") {
			return trunc(l, 300)
		}
	}
	return trunc(strings.TrimSpace(s), 300)
}

func relevantStderr(s string) string {
	i := strings.Index(s, "fatal error:")
	if j := strings.Index(s, "panic:"); j >= 0 && (i < 0 || j < i) {
		i = j
	}
	if i < 0 {
		return s
	}
	return s[i:]
}
