package c17

// Mechanism cases: the observation is judged against coq/model/C17.v.

import (
	"fmt"
	"math/big"
	"os"
	"path/filepath"
	"strconv"
	"strings"

	. "verifharness/coqfmt"
	"verifharness/reg"
)

// ---- observation -> Coq ------------------------------------------------------

func obsCrash(r response) bool { return crashText(r) != "" }

// errTerm maps an exception to the model's err_kind; ok=false: not an outcome
// the model speaks about (the case is then emitted as a search case only).
func errTerm(r response) (string, bool) {
	k := r.Kind
	switch {
	case strings.HasSuffix(k, "errs.ArityMismatch"):
		// the message carries the actual count
		return App("EArity", Z(int64(r.Lo)), Z(int64(r.Hi)), Z(int64(r.Act))), true
	case r.Msg == "function does not accept any options":
		return "ENoOptAccepted", true
	case strings.HasSuffix(k, "eval.UnknownOption"):
		return "EBadOption", true
	case strings.HasSuffix(k, "eval.WrongArgType"):
		return App("EWrongArgType", Z(int64(r.ArgNum))), true
	case strings.HasSuffix(r.Msg, "cannot be iterated"):
		return "ENotIterable", true
	case r.Msg == "test error":
		return "EFnError", true
	case strings.HasSuffix(k, "eval.UnsupportedOptionsError"):
		return "EUnsupportedOption", true
	case strings.HasSuffix(k, "errs.BadValue"):
		return "EBadValue", true
	case strings.HasSuffix(k, "eval.InvalidFD"):
		return "EInvalidFD", true
	case strings.HasPrefix(r.Msg, "failed to open file"):
		return "EOpenFail", true
	case r.Msg == "can only use < or > with maps":
		return "EBadRedirMode", true
	// option scanning errors inside scanOptions (wrong type for an option value)
	case strings.HasPrefix(r.Msg, "wrong type: need") || strings.HasPrefix(r.Msg, "cannot parse as") || r.Msg == "must be integer" || r.Msg == "must be number":
		return "EBadOption", true
	}
	return "", false
}

func (x *runner) mech(via, class, coqf string, req *request, okTerm func(response) (string, bool), nontrivial bool) {
	x.add(req, func(r response) { x.mechDone(via, class, coqf, req, okTerm, nontrivial, r) })
}

func (x *runner) mechDone(via, class, coqf string, req *request, okTerm func(response) (string, bool), nontrivial bool, r response) {
	x.c.Count(via + "/" + r.Outcome)
	d := desc{Prog: req.Code, Via: via, Outcome: r.Outcome, Kind: r.Kind, Msg: r.Msg, Obs: append(append([]string{}, r.Vals...), r.Rec...), Sig: req.Sig}
	var obs string
	switch {
	case obsCrash(r):
		obs = "OCrash"
		d.Stack = r.Stack
	case r.Outcome == "ok":
		t, ok := okTerm(r)
		if !ok {
			obs = ""
		} else {
			obs = App("OOk", t)
		}
	case r.Outcome == "exception":
		if t, ok := errTerm(r); ok {
			obs = App("OErr", t)
		}
	}
	c := reg.Case{Desc: d, Key: via + "|" + req.Code + fmt.Sprint(req.Sig), Class: class, Nontrivial: nontrivial}
	if obs == "" {
		// outside the model's vocabulary (busy, skip, unexpected exception kind):
		// a correspondence failure unless the harness could not run it at all
		if r.Outcome == "skip" {
			c.Nontrivial = false
			x.c.Emit(c)
			return
		}
		obs = "(OErr EFnError)"
		if via != "gofn" {
			obs = "(OErr ENoOptAccepted)" // never a model outcome for these: forces code 1
		}
	}
	c.Coq = strings.Replace(coqf, "%OBS%", obs, 1)
	if obs == "OCrash" {
		c.Direct = "" // judged by the oracle (code 2) together with the model's prediction
	}
	x.c.Emit(c)
}

// ---- A. goFn -----------------------------------------------------------------

var gtypes = []struct{ name, coq string }{
	{"frame", "GFrame"}, {"rawopts", "GRawOpts"}, {"opts", "GOptsStruct"}, {"inputs", "GInputs"},
	{"string", "GString"}, {"int", "GInt"}, {"float", "GFloat"}, {"num", "GNum"}, {"any", "GAny"},
	{"list", "GList"}, {"map", "GMap"}, {"bool", "GBool"}, {"fn", "GFn"},
}

var vkinds = []struct{ src, coq string }{
	{"12", "VStrInt"}, {"-0x1f", "VStrInt"}, {"1.5", "VStrNum"}, {"1/2", "VStrNum"}, {"100000000000000000000", "VStrNum"},
	{"abc", "VStrOther"}, {"''", "VStrOther"}, {`"\xff"`, "VStrOther"},
	{"(num 3)", "VInt"}, {"(num 100000000000000000000)", "VBig"}, {"(num 1/3)", "VBig"}, {"(num 1.5)", "VFloat"}, {"(num nan)", "VFloat"},
	{"$true", "VBool"}, {"[a b]", "VList"}, {"[]", "VList"}, {"[&a=b]", "VMap"}, {"{ }", "VFn"}, {"$nop~", "VFn"}, {"$nil", "VNil"}, {"$ok", "VOther"},
	{"(styled a red)", "VOther"},
}

var rtypes = []struct{ name, coq string }{
	{"string", "RString"}, {"int", "RInt"}, {"strs", "(RStrs 2)"}, {"named", "RNamed"}, {"err-nil", "RErrNil"}, {"err", "RErr"},
}

func (x *runner) genGoFn(timeout int) {
	r := x.c.Rand
	// signature: mostly well-formed (frame, options, normal..., inputs/variadic), sometimes anything anywhere
	var ps []int
	if r.Intn(4) == 0 {
		n := r.Intn(5)
		for i := 0; i < n; i++ {
			ps = append(ps, r.Intn(len(gtypes)))
		}
	} else {
		if r.Intn(2) == 0 {
			ps = append(ps, 0)
		}
		switch r.Intn(4) {
		case 0:
			ps = append(ps, 1)
		case 1:
			ps = append(ps, 2)
		}
		n := r.Intn(4)
		for i := 0; i < n; i++ {
			ps = append(ps, 4+r.Intn(len(gtypes)-4))
		}
		if r.Intn(3) == 0 {
			ps = append(ps, 3)
		}
	}
	variadic := len(ps) > 0 && r.Intn(3) == 0
	// NewGoFn panics at registration for RawOptions followed by an options struct: not a call
	{
		i := 0
		if i < len(ps) && ps[i] == 0 && !(variadic && i == len(ps)-1) {
			i++
		}
		if i < len(ps) && ps[i] == 1 && !(variadic && i == len(ps)-1) {
			i++
			if i < len(ps) && ps[i] == 2 && !(variadic && i == len(ps)-1) {
				ps[i] = 4
			}
		}
	}
	var rets []int
	for i, n := 0, r.Intn(4); i < n; i++ {
		rets = append(rets, r.Intn(len(rtypes)))
	}
	sig := &sigDesc{Variadic: variadic}
	var psCoq, retsCoq []string
	nNormal := 0
	for _, p := range ps {
		sig.Params = append(sig.Params, gtypes[p].name)
		psCoq = append(psCoq, gtypes[p].coq)
		if p >= 4 {
			nNormal++
		}
	}
	for _, t := range rets {
		sig.Rets = append(sig.Rets, rtypes[t].name)
		retsCoq = append(retsCoq, rtypes[t].coq)
	}
	// arguments: around the accepted count; kinds biased towards ones the parameter accepts
	na := nNormal + r.Intn(4) - 1
	if na < 0 || r.Intn(8) == 0 {
		na = r.Intn(7)
	}
	var sb strings.Builder
	sb.WriteString("g")
	var argsCoq []string
	for i := 0; i < na; i++ {
		v := vkinds[r.Intn(len(vkinds))]
		sb.WriteString(" " + v.src)
		argsCoq = append(argsCoq, v.coq)
	}
	// options: foo (key 0, string), bar (key 1, int), zzz (key 7, unknown)
	var optsCoq []string
	optNames := []string{"foo", "bar", "zzz"}
	optKeys := []uint64{0, 1, 7}
	if r.Intn(3) == 0 {
		for k := range optNames {
			if r.Intn(3) == 0 {
				v := vkinds[r.Intn(len(vkinds))]
				sb.WriteString(" &" + optNames[k] + "=" + v.src)
				optsCoq = append(optsCoq, Pair(N(optKeys[k]), v.coq))
			}
		}
	}
	class := "gofn"
	term := App("CGoFn", List(psCoq), Bool(variadic), List(retsCoq), List(argsCoq), List(optsCoq), "%OBS%")
	x.mech("gofn", class, term, &request{Code: sb.String(), Sig: sig, TimeoutMs: timeout}, func(resp response) (string, bool) {
		// called: variadic count and number of outputs
		nvar := int64(-1)
		called := false
		for _, rec := range resp.Rec {
			if strings.HasPrefix(rec, "called:") {
				called = true
				toks := strings.Split(strings.TrimPrefix(rec, "called:"), ",")
				if last := toks[len(toks)-1]; strings.HasPrefix(last, "var") {
					n, _ := strconv.Atoi(last[3:])
					nvar = int64(n)
				}
			}
		}
		if !called {
			return "", false
		}
		return Pair(Z(nvar), Z(int64(len(resp.Vals)))), true
	}, na > 0)
}

// ---- B. closures --------------------------------------------------------------

func (x *runner) genClosure(timeout int) {
	r := x.c.Rand
	nn := r.Intn(5)
	rest := -1
	if nn > 0 && r.Intn(2) == 0 {
		rest = r.Intn(nn)
	}
	nopt := r.Intn(3)
	var params, body []string
	for i := 0; i < nn; i++ {
		if i == rest {
			params = append(params, fmt.Sprintf("@p%d", i))
			body = append(body, fmt.Sprintf("$p%d", i))
		} else {
			params = append(params, fmt.Sprintf("p%d", i))
			body = append(body, fmt.Sprintf("[$p%d]", i))
		}
	}
	var optnames []string
	for i := 0; i < nopt; i++ {
		params = append(params, fmt.Sprintf("&o%d=%d", i, 200+i))
		body = append(body, fmt.Sprintf("[$o%d]", i))
		optnames = append(optnames, N(uint64(i)))
	}
	na := nn + r.Intn(6) - 3
	if na < 0 || r.Intn(8) == 0 {
		na = r.Intn(8)
	}
	var args, argsCoq []string
	for i := 0; i < na; i++ {
		args = append(args, strconv.Itoa(i))
		argsCoq = append(argsCoq, N(uint64(i)))
	}
	var givenCoq []string
	if r.Intn(3) == 0 {
		for k := 0; k < 3; k++ {
			if r.Intn(2) == 0 {
				args = append(args, fmt.Sprintf("&o%d=%d", k, 100+k))
				givenCoq = append(givenCoq, N(uint64(k)))
			}
		}
	}
	prog := "{|" + strings.Join(params, " ") + "| put " + strings.Join(body, " ") + " } " + strings.Join(args, " ")
	if len(body) == 0 {
		prog = "{|" + strings.Join(params, " ") + "| nop } " + strings.Join(args, " ")
	}
	term := App("CClosure", Z(int64(nn)), Z(int64(rest)), List(optnames), List(argsCoq), List(givenCoq), "%OBS%")
	x.mech("closure", "closure", term, &request{Code: prog, TimeoutMs: timeout}, func(resp response) (string, bool) {
		var out []string
		for _, v := range resp.Vals {
			v = strings.TrimSuffix(strings.TrimPrefix(v, "["), "]")
			var el []string
			for _, f := range strings.Fields(v) {
				n, err := strconv.ParseUint(f, 10, 64)
				if err != nil {
					return "", false
				}
				el = append(el, N(n))
			}
			out = append(out, List(el))
		}
		return List(out), true
	}, na > 0)
}

// ---- C. forms with redirections --------------------------------------------------

type fdChoice struct {
	src, coq  string
	neg, huge bool
}

func numFd(s string) fdChoice {
	v, _ := new(big.Int).SetString(s, 0)
	return fdChoice{s, App("FdNum", BigZ(v)), v.Sign() < 0, v.Cmp(big.NewInt(4096)) > 0}
}

var mDst = []fdChoice{{"", "", false, false}, {"", "", false, false}, numFd("0"), numFd("1"), numFd("2"), numFd("3"), numFd("5"), numFd("11"),
	numFd("0x3"), numFd("-1"), numFd("-2"), numFd("-9223372036854775808"), numFd("1000000000000"), numFd("9223372036854775807"),
	{"stdin", "(FdName 0)", false, false}, {"stdout", "(FdName 1)", false, false}, {"stderr", "(FdName 2)", false, false},
	{"x", "FdBad", false, false}, {"1.5", "FdBad", false, false}, {"9223372036854775808", "FdBad", false, false}, {"-", "FdDash", false, false}}
var mSrc = []fdChoice{numFd("0"), numFd("1"), numFd("2"), numFd("3"), numFd("5"), numFd("9"), numFd("-1"), numFd("-2"), numFd("-3"),
	numFd("-9223372036854775808"), numFd("1000000"), numFd("9223372036854775807"),
	{"-", "FdDash", false, false}, {"stdin", "(FdName 0)", false, false}, {"stdout", "(FdName 1)", false, false},
	{"x", "FdBad", false, false}, {"''", "FdBad", false, false}}
var mModes = []struct{ op, coq string }{{"<", "MRead"}, {">", "MWrite"}, {">>", "MAppend"}, {"<>", "MReadWrite"}}

func (x *runner) genForm(timeout int) {
	for !x.genForm1(timeout) {
	}
}

// genForm1 queues one form; false = it combined several defect-prone features
// and was discarded.
func (x *runner) genForm1(timeout int) bool {
	r := x.c.Rand
	ip, op := r.Intn(3) == 0, r.Intn(4) == 0
	n := 1 + r.Intn(3)
	var parts, redirs []string
	class := "form"
	neg, huge, stdin := false, false, false
	fileNo := 0
	for i := 0; i < n; i++ {
		d := mDst[r.Intn(len(mDst))]
		for (d.neg || d.huge) && r.Intn(3) != 0 {
			d = mDst[r.Intn(len(mDst))]
		}
		m := mModes[r.Intn(len(mModes))]
		dstCoq := None()
		if d.coq != "" {
			dstCoq = Some(d.coq)
		}
		neg = neg || d.neg
		huge = huge || d.huge
		if d.src == "0" || d.src == "stdin" || (d.src == "" && m.op == "<") {
			stdin = true
		}
		var right, srcCoq string
		switch r.Intn(7) {
		case 0, 1, 2:
			s := mSrc[r.Intn(len(mSrc))]
			for s.neg && s.src != "-1" && r.Intn(3) != 0 {
				s = mSrc[r.Intn(len(mSrc))]
			}
			right = "&" + s.src
			srcCoq = App("SrcFd", s.coq)
			if s.neg && s.src != "-1" {
				neg = true
			}
		case 3, 4:
			fileNo++
			name := fmt.Sprintf("f%d", fileNo)
			right = name
			if m.op == "<" {
				// reading: the file must exist; the harness creates rf* beforehand
				right = "rf" + strconv.Itoa(fileNo)
			}
			srcCoq = App("SrcFileOk", N(uint64(fileNo)))
		case 5:
			right = "nodir/x"
			srcCoq = "SrcFileFail"
		default:
			switch r.Intn(4) {
			case 0:
				right = "$verif:pipe[w]"
				srcCoq = "SrcFileVal"
			case 1:
				if m.op == "<" {
					right, srcCoq = "$verif:pipe", "SrcFileVal"
				} else if m.op == ">" {
					right, srcCoq = "$verif:pipe", "SrcFileVal"
				} else {
					right, srcCoq = "$verif:pipe", "SrcMapBadMode"
				}
			case 2:
				right, srcCoq = "[a]", "SrcBad"
			default:
				right, srcCoq = "(num 1)", "SrcBad"
			}
		}
		parts = append(parts, d.src+m.op+right)
		redirs = append(redirs, App("mkRedir", dstCoq, m.coq, srcCoq))
	}
	nf := 0
	for _, f := range []struct {
		on   bool
		name string
	}{{neg, "redir-negative-fd"}, {huge, "redir-huge-fd"}, {ip && stdin, "pipe-stdin-redirected"}} {
		if f.on {
			nf++
			class = f.name
		}
	}
	if nf > 1 {
		return false
	}
	prog := "verif:ports " + strings.Join(parts, " ")
	if ip {
		prog = "nop | " + prog
	}
	if op {
		prog += " | nop"
	}
	term := App("CForm", Bool(ip), Bool(op), List(redirs), "%OBS%")
	x.mech("form", class, term, &request{Code: prog, TimeoutMs: timeout}, func(resp response) (string, bool) {
		for _, rec := range resp.Rec {
			if strings.HasPrefix(rec, "ports:") {
				return List(strings.Split(strings.TrimPrefix(rec, "ports:"), ";")), true
			}
		}
		return "", false
	}, true)
	return true
}

// ---- D. math:pow ---------------------------------------------------------------

func (x *runner) genPow(timeout int, plant int) {
	r := x.c.Rand
	bn := int64(r.Intn(13) - 6)
	bd := int64(1)
	if r.Intn(3) == 0 {
		bd = int64(1 + r.Intn(6))
	}
	e := int64(r.Intn(25) - 12)
	switch plant {
	case 1:
		bn, e = 0, -1
	case 2:
		bn, e = 0, -int64(2+r.Intn(5))
	case 3:
		bn, bd, e = 0, 3, -1
	case 4:
		bn, e = 0, 0
	}
	if r.Intn(12) == 0 {
		bn = 0
	}
	g := new(big.Int).GCD(nil, nil, big.NewInt(abs64(bn)), big.NewInt(bd)).Int64()
	if bn == 0 {
		bd = 1
	} else if g > 1 {
		bn, bd = bn/g, bd/g
	}
	base := strconv.FormatInt(bn, 10)
	if bd != 1 {
		base += "/" + strconv.FormatInt(bd, 10)
	}
	class := "pow"
	if bn == 0 && e < 0 {
		class = "math-pow-zero-negative"
	}
	if plant == 3 {
		base = "0/3"
	}
	prog := fmt.Sprintf("math:pow %s %d", base, e)
	term := App("CPow", Z(bn), Z(bd), Z(e), "%OBS%")
	x.mech("pow", class, term, &request{Code: prog, TimeoutMs: timeout}, func(resp response) (string, bool) {
		if len(resp.Vals) != 1 {
			return "", false
		}
		v := strings.TrimSuffix(strings.TrimPrefix(resp.Vals[0], "(num "), ")")
		q, ok := new(big.Rat).SetString(v)
		if !ok || strings.ContainsAny(v, ".eE") {
			return "", false
		}
		return Pair(BigZ(q.Num()), BigZ(q.Denom())), true
	}, true)
}

func abs64(a int64) int64 {
	if a < 0 {
		return -a
	}
	return a
}

// ---- E. edit:match-subseq --------------------------------------------------------

var subseqAlphabet = []string{"a", "b", "é", "\xff", "\xc3", "\xa9", "�", "\U0001F600", "\xf0\x9f"}

func (x *runner) genSubseq(timeout int, plant int) {
	r := x.c.Rand
	gen := func(n int) string {
		var sb strings.Builder
		for i := 0; i < n; i++ {
			sb.WriteString(subseqAlphabet[r.Intn(len(subseqAlphabet))])
		}
		return sb.String()
	}
	s, t := gen(r.Intn(6)), gen(r.Intn(4))
	switch plant {
	case 1:
		s, t = "\xff", "\xff"
	case 2:
		s, t = "a\xc3", "�"
	case 3:
		s, t = "ab\xff\xff\xff", "\xff"
	}
	class := "subseq"
	if strings.ToValidUTF8(s, "") != s && (strings.ToValidUTF8(t, "") != t || strings.Contains(t, "�")) {
		class = "match-subseq-invalid-utf8"
	}
	q := func(s string) string {
		var sb strings.Builder
		sb.WriteByte('"')
		for i := 0; i < len(s); i++ {
			fmt.Fprintf(&sb, `\x%02x`, s[i])
		}
		sb.WriteByte('"')
		return sb.String()
	}
	prog := "edit:match-subseq " + q(t) + " [" + q(s) + "]"
	term := App("CSubseq", Str(s), Str(t), "%OBS%")
	x.mech("subseq", class, term, &request{Code: prog, TimeoutMs: timeout}, func(resp response) (string, bool) {
		if len(resp.Vals) != 1 {
			return "", false
		}
		return Bool(resp.Vals[0] == "$true"), true
	}, len(s) > 0 && len(t) > 0)
}

// ---- F. randint ----------------------------------------------------------------

var randintBounds = []int64{-9223372036854775808, -5000000000000000000, -4611686018427387904, -2, -1, 0, 1, 2, 7,
	4611686018427387904, 5000000000000000000, 9223372036854775806, 9223372036854775807}

func (x *runner) genRandint(timeout int, plant int) {
	r := x.c.Rand
	lo := randintBounds[r.Intn(len(randintBounds))]
	hi := randintBounds[r.Intn(len(randintBounds))]
	switch plant {
	case 1:
		lo, hi = -5000000000000000000, 5000000000000000000
	case 2:
		lo, hi = -9223372036854775808, 9223372036854775807
	case 3:
		lo, hi = -1, 9223372036854775807
	}
	class := "randint"
	if new(big.Int).Sub(big.NewInt(hi), big.NewInt(lo)).Cmp(maxInt64) > 0 {
		class = "randint-range-overflow"
	}
	prog := fmt.Sprintf("randint %d %d", lo, hi)
	term := App("CRandint", Z(lo), Z(hi), "%OBS%")
	x.mech("randint", class, term, &request{Code: prog, TimeoutMs: timeout}, func(resp response) (string, bool) {
		if len(resp.Vals) != 1 {
			return "", false
		}
		v, ok := new(big.Int).SetString(strings.TrimSuffix(strings.TrimPrefix(resp.Vals[0], "(num "), ")"), 10)
		if !ok {
			return "", false
		}
		return BigZ(v), true
	}, hi > lo)
}

func (x *runner) mechanisms(n int) {
	timeout := x.timeout
	for p := 1; p <= 4; p++ {
		x.genPow(timeout, p)
	}
	for p := 1; p <= 3; p++ {
		x.genSubseq(timeout, p)
		x.genRandint(timeout, p)
	}
	for i := 0; i < n; i++ {
		switch i % 10 {
		case 0, 1, 2, 3:
			x.genGoFn(timeout)
		case 4, 5:
			x.genClosure(timeout)
		case 6, 7:
			x.genForm(timeout)
		case 8:
			if i%20 == 8 {
				x.genPow(timeout, 0)
			} else {
				x.genRandint(timeout, 0)
			}
		default:
			x.genSubseq(timeout, 0)
		}
	}
}

func writeFile(dir, name string) {
	os.WriteFile(filepath.Join(dir, name), []byte("x\n"), 0o644)
}
