// Package c17: no program can crash the interpreter.
//
// Two kinds of cases are emitted:
//   - search cases (no Coq term): every enumerated command called with values
//     from the adversarial pool, forms with redirections, special forms with
//     odd shapes.  The program runs in a child process; a Go panic, a Go fatal
//     error, a deadlock or an unresponsive process is a Direct violation with
//     the program as replay.
//   - mechanism cases (Coq term): goFn.Call argument conversion/arity through
//     synthesised Go functions, Closure.Call argument binding, the port table
//     under redirections, math:pow with exact operands.  The observation is
//     judged against the model in coq/model/C17.v (oracle: not a crash;
//     correspondence: same outcome as the model).
package c17

import (
	"fmt"
	"math/big"
	"os"
	"path/filepath"
	"strings"
	"sync"
	"time"

	"verifharness/reg"
)

func init() {
	if os.Getenv("VERIF_C17_CHILD") == "1" {
		return
	}
	reg.Register(&reg.Spec{ID: "C17",
		Imports: "From verif Require Import lib.Base model.C17.",
		Judge:   "C17.judge", Shard: 400, Run: run})
}

// skipped entirely: they terminate or replace the process by design.
var skipCmds = map[string]string{
	"exit": "terminates the process by design",
	"exec": "replaces the process by design",
	"fg":   "hands the terminal's foreground process group to other processes",
}

// restricted: numeric arguments only from the small pool, because the command
// legitimately blocks or computes for a time proportional to its argument.
var restrictedCmds = map[string]string{
	"sleep":     "sleeps as long as asked",
	"benchmark": "runs its callback for at least &min-time",
}

type desc struct {
	Prog    string   `json:"prog"`
	Via     string   `json:"via"`
	Outcome string   `json:"outcome"`
	Kind    string   `json:"kind,omitempty"`
	Msg     string   `json:"msg,omitempty"`
	Obs     []string `json:"obs,omitempty"`
	Stack   string   `json:"stack,omitempty"`
	Sig     *sigDesc `json:"sig,omitempty"`
}

// job: one program plus what to do with its outcome.  Jobs are generated from
// the single PRNG, executed by a fixed number of children in parallel (job i
// on child i mod K, each child in its own scratch directory), and their
// outcomes are emitted in generation order.
type job struct {
	req  *request
	done func(response)
}

const nChildren = 6

type runner struct {
	c       *reg.Ctx
	ds      []*driver
	n       int
	opts    map[string][]string
	jobs    []job
	timeout int
}

func repoDir() string {
	if r := os.Getenv("VERIF_REPO"); r != "" {
		return r
	}
	return "/repo"
}

func (x *runner) add(req *request, done func(response)) {
	x.n++
	req.I = x.n
	if req.TimeoutMs == 0 {
		req.TimeoutMs = x.timeout
	}
	x.jobs = append(x.jobs, job{req, done})
}

// flush runs the queued jobs and emits their cases in order.
func (x *runner) flush() {
	t0, nj := time.Now(), len(x.jobs)
	defer func() {
		fmt.Fprintf(os.Stderr, "c17: batch of %d programs in %.1fs\n", nj, time.Since(t0).Seconds())
	}()
	res := make([]response, len(x.jobs))
	var wg sync.WaitGroup
	for k := range x.ds {
		wg.Add(1)
		go func(k int) {
			defer wg.Done()
			for i := k; i < len(x.jobs); i += len(x.ds) {
				r := x.ds[k].exec1(x.jobs[i].req)
				if r.Outcome == "unresponsive" || r.Outcome == "hang" {
					// a loaded machine must not produce a finding: confirm on a
					// fresh child with twice the time
					x.ds[k].kill()
					x.jobs[i].req.TimeoutMs *= 2
					r = x.ds[k].exec1(x.jobs[i].req)
				}
				res[i] = r
			}
		}(k)
	}
	wg.Wait()
	for i, j := range x.jobs {
		j.done(res[i])
	}
	x.jobs = nil
}

// crashText turns a child outcome into the Direct text, or "" if the program
// ended normally / with an Elvish exception / with a parse or compile error /
// was still computing at the deadline.
func crashText(r response) string {
	switch r.Outcome {
	case "panic":
		return "Go panic escaped evaluation: " + r.Msg
	case "fatal":
		return "interpreter process died: " + r.Msg
	case "hang":
		return "evaluation hangs with all of its goroutines blocked"
	case "unresponsive":
		return "interpreter process unresponsive (killed by the watchdog)"
	}
	return ""
}

// search queues a program whose only oracle is "does not crash".
func (x *runner) search(via, class, prog string, then func(response)) {
	x.add(&request{Code: prog}, func(r response) {
		x.c.Count(via + "/" + r.Outcome)
		d := desc{Prog: prog, Via: via, Outcome: r.Outcome, Kind: r.Kind, Msg: r.Msg}
		direct := crashText(r)
		if direct != "" {
			d.Stack = r.Stack
		}
		x.c.Emit(reg.Case{Desc: d, Key: prog, Class: class, Direct: direct,
			Nontrivial: r.Outcome != "parse-error" && r.Outcome != "compile-error" && r.Outcome != "skip"})
		if then != nil {
			then(r)
		}
	})
}

func (x *runner) pick() pv { return pool[x.c.Rand.Intn(len(pool))] }

func (x *runner) pickFor(cmd string) pv {
	for {
		p := x.pick()
		if _, r := restrictedCmds[cmd]; r && !smallOnly(p) {
			continue
		}
		if cmd == "sleep" && (p.Kind == "num" || p.Kind == "num-str") && !(p.Rat != nil && p.Rat.Sign() <= 0) &&
			!strings.Contains(p.Src, "nan") && !strings.Contains(p.Src, "-inf") {
			continue
		}
		return p
	}
}

var two30 = big.NewRat(1<<30, 1)

// callFeatures lists the defect-prone features of a call, computed from the
// command and its argument/option values only.  Each has its own narrow class.
func callFeatures(cmd string, args []pv, optVals []pv) []string {
	var fs []string
	for _, a := range append(append([]pv{}, args...), optVals...) {
		if a.Src == "$nil" {
			fs = append(fs, "nil-argument")
			break
		}
	}
	switch cmd {
	case "math:pow":
		if len(args) == 2 && args[0].Exact && args[1].Exact && args[0].Rat != nil && args[1].Rat != nil &&
			args[0].Rat.Sign() == 0 && args[1].Rat.IsInt() && args[1].Rat.Sign() < 0 {
			fs = append(fs, "math-pow-zero-negative")
		}
	case "file:is-tty":
		if len(args) == 1 && args[0].Rat != nil && args[0].Rat.IsInt() && args[0].Rat.Sign() < 0 {
			fs = append(fs, "file-is-tty-negative-fd")
		}
	case "read-bytes":
		if len(args) == 1 && args[0].Rat != nil && args[0].Rat.IsInt() && (args[0].Rat.Cmp(two30) >= 0 || args[0].Rat.Sign() < 0) {
			fs = append(fs, "read-bytes-bad-count")
		}
	case "edit:match-subseq":
		for _, a := range args {
			if (strings.Contains(a.Src, `\x`) && !strings.Contains(a.Src, `\x00`)) || strings.Contains(a.Src, "�") {
				fs = append(fs, "match-subseq-invalid-utf8")
				break
			}
		}
	case "str:repeat":
		if len(args) == 2 && args[1].Rat != nil && args[1].Rat.IsInt() && args[1].Rat.Cmp(big.NewRat(1<<31-1, 1)) >= 0 {
			fs = append(fs, "str-repeat-huge-count")
		}
	case "randint":
		if len(args) == 2 && args[0].Rat != nil && args[1].Rat != nil && args[0].Rat.IsInt() && args[1].Rat.IsInt() &&
			args[0].Rat.Num().IsInt64() && args[1].Rat.Num().IsInt64() &&
			new(big.Int).Sub(args[1].Rat.Num(), args[0].Rat.Num()).Cmp(maxInt64) > 0 {
			fs = append(fs, "randint-range-overflow")
		}
	case "flag:parse", "flag:call":
		for _, a := range args {
			if f := flagFeature(a.Src); f != "" {
				fs = append(fs, f)
				break
			}
		}
	case "run-parallel":
		for _, a := range args {
			if a.Kind == "fn" && !a.Nullary {
				fs = append(fs, "run-parallel-callee-error")
				break
			}
		}
	}
	return fs
}

var maxInt64 = big.NewInt(1<<63 - 1)

// flag specs / closures whose flag names Go's flag package refuses by panicking
const (
	dupSpecs     = "[[a 1 d] [a 2 d]]"
	badNameSpecs = "[[-a 1 d] ['b=c' 1 d]]"
	dupOptFn     = "{|&a=1 &a=2| }"
)

func flagFeature(src string) string {
	switch src {
	case dupSpecs, dupOptFn:
		return "flag-duplicate-name"
	case badNameSpecs:
		return "flag-malformed-name"
	}
	return ""
}

// classOf: a program is generated with at most one defect-prone feature, so
// that a crash is never filed under the class of another feature.
func classOf(features []string, dflt string) string {
	if len(features) > 0 {
		return features[0]
	}
	return dflt
}

type arity struct{ lo, hi int } // hi == -1: unbounded

func (x *runner) genCall(cmd string, ar arity) (string, string) {
	for {
		prog, features := x.genCall1(cmd, ar)
		if len(features) <= 1 {
			return prog, classOf(features, "call:"+cmd)
		}
	}
}

func (x *runner) genCall1(cmd string, ar arity) (string, []string) {
	r := x.c.Rand
	n := 0
	switch {
	case r.Intn(5) == 0:
		n = r.Intn(5)
	case ar.hi < 0:
		n = ar.lo + r.Intn(3)
	default:
		n = ar.lo + r.Intn(ar.hi-ar.lo+1)
	}
	var args, optVals []pv
	var sb strings.Builder
	sb.WriteString(cmd)
	for i := 0; i < n; i++ {
		p := x.pickFor(cmd)
		args = append(args, p)
		sb.WriteString(" " + p.Src)
	}
	if names := x.opts[cmd]; len(names) > 0 && r.Intn(3) == 0 {
		v := x.pickFor(cmd)
		optVals = append(optVals, v)
		sb.WriteString(" &" + names[r.Intn(len(names))] + "=" + v.Src)
	} else if r.Intn(25) == 0 {
		v := x.pick()
		optVals = append(optVals, v)
		sb.WriteString(" &nonexistent=" + v.Src)
	}
	if cmd == "benchmark" {
		sb.WriteString(" &min-runs=1 &min-time=0s")
	}
	prog := sb.String()
	// input for commands that read it
	switch r.Intn(6) {
	case 0:
		prog = "put " + x.pick().Src + " " + x.pick().Src + " | " + prog
	case 1:
		prog = "print " + x.pick().Src + " | " + prog
	}
	// commands given a large number may legitimately produce output without
	// end: bound it by a reader that goes away.  Everything else runs as a
	// plain form, so that a panic is recovered in the child without a restart.
	for _, a := range append(append([]pv{}, args...), optVals...) {
		if !smallOnly(a) {
			return prog + " | verif:sink", callFeatures(cmd, args, optVals)
		}
	}
	return prog, callFeatures(cmd, args, optVals)
}

func run(c *reg.Ctx) {
	x := &runner{c: c, opts: docOptions(repoDir()), timeout: 3000}
	if c.Tier == "thorough" {
		x.timeout = 10000
	}
	for k := 0; k < nChildren; k++ {
		dir := filepath.Join(c.Scratch, fmt.Sprintf("w%d", k))
		for _, d := range []string{"home", "nobin", "tmp", "xdg"} {
			os.MkdirAll(filepath.Join(dir, d), 0o755)
		}
		for i := 1; i <= 3; i++ {
			writeFile(dir, fmt.Sprintf("rf%d", i)) // files that reading redirections open
		}
		x.ds = append(x.ds, &driver{scratch: dir})
	}
	defer func() {
		for _, d := range x.ds {
			d.stop()
		}
	}()

	// 0. enumeration by reflection (in this process; nothing is evaluated here
	//    except the `use` lines)
	encDir := filepath.Join(c.Scratch, "enum")
	os.MkdirAll(encDir, 0o755)
	setEnv(encDir)
	w := newWorld(encDir)
	var cmds []string
	for _, cmd := range w.commands() {
		if _, skip := skipCmds[cmd]; skip {
			c.Count("skipped-command")
			continue
		}
		cmds = append(cmds, cmd)
	}
	c.Dist["commands-enumerated"] = len(cmds)

	// 1. planted programs: the recorded crash classes and their neighbours
	for _, p := range planted {
		x.search("planted", p.class, p.prog, nil)
	}
	// the recorded deadlock, with a short deadline (it is confirmed once more
	// with twice the time before it is reported)
	x.add(&request{Code: "all <&-", TimeoutMs: 1000}, func(r response) {
		x.c.Count("planted/" + r.Outcome)
		x.c.Emit(reg.Case{Desc: desc{Prog: "all <&-", Via: "planted", Outcome: r.Outcome, Stack: r.Stack}, Key: "all <&-",
			Class: "stdin-from-output-port", Direct: crashText(r), Nontrivial: true})
	})
	// 2. mechanism cases judged against the Coq model
	x.mechanisms(c.N / 5)
	// 3a. arity probe
	ar := map[string]arity{}
	for _, cmd := range cmds {
		cmd := cmd
		probe := cmd + strings.Repeat(" x", 9) + " | verif:sink"
		x.search("probe", "call:"+cmd, probe, func(r response) {
			if r.Outcome == "exception" && strings.HasSuffix(r.Kind, "ArityMismatch") {
				ar[cmd] = arity{r.Lo, r.Hi}
			} else {
				ar[cmd] = arity{0, -1}
			}
		})
	}
	x.flush()

	// 3b. sweeps: in every argument position of every command (others filled
	//     with plain values) $nil and a list of mixed element types; and mixed
	//     values piped in as input
	const mixed = "[(num 1) $nil [a] { } a]"
	fillers := []string{"a", "1"}
	if c.Tier == "thorough" {
		fillers = []string{"a", "1", "[a]", "{ }"}
	}
	for _, cmd := range cmds {
		a := ar[cmd]
		n := a.lo
		if n == 0 && a.hi != 0 {
			n = 1
		}
		suffix := ""
		if cmd == "benchmark" {
			suffix = " &min-runs=1 &min-time=0s"
		}
		for pos := 0; pos < n && pos < 4; pos++ {
			for fi, f := range fillers {
				if _, r := restrictedCmds[cmd]; r && f == "1" {
					continue
				}
				args := make([]string, n)
				for i := range args {
					args[i] = f
				}
				args[pos] = "$nil"
				x.search("nil-sweep", "nil-argument", cmd+" "+strings.Join(args, " ")+suffix, nil)
				if fi == 0 {
					args[pos] = mixed
					x.search("mixed-sweep", "call:"+cmd, cmd+" "+strings.Join(args, " ")+suffix, nil)
				}
			}
		}
		args := make([]string, a.lo)
		for i := range args {
			args[i] = "a"
		}
		x.search("mixed-sweep", "call:"+cmd, "put (num 1) $nil [a] { } a | "+cmd+" "+strings.Join(args, " ")+suffix, nil)
		// structured values (spec lists with duplicate / malformed names, a
		// closure with a duplicate option) in every position, others empty lists
		for pos := 0; pos < n && pos < 4; pos++ {
			for _, v := range []string{dupSpecs, badNameSpecs, dupOptFn} {
				args := make([]string, n)
				for i := range args {
					args[i] = "[]"
				}
				args[pos] = v
				class := "call:" + cmd
				if cmd == "flag:parse" || cmd == "flag:call" {
					class = flagFeature(v)
				}
				x.search("spec-sweep", class, cmd+" "+strings.Join(args, " ")+suffix, nil)
			}
		}
		// pairs of integers of huge magnitude for commands that take two or more
		// arguments (ranges, bounds, counts); output is bounded by the sink
		if _, r := restrictedCmds[cmd]; !r && n <= 2 && (a.hi < 0 || a.hi >= 2) && !bigPairBusy[cmd] {
			for _, pr := range bigPairs {
				class := "call:" + cmd
				if cmd == "randint" && pr[2] == "overflow" {
					class = "randint-range-overflow"
				}
				x.search("pair-sweep", class, cmd+" "+pr[0]+" "+pr[1]+suffix+" | verif:sink", nil)
			}
		}
	}
	// 3b'. boundary sweeps (deterministic, every run)
	x.indexSweep()
	x.intPositionSweep(cmds, ar)
	// 3c. calls with pool arguments
	nCalls := c.N * 3 / 5
	per := nCalls / max(1, len(cmds))
	if per < 4 {
		per = 4
	}
	for _, cmd := range cmds {
		for i := 0; i < per; i++ {
			prog, class := x.genCall(cmd, ar[cmd])
			x.search("call", class, prog, nil)
		}
	}

	// 4. forms with redirections and special forms with odd shapes
	nForms := c.N / 5
	for i := 0; i < nForms; i++ {
		if i%2 == 0 {
			prog, class := x.genRedirForm()
			x.search("redir", class, prog, nil)
		} else {
			prog, class := x.genSpecial()
			x.search("special", class, prog, nil)
		}
	}
	x.flush()
	spawns := 0
	for _, d := range x.ds {
		spawns += d.spawns
	}
	c.Dist["child-spawns"] = spawns
}

// low/high pairs; "overflow": high - low does not fit a machine int
var bigPairs = [][3]string{
	{"-5000000000000000000", "5000000000000000000", "overflow"},
	{"-9223372036854775808", "9223372036854775807", "overflow"},
	{"9223372036854775807", "-9223372036854775808", ""},
	{"-9223372036854775809", "9223372036854775808", ""},
}

// commands that legitimately compute for a time exponential in such operands
var bigPairBusy = map[string]bool{"math:pow": true}

// ---- machine-integer boundaries in every integer-like position --------------

// exact boundaries: 0, -1, 1, +-2^31, +-2^32, 2^63-1, -2^63+1, +-2^63 and their neighbours
var boundaries = []string{"0", "-1", "1", "2147483647", "2147483648", "-2147483648", "-2147483649",
	"4294967296", "-4294967296", "9223372036854775807", "-9223372036854775807",
	"-9223372036854775808", "9223372036854775808", "-9223372036854775809"}

// the ones used as second bound of a slice
var sliceOther = []string{"-1", "9223372036854775807", "-9223372036854775808"}

var indexables = []string{"abc", `"a\u00e9\u20ac"`, "''", "[a b c]", "[]", "[&a=b &0=c]"}

// indexSweep: every indexable value kind x every boundary x index / slice /
// assoc / dissoc / has-key / element assignment / element deletion.
func (x *runner) indexSweep() {
	emit := func(prog string) { x.search("index-sweep", "index", prog, nil) }
	for _, v := range indexables {
		for _, b := range boundaries {
			emit(fmt.Sprintf("var v = %s; put $v[%s]", v, b))
			emit(fmt.Sprintf("var v = %s; put $v[(num %s)]", v, b))
			emit(fmt.Sprintf("var v = %s; put $v[%s..]", v, b))
			emit(fmt.Sprintf("var v = %s; put $v[..%s]", v, b))
			emit(fmt.Sprintf("var v = %s; put $v[..=%s]", v, b))
			for _, o := range sliceOther {
				emit(fmt.Sprintf("var v = %s; put $v[%s..%s]", v, b, o))
				emit(fmt.Sprintf("var v = %s; put $v[%s..=%s]", v, o, b))
			}
			for _, k := range []string{b, "(num " + b + ")"} {
				emit(fmt.Sprintf("assoc %s %s x", v, k))
				emit(fmt.Sprintf("dissoc %s %s", v, k))
				emit(fmt.Sprintf("has-key %s %s", v, k))
			}
			emit(fmt.Sprintf("var v = %s; set v[%s] = x; put $v", v, b))
			emit(fmt.Sprintf("var v = %s; del v[%s]; put $v", v, b))
		}
	}
}

var numberWords = []string{"cannot parse", "must be integer", "must be number", "need number", "integer", "number"}

// intPositionSweep: finds the integer-like argument positions and options of
// every command (a non-number is refused there with a number-related error, 1
// is not) and puts every boundary there, as a string and as a typed number.
func (x *runner) intPositionSweep(cmds []string, ar map[string]arity) {
	type slot struct {
		cmd     string
		n, pos  int    // pos < 0: option
		opt     string // option name
		zz, one response
	}
	call := func(sl *slot, val string) string {
		args := make([]string, sl.n)
		for i := range args {
			args[i] = "1"
		}
		prog := sl.cmd
		if sl.pos >= 0 {
			args[sl.pos] = val
		}
		if len(args) > 0 {
			prog += " " + strings.Join(args, " ")
		}
		if sl.pos < 0 {
			prog += " &" + sl.opt + "=" + val
		}
		return prog + " | verif:sink"
	}
	var slots []*slot
	for _, cmd := range cmds {
		if _, r := restrictedCmds[cmd]; r || bigPairBusy[cmd] {
			continue
		}
		a := ar[cmd]
		n := a.lo
		switch {
		case a.hi < 0 && n < 2:
			n = 2
		case a.hi > a.lo:
			n = a.lo + 1
		}
		for pos := 0; pos < n && pos < 4; pos++ {
			slots = append(slots, &slot{cmd: cmd, n: n, pos: pos})
		}
		seen := map[string]bool{}
		for _, o := range x.opts[cmd] {
			if !seen[o] {
				seen[o] = true
				slots = append(slots, &slot{cmd: cmd, n: a.lo, pos: -1, opt: o})
			}
		}
	}
	for _, sl := range slots {
		sl := sl
		x.search("int-probe", "call:"+sl.cmd, call(sl, "zz"), func(r response) { sl.zz = r })
		x.search("int-probe", "call:"+sl.cmd, call(sl, "1"), func(r response) { sl.one = r })
	}
	x.flush()
	for _, sl := range slots {
		if sl.zz.Outcome != "exception" {
			continue
		}
		numeric := false
		for _, w := range numberWords {
			if strings.Contains(sl.zz.Msg, w) {
				numeric = true
			}
		}
		if !numeric || (sl.one.Outcome == "exception" && sl.one.Msg == strings.Replace(sl.zz.Msg, "zz", "1", -1)) {
			continue
		}
		x.c.Count("integer-like-positions")
		for _, b := range boundaries {
			for _, val := range []string{b, "(num " + b + ")"} {
				class := "call:" + sl.cmd
				if sl.pos >= 0 {
					args := make([]pv, sl.n)
					for i := range args {
						args[i] = exact("1", "num-str", "1")
					}
					args[sl.pos] = exact(val, "num", b)
					class = classOf(callFeatures(sl.cmd, args, nil), class)
				}
				x.search("int-sweep", class, call(sl, val), nil)
			}
		}
	}
}

type plantedProg struct{ class, prog string }

var planted = []plantedProg{
	{"math-pow-zero-negative", "math:pow 0 -1"},
	{"math-pow-zero-negative", "math:pow 0 -2"},
	{"math-pow-zero-negative", "math:pow (num 0) (num -1)"},
	{"math-pow-zero-negative", "math:pow 0/3 -100000000000000000000"},
	{"call:math:pow", "math:pow 0 0"},
	{"call:math:pow", "math:pow 0.0 -1"},
	{"call:math:pow", "math:pow 1/2 -3"},
	{"redir-negative-fd", "echo hi -1>f"},
	{"redir-negative-fd", "echo hi >&-2"},
	{"redir-negative-fd", "nop -7<f"},
	{"redir-huge-fd", "echo hi 1000000000000>f"},
	{"redir-huge-fd", "echo hi 9223372036854775807>f"},
	{"redir", "echo hi >&9223372036854775807"},
	{"redir", "echo hi >&-"},
	{"redir", "echo hi >&-1"},
	{"redir", "echo hi 7>f"},
	{"redir", "echo hi 1000>f"},
	{"pipe-stdin-redirected", "echo a | nop <rf1"},
	{"pipe-stdin-redirected", "echo a | nop <&-"},
	{"pipe-stdin-redirected", "put a | nop 0>&2 | nop"},
	{"redir", "echo a | nop >f"},
	{"value-output-to-input-port", "put x >&0"},
	{"value-output-to-input-port", "put x 2>&stdin >&2"},
	{"redir", "echo x >&0"},
	{"nil-argument", "show $nil"},
	{"nil-argument", "conj $nil a"},
	{"nil-argument", "each $nil [a]"},
	{"file-is-tty-negative-fd", "file:is-tty -1"},
	{"call:file:is-tty", "file:is-tty 99"},
	{"read-bytes-bad-count", "read-bytes 1000000000000"},
	{"read-bytes-bad-count", "read-bytes -1"},
	{"pipe-output-self-redirect", "put a | put b >&1 | nop"},
	{"redir", "put a | put b >&2 | nop"},
	{"call:read-bytes", "read-bytes 100"},
	{"run-parallel-callee-error", "run-parallel {|a| }"},
	{"run-parallel-callee-error", "run-parallel $fail~"},
	{"call:run-parallel", "run-parallel { fail x } { put a }"},
	{"randint-range-overflow", "randint -5000000000000000000 5000000000000000000"},
	{"call:randint", "randint -5 5000000000000000000"},
	{"flag-duplicate-name", "flag:parse [] " + dupSpecs},
	{"flag-duplicate-name", "flag:call " + dupOptFn + " []"},
	{"flag-malformed-name", "flag:parse [] [[-a 1 d]]"},
	{"flag-malformed-name", "flag:parse [] [['a=b' 1 d]]"},
	{"call:flag:parse", "flag:parse [-a 3] [[a 1 d] [b x d]]"},
	{"call:str:repeat", "str:repeat abc 3074457345618258603"},
	{"call:str:repeat", "str:repeat abc -1"},
	{"str-repeat-huge-count", "str:repeat 1 9223372036854775807"},
	{"index", "put abc[-9223372036854775808]"},
	{"index", "put abc[-9223372036854775808..]"},
	{"index", "assoc abc -9223372036854775808 x"},
}

// ---- redirections ----------------------------------------------------------

type fdTok struct {
	src string
	val *big.Int // nil: not a number
}

func fdt(s string) fdTok {
	v, ok := new(big.Int).SetString(s, 0)
	if !ok {
		return fdTok{s, nil}
	}
	return fdTok{s, v}
}

// ordinary operands, and the defect-prone ones (chosen with low probability so
// that most forms exercise the table without crashing the child)
var dstFds = []fdTok{fdt(""), fdt(""), fdt(""), fdt("0"), fdt("1"), fdt("2"), fdt("3"), fdt("7"), fdt("11"), fdt("1000"), fdt("65536"),
	fdt("9223372036854775808"), fdt("stdin"), fdt("stdout"), fdt("stderr"), fdt("x"), fdt("1.5"), fdt("0x3"), fdt("-")}
var dstFdsBad = []fdTok{fdt("-1"), fdt("-2"), fdt("-9223372036854775808"), fdt("4294967296"), fdt("1000000000000"), fdt("9223372036854775807")}
var srcFds = []fdTok{fdt("0"), fdt("1"), fdt("2"), fdt("3"), fdt("9"), fdt("-"), fdt("-1"), fdt("1000000"), fdt("9223372036854775807"),
	fdt("stdin"), fdt("stdout"), fdt("x"), fdt("''")}
var srcFdsBad = []fdTok{fdt("-2"), fdt("-3"), fdt("-9223372036854775808")}
var redirFiles = []string{"f", "g", "rf1", "''", "nodir/x", "[&]", "[&r=x]", "$verif:pipe", "$verif:pipe[w]", "$verif:pipe[r]", "[a]", "(num 1)", `"\x00"`, "."}
var redirOps = []string{"<", ">", ">>", "<>"}
var redirCmds = []string{"echo hi", "put x", "nop", "verif:ports", "print a", "{ echo in; verif:ports }", "cat", "each $put~", "all", "only-bytes", "put x | each $put~"}

var hugeFd = big.NewInt(1 << 31)

type redirInfo struct {
	text       string
	neg, huge  bool
	dst0       bool // destination is fd 0
	dstOut     bool // destination is fd 1 or 2
	fromOutput bool // source is an output port, or a file/value opened for writing
	fromInput  bool // source is fd 0, or a file/value opened for reading
	self1      bool // fd 1 duplicated onto itself
}

func (x *runner) genRedir(allowBad bool) redirInfo {
	r := x.c.Rand
	var ri redirInfo
	dst := dstFds[r.Intn(len(dstFds))]
	if allowBad && r.Intn(12) == 0 {
		dst = dstFdsBad[r.Intn(len(dstFdsBad))]
	}
	op := redirOps[r.Intn(len(redirOps))]
	if dst.val != nil && dst.val.IsInt64() {
		ri.neg = dst.val.Sign() < 0
		ri.huge = dst.val.Cmp(hugeFd) >= 0
	}
	dnum := int64(-9)
	switch {
	case dst.src == "":
		dnum = 1
		if op == "<" {
			dnum = 0
		}
	case dst.src == "stdin":
		dnum = 0
	case dst.src == "stdout":
		dnum = 1
	case dst.src == "stderr":
		dnum = 2
	case dst.val != nil && dst.val.IsInt64():
		dnum = dst.val.Int64()
	}
	ri.dst0 = dnum == 0
	ri.dstOut = dnum == 1 || dnum == 2
	if r.Intn(2) == 0 {
		src := srcFds[r.Intn(len(srcFds))]
		if allowBad && r.Intn(12) == 0 {
			src = srcFdsBad[r.Intn(len(srcFdsBad))]
		}
		if src.val != nil && src.val.IsInt64() && src.val.Sign() < 0 && src.val.Int64() != -1 {
			ri.neg = true
		}
		switch src.src {
		case "-", "-1":
			ri.fromOutput = true // the closed port has no readable channel either
		case "1", "2", "stdout":
			ri.fromOutput = true
			ri.self1 = dnum == 1 && src.src != "2"
		case "0", "stdin":
			ri.fromInput = true
		}
		ri.text = dst.src + op + "&" + src.src
		return ri
	}
	ri.fromOutput = op != "<"
	ri.fromInput = op == "<"
	ri.text = dst.src + op + redirFiles[r.Intn(len(redirFiles))]
	return ri
}

func (x *runner) genRedirForm() (string, string) {
	for {
		prog, features := x.genRedirForm1()
		if len(features) <= 1 {
			return prog, classOf(features, "redir")
		}
	}
}

func (x *runner) genRedirForm1() (string, []string) {
	r := x.c.Rand
	cmd := redirCmds[r.Intn(len(redirCmds))]
	n := 1 + r.Intn(3)
	piped := r.Intn(4) == 0
	cmdPiped := strings.Contains(cmd, " | ")
	var parts []string
	outPiped := r.Intn(4) == 0
	var neg, huge, stdinRedir, stdinFromOut, outFromIn, self1 bool
	for i := 0; i < n; i++ {
		ri := x.genRedir(!(neg || huge))
		parts = append(parts, ri.text)
		neg = neg || ri.neg
		huge = huge || ri.huge
		stdinRedir = stdinRedir || ri.dst0
		stdinFromOut = stdinFromOut || (ri.dst0 && ri.fromOutput)
		outFromIn = outFromIn || (ri.dstOut && ri.fromInput)
		self1 = self1 || ri.self1
	}
	var features []string
	add := func(c bool, name string) {
		if c {
			features = append(features, name)
		}
	}
	add(neg, "redir-negative-fd")
	add(huge, "redir-huge-fd")
	add((piped || cmdPiped) && stdinRedir, "pipe-stdin-redirected")
	add(outPiped && self1, "pipe-output-self-redirect")
	add(stdinFromOut, "stdin-from-output-port")
	add(outFromIn, "value-output-to-input-port")
	prog := cmd + " " + strings.Join(parts, " ")
	if piped {
		prog = "put a | " + prog
	}
	if outPiped {
		prog += " | verif:sink"
	}
	return prog, features
}

// ---- special forms with odd shapes ----------------------------------------

var specialHeads = []string{"var", "set", "tmp", "with", "del", "fn", "if", "while", "for", "try", "and", "or", "coalesce",
	"pragma", "use", "nop", "put", "e:true"}
var soup = []string{"a", "b", "$a", "$b", "=", "=", "{ }", "{ put x }", "{|x| }", "{|@x y| }", "{|&k=v| }", "[a b]", "[]", "@a", "@b",
	"a[0]", "a[0][k]", "a[", "$nonexistent", "else", "elif", "catch", "finally", "except", "e", "&k=v", "&k", "(put a b)", "()", "-1",
	"x:y", "x:", ":y", "~", "*", "**", "?", "a~", "''", "unknown-command = external", "math", "./m", "str s", "$a[0]", "$@a", "$a[1..]",
	"$a[-9]", "$true", "$false", "{ fail x }", "{ break }", "{ continue }", "{ return }", "a,b", "a b = 1 2 3", "[&k=v]", "$-", "$", "@",
	"2>&1", ">f", "<", "|", "&", ";", "\n", "(", ")", "{", "}", "]", "'", "\"", "\\", "^", "#", "$e:", "$E:X", "E:X", "$args", "$nil",
	"a~ b:", "{|a=| }", "{|@a @b| }", "{|a a| }", "{|&a=1 &a=2| }", "$x~", "$:", "$a:b:", "1 2", "(num 1)", "%", "(fail x)", "?(fail x)"}

func (x *runner) genSpecial() (string, string) {
	r := x.c.Rand
	var sb strings.Builder
	if r.Intn(3) == 0 {
		sb.WriteString("var a = [x y]; var b = 1; ")
	}
	sb.WriteString(specialHeads[r.Intn(len(specialHeads))])
	n := r.Intn(7)
	class := "special-form"
	bg, redir := false, false
	for i := 0; i < n; i++ {
		t := soup[r.Intn(len(soup))]
		switch t {
		case "&":
			if redir {
				continue // one defect-prone feature per program
			}
			bg = true
			class = "background-job"
		case "2>&1", ">f", "<":
			if bg {
				continue
			}
			redir = true
		}
		sb.WriteString(" " + t)
	}
	return sb.String(), class
}
