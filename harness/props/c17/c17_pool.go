package c17

import (
	"math/big"
	"os"
	"path/filepath"
	"regexp"
	"strings"
)

// pv is one entry of the adversarial value pool: Elvish source text of an
// expression plus what the classifier needs to know about it.
type pv struct {
	Src     string
	Kind    string   // str num-str num list map fn misc
	Rat     *big.Rat // exact numeric value when the text denotes an exact number
	Exact   bool     // evaluates to / parses as an exact number (int, big int, rational)
	Nullary bool     // a callable that accepts a call without arguments without error
}

func exact(src, kind, rat string) pv {
	r, _ := new(big.Rat).SetString(rat)
	return pv{Src: src, Kind: kind, Rat: r, Exact: true}
}

var long3000 = strings.Repeat("ab", 1500)

var pool = []pv{
	// strings: empty, plain, spaces, invalid UTF-8, NUL, non-BMP, long
	{Src: "''", Kind: "str"}, {Src: "a", Kind: "str"}, {Src: "abc", Kind: "str"}, {Src: "'a b'", Kind: "str"},
	{Src: `"\xff"`, Kind: "str"}, {Src: `"\xff\xfe"`, Kind: "str"}, {Src: `"a\xffb"`, Kind: "str"}, {Src: `"\xc3"`, Kind: "str"},
	{Src: `"\xed\xa0\x80"`, Kind: "str"}, {Src: `"\x00"`, Kind: "str"}, {Src: `"é"`, Kind: "str"}, {Src: `"\U0010ffff"`, Kind: "str"},
	{Src: `"�"`, Kind: "str"}, {Src: `"a\nb\n"`, Kind: "str"}, {Src: `"\t"`, Kind: "str"}, {Src: "x/y", Kind: "str"},
	{Src: "'" + long3000 + "'", Kind: "str"}, {Src: "-", Kind: "str"}, {Src: "--", Kind: "str"}, {Src: "-x", Kind: "str"},
	{Src: "'*'", Kind: "str"}, {Src: "'['", Kind: "str"}, {Src: "'(?P<'", Kind: "str"}, {Src: "'a{2000}'", Kind: "str"}, {Src: "'%'", Kind: "str"},
	{Src: "'%*d'", Kind: "str"}, {Src: "'%[5]v'", Kind: "str"}, {Src: "'{'", Kind: "str"}, {Src: "'[1,'", Kind: "str"}, {Src: "'a:'", Kind: "str"},
	{Src: "red", Kind: "str"}, {Src: "Ctrl-[", Kind: "str"}, {Src: "1s", Kind: "str"}, {Src: "g~", Kind: "str"},
	// number-looking strings
	exact("0", "num-str", "0"), exact("1", "num-str", "1"), exact("2", "num-str", "2"), exact("3", "num-str", "3"),
	exact("-1", "num-str", "-1"), exact("-2", "num-str", "-2"), exact("-0", "num-str", "0"), exact("007", "num-str", "7"),
	exact("0x10", "num-str", "16"), exact("1_000", "num-str", "1000"), exact("1000000", "num-str", "1000000"),
	exact("1000000000000", "num-str", "1000000000000"),
	exact("9223372036854775807", "num-str", "9223372036854775807"), exact("9223372036854775808", "num-str", "9223372036854775808"),
	exact("-9223372036854775808", "num-str", "-9223372036854775808"), exact("-9223372036854775809", "num-str", "-9223372036854775809"),
	exact("100000000000000000000000000", "num-str", "100000000000000000000000000"),
	exact("5000000000000000000", "num-str", "5000000000000000000"), exact("-5000000000000000000", "num-str", "-5000000000000000000"),
	exact("1/2", "num-str", "1/2"), exact("-3/7", "num-str", "-3/7"), exact("0/5", "num-str", "0"), {Src: "1/0", Kind: "num-str"},
	{Src: "1.5", Kind: "num-str"}, {Src: "0.0", Kind: "num-str"}, {Src: "-0.0", Kind: "num-str"}, {Src: "1e3", Kind: "num-str"},
	{Src: "1e308", Kind: "num-str"}, {Src: "1e-320", Kind: "num-str"}, {Src: "1e1000", Kind: "num-str"},
	{Src: "inf", Kind: "num-str"}, {Src: "-inf", Kind: "num-str"}, {Src: "nan", Kind: "num-str"}, {Src: "+Inf", Kind: "num-str"},
	// typed numbers
	exact("(num 0)", "num", "0"), exact("(num 1)", "num", "1"), exact("(num -1)", "num", "-1"), exact("(num -3)", "num", "-3"),
	exact("(num 64)", "num", "64"), exact("(num 4294967296)", "num", "4294967296"), exact("(num 2147483648)", "num", "2147483648"),
	exact("(num -2147483649)", "num", "-2147483649"), exact("(num 9223372036854775807)", "num", "9223372036854775807"),
	exact("(num 9223372036854775808)", "num", "9223372036854775808"), exact("(num -9223372036854775809)", "num", "-9223372036854775809"),
	exact("(num 1/3)", "num", "1/3"), exact("(num -1/2)", "num", "-1/2"), exact("(num 0/3)", "num", "0"),
	{Src: "(num 1.5)", Kind: "num"}, {Src: "(num -0.0)", Kind: "num"}, {Src: "(num 0.0)", Kind: "num"}, {Src: "(num nan)", Kind: "num"},
	{Src: "(num inf)", Kind: "num"}, {Src: "(num -inf)", Kind: "num"}, {Src: "(num 1e100)", Kind: "num"}, {Src: "(num 1e-320)", Kind: "num"},
	// booleans, nil, containers
	{Src: "$true", Kind: "misc"}, {Src: "$false", Kind: "misc"}, {Src: "$nil", Kind: "misc"}, {Src: "$ok", Kind: "misc"},
	{Src: "?(fail x)", Kind: "misc"}, {Src: "?(return)", Kind: "misc"},
	{Src: "[]", Kind: "list"}, {Src: "[a]", Kind: "list"}, {Src: "[a b c]", Kind: "list"}, {Src: "[[a] [b [c]]]", Kind: "list"},
	{Src: "[(num 1) (num 2)]", Kind: "list"}, {Src: "[1 -1 nan]", Kind: "list"}, {Src: `["\xff" '']`, Kind: "list"}, {Src: "[[&a=b] $nil { }]", Kind: "list"},
	{Src: "[--flag -x=1 -- rest]", Kind: "list"}, {Src: "[[a b] [c]]", Kind: "list"}, {Src: "[[&short=a &long=bc &arg-required=$true]]", Kind: "list"},
	{Src: dupSpecs, Kind: "list"}, {Src: badNameSpecs, Kind: "list"}, {Src: "[[a 1 d] [b x d] [c $true d]]", Kind: "list"},
	{Src: "[&]", Kind: "map"}, {Src: "[&a=b]", Kind: "map"}, {Src: "[&a=[&b=[c]]]", Kind: "map"}, {Src: "[&[a]=b &(num 1)=x]", Kind: "map"},
	{Src: "[&r=x &w=y]", Kind: "map"}, {Src: "[&name=a &url=b &method=git]", Kind: "map"}, {Src: "(ns [&a=b])", Kind: "misc"},
	// callables with assorted arities
	{Src: "{ }", Kind: "fn", Nullary: true}, {Src: "{|a| }", Kind: "fn"}, {Src: "{|a b| put $a }", Kind: "fn"}, {Src: "{|@a| put $@a }", Kind: "fn", Nullary: true},
	{Src: "{|a @b c| put $c }", Kind: "fn"}, {Src: "{|&o=1| put $o }", Kind: "fn", Nullary: true}, {Src: "{ fail x }", Kind: "fn", Nullary: true}, {Src: "{|a| fail $a }", Kind: "fn"},
	{Src: "{|a| put $a $a }", Kind: "fn"}, {Src: "{|a b| put $true }", Kind: "fn"}, {Src: "{|a b| put x }", Kind: "fn"}, {Src: "{ return }", Kind: "fn", Nullary: true},
	{Src: "{|a| break }", Kind: "fn"}, {Src: "{|a| put [$a] }", Kind: "fn"}, {Src: "$nop~", Kind: "fn", Nullary: true}, {Src: "$put~", Kind: "fn", Nullary: true},
	{Src: "$fail~", Kind: "fn"}, {Src: dupOptFn, Kind: "fn", Nullary: true}, {Src: "$'+~'", Kind: "fn", Nullary: true}, {Src: "$str:repeat~", Kind: "fn"},
	// other value kinds
	{Src: "(styled a red)", Kind: "misc"}, {Src: "(styled-segment a &bold)", Kind: "misc"}, {Src: "$verif:pipe", Kind: "misc"},
	{Src: "$verif:pipe[r]", Kind: "misc"}, {Src: "(src)", Kind: "misc"}, {Src: "(make-map [[a b]])", Kind: "map"},
}

// small pool used where a command would legitimately run or block for a time
// proportional to a numeric argument (see checks/C17.md, "restricted")
func smallOnly(p pv) bool {
	if p.Rat != nil {
		return p.Rat.Cmp(big.NewRat(64, 1)) <= 0
	}
	switch p.Src {
	case "1e3", "1e308", "1e1000", "inf", "+Inf", "(num inf)", "(num 1e100)", "1s":
		return false
	}
	return true
}

// ---- option names harvested from the documentation stubs ------------------

var fnDocRe = regexp.MustCompile(`(?m)^fn ([^ ]+) \{\|([^|]*)\|`)
var optRe = regexp.MustCompile(`&([A-Za-z0-9-]+)=`)

// docOptions maps a command (qualified like the enumeration) to its documented option names.
func docOptions(repo string) map[string][]string {
	res := map[string][]string{}
	filepath.Walk(filepath.Join(repo, "pkg"), func(p string, info os.FileInfo, err error) error {
		if err != nil || info.IsDir() || !strings.HasSuffix(p, ".d.elv") {
			return nil
		}
		b, err := os.ReadFile(p)
		if err != nil {
			return nil
		}
		prefix := ""
		dir := filepath.Base(filepath.Dir(p))
		if strings.Contains(p, "/mods/") {
			prefix = dir + ":"
		} else if strings.Contains(p, "/edit/") {
			prefix = "edit:"
		}
		for _, m := range fnDocRe.FindAllStringSubmatch(string(b), -1) {
			for _, o := range optRe.FindAllStringSubmatch(m[2], -1) {
				res[prefix+m[1]] = append(res[prefix+m[1]], o[1])
			}
		}
		return nil
	})
	return res
}
