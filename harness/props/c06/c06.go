// Package c06: the persistent vector (pkg/persistent/vector) and the list entry
// points of pkg/eval/vals, driven through random operation histories over a
// version store.  Every operation may target any earlier version; after every
// creating operation all live versions are read again (Len + Iterator /
// MarshalJSON / Index loop).  Each history is one case, judged in Coq against
// the model of the code and against the same operations on plain lists.
package c06

import (
	"encoding/json"
	"fmt"
	"hash/fnv"
	"strings"

	"src.elv.sh/pkg/eval/vals"
	"src.elv.sh/pkg/persistent/vector"
	. "verifharness/coqfmt"
	"verifharness/reg"
)

func init() {
	reg.Register(&reg.Spec{ID: "C06",
		Imports: "From verif Require Import lib.Base model.C06.",
		Judge:   "C06.judge", Shard: 12, Run: run})
}

const fullMax = 40 // element lists are printed in full up to this length

// ---- observing the implementation ----

func encElem(x any) int64 {
	switch x := x.(type) {
	case nil:
		return -1
	case int:
		return int64(x)
	}
	return -2
}

func hashElems(e []int64) uint64 {
	h := uint64(7)
	for _, x := range e {
		h = h*1000003 + uint64(x+3)
	}
	return h
}

// readVec reads a vector in one of three ways; all must show the same elements.
func readVec(v vector.Vector, mode int) (n int, elems []int64, how string) {
	n = v.Len()
	switch mode % 3 {
	case 0:
		how = "iter"
		for it := v.Iterator(); it.HasElem(); it.Next() {
			elems = append(elems, encElem(it.Elem()))
			if len(elems) > n+5 {
				break
			}
		}
	case 1:
		how = "json"
		b, err := v.MarshalJSON()
		if err != nil {
			panic(err)
		}
		var xs []*int64
		if err := json.Unmarshal(b, &xs); err != nil {
			panic(err)
		}
		for _, p := range xs {
			if p == nil {
				elems = append(elems, -1)
			} else {
				elems = append(elems, *p)
			}
		}
	default:
		how = "index"
		for i := 0; ; i++ {
			x, ok := v.Index(i)
			if !ok {
				break
			}
			elems = append(elems, encElem(x))
			if i > n+5 {
				break
			}
		}
	}
	return
}

type obs struct {
	kind    string // vec nil elem none panic
	n       int
	hasHash bool
	hash    uint64
	full    []int64
	elem    int64
	how     string
	panic   string
}

func (o obs) coq() string {
	switch o.kind {
	case "vec":
		full := None()
		if o.full != nil {
			items := make([]string, len(o.full))
			for i, x := range o.full {
				items[i] = fmt.Sprint(x)
			}
			if len(items) == 0 {
				full = "(Some (@nil Z))"
			} else {
				full = "(Some [" + strings.Join(items, ";") + "]%Z)"
			}
		}
		hash := None()
		if o.hasHash {
			hash = Some(fmt.Sprintf("%d%%Z", o.hash))
		}
		return App("RVec", App("mkVobs", Z(int64(o.n)), hash, full))
	case "nil":
		return "RNil"
	case "elem":
		return App("RElem", Some(Z(o.elem)))
	case "none":
		return App("RElem", None())
	}
	return "RPanic"
}

func (o obs) String() string {
	switch o.kind {
	case "vec":
		if o.full != nil {
			return fmt.Sprintf("vec(%s) len=%d %v", o.how, o.n, o.full)
		}
		if !o.hasHash {
			return fmt.Sprintf("vec len=%d (elements not read)", o.n)
		}
		return fmt.Sprintf("vec(%s) len=%d hash=%d", o.how, o.n, o.hash)
	case "elem":
		return fmt.Sprintf("elem %d", o.elem)
	case "panic":
		return "panic: " + o.panic
	}
	return o.kind
}

// bigLen: above this length the elements are read (and judged) only while the
// history's budget of full reads lasts; Len is always observed.
const bigLen = 2048

func (h *hist) vecObs(v vector.Vector, mode int, wantFull bool) obs {
	if v.Len() > bigLen {
		if h.bigReads <= 0 {
			return obs{kind: "vec", n: v.Len()}
		}
		h.bigReads--
	}
	n, e, how := readVec(v, mode)
	o := obs{kind: "vec", n: n, hasHash: true, hash: hashElems(e), how: how}
	if wantFull && len(e) <= fullMax {
		o.full = e
		if o.full == nil {
			o.full = []int64{}
		}
	}
	return o
}

// ---- histories ----

type version struct {
	v     vector.Vector // nil: the operation was rejected
	isSub bool
	n     int
}

type hist struct {
	c        *reg.Ctx
	vers     []version
	steps    []string // Coq (op, robs) pairs
	log      []string // replay description
	next     int64    // fresh element values
	oob      bool     // a slice of a slice was requested with bounds outside the slice
	maxLen   int
	muts     int
	reads    int
	panics   int
	bigReads int // remaining full reads of large versions
}

func newHist(c *reg.Ctx) *hist {
	return &hist{c: c, vers: []version{{v: vector.Empty}}, next: 1000, bigReads: 2}
}

func (h *hist) fresh() int64 { h.next++; return h.next }

func av(x int64) string { return App("AVal", Z(x)) }

func (h *hist) record(opCoq, opTxt string, o obs) {
	h.steps = append(h.steps, Pair(opCoq, o.coq()))
	h.log = append(h.log, opTxt+" -> "+o.String())
	if o.kind == "panic" {
		h.panics++
	}
}

// create runs an operation producing a Vector (or nil / error) and appends a version.
func (h *hist) create(opCoq, opTxt string, f func() vector.Vector) {
	var o obs
	var nv vector.Vector
	func() {
		defer func() {
			if r := recover(); r != nil {
				o = obs{kind: "panic", panic: fmt.Sprint(r)}
				nv = nil
			}
		}()
		nv = f()
		if nv == nil {
			o = obs{kind: "nil"}
		} else {
			o = h.vecObs(nv, h.c.Rand.Intn(3), true)
		}
	}()
	ver := version{v: nv}
	if nv != nil {
		ver.n = nv.Len()
		ver.isSub = strings.Contains(fmt.Sprintf("%T", nv), "subVector")
		if ver.n > h.maxLen {
			h.maxLen = ver.n
		}
		h.muts++
	}
	h.vers = append(h.vers, ver)
	h.record(opCoq, opTxt, o)
}

func (h *hist) conj(t int) {
	x := h.fresh()
	h.create(App("OConj", Nat(t), av(x)), fmt.Sprintf("v%d.Conj(%d)", t, x),
		func() vector.Vector { return h.vers[t].v.Conj(int(x)) })
}

func (h *hist) conjRange(t, k int) {
	x0 := h.next + 1
	h.next += int64(k)
	h.create(App("OConjRange", Nat(t), Z(x0), Z(int64(k))), fmt.Sprintf("v%d.Conj(%d..) x%d", t, x0, k),
		func() vector.Vector {
			v := h.vers[t].v
			for i := 0; i < k; i++ {
				v = v.Conj(int(x0) + i)
			}
			return v
		})
}

func (h *hist) pop(t int) {
	h.create(App("OPop", Nat(t)), fmt.Sprintf("v%d.Pop()", t),
		func() vector.Vector { return h.vers[t].v.Pop() })
}

func (h *hist) popN(t, k int) {
	h.create(App("OPopN", Nat(t), Z(int64(k))), fmt.Sprintf("v%d.Pop() x%d", t, k),
		func() vector.Vector {
			v := h.vers[t].v
			for i := 0; i < k; i++ {
				v = v.Pop()
				if v == nil {
					return nil
				}
			}
			return v
		})
}

func (h *hist) assoc(t, i int) {
	x := h.fresh()
	h.create(App("OAssoc", Nat(t), Z(int64(i)), av(x)), fmt.Sprintf("v%d.Assoc(%d,%d)", t, i, x),
		func() vector.Vector { return h.vers[t].v.Assoc(i, int(x)) })
}

func (h *hist) sub(t, i, j int) {
	if h.vers[t].isSub && (i < 0 || j > h.vers[t].n) {
		h.oob = true
	}
	h.create(App("OSub", Nat(t), Z(int64(i)), Z(int64(j))), fmt.Sprintf("v%d.SubVector(%d,%d)", t, i, j),
		func() vector.Vector { return h.vers[t].v.SubVector(i, j) })
}

func (h *hist) vslice(t, i, j int) {
	h.create(App("OVSlice", Nat(t), Z(int64(i)), Z(int64(j))), fmt.Sprintf("vals.Index(v%d,\"%d..%d\")", t, i, j),
		func() vector.Vector {
			r, err := vals.Index(h.vers[t].v, fmt.Sprintf("%d..%d", i, j))
			if err != nil {
				return nil
			}
			return r.(vector.Vector)
		})
}

func (h *hist) vassoc(t, i int) {
	x := h.fresh()
	h.create(App("OVAssoc", Nat(t), Z(int64(i)), av(x)), fmt.Sprintf("vals.Assoc(v%d,%d,%d)", t, i, x),
		func() vector.Vector {
			r, err := vals.Assoc(h.vers[t].v, i, int(x))
			if err != nil {
				return nil
			}
			return r.(vector.Vector)
		})
}

func (h *hist) elemObs(f func() (any, bool)) (o obs) {
	defer func() {
		if r := recover(); r != nil {
			o = obs{kind: "panic", panic: fmt.Sprint(r)}
		}
	}()
	x, ok := f()
	if !ok {
		return obs{kind: "none"}
	}
	return obs{kind: "elem", elem: encElem(x)}
}

func (h *hist) index(t, i int) {
	o := h.elemObs(func() (any, bool) { return h.vers[t].v.Index(i) })
	h.record(App("OIndex", Nat(t), Z(int64(i))), fmt.Sprintf("v%d.Index(%d)", t, i), o)
}

func (h *hist) vindex(t, i int) {
	o := h.elemObs(func() (any, bool) {
		x, err := vals.Index(h.vers[t].v, i)
		return x, err == nil
	})
	h.record(App("OVIndex", Nat(t), Z(int64(i))), fmt.Sprintf("vals.Index(v%d,%d)", t, i), o)
}

func (h *hist) reread(t int) {
	var o obs
	func() {
		defer func() {
			if r := recover(); r != nil {
				o = obs{kind: "panic", panic: fmt.Sprint(r)}
			}
		}()
		o = h.vecObs(h.vers[t].v, h.c.Rand.Intn(3), h.c.Rand.Intn(3) == 0)
	}()
	h.reads++
	h.record(App("OIter", Nat(t)), fmt.Sprintf("read v%d", t), o)
}

// rereadAll reads every live version again.
func (h *hist) rereadAll() {
	for t := range h.vers {
		if h.vers[t].v != nil {
			h.reread(t)
		}
	}
}

func (h *hist) live() []int {
	var l []int
	for t := range h.vers {
		if h.vers[t].v != nil {
			l = append(l, t)
		}
	}
	return l
}

// pick chooses a target version: mostly recent ones, sometimes any earlier one.
func (h *hist) pick() int {
	l := h.live()
	r := h.c.Rand
	if r.Intn(3) > 0 {
		k := len(l) - 1 - r.Intn(min(3, len(l)))
		return l[k]
	}
	return l[r.Intn(len(l))]
}

// interesting indices of a version of length n
func (h *hist) idx(n int) int {
	r := h.c.Rand
	cands := []int{-1, 0, 1, n - 1, n, n + 1, n - 2, (n - 1) &^ 31, ((n - 1) &^ 31) - 1, 31, 32, 33, 1023, 1024, 1055, 1056,
		-n, -n - 1, n / 2}
	if r.Intn(4) == 0 && n > 0 {
		return r.Intn(n)
	}
	return cands[r.Intn(len(cands))]
}

func (h *hist) randomOp(allowOob bool) {
	r := h.c.Rand
	t := h.pick()
	n := h.vers[t].n
	switch k := r.Intn(100); {
	case k < 18:
		h.conj(t)
	case k < 26:
		h.conjRange(t, 1+r.Intn(70))
	case k < 40:
		h.pop(t)
	case k < 48:
		h.popN(t, 1+r.Intn(70))
	case k < 62:
		h.assoc(t, h.idx(n))
	case k < 80:
		i, j := h.idx(n), h.idx(n)
		if r.Intn(3) > 0 && n > 0 {
			i = r.Intn(n + 1)
			j = i + r.Intn(n-i+1)
		}
		if h.vers[t].isSub && !allowOob && (i < 0 || j > n) {
			// keep out-of-slice requests on slices for the dedicated histories
			i, j = 0, n
		}
		h.sub(t, i, j)
	case k < 90:
		i, j := h.idx(n), h.idx(n)
		if r.Intn(2) > 0 && n > 0 {
			i = r.Intn(n + 1)
			j = i + r.Intn(n-i+1)
			if r.Intn(3) == 0 {
				j -= n + 1 // the same position, counted from the end
			}
		}
		h.vslice(t, i, j)
	default:
		h.vassoc(t, h.idx(n))
	}
}

func (h *hist) probes(k int) {
	r := h.c.Rand
	for ; k > 0; k-- {
		t := h.pick()
		if r.Intn(4) == 0 {
			h.vindex(t, h.idx(h.vers[t].n))
		} else {
			h.index(t, h.idx(h.vers[t].n))
		}
	}
}

func lenBucket(n int) string {
	switch {
	case n <= 32:
		return "len<=32"
	case n <= 64:
		return "len<=64"
	case n <= 1056:
		return "len<=1056"
	case n <= 32800:
		return "len<=32800"
	}
	return "len>32800"
}

func (h *hist) emit(kind string) {
	class := kind + "/" + lenBucket(h.maxLen)
	if h.oob {
		class = "subsub-oob"
	}
	h.c.Count(class)
	hs := fnv.New64a()
	for _, s := range h.steps {
		hs.Write([]byte(s))
	}
	cs := reg.Case{
		Coq:        App("mkCase", List(h.steps)),
		Desc:       map[string]any{"kind": kind, "steps": h.log},
		Key:        fmt.Sprintf("%x", hs.Sum64()),
		Nontrivial: h.muts >= 3 && h.reads >= 3,
		Class:      class,
	}
	h.c.Emit(cs)
}

// boundary lengths: tail full / tree gains a leaf (32,33,64,65), height 0->1
// (65), 1->2 (1057), 2->3 (32801), and neighbours
var boundaries = []int{0, 1, 2, 31, 32, 33, 34, 63, 64, 65, 66, 95, 96, 97, 1023, 1024, 1025, 1026, 1055, 1056, 1057, 1058, 1088, 1089, 2080, 2081}
var bigBoundaries = []int{32767, 32768, 32769, 32799, 32800, 32801, 32802, 32832, 32833, 33825}

// randomHistory: grow to a boundary length, then random operations on any version.
func randomHistory(c *reg.Ctx, start, nops int, allowOob bool, big bool) {
	h := newHist(c)
	r := c.Rand
	if big {
		h.bigReads = 0
	}
	if start > 0 {
		h.conjRange(0, start)
	}
	for k := 0; k < nops; k++ {
		h.randomOp(allowOob)
		if big {
			// versions are large: Len of all, and the elements through a window
			// slice across a leaf / level boundary (read in full when created)
			h.rereadAll()
			h.window(h.pick())
		} else {
			h.rereadAll()
		}
		h.probes(1 + r.Intn(3))
	}
	if big {
		h.rereadAll()
	}
	kind := "random"
	if big {
		kind = "random-big"
	}
	h.emit(kind)
}

// window takes a short slice of a large version around one of its internal
// boundaries (leaf edge, second-level edge, tree/tail edge).
func (h *hist) window(t int) {
	n := h.vers[t].n
	r := h.c.Rand
	edges := []int{32, 1024, 32768, (n - 1) &^ 31, n, n / 2 &^ 31, 1056, 32800}
	e := edges[r.Intn(len(edges))]
	a, b := e-1-r.Intn(40), e+r.Intn(40)
	if a < 0 {
		a = 0
	}
	if b > n {
		b = n
	}
	if b < 0 {
		b = 0
	}
	if a > b {
		a = b
	}
	h.sub(t, a, b)
}

// sweep: every operation once on a vector of exactly length n, then all versions again.
func sweep(c *reg.Ctx, n int, big bool) {
	h := newHist(c)
	h.bigReads = 1
	t := 0
	if n > 0 {
		h.conjRange(0, n)
		t = 1
	}
	h.conj(t)
	h.pop(t)
	h.assoc(t, n)
	h.assoc(t, n+1)
	h.assoc(t, -1)
	for _, i := range []int{0, n - 1, (n - 1) &^ 31, ((n - 1) &^ 31) - 1, n / 2} {
		if i >= 0 && i < n {
			h.assoc(t, i)
			h.index(t, i)
		}
	}
	for _, i := range []int{-1, n, n + 1} {
		h.index(t, i)
		h.vindex(t, i)
	}
	h.vindex(t, -n)
	h.vindex(t, -n-1)
	h.sub(t, 0, n)
	h.sub(t, 0, n+1)
	h.sub(t, -1, n)
	h.sub(t, n, n)
	if n >= 2 {
		h.sub(t, 1, n-1)
		s := len(h.vers) - 1
		// the slice behaves like an array of its own
		h.conj(s)
		h.pop(s)
		h.assoc(s, 0)
		h.assoc(s, n-2)
		h.assoc(s, n-1)
		h.index(s, 0)
		h.index(s, n-3)
		h.index(s, n-2)
		h.index(s, -1)
		h.sub(s, 0, n-2)
		h.vslice(s, 0, n-1)
		h.vslice(s, -1, -2)
		if n >= 4 {
			h.sub(s, 1, n-3)
			h.popN(len(h.vers)-1, n-4)
			h.pop(len(h.vers) - 1)
		}
	}
	h.vslice(t, 0, n)
	h.vslice(t, 0, n+1)
	h.vslice(t, -n, -1)
	h.vassoc(t, n)
	h.vassoc(t, -1)
	h.popN(t, min(n, 33))
	h.conjRange(t, 33)
	h.rereadAll()
	kind := "sweep"
	if big {
		kind = "sweep-big"
		for _, e := range []int{32, 1024, 32768, (n - 1) &^ 31} {
			if e+20 <= n {
				h.sub(t, e-20, e+20)
			}
		}
		h.sub(t, max(0, n-50), n)
	}
	h.emit(kind)
}

// subsubOob: slices of slices with bounds outside the slice (DESIGN section 7 item 3).
func subsubOob(c *reg.Ctx, n int) {
	h := newHist(c)
	r := c.Rand
	h.conjRange(0, n)
	a := r.Intn(n/2 + 1)
	b := a + r.Intn(n-a+1)
	h.sub(1, a, b) // version 2: a slice of length b-a
	m := b - a
	switch r.Intn(4) {
	case 0:
		h.sub(2, 0, m+1+r.Intn(3)) // upper bound beyond the slice
	case 1:
		h.sub(2, -1-r.Intn(2), m) // negative lower bound
	case 2:
		h.sub(2, -1, m+1)
	default:
		h.sub(2, 0, m+1)
		h.sub(2, m, m+1)
	}
	h.rereadAll()
	h.probes(3)
	h.oob = true
	h.emit("subsub")
}

func run(c *reg.Ctx) {
	r := c.Rand
	var jobs, bigJobs []func()
	// 1. fixed: every operation at each boundary length
	sw := boundaries
	if c.Tier == "thorough" {
		sw = nil
		for n := 0; n <= 1100; n++ {
			sw = append(sw, n)
		}
		sw = append(sw, 2080, 2081, 4095, 4096, 4097)
	}
	for _, n := range sw {
		n := n
		jobs = append(jobs, func() { sweep(c, n, false) })
	}
	bigs := []int{32800, 32801}
	if c.Tier == "thorough" {
		bigs = nil
		for n := 32760; n <= 32810; n++ {
			bigs = append(bigs, n)
		}
		bigs = append(bigs, 32832, 32833, 33824, 33825, 65535, 65536, 65537)
	}
	for _, n := range bigs {
		n := n
		bigJobs = append(bigJobs, func() { sweep(c, n, true) })
	}
	// 2. the recorded defect class: slices of slices with bounds outside the slice
	for i := 0; i < 6+c.N/40; i++ {
		jobs = append(jobs, func() { subsubOob(c, 2+r.Intn(90)) })
	}
	// 3. random histories over the version store
	for i := 0; i < c.N; i++ {
		jobs = append(jobs, func() {
			start := boundaries[r.Intn(len(boundaries))]
			if r.Intn(3) == 0 {
				start = r.Intn(140)
			}
			start += r.Intn(5) - 2
			if start < 0 {
				start = 0
			}
			nops := 8 + r.Intn(10)
			if start > 200 {
				nops = 6 + r.Intn(6)
			}
			randomHistory(c, start, nops, false, false)
		})
	}
	nbig := 2 + c.N/200
	for i := 0; i < nbig; i++ {
		bigJobs = append(bigJobs, func() {
			start := bigBoundaries[r.Intn(len(bigBoundaries))] + r.Intn(3) - 1
			randomHistory(c, start, 4+r.Intn(3), false, true)
		})
	}
	// large histories are spread out so that each Coq shard gets at most one
	every := len(jobs)/(len(bigJobs)+1) + 1
	if every < 12 {
		every = 12
	}
	for k, j := range jobs {
		if k%every == 0 && len(bigJobs) > 0 {
			bigJobs[0]()
			bigJobs = bigJobs[1:]
		}
		j()
	}
	for _, j := range bigJobs {
		j()
	}
}
