// Package c41: string and regex builtins (pkg/mods/str, pkg/mods/re) observed
// through eval; every observation is judged in Coq against model/C41.v.
package c41

import (
	"fmt"
	"math/big"
	"regexp"
	"strconv"
	"strings"
	"unicode"
	"unicode/utf8"

	"src.elv.sh/pkg/eval"
	"src.elv.sh/pkg/eval/errs"
	"src.elv.sh/pkg/eval/vals"
	"src.elv.sh/pkg/eval/vars"
	"src.elv.sh/pkg/mods/re"
	"src.elv.sh/pkg/mods/str"
	"src.elv.sh/pkg/parse"
	. "verifharness/coqfmt"
	"verifharness/reg"
)

func init() {
	reg.Register(&reg.Spec{ID: "C41",
		Imports: "From verif Require Import lib.Base model.C41.",
		Judge:   "C41.judge", Shard: 300, Run: run})
}

// ---------------------------------------------------------------- evaluation

type elv struct {
	ev                  *eval.Evaler
	s, a, b, n, l, f, g vars.Var
}

func newElv() *elv {
	e := &elv{ev: eval.NewEvaler()}
	e.ev.AddModule("str", str.Ns)
	e.ev.AddModule("re", re.Ns)
	mk := func() vars.Var { return vars.FromInit("") }
	e.s, e.a, e.b, e.n, e.l, e.f, e.g = mk(), mk(), mk(), mk(), vars.FromInit(vals.EmptyList), mk(), mk()
	e.ev.ExtendGlobal(eval.BuildNs().AddVar("s", e.s).AddVar("a", e.a).AddVar("b", e.b).
		AddVar("n", e.n).AddVar("l", e.l).AddVar("f", e.f).AddVar("g", e.g))
	return e
}

// run evaluates code; returns the output values and an error kind
// ("" | OutOfRange | BadValue | Panic | Other:<type>).
func (e *elv) run(code string) (out []any, kind string, msg string) {
	port, collect, err := eval.ValueCapturePort()
	if err != nil {
		return nil, "Other:port", err.Error()
	}
	func() {
		defer func() {
			if r := recover(); r != nil {
				kind, msg = "Panic", fmt.Sprint(r)
			}
		}()
		xerr := e.ev.Eval(parse.Source{Name: "c41", Code: "use str; use re; " + code},
			eval.EvalCfg{Ports: []*eval.Port{eval.DummyInputPort, port, eval.DummyOutputPort}})
		if xerr != nil {
			msg = xerr.Error()
			switch r := eval.Reason(xerr).(type) {
			case errs.OutOfRange:
				kind = "OutOfRange"
			case errs.BadValue, *errs.BadValue:
				kind = "BadValue"
			default:
				kind = fmt.Sprintf("Other:%T", r)
			}
		}
	}()
	out = collect()
	return
}

func strs(vs []any) ([]string, bool) {
	r := make([]string, len(vs))
	for i, v := range vs {
		s, ok := v.(string)
		if !ok {
			return nil, false
		}
		r[i] = s
	}
	return r, true
}

// resOf renders an observed (single string | error) as a Coq res.
func resOf(out []any, kind string) string {
	switch {
	case kind == "OutOfRange":
		return "ROutOfRange"
	case kind == "BadValue":
		return "RBadValue"
	case kind == "Panic":
		return "RPanic"
	case kind != "":
		return "ROther"
	}
	if len(out) == 1 {
		if s, ok := out[0].(string); ok {
			return App("ROk", Str(s))
		}
	}
	return "ROther"
}

func strList(ss []string) string {
	items := make([]string, len(ss))
	for i, s := range ss {
		items[i] = Str(s)
	}
	if len(items) == 0 {
		return "(@nil bytes)"
	}
	return List(items)
}

func zList(zs []int64) string {
	items := make([]string, len(zs))
	for i, z := range zs {
		items[i] = Z(z)
	}
	if len(items) == 0 {
		return "(@nil Z)"
	}
	return List(items)
}

type pos struct{ S, E int }

func posList(ps []pos) string {
	items := make([]string, len(ps))
	for i, p := range ps {
		items[i] = Pair(Nat(p.S), Nat(p.E))
	}
	if len(items) == 0 {
		return "(@nil (nat * nat))"
	}
	return List(items)
}

type desc struct {
	Op   string `json:"op"`
	In   string `json:"in"`
	Obs  string `json:"obs"`
	Code string `json:"code,omitempty"`
}

type gen struct {
	c *reg.Ctx
	e *elv
	// via, when set, marks cases that are steps of a str: call sequence
	via string
}

func (g *gen) emit(op, class, coq, in, obs, code string, nontrivial bool) {
	bucket := op + "/" + class
	if g.via != "" {
		bucket = "strseq:" + bucket
		code = g.via + " " + code
	}
	g.c.Count(bucket)
	g.c.Emit(reg.Case{Coq: coq, Desc: desc{op, in, obs, code}, Key: op + "|" + in,
		Nontrivial: nontrivial, Class: class})
}

func (g *gen) direct(op, in, what string) {
	g.c.Count(op + "/harness")
	g.c.Emit(reg.Case{Direct: what, Desc: desc{op, in, what, ""}, Key: op + "|" + in, Class: "harness-" + op})
}

// ---------------------------------------------------------------- generators

var alphabets = [][]string{
	{"a", "b", ","},
	{"a", "b", "c", ",", " ", "é", "中"},
	{"a", ",", ",,", "é", "\xff", "\xe4\xbd", "😀"},
	{"a", "A", " ", "\t", "\n", "\u00a0", "\u2003", "\u3000", "\u0085", "\u1680", "\u2028", "\u200b", "z"},
	{"x", "\x80", "\xc3", "\xc3\xa9", "\xf0\x9f", "\xed\xa0\x80", "\ufffd", "y"},
}

func (g *gen) pick(xs []string) string { return xs[g.c.Rand.Intn(len(xs))] }

func (g *gen) word(al []string, maxLen int) string {
	n := g.c.Rand.Intn(maxLen + 1)
	var sb strings.Builder
	for i := 0; i < n; i++ {
		sb.WriteString(g.pick(al))
	}
	return sb.String()
}

func (g *gen) alphabet() []string { return alphabets[g.c.Rand.Intn(len(alphabets))] }

func (g *gen) max() int {
	switch g.c.Rand.Intn(6) {
	case 0, 1:
		return -1
	case 2:
		return -1 - g.c.Rand.Intn(3)
	default:
		return g.c.Rand.Intn(6)
	}
}

// ---------------------------------------------------------------- str cases

func (g *gen) split(max int, sep, s string) {
	e := g.e
	e.s.Set(s)
	e.a.Set(sep)
	e.n.Set(strconv.Itoa(max))
	in := fmt.Sprintf("max=%d sep=%q s=%q", max, sep, s)
	out, kind, msg := e.run("str:split &max=$n $a $s")
	parts, ok := strs(out)
	if kind != "" || !ok {
		g.direct("split", in, "str:split failed: "+kind+" "+msg)
		return
	}
	jout, jkind, _ := e.run("str:join $a [(str:split &max=$n $a $s)]")
	class := "split"
	if sep == "" {
		class = "split-empty-sep"
	}
	g.emit("split", class, App("CSplit", Z(int64(max)), Str(sep), Str(s), strList(parts), resOf(jout, jkind)),
		in, fmt.Sprintf("%q joined=%q %s", parts, jout, jkind), "str:split &max=$n $a $s", len(s) > 0 && max != 0)
}

func (g *gen) join(sep string, items []any) {
	e := g.e
	e.a.Set(sep)
	e.l.Set(vals.MakeList(items...))
	coqItems := make([]string, len(items))
	for i, it := range items {
		if s, ok := it.(string); ok {
			coqItems[i] = Some(Str(s))
		} else {
			coqItems[i] = "None"
		}
	}
	li := "(@nil (option bytes))"
	if len(coqItems) > 0 {
		li = List(coqItems)
	}
	out, kind, _ := e.run("str:join $a $l")
	in := fmt.Sprintf("sep=%q items=%s", sep, vals.ReprPlain(vals.MakeList(items...)))
	g.emit("join", "join", App("CJoin", Str(sep), li, resOf(out, kind)), in,
		fmt.Sprintf("%q %s", out, kind), "str:join $a $l", len(items) > 1)
}

func (g *gen) replace(max int, old, nw, s string) {
	e := g.e
	e.s.Set(s)
	e.a.Set(old)
	e.b.Set(nw)
	e.n.Set(strconv.Itoa(max))
	in := fmt.Sprintf("max=%d old=%q new=%q s=%q", max, old, nw, s)
	out, kind, msg := e.run("str:replace &max=$n $a $b $s")
	r, ok := strs(out)
	if kind != "" || !ok || len(r) != 1 {
		g.direct("replace", in, "str:replace failed: "+kind+" "+msg)
		return
	}
	class := "replace"
	if old == "" {
		class = "replace-empty-old"
	}
	g.emit("replace", class, App("CReplace", Z(int64(max)), Str(old), Str(nw), Str(s), Str(r[0])),
		in, fmt.Sprintf("%q", r[0]), "str:replace &max=$n $a $b $s", len(s) > 0 && max != 0)
}

var maxInt = big.NewInt(0).SetUint64(1<<63 - 1)

func (g *gen) repeat(s string, n int64) {
	// never ask for a result that is representable but huge
	prod := new(big.Int).Mul(big.NewInt(int64(len(s))), big.NewInt(n))
	class := "repeat"
	if n >= 2 && prod.Cmp(maxInt) > 0 {
		w := int64(uint64(len(s)) * uint64(n))
		if w >= 0 {
			class = "repeat-product-wraps-nonneg"
		} else {
			class = "repeat-product-wraps-negative"
		}
	} else if prod.Cmp(big.NewInt(4096)) > 0 {
		return
	}
	e := g.e
	e.s.Set(s)
	e.n.Set(strconv.FormatInt(n, 10))
	out, kind, msg := e.run("str:repeat $s $n")
	in := fmt.Sprintf("s=%q n=%d", s, n)
	g.emit("repeat", class, App("CRepeat", Str(s), Z(n), resOf(out, kind)), in,
		fmt.Sprintf("%.60q %s %s", out, kind, msg), "str:repeat $s $n", len(s) > 0 && n > 1)
}

func (g *gen) affix(s, p string) {
	e := g.e
	e.s.Set(s)
	e.a.Set(p)
	in := fmt.Sprintf("s=%q p=%q", s, p)
	out, kind, msg := e.run("str:has-prefix $s $a; str:has-suffix $s $a; str:trim-prefix $s $a; str:trim-suffix $s $a; str:index $s $a")
	if kind != "" || len(out) != 5 {
		g.direct("affix", in, "affix builtins failed: "+kind+" "+msg)
		return
	}
	hp, ok1 := out[0].(bool)
	hs, ok2 := out[1].(bool)
	tp, ok3 := out[2].(string)
	ts, ok4 := out[3].(string)
	ix, ok5 := out[4].(int)
	if !(ok1 && ok2 && ok3 && ok4 && ok5) {
		g.direct("affix", in, fmt.Sprintf("unexpected output types %v", out))
		return
	}
	g.emit("affix", "affix", App("CAffix", Str(s), Str(p), Bool(hp), Bool(hs), Str(tp), Str(ts), Z(int64(ix))),
		in, fmt.Sprintf("%v %v %q %q %d", hp, hs, tp, ts, ix), "", len(s) > 0 && len(p) > 0)
}

func (g *gen) trim(s, cut string) {
	e := g.e
	e.s.Set(s)
	e.a.Set(cut)
	in := fmt.Sprintf("s=%q cut=%q", s, cut)
	out, kind, msg := e.run("str:trim-left $s $a; str:trim-right $s $a; str:trim $s $a; str:trim-space $s")
	r, ok := strs(out)
	if kind != "" || !ok || len(r) != 4 {
		g.direct("trim", in, "trim builtins failed: "+kind+" "+msg)
		return
	}
	class := "trim"
	if !utf8.ValidString(s) {
		class = "trim-invalid-utf8"
	}
	g.emit("trim", class, App("CTrim", Str(s), Str(cut), Str(r[0]), Str(r[1]), Str(r[2]), Str(r[3])),
		in, fmt.Sprintf("%q", r), "", len(s) > 0)
}

func table(s string, f func(rune) rune) string {
	var items []string
	seen := map[rune]bool{}
	for _, r := range s {
		if m := f(r); m != r && !seen[r] {
			seen[r] = true
			items = append(items, Pair(N(uint64(r)), N(uint64(m))))
		}
	}
	if len(items) == 0 {
		return "(@nil (N * N))"
	}
	return List(items)
}

func (g *gen) caseConv(s string) {
	e := g.e
	e.s.Set(s)
	in := fmt.Sprintf("s=%q", s)
	out, kind, msg := e.run("str:to-upper $s; str:to-lower $s; str:to-title $s")
	r, ok := strs(out)
	if kind != "" || !ok || len(r) != 3 {
		g.direct("case", in, "case builtins failed: "+kind+" "+msg)
		return
	}
	class := "case"
	if !utf8.ValidString(s) {
		class = "case-invalid-utf8"
	}
	g.emit("case", class, App("CCase", Str(s), table(s, unicode.ToUpper), table(s, unicode.ToLower),
		table(s, unicode.ToTitle), Str(r[0]), Str(r[1]), Str(r[2])), in, fmt.Sprintf("%q", r), "", len(s) > 0)
}

func parseNums(vs []any) ([]int64, bool) {
	r := make([]int64, len(vs))
	for i, v := range vs {
		s, ok := v.(string)
		if !ok {
			return nil, false
		}
		n, err := strconv.ParseInt(s, 0, 64)
		if err != nil {
			return nil, false
		}
		r[i] = n
	}
	return r, true
}

func numList(ns []int64, hexa bool) vals.List {
	items := make([]any, len(ns))
	for i, n := range ns {
		switch {
		case hexa && n >= 0:
			items[i] = "0x" + strconv.FormatInt(n, 16)
		default:
			items[i] = strconv.FormatInt(n, 10)
		}
	}
	return vals.MakeList(items...)
}

func (g *gen) codepoints(s string) {
	e := g.e
	e.s.Set(s)
	in := fmt.Sprintf("s=%q", s)
	out, kind, msg := e.run("str:to-codepoints $s")
	cps, ok := parseNums(out)
	if kind != "" || !ok {
		g.direct("codepoints", in, "str:to-codepoints failed or printed a non-number: "+kind+" "+msg)
		return
	}
	bout, bkind, _ := e.run("str:from-codepoints (str:to-codepoints $s)")
	class := "codepoints"
	if !utf8.ValidString(s) {
		class = "codepoints-invalid-utf8"
	}
	g.emit("codepoints", class, App("CCodepoints", Str(s), zList(cps), resOf(bout, bkind)), in,
		fmt.Sprintf("%v back=%q %s", cps, bout, bkind), "", len(s) > 0)
}

func (g *gen) fromCp(nums []int64) {
	e := g.e
	e.l.Set(numList(nums, g.c.Rand.Intn(2) == 0))
	in := fmt.Sprintf("nums=%v", nums)
	out, kind, _ := e.run("str:from-codepoints $@l")
	var fwd []int64
	if kind == "" {
		fout, fkind, msg := e.run("str:to-codepoints (str:from-codepoints $@l)")
		var ok bool
		fwd, ok = parseNums(fout)
		if fkind != "" || !ok {
			g.direct("from-codepoints", in, "to-codepoints of the result failed: "+fkind+" "+msg)
			return
		}
	}
	class := "from-codepoints"
	for _, n := range nums {
		if n >= 0xD800 && n <= 0xDFFF {
			class = "from-codepoints-surrogate"
		}
	}
	g.emit("from-codepoints", class, App("CFromCp", zList(nums), resOf(out, kind), zList(fwd)), in,
		fmt.Sprintf("%q %s fwd=%v", out, kind, fwd), "", len(nums) > 0)
}

func (g *gen) utf8bytes(s string) {
	e := g.e
	e.s.Set(s)
	in := fmt.Sprintf("s=%q", s)
	out, kind, msg := e.run("str:to-utf8-bytes $s")
	bs, ok := parseNums(out)
	if kind != "" || !ok {
		g.direct("utf8-bytes", in, "str:to-utf8-bytes failed: "+kind+" "+msg)
		return
	}
	bout, bkind, _ := e.run("str:from-utf8-bytes (str:to-utf8-bytes $s)")
	class := "utf8-bytes"
	if !utf8.ValidString(s) {
		class = "utf8-bytes-invalid-utf8"
	}
	g.emit("utf8-bytes", class, App("CBytes", Str(s), zList(bs), resOf(bout, bkind)), in,
		fmt.Sprintf("%v back=%q %s", bs, bout, bkind), "", len(s) > 0)
}

func (g *gen) fromBytes(nums []int64) {
	e := g.e
	e.l.Set(numList(nums, g.c.Rand.Intn(2) == 0))
	in := fmt.Sprintf("nums=%v", nums)
	out, kind, _ := e.run("str:from-utf8-bytes $@l")
	g.emit("from-utf8-bytes", "from-utf8-bytes", App("CFromBytes", zList(nums), resOf(out, kind)), in,
		fmt.Sprintf("%q %s", out, kind), "", len(nums) > 0)
}

// ---------------------------------------------------------------- re cases

type match struct {
	S, E   int
	Text   string
	Groups [][2]int
}

func field(v any, k string) any {
	x, err := vals.Index(v, k)
	if err != nil {
		return nil
	}
	return x
}

// matches converts the values re:find put.
func matches(vs []any) ([]match, bool) {
	ms := make([]match, len(vs))
	for i, v := range vs {
		s, ok1 := field(v, "start").(int)
		e, ok2 := field(v, "end").(int)
		t, ok3 := field(v, "text").(string)
		if !(ok1 && ok2 && ok3) || s < 0 || e < 0 {
			return nil, false
		}
		ms[i] = match{S: s, E: e, Text: t}
		ok := true
		err := vals.Iterate(field(v, "groups"), func(gv any) bool {
			gs, o1 := field(gv, "start").(int)
			ge, o2 := field(gv, "end").(int)
			if !(o1 && o2) {
				ok = false
				return false
			}
			ms[i].Groups = append(ms[i].Groups, [2]int{gs, ge})
			return true
		})
		if err != nil || !ok {
			return nil, false
		}
	}
	return ms, true
}

func positions(ms []match) []pos {
	ps := make([]pos, len(ms))
	for i, m := range ms {
		ps[i] = pos{m.S, m.E}
	}
	return ps
}

func matchList(ms []match) string {
	items := make([]string, len(ms))
	for i, m := range ms {
		gs := make([]string, len(m.Groups))
		for j, g := range m.Groups {
			gs[j] = Pair(Z(int64(g[0])), Z(int64(g[1])))
		}
		gl := "(@nil (Z * Z))"
		if len(gs) > 0 {
			gl = List(gs)
		}
		items[i] = App("mkM", Nat(m.S), Nat(m.E), Str(m.Text), gl)
	}
	if len(items) == 0 {
		return "(@nil rmatch)"
	}
	return List(items)
}

var metas = []string{`\`, ".", "+", "*", "?", "(", ")", "|", "[", "]", "{", "}", "^", "$"}

func (g *gen) quote(s, t string) {
	e := g.e
	e.s.Set(s)
	e.a.Set(t)
	in := fmt.Sprintf("s=%q t=%q", s, t)
	out, kind, msg := e.run("re:quote $s")
	q, ok := strs(out)
	if kind != "" || !ok || len(q) != 1 {
		g.direct("quote", in, "re:quote failed: "+kind+" "+msg)
		return
	}
	fout, fkind, fmsg := e.run("re:find (re:quote $s) $a")
	fnd := "None"
	obs := fkind + " " + fmsg
	if fkind == "" {
		ms, ok := matches(fout)
		if !ok {
			g.direct("quote", in, "re:find put something that is not a match structure")
			return
		}
		fnd = Some(posList(positions(ms)))
		obs = fmt.Sprint(positions(ms))
	}
	class := "quote"
	if !utf8.ValidString(s) {
		class = "quote-invalid-utf8"
	}
	g.emit("quote", class, App("CQuote", Str(s), Str(q[0]), Str(t), fnd), in,
		fmt.Sprintf("q=%q find=%s", q[0], obs), "re:find (re:quote $s) $a", len(s) > 0 && strings.Contains(t, s))
}

// pattern grammar
func (g *gen) atom(depth int) string {
	r := g.c.Rand
	switch r.Intn(12) {
	case 0:
		return "."
	case 1:
		return g.pick([]string{"[ab]", "[^a]", "[a-c]", `\w`, `\s`, `[.$]`})
	case 2:
		return `\` + g.pick(metas)
	case 3:
		if depth > 0 {
			return "(" + g.regex(depth-1) + ")"
		}
	case 4:
		if depth > 0 {
			return "(?:" + g.regex(depth-1) + ")"
		}
	case 5:
		return g.pick([]string{"é", "中", " "})
	}
	return g.pick([]string{"a", "b", "c", "a", "b"})
}

func (g *gen) piece(depth int) string {
	a := g.atom(depth)
	switch g.c.Rand.Intn(10) {
	case 0:
		return a + "*"
	case 1:
		return a + "+"
	case 2:
		return a + "?"
	case 3:
		return a + g.pick([]string{"{1,2}", "*?", "+?", "{2}", "??"})
	}
	return a
}

func (g *gen) seq(depth int) string {
	n := g.c.Rand.Intn(4)
	if g.c.Rand.Intn(8) > 0 && n == 0 {
		n = 1
	}
	var sb strings.Builder
	if g.c.Rand.Intn(12) == 0 {
		sb.WriteString(g.pick([]string{"^", `\b`}))
	}
	for i := 0; i < n; i++ {
		sb.WriteString(g.piece(depth))
	}
	if g.c.Rand.Intn(12) == 0 {
		sb.WriteString(g.pick([]string{"$", `\b`}))
	}
	return sb.String()
}

func (g *gen) regex(depth int) string {
	s := g.seq(depth)
	for g.c.Rand.Intn(5) == 0 {
		s += "|" + g.seq(depth)
	}
	return s
}

// a pattern of the literal fragment: plain characters and escaped metacharacters
func (g *gen) litPattern() string {
	n := g.c.Rand.Intn(4)
	var sb strings.Builder
	for i := 0; i < n; i++ {
		if g.c.Rand.Intn(3) == 0 {
			sb.WriteString(`\` + g.pick(metas))
		} else {
			sb.WriteString(g.pick([]string{"a", "b", "c", "é", " ", "中"}))
		}
	}
	return sb.String()
}

var textAlphabet = []string{"a", "b", "c", "a", "b", ".", "$", " ", "é", "中", "\xff", "(", "*", `\`}

var templates = []string{"$1", "${1}", "$0", "[$0]", "$$", "$", "$x", "${1}x", "$1x", "${", "${}", "${1", "$2-$1",
	"$10", "$01", "<$1$2>", "$$1", "a$", "$-", "${0}${0}", "X", "", "$1234567890", "$_", "${a_1}"}

func (g *gen) regexCase(p, t string, max int, repl, tpl string, longest bool) {
	e := g.e
	e.a.Set(p)
	e.s.Set(t)
	e.n.Set(strconv.Itoa(max))
	e.f.Set(repl)
	e.g.Set(tpl)
	lo := ""
	if longest {
		lo = " &longest=$true"
	}
	in := fmt.Sprintf("p=%q t=%q max=%d repl=%q tpl=%q longest=%v", p, t, max, repl, tpl, longest)
	fout, kind, _ := e.run("re:find" + lo + " $a $s")
	if kind != "" {
		g.c.Count("regex/does-not-compile")
		return
	}
	full, ok := matches(fout)
	if !ok {
		g.direct("regex", in, "re:find put something that is not a match structure")
		return
	}
	mout, k1, _ := e.run("re:find" + lo + " &max=$n $a $s")
	fmax, ok1 := matches(mout)
	sa, k2, _ := e.run("re:split" + lo + " $a $s")
	splitAll, ok2 := strs(sa)
	sm, k3, _ := e.run("re:split" + lo + " &max=$n $a $s")
	splitMax, ok3 := strs(sm)
	rl, k4, _ := e.run("re:replace" + lo + " &literal=$true $a $f $s")
	repLit, ok4 := strs(rl)
	rt, k5, _ := e.run("re:replace" + lo + " $a $g $s")
	repTpl, ok5 := strs(rt)
	if k1+k2+k3+k4+k5 != "" || !(ok1 && ok2 && ok3 && ok4 && ok5) || len(repLit) != 1 || len(repTpl) != 1 {
		g.direct("regex", in, fmt.Sprintf("re builtins failed after re:find succeeded: %q %q %q %q %q", k1, k2, k3, k4, k5))
		return
	}
	class := "regex"
	if isLitPattern(p) {
		class = "regex-literal"
	}
	if len(full) > 0 && full[len(full)-1].S == len(t) {
		class += "-empty-match-at-end"
	}
	g.emit("regex", class, App("CRegex", Str(p), Str(t), Z(int64(max)), Str(repl), Str(tpl),
		matchList(full), posList(positions(fmax)), strList(splitAll), strList(splitMax), Str(repLit[0]), Str(repTpl[0])),
		in, fmt.Sprintf("find=%v findmax=%v split=%q splitmax=%q replit=%q reptpl=%q", positions(full), positions(fmax),
			splitAll, splitMax, repLit[0], repTpl[0]), "", len(full) > 0)
}

func isLitPattern(p string) bool {
	for i := 0; i < len(p); i++ {
		isMeta := strings.ContainsRune(`\.+*?()|[]{}^$`, rune(p[i])) && p[i] < 0x80
		if p[i] == '\\' {
			if i+1 >= len(p) || !strings.ContainsRune(`\.+*?()|[]{}^$`, rune(p[i+1])) || p[i+1] >= 0x80 {
				return false
			}
			i++
		} else if isMeta {
			return false
		}
	}
	return true
}

// ---------------------------------------------------------------- sequences of re: calls

type rcall struct {
	Op      string // find | split | replace-lit | replace-tpl | match
	P, T    string
	Max     int
	Repl    string
	Longest bool
	Posix   bool
}

// freshMatches asks a regexp compiled anew, with exactly the requested flags,
// for all matches (independent of anything pkg/mods/re keeps).
func freshMatches(p string, posix, longest bool, t string) ([]match, bool) {
	var re *regexp.Regexp
	var err error
	if posix {
		re, err = regexp.CompilePOSIX(p)
	} else {
		re, err = regexp.Compile(p)
	}
	if err != nil {
		return nil, false
	}
	if longest {
		re.Longest()
	}
	var ms []match
	for _, ix := range re.FindAllSubmatchIndex([]byte(t), -1) {
		m := match{S: ix[0], E: ix[1], Text: t[ix[0]:ix[1]]}
		for i := 0; i+1 < len(ix); i += 2 {
			m.Groups = append(m.Groups, [2]int{ix[i], ix[i+1]})
		}
		ms = append(ms, m)
	}
	return ms, true
}

var ropName = map[string]string{"find": "OpFind", "split": "OpSplit", "replace-lit": "OpReplaceLit",
	"replace-tpl": "OpReplaceTpl", "match": "OpMatch"}

// reSeq evaluates the calls one after the other on the one Evaler of this
// process and emits the whole sequence as one case.
func (g *gen) reSeq(calls []rcall) {
	e := g.e
	var steps, ins, obss []string
	flagSets := map[string]map[string]bool{}
	anyPosix := false
	for _, c := range calls {
		if c.Op == "match" {
			c.Longest = false // re:match has no such option
		}
		e.a.Set(c.P)
		e.s.Set(c.T)
		e.n.Set(strconv.Itoa(c.Max))
		e.f.Set(c.Repl)
		opts := ""
		if c.Longest {
			opts += " &longest=$true"
		}
		if c.Posix {
			opts += " &posix=$true"
			anyPosix = true
		}
		var code string
		switch c.Op {
		case "find":
			code = "re:find &max=$n" + opts + " $a $s"
		case "split":
			code = "re:split &max=$n" + opts + " $a $s"
		case "replace-lit":
			code = "re:replace &literal=$true" + opts + " $a $f $s"
		case "replace-tpl":
			code = "re:replace" + opts + " $a $f $s"
		default:
			code = "re:match" + opts + " $a $s"
		}
		out, kind, msg := e.run(code)
		obs, obsText := "XOther", kind+" "+msg
		switch {
		case strings.HasPrefix(kind, "Other:*syntax.Error"):
			obs, obsText = "XFail", "does not compile"
		case kind != "":
		case c.Op == "find":
			if ms, ok := matches(out); ok {
				obs, obsText = App("XMatches", matchList(ms)), fmt.Sprint(positions(ms))
			}
		case c.Op == "split":
			if ps, ok := strs(out); ok {
				obs, obsText = App("XPieces", strList(ps)), fmt.Sprintf("%q", ps)
			}
		case c.Op == "match":
			if len(out) == 1 {
				if b, ok := out[0].(bool); ok {
					obs, obsText = App("XBool", Bool(b)), fmt.Sprint(b)
				}
			}
		default:
			if r, ok := strs(out); ok && len(r) == 1 {
				obs, obsText = App("XString", Str(r[0])), fmt.Sprintf("%q", r[0])
			}
		}
		fresh, freshText := "(@None (list rmatch))", "does not compile"
		if ms, ok := freshMatches(c.P, c.Posix, c.Longest, c.T); ok {
			fresh, freshText = Some(matchList(ms)), fmt.Sprint(positions(ms))
		}
		steps = append(steps, App("mkStep",
			App("mkCall", ropName[c.Op], Str(c.P), Str(c.T), Z(int64(c.Max)), Str(c.Repl), Bool(c.Longest), Bool(c.Posix)),
			fresh, obs))
		ins = append(ins, fmt.Sprintf("%s p=%q t=%q max=%d repl=%q longest=%v posix=%v", c.Op, c.P, c.T, c.Max, c.Repl, c.Longest, c.Posix))
		obss = append(obss, fmt.Sprintf("%s (fresh engine: %s)", obsText, freshText))
		if flagSets[c.P] == nil {
			flagSets[c.P] = map[string]bool{}
		}
		flagSets[c.P][fmt.Sprint(c.Longest, c.Posix)] = true
	}
	nontrivial := false
	for _, fs := range flagSets {
		if len(fs) > 1 {
			nontrivial = true
		}
	}
	class := "re-seq"
	if anyPosix {
		class = "re-seq-posix"
	}
	g.emit("re-seq", class, App("CSeq", List(steps)), strings.Join(ins, " ; "), strings.Join(obss, " ; "),
		"one Evaler, calls in this order", nontrivial)
}

// patterns for which leftmost-first and leftmost-longest differ on the subjects below
var seqPatterns = []string{"a|ab", "(a|ab)(c|bcd)", "x*|xy", "a|ab|abc", "(a|ab)(c|bcd)?", "b|bc|bcd", "(?:a|ab)+",
	"a+?", "(a+?)(b*)", "a*?b?", "(a*)(ab)*", "ab|a", "x|xy|xyz", "(x|xy)(y|z)?", "(a|ab)(b*)", "a??b"}
var seqSubjects = []string{"ab", "abcd", "xy", "xxy", "abab", "abcbcd", "aab", "xyz", "abc", "", "aaab", "abbcd xy", "abbb"}

func (g *gen) randomReSeq() {
	r := g.c.Rand
	pool := []string{g.pick(seqPatterns), g.pick(seqPatterns)}
	if r.Intn(3) == 0 {
		pool = append(pool, g.regex(1))
	}
	n := 3 + r.Intn(6)
	calls := make([]rcall, n)
	for i := range calls {
		p := pool[0]
		if r.Intn(5) < 2 {
			p = g.pick(pool)
		}
		t := g.pick(seqSubjects)
		if r.Intn(6) == 0 {
			t = g.word([]string{"a", "b", "c", "d", "x", "y", " "}, 8)
		}
		calls[i] = rcall{Op: g.pick([]string{"find", "find", "split", "replace-lit", "replace-tpl", "match"}),
			P: p, T: t, Max: g.max(), Repl: g.pick([]string{"-", "<$0>", "$1", "[$1|$2]", "", "$$"}),
			Longest: r.Intn(5) < 2, Posix: r.Intn(7) == 0}
	}
	g.reSeq(calls)
}

// a short sequence of str: calls on recurring subjects and separators; every
// step is judged on its own against the model (a function of its arguments)
func (g *gen) randomStrSeq(id int) {
	r := g.c.Rand
	al := g.alphabet()
	subj := []string{g.word(al, 8), g.word(al, 8)}
	sep := []string{g.word(al, 2), g.pick(al)}
	n := 3 + r.Intn(4)
	for i := 0; i < n; i++ {
		g.via = fmt.Sprintf("str-seq %d step %d/%d", id, i+1, n)
		switch r.Intn(5) {
		case 0, 1:
			g.split(g.max(), g.pick(sep), g.pick(subj))
		case 2:
			g.replace(g.max(), g.pick(sep), g.pick(sep), g.pick(subj))
		case 3:
			g.trim(g.pick(subj), g.pick(sep))
		default:
			g.affix(g.pick(subj), g.pick(sep))
		}
	}
	g.via = ""
}

// ---------------------------------------------------------------- driver

func run(c *reg.Ctx) {
	g := &gen{c: c, e: newElv()}
	r := c.Rand

	// ---- fixed and boundary cases
	for _, x := range [][3]string{{",", "a,b,c", ""}, {",", "a,b,", ""}, {",", ",", ""}, {",", "", ""}, {"", "", ""},
		{"", "a中\xffb", ""}, {",,", ",,,", ""}, {"ab", "ababab", ""}, {"aa", "aaaaa", ""}, {"é", "aébé", ""}} {
		for _, m := range []int{-1, 0, 1, 2, 3, 4, 7} {
			g.split(m, x[0], x[1])
			g.replace(m, x[0], "-", x[1])
			g.replace(m, x[0], x[0]+x[0], x[1])
		}
	}
	g.join(",", nil)
	g.join(",", []any{"a"})
	g.join(",", []any{"a", "b", ""})
	g.join("", []any{"a", vals.EmptyList})
	g.join(",", []any{1, "a"})
	g.join(",", []any{"a", nil})
	for _, n := range []int64{-1, 0, 1, 2, 3, 7} {
		for _, s := range []string{"", "a", "ab", "é\xff"} {
			g.repeat(s, n)
		}
	}
	for _, x := range []struct {
		s string
		n int64
	}{{"abcd", 1 << 62}, {"ab", 1 << 62}, {"abc", 1 << 62}, {"abcde", 1 << 62}, {"abcdefgh", 1 << 61}, {"", 1 << 62},
		{"ab", 1<<63 - 1}, {"abc", 1<<63 - 1}, {"abcd", 1 << 61}, {"abcdefghijklmnop", 1 << 60}} {
		g.repeat(x.s, x.n)
	}
	for _, nums := range [][]int64{{}, {0x61}, {0}, {0x7f, 0x80, 0x7ff, 0x800, 0xffff, 0x10000, 0x10ffff}, {0xd7ff}, {0xd800},
		{0xdbff}, {0xdc00}, {0xdfff}, {0xe000}, {0x110000}, {-1}, {0x61, 0xd800}, {0xd800, 0x110000}, {0x110000, 0xd800},
		{0xfffd}, {0x61, -5, 0xdfff}, {1 << 40}} {
		g.fromCp(nums)
	}
	for _, nums := range [][]int64{{}, {0x61}, {0xff}, {256}, {-1}, {0xe4, 0xbd, 0xa0}, {0xe4, 0xbd}, {0xff, 256}, {256, 0xff},
		{0xed, 0xa0, 0x80}, {0xf4, 0x90, 0x80, 0x80}, {0xc0, 0x80}, {0}} {
		g.fromBytes(nums)
	}
	for _, m := range metas {
		g.quote(m, "a"+m+"b"+m+m)
		g.quote("a"+m+"b", "ab a"+m+"b aab abb a\\"+m+"b")
		g.quote(m+"a", "a "+m+"a aa")
	}
	for _, x := range [][2]string{{"", "ab中\xffc"}, {"", ""}, {"a", ""}, {"a.c", "abc a.c"}, {"a{2}", "aa a{2} a{2}"},
		{"[ab]", "a b [ab]"}, {"a|b", "a b a|b"}, {"^a$", "a ^a$"}, {`\d`, `1 \d d`}, {"a\xffb", "a\xffb"}, {"中", "\xe4中\xad"},
		{"aa", "aaaaa"}, {"(a)", "a (a)"}, {"a+", "aa a+"}, {"a*", "a*aa"}, {"a?", "a a?"}} {
		g.quote(x[0], x[1])
	}
	for _, x := range [][2]string{{":", "/usr/sbin:/usr/bin:/bin"}, {":", "a:"}, {":", ":a"}, {":", ":"}, {":", ""}, {"", ""},
		{"", "abc"}, {"", "a中\xffb"}, {"a*", "baaac"}, {"a*", "aaa"}, {"a*", ""}, {"x*", "abc"}, {"b*", "abbb"}, {"$", "ab"},
		{"^", "ab"}, {"(a)|b", "abab"}, {"(a)(b)?", "aab"}, {"a|", "baab"}, {`\b`, "ab cd"}, {"[ ]+", " a  b "}, {"b", "abab"},
		{"ab", "ababab"}, {".", "a中\xff"}, {"(?:)", "ab"}, {"c$", "abc"}, {"c*$", "abcc"}} {
		for _, m := range []int{-1, 0, 1, 2, 3} {
			g.regexCase(x[0], x[1], m, "$1-", g.pick(templates), false)
		}
		g.regexCase(x[0], x[1], 2, "-", "<$0>", true)
	}

	// sequences: the same pattern with and without &longest / &posix, in both orders
	for _, x := range [][2]string{{"a|ab", "ab"}, {"(a|ab)(c|bcd)", "abcd"}, {"x*|xy", "xy"}, {"a+?", "aaa"}} {
		for _, op := range []string{"find", "split", "replace-tpl", "match"} {
			g.reSeq([]rcall{
				{Op: op, P: x[0], T: x[1], Max: -1, Repl: "<$0>"},
				{Op: "find", P: x[0], T: x[1], Max: -1, Longest: true},
				{Op: op, P: x[0], T: x[1], Max: -1, Repl: "<$0>"},
				{Op: "split", P: x[0], T: x[1] + " " + x[1], Max: 2, Posix: true},
				{Op: op, P: x[0], T: x[1] + x[1], Max: -1, Repl: "<$0>"},
				{Op: "replace-lit", P: x[0], T: x[1], Max: -1, Repl: "$1"},
			})
		}
	}

	// ---- random cases, about c.N of them
	for i := 0; i < c.N; i++ {
		al := g.alphabet()
		switch k := r.Intn(112); {
		case k >= 110:
			g.randomStrSeq(i)
		case k >= 100:
			g.randomReSeq()
		case k < 12: // split
			s := g.word(al, 10)
			sep := g.word(al, 2)
			if r.Intn(5) == 0 {
				sep = ""
			}
			g.split(g.max(), sep, s)
		case k < 16: // join
			n := r.Intn(5)
			items := make([]any, n)
			for j := range items {
				items[j] = g.word(al, 3)
			}
			if n > 0 && r.Intn(4) == 0 {
				items[r.Intn(n)] = []any{vals.EmptyList, 1, 2.5, nil, true, vals.EmptyMap}[r.Intn(6)]
			}
			g.join(g.word(al, 2), items)
		case k < 24: // replace
			s := g.word(al, 10)
			old := g.word(al, 2)
			if r.Intn(5) == 0 {
				old = ""
			}
			g.replace(g.max(), old, g.word(al, 2), s)
		case k < 27: // repeat
			g.repeat(g.word(al, 4), int64(r.Intn(9))-1)
		case k < 35: // affix
			s := g.word(al, 8)
			var p string
			switch r.Intn(4) {
			case 0:
				p = s[:r.Intn(len(s)+1)]
			case 1:
				p = s[r.Intn(len(s)+1):]
			case 2:
				a := r.Intn(len(s) + 1)
				p = s[a : a+r.Intn(len(s)-a+1)]
			default:
				p = g.word(al, 3)
			}
			if r.Intn(8) == 0 {
				p += g.pick(al)
			}
			g.affix(s, p)
		case k < 45: // trim
			s := g.word(al, 3) + g.word(alphabets[r.Intn(len(alphabets))], 4) + g.word(al, 3)
			g.trim(s, g.word(al, 3))
		case k < 50: // case conversion
			g.caseConv(g.word([]string{"a", "Z", "ß", "ǅ", "ǆ", "İ", "ı", "ſ", "Σ", "ς", "я", "Ж", "ᾳ", "ﬁ", "1", " ", "\xff", "\xce", "K", "ǈ", "ა", "Ა"}, 8))
		case k < 55: // codepoints round trip
			g.codepoints(g.word(al, 8))
		case k < 60: // from-codepoints
			n := r.Intn(4)
			nums := make([]int64, n)
			for j := range nums {
				switch r.Intn(8) {
				case 0:
					nums[j] = 0xD800 + int64(r.Intn(0x800))
				case 1:
					nums[j] = []int64{-1, 0x110000, 0x10ffff, 0xd7ff, 0xe000, 0xfffd, 0, 0x7f, 0x80, 0x7ff, 0x800, 0xffff, 0x10000, -77, 1 << 33}[r.Intn(15)]
				default:
					nums[j] = int64(r.Intn([]int{0x80, 0x800, 0x10000, 0x110000}[r.Intn(4)]))
				}
			}
			g.fromCp(nums)
		case k < 63: // bytes round trip
			g.utf8bytes(g.word(al, 6))
		case k < 67: // from-utf8-bytes
			var nums []int64
			for _, b := range []byte(g.word(al, 3)) {
				nums = append(nums, int64(b))
			}
			if r.Intn(3) == 0 && len(nums) > 0 {
				nums[r.Intn(len(nums))] = []int64{-1, 256, 255, 0x80, 1000, 0xc3}[r.Intn(6)]
			}
			g.fromBytes(nums)
		case k < 78: // quote
			qa := []string{"a", "b", "a", ".", "*", "+", "?", "(", ")", "[", "]", "{", "}", "^", "$", "|", `\`, "é", "2", ","}
			if r.Intn(6) == 0 {
				qa = append(qa, "\xff", "\xc3")
			}
			s := g.word(qa, 4)
			// the text: the literal, near misses and what the unquoted pattern would match
			var sb strings.Builder
			for j := r.Intn(5); j >= 0; j-- {
				switch r.Intn(5) {
				case 0, 1:
					sb.WriteString(s)
				case 2:
					sb.WriteString(g.word(qa, 3))
				case 3:
					sb.WriteString(strings.NewReplacer(".", "a", "*", "", "+", "", "?", "", "{2}", "", "|", "", "(", "", ")", "", "[", "", "]", "", "^", "", "$", "", `\`, "").Replace(s))
				default:
					sb.WriteString(g.pick([]string{"a", "aa", "b", " "}))
				}
			}
			g.quote(s, sb.String())
		default: // regex find / split / replace
			var p string
			if r.Intn(4) == 0 {
				p = g.litPattern()
			} else {
				p = g.regex(2)
			}
			t := g.word(textAlphabet, 10)
			repl := g.pick([]string{"-", "", "$1", "$0x", "<$$>", "é", "${1}"})
			g.regexCase(p, t, g.max(), repl, g.pick(templates), r.Intn(5) == 0)
		}
	}
}
