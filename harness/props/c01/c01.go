// Package c01: parsing is total and lossless (pkg/parse). The runner dumps what
// parse.Parse returns (tree with kind/range/text/children, errors with
// range/code/partial) for random bytes, grammar-generated programs, byte
// mutations, exhaustive short metacharacter strings and windows of the repo's
// .elv files; the oracle check_C01 and the comparison with the parser model run
// inside Coq.
package c01

import (
	"fmt"
	"math/rand"
	"os"
	"path/filepath"
	"sort"
	"strings"
	"time"
	"unicode"

	"src.elv.sh/pkg/parse"
	. "verifharness/coqfmt"
	"verifharness/reg"
)

func init() {
	reg.Register(&reg.Spec{ID: "C01",
		Imports: "From verif Require Import lib.Base model.C01_Parse model.C01.",
		Judge:   "C01.judge", Shard: 100, Run: run})
}

// CmpLimit is the largest input that is also run through the (quadratic) model.
const CmpLimit = 400

// Kind is the node kind number used by model/C01_Parse.v.
func Kind(n parse.Node) int {
	switch n.(type) {
	case *parse.Chunk:
		return 0
	case *parse.Pipeline:
		return 1
	case *parse.Form:
		return 2
	case *parse.Redir:
		return 3
	case *parse.Compound:
		return 4
	case *parse.Indexing:
		return 5
	case *parse.Array:
		return 6
	case *parse.Primary:
		return 7
	case *parse.MapPair:
		return 8
	case *parse.Sep:
		return 9
	case *parse.Filter:
		return 10
	}
	return 99
}

func attr(n parse.Node) int {
	switch n := n.(type) {
	case *parse.Primary:
		return int(n.Type)
	case *parse.Redir:
		a := int(n.Mode)
		if n.RightIsFd {
			a += 8
		}
		return a
	case *parse.Pipeline:
		if n.Background {
			return 1
		}
	case *parse.Compound:
		return int(n.ExprCtx)
	case *parse.Indexing:
		return int(n.ExprCtx)
	}
	return 0
}

// Stats collects facts about an observed tree.
type Stats struct {
	Nodes         int
	RedirWithLeft bool
	BadRange      bool
	BadParent     bool
}

// Tree prints a node as a Coq term of type C01_Parse.tree.
func Tree(src string, n parse.Node, st *Stats) string {
	st.Nodes++
	r := n.Range()
	if r.From < 0 || r.To < 0 {
		st.BadRange = true
		return "(ET 0 0 0 0 (XS 0 0) [])"
	}
	if rd, ok := n.(*parse.Redir); ok && rd.Left != nil {
		st.RedirWithLeft = true
	}
	var ch []string
	for _, c := range parse.Children(n) {
		if parse.Parent(c) != n {
			st.BadParent = true
		}
		ch = append(ch, Tree(src, c, st))
	}
	// the observed text, written as the source slice it is byte-for-byte equal
	// to when there is one (tried: the node's own range, then any occurrence)
	text := parse.SourceText(n)
	var tx string
	if r.From <= r.To && r.To <= len(src) && src[r.From:r.To] == text {
		tx = App("XS", N(uint64(r.From)), N(uint64(r.To)))
	} else if i := strings.Index(src, text); i >= 0 {
		tx = App("XS", N(uint64(i)), N(uint64(i+len(text))))
	} else {
		tx = App("XB", Str(text))
	}
	return App("ET", N(uint64(Kind(n))), N(uint64(attr(n))), N(uint64(r.From)), N(uint64(r.To)), tx, List(ch))
}

// Errs prints parse errors as a Coq list of C01_Parse.perr.
func Errs(es []*parse.Error) string {
	var items []string
	for _, e := range es {
		f, t := e.Context.From, e.Context.To
		if f < 0 {
			f = 1 << 30 // out of range on purpose: the oracle rejects it
		}
		if t < 0 {
			t = 1 << 30
		}
		items = append(items, App("EE", N(uint64(f)), N(uint64(t)), N(uint64(parse.VerifErrorCode(e.Message))), Bool(e.Partial)))
	}
	return List(items)
}

// ErrsText is a compact rendering for the evidence.
func ErrsText(es []*parse.Error) string {
	var sb strings.Builder
	for _, e := range es {
		fmt.Fprintf(&sb, "[%d,%d)%s#%d ", e.Context.From, e.Context.To, map[bool]string{true: "P", false: ""}[e.Partial],
			parse.VerifErrorCode(e.Message))
	}
	return strings.TrimSpace(sb.String())
}

// PrintTable lists the distinct runes >= 0x80 of s (decoded the way Go ranges
// over a string; invalid bytes give U+FFFD) that unicode.IsPrint accepts.
func PrintTable(s string) string {
	seen := map[rune]bool{}
	var rs []rune
	for _, r := range s {
		if r >= 0x80 && unicode.IsPrint(r) && !seen[r] {
			seen[r] = true
			rs = append(rs, r)
		}
	}
	sort.Slice(rs, func(i, j int) bool { return rs[i] < rs[j] })
	return Runes(rs)
}

type result struct {
	tree  parse.Tree
	errs  []*parse.Error
	panic string
}

// SafeParse runs parse.Parse recovering panics, with a timeout.
func SafeParse(s string) (parse.Tree, []*parse.Error, string) {
	ch := make(chan result, 1)
	go func() {
		var res result
		defer func() {
			if r := recover(); r != nil {
				res.panic = fmt.Sprintf("panic: %v", r)
			}
			ch <- res
		}()
		t, err := parse.Parse(parse.Source{Name: "x", Code: s}, parse.Config{})
		res.tree, res.errs = t, parse.UnpackErrors(err)
	}()
	select {
	case r := <-ch:
		return r.tree, r.errs, r.panic
	case <-time.After(10 * time.Second):
		return parse.Tree{}, nil, "timeout: parse.Parse did not return within 10 s"
	}
}

type desc struct {
	Src    string `json:"src"`
	Stream string `json:"stream"`
	Nodes  int    `json:"nodes"`
	Errors string `json:"errors"`
}

type runner struct {
	c    *reg.Ctx
	seen map[string]bool
	dead bool // a parse did not return: its goroutine still spins, stop generating
}

func (rn *runner) emit(stream, s string) {
	if rn.seen[s] || rn.dead {
		return
	}
	rn.seen[s] = true
	c := rn.c
	tree, errs, bad := SafeParse(s)
	if bad != "" {
		if strings.HasPrefix(bad, "timeout") {
			rn.dead = true
		}
		c.Count("crash")
		c.Emit(reg.Case{Desc: desc{Src: s, Stream: stream}, Key: fmt.Sprintf("%q", s), Nontrivial: true,
			Class: "crash", Direct: bad})
		return
	}
	var st Stats
	tt := Tree(s, tree.Root, &st)
	if st.BadRange || st.BadParent {
		what := "a node has a negative range"
		if st.BadParent {
			what = "parse.Parent of a child is not the node that lists it in parse.Children"
		}
		c.Emit(reg.Case{Desc: desc{Src: s, Stream: stream}, Key: fmt.Sprintf("%q", s), Nontrivial: true,
			Class: stream, Direct: what})
		return
	}
	cmp := len(s) <= CmpLimit
	d := desc{Src: s, Stream: stream, Nodes: st.Nodes, Errors: ErrsText(errs)}
	nt := len(s) >= 3 && st.Nodes > 6
	c.Count(stream)
	// inputs with a Redir that has a left operand keep their own narrow class
	// (the class of the repaired defect checks/C01.fixes/redir-with-left.diff)
	class := stream
	if st.RedirWithLeft {
		c.Count("redir-with-left")
		class = "redir-with-left"
	}
	c.Emit(reg.Case{Coq: App("mkCase", Str(s), tt, Errs(errs), PrintTable(s), Bool(cmp)), Desc: d,
		Key: fmt.Sprintf("%q", s), Nontrivial: nt, Class: class})
}

// Fixed is a hand-written list covering every construct and error path.
var Fixed = []string{"", " ", "\n", ")", "a)", "echo a 2>b", "echo 2>&1", "echo >>a <b <>c", "echo >", "echo >&",
	"echo <<<a", "echo ><a", "a|b", "a |", "a | \n b", "a&", "a & b", "a &\n", "~", "~/a ~b", "a~ ~~", "a[0][1 2]", "a[", "a[]", "a[ ]x",
	"a[\n1\n]", "$x", "$", "$@", "$@x", "$'a'", "$\"a\"", "$x[0]", "$x:y~z", "$-", "$*", "$)", "'a''b'", "'a", "''", "'''",
	"\"a\\n\\x41\\u00e9\\U0001F600\\101\"", "\"\\777\"", "\"\\400\"", "\"\\377\"", "\"\\x4", "\"\\x4g\"", "\"\\c", "\"\\c@\\^?\"",
	"\"\\c\xff\"", "\"\\q\"", "\"\\", "\"\\1", "\"\\18\"", "\"\\u12", "\"", "*", "**", "?", "??", "a*b?c", "?(a)", "?(", "?()", "(a)",
	"(", "()", "(a;b\nc)", "[a b]", "[]", "[&]", "[&k=v]", "[&k=v a]", "[a &k=v]", "[&k]", "[& ]", "[&\n]", "[a", "[a\nb]", "{a,b}", "{a b}",
	"{a,", "{,}", "{a}", "{", "{}", "{ }", "{ a }", "{|x| a }", "{|x &k=v| a}", "{|x", "{|", "{|x|", "{ a", "{\na\n}", "{;a}", "{\ra}",
	"a &k=v", "a &k", "a &=v", "a &k=", "a &k= v", "a &k=\nv", "a # c\nb", "#", "# c", "a ^\nb", "a ^\r\nb", "a ^\rb", "a ^", "a^b", "a ^b",
	"^", "^\n", "a;b;;c", "a\r\nb", "\r", ";", "é", "echo é中", "\xff", "a\xffb", "\xe4\xb8", "\xe4\xb8\xad", "$\xff", "$\xe4\xb8",
	"'\xff'", "\"\\x\xff\"", "\"\\\xff\"", "echo \xc0\x80", "echo \xed\xa0\x80", "\xf4\x90\x80\x80", "a \u00a0b", "a\u200bb", "&", "&a", "a=b",
	"a = b", "x[a]=b", "%", "<", ">", "a<b", "a <b", "a< b", "2>a", "a 2 >b", "a 2> b", "a b>c", "a 'x'>c", "a $x>c", "a (b)>c", "a 2>&", "a 2>& 1",
	"a >(b)", "a ~>b", "{a}{b}", "a{b,c}d", "a{b, c ,d}", "a{b\nc}", "a'b'\"c\"$d", "a,b", "a ,b", "[a,b]", "{a=b}", "a]", "a}", "a|", "|a",
	"a||b", "a|&", "a ; | b", "fn f {|a b &c=d| put $a[0] $@b | each {|x| echo $x } }\nf 1 2 &c=[&k=v] 2>&1 >out &",
	"if (eq $x 'a''b') {\n  echo \"t\\t\\x41\" ~/x *.go ?(fail)\n} else {\n  nop # done\n}", "echo hi 2>&1 >out", "echo a 1>b 2>c d",
	"var x = [a b]; put $x[0][1..] {a,b}{c,d}", "put [&a=[&b=c]][a][b] ^\n  more"}

// Alphabet of metacharacters for the exhaustive short strings and mutations.
var Alphabet = []string{"a", " ", "\n", "'", "\"", "$", "(", ")", "[", "]", "{", "}", "|", "&", "<", ">", "~", "^", "#", ",",
	"=", ";", "\\", "*", "?"}

var badUTF8 = []string{"\xff", "\xc0\x80", "\xe4\xb8", "\xed\xa0\x80", "\xf4\x90\x80\x80", "\x80", "\xc3", "\xf0\x9f\x98"}

// ---- grammar generator (also used by C02) ----

type gen struct {
	r *rand.Rand
}

func (g *gen) pick(xs ...string) string { return xs[g.r.Intn(len(xs))] }

func (g *gen) word() string {
	return g.pick("a", "b", "echo", "put", "x", "foo", "e:ls", "a-b", "a_b", "1", "42", "./x", "a/b", "é", "中", "a.b", "x%", "+", "!")
}

func (g *gen) sq() string {
	return "'" + g.pick("", "a", "a b", "it''s", "x\ny", "é", "$x", "}", "\\") + "'"
}

// Escape returns one double-quote escape sequence with a value drawn from the
// whole range of its form (valid for the parser: every \x, \u, \U value, octal
// up to \377, control characters \c? and \^? with ? in 0x3F..0x5F).
func Escape(r *rand.Rand) string {
	hex := func(n int, v uint32) string { return fmt.Sprintf("%0*X", n, v) }
	switch r.Intn(9) {
	case 0:
		return `\x` + hex(2, uint32(r.Intn(256)))
	case 1:
		return `\u` + hex(4, uint32(r.Intn(0x10000)))
	case 2: // any value, incl. the planes whose proper hex prefixes are surrogates
		return `\U` + hex(8, uint32(r.Intn(0x110000)))
	case 3: // U+D8000..U+DFFFF: the first 7 digits read as a surrogate
		return `\U` + hex(8, 0xD8000+uint32(r.Intn(0x8000)))
	case 4: // boundary values
		return []string{`\U0010FFFF`, `\U000D8000`, `\U000DFFFF`, `\U000D7FF0`, `\U000E0000`, `\uD7FF`, `\uE000`,
			`\uFFFF`, `\u0000`, `\U00000000`, `\xFF`, `\x00`, `\x7f`, `\udabc`, `\U000dbcde`}[r.Intn(15)]
	case 5:
		return fmt.Sprintf(`\%03o`, r.Intn(256))
	case 6:
		return `\c` + string(rune(0x3F+r.Intn(0x21)))
	case 7:
		return `\^` + string(rune(0x3F+r.Intn(0x21)))
	default:
		return []string{`\n`, `\t`, `\\`, `\"`, `\e`, `\a`, `\b`, `\f`, `\r`, `\v`}[r.Intn(10)]
	}
}

func (g *gen) dq() string {
	var sb strings.Builder
	sb.WriteByte('"')
	for i := g.r.Intn(4); i > 0; i-- {
		if g.r.Intn(2) == 0 {
			sb.WriteString(Escape(g.r))
			continue
		}
		sb.WriteString(g.pick("a", " ", `\n`, `\t`, `\\`, `\"`, `\e`, `\x41`, `\u00e9`, `\U0001F600`, `\101`, `\c@`, `\^?`,
			`\^[`, "é", "'", "$x", "{"))
	}
	sb.WriteByte('"')
	return sb.String()
}

func (g *gen) variable() string {
	return g.pick("$x", "$@x", "$x:y", "$a-b", "$e~", "$'q r'", "$\"d\"", "$é", "$_", "$1")
}

func (g *gen) primary(d int) string {
	k := g.r.Intn(17)
	if d <= 0 && k >= 9 {
		k = g.r.Intn(9)
	}
	switch k {
	case 0, 1, 2:
		return g.word()
	case 3:
		return g.sq()
	case 4:
		return g.dq()
	case 5, 6:
		return g.variable()
	case 7:
		return g.pick("*", "**", "?", "*.go", "a*", "a?b")
	case 8:
		return g.pick("~", "~/x", "~a")
	case 9:
		return "(" + g.chunk(d-1, false) + ")"
	case 10:
		return "?(" + g.chunk(d-1, false) + ")"
	case 11: // list
		var items []string
		for i := g.r.Intn(3); i > 0; i-- {
			items = append(items, g.compound(d-1))
		}
		return "[" + g.sp0() + strings.Join(items, g.spnl()) + g.sp0() + "]"
	case 12: // map
		if g.r.Intn(4) == 0 {
			return "[&]"
		}
		var items []string
		for i := 1 + g.r.Intn(2); i > 0; i-- {
			items = append(items, "&"+g.word()+"="+g.compound(d-1))
		}
		return "[" + strings.Join(items, g.spnl()) + "]"
	case 13: // lambda
		return "{" + g.pick(" ", "\n", " \n ") + g.chunk(d-1, false) + g.pick(" ", "\n", "") + "}"
	case 14: // lambda with parameters
		var ps []string
		for i := g.r.Intn(3); i > 0; i-- {
			ps = append(ps, g.pick("a", "b", "@r", "&o=v", "&k=[x]"))
		}
		return "{|" + strings.Join(ps, " ") + "|" + g.pick(" ", "\n") + g.chunk(d-1, false) + g.pick(" ", "") + "}"
	case 15: // braced
		var items []string
		for i := 1 + g.r.Intn(3); i > 0; i-- {
			items = append(items, g.pick(g.word(), "", g.sq(), g.word()+g.word()))
		}
		return "{" + strings.Join(items, g.pick(",", ", ", " ,")) + "}"
	default: // indexing
		return g.pick(g.variable(), g.word(), "[a b]") + "[" + g.pick("0", "1..", "a b", "$i", "(x)", " 0 ") + "]" + g.pick("", "[k]")
	}
}

func (g *gen) compound(d int) string {
	s := g.primary(d)
	if g.r.Intn(5) == 0 {
		s += g.primary(d - 1)
	}
	return s
}

func (g *gen) sp() string   { return g.pick(" ", " ", " ", "  ", "\t", " ^\n ", " ^\r\n") }
func (g *gen) sp0() string  { return g.pick("", "", " ", "\n") }
func (g *gen) spnl() string { return g.pick(" ", " ", "\n", " \n ") }

func (g *gen) redir() string {
	return g.pick(">f", "2>f", "<f", ">>f", "<>f", "2>&1", ">&2", "> f", "2> 'q'", "1>&-", "$fd>f", ">(x)", "<$f")
}

func (g *gen) form(d int) string {
	head := g.pick(g.word(), g.word(), g.word(), g.compound(d), "a*b", "x=y", "<", "a>b")
	parts := []string{head}
	for i := g.r.Intn(4); i > 0; i-- {
		switch g.r.Intn(8) {
		case 0:
			parts = append(parts, "&"+g.word()+"="+g.compound(d-1))
		case 1:
			parts = append(parts, g.redir())
		case 2:
			parts = append(parts, g.pick("=", "a=b", "a,b", "-x", "--long=v"))
		default:
			parts = append(parts, g.compound(d))
		}
	}
	var sb strings.Builder
	for i, p := range parts {
		if i > 0 {
			sb.WriteString(g.sp())
		}
		sb.WriteString(p)
	}
	return sb.String()
}

func (g *gen) pipeline(d int) string {
	s := g.form(d)
	for i := 0; i < 2 && g.r.Intn(4) == 0; i++ {
		s += g.pick("|", " | ", " |\n ", "| ") + g.form(d)
	}
	if g.r.Intn(12) == 0 {
		s += g.pick("&", " &", " & ")
	}
	return s
}

func (g *gen) chunk(d int, top bool) string {
	var sb strings.Builder
	if g.r.Intn(8) == 0 {
		sb.WriteString(g.pick(" ", "\n", "# c\n", ";"))
	}
	k := 1 + g.r.Intn(2)
	if top {
		k = 1 + g.r.Intn(3)
	}
	for i := 0; i < k; i++ {
		if i > 0 {
			sb.WriteString(g.pick(";", "; ", "\n", "\n\n", " # c\n", "\r\n"))
		}
		sb.WriteString(g.pipeline(d))
	}
	if g.r.Intn(8) == 0 {
		sb.WriteString(g.pick(" ", "\n", " # c", ";"))
	}
	return sb.String()
}

// GenProgram returns a mostly valid program.
func GenProgram(r *rand.Rand, depth int) string {
	g := &gen{r}
	return g.chunk(depth, true)
}

// Mutate applies 1-3 byte-level mutations.
func Mutate(r *rand.Rand, s string) string {
	b := []byte(s)
	for k := 1 + r.Intn(3); k > 0; k-- {
		i := 0
		if len(b) > 0 {
			i = r.Intn(len(b) + 1)
		}
		switch r.Intn(7) {
		case 0: // truncate
			b = b[:i]
		case 1: // delete
			if i < len(b) {
				b = append(b[:i:i], b[i+1:]...)
			}
		case 2, 3: // insert metacharacter
			m := Alphabet[r.Intn(len(Alphabet))]
			b = append(b[:i:i], append([]byte(m), b[i:]...)...)
		case 4: // insert invalid UTF-8
			m := badUTF8[r.Intn(len(badUTF8))]
			b = append(b[:i:i], append([]byte(m), b[i:]...)...)
		case 5: // duplicate a byte
			if i < len(b) {
				b = append(b[:i:i], append([]byte{b[i]}, b[i:]...)...)
			}
		case 6: // swap
			if i+1 < len(b) {
				b[i], b[i+1] = b[i+1], b[i]
			}
		}
	}
	return string(b)
}

var biased = []byte(" \n\t'\"$()[]{}|&<>~^#,=;\\*?aaab01-_:@%+!./\r\xff\xc3\xa9\xe4\xb8\xad\x80")

func randomBytes(r *rand.Rand) string {
	n := r.Intn(25)
	b := make([]byte, n)
	uniform := r.Intn(2) == 0
	for i := range b {
		if uniform {
			b[i] = byte(r.Intn(256))
		} else {
			b[i] = biased[r.Intn(len(biased))]
		}
	}
	return string(b)
}

// ElvFiles returns the contents of the .elv files of the repository under test.
func ElvFiles() []string {
	root := os.Getenv("VERIF_REPO")
	if root == "" {
		root = "/repo"
	}
	var out []string
	filepath.Walk(root, func(p string, info os.FileInfo, err error) error {
		if err != nil {
			return nil
		}
		if info.IsDir() && (info.Name() == ".git" || info.Name() == "node_modules") {
			return filepath.SkipDir
		}
		if !info.IsDir() && strings.HasSuffix(p, ".elv") {
			if b, err := os.ReadFile(p); err == nil {
				out = append(out, string(b))
			}
		}
		return nil
	})
	sort.Strings(out)
	return out
}

func run(c *reg.Ctx) {
	rn := &runner{c: c, seen: map[string]bool{}}
	r := c.Rand
	thorough := c.Tier == "thorough"
	// 0. corpus of minimised failures
	for _, b := range c.Corpus {
		rn.emit("corpus", string(b))
	}
	// 1. fixed
	for _, s := range Fixed {
		rn.emit("fixed", s)
	}
	// 2. exhaustive short strings over the metacharacter alphabet (thorough:
	// all of length <= 3; quick: length 1 and a random sample of length 2-3)
	for _, a := range Alphabet {
		rn.emit("exhaustive-3", a)
		if thorough {
			for _, b := range Alphabet {
				rn.emit("exhaustive-3", a+b)
				for _, d := range Alphabet {
					rn.emit("exhaustive-3", a+b+d)
				}
			}
		}
	}
	if !thorough {
		pick := func() string { return Alphabet[r.Intn(len(Alphabet))] }
		for i := 0; i < 120; i++ {
			rn.emit("exhaustive-3", pick()+pick())
			rn.emit("exhaustive-3", pick()+pick()+pick())
		}
	}
	// 6. windows of the repo's .elv files
	files := ElvFiles()
	if len(files) > 0 {
		nw, whole := 20, 2
		if thorough {
			nw, whole = 3000, len(files)
		}
		for i := 0; i < nw; i++ {
			f := files[r.Intn(len(files))]
			if len(f) == 0 {
				continue
			}
			a := r.Intn(len(f))
			if r.Intn(2) == 0 {
				a = 0 // a prefix
			}
			b := a + r.Intn(300)
			if b > len(f) {
				b = len(f)
			}
			rn.emit("elv-window", f[a:b])
		}
		for i := 0; i < whole; i++ {
			f := files[i%len(files)]
			if !thorough {
				f = files[r.Intn(len(files))]
				if len(f) > 3000 {
					f = f[:3000]
				}
			}
			rn.emit("elv-file", f)
		}
	}
	// 3-5. random streams
	for i := 0; i < c.N; i++ {
		switch k := r.Intn(10); {
		case k < 4:
			s := GenProgram(r, 2)
			if len(s) > 70 {
				s = GenProgram(r, 1)
			}
			rn.emit("grammar", s)
		case k < 8:
			s := GenProgram(r, 2)
			if len(s) > 60 {
				s = GenProgram(r, 1)
			}
			rn.emit("mutation", Mutate(r, s))
		default:
			rn.emit("random-bytes", randomBytes(r))
		}
	}
}
