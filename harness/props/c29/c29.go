// Package c29: history navigation (pkg/cli/histutil) through
// histutil.NewHybridStore over a real store on a temporary database, with a
// second store handle on the same database playing the other sessions.
package c29

import (
	"crypto/sha1"
	"fmt"
	"os"
	"path/filepath"
	"strings"
	"time"

	bolt "go.etcd.io/bbolt"
	"src.elv.sh/pkg/cli/histutil"
	"src.elv.sh/pkg/store"
	"src.elv.sh/pkg/store/storedefs"
	. "verifharness/coqfmt"
	"verifharness/reg"
)

func init() {
	reg.Register(&reg.Spec{ID: "C29",
		Imports: "From verif Require Import lib.Base model.C24_F64 model.C24_StoreSpec model.C29.",
		Judge:   "C29.judge", Shard: 20, Run: run})
}

type desc struct {
	Class   string   `json:"class"`
	Pre     []string `json:"pre"`
	Mid     []string `json:"mid"`
	Prefix  string   `json:"prefix"`
	Dedup   bool     `json:"dedup"`
	Walk    []string `json:"walk"`
	Stored  []string `json:"stored"`
	Session []string `json:"session"`
}

// few distinct texts with shared prefixes, so that both prefix filtering and
// de-duplication matter
var words = []string{"echo", "echo a", "echo b", "ls", "ls -l", "e", "", "l", "put é", "\xff\x00", "echo a"}
var prefixes = []string{"", "", "e", "ec", "echo", "echo ", "echo a", "l", "ls", "x", "p", "\xff"}

func word(c *reg.Ctx) string { return words[c.Rand.Intn(len(words))] }

func coqH(t string, s int) string { return Pair(Str(t), Z(int64(s))) }

func runCase(c *reg.Ctx, idx int, dir string) (rc reg.Case) {
	path := filepath.Join(dir, fmt.Sprintf("c29-%d-%d.db", os.Getpid(), idx))
	os.Remove(path)
	defer os.Remove(path)
	db, err := bolt.Open(path, 0644, &bolt.Options{Timeout: time.Second})
	if err != nil {
		panic(err)
	}
	defer db.Close()
	mine, err := store.NewStoreFromDB(db) // this session's handle
	if err != nil {
		panic(err)
	}
	other, err := store.NewStoreFromDB(db) // the other sessions' handle
	if err != nil {
		panic(err)
	}
	var d desc
	defer func() {
		if r := recover(); r != nil {
			rc = reg.Case{Class: d.Class, Direct: fmt.Sprintf("panic during history walk: %v", r), Desc: d,
				Key: fmt.Sprintf("panic-%d", idx)}
		}
	}()

	// 1. stored history before the session: additions and deletions
	var pre []string
	type ent struct {
		t string
		s int
	}
	var stored []ent
	nPre := c.Rand.Intn(30)
	switch c.Rand.Intn(8) {
	case 0:
		nPre = 0
	case 1:
		nPre = 40 + c.Rand.Intn(40)
	}
	for i := 0; i < nPre; i++ {
		if len(stored) > 0 && c.Rand.Intn(6) == 0 {
			j := c.Rand.Intn(len(stored))
			if err := other.DelCmd(stored[j].s); err != nil {
				panic(err)
			}
			pre = append(pre, App("ODelCmd", Z(int64(stored[j].s))))
			d.Pre = append(d.Pre, fmt.Sprintf("del %d", stored[j].s))
			stored = append(stored[:j], stored[j+1:]...)
			continue
		}
		t := word(c)
		s, err := other.AddCmd(t)
		if err != nil {
			panic(err)
		}
		stored = append(stored, ent{t, s})
		pre = append(pre, App("OAddCmd", Str(t)))
		d.Pre = append(d.Pre, fmt.Sprintf("add %q=%d", t, s))
	}

	// 2. the session starts
	hs, err := histutil.NewHybridStore(mine)
	if err != nil {
		panic(err)
	}
	var session []ent
	concurrent := false
	events := func(n int, pOther int) (string, []string) {
		var evs, ds []string
		for i := 0; i < n; i++ {
			t := word(c)
			if c.Rand.Intn(100) < pOther {
				if _, err := other.AddCmd(t); err != nil {
					panic(err)
				}
				concurrent = true
				evs = append(evs, App("EOther", Str(t)))
				ds = append(ds, fmt.Sprintf("other %q", t))
			} else {
				s, err := hs.AddCmd(storedefs.Cmd{Text: t, Seq: -1})
				if err != nil {
					panic(err)
				}
				session = append(session, ent{t, s})
				evs = append(evs, App("ESess", Str(t)))
				ds = append(ds, fmt.Sprintf("session %q=%d", t, s))
			}
		}
		return List(evs), ds
	}
	nMid := c.Rand.Intn(12)
	if c.Rand.Intn(5) == 0 {
		nMid = 0
	}
	mid, midDesc := events(nMid, 40)
	d.Mid = midDesc
	view := len(session)

	// 3. the cursor
	p := prefixes[c.Rand.Intn(len(prefixes))]
	dedup := c.Rand.Intn(2) == 0
	cur := hs.Cursor(p)
	if dedup {
		cur = histutil.NewDedupCursor(cur)
	}
	d.Prefix, d.Dedup = p, dedup

	// 4. the walk
	var walk []string
	observe := func(evs string, ds []string, mv string) {
		var o, od string
		cmd, err := cur.Get()
		switch {
		case err == nil:
			o, od = App("OCmd", coqH(cmd.Text, cmd.Seq)), fmt.Sprintf("%q@%d", cmd.Text, cmd.Seq)
		case err == histutil.ErrEndOfHistory:
			o, od = "OEnd", "end"
		default:
			panic(fmt.Sprintf("unexpected cursor error %v", err))
		}
		walk = append(walk, Pair(Pair(evs, mv), o))
		if len(ds) > 0 {
			d.Walk = append(d.Walk, "["+strings.Join(ds, ", ")+"]")
		}
		d.Walk = append(d.Walk, mv[1:]+"="+od)
	}
	observe("[]", nil, "MStay")
	steps := 5 + c.Rand.Intn(60)
	bias := 70 // percent Prev
	for i := 0; i < steps; i++ {
		if c.Rand.Intn(12) == 0 {
			bias = []int{95, 70, 50, 30, 5}[c.Rand.Intn(5)]
		}
		evs, ds := "[]", []string(nil)
		if c.Rand.Intn(6) == 0 {
			evs, ds = events(1+c.Rand.Intn(2), 70)
		}
		if c.Rand.Intn(100) < bias {
			cur.Prev()
			observe(evs, ds, "MPrev")
		} else {
			cur.Next()
			observe(evs, ds, "MNext")
		}
	}

	st := make([]string, len(stored))
	for i, e := range stored {
		st[i] = coqH(e.t, e.s)
		d.Stored = append(d.Stored, fmt.Sprintf("%q@%d", e.t, e.s))
	}
	se := make([]string, view)
	for i, e := range session[:view] {
		se[i] = coqH(e.t, e.s)
		d.Session = append(d.Session, fmt.Sprintf("%q@%d", e.t, e.s))
	}
	class := "plain"
	if dedup {
		class = "dedup"
	}
	if concurrent {
		class += "-concurrent"
	}
	switch {
	case len(stored) == 0 && view == 0:
		class += "-empty"
	case len(stored) == 0:
		class += "-session-only"
	case view == 0:
		class += "-stored-only"
	}
	d.Class = class
	matching := 0
	for _, e := range stored {
		if strings.HasPrefix(e.t, p) {
			matching++
		}
	}
	for _, e := range session[:view] {
		if strings.HasPrefix(e.t, p) {
			matching++
		}
	}
	sum := sha1.Sum([]byte(strings.Join(d.Pre, "\n") + "|" + strings.Join(d.Mid, "\n") + "|" + p + "|" + strings.Join(d.Walk, "\n")))
	return reg.Case{
		Coq:  App("mkCase", List(pre), mid, Str(p), Bool(dedup), List(walk), List(st), List(se)),
		Desc: d, Key: fmt.Sprintf("%x-%v", sum[:8], dedup),
		Nontrivial: matching >= 2 && len(walk) >= 6,
		Class:      class,
	}
}

func run(c *reg.Ctx) {
	dir := c.Scratch
	if fi, err := os.Stat("/dev/shm"); err == nil && fi.IsDir() {
		if d, err := os.MkdirTemp("/dev/shm", "verif-c29-"); err == nil {
			dir = d
			defer os.RemoveAll(d)
		}
	}
	for i := 0; i < c.N; i++ {
		rc := runCase(c, i, dir)
		c.Count(rc.Class)
		c.Emit(rc)
	}
}
