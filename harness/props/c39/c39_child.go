package c39

// Child mode: the harness binary (or, in the thorough tier, a copy of it built
// with -race) re-executes itself with VERIF_C39_CHILD=1.  The child reads one
// scenario per line (JSON) from stdin, builds a fresh Evaler, runs the
// scenario's jobs either one after another or concurrently (one goroutine per
// job, released together) on that single Evaler, and answers with one JSON
// line.  A Go "fatal error" (concurrent map writes), a panic on any goroutine
// or a race report (-race child) hits the child only; the parent attributes it
// to the scenario in flight.

import (
	"bufio"
	"encoding/json"
	"fmt"
	"os"
	"regexp"
	"strconv"
	"strings"
	"sync"
	"time"

	"src.elv.sh/pkg/eval"
	"src.elv.sh/pkg/eval/vals"
	"src.elv.sh/pkg/mods"
	"src.elv.sh/pkg/parse"
)

// stmt kinds: decl (var nX = V), set (set nX = V), get (put $nX), use (use module M),
// del (del nX).  Form selects the syntactic form of the constant V (plain,
// pipeline, peach, run-parallel, ...); Slow makes the right-hand side take
// Slow milliseconds.
type stmt struct {
	K    string `json:"k"`
	X    int    `json:"x,omitempty"`
	V    int    `json:"v,omitempty"`
	M    int    `json:"m,omitempty"`
	Form int    `json:"form,omitempty"`
	Slow int    `json:"slow,omitempty"`
}

type job struct {
	Kind string `json:"kind"` // eval | check | call
	P    []stmt `json:"p"`
	// Retry: an eval job is re-submitted while it fails to compile (bounded);
	// used to wait for a name another job declares.
	Retry bool `json:"retry,omitempty"`
}

type scenario struct {
	I       int    `json:"i"`
	Setup   []stmt `json:"setup"`
	Preload []int  `json:"preload"` // file modules imported during setup
	Jobs    []job  `json:"jobs"`
	Serial  bool   `json:"serial"`
	LibDir  string `json:"libdir"`
}

type jobRes struct {
	Err  bool   `json:"err"`           // parse or compilation error
	Exc  string `json:"exc,omitempty"` // exception (none is expected)
	Outs []int  `json:"outs"`          // value outputs, in order
}

type observation struct {
	I     int            `json:"i"`
	Final map[string]int `json:"final"` // variable index -> value (0 = $nil)
	Res   []jobRes       `json:"res"`
	Hang  bool           `json:"hang,omitempty"`
	Bad   string         `json:"bad,omitempty"` // a value that is not a number: reported verbatim
}

func init() {
	if os.Getenv("VERIF_C39_CHILD") == "1" {
		childMain()
		os.Exit(0)
	}
}

const (
	modStr  = 100 // use str   (Go module, registered before any evaluation)
	modMath = 101 // use math
)

func modName(m int) string {
	switch m {
	case modStr:
		return "str"
	case modMath:
		return "math"
	}
	return "m" + strconv.Itoa(m)
}

func constExpr(v, form, slow int) string {
	s := strconv.Itoa(v)
	var e string
	switch form {
	case 1:
		e = "(put " + s + " | each {|v| put $v })"
	case 2:
		e = "(put " + s + " | peach {|v| put $v })"
	case 3:
		e = "(run-parallel { nop } { put " + s + " })"
	case 4:
		e = "(+ (put " + s + " 0 | peach &num-workers=2 {|v| put $v }))"
	case 5:
		e = "(echo " + s + " | each {|l| put $l })"
	case 6:
		e = "(put x y z | peach {|_| nop }; put " + s + ")"
	default:
		e = s
	}
	if slow > 0 {
		e = "(sleep " + strconv.FormatFloat(float64(slow)/1000, 'f', 3, 64) + "; put " + e + ")"
	}
	return e
}

func renderStmt(s stmt) string {
	switch s.K {
	case "decl":
		return fmt.Sprintf("var n%d = %s", s.X, constExpr(s.V, s.Form, s.Slow))
	case "set":
		return fmt.Sprintf("set n%d = %s", s.X, constExpr(s.V, s.Form, s.Slow))
	case "get":
		return fmt.Sprintf("put $n%d", s.X)
	case "use":
		return "use " + modName(s.M)
	case "del":
		return fmt.Sprintf("del n%d", s.X)
	}
	return "nop"
}

func renderProg(p []stmt) string {
	var sb strings.Builder
	for _, s := range p {
		sb.WriteString(renderStmt(s))
		sb.WriteByte('\n')
	}
	return sb.String()
}

func toInt(v any) (int, string) {
	if v == nil {
		return 0, ""
	}
	s := vals.ToString(v)
	n, err := strconv.Atoi(s)
	if err != nil {
		return -1, s
	}
	return n, ""
}

var nameRe = regexp.MustCompile(`^n(\d+)$`)

func runScenario(sc *scenario) *observation {
	ob := &observation{I: sc.I, Final: map[string]int{}, Res: make([]jobRes, len(sc.Jobs))}
	ev := eval.NewEvaler()
	mods.AddTo(ev)
	ev.LibDirs = []string{sc.LibDir}

	// setup: shared variables, preloaded file modules, one closure per call job
	var sb strings.Builder
	sb.WriteString(renderProg(sc.Setup))
	for _, m := range sc.Preload {
		sb.WriteString("use " + modName(m) + "\n")
	}
	for i, j := range sc.Jobs {
		if j.Kind == "call" {
			fmt.Fprintf(&sb, "fn f%d {\n%s}\n", i, renderProg(j.P))
		}
	}
	if err := ev.Eval(parse.Source{Name: "[setup]", Code: sb.String()}, eval.EvalCfg{}); err != nil {
		ob.Bad = "setup failed: " + err.Error()
		return ob
	}
	callees := map[int]eval.Callable{}
	for i, j := range sc.Jobs {
		if j.Kind == "call" {
			if f, ok := ev.Global().IndexString(fmt.Sprintf("f%d~", i)).Get().(eval.Callable); ok {
				callees[i] = f
			}
		}
	}

	var badMu sync.Mutex
	setBad := func(s string) {
		badMu.Lock()
		if ob.Bad == "" {
			ob.Bad = s
		}
		badMu.Unlock()
	}
	runJob := func(i int) {
		j := sc.Jobs[i]
		r := &ob.Res[i]
		r.Outs = []int{}
		collect := func(vs []any) {
			for _, v := range vs {
				n, bad := toInt(v)
				if bad != "" {
					setBad(fmt.Sprintf("job %d output %q", i, bad))
				}
				r.Outs = append(r.Outs, n)
			}
		}
		note := func(err error) {
			if err == nil {
				return
			}
			if parse.UnpackErrors(err) != nil || eval.UnpackCompilationErrors(err) != nil {
				r.Err = true
			} else {
				r.Exc = err.Error()
			}
		}
		switch j.Kind {
		case "eval":
			code := renderProg(j.P)
			for attempt := 0; ; attempt++ {
				port, done, err := eval.ValueCapturePort()
				if err != nil {
					r.Exc = "capture port: " + err.Error()
					return
				}
				r.Err, r.Exc = false, ""
				err = ev.Eval(parse.Source{Name: fmt.Sprintf("[job %d]", i), Code: code},
					eval.EvalCfg{Ports: []*eval.Port{nil, port, nil}})
				vs := done()
				note(err)
				if r.Err && j.Retry && !sc.Serial && attempt < 2000 {
					time.Sleep(200 * time.Microsecond)
					continue
				}
				collect(vs)
				return
			}
		case "check":
			perr, _, cerr := ev.Check(parse.Source{Name: fmt.Sprintf("[job %d]", i), Code: renderProg(j.P)}, nil)
			r.Err = perr != nil || cerr != nil
		case "call":
			f := callees[i]
			if f == nil {
				r.Exc = "no callee"
				return
			}
			port, done, err := eval.ValueCapturePort()
			if err != nil {
				r.Exc = "capture port: " + err.Error()
				return
			}
			err = ev.Call(f, eval.CallCfg{}, eval.EvalCfg{Ports: []*eval.Port{nil, port, nil}})
			vs := done()
			note(err)
			collect(vs)
		}
	}

	if sc.Serial {
		for i := range sc.Jobs {
			runJob(i)
		}
	} else {
		var wg sync.WaitGroup
		start := make(chan struct{})
		for i := range sc.Jobs {
			wg.Add(1)
			go func(i int) {
				defer wg.Done()
				<-start
				runJob(i)
			}(i)
		}
		finished := make(chan struct{})
		go func() { wg.Wait(); close(finished) }()
		close(start)
		select {
		case <-finished:
		case <-time.After(60 * time.Second):
			ob.Hang = true
			ob.Res = nil // still being written by the stuck goroutines
			return ob
		}
	}

	g := ev.Global()
	g.IterateKeysString(func(k string) {
		m := nameRe.FindStringSubmatch(k)
		if m == nil {
			return
		}
		var val any
		if v := g.IndexString(k); v != nil {
			val = v.Get()
		}
		n, bad := toInt(val)
		if bad != "" {
			setBad(fmt.Sprintf("variable %s = %q", k, bad))
		}
		ob.Final[m[1]] = n
	})
	return ob
}

func childMain() {
	in := bufio.NewReaderSize(os.Stdin, 1<<20)
	out := bufio.NewWriter(os.Stdout)
	for {
		line, err := in.ReadBytes('\n')
		if len(line) > 1 {
			var sc scenario
			if json.Unmarshal(line, &sc) != nil {
				fmt.Fprintln(os.Stderr, "C39-child: bad request")
				os.Exit(3)
			}
			ob := runScenario(&sc)
			// marker on stderr: everything the race detector printed for this
			// scenario precedes it
			fmt.Fprintf(os.Stderr, "C39-END %d\n", sc.I)
			b, _ := json.Marshal(ob)
			out.Write(b)
			out.WriteByte('\n')
			out.Flush()
		}
		if err != nil {
			return
		}
	}
}
