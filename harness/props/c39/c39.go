// Package c39: one Evaler used from many goroutines (pkg/eval/eval.go,
// builtin_special.go:use/useFromFile/evalModule, vars/ptr.go, ns.go).
//
// Every case is one scenario: a setup program, then 2..8 jobs (Eval / Check /
// Call) run concurrently on ONE Evaler inside a child process, and - on a
// fresh Evaler - the same jobs run one after another in index order.  The Coq
// side (model/C39.v) judges the concurrent observation with the acceptor
// serial_outcome_ok (it must be the outcome of SOME serial order of the jobs)
// and compares the serial observation with the model executed under the
// serial schedule.  A Go fatal error, a panic, a hang, an unexpected exception
// or (race-built child) a race report is a direct violation.
package c39

import (
	"bufio"
	"bytes"
	"crypto/sha1"
	"encoding/hex"
	"encoding/json"
	"fmt"
	"io"
	"os"
	"os/exec"
	"path/filepath"
	"regexp"
	"sort"
	"strconv"
	"strings"
	"sync"
	"time"

	. "verifharness/coqfmt"
	"verifharness/reg"
)

func init() {
	reg.Register(&reg.Spec{ID: "C39",
		Imports: "From verif Require Import lib.Base model.C39.",
		Judge:   "C39.judge", Shard: 40, Run: run})
}

// ---------------------------------------------------------------- child driver

type lockedBuf struct {
	mu sync.Mutex
	b  bytes.Buffer
}

func (l *lockedBuf) Write(p []byte) (int, error) {
	l.mu.Lock()
	defer l.mu.Unlock()
	if l.b.Len() < 4<<20 {
		l.b.Write(p)
	}
	return len(p), nil
}
func (l *lockedBuf) String() string { l.mu.Lock(); defer l.mu.Unlock(); return l.b.String() }
func (l *lockedBuf) Reset()         { l.mu.Lock(); l.b.Reset(); l.mu.Unlock() }

type driver struct {
	exe    string
	race   bool
	cmd    *exec.Cmd
	in     io.WriteCloser
	lines  chan []byte
	stderr *lockedBuf
	spawns int
}

func (d *driver) start() error {
	cmd := exec.Command(d.exe)
	cmd.Env = append(os.Environ(), "VERIF_C39_CHILD=1", "GOTRACEBACK=single",
		"GORACE=halt_on_error=0 history_size=2")
	stdin, err := cmd.StdinPipe()
	if err != nil {
		return err
	}
	stdout, err := cmd.StdoutPipe()
	if err != nil {
		return err
	}
	d.stderr = &lockedBuf{}
	cmd.Stderr = d.stderr
	if err := cmd.Start(); err != nil {
		return err
	}
	d.cmd, d.in = cmd, stdin
	d.lines = make(chan []byte, 4)
	d.spawns++
	go func(ch chan []byte) {
		r := bufio.NewReaderSize(stdout, 1<<20)
		for {
			line, err := r.ReadBytes('\n')
			if len(line) > 1 {
				ch <- line
			}
			if err != nil {
				close(ch)
				return
			}
		}
	}(d.lines)
	return nil
}

func (d *driver) kill() {
	if d.cmd != nil {
		d.in.Close()
		d.cmd.Process.Kill()
		d.cmd.Wait()
		d.cmd = nil
	}
}

func (d *driver) stop() {
	if d.cmd == nil {
		return
	}
	d.in.Close()
	done := make(chan struct{})
	go func() { d.cmd.Wait(); close(done) }()
	select {
	case <-done:
	case <-time.After(5 * time.Second):
		d.cmd.Process.Kill()
		<-done
	}
	d.cmd = nil
}

var (
	fatalRe = regexp.MustCompile(`(?m)^(fatal error: .*|panic: .*)$`)
	raceRe  = regexp.MustCompile(`WARNING: DATA RACE`)
	frameRe = regexp.MustCompile(`(?m)^\s*(src\.elv\.sh/[^\s(]+(?:\([^)]*\))?[^\s(]*)\(`)
)

// exec1 runs one scenario; returns the observation, or a direct-violation text.
func (d *driver) exec1(sc *scenario) (*observation, string) {
	if d.cmd == nil {
		if err := d.start(); err != nil {
			return nil, "harness: cannot start child: " + err.Error()
		}
	}
	d.stderr.Reset()
	b, _ := json.Marshal(sc)
	if _, err := d.in.Write(append(b, '\n')); err != nil {
		d.kill()
		return nil, "harness: child not accepting input: " + err.Error()
	}
	select {
	case line, ok := <-d.lines:
		if !ok {
			// the child died: Go fatal error or panic
			d.cmd.Wait()
			d.cmd = nil
			text := d.stderr.String()
			what := "child exited without an answer"
			if m := fatalRe.FindString(text); m != "" {
				what = m
			}
			// first frames inside elvish, for attribution
			var where []string
			for _, m := range frameRe.FindAllStringSubmatch(text, 6) {
				where = append(where, m[1])
			}
			return nil, fmt.Sprintf("%s [at %s]", what, strings.Join(uniq(where), " <- "))
		}
		var ob observation
		if err := json.Unmarshal(line, &ob); err != nil {
			return nil, "harness: bad answer from child: " + err.Error()
		}
		// wait for the end marker on stderr so that race reports are complete
		marker := fmt.Sprintf("C39-END %d\n", sc.I)
		for k := 0; k < 200 && !strings.Contains(d.stderr.String(), marker); k++ {
			time.Sleep(5 * time.Millisecond)
		}
		if text := d.stderr.String(); raceRe.MatchString(text) {
			var where []string
			for _, m := range frameRe.FindAllStringSubmatch(text, 8) {
				where = append(where, m[1])
			}
			return &ob, fmt.Sprintf("race detector: DATA RACE [at %s]", strings.Join(uniq(where), " <- "))
		}
		return &ob, ""
	case <-time.After(120 * time.Second):
		d.kill()
		return nil, "hang: no answer from the child within 120 s"
	}
}

func uniq(xs []string) []string {
	seen := map[string]bool{}
	var out []string
	for _, x := range xs {
		if !seen[x] {
			seen[x] = true
			out = append(out, x)
		}
	}
	return out
}

// buildRaceChild builds this harness binary with -race (needs cgo); returns "" if impossible.
func buildRaceChild(c *reg.Ctx) (string, string) {
	cwd, _ := os.Getwd()
	h := filepath.Join(cwd, "harness")
	if _, err := os.Stat(filepath.Join(h, "go.mod")); err != nil {
		h = "/verif/harness"
	}
	out := filepath.Join(c.Scratch, "c39race")
	args := []string{"build", "-race", "-tags", "verif"}
	if repo := os.Getenv("VERIF_REPO"); repo != "" {
		if rp, _ := filepath.EvalSymlinks(repo); rp != "/repo" {
			sum := sha1.Sum([]byte(repo))
			mf := filepath.Join(filepath.Dir(h), "build", "gomod_"+hex.EncodeToString(sum[:])[:8]+".mod")
			args = append(args, "-modfile", mf)
		}
	}
	args = append(args, "-o", out, "./cmd/impl_c39")
	cmd := exec.Command("go", args...)
	cmd.Dir = h
	cmd.Env = append(os.Environ(), "CGO_ENABLED=1")
	if b, err := cmd.CombinedOutput(); err != nil {
		return "", strings.TrimSpace(string(b))
	}
	return out, ""
}

// ---------------------------------------------------------------- generator

type gen struct {
	c      *reg.Ctx
	libdir string
	nmods  int
}

func (g *gen) forms() int {
	if g.c.Rand.Intn(3) == 0 {
		return g.c.Rand.Intn(7)
	}
	return 0
}
func (g *gen) val() int { return 1 + g.c.Rand.Intn(90) }

// private statements of job i: declarations of names 100+10*i+k, reads/writes of them
func (g *gen) private(i, n int) []stmt {
	var p []stmt
	var mine []int
	for k := 0; k < n; k++ {
		switch {
		case len(mine) == 0 || g.c.Rand.Intn(3) > 0:
			x := 100 + 10*i + g.c.Rand.Intn(4)
			p = append(p, stmt{K: "decl", X: x, V: g.val(), Form: g.forms()})
			mine = append(mine, x)
		case g.c.Rand.Intn(2) == 0:
			p = append(p, stmt{K: "set", X: mine[g.c.Rand.Intn(len(mine))], V: g.val(), Form: g.forms()})
		default:
			p = append(p, stmt{K: "get", X: mine[g.c.Rand.Intn(len(mine))]})
		}
	}
	return p
}

func (g *gen) njobs() int {
	if g.c.Rand.Intn(6) == 0 {
		return 6 + g.c.Rand.Intn(3)
	}
	return 2 + g.c.Rand.Intn(4)
}

func sharedSetup(g *gen) []stmt {
	var s []stmt
	for x := 1; x <= 3; x++ {
		s = append(s, stmt{K: "decl", X: x, V: g.val()})
	}
	return s
}

func (g *gen) scenario(kind string) *scenario {
	r := g.c.Rand
	sc := &scenario{LibDir: g.libdir, Setup: sharedSetup(g)}
	n := g.njobs()
	switch kind {
	case "decl-distinct":
		for i := 0; i < n; i++ {
			if i > 0 && r.Intn(5) == 0 {
				// static check of a program over setup names, own names or an undefined name
				p := []stmt{{K: "get", X: 1 + r.Intn(3)}}
				if r.Intn(2) == 0 {
					p = append(p, stmt{K: "get", X: 999})
				}
				sc.Jobs = append(sc.Jobs, job{Kind: "check", P: p})
				continue
			}
			p := g.private(i, 1+r.Intn(4))
			if r.Intn(3) == 0 {
				p = append(p, stmt{K: "get", X: 1 + r.Intn(3)}) // setup names are never written here
			}
			if r.Intn(8) == 0 {
				p = append(p, stmt{K: "set", X: 998, V: 1}) // compile error: the job must have no effect
			}
			sc.Jobs = append(sc.Jobs, job{Kind: "eval", P: p})
		}
	case "decl-same":
		for i := 0; i < n; i++ {
			if i > 0 && r.Intn(4) == 0 {
				// whether this compiles depends on which jobs have committed
				sc.Jobs = append(sc.Jobs, job{Kind: "check", P: []stmt{{K: "get", X: 20 + r.Intn(3)}}})
				continue
			}
			var p []stmt
			var mine []int
			for k := 0; k < 1+r.Intn(3); k++ {
				x := 20 + r.Intn(3)
				p = append(p, stmt{K: "decl", X: x, V: g.val(), Form: g.forms()})
				mine = append(mine, x)
				if r.Intn(2) == 0 {
					p = append(p, stmt{K: "get", X: mine[r.Intn(len(mine))]})
				}
			}
			sc.Jobs = append(sc.Jobs, job{Kind: "eval", P: p})
		}
	case "shared-rw":
		// distinct declarations plus exactly one access to one setup variable per job
		for i := 0; i < n; i++ {
			var acc stmt
			if r.Intn(2) == 0 {
				acc = stmt{K: "set", X: 1 + r.Intn(3), V: g.val(), Form: g.forms()}
			} else {
				acc = stmt{K: "get", X: 1 + r.Intn(3)}
			}
			if r.Intn(3) == 0 {
				sc.Jobs = append(sc.Jobs, job{Kind: "call", P: []stmt{acc}})
				continue
			}
			p := g.private(i, r.Intn(3))
			at := r.Intn(len(p) + 1)
			p = append(p[:at:at], append([]stmt{acc}, p[at:]...)...)
			sc.Jobs = append(sc.Jobs, job{Kind: "eval", P: p})
		}
	case "use-loaded":
		sc.Preload = []int{1, 2, 3}
		for i := 0; i < n; i++ {
			p := g.private(i, r.Intn(3))
			for k := 0; k < 1+r.Intn(3); k++ {
				m := []int{1, 2, 3, modStr, modMath}[r.Intn(5)]
				at := r.Intn(len(p) + 1)
				p = append(p[:at:at], append([]stmt{{K: "use", M: m}}, p[at:]...)...)
			}
			if i > 0 && r.Intn(5) == 0 {
				sc.Jobs = append(sc.Jobs, job{Kind: "check", P: p})
			} else {
				sc.Jobs = append(sc.Jobs, job{Kind: "eval", P: p})
			}
		}
	case "use-file-same":
		m := 4 + r.Intn(g.nmods-4)
		for i := 0; i < n; i++ {
			p := g.private(i, r.Intn(2))
			p = append(p, stmt{K: "use", M: m})
			sc.Jobs = append(sc.Jobs, job{Kind: "eval", P: p})
		}
	case "use-file-different":
		for i := 0; i < n; i++ {
			p := g.private(i, r.Intn(2))
			for k := 0; k < 1+r.Intn(6); k++ {
				p = append(p, stmt{K: "use", M: 4 + r.Intn(g.nmods-4)})
			}
			sc.Jobs = append(sc.Jobs, job{Kind: "eval", P: p})
		}
	case "use-file-stress":
		// the reproduction of DESIGN section 7 item 15: 8 goroutines, 64 file modules
		for i := 0; i < 8; i++ {
			var p []stmt
			for k := 0; k < g.nmods; k++ {
				p = append(p, stmt{K: "use", M: (k+i*8)%g.nmods + 0})
			}
			sc.Jobs = append(sc.Jobs, job{Kind: "eval", P: p})
		}
	case "concurrent-del":
		// some jobs delete setup variables (delLocalVarOp writes the slot slice of the
		// global namespace), the others declare new names (nsOp.prepare copies it)
		sc.Setup = append(sc.Setup, stmt{K: "decl", X: 4, V: g.val()}, stmt{K: "decl", X: 5, V: g.val()})
		for i := 0; i < 6; i++ {
			if i%2 == 0 {
				sc.Jobs = append(sc.Jobs, job{Kind: "eval", P: []stmt{{K: "del", X: 1 + i/2}}})
			} else {
				sc.Jobs = append(sc.Jobs, job{Kind: "eval", P: g.private(i, 1+r.Intn(2))})
			}
		}
	case "foreign-decl":
		// job 0 declares a variable whose initial value takes a while to compute;
		// job 1 (re-submitted until it compiles) reads or assigns it
		x := 30 + r.Intn(5)
		sc.Jobs = append(sc.Jobs, job{Kind: "eval", P: []stmt{{K: "decl", X: x, V: g.val(), Slow: 30}}})
		if r.Intn(2) == 0 {
			sc.Jobs = append(sc.Jobs, job{Kind: "eval", Retry: true, P: []stmt{{K: "get", X: x}}})
		} else {
			sc.Jobs = append(sc.Jobs, job{Kind: "eval", Retry: true, P: []stmt{{K: "set", X: x, V: 91 + r.Intn(9)}}})
		}
	}
	return sc
}

// classify computes the input class from the scenario alone.
func classify(sc *scenario, kind string) string {
	pre := map[int]bool{modStr: true, modMath: true}
	for _, m := range sc.Preload {
		pre[m] = true
	}
	setup := map[int]bool{}
	for _, s := range sc.Setup {
		if s.K == "decl" {
			setup[s.X] = true
		}
	}
	declaredBy := map[int]map[int]bool{}
	for i, j := range sc.Jobs {
		if j.Kind != "eval" {
			continue
		}
		for _, s := range j.P {
			if s.K == "decl" {
				if declaredBy[s.X] == nil {
					declaredBy[s.X] = map[int]bool{}
				}
				declaredBy[s.X][i] = true
			}
		}
	}
	fileUse, foreign, del := false, false, false
	for i, j := range sc.Jobs {
		own := map[int]bool{}
		for _, s := range j.P {
			switch s.K {
			case "del":
				del = true
			case "use":
				if !pre[s.M] {
					fileUse = true
				}
			case "decl":
				own[s.X] = true
			case "get", "set":
				if !own[s.X] && !setup[s.X] && j.Kind != "check" {
					for o := range declaredBy[s.X] {
						if o != i {
							foreign = true
						}
					}
				}
			}
		}
	}
	switch {
	case fileUse:
		return "concurrent-use-file-modules"
	case foreign:
		return "access-to-variable-under-declaration"
	case del:
		return "concurrent-del"
	}
	return kind
}

// ---------------------------------------------------------------- Coq terms

func coqStmt(s stmt) string {
	switch s.K {
	case "decl":
		return App("SDecl", N(uint64(s.X)), N(uint64(s.V)))
	case "set":
		return App("SSet", N(uint64(s.X)), N(uint64(s.V)))
	case "get":
		return App("SGet", N(uint64(s.X)))
	case "use":
		return App("SUse", N(uint64(s.M)))
	}
	return "(SGet 0%N)"
}
func coqProg(p []stmt) string {
	items := make([]string, len(p))
	for i, s := range p {
		items[i] = coqStmt(s)
	}
	if len(items) == 0 {
		return "(@nil stmt)"
	}
	return List(items)
}
func coqJob(j job) string {
	k := map[string]string{"eval": "JEval", "check": "JCheck", "call": "JCall"}[j.Kind]
	return App(k, coqProg(j.P))
}
func coqObs(ob *observation, n int) string {
	var keys []int
	for k := range ob.Final {
		i, _ := strconv.Atoi(k)
		keys = append(keys, i)
	}
	sort.Ints(keys)
	fin := make([]string, len(keys))
	for i, k := range keys {
		fin[i] = Pair(N(uint64(k)), N(uint64(ob.Final[strconv.Itoa(k)])))
	}
	res := make([]string, n)
	for i := 0; i < n; i++ {
		var r jobRes
		if i < len(ob.Res) {
			r = ob.Res[i]
		}
		outs := make([]string, len(r.Outs))
		for k, o := range r.Outs {
			if o < 0 {
				o = 0
			}
			outs[k] = N(uint64(o))
		}
		os_ := "(@nil N)"
		if len(outs) > 0 {
			os_ = List(outs)
		}
		res[i] = App("mkRes", Bool(r.Err), os_)
	}
	f := "(@nil (N * N))"
	if len(fin) > 0 {
		f = List(fin)
	}
	return App("mkObs", f, List(res))
}

type desc struct {
	Kind   string       `json:"kind"`
	Race   bool         `json:"race_detector"`
	Setup  string       `json:"setup"`
	Pre    []int        `json:"preloaded_modules,omitempty"`
	Jobs   []string     `json:"jobs"`
	Conc   *observation `json:"concurrent,omitempty"`
	Serial *observation `json:"serial,omitempty"`
	Direct string       `json:"direct,omitempty"`
}

func describe(sc *scenario, kind string, race bool) desc {
	d := desc{Kind: kind, Race: race, Setup: renderProg(sc.Setup), Pre: sc.Preload}
	for _, j := range sc.Jobs {
		s := j.Kind + ": " + strings.ReplaceAll(strings.TrimSpace(renderProg(j.P)), "\n", "; ")
		if len(s) > 300 {
			s = s[:300] + " ..."
		}
		if j.Retry {
			s += "  (re-submitted until it compiles)"
		}
		d.Jobs = append(d.Jobs, s)
	}
	return d
}

func badObs(ob *observation) string {
	if ob == nil {
		return ""
	}
	if ob.Hang {
		return "hang: the jobs did not finish within 60 s"
	}
	if ob.Bad != "" {
		return "unexpected value: " + ob.Bad
	}
	for i, r := range ob.Res {
		if r.Exc != "" {
			return fmt.Sprintf("job %d raised an exception no serial order produces: %s", i, r.Exc)
		}
	}
	return ""
}

// ---------------------------------------------------------------- run

func run(c *reg.Ctx) {
	g := &gen{c: c, libdir: filepath.Join(c.Scratch, "lib"), nmods: 64}
	os.MkdirAll(g.libdir, 0o755)
	for k := 0; k < g.nmods; k++ {
		os.WriteFile(filepath.Join(g.libdir, modName(k)+".elv"),
			[]byte(fmt.Sprintf("var a = %d\nfn f { put %d }\n", k, k)), 0o644)
	}
	exe, err := os.Executable()
	if err != nil {
		c.Emit(reg.Case{Direct: "harness: os.Executable: " + err.Error(), Class: "harness", Key: "self"})
		return
	}
	race := false
	if c.Tier == "thorough" || os.Getenv("VERIF_C39_RACE") == "1" {
		if p, why := buildRaceChild(c); p != "" {
			exe, race = p, true
			c.Count("child-built-with-race-detector")
		} else {
			c.Count("race-build-unavailable")
			fmt.Fprintln(os.Stderr, "C39: go build -race failed, running without the race detector:", why)
		}
	}
	plain := &driver{exe: exe, race: race} // classes expected to survive
	risky := &driver{exe: exe, race: race} // defect classes (the child may die)
	defer plain.stop()
	defer risky.stop()

	idx := 0
	one := func(kind string) {
		sc := g.scenario(kind)
		sc.I = idx
		idx++
		class := classify(sc, kind)
		d := plain
		if class == "concurrent-use-file-modules" || class == "access-to-variable-under-declaration" || class == "concurrent-del" {
			d = risky
		}
		c.Count(fmt.Sprintf("%s/jobs=%d", kind, len(sc.Jobs)))
		ds := describe(sc, kind, race)
		key := fmt.Sprintf("%s|%v|%v", ds.Setup, ds.Pre, ds.Jobs)

		if d == risky && race {
			// the race detector reports each racing pair of stacks once per
			// process: a fresh child per scenario of a defect class
			defer d.stop()
		}
		// 1. serial reference run (index order, fresh Evaler)
		sc.Serial = true
		ser, direct := d.exec1(sc)
		if direct == "" {
			direct = badObs(ser)
		}
		if direct != "" {
			ds.Serial, ds.Direct = ser, "serial run: "+direct
			c.Emit(reg.Case{Direct: ds.Direct, Desc: ds, Key: key, Class: "serial-" + class, Nontrivial: true})
			return
		}
		// 2. concurrent run (fresh Evaler, all jobs released together)
		sc.Serial = false
		conc, direct := d.exec1(sc)
		if direct == "" {
			direct = badObs(conc)
		}
		ds.Serial, ds.Conc = ser, conc
		if direct != "" {
			ds.Direct = direct
			c.Count("direct/" + class)
			c.Emit(reg.Case{Direct: direct, Desc: ds, Key: key, Class: class, Nontrivial: true})
			return
		}
		if class == "concurrent-del" {
			// `del` is outside the modelled language: these scenarios are only
			// sampled (fatal error, exception, race report); no serial-outcome judgement
			c.Emit(reg.Case{Desc: ds, Key: key, Class: class, Nontrivial: true})
			return
		}
		setup := coqProg(sc.Setup)
		pre := []string{N(modStr), N(modMath)}
		for _, m := range sc.Preload {
			pre = append(pre, N(uint64(m)))
		}
		jobs := make([]string, len(sc.Jobs))
		for i, j := range sc.Jobs {
			jobs[i] = coqJob(j)
		}
		c.Emit(reg.Case{
			Coq:        App("mkCase", setup, List(pre), List(jobs), coqObs(conc, len(sc.Jobs)), coqObs(ser, len(sc.Jobs))),
			Desc:       ds,
			Key:        key,
			Nontrivial: len(sc.Jobs) >= 2,
			Class:      class,
		})
	}

	// planted defect classes first (fixed counts), then the random mix
	// (up to 10 attempts, thorough 30; stops after the second crash)
	stress := 10
	if c.Tier == "thorough" {
		stress = 30
	}
	for i := 0; i < stress && c.Dist["direct/concurrent-use-file-modules"] < 2; i++ {
		one("use-file-stress")
	}
	for i := 0; i < 6; i++ {
		one("foreign-decl")
	}
	dels := 3
	if c.Tier == "thorough" {
		dels = 20
	}
	for i := 0; i < dels; i++ {
		one("concurrent-del")
	}
	kinds := []string{"decl-distinct", "decl-same", "shared-rw", "use-loaded", "decl-same", "shared-rw",
		"decl-distinct", "use-file-same", "use-file-different"}
	for i := 0; i < c.N; i++ {
		one(kinds[i%len(kinds)])
	}
	c.Count(fmt.Sprintf("child-spawns=%d", plain.spawns+risky.spawns))
}
