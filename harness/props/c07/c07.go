// Package c07: the persistent hash map (pkg/persistent/hashmap) as an immutable
// dictionary, under a harness-controlled hash function.
//
// Every case is one operation history over a version store: keys are ids with
// eq = id equality and hash = a table whose values share low-bit prefixes of
// 0..32 bits (bitmap nodes, array nodes through unpack at 16 / pack at 8 on any
// level, collision nodes on any level) plus the nil key.  Every operation
// takes any existing version and appends its result; every new version is
// observed (Len, Index of every key of the universe, the iterator loop), and
// after every step all versions are observed again and compared with their
// first observation.
package c07

import (
	"crypto/sha1"
	"encoding/hex"
	"fmt"
	"math/bits"
	"strings"

	"src.elv.sh/pkg/persistent/hashmap"
	. "verifharness/coqfmt"
	"verifharness/reg"
)

func init() {
	reg.Register(&reg.Spec{ID: "C07",
		Imports: "From verif Require Import lib.Base model.C07.",
		Judge:   "C07.judge", Shard: 4, Run: run})
}

type hkey struct{ id int }

type opRec struct {
	Assoc bool
	Ver   int
	Key   int // -1 = nil key
	Val   int
}

func (o opRec) String() string {
	k := "nil"
	if o.Key >= 0 {
		k = fmt.Sprint(o.Key)
	}
	if o.Assoc {
		return fmt.Sprintf("v%d.assoc(%s,%d)", o.Ver, k, o.Val)
	}
	return fmt.Sprintf("v%d.dissoc(%s)", o.Ver, k)
}

// coq: two numbers per operation: ver*8192 + (key code)*2 + kind, value.
func (o opRec) coq() string {
	kind := 0
	if o.Assoc {
		kind = 1
	}
	return fmt.Sprintf("%d;%d", o.Ver*8192+(o.Key+1)*2+kind, o.Val)
}

// obs is what one version shows through the Map API.
type obs struct {
	length int
	idx    []int    // -1 = absent; position 0 is the nil key
	iter   [][2]int // key (-1 = nil), value
	fp     string
}

func anyKey(id int) any {
	if id < 0 {
		return nil
	}
	return hkey{id}
}

// val: values are the numbers 1.. handed out by the generator (< 2^20).
func val(v any) int {
	i, ok := v.(int)
	if !ok || i < 0 || i >= vbase {
		panic(fmt.Sprintf("a value that was never stored: %v", v))
	}
	return i
}

func observe(m hashmap.Map, nkeys int) (o obs, panicked string) {
	defer func() {
		if r := recover(); r != nil {
			panicked = fmt.Sprint(r)
		}
	}()
	o.length = m.Len()
	for id := -1; id < nkeys; id++ {
		v, ok := m.Index(anyKey(id))
		if ok {
			o.idx = append(o.idx, val(v))
		} else {
			o.idx = append(o.idx, -1)
		}
	}
	limit := 3*nkeys + 8 // a loop guard; too many elements is judged by the oracle
	for it := m.Iterator(); it.HasElem() && len(o.iter) < limit; it.Next() {
		k, v := it.Elem()
		id := -1
		if k != nil {
			id = k.(hkey).id
		}
		o.iter = append(o.iter, [2]int{id, val(v)})
	}
	o.fp = fmt.Sprint(o.length, o.idx, o.iter)
	return o, ""
}

const vbase = 1 << 20

// code writes a (key, value) pair as one number: (key code)*2^20 + value.
func code(id, v int) string { return fmt.Sprint(uint64(id+1)*vbase + uint64(v)) }

func nlistN(items []string) string { return nlist(items) }

func nlist(items []string) string {
	if len(items) == 0 {
		return "(@nil N)"
	}
	return "[" + strings.Join(items, ";") + "]%N"
}

func (o obs) coq() string {
	var idx []string
	for i, v := range o.idx {
		if v >= 0 {
			idx = append(idx, code(i-1, v))
		}
	}
	it := make([]string, len(o.iter))
	for i, kv := range o.iter {
		it[i] = code(kv[0], kv[1])
	}
	return App("mkObs", Z(int64(o.length)), nlist(idx), nlist(it))
}

// ---- hash tables ----

func lowMask(b int) uint32 {
	if b >= 32 {
		return ^uint32(0)
	}
	return uint32(1)<<uint(b) - 1
}

// derive: a hash sharing exactly-at-least the low b bits with base.
func derive(c *reg.Ctx, base uint32, b int) uint32 {
	return base&lowMask(b) | c.Rand.Uint32()&^lowMask(b)
}

// fanout appends m hashes that share the low 5*level bits with base and have
// pairwise different chunks on that level.
func fanout(c *reg.Ctx, hs []uint32, base uint32, level, m int) []uint32 {
	width := 32
	if level == 6 {
		width = 4
	}
	if m > width {
		m = width
	}
	perm := c.Rand.Perm(width)
	for i := 0; i < m; i++ {
		h := base&lowMask(5*level) | uint32(perm[i])<<uint(5*level)
		if level < 6 {
			hi := c.Rand.Uint32()
			if c.Rand.Intn(3) == 0 {
				hi = base // same upper bits: deeper sharing
			}
			h |= hi &^ lowMask(5*level+5)
		}
		hs = append(hs, h)
	}
	return hs
}

func genHashes(c *reg.Ctx, shape string) []uint32 {
	var hs []uint32
	pick := func() uint32 {
		if len(hs) == 0 {
			return c.Rand.Uint32()
		}
		return hs[c.Rand.Intn(len(hs))]
	}
	switch shape {
	case "random":
		n := 4 + c.Rand.Intn(40)
		for i := 0; i < n; i++ {
			hs = append(hs, c.Rand.Uint32())
		}
	case "prefix":
		// every key shares 0..32 low bits with an earlier key
		n := 6 + c.Rand.Intn(34)
		for i := 0; i < n; i++ {
			hs = append(hs, derive(c, pick(), c.Rand.Intn(33)))
		}
	case "prefix5":
		// sharing whole levels: 0,5,..,30 bits, or all 32
		n := 6 + c.Rand.Intn(34)
		for i := 0; i < n; i++ {
			b := 5 * c.Rand.Intn(8)
			if b > 32 {
				b = 32
			}
			hs = append(hs, derive(c, pick(), b))
		}
	case "collide":
		// groups of fully colliding keys; the groups share prefixes
		g := 1 + c.Rand.Intn(5)
		for i := 0; i < g; i++ {
			h := derive(c, pick(), 5*c.Rand.Intn(7))
			for j := 1 + c.Rand.Intn(5); j > 0; j-- {
				hs = append(hs, h)
			}
		}
		for j := c.Rand.Intn(6); j > 0; j-- {
			hs = append(hs, derive(c, pick(), c.Rand.Intn(33)))
		}
	case "fanout":
		// an array node on a chosen level (17..32 children), with extra keys
		// below its children and colliding with them
		level := c.Rand.Intn(6)
		hs = fanout(c, hs, c.Rand.Uint32(), level, 17+c.Rand.Intn(16))
		for j := c.Rand.Intn(10); j > 0; j-- {
			base := pick()
			switch c.Rand.Intn(3) {
			case 0:
				hs = append(hs, base)
			case 1:
				hs = append(hs, derive(c, base, 5*level+5+c.Rand.Intn(28-5*level)))
			default:
				hs = append(hs, derive(c, base, c.Rand.Intn(33)))
			}
		}
	case "fanout2":
		// two array nodes, one below a child of the other
		l1 := c.Rand.Intn(4)
		hs = fanout(c, hs, c.Rand.Uint32(), l1, 17+c.Rand.Intn(8))
		l2 := l1 + 1 + c.Rand.Intn(5-l1)
		hs = fanout(c, hs, pick(), l2, 17+c.Rand.Intn(8))
	case "tiny":
		n := 1 + c.Rand.Intn(4)
		for i := 0; i < n; i++ {
			hs = append(hs, derive(c, pick(), 32*c.Rand.Intn(2)))
		}
	case "top":
		// hashes that differ only in the two top bits (level 6) or not at all
		base := c.Rand.Uint32()
		n := 3 + c.Rand.Intn(8)
		for i := 0; i < n; i++ {
			hs = append(hs, base&lowMask(30)|uint32(c.Rand.Intn(4))<<30)
		}
	}
	// shuffle ids so that insertion order is unrelated to the construction
	c.Rand.Shuffle(len(hs), func(i, j int) { hs[i], hs[j] = hs[j], hs[i] })
	return hs
}

var shapes = []string{"fanout", "prefix", "collide", "fanout", "prefix5", "fanout2", "random", "top", "fanout", "collide", "tiny", "prefix"}

// ---- one history ----

type version struct {
	m     hashmap.Map
	ref   map[int]int // generator-side contents (only to bias key choice)
	first obs
}

type desc struct {
	Shape  string   `json:"shape"`
	Hashes []string `json:"hashes"`
	Ops    string   `json:"ops"`
	Note   string   `json:"note,omitempty"`
}

func history(c *reg.Ctx, shape string, steps int) {
	hs := genHashes(c, shape)
	n := len(hs)
	eq := func(a, b any) bool { return a.(hkey).id == b.(hkey).id }
	hf := func(k any) uint32 { return hs[k.(hkey).id] }

	var ops []opRec
	var late []string
	direct := ""
	vs := []*version{{m: hashmap.New(eq, hf), ref: map[int]int{}}}
	o0, p := observe(vs[0].m, n)
	if p != "" {
		direct = "panic observing the empty map: " + p
	}
	vs[0].first = o0

	// fanout shapes: a scripted skeleton (insert every key, delete all but a
	// few, insert again, ...) so that array nodes are created (unpack at 16)
	// and packed again (at 8) for sure; random operations are mixed in
	var script []opRec
	if (shape == "fanout" || shape == "fanout2") && c.Rand.Intn(4) > 0 {
		for round := 0; round < 2; round++ {
			for _, id := range c.Rand.Perm(n) {
				script = append(script, opRec{Assoc: true, Key: id})
			}
			keep := c.Rand.Intn(4)
			for _, id := range c.Rand.Perm(n)[keep:] {
				script = append(script, opRec{Assoc: false, Key: id})
			}
			if len(script) > 150 {
				break
			}
		}
		steps = len(script) + len(script)/8
		c.Count("scripted-fanout")
	}
	si := 0
	// phases: grow, shrink, churn ... chosen per history
	pAssoc := 0.85
	phaseLen := 10 + c.Rand.Intn(50)
	nextVal := 1
	for step := 0; step < steps && direct == ""; step++ {
		if step > 0 && step%phaseLen == 0 {
			pAssoc = []float64{0.85, 0.15, 0.5, 0.1, 0.9}[c.Rand.Intn(5)]
		}
		ver := len(vs) - 1
		if c.Rand.Intn(8) == 0 {
			ver = c.Rand.Intn(len(vs))
		}
		cur := vs[ver]
		var o opRec
		o.Ver = ver
		o.Assoc = c.Rand.Float64() < pAssoc
		o.Key = c.Rand.Intn(n+1) - 1
		if c.Rand.Intn(3) > 0 {
			// bias: assoc of an absent key / dissoc of a present key
			var cand []int
			for id := -1; id < n; id++ {
				if _, in := cur.ref[id]; in != o.Assoc {
					cand = append(cand, id)
				}
			}
			if len(cand) > 0 {
				o.Key = cand[c.Rand.Intn(len(cand))]
			}
		}
		if si < len(script) && c.Rand.Intn(9) > 0 {
			o = script[si]
			si++
			o.Ver = len(vs) - 1
			cur = vs[o.Ver]
		}
		if o.Assoc {
			o.Val = nextVal
			nextVal++
			if c.Rand.Intn(10) == 0 {
				if old, in := cur.ref[o.Key]; in {
					o.Val = old // same value again
				}
			}
		}
		ops = append(ops, o)

		nv := &version{ref: map[int]int{}}
		for k, v := range cur.ref {
			nv.ref[k] = v
		}
		func() {
			defer func() {
				if r := recover(); r != nil {
					direct = fmt.Sprintf("panic in %s: %v", o, r)
				}
			}()
			if o.Assoc {
				nv.m = cur.m.Assoc(anyKey(o.Key), o.Val)
				nv.ref[o.Key] = o.Val
			} else {
				nv.m = cur.m.Dissoc(anyKey(o.Key))
				delete(nv.ref, o.Key)
			}
		}()
		if direct != "" {
			break
		}
		ob, p := observe(nv.m, n)
		if p != "" {
			direct = fmt.Sprintf("panic observing the result of %s: %s", o, p)
			break
		}
		nv.first = ob
		vs = append(vs, nv)
		// all earlier versions again
		for i, v := range vs[:len(vs)-1] {
			again, p := observe(v.m, n)
			if p != "" {
				direct = fmt.Sprintf("panic re-observing version %d after %s: %s", i, o, p)
				break
			}
			if again.fp != v.first.fp && len(late) < 4 {
				late = append(late, Pair(Nat(i), again.coq()))
			}
		}
	}

	hcoq := make([]string, n)
	hstr := make([]string, n)
	for i, h := range hs {
		hcoq[i] = fmt.Sprintf("%d;%d", h>>16, h&0xffff)
		hstr[i] = fmt.Sprintf("%08x", h)
	}
	ocoq := make([]string, len(ops))
	ostr := make([]string, len(ops))
	for i, o := range ops {
		ocoq[i] = o.coq()
		ostr[i] = o.String()
	}
	vcoq := make([]string, len(vs))
	for i, v := range vs {
		vcoq[i] = v.first.coq()
	}
	// input features
	maxShare, collide := 0, false
	for i := range hs {
		for j := 0; j < i; j++ {
			s := bits.TrailingZeros32(hs[i] ^ hs[j])
			if s >= 32 {
				collide = true
			}
			if s > maxShare {
				maxShare = s
			}
		}
	}
	c.Count("shape/" + shape)
	c.Count(fmt.Sprintf("keys/%d0s", n/10))
	if collide {
		c.Count("has-full-collision")
	}
	sum := sha1.Sum([]byte(strings.Join(hstr, ",") + "|" + strings.Join(ostr, ";")))
	cs := reg.Case{
		Desc:       desc{Shape: shape, Hashes: hstr, Ops: strings.Join(ostr, " ")},
		Key:        hex.EncodeToString(sum[:]),
		Nontrivial: len(ops) >= 10 && n >= 2 && maxShare >= 5,
		Class:      shape,
	}
	if direct != "" {
		cs.Direct = direct
		cs.Desc = desc{Shape: shape, Hashes: hstr, Ops: strings.Join(ostr, " "), Note: direct}
	} else {
		cs.Coq = App("mkCaseC", nlistN(hcoq), nlist(ocoq), List(vcoq), List(late), "(@nil N)")
	}
	c.Emit(cs)
}

// ---- popCount ----

func popCases(c *reg.Ctx, n int) {
	us := []uint32{0, 1, 2, 3, 0xffffffff, 0x80000000, 0x7fffffff, 0x55555555, 0xaaaaaaaa,
		0x33333333, 0xcccccccc, 0x0f0f0f0f, 0xf0f0f0f0, 0x00ff00ff, 0xff00ff00, 0x0000ffff, 0xffff0000}
	for i := 0; i < 32; i++ {
		us = append(us, 1<<uint(i), 1<<uint(i)-1, ^uint32(1<<uint(i)))
	}
	for len(us) < n {
		u := c.Rand.Uint32()
		switch c.Rand.Intn(3) {
		case 0:
			u &= c.Rand.Uint32() // sparse
		case 1:
			u |= c.Rand.Uint32() // dense
		}
		us = append(us, u)
	}
	items := make([]string, len(us))
	for i, u := range us {
		items[i] = fmt.Sprintf("%d;%d;%d", u>>16, u&0xffff, hashmap.VerifPopCount(u))
	}
	c.Count("popcount-samples")
	c.Emit(reg.Case{
		Coq:        App("mkCaseC", "(@nil N)", "(@nil N)", "[mkObs 0%Z (@nil N) (@nil N)]", "[]", nlist(items)),
		Desc:       desc{Shape: "popcount", Note: fmt.Sprintf("%d values of popCount", len(us))},
		Key:        fmt.Sprintf("popcount/%d/%d", c.Seed, len(us)),
		Nontrivial: true,
		Class:      "popcount",
	})
	// harness-side comparison with math/bits on a stride (all 2^32 values in the thorough tier)
	stride := uint64(4099)
	if c.Tier == "thorough" {
		stride = 1
	}
	for u := uint64(0); u < 1<<32; u += stride {
		if hashmap.VerifPopCount(uint32(u)) != uint32(bits.OnesCount32(uint32(u))) {
			c.Emit(reg.Case{Direct: fmt.Sprintf("popCount(%#x) = %d, want %d", u, hashmap.VerifPopCount(uint32(u)), bits.OnesCount32(uint32(u))),
				Desc: desc{Shape: "popcount", Note: fmt.Sprintf("%#x", u)}, Key: fmt.Sprintf("pop/%d", u), Class: "popcount"})
			break
		}
	}
}

func run(c *reg.Ctx) {
	popCases(c, 800)
	for i := 0; i < c.N; i++ {
		shape := shapes[i%len(shapes)]
		steps := 40 + c.Rand.Intn(90)
		if c.Tier == "thorough" && i%4 == 0 {
			steps = 150 + c.Rand.Intn(250)
		}
		if shape == "tiny" || shape == "top" {
			steps = 20 + c.Rand.Intn(40)
		}
		history(c, shape, steps)
	}
}
