// Package c22: a module is evaluated at most once per interpreter and shared
// (pkg/eval/builtin_special.go: use, useFromFile, evalModule).
//
// Every case is a module graph written to disk under c.Scratch plus a sequence
// of top-level imports (and flag switches) run on ONE evaler.  Module bodies
// report, through Go builtins installed by the runner, when they start (this
// allocates the per-evaluation counter variable $id), what each of their
// imports returned ($alias:me, $alias:id), and when they reach their end.
package c22

import (
	"encoding/json"
	"fmt"
	"os"
	"path/filepath"
	"strings"

	"src.elv.sh/pkg/eval"
	"src.elv.sh/pkg/parse"
	. "verifharness/coqfmt"
	"verifharness/reg"
)

func init() {
	reg.Register(&reg.Spec{ID: "C22",
		Imports: "From verif Require Import lib.Base model.C22.",
		Judge:   "C22.judge", Shard: 100, Run: run})
}

// ---------------------------------------------------------------- input

type stmt struct {
	Kind string `json:"k"` // use | try | failif
	Spec string `json:"spec,omitempty"`
	Flag int    `json:"flag,omitempty"`
}

type module struct {
	ID      int    `json:"id"`
	Path    string `json:"path"` // relative to the case root, without .elv; or the spec when bundled
	Bundled bool   `json:"bundled,omitempty"`
	Stmts   []stmt `json:"stmts"`
}

type action struct {
	Kind string `json:"k"`             // use | flag
	Cwd  string `json:"cwd,omitempty"` // relative to the case root
	File string `json:"file,omitempty"`
	Spec string `json:"spec,omitempty"`
	Flag int    `json:"flag,omitempty"`
	On   bool   `json:"on,omitempty"`
}

type graph struct {
	Mods    []module `json:"mods"`
	LibDirs []string `json:"libdirs"` // relative to the case root
	Acts    []action `json:"acts"`
	Via     string   `json:"via"`
}

// ---------------------------------------------------------------- observation

type ev struct {
	kind   string // start end failed seen caught result
	a      int
	m, n   int // own module / evaluation (-1,-1 = script) ; for result: n = kind
	spec   string
	tm, tn int
}

func (e ev) coq() string {
	u := func(i int) string { return N(uint64(i)) }
	switch e.kind {
	case "start":
		return App("EStart", u(e.m), u(e.n))
	case "end":
		return App("EEnd", u(e.m), u(e.n))
	case "failed":
		return App("EFailed", u(e.m), u(e.n))
	case "caught":
		return App("ECaught", u(e.m), u(e.n))
	case "result":
		return App("EResult", u(e.a), u(e.n))
	default:
		imp := "IScript"
		if e.m >= 0 {
			imp = App("IMod", u(e.m), u(e.n))
		}
		return App("ESeen", u(e.a), imp, Str(e.spec), u(e.tm), u(e.tn))
	}
}

func (e ev) String() string {
	switch e.kind {
	case "seen":
		who := "script"
		if e.m >= 0 {
			who = fmt.Sprintf("m%d#%d", e.m, e.n)
		}
		return fmt.Sprintf("a%d:%s use %s -> m%d#%d", e.a, who, e.spec, e.tm, e.tn)
	case "result":
		return fmt.Sprintf("a%d:result=%d", e.a, e.n)
	default:
		return fmt.Sprintf("%s m%d#%d", e.kind, e.m, e.n)
	}
}

const maxEvents = 400

type tracer struct {
	events []ev
	stack  [][2]int // open evaluations
	nextID int
	act    int
	flags  map[int]bool
	over   bool
}

func (t *tracer) add(e ev) { t.events = append(t.events, e) }

// popTo marks every evaluation above (m, n) as failed, innermost first; with
// m < 0 the whole stack.
func (t *tracer) popTo(m, n int) {
	for len(t.stack) > 0 {
		top := t.stack[len(t.stack)-1]
		if m >= 0 && top[0] == m && top[1] == n {
			return
		}
		t.stack = t.stack[:len(t.stack)-1]
		t.add(ev{kind: "failed", m: top[0], n: top[1]})
	}
}

func (t *tracer) ns() *eval.Ns {
	return eval.BuildNs().
		AddGoFn("c22-start", func(m int) (int, error) {
			if len(t.events) > maxEvents {
				t.over = true
				return 0, fmt.Errorf("c22: too many events (runaway import recursion)")
			}
			n := t.nextID
			t.nextID++
			t.stack = append(t.stack, [2]int{m, n})
			t.add(ev{kind: "start", m: m, n: n})
			return n, nil
		}).
		AddGoFn("c22-end", func(m, n int) {
			t.popTo(m, n)
			if len(t.stack) > 0 {
				t.stack = t.stack[:len(t.stack)-1]
			}
			t.add(ev{kind: "end", m: m, n: n})
		}).
		AddGoFn("c22-seen", func(m, n int, spec string, tm, tn int) {
			t.popTo(m, n)
			t.add(ev{kind: "seen", a: t.act, m: m, n: n, spec: spec, tm: tm, tn: tn})
		}).
		AddGoFn("c22-seen-script", func(spec string, tm, tn int) {
			t.popTo(-1, -1)
			t.add(ev{kind: "seen", a: t.act, m: -1, n: -1, spec: spec, tm: tm, tn: tn})
		}).
		AddGoFn("c22-caught", func(m, n int) {
			t.popTo(m, n)
			t.add(ev{kind: "caught", m: m, n: n})
		}).
		AddGoFn("c22-flag", func(k int) bool { return t.flags[k] }).Ns()
}

// ---------------------------------------------------------------- code generation

func moduleCode(m module) string {
	var sb strings.Builder
	fmt.Fprintf(&sb, "var me = %d\nvar id = (c22-start %d)\n", m.ID, m.ID)
	for i, s := range m.Stmts {
		al := fmt.Sprintf("u%d", i)
		switch s.Kind {
		case "use":
			fmt.Fprintf(&sb, "use %s %s\nc22-seen %d $id '%s' $%s:me $%s:id\n", s.Spec, al, m.ID, s.Spec, al, al)
		case "try":
			fmt.Fprintf(&sb, "try {\n  use %s %s\n  c22-seen %d $id '%s' $%s:me $%s:id\n} catch {\n  c22-caught %d $id\n}\n",
				s.Spec, al, m.ID, s.Spec, al, al, m.ID)
		case "failif":
			fmt.Fprintf(&sb, "if (c22-flag %d) { fail boom }\n", s.Flag)
		}
	}
	fmt.Fprintf(&sb, "c22-end %d $id\n", m.ID)
	return sb.String()
}

// ---------------------------------------------------------------- running one case

func abs(root, rel string) string {
	if rel == "" {
		return root
	}
	return root + "/" + rel
}

func runGraph(root string, g *graph) (*tracer, error) {
	if err := os.RemoveAll(root); err != nil {
		return nil, err
	}
	e := eval.NewEvaler()
	for _, d := range []string{"l0/p", "l1/p", "w/s"} {
		if err := os.MkdirAll(abs(root, d), 0o755); err != nil {
			return nil, err
		}
	}
	for _, m := range g.Mods {
		if m.Bundled {
			e.BundledModules[m.Path] = moduleCode(m)
			continue
		}
		p := abs(root, m.Path) + ".elv"
		if err := os.MkdirAll(filepath.Dir(p), 0o755); err != nil {
			return nil, err
		}
		if err := os.WriteFile(p, []byte(moduleCode(m)), 0o644); err != nil {
			return nil, err
		}
	}
	for _, d := range g.LibDirs {
		e.LibDirs = append(e.LibDirs, abs(root, d))
	}
	t := &tracer{flags: map[int]bool{}}
	e.ExtendBuiltin(t.ns())
	for i, a := range g.Acts {
		t.act = i
		if a.Kind == "flag" {
			t.flags[a.Flag] = a.On
			continue
		}
		if err := os.Chdir(abs(root, a.Cwd)); err != nil {
			return nil, err
		}
		al := fmt.Sprintf("x%d", i)
		code := fmt.Sprintf("use %s %s\nc22-seen-script '%s' $%s:me $%s:id\n", a.Spec, al, a.Spec, al, al)
		src := parse.Source{Name: fmt.Sprintf("[c22 action %d]", i), Code: code}
		if a.File != "" {
			src = parse.Source{Name: abs(root, a.File), Code: code, IsFile: true}
		}
		err := e.Eval(src, eval.EvalCfg{})
		kind := 0
		if err != nil {
			kind = 9
			if exc, ok := err.(eval.Exception); ok {
				switch exc.Reason().(type) {
				case eval.FailError:
					kind = 1
				case eval.NoSuchModule:
					kind = 2
				}
			}
			t.popTo(-1, -1)
		}
		t.add(ev{kind: "result", a: i, n: kind})
	}
	os.Chdir("/")
	return t, nil
}

// ---------------------------------------------------------------- static view of the input (class)

// resolve gives the module a spec can resolve to, by the documented rules
// (relative against dir; bundled name; first lib dir holding the file).  Paths
// are taken under a fictitious root /R so that a spec climbing above the case
// root is a miss, as it is on disk.
func (g *graph) resolve(dir string, spec string) int {
	byPath := map[string]int{}
	for i, m := range g.Mods {
		if m.Bundled {
			if m.Path == spec {
				return i
			}
			continue
		}
		byPath["/R/"+m.Path] = i
	}
	if strings.HasPrefix(spec, "./") || strings.HasPrefix(spec, "../") {
		if i, ok := byPath[filepath.Clean("/R/"+dir+"/"+spec)]; ok {
			return i
		}
		return -1
	}
	for _, l := range g.LibDirs {
		if i, ok := byPath[filepath.Join("/R/"+l, spec)]; ok {
			return i
		}
	}
	return -1
}

func (g *graph) cwds() []string {
	seen := map[string]bool{}
	var out []string
	for _, a := range g.Acts {
		if a.Kind == "use" && !seen[a.Cwd] {
			seen[a.Cwd] = true
			out = append(out, a.Cwd)
		}
	}
	return out
}

// class is computed from the input only: does a module that can fail lie on
// an import cycle?
func (g *graph) class() string {
	n := len(g.Mods)
	edges := make([][]int, n)
	canFail := make([]bool, n)
	strong := make([][]int, n) // edges through plain use (failure propagates)
	indeg := make([]int, n)
	for i, m := range g.Mods {
		dirs := []string{filepath.Dir(m.Path)}
		if m.Bundled {
			dirs = g.cwds()
		}
		for _, s := range m.Stmts {
			if s.Kind == "failif" {
				canFail[i] = true
				continue
			}
			hit := false
			for _, d := range dirs {
				if j := g.resolve(d, s.Spec); j >= 0 {
					hit = true
					edges[i] = append(edges[i], j)
					indeg[j]++
					if s.Kind == "use" {
						strong[i] = append(strong[i], j)
					}
				} else if s.Kind == "use" {
					canFail[i] = true
				}
			}
			_ = hit
		}
	}
	for ch := true; ch; {
		ch = false
		for i := range strong {
			for _, j := range strong[i] {
				if canFail[j] && !canFail[i] {
					canFail[i], ch = true, true
				}
			}
		}
	}
	reach := make([][]bool, n)
	for i := range reach {
		reach[i] = make([]bool, n)
		for _, j := range edges[i] {
			reach[i][j] = true
		}
	}
	for k := 0; k < n; k++ {
		for i := 0; i < n; i++ {
			for j := 0; j < n; j++ {
				if reach[i][k] && reach[k][j] {
					reach[i][j] = true
				}
			}
		}
	}
	cyc, anyFail, diamond := false, false, false
	for i := 0; i < n; i++ {
		if reach[i][i] {
			cyc = true
			if canFail[i] {
				return "fail-on-cycle"
			}
		}
		anyFail = anyFail || canFail[i]
		diamond = diamond || indeg[i] >= 2
	}
	switch {
	case cyc && anyFail:
		return "cycle+failing-elsewhere"
	case cyc:
		return "cycle"
	case anyFail:
		return "failing"
	case diamond:
		return "diamond"
	}
	return "tree"
}

// ---------------------------------------------------------------- emit

type desc struct {
	Graph *graph   `json:"graph"`
	Trace []string `json:"trace"`
}

func coqStmt(s stmt) string {
	switch s.Kind {
	case "use":
		return App("SUse", Str(s.Spec))
	case "try":
		return App("STryUse", Str(s.Spec))
	}
	return App("SFailIf", N(uint64(s.Flag)))
}

func emit(c *reg.Ctx, no int, g *graph) {
	root := c.Scratch + fmt.Sprintf("/g%d", no)
	t, err := runGraph(root, g)
	os.RemoveAll(root)
	key := fmt.Sprintf("%v|%v|%v", g.Mods, g.LibDirs, g.Acts)
	class := g.class()
	c.Count(g.Via + "/" + class)
	if err != nil {
		c.Emit(reg.Case{Desc: desc{g, []string{"harness error: " + err.Error()}}, Key: key, Class: class,
			Direct: "harness could not run the case: " + err.Error()})
		return
	}
	var fsL, bdL, libL, actL, evL []string
	for _, m := range g.Mods {
		var ss []string
		for _, s := range m.Stmts {
			ss = append(ss, coqStmt(s))
		}
		b := App("mkBody", N(uint64(m.ID)), List(ss))
		if m.Bundled {
			bdL = append(bdL, Pair(Str(m.Path), b))
		} else {
			fsL = append(fsL, Pair(Str("/"+m.Path), b))
		}
	}
	for _, d := range g.LibDirs {
		libL = append(libL, Str("/"+d))
	}
	for _, a := range g.Acts {
		if a.Kind == "flag" {
			actL = append(actL, App("ASetFlag", N(uint64(a.Flag)), Bool(a.On)))
			continue
		}
		org := "OCwd"
		if a.File != "" {
			org = App("OFile", Str("/"+a.File))
		}
		actL = append(actL, App("AUse", Str("/"+a.Cwd), org, Str(a.Spec)))
	}
	seen := 0
	var tr []string
	for _, e := range t.events {
		evL = append(evL, e.coq())
		tr = append(tr, e.String())
		if e.kind == "seen" {
			seen++
		}
	}
	cs := reg.Case{
		Coq:        App("rooted_case", Str(root), List(fsL), List(bdL), List(libL), List(actL), List(evL)),
		Desc:       desc{g, tr},
		Key:        key,
		Nontrivial: seen >= 2,
		Class:      class,
	}
	if t.over {
		cs.Direct = "runaway import recursion: more than 400 events (imports do not terminate)"
	}
	c.Emit(cs)
}

// ---------------------------------------------------------------- generators

var dirs = []string{"l0", "l0/p", "l1", "l1/p", "w", "w/s"}
var names = []string{"ma", "mb", "mc", "md"}
var cwdChoices = []string{"w", "w/s", "l0", "w"}

func use(spec string) stmt        { return stmt{Kind: "use", Spec: spec} }
func try(spec string) stmt        { return stmt{Kind: "try", Spec: spec} }
func failif(k int) stmt           { return stmt{Kind: "failif", Flag: k} }
func flag(k int, on bool) action  { return action{Kind: "flag", Flag: k, On: on} }
func imp(cwd, spec string) action { return action{Kind: "use", Cwd: cwd, Spec: spec} }
func impFile(cwd, file, spec string) action {
	return action{Kind: "use", Cwd: cwd, File: file, Spec: spec}
}

// noise inserts "." or "q/.." elements after position from (0-based element index).
func noise(c *reg.Ctx, spec string, from int) string {
	parts := strings.Split(spec, "/")
	if c.Rand.Intn(3) != 0 || from > len(parts)-1 {
		return spec
	}
	pos := from + c.Rand.Intn(len(parts)-from)
	ins := []string{"."}
	switch c.Rand.Intn(4) {
	case 0:
		ins = []string{"q", ".."}
	case 1:
		ins = []string{""}
	}
	out := append([]string{}, parts[:pos]...)
	out = append(out, ins...)
	out = append(out, parts[pos:]...)
	return strings.Join(out, "/")
}

// spell writes a spec for importing target (a module) from code in directory dir.
func spell(c *reg.Ctx, g *graph, dir string, target module) string {
	if target.Bundled {
		return target.Path
	}
	var opts []string
	rel, err := filepath.Rel("/"+dir, "/"+target.Path)
	if err == nil {
		if !strings.HasPrefix(rel, "../") {
			rel = "./" + rel
		}
		opts = append(opts, noise(c, rel, 1), noise(c, rel, 1))
	}
	for _, l := range g.LibDirs {
		if strings.HasPrefix(target.Path, l+"/") {
			opts = append(opts, noise(c, strings.TrimPrefix(target.Path, l+"/"), 1))
		}
	}
	if len(opts) == 0 {
		return "./nope"
	}
	return opts[c.Rand.Intn(len(opts))]
}

func randomGraph(c *reg.Ctx) *graph {
	g := &graph{Via: "random", LibDirs: []string{"l0", "l1"}}
	switch c.Rand.Intn(5) {
	case 0:
		g.LibDirs = []string{"l1", "l0"}
	case 1:
		g.LibDirs = []string{"l0", "l1", "w"}
	case 2:
		g.LibDirs = []string{"w", "l0"}
	}
	n := 1 + c.Rand.Intn(6)
	used := map[string]bool{}
	for i := 0; i < n; i++ {
		if i > 0 && c.Rand.Intn(8) == 0 && !used["bz"] {
			used["bz"] = true
			g.Mods = append(g.Mods, module{ID: i, Path: "bz", Bundled: true})
			continue
		}
		for {
			p := dirs[c.Rand.Intn(len(dirs))] + "/" + names[c.Rand.Intn(len(names))]
			if !used[p] {
				used[p] = true
				g.Mods = append(g.Mods, module{ID: i, Path: p})
				break
			}
		}
	}
	// top-level imports first (bundled modules resolve relative specs against their cwd)
	nact := 2 + c.Rand.Intn(6)
	for k := 0; k < 3; k++ {
		if c.Rand.Intn(2) == 0 {
			g.Acts = append(g.Acts, flag(k, true))
		}
	}
	failing := c.Rand.Intn(2) == 0
	cyclic := c.Rand.Intn(2) == 0
	for i := range g.Mods {
		m := &g.Mods[i]
		dir := filepath.Dir(m.Path)
		if m.Bundled {
			dir = cwdChoices[c.Rand.Intn(len(cwdChoices))]
		}
		nst := c.Rand.Intn(4)
		for k := 0; k < nst; k++ {
			j := c.Rand.Intn(n)
			if !cyclic && j <= i {
				// forward edges only: acyclic (diamonds still arise)
				if i == n-1 {
					continue
				}
				j = i + 1 + c.Rand.Intn(n-i-1)
			}
			spec := spell(c, g, dir, g.Mods[j])
			if c.Rand.Intn(14) == 0 {
				spec = []string{"./nope", "nope", "../w/nope"}[c.Rand.Intn(3)]
			}
			if c.Rand.Intn(5) == 0 {
				m.Stmts = append(m.Stmts, try(spec))
			} else {
				m.Stmts = append(m.Stmts, use(spec))
			}
		}
		if failing && c.Rand.Intn(3) == 0 {
			pos := c.Rand.Intn(len(m.Stmts) + 1)
			st := append([]stmt{}, m.Stmts[:pos]...)
			st = append(st, failif(c.Rand.Intn(3)))
			m.Stmts = append(st, m.Stmts[pos:]...)
		}
	}
	for k := 0; k < nact; k++ {
		if k > 0 && c.Rand.Intn(5) == 0 {
			g.Acts = append(g.Acts, flag(c.Rand.Intn(3), c.Rand.Intn(3) == 0))
			continue
		}
		cwd := cwdChoices[c.Rand.Intn(len(cwdChoices))]
		target := g.Mods[c.Rand.Intn(n)]
		if c.Rand.Intn(5) < 2 {
			fdir := dirs[c.Rand.Intn(len(dirs))]
			g.Acts = append(g.Acts, impFile(cwd, fdir+"/script.elv", spell(c, g, fdir, target)))
		} else {
			g.Acts = append(g.Acts, imp(cwd, spell(c, g, cwd, target)))
		}
	}
	return g
}

// planted scenarios: the boundary and defect classes random graphs rarely hit.
func planted() []*graph {
	lib := []string{"l0", "l1"}
	var out []*graph
	add := func(via string, libdirs []string, mods []module, acts ...action) {
		for i := range mods {
			mods[i].ID = i
		}
		out = append(out, &graph{Via: via, LibDirs: libdirs, Mods: mods, Acts: acts})
	}
	// single module imported many times, many spellings, lib dir == cwd
	add("spellings", []string{"w", "l0"}, []module{{Path: "w/ma"}},
		imp("w", "./ma"), imp("w", "ma"), imp("w", "./s/../ma"), imp("w/s", "../ma"),
		imp("w", ".//ma"), imp("w", "././ma"), imp("l0", "../w/ma"), impFile("l0", "w/script.elv", "./ma"),
		imp("w", "q/../ma"))
	// diamond
	add("diamond", lib, []module{
		{Path: "w/ma", Stmts: []stmt{use("./mb"), use("./mc")}},
		{Path: "w/mb", Stmts: []stmt{use("./s/md")}},
		{Path: "w/mc", Stmts: []stmt{use("./s/../s/md")}},
		{Path: "w/s/md"}},
		imp("w", "./ma"), imp("w/s", "./md"), imp("w", "./mb"))
	// two-cycle and three-cycle, self import
	add("cycle2", lib, []module{
		{Path: "w/ma", Stmts: []stmt{use("./mb")}},
		{Path: "w/mb", Stmts: []stmt{use("./ma")}}},
		imp("w", "./ma"), imp("w", "./mb"), imp("w", "./ma"))
	add("cycle3", lib, []module{
		{Path: "l0/ma", Stmts: []stmt{use("mb")}},
		{Path: "l1/mb", Stmts: []stmt{use("p/mc")}},
		{Path: "l0/p/mc", Stmts: []stmt{use("../ma"), use("./mc")}}},
		imp("w", "p/mc"), imp("w", "ma"), imp("l0", "./ma"))
	// relative specs resolve against the importer, not the cwd: same names in two dirs
	add("relative-vs-cwd", lib, []module{
		{Path: "w/s/ma", Stmts: []stmt{use("./mb")}},
		{Path: "w/s/mb"},
		{Path: "w/mb"},
		{Path: "w/ma", Stmts: []stmt{use("./mb")}}},
		imp("w", "./s/ma"), imp("w", "./mb"), imp("w/s", "../ma"), imp("w/s", "./mb"),
		impFile("w", "w/s/script.elv", "./mb"), impFile("w/s", "w/script.elv", "./mb"))
	// bundled module importing relatively: resolves against the cwd
	add("bundled", lib, []module{
		{Path: "bz", Bundled: true, Stmts: []stmt{use("./ma")}},
		{Path: "w/ma"}, {Path: "w/s/ma"}},
		imp("w/s", "bz"), imp("w", "bz"), imp("w", "./ma"), imp("w", "./s/ma"))
	// lib dir order
	add("libdir-order", []string{"l1", "l0"}, []module{
		{Path: "l0/ma"}, {Path: "l1/ma"}, {Path: "l0/mb", Stmts: []stmt{use("ma")}}},
		imp("w", "ma"), imp("w", "mb"), imp("l0", "./ma"), imp("w", "ma"))
	// a failing module is not remembered; evaluated again, then cached
	add("fail-then-ok", lib, []module{
		{Path: "w/ma", Stmts: []stmt{use("./mb"), failif(0)}},
		{Path: "w/mb"}},
		flag(0, true), imp("w", "./ma"), imp("w", "./ma"), flag(0, false), imp("w", "./ma"), imp("w", "./ma"), imp("w", "./mb"))
	// failure caught inside a module, then imported again
	add("try-reimport", lib, []module{
		{Path: "w/ma", Stmts: []stmt{try("./mb"), try("./mb"), use("./mc")}},
		{Path: "w/mb", Stmts: []stmt{use("./mc"), failif(1)}},
		{Path: "w/mc"}},
		flag(1, true), imp("w", "./ma"), flag(1, false), imp("w", "./mb"), imp("w", "./ma"))
	// missing modules
	add("missing", lib, []module{
		{Path: "w/ma", Stmts: []stmt{use("./nope")}},
		{Path: "w/mb", Stmts: []stmt{try("nope"), use("./mb")}}},
		imp("w", "./ma"), imp("w", "./mb"), imp("w", "nope"), imp("w", "./ma"))
	// the recorded defect: a member of a cycle fails after its partner has
	// completed; the partner stays cached holding the dropped namespace
	add("cycle-member-fails", lib, []module{
		{Path: "w/ma", Stmts: []stmt{use("./mb"), failif(0)}},
		{Path: "w/mb", Stmts: []stmt{use("./ma")}}},
		flag(0, true), imp("w", "./ma"), flag(0, false), imp("w", "./mb"), imp("w", "./ma"))
	// the same through a three-cycle and a failing import instead of a fail
	add("cycle-member-fails-3", lib, []module{
		{Path: "w/ma", Stmts: []stmt{use("./mb"), use("./md")}},
		{Path: "w/mb", Stmts: []stmt{use("./mc")}},
		{Path: "w/mc", Stmts: []stmt{use("./ma")}},
		{Path: "w/md", Stmts: []stmt{failif(2)}}},
		flag(2, true), imp("w", "./ma"), flag(2, false), imp("w", "./mc"), imp("w", "./ma"), imp("w", "./mb"))
	// cycle member fails but nobody imports it again afterwards (no violation)
	add("cycle-member-fails-quiet", lib, []module{
		{Path: "w/ma", Stmts: []stmt{use("./mb"), failif(0)}},
		{Path: "w/mb", Stmts: []stmt{use("./ma")}}},
		flag(0, true), imp("w", "./ma"), imp("w", "./mb"))
	return out
}

func run(c *reg.Ctx) {
	if p, err := filepath.EvalSymlinks(c.Scratch); err == nil {
		c.Scratch = p
	}
	no := 0
	// corpus: graphs (or replay files, which hold the graph under case.desc.graph)
	for _, b := range c.Corpus {
		var rp struct {
			Case struct {
				Desc struct {
					Graph *graph `json:"graph"`
				} `json:"desc"`
			} `json:"case"`
		}
		var g graph
		if json.Unmarshal(b, &rp) == nil && rp.Case.Desc.Graph != nil {
			g = *rp.Case.Desc.Graph
		} else if json.Unmarshal(b, &g) != nil || len(g.Mods) == 0 {
			continue
		}
		g.Via = "corpus"
		emit(c, no, &g)
		no++
	}
	for _, g := range planted() {
		emit(c, no, g)
		no++
	}
	for i := 0; i < c.N; i++ {
		emit(c, no, randomGraph(c))
		no++
	}
}
