// Package c08: values that are eq are the same map key (vals.Equal, vals.Hash,
// and eq / has-key / index / assoc / dissoc / count through Eval).
package c08

import (
	"crypto/sha1"
	"fmt"
	"math"
	"math/big"

	"src.elv.sh/pkg/eval/vals"
	"src.elv.sh/pkg/eval/vars"
	. "verifharness/coqfmt"
	"verifharness/props/c08/c08val"
	"verifharness/reg"
)

func init() {
	reg.Register(&reg.Spec{ID: "C08",
		Imports: "From verif Require Import lib.Base model.C08_Value model.C08.",
		Judge:   "C08.judge", Shard: 150, Run: run})
}

type desc struct {
	Kind string `json:"kind"`
	A    string `json:"a"`
	B    string `json:"b"`
	Map  string `json:"map,omitempty"`
	Obs  string `json:"obs"`
}

type runner struct {
	c  *reg.Ctx
	g  *c08val.G
	vs []vars.Var // a b m v
}

func key(s string) string { return fmt.Sprintf("%x", sha1.Sum([]byte(s))) }

func ob(v any) bool { b, _ := v.(bool); return b }

// class of a pair, from the inputs only
func pairClass(ia, ib c08val.Info, dflt string) string {
	if (ia.PosZero || ib.PosZero) && (ia.NegZero || ib.NegZero) {
		return "float-signed-zero-key"
	}
	return dflt
}

const pairCode = `put (eq $a $b)`

func (r *runner) pair(kind string, a, b any) {
	ia, ib := c08val.Enc(a), c08val.Enc(b)
	r.vs[0].Set(a)
	r.vs[1].Set(b)
	out, err := r.g.Run(pairCode)
	eqBi := len(out) == 1 && err == nil && ob(out[0])
	eqAPI := vals.Equal(a, b)
	ha, hb := vals.Hash(a), vals.Hash(b)
	cl := pairClass(ia, ib, "pair-"+kind)
	r.c.Count(cl)
	if eqAPI {
		r.c.Count("pair-eq")
	}
	obs := App("mkPairObs", Bool(eqAPI), Bool(eqBi), N(uint64(ha)), N(uint64(hb)))
	coq := App("CPair", ia.Coq, ib.Coq, obs)
	r.c.Emit(reg.Case{
		Coq: coq,
		Desc: desc{Kind: "pair/" + kind, A: c08val.Show(a), B: c08val.Show(b),
			Obs: fmt.Sprintf("Equal=%v eq=%v err=%v Hash(a)=%d Hash(b)=%d", eqAPI, eqBi, err, ha, hb)},
		Key: key(ia.Coq + "|" + ib.Coq), Nontrivial: kind != "random" || eqAPI, Class: cl})
}

const mapCode = `
fn idx {|m k| try { put $m[$k] } catch { put $nil } }
put (eq $a $b) (count $m) (has-key $m $a) (has-key $m $b)
idx $m $a; idx $m $b
var ma = (assoc $m $a $v); var mb = (assoc $m $b $v)
put (count $ma) (count $mb) (eq $ma $mb) (has-key $ma $b) (has-key $mb $a)
idx $ma $b; idx $mb $a
var da = (dissoc $m $a); var db = (dissoc $m $b)
put (count $da) (count $db) (eq $da $db) (has-key $da $b) (has-key $db $a)
`

func optZ(v any) string {
	if i, ok := v.(int); ok {
		return Some(Z(int64(i)))
	}
	return None()
}
func nOf(v any) string {
	if i, ok := v.(int); ok && i >= 0 {
		return N(uint64(i))
	}
	return N(99999999)
}

type entry struct {
	k any
	v int
}

// neighbours: ints whose hash shares the low l bits with h (an int below 2^32
// hashes to itself), l = 32 being a full collision
func neighbour(r *runner, h uint32, l uint) int {
	if l >= 32 {
		return int(h)
	}
	mask := uint32(1)<<l - 1
	return int(h&mask | r.g.R.Uint32()&^mask)
}

func (r *runner) mapCase(kind string, a, b any, n int, plant int, deep bool) {
	ia, ib := c08val.Enc(a), c08val.Enc(b)
	rnd := r.g.R
	var hist []entry
	used := map[int]bool{}
	// fillers
	base := rnd.Intn(1 << 20)
	for i := 0; i < n; i++ {
		var k any
		switch {
		case i%3 == 2:
			k = fmt.Sprintf("k%d", base+i)
		default:
			x := base + i*(1+rnd.Intn(3))
			for used[x] {
				x++
			}
			used[x] = true
			k = x
		}
		hist = append(hist, entry{k, i})
	}
	// neighbours sharing 5..32 low hash bits with a and with b
	var nb []entry
	if deep {
		for _, h := range []uint32{vals.Hash(a), vals.Hash(b)} {
			for _, l := range []uint{5, 10, 15, 20, 25, 30, 30, 32} {
				if rnd.Intn(3) > 0 || l == 30 {
					x := neighbour(r, h, l)
					if !used[x] {
						used[x] = true
						nb = append(nb, entry{x, 100000 + len(nb)})
					}
				}
			}
		}
	}
	// planting: 0 none, 1 a, 2 b, 3 a then b, 4 b then a; neighbours go between
	ea, eb := entry{a, 200001}, entry{b, 200002}
	var special []entry
	switch plant {
	case 1:
		special = append([]entry{ea}, nb...)
	case 2:
		special = append([]entry{eb}, nb...)
	case 3:
		special = append(append([]entry{ea}, nb...), eb)
	case 4:
		special = append(append([]entry{eb}, nb...), ea)
	default:
		special = nb
	}
	// insert the special sequence, in order, at random positions
	pos := make([]int, len(special))
	for i := range pos {
		pos[i] = rnd.Intn(len(hist) + 1)
	}
	sortInts(pos)
	var full []entry
	j := 0
	for i := 0; i <= len(hist); i++ {
		for j < len(special) && pos[j] == i {
			full = append(full, special[j])
			j++
		}
		if i < len(hist) {
			full = append(full, hist[i])
		}
	}
	m := vals.EmptyMap
	items := make([]string, len(full))
	for i, e := range full {
		m = m.Assoc(e.k, e.v)
		items[i] = Pair(c08val.Enc(e.k).Coq, Z(int64(e.v)))
	}
	v := 300000
	neqA, neqB := 0, 0
	for it := m.Iterator(); it.HasElem(); it.Next() {
		k, _ := it.Elem()
		if vals.Equal(k, a) {
			neqA++
		}
		if vals.Equal(k, b) {
			neqB++
		}
	}
	r.vs[0].Set(a)
	r.vs[1].Set(b)
	r.vs[2].Set(m)
	r.vs[3].Set(v)
	out, err := r.g.Run(mapCode)
	for len(out) < 20 {
		out = append(out, nil)
	}
	obs := App("mkMapObs", Bool(ob(out[0])), nOf(out[1]), N(uint64(neqA)), N(uint64(neqB)),
		Bool(ob(out[2])), Bool(ob(out[3])), optZ(out[4]), optZ(out[5]),
		nOf(out[6]), nOf(out[7]), Bool(ob(out[8])), Bool(ob(out[9])), Bool(ob(out[10])), optZ(out[11]), optZ(out[12]),
		nOf(out[13]), nOf(out[14]), Bool(ob(out[15])), Bool(ob(out[16])), Bool(ob(out[17])))
	bucket := "map-small"
	switch {
	case len(full) > 300:
		bucket = "map-large"
	case len(full) > 40:
		bucket = "map-medium"
	}
	cl := pairClass(ia, ib, bucket)
	r.c.Count(cl)
	r.c.Count(fmt.Sprintf("map-plant-%d", plant))
	if deep {
		r.c.Count("map-deep-neighbours")
	}
	coq := App("CMap", List(items), ia.Coq, ib.Coq, Z(int64(v)), obs)
	r.c.Emit(reg.Case{
		Coq: coq,
		Desc: desc{Kind: "map/" + kind, A: c08val.Show(a), B: c08val.Show(b), Map: c08val.Show(m),
			Obs: fmt.Sprintf("entries=%d plant=%d keys-eq-a=%d keys-eq-b=%d err=%v out=%v", len(full), plant, neqA, neqB, err, showOut(out))},
		Key: key(coq[:min(len(coq), 4000)] + fmt.Sprint(len(coq))), Nontrivial: ob(out[0]) && len(full) > 0, Class: cl})
}

func showOut(out []any) string {
	s := ""
	for _, o := range out[:18] {
		if m, ok := o.(vals.Map); ok {
			s += fmt.Sprintf("<map %d> ", m.Len())
		} else {
			s += vals.ReprPlain(o) + " "
		}
	}
	return s
}

func sortInts(a []int) {
	for i := 1; i < len(a); i++ {
		for j := i; j > 0 && a[j-1] > a[j]; j-- {
			a[j-1], a[j] = a[j], a[j-1]
		}
	}
}

func (r *runner) size() int {
	rnd := r.g.R
	switch x := rnd.Intn(100); {
	case x < 30:
		return rnd.Intn(6)
	case x < 65:
		return 6 + rnd.Intn(35)
	case x < 93:
		return 41 + rnd.Intn(260)
	default:
		return 301 + rnd.Intn(1700)
	}
}

func run(c *reg.Ctx) {
	g := c08val.New(c.Rand)
	r := &runner{c: c, g: g, vs: g.Vars("a", "b", "m", "v")}
	nz := math.Copysign(0, -1)
	big64, _ := new(big.Int).SetString("18446744073709551616", 10)

	// ---- fixed pairs: the eq-but-differently-built catalogue
	fixed := [][2]any{
		{0.0, nz}, {vals.MakeList(0.0), vals.MakeList(nz)}, {vals.MakeMap("k", 0.0), vals.MakeMap("k", nz)},
		{vals.MakeList(vals.MakeMap("k", vals.MakeList(1, nz))), vals.MakeList(vals.MakeMap("k", vals.MakeList(1, 0.0)))},
		{1477884782, 1477884782.0}, {1, 1.0}, {math.NaN(), math.NaN()}, {vals.MakeList(math.NaN()), vals.MakeList(math.NaN())},
		{big64, new(big.Int).Mul(big.NewInt(1<<32), big.NewInt(1<<32))},
		{big.NewRat(1, 3), big.NewRat(5, 15)}, {big.NewRat(-7, 2), big.NewRat(7, -2)}, {big.NewRat(1, 2), big.NewRat(1, 3)}, {big.NewRat(2, 3), big.NewRat(1, 3)},
		{c08val.FM{Name: "x", Size: 2}, vals.MakeMap("size", 2, "name", "x")},
		{vals.MakeMap("size", 2, "name", "x"), c08val.FM{Name: "x", Size: 2}},
		{c08val.FM{Name: "x", Size: 2}, c08val.FM{Name: "x", Size: 2}},
		{c08val.FM{Name: "x", Size: 2}, c08val.FM2{Key: "x", Val: 2}},
		{g.Opaque[0], g.Opaque[0]}, {g.Opaque[0], g.Opaque[1]}, {g.Opaque[3], g.Opaque[3]}, {g.Opaque[3], g.Opaque[4]},
		{g.Opaque[6], g.Opaque[6]}, {g.Opaque[6], g.Opaque[7]}, {g.Opaque[0], g.Opaque[3]},
		{nil, nil}, {nil, false}, {"", vals.EmptyList}, {vals.EmptyList, vals.EmptyMap}, {"1", 1},
		{vals.MakeList("a", 1), vals.MakeMap("a", 1)}, // same hash, not eq
		{vals.MakeMap("a", 1, "b", 2), vals.MakeMap("b", 2, "a", 1)},
		{vals.MakeMap("a", 1, "b", 2), vals.MakeMap("a", 2, "b", 1)},
		{math.MinInt64, math.MinInt64}, {-1, -1}, {new(big.Int).Neg(big64), new(big.Int).Neg(big64)},
	}
	for _, p := range fixed {
		r.pair("fixed", p[0], p[1])
	}
	// numbers from different operations, through Eval
	for _, code := range []string{
		"put (+ 1 2) (num 3)", "put (/ 6 4) (num 3/2)", "put (* 4294967296 4294967296) (num 18446744073709551616)",
		"put (+ 0.1 0.2) (num 0.30000000000000004)", "put (- 9223372036854775808 1) (num 9223372036854775807)",
		"put (/ 4 2) (num 2)", "put (* -1 0.0) (num 0.0)", "put (- 0.0) (num 0.0)", "put (/ 1 3) (num 2/6)",
		"put [(+ 1 2) a] [3 a][..]", "put [a b c][1..] [b c]", "put (conj [a] b) [a b]",
		"put (assoc [&a=1] b 2) [&b=2 &a=1]", "put (dissoc [&a=1 &b=2] b) [&a=1]", "put (assoc [x y] 0 z) [z y]",
		"put (num 1e3) (num 1000.0)", "put (num 0x10) (num 16)", "put (+ 1/2 1/2) (num 1)", "put (* 1.0 (num 1/2)) (num 0.5)",
		"put (make-map [[a 1] [b 2]]) [&b=2 &a=1]", "put [(- 0.0)] [0.0]", "put [&k=(* -1 0.0)] [&k=0.0]",
	} {
		out, err := g.Run(code)
		if err != nil || len(out) != 2 {
			r.c.Emit(reg.Case{Direct: fmt.Sprintf("harness could not evaluate %q: %v", code, err), Class: "harness", Key: code,
				Desc: desc{Kind: "eval", A: code}})
			continue
		}
		r.pair("ops", out[0], out[1])
	}
	// ---- fixed map cases: the signed-zero keys next to keys sharing 30 hash bits
	for plant := 0; plant <= 4; plant++ {
		r.mapCase("fixed", 0.0, nz, 3, plant, true)
		r.mapCase("fixed", vals.MakeList(nz, "x"), vals.MakeList(0.0, "x"), 10, plant, true)
		r.mapCase("fixed", 1477884782, 1477884782.0, 5, plant, true) // colliding, not eq
		r.mapCase("fixed", big.NewRat(1, 3), big.NewRat(2, 6), 40, plant, true)
	}

	nPair := c.N * 55 / 100
	for i := 0; i < nPair; i++ {
		a := g.Value(3)
		switch x := c.Rand.Intn(100); {
		case x < 55:
			r.pair("rebuilt", a, g.Rebuild(a, false))
		case x < 80:
			r.pair("near", a, g.Near(a))
		default:
			r.pair("random", a, g.Value(3))
		}
	}
	large := 0
	maxLarge := 6
	if c.Tier == "thorough" {
		maxLarge = c.N / 20
	}
	for i := 0; i < c.N-nPair; i++ {
		var a any
		switch c.Rand.Intn(10) {
		case 0:
			a = []any{0.0, nz, vals.MakeList(nz), vals.MakeList(0.0, 1)}[c.Rand.Intn(4)]
		case 1, 2, 3:
			a = g.Num()
		default:
			a = g.Value(2)
		}
		var b any
		kind := "rebuilt"
		switch x := c.Rand.Intn(100); {
		case x < 75:
			b = g.Rebuild(a, false)
		case x < 90:
			b, kind = g.Near(a), "near"
		default:
			b, kind = g.Value(2), "random"
		}
		n := r.size()
		if n > 300 {
			if large >= maxLarge {
				n = 41 + c.Rand.Intn(260)
			} else {
				large++
			}
		}
		r.mapCase(kind, a, b, n, c.Rand.Intn(5), c.Rand.Intn(4) > 0)
	}
}
