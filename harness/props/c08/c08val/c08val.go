// Package c08val: generator and Coq encoder of Elvish values shared by the
// C08 and C09 runners (value model coq/model/C08_Value.v).
package c08val

import (
	"fmt"
	"math"
	"math/big"
	"math/rand"
	"reflect"
	"strings"

	"src.elv.sh/pkg/eval"
	"src.elv.sh/pkg/eval/vals"
	"src.elv.sh/pkg/eval/vars"
	"src.elv.sh/pkg/parse"
	. "verifharness/coqfmt"
)

// FM is a field map (struct with exported fields) as Go code hands them to
// Elvish; it must behave like the map [&name=... &size=...].
type FM struct {
	Name string
	Size int
}

// FM2 has a field holding any value.
type FM2 struct {
	Key any
	Val any
}

// Info is what the encoder learns about a value (input classes are computed
// from it, never from outcomes).
type Info struct {
	Coq        string
	PosZero    bool // contains float +0.0
	NegZero    bool // contains float -0.0
	NaN        bool
	Float      bool // contains any float
	InexactInt bool // contains an int / big.Int inside int64 that float64 cannot represent
	InexactRat bool // contains a big.Rat that float64 cannot represent
	HugeBig    bool // contains a big.Int outside int64
	NegZeroKey bool // a map key contains -0.0
	SubList    bool // contains a list that is a slice view (*vector.subVector)
	PlainList  bool // contains a list that is a plain vector
	Size       int
}

func (a *Info) merge(b Info) {
	a.PosZero = a.PosZero || b.PosZero
	a.NegZero = a.NegZero || b.NegZero
	a.NaN = a.NaN || b.NaN
	a.Float = a.Float || b.Float
	a.InexactInt = a.InexactInt || b.InexactInt
	a.InexactRat = a.InexactRat || b.InexactRat
	a.HugeBig = a.HugeBig || b.HugeBig
	a.NegZeroKey = a.NegZeroKey || b.NegZeroKey
	a.SubList = a.SubList || b.SubList
	a.PlainList = a.PlainList || b.PlainList
	a.Size += b.Size
}

// OpaqueTy gives the model's type number of identity-compared values.
func OpaqueTy(v any) (int, bool) {
	switch v.(type) {
	case *eval.Closure:
		return 0, true
	case *eval.Ns:
		return 2, true
	}
	if reflect.TypeOf(v) != nil && reflect.TypeOf(v).String() == "*eval.goFn" {
		return 1, true
	}
	return 0, false
}

// IsSub tells whether a list is a slice view (Go type *vector.subVector).
func IsSub(l vals.List) bool { return reflect.TypeOf(l).String() == "*vector.subVector" }

// Enc prints a value as a term of the Coq type C08_Value.value.
func Enc(v any) Info {
	switch v := v.(type) {
	case nil:
		return Info{Coq: "VNil", Size: 1}
	case bool:
		return Info{Coq: App("VBool", Bool(v)), Size: 1}
	case int:
		i := Info{Coq: App("VInt", Z(int64(v))), Size: 1}
		i.InexactInt = new(big.Float).SetInt64(int64(v)).Cmp(big.NewFloat(float64(v))) != 0
		return i
	case *big.Int:
		i := Info{Coq: App("VBig", BigZ(v)), Size: 1}
		if v.IsInt64() {
			f := float64(v.Int64())
			i.InexactInt = new(big.Float).SetInt(v).Cmp(big.NewFloat(f)) != 0
		} else {
			i.HugeBig = true
		}
		return i
	case *big.Rat:
		i := Info{Coq: App("VRat", App("mkrat", BigZ(v.Num()), BigZ(v.Denom()))), Size: 1}
		f, _ := v.Float64()
		i.InexactRat = math.IsInf(f, 0) || new(big.Rat).SetFloat64(f).Cmp(v) != 0
		return i
	case float64:
		i := Info{Coq: App("VFloat", N(math.Float64bits(v))), Size: 1, Float: true}
		i.NaN = math.IsNaN(v)
		if v == 0 {
			if math.Signbit(v) {
				i.NegZero = true
			} else {
				i.PosZero = true
			}
		}
		return i
	case string:
		return Info{Coq: App("VStr", Str(v)), Size: 1}
	case vals.List:
		var items []string
		r := Info{Size: 1}
		for it := v.Iterator(); it.HasElem(); it.Next() {
			e := Enc(it.Elem())
			items = append(items, e.Coq)
			r.merge(e)
		}
		sub := IsSub(v)
		r.SubList = r.SubList || sub
		r.PlainList = r.PlainList || !sub
		r.Coq = App("VList", Bool(sub), List(items))
		return r
	case vals.Map:
		var items []string
		r := Info{Size: 1}
		for it := v.Iterator(); it.HasElem(); it.Next() {
			k, x := it.Elem()
			ek, ex := Enc(k), Enc(x)
			items = append(items, Pair(ek.Coq, ex.Coq))
			if ek.NegZero {
				r.NegZeroKey = true
			}
			r.merge(ek)
			r.merge(ex)
		}
		r.Coq = App("VMap", List(items))
		return r
	case FM:
		e1, e2 := Enc(v.Name), Enc(v.Size)
		return Info{Coq: App("VMap", List([]string{Pair(Enc("name").Coq, e1.Coq), Pair(Enc("size").Coq, e2.Coq)})), Size: 3}
	case FM2:
		e1, e2 := Enc(v.Key), Enc(v.Val)
		r := Info{Size: 1}
		r.merge(e1)
		r.merge(e2)
		r.Coq = App("VMap", List([]string{Pair(Enc("key").Coq, e1.Coq), Pair(Enc("val").Coq, e2.Coq)}))
		return r
	}
	if ty, ok := OpaqueTy(v); ok {
		return Info{Coq: App("VOpaque", N(uint64(ty)), N(uint64(reflect.ValueOf(v).Pointer()))), Size: 1}
	}
	panic(fmt.Sprintf("c08val.Enc: unsupported %T", v))
}

// Show is a short printable form for Desc.
func Show(v any) string {
	switch v := v.(type) {
	case float64:
		return fmt.Sprintf("(num %s #%016x)", vals.ToString(v), math.Float64bits(v))
	case int:
		return fmt.Sprintf("(num %d)", v)
	case *big.Int:
		return "(num big " + v.String() + ")"
	case *big.Rat:
		return "(num " + v.String() + ")"
	case vals.List:
		var sb strings.Builder
		sb.WriteString("[")
		for it := v.Iterator(); it.HasElem(); it.Next() {
			sb.WriteString(Show(it.Elem()) + " ")
		}
		return strings.TrimRight(sb.String(), " ") + "]"
	case vals.Map:
		var sb strings.Builder
		sb.WriteString("[&")
		n := 0
		for it := v.Iterator(); it.HasElem(); it.Next() {
			k, x := it.Elem()
			if n == 12 {
				sb.WriteString(fmt.Sprintf("... (%d entries)", v.Len()))
				break
			}
			sb.WriteString(Show(k) + "=" + Show(x) + " &")
			n++
		}
		return strings.TrimRight(sb.String(), " &") + "]"
	case FM, FM2:
		return fmt.Sprintf("fieldmap%+v", v)
	}
	if _, ok := OpaqueTy(v); ok {
		return fmt.Sprintf("<%T %#x>", v, reflect.ValueOf(v).Pointer())
	}
	return vals.ReprPlain(v)
}

// ------------------------------------------------------------------ generator

// G generates values.
type G struct {
	R       *rand.Rand
	Ev      *eval.Evaler
	Opaque  []any // closures, builtin functions, namespaces
	Ranks   string
	capture func(code string) ([]any, error)
}

func two(k uint) *big.Int { return new(big.Int).Lsh(big.NewInt(1), k) }

// New makes a generator with its own Evaler.
func New(r *rand.Rand) *G {
	g := &G{R: r, Ev: eval.NewEvaler()}
	out, err := g.Run("put { } { } {|x| put $x } $put~ $nop~ $eq~ (ns [&]) (ns [&a=b]) (ns [&c=d])")
	if err != nil || len(out) != 9 {
		panic(fmt.Sprint("c08val: cannot make opaque values: ", err, len(out)))
	}
	g.Opaque = out
	// order of the type descriptors as CmpTotal sees it, by model tag
	reps := []any{nil, true, 1, "s", vals.EmptyList, vals.EmptyMap, out[0], out[3], out[6]}
	ranks := make([]string, len(reps))
	for i, a := range reps {
		n := 0
		for _, b := range reps {
			if vals.CmpTotal(b, a) == vals.CmpLess {
				n++
			}
		}
		ranks[i] = Z(int64(n))
	}
	g.Ranks = List(ranks)
	return g
}

// Run evaluates code and returns the values it outputs.
func (g *G) Run(code string) ([]any, error) {
	p, get, err := eval.ValueCapturePort()
	if err != nil {
		return nil, err
	}
	err = g.Ev.Eval(parse.Source{Name: "verif", Code: code},
		eval.EvalCfg{Ports: []*eval.Port{eval.DummyInputPort, p, eval.DummyOutputPort}})
	return get(), err
}

// Vars installs global variables with the given names and returns them.
func (g *G) Vars(names ...string) []vars.Var {
	b := eval.BuildNs()
	vs := make([]vars.Var, len(names))
	for i, n := range names {
		vs[i] = vars.FromInit(nil)
		b.AddVar(n, vs[i])
	}
	g.Ev.ExtendGlobal(b.Ns())
	return vs
}

var specialInts = []int{0, 1, -1, 2, 3, 10, -7, 255, 1 << 30, 1 << 31, 1 << 32, 1477884782,
	1 << 53, 1<<53 + 1, 1<<53 - 1, 1<<53 + 2, 1<<53 + 3, -(1 << 53), -(1 << 53) - 1, -(1 << 53) + 1, -(1 << 53) - 2,
	1<<54 + 2, 1<<54 + 1, 1<<54 + 3, 1<<62 + 1, 1 << 62, math.MaxInt64, math.MaxInt64 - 1, math.MaxInt64 - 512, math.MaxInt64 - 511,
	math.MinInt64, math.MinInt64 + 1, math.MinInt64 + 513}

// Int returns an int with a bias to precision limits.
func (g *G) Int() int {
	switch g.R.Intn(10) {
	case 0, 1, 2:
		return specialInts[g.R.Intn(len(specialInts))]
	case 3, 4, 5:
		return g.R.Intn(21) - 10
	case 6:
		// around 2^k
		k := uint(40 + g.R.Intn(23))
		v := 1<<k + g.R.Intn(7) - 3
		if g.R.Intn(2) == 0 {
			v = -v
		}
		return v
	case 7:
		return int(g.R.Uint64())
	default:
		return g.R.Intn(1<<20) - 1<<19
	}
}

// Big returns a *big.Int outside the range of int.
func (g *G) Big() *big.Int {
	var z *big.Int
	switch g.R.Intn(8) {
	case 0:
		z = two(63)
	case 1:
		z = new(big.Int).Add(two(63), big.NewInt(int64(g.R.Intn(5))))
	case 2:
		z = new(big.Int).Add(two(64), big.NewInt(int64(g.R.Intn(7)-3)))
	case 3:
		z = two(uint(64 + g.R.Intn(70)))
	case 4:
		z = new(big.Int).Add(two(uint(64+g.R.Intn(200))), big.NewInt(int64(g.R.Intn(1000))))
	case 5:
		z = two(uint(1020 + g.R.Intn(10)))
	case 6:
		z = new(big.Int).Sub(two(64*uint(1+g.R.Intn(3))), big.NewInt(1))
	default:
		z = new(big.Int).Rand(g.R, two(uint(65+g.R.Intn(150))))
		z.Add(z, two(64))
	}
	if g.R.Intn(3) == 0 {
		z.Neg(z)
		if z.IsInt64() { // -2^63 is an int
			z.Sub(z, big.NewInt(1))
		}
	}
	return z
}

// Rat returns a non-integer *big.Rat.
func (g *G) Rat() *big.Rat {
	for {
		var r *big.Rat
		switch g.R.Intn(7) {
		case 0:
			r = big.NewRat(int64(g.R.Intn(21)-10), int64(1+g.R.Intn(12)))
		case 1:
			r = big.NewRat(int64(2*g.R.Intn(50)-49), int64(1)<<uint(1+g.R.Intn(60))) // dyadic: exact as float
		case 2:
			r = new(big.Rat).SetFrac(new(big.Int).Add(two(54), big.NewInt(int64(2*g.R.Intn(5)+1))), big.NewInt(2)) // (2^54+odd)/2
		case 3:
			r = new(big.Rat).SetFrac(g.Big(), big.NewInt(int64(2+g.R.Intn(9))))
		case 4:
			r = new(big.Rat).SetFrac(big.NewInt(int64(g.Int())), g.Big())
		case 5:
			r = new(big.Rat).SetFrac(big.NewInt(1), two(uint(1070+g.R.Intn(10)))) // denormal range
		default:
			r = big.NewRat(int64(g.Int()), int64(3+g.R.Intn(1000)))
		}
		if !r.IsInt() {
			return r
		}
	}
}

var specialFloats = []float64{0, math.Copysign(0, -1), 1, -1, 0.5, 0.1, 2, 1e30, -1e30, 1e308, math.MaxFloat64,
	math.SmallestNonzeroFloat64, -math.SmallestNonzeroFloat64, 2.2250738585072014e-308,
	math.Inf(1), math.Inf(-1), math.NaN(), 1 << 53, 1<<53 + 2, -(1 << 53), 1 << 63, -(1 << 63), 1 << 64, 1477884782,
	1 << 62, 1073741824, 0.3333333333333333, 0.30000000000000004}

// ToFloat is vals.ConvertToFloat64's intended meaning, used to build near ties.
func ToFloat(x any) float64 {
	switch x := x.(type) {
	case int:
		return float64(x)
	case *big.Int:
		f, _ := new(big.Float).SetInt(x).Float64()
		return f
	case *big.Rat:
		f, _ := x.Float64()
		return f
	case float64:
		return x
	}
	return 0
}

// Float returns a float64 with a bias to boundary values.
func (g *G) Float() float64 {
	switch g.R.Intn(10) {
	case 0, 1, 2:
		return specialFloats[g.R.Intn(len(specialFloats))]
	case 3:
		return float64(g.R.Intn(21) - 10)
	case 4:
		return math.Float64frombits(g.R.Uint64())
	case 5:
		return ToFloat(g.Int())
	case 6:
		f := ToFloat(g.Int())
		if g.R.Intn(2) == 0 {
			return math.Nextafter(f, math.Inf(1))
		}
		return math.Nextafter(f, math.Inf(-1))
	case 7:
		if g.R.Intn(2) == 0 {
			return ToFloat(g.Big())
		}
		return ToFloat(g.Rat())
	case 8:
		return math.Float64frombits(0x7ff8000000000000 | uint64(g.R.Intn(4))) // NaN payloads
	default:
		return g.R.NormFloat64() * math.Pow(10, float64(g.R.Intn(40)-20))
	}
}

// Num returns a number of any of the four representations.
func (g *G) Num() any {
	switch g.R.Intn(8) {
	case 0, 1, 2:
		return g.Int()
	case 3:
		return g.Big()
	case 4:
		return g.Rat()
	default:
		return g.Float()
	}
}

var strs = []string{"", "a", "b", "ab", "aa", "a\x00", "é", "\xff", "\x80a", "name", "size", "key", "val", "10", "9", "中", "a b"}

func (g *G) Str() string {
	if g.R.Intn(4) == 0 {
		n := g.R.Intn(6)
		b := make([]byte, n)
		for i := range b {
			b[i] = "ab\x00\xff\xc3\xa9z"[g.R.Intn(7)]
		}
		return string(b)
	}
	return strs[g.R.Intn(len(strs))]
}

// Scalar returns a non-container value.
func (g *G) Scalar() any {
	switch g.R.Intn(12) {
	case 0:
		return nil
	case 1:
		return g.R.Intn(2) == 0
	case 2, 3, 4:
		return g.Str()
	case 5:
		return g.Opaque[g.R.Intn(len(g.Opaque))]
	default:
		return g.Num()
	}
}

// Key returns a value usable as a map key inside generated values: no -0.0
// anywhere inside (the model's association list cannot follow the trie when a
// key's hash and eq disagree; that defect is exercised by the dedicated
// map-key cases instead).
func (g *G) Key(depth int) any {
	for {
		v := g.Value(depth)
		if i := Enc(v); !i.NegZero {
			return v
		}
	}
}

// Value returns a random value of nesting depth <= depth.
func (g *G) Value(depth int) any {
	if depth <= 0 || g.R.Intn(5) < 2 {
		return g.Scalar()
	}
	switch g.R.Intn(8) {
	case 0, 1, 2, 3:
		n := g.R.Intn(4)
		l := vals.EmptyList
		for i := 0; i < n; i++ {
			l = l.Conj(g.Value(depth - 1))
		}
		return l
	case 4, 5, 6:
		n := g.R.Intn(4)
		m := vals.EmptyMap
		for i := 0; i < n; i++ {
			m = m.Assoc(g.Key(depth-1), g.Value(depth-1))
		}
		return m
	default:
		if g.R.Intn(2) == 0 {
			return FM{g.Str(), g.R.Intn(5)}
		}
		return FM2{g.Key(depth - 1), g.Value(depth - 1)}
	}
}

// Rebuild returns a value eq to v (as far as the property promises) but
// built differently: other constructors, other insertion orders, field map
// vs map, zeros of the other sign (never inside map keys).
func (g *G) Rebuild(v any, inKey bool) any {
	switch v := v.(type) {
	case int:
		// through big arithmetic and normalisation
		z := new(big.Int).Add(big.NewInt(int64(v)), two(70))
		z.Sub(z, two(70))
		return vals.NormalizeBigInt(z)
	case *big.Int:
		z := new(big.Int).Mul(v, big.NewInt(3))
		return vals.NormalizeBigInt(z.Quo(z, big.NewInt(3)))
	case *big.Rat:
		k := big.NewInt(int64(2 + g.R.Intn(9)))
		return vals.NormalizeBigRat(new(big.Rat).SetFrac(new(big.Int).Mul(v.Num(), k), new(big.Int).Mul(v.Denom(), k)))
	case float64:
		if v == 0 && !inKey && g.R.Intn(2) == 0 {
			return -v
		}
		if v == 0 {
			return v
		}
		return v * 2 / 2
	case string:
		return string(append([]byte(nil), v...))
	case vals.List:
		// elements rebuilt; the list itself built by conj+pop, by assoc over
		// placeholders, or (one time in four) as a slice view of a longer list
		var es []any
		for it := v.Iterator(); it.HasElem(); it.Next() {
			es = append(es, g.Rebuild(it.Elem(), inKey))
		}
		switch g.R.Intn(4) {
		case 0:
			l := vals.EmptyList.Conj("pad")
			for _, e := range es {
				l = l.Conj(e)
			}
			l = l.Conj("pad")
			return l.SubVector(1, l.Len()-1)
		case 1:
			l := vals.EmptyList
			for range es {
				l = l.Conj("placeholder")
			}
			for i := len(es) - 1; i >= 0; i-- {
				l = l.Assoc(i, es[i])
			}
			return l
		default:
			l := vals.EmptyList
			for _, e := range es {
				l = l.Conj(e)
			}
			return l.Conj("extra").Pop()
		}
	case vals.Map:
		type kv struct{ k, v any }
		var es []kv
		for it := v.Iterator(); it.HasElem(); it.Next() {
			k, x := it.Elem()
			es = append(es, kv{g.Rebuild(k, true), g.Rebuild(x, inKey)})
		}
		g.R.Shuffle(len(es), func(i, j int) { es[i], es[j] = es[j], es[i] })
		m := vals.EmptyMap.Assoc("extra-key", "x")
		for _, e := range es {
			m = m.Assoc(e.k, "old")
		}
		for i := len(es) - 1; i >= 0; i-- {
			m = m.Assoc(es[i].k, es[i].v)
		}
		return m.Dissoc("extra-key")
	case FM:
		return vals.MakeMap("size", v.Size, "name", v.Name)
	case FM2:
		return vals.MakeMap("val", g.Rebuild(v.Val, inKey), "key", g.Rebuild(v.Key, true))
	}
	return v
}

// Near returns a value close to v: the same number in another representation
// or rounded, a neighbour, a list/map/string with one small change.
func (g *G) Near(v any) any {
	switch x := v.(type) {
	case int, *big.Int, *big.Rat:
		switch g.R.Intn(6) {
		case 0, 1:
			return ToFloat(x) // the float it is compared as
		case 2:
			f := ToFloat(x)
			if g.R.Intn(2) == 0 {
				return math.Nextafter(f, math.Inf(1))
			}
			return math.Nextafter(f, math.Inf(-1))
		case 3:
			if i, ok := x.(int); ok && i < math.MaxInt64 {
				return i + 1
			}
			if b, ok := x.(*big.Int); ok {
				return vals.NormalizeBigInt(new(big.Int).Add(b, big.NewInt(int64(g.R.Intn(3)-1))))
			}
			if q, ok := x.(*big.Rat); ok {
				switch g.R.Intn(3) {
				case 0: // same numerator, other denominator
					return vals.NormalizeBigRat(new(big.Rat).SetFrac(q.Num(), new(big.Int).Add(q.Denom(), big.NewInt(int64(1+g.R.Intn(3))))))
				case 1: // same denominator, other numerator
					return vals.NormalizeBigRat(new(big.Rat).SetFrac(new(big.Int).Add(q.Num(), big.NewInt(int64(1+g.R.Intn(3)))), q.Denom()))
				}
				return vals.NormalizeBigRat(new(big.Rat).Add(q, big.NewRat(1, int64(1+g.R.Intn(5)))))
			}
			return g.Num()
		case 4:
			if i, ok := x.(int); ok && i > math.MinInt64 {
				return i - 1
			}
			return g.Num()
		default:
			return g.Num()
		}
	case float64:
		if math.IsNaN(x) || math.IsInf(x, 0) {
			return g.Num()
		}
		switch g.R.Intn(5) {
		case 0, 1:
			// the exact value of the float as an exact number, possibly +-1
			r := new(big.Rat)
			r.SetFloat64(x)
			if g.R.Intn(2) == 0 && r.IsInt() {
				r.Add(r, big.NewRat(int64(g.R.Intn(3)-1), 1))
			}
			return vals.NormalizeBigRat(r)
		case 2:
			return math.Nextafter(x, math.Inf(1))
		case 3:
			return -x
		default:
			return g.Num()
		}
	case string:
		if g.R.Intn(2) == 0 {
			return x + string("a\x00\xff"[g.R.Intn(3)])
		}
		if len(x) > 0 {
			return x[:len(x)-1]
		}
		return "a"
	case vals.List:
		n := x.Len()
		switch {
		case n > 0 && g.R.Intn(3) > 0:
			i := g.R.Intn(n)
			e, _ := x.Index(i)
			return x.Assoc(i, g.Near(e))
		case n > 0 && g.R.Intn(2) == 0:
			return x.Pop()
		default:
			return x.Conj(g.Scalar())
		}
	case vals.Map:
		if x.Len() > 0 && g.R.Intn(2) == 0 {
			it := x.Iterator()
			k, val := it.Elem()
			return x.Assoc(k, g.Near(val))
		}
		return x.Assoc(g.Key(0), g.Scalar())
	case bool:
		return !x
	}
	return g.Scalar()
}
