// Package c43: completion inserts text that evaluates to the chosen candidate
// (pkg/edit/complete: complete.go, completers.go, generators.go, raw_item.go,
// filterers.go; pkg/parse/quote.go through Cook).
//
// Each case is one call of complete.Complete on a generated code buffer, in a
// freshly generated directory with hostile file names, together with what an
// independent look at the system gives: the kinds of the parse-tree nodes from
// the leaf at the dot to the root and the pieces of the word at the dot (real
// parser), the listing of the directory named by the typed word (os.ReadDir +
// os.Stat), and, for every offered item, the word that the real parser finds at
// the replaced range after substitution and the value a real Evaler gives it.
package c43

import (
	"fmt"
	"os"
	"path/filepath"
	"sort"
	"strings"
	"unicode"
	"unicode/utf8"

	"src.elv.sh/pkg/edit/complete"
	"src.elv.sh/pkg/eval"
	"src.elv.sh/pkg/eval/vars"
	"src.elv.sh/pkg/parse"
	"src.elv.sh/pkg/parse/np"
	"src.elv.sh/pkg/ui"
	. "verifharness/coqfmt"
	"verifharness/reg"
)

func init() {
	reg.Register(&reg.Spec{ID: "C43",
		Imports: "From verif Require Import lib.Base model.C03 model.C43.",
		Judge:   "C43.judge", Shard: 60, Run: run})
}

type desc struct {
	Buf    string   `json:"buf"` // Go-quoted
	Dot    int      `json:"dot"`
	Dir    []string `json:"dir,omitempty"` // Go-quoted names of the listed directory (d: prefix = directory)
	Typed  string   `json:"typed"`
	Src    string   `json:"src"`
	Path   string   `json:"path"`
	Result string   `json:"result"`
	Items  []string `json:"items,omitempty"`
}

// ---------------------------------------------------------------- Coq printing

var ptypeName = map[parse.PrimaryType]string{parse.Bareword: "TBare", parse.SingleQuoted: "TSingle",
	parse.DoubleQuoted: "TDouble", parse.Variable: "TVar", parse.Tilde: "TTilde"}

type tblSet map[rune]bool

func (t tblSet) add(strs ...string) {
	for _, s := range strs {
		for _, r := range s {
			if r >= 0x80 {
				t[r] = true
			}
		}
	}
}
func (t tblSet) coq() string {
	t[unicode.ReplacementChar] = true
	rs := make([]rune, 0, len(t))
	for r := range t {
		rs = append(rs, r)
	}
	sort.Slice(rs, func(i, j int) bool { return rs[i] < rs[j] })
	items := make([]string, len(rs))
	for i, r := range rs {
		items[i] = Pair(N(uint64(r)), Bool(unicode.IsPrint(r)))
	}
	return List(items)
}

func optBytes(s string, ok bool) string {
	if !ok {
		return None()
	}
	return Some(Str(s))
}

// ---------------------------------------------------------------- worlds

var hostile = []string{"a b", "a'b", `a"b`, "$x", "~t", "~", "a\nb", ".hid", ".h x", "..x", "-dash", "--", "a*b", "*", "a?b", "[x]",
	"é", "éa", "日本", "a\xffb", "\xfe", "ab", "abc", "abd", "a=b", "a,b", "a;b", "a#b", "#c", "a{b}", "a(b", `a\b`, "a\tb", "a|b",
	"a&b", "a>b", "%x", "@y", "a:b", "a^b", "a`b", " lead", "trail ", "a  b", "a b", "​", "a\x01", "a'", "'", `"`, "a'b'c", "a''",
	"b", "ba", "b c", "b'c", "B", "x.y", "$", "a$b", "a~", "e:x", "{", "}", "a}", "(", ")", "<", ">", "&", "|", ";", "a\rb", "a\x7f", "\U0001F600"}

var alphabet = []rune("ab.~-' \"$*?\\#é\n")

func randName(c *reg.Ctx) string {
	if c.Rand.Intn(4) != 0 {
		return hostile[c.Rand.Intn(len(hostile))]
	}
	n := 1 + c.Rand.Intn(4)
	var sb strings.Builder
	for i := 0; i < n; i++ {
		sb.WriteRune(alphabet[c.Rand.Intn(len(alphabet))])
	}
	s := sb.String()
	if s == "." || s == ".." {
		return "a" + s
	}
	return s
}

type world struct {
	root string
	home string            // value of HOME
	sub  []string          // names of subdirectories of root
	vars map[string]string // harness string variables usable in words: name -> value
}

// populate creates a few entries with hostile names in dir.
func populate(c *reg.Ctx, dir string, n int, depth int) (subdirs []string) {
	for i := 0; i < n; i++ {
		name := randName(c)
		if strings.ContainsAny(name, "/\x00") || name == "" {
			continue
		}
		p := filepath.Join(dir, "x")
		p = p[:len(p)-1] + name // no cleaning of the name
		switch k := c.Rand.Intn(10); {
		case k < 6:
			os.WriteFile(p, nil, 0o644)
		case k < 8:
			if os.Mkdir(p, 0o755) == nil {
				subdirs = append(subdirs, name)
				if depth > 0 {
					populate(c, p, 1+c.Rand.Intn(4), depth-1)
				}
			}
		case k == 8:
			// symlink to a directory or to a file
			if c.Rand.Intn(2) == 0 {
				os.Symlink(".", p)
			} else {
				os.Symlink("/dev/null", p)
			}
		default:
			os.Symlink("does-not-exist", p)
		}
	}
	return subdirs
}

func newWorld(c *reg.Ctx, i int) *world {
	root := filepath.Join(c.Scratch, fmt.Sprintf("w%d", i))
	os.MkdirAll(root, 0o755)
	w := &world{root: root, vars: map[string]string{}}
	w.sub = populate(c, root, 3+c.Rand.Intn(14), 1)
	// a benign subdirectory that always exists
	os.Mkdir(filepath.Join(root, "sub"), 0o755)
	populate(c, filepath.Join(root, "sub"), 1+c.Rand.Intn(5), 0)
	w.sub = append(w.sub, "sub")
	// HOME: a directory with a hostile name
	homeName := []string{"home", "ho me", "h'ome", "hómé"}[c.Rand.Intn(4)]
	w.home = filepath.Join(root, homeName)
	os.Mkdir(w.home, 0o755)
	populate(c, w.home, 1+c.Rand.Intn(5), 0)
	w.sub = append(w.sub, homeName)
	w.vars["d"] = "sub"
	w.vars["r"] = root
	return w
}

// ---------------------------------------------------------------- typed words

type piece struct {
	style parse.PrimaryType
	value string // the value of the piece (for Tilde: unused)
	text  string // as typed
}

func bareSafe(s string) bool {
	if s == "" || s[0] == '~' {
		return false
	}
	q, t := parse.QuoteAs(s, parse.Bareword)
	return t == parse.Bareword && q == s && !strings.ContainsAny(s, "=,") // not a use of the result: which inputs to type bare
}

// typedWord builds the text of a (possibly unterminated) word with the given
// value in the given style. closed=false leaves the quote open.
func typeQuoted(style parse.PrimaryType, v string, closed bool) string {
	switch style {
	case parse.SingleQuoted:
		t := "'" + strings.ReplaceAll(v, "'", "''")
		if closed {
			t += "'"
		}
		return t
	case parse.DoubleQuoted:
		var sb strings.Builder
		sb.WriteByte('"')
		for i := 0; i < len(v); {
			r, w := utf8.DecodeRuneInString(v[i:])
			switch {
			case r == utf8.RuneError && w == 1:
				fmt.Fprintf(&sb, `\x%02x`, v[i])
			case r == '"' || r == '\\':
				sb.WriteByte('\\')
				sb.WriteRune(r)
			case r == '\n':
				sb.WriteString(`\n`)
			case r == '\t':
				sb.WriteString(`\t`)
			case r < 0x20 || r == 0x7f:
				fmt.Fprintf(&sb, `\x%02x`, r)
			default:
				sb.WriteRune(r)
			}
			i += w
		}
		if closed {
			sb.WriteByte('"')
		}
		return sb.String()
	}
	return v
}

func runePrefix(c *reg.Ctx, s string) string {
	// a prefix of s ending on a rune boundary (or anywhere for invalid UTF-8)
	var cuts []int
	for i := range s {
		cuts = append(cuts, i)
	}
	cuts = append(cuts, len(s))
	return s[:cuts[c.Rand.Intn(len(cuts))]]
}

// ---------------------------------------------------------------- observation of the tree

func kindOf(path np.Path, i int) string {
	switch n := path[i].(type) {
	case *parse.Chunk:
		return "KChunk"
	case *parse.Pipeline:
		return "KPipeline"
	case *parse.Form:
		headIs := false
		if i > 0 {
			if cn, ok := path[i-1].(*parse.Compound); ok && n.Head == cn {
				headIs = true
			}
		}
		return App("KForm", Bool(n.Head != nil), Bool(headIs))
	case *parse.Sep:
		return "KSep"
	case *parse.Primary:
		if name, ok := ptypeName[n.Type]; ok {
			return "(KPrimary (PStr " + name + "))"
		}
		if n.Type == parse.OutputCapture || n.Type == parse.ExceptionCapture || n.Type == parse.Lambda {
			return "(KPrimary PCapture)"
		}
		return "(KPrimary POtherPrim)"
	case *parse.Indexing:
		return "KIndexing"
	case *parse.Compound:
		return "KCompound"
	case *parse.Array:
		return "KArray"
	case *parse.Redir:
		return "KRedir"
	}
	return "KOtherNode"
}

// literalValue gives the string a compound of literal pieces (and harness
// variables) stands for, independent of the Evaler.
func (w *world) literalValue(cn *parse.Compound) (string, bool) {
	if cn == nil {
		return "", false
	}
	v := ""
	for _, in := range cn.Indexings {
		if len(in.Indices) > 0 {
			return "", false
		}
		switch in.Head.Type {
		case parse.Bareword, parse.SingleQuoted, parse.DoubleQuoted:
			v += in.Head.Value
		default:
			return "", false
		}
	}
	return v, true
}

func (w *world) treeObs(tbl tblSet, path np.Path) (coq string, shape string) {
	kinds := make([]string, len(path))
	for i := range path {
		kinds[i] = kindOf(path, i)
	}
	shape = strings.Join(kinds, " ")
	leafTo, upto, cfrom, cto := 0, 0, 0, 0
	leafType := "TBare"
	var pieces []string
	head, headOK := "", false
	var form *parse.Form
	if len(path) > 0 {
		leafTo = path[0].Range().To
		if _, ok := path[0].(*parse.Sep); ok && len(path) > 1 {
			form, _ = path[1].(*parse.Form)
		}
	}
	if len(path) >= 3 {
		pn, ok1 := path[0].(*parse.Primary)
		in, ok2 := path[1].(*parse.Indexing)
		cn, ok3 := path[2].(*parse.Compound)
		if ok1 && ok2 && ok3 {
			if name, ok := ptypeName[pn.Type]; ok {
				leafType = name
			}
			upto = in.Range().To
			cfrom, cto = cn.Range().From, cn.Range().To
			for _, x := range cn.Indexings {
				ty, val := None(), None()
				if name, ok := ptypeName[x.Head.Type]; ok {
					ty = Some(name)
					switch x.Head.Type {
					case parse.Variable:
						if v, ok := w.vars[x.Head.Value]; ok {
							val = Some(Str(v))
							tbl.add(v)
						}
					default:
						val = Some(Str(x.Head.Value))
						tbl.add(x.Head.Value)
					}
				}
				pieces = append(pieces, App("mkPiece", ty, val, Bool(len(x.Indices) > 0), Nat(x.Range().To)))
			}
			if len(path) > 3 {
				form, _ = path[3].(*parse.Form)
			}
		}
	}
	if form != nil && form.Head != nil {
		head, headOK = w.literalValue(form.Head)
		tbl.add(head)
	}
	leafFrom, leafVal := 0, ""
	if len(path) > 0 {
		leafFrom = path[0].Range().From
		if pn, ok := path[0].(*parse.Primary); ok {
			leafVal = pn.Value
			tbl.add(leafVal)
		}
	}
	coq = App("mkTree", List(kinds), Nat(leafTo), List(pieces), Nat(upto), leafType, Nat(cfrom), Nat(cto), optBytes(head, headOK),
		Nat(leafFrom), Str(leafVal))
	return coq, shape
}

// ---------------------------------------------------------------- observation of an item

func compoundAt(n parse.Node, from int) *parse.Compound {
	if cn, ok := n.(*parse.Compound); ok && cn.Range().From == from {
		return cn
	}
	for _, ch := range parse.Children(n) {
		if ch.Range().From <= from && from <= ch.Range().To {
			if cn := compoundAt(ch, from); cn != nil {
				return cn
			}
		}
	}
	return nil
}

func variableAt(n parse.Node, pos int) *parse.Primary {
	if pn, ok := n.(*parse.Primary); ok && pn.Type == parse.Variable && pn.Range().From < pos && pos <= pn.Range().To {
		return pn
	}
	for _, ch := range parse.Children(n) {
		if ch.Range().From <= pos && pos <= ch.Range().To {
			if pn := variableAt(ch, pos); pn != nil {
				return pn
			}
		}
	}
	return nil
}

func (w *world) evalValues(ev *eval.Evaler, src string) (vs []any, parseErr bool, err error) {
	defer func() {
		if r := recover(); r != nil {
			err = fmt.Errorf("panic: %v", r)
		}
	}()
	port, collect, perr := eval.ValueCapturePort()
	if perr != nil {
		return nil, false, perr
	}
	err = ev.Eval(parse.Source{Name: "[c43]", Code: src}, eval.EvalCfg{Ports: []*eval.Port{nil, port, nil}})
	vs = collect()
	if err != nil && len(parse.UnpackErrors(err)) > 0 {
		return vs, true, err
	}
	return vs, false, err
}

func (w *world) evalWord(ev *eval.Evaler, word string) (coq, show string) {
	vs, perr, err := w.evalValues(ev, "put "+word)
	switch {
	case perr:
		return "EParseErr", "parse-error"
	case err != nil:
		return "EOtherObs", "error " + err.Error()
	case len(vs) != 1:
		return "EOtherObs", fmt.Sprintf("%d values", len(vs))
	}
	s, ok := vs[0].(string)
	if !ok {
		return "EOtherObs", "non-string"
	}
	return App("EStr", Str(s)), fmt.Sprintf("%q", s)
}

// itemObs substitutes the item and looks at the word that the real parser
// finds at from, and at its value according to a real Evaler.
func (w *world) itemObs(tbl tblSet, ev *eval.Evaler, buf string, from, to int, ins string) (coq, show string) {
	if from < 0 || to < from || to > len(buf) {
		return App("mkIObs", "WNoWord", "EOtherObs"), "range outside buffer"
	}
	newbuf := buf[:from] + ins + buf[to:]
	tree, _ := parse.Parse(parse.Source{Name: "[c43]", Code: newbuf}, parse.Config{})
	cn := compoundAt(tree.Root, from)
	if cn == nil {
		return App("mkIObs", "WNoWord", "EOtherObs"), "no word at the position"
	}
	var ps []string
	literal := true
	for _, in := range cn.Indexings {
		name, ok := ptypeName[in.Head.Type]
		if !ok || len(in.Indices) > 0 {
			literal = false
			break
		}
		ps = append(ps, Pair(name, Str(in.Head.Value)))
		tbl.add(in.Head.Value)
	}
	if !literal {
		return App("mkIObs", "WNoWord", "EOtherObs"), "not a literal word: " + parse.SourceText(cn)
	}
	ecoq, eshow := w.evalWord(ev, parse.SourceText(cn))
	if ecoq == "EParseErr" {
		// a parse error inside the word itself (it is evaluated alone)
		return App("mkIObs", "WParseErr", "EParseErr"), "parse error in the word " + parse.SourceText(cn)
	}
	return App("mkIObs", App("WWord", List(ps), Nat(cn.Range().To-from)), ecoq),
		fmt.Sprintf("word %q = %s", parse.SourceText(cn), eshow)
}

const valPrefix = "C43VAL:"

// varItemObs: the completed text is the name part of a variable reference.
func (w *world) varItemObs(ev *eval.Evaler, buf string, from, to int, ins string, typedPrefixLen int) (coq, show string) {
	bad := func(s string) (string, string) { return App("mkIObs", "WNoWord", "EOtherObs"), s }
	if from < 0 || to < from || to > len(buf) {
		return bad("range outside buffer")
	}
	newbuf := buf[:from] + ins + buf[to:]
	tree, _ := parse.Parse(parse.Source{Name: "[c43]", Code: newbuf}, parse.Config{})
	pn := variableAt(tree.Root, from+len(ins))
	if pn == nil || pn.Range().To != from+len(ins) {
		return bad("no variable primary ending after the inserted text")
	}
	name := pn.Value
	if typedPrefixLen <= len(name) {
		name = name[typedPrefixLen:]
	}
	vs, perr, err := w.evalValues(ev, "put "+parse.SourceText(pn))
	if perr {
		return App("mkIObs", "WNoWord", "EParseErr"), "parse error"
	}
	if strings.HasSuffix(ins, ":") {
		// a namespace prefix (e: E: or ns:) is offered for further completion, not a variable
		return App("mkIObs", "WNoWord", App("EStr", Str(name))), "namespace " + name
	}
	if err == nil && strings.HasPrefix(pn.Value, "@") {
		// an exploded variable: only that it is a readable variable is observed
		return App("mkIObs", "WNoWord", App("EStr", Str(name))), "exploded variable " + name
	}
	if err != nil || len(vs) != 1 {
		return bad(fmt.Sprintf("evaluation of %q: %d values, err=%v", parse.SourceText(pn), len(vs), err))
	}
	if s, ok := vs[0].(string); ok && strings.HasPrefix(s, valPrefix) {
		name = s[len(valPrefix):]
	}
	return App("mkIObs", "WNoWord", App("EStr", Str(name))), fmt.Sprintf("variable %q", name)
}

// ---------------------------------------------------------------- one case

type template struct {
	pre, post string
	kind      string // arg | redir | cmd | none | idx
}

var templates = []template{
	{"echo ", "", "arg"}, {"echo ", "", "arg"}, {"echo ", "", "arg"}, {"echo a ", "", "arg"}, {"nop x | echo ", "", "arg"}, {"echo a; echo ", "", "arg"},
	{"echo (echo ", "", "arg"}, {"{ echo ", "", "arg"}, {"if $true { echo ", "", "arg"}, {"echo a\necho ", "", "arg"},
	{"echo 'q q' \"z\" ", "", "arg"}, {"echo ", " b", "arg"}, {"echo ", "; nop", "arg"}, {"echo ", " | nop", "arg"}, {"é ", "", "arg"},
	{"echo a > ", "", "redir"}, {"echo a >", "", "redir"}, {"echo a 2>> ", "", "redir"}, {"echo < ", "", "redir"}, {"echo a > ", " b", "redir"},
	{"", "", "cmd"}, {"nop; ", "", "cmd"}, {"nop | ", "", "cmd"}, {"echo (", "", "cmd"},
	{"echo [", "", "none"}, {"echo {", "", "none"}, {"echo [&k=", "", "none"}, {"echo &k=", "", "none"}, {"echo a*", "", "none"},
	{"echo # ", "", "comment"}, {"echo a #x", "", "comment"}, {"echo a # b ", "", "comment"},
}

type fixedGen struct {
	items []complete.RawItem
	coq   []string
	args  [][]string
}

func (w *world) fixedCandidates(c *reg.Ctx, tbl tblSet) *fixedGen {
	g := &fixedGen{}
	n := c.Rand.Intn(12)
	for i := 0; i < n; i++ {
		s := randName(c)
		if c.Rand.Intn(12) == 0 {
			s = ""
		}
		if c.Rand.Intn(3) == 0 && len(g.items) > 0 {
			// duplicates and common prefixes
			s = g.items[c.Rand.Intn(len(g.items))].String() + []string{"", "", "x", " "}[c.Rand.Intn(4)]
		}
		tbl.add(s)
		// the cooking of a stem is a function of the stem (sort.Slice is not stable)
		switch (len(s) + int(sum(s))) % 3 {
		case 0:
			g.items = append(g.items, complete.PlainItem(s))
			g.coq = append(g.coq, App("RPlain", Str(s)))
		case 1:
			g.items = append(g.items, complete.ComplexItem{Stem: s, CodeSuffix: " "})
			g.coq = append(g.coq, App("RComplex", Str(s), Str(" ")))
		default:
			g.items = append(g.items, complete.ComplexItem{Stem: s})
			g.coq = append(g.coq, App("RComplex", Str(s), Str("")))
		}
	}
	return g
}

func sum(s string) (n byte) {
	for i := 0; i < len(s); i++ {
		n += s[i]
	}
	return n
}

// listing reads dir the way an independent observer would: names, and whether
// each is a directory after following symbolic links.
func listing(dir string, tbl tblSet) (coq string, names []string) {
	d := dir
	if d == "" {
		d = "."
	}
	f, err := os.Open(d)
	if err != nil {
		return None(), nil
	}
	defer f.Close()
	ns, err := f.Readdirnames(-1)
	if err != nil {
		return None(), nil
	}
	sort.Strings(ns)
	var es []string
	for _, n := range ns {
		st, err := os.Stat(d + "/" + n)
		isDir := err == nil && st.IsDir()
		es = append(es, Pair(Str(n), Bool(isDir)))
		tbl.add(n)
		if isDir {
			names = append(names, "d:"+fmt.Sprintf("%q", n))
		} else {
			names = append(names, fmt.Sprintf("%q", n))
		}
	}
	return Some(List(es)), names
}

func pickTemplate(c *reg.Ctx, forced string) template {
	for {
		t := templates[c.Rand.Intn(len(templates))]
		if forced == "" || t.kind == forced {
			return t
		}
	}
}

func (w *world) oneCase(c *reg.Ctx, ev *eval.Evaler, t template) {
	tbl := tblSet{}
	// ---- the word typed at the dot
	var pieces []piece
	dotPiece, dotOff := -1, 0
	style, value := parse.Bareword, ""
	wordKind := "new"
	atEnd := t.post == ""
	if t.kind == "comment" || t.kind == "var" || c.Rand.Intn(6) == 0 {
		// a new word
	} else {
		// choose the value: a prefix of an existing path, or random
		dirPart := ""
		tildeHome := false
		switch k := c.Rand.Intn(12); {
		case k < 6:
		case k < 8:
			dirPart = w.sub[c.Rand.Intn(len(w.sub))] + "/"
		case k == 8:
			dirPart = "./"
		case k == 9:
			dirPart = "sub//"
		case k == 10:
			tildeHome = true
		default:
			dirPart = "nonexistent dir/"
		}
		listDir := dirPart
		if tildeHome {
			listDir = w.home + "/"
		}
		var names []string
		if f, err := os.Open(map[bool]string{true: ".", false: listDir}[listDir == ""]); err == nil {
			names, _ = f.Readdirnames(-1)
			f.Close()
		}
		filePart := ""
		if len(names) > 0 && c.Rand.Intn(5) != 0 {
			filePart = runePrefix(c, names[c.Rand.Intn(len(names))])
		} else if c.Rand.Intn(2) == 0 {
			filePart = runePrefix(c, randName(c))
		}
		// cut into pieces
		full := dirPart + filePart
		if tildeHome {
			pieces = append(pieces, piece{parse.Tilde, "", "~"})
			full = "/" + filePart
			if c.Rand.Intn(4) == 0 {
				full = ""
			}
		} else if dirPart == "sub/" && c.Rand.Intn(3) == 0 {
			pieces = append(pieces, piece{parse.Variable, "sub", "$d"})
			full = "/" + filePart
		}
		nCuts := 0
		if len(full) > 1 && c.Rand.Intn(4) == 0 {
			nCuts = 1 + c.Rand.Intn(2)
		}
		rest := full
		for i := 0; i <= nCuts && (rest != "" || i == 0); i++ {
			part := rest
			if i < nCuts {
				part = runePrefix(c, rest)
			}
			rest = rest[len(part):]
			if part == "" && len(pieces) > 0 && i < nCuts {
				continue
			}
			last := i == nCuts || rest == ""
			// style of this piece
			st := []parse.PrimaryType{parse.Bareword, parse.Bareword, parse.SingleQuoted, parse.DoubleQuoted}[c.Rand.Intn(4)]
			prevBare := len(pieces) > 0 && pieces[len(pieces)-1].style == parse.Bareword
			prevVar := len(pieces) > 0 && pieces[len(pieces)-1].style == parse.Variable
			if st == parse.Bareword && (!bareSafe(part) || prevBare || (prevVar && !strings.HasPrefix(part, "/")) ||
				(len(pieces) > 0 && pieces[len(pieces)-1].style == parse.Tilde && !strings.HasPrefix(part, "/"))) {
				st = parse.SingleQuoted
			}
			if st == parse.SingleQuoted && len(pieces) > 0 && pieces[len(pieces)-1].style == parse.SingleQuoted {
				st = parse.DoubleQuoted // two adjacent single-quoted pieces would read as one with an escaped quote
			}
			if st == parse.SingleQuoted && !utf8.ValidString(part) {
				st = parse.DoubleQuoted
			}
			closed := !(last && atEnd && c.Rand.Intn(3) != 0)
			if part == "" && st == parse.Bareword {
				continue
			}
			pieces = append(pieces, piece{st, part, typeQuoted(st, part, closed)})
			if last {
				break
			}
		}
		// dot: usually at the end of the last piece
		if len(pieces) > 0 {
			dotPiece = len(pieces) - 1
			dotOff = len(pieces[dotPiece].text)
			if c.Rand.Intn(6) == 0 {
				dotPiece = c.Rand.Intn(len(pieces))
				txt := pieces[dotPiece].text
				cut := runePrefix(c, txt)
				if cut == "" {
					cut = txt
				}
				dotOff = len(cut)
			}
			for i := 0; i <= dotPiece; i++ {
				switch pieces[i].style {
				case parse.Tilde:
					value += w.home
				default:
					value += pieces[i].value
				}
			}
			style = pieces[dotPiece].style
			wordKind = strings.ToLower(strings.TrimPrefix(ptypeName[style], "T"))
			if len(pieces) > 1 {
				wordKind += "-multi"
			}
		}
	}
	useFixed := t.kind == "arg" && c.Rand.Intn(4) == 0
	w.runCase(c, ev, t, tbl, pieces, dotPiece, dotOff, style, value, wordKind, useFixed, "")
}

// runCase types the pieces into the template, calls complete.Complete and emits
// the case with all independent observations.
func (w *world) runCase(c *reg.Ctx, ev *eval.Evaler, t template, tbl tblSet, pieces []piece, dotPiece, dotOff int,
	style parse.PrimaryType, value, wordKind string, useFixed bool, classSuffix string) {
	buf := t.pre
	dot := len(buf)
	for i, p := range pieces {
		if i == dotPiece {
			dot = len(buf) + dotOff
		}
		buf += p.text
	}
	buf += t.post
	tbl.add(buf, value)

	// ---- configuration: file names from the file system, or a fixed generator
	cfg := complete.Config{}
	var fg *fixedGen
	srcKind := "files"
	if useFixed {
		fg = w.fixedCandidates(c, tbl)
		cfg.ArgGenerator = func(args []string) ([]complete.RawItem, error) {
			fg.args = append(fg.args, args)
			return append([]complete.RawItem(nil), fg.items...), nil
		}
		srcKind = "fixed"
	}

	// ---- the implementation
	var res *complete.Result
	var cerr error
	var panicked any
	func() {
		defer func() { panicked = recover() }()
		res, cerr = complete.Complete(complete.CodeBuffer{Content: buf, Dot: dot}, ev, cfg)
	}()

	// ---- independent observations
	tree, _ := parse.Parse(parse.Source{Name: "[c43]", Code: buf}, parse.Config{})
	path := np.FindLeft(tree.Root, dot)
	treeCoq, shape := w.treeObs(tbl, path)
	homes := List([]string{Pair(Str(""), Str(strings.TrimRight(w.home, "/")))})
	tbl.add(w.home)

	// the directory named by the typed value
	var d desc
	srcCoq := "GNotModelled"
	isVarCtx := res != nil && res.Name == "variable"
	isFileCtx := res == nil || res.Name == "argument" || res.Name == "redir"
	typedValue := value
	varNs := ""
	if isVarCtx {
		// the typed name seed: the variable primary's text after the sigil and namespace
		if pn, ok := path[0].(*parse.Primary); ok {
			qname := strings.TrimPrefix(pn.Value, "@")
			varNs = qname[:strings.LastIndexByte(qname, ':')+1]
			typedValue = qname[len(varNs):]
		}
	}
	// variable completion in the global scope: the names in scope are an input of the model
	varModelled := isVarCtx && (varNs == "" || varNs == ":")
	if varModelled {
		var names []string
		add := func(n string) { names = append(names, Str(n)); tbl.add(n) }
		ev.Global().IterateKeysString(add)
		ev.Builtin().IterateKeysString(add)
		srcCoq = App("GVars", List(names))
		d.Src = fmt.Sprintf("%d variable names in scope", len(names))
	}
	if isFileCtx && fg != nil {
		srcCoq = App("GFixed", List(fg.coq))
		d.Src = "fixed generator"
	} else if isFileCtx {
		dirOf := value[:strings.LastIndex(value, "/")+1]
		lcoq, names := listing(dirOf, tbl)
		dirToRead := dirOf
		if dirToRead == "" {
			dirToRead = "."
		}
		tbl.add(dirToRead)
		srcCoq = App("GFiles", Str(dirToRead), lcoq)
		d.Dir = names
		d.Src = fmt.Sprintf("files of %q", dirToRead)
	}

	class := t.kind + "/" + wordKind + classSuffix
	if len(path) > 0 {
		if pn, ok := path[0].(*parse.Primary); ok && pn.Type == parse.Variable {
			switch {
			case strings.HasPrefix(pn.Value, "@"):
				// candidates that need quoting cannot be written after the explode sigil
				class = "variable-quoted-name-after-sigil"
			case strings.HasPrefix(pn.Value, ":"):
				// the empty namespace prefix is no longer valid syntax for a global variable
				class = "variable-colon-namespace"
			}
		}
	}
	if sep, ok := pathLeafSep(path); ok {
		txt := parse.SourceText(sep)
		if i := strings.LastIndexByte(txt, '#'); i >= 0 && !strings.Contains(txt[i:], "\n") {
			class = "new-word-in-comment"
		} else if p2 := np.Find(tree.Root, sep.Range().To); len(p2) > 0 {
			if pn, ok := p2[0].(*parse.Primary); ok && pn.Range().From == sep.Range().To {
				class = "new-word-directly-before-word"
			}
		}
	}

	resCoq := None()
	var obs []string
	d.Buf, d.Dot, d.Path = fmt.Sprintf("%q", buf), dot, shape
	d.Typed = fmt.Sprintf("%s %q", ptypeName[style], typedValue)
	nontrivial := false
	if panicked != nil {
		c.Emit(reg.Case{Desc: d, Key: fmt.Sprintf("%q/%d", buf, dot), Class: class,
			Direct: fmt.Sprintf("complete.Complete panicked: %v", panicked)})
		return
	}
	if cerr != nil || res == nil {
		d.Result = fmt.Sprintf("no completion (%v)", cerr)
	} else {
		name := map[string]string{"argument": "NArgument", "redir": "NRedir", "command": "NCommand",
			"variable": "NVariable", "index": "NIndex"}[res.Name]
		if name == "" {
			name = "NIndex"
		}
		var items []string
		typedPrefixLen := 0
		if isVarCtx {
			if pn, ok := path[0].(*parse.Primary); ok {
				typedPrefixLen = len(pn.Value) - len(typedValue)
			}
		}
		limit := len(res.Items)
		if !isFileCtx && !varModelled && limit > 12 {
			// command and variable completion offer hundreds of builtins: sample
			limit = 12
		}
		stride := 1
		if !isFileCtx && !varModelled && len(res.Items) > limit {
			stride = len(res.Items) / limit
		}
		kept := 0
		for i := 0; i < len(res.Items) && (isFileCtx || varModelled || kept < limit); i += stride {
			it := res.Items[i]
			shown := textOf(it.ToShow)
			tbl.add(it.ToInsert, shown)
			items = append(items, App("mkItem", Str(it.ToInsert), Str(shown)))
			var o, s string
			if isVarCtx {
				o, s = w.varItemObs(ev, buf, res.Replace.From, res.Replace.To, it.ToInsert, typedPrefixLen)
			} else {
				o, s = w.itemObs(tbl, ev, buf, res.Replace.From, res.Replace.To, it.ToInsert)
			}
			obs = append(obs, o)
			d.Items = append(d.Items, fmt.Sprintf("%q shown %q -> %s", it.ToInsert, shown, s))
			kept++
		}
		if !isFileCtx && !varModelled {
			// sampled: the model abstains on these contexts anyway
			srcCoq = "GNotModelled"
		}
		resCoq = Some(App("mkRes", name, Nat(res.Replace.From), Nat(res.Replace.To), List(items)))
		d.Result = fmt.Sprintf("%s [%d,%d) %d items", res.Name, res.Replace.From, res.Replace.To, len(res.Items))
		nontrivial = len(res.Items) > 0
		if res.Replace.From < 0 || res.Replace.To < 0 {
			c.Emit(reg.Case{Desc: d, Key: fmt.Sprintf("%q/%d", buf, dot), Class: class,
				Direct: fmt.Sprintf("negative replace range [%d,%d)", res.Replace.From, res.Replace.To)})
			return
		}
	}
	c.Count(class + "/" + srcKind)
	if res != nil {
		c.Count("result/" + res.Name)
	} else {
		c.Count("result/none")
	}
	coq := App("mkCase", tbl.coq(), Str(buf), Nat(dot), treeCoq, homes, srcCoq,
		App("mkTyped", ptypeName[style], Str(typedValue)), resCoq, List(obs))
	c.Emit(reg.Case{Coq: coq, Desc: d, Key: fmt.Sprintf("%s|%q/%d/%s/%v", w.root, buf, dot, srcKind, d.Dir),
		Nontrivial: nontrivial, Class: class})
}

// ---------------------------------------------------------------- planted cases

// plantedNames: one representative (at least) of every hostile class, present in
// EVERY run whatever the seed: invalid UTF-8 (Latin-1 name, lone continuation and
// lead bytes), control bytes, newline / tab / CR / DEL, both quotes, dollar,
// tilde, leading dashes and dots, glob and other metacharacters, unprintable and
// astral unicode, U+FFFD itself, spaces.
var plantedNames = []string{
	"caf\xe9", "a\xffb", "\xfe", "\x80x", "ab\xc3", "\xe6\x97", "a\xef\xbf\xbdb",
	"a\x01", "a\x1bb", "a\nb", "a\tb", "a\rb", "a\x7f",
	"a'b", "'", "a''", `a"b`, `"`, `a\b`,
	"$x", "a$b", "$", "~t", "~", "a~",
	"-dash", "--", "-", ".hid", ".h x", "..x", "...",
	"a*b", "*", "a?b", "?", "[x]", "a[", "{a,b}", "a{b}",
	"a b", " lead", "trail ", "a  b", "a;b", "a|b", "a&b", "a>b", "a<b", "a(b", "a)b", "#c", "a#b", "a=b", "a,b", "a`b", "a^b", "%x", "@y", "a:b", "e:x",
	"é", "日本", "\u200b", "\u00a0x", "\U0001F600", "plain", "Plain2",
}

// planted runs, in a fixed world, every hostile name through argument completion
// in all three seed styles: the names are spread over the directories p0..p3 and
// each directory is completed with the seeds  pN/  'pN/  "pN/  (every entry is
// offered), with a one-rune prefix of every entry in both quoted styles (and bare
// when the prefix is a bareword), and as a redirection target.
func planted(c *reg.Ctx) {
	root := filepath.Join(c.Scratch, "planted")
	os.MkdirAll(root, 0o755)
	w := &world{root: root, home: filepath.Join(root, "home"), vars: map[string]string{"d": "sub", "r": root}}
	os.Mkdir(w.home, 0o755)
	os.Mkdir(filepath.Join(root, "sub"), 0o755)
	const nDirs = 4
	dirs := make([][]string, nDirs)
	for i, n := range plantedNames {
		k := i % nDirs
		d := filepath.Join(root, fmt.Sprintf("p%d", k))
		os.MkdirAll(d, 0o755)
		p := d + "/" + n
		var err error
		if i%5 == 4 {
			err = os.Mkdir(p, 0o755)
		} else {
			err = os.WriteFile(p, nil, 0o644)
		}
		if err == nil {
			dirs[k] = append(dirs[k], n)
		}
	}
	oldwd, _ := os.Getwd()
	os.Chdir(root)
	os.Setenv("HOME", w.home)
	defer os.Chdir(oldwd)
	ev := eval.NewEvaler()
	styles := []parse.PrimaryType{parse.Bareword, parse.SingleQuoted, parse.DoubleQuoted}
	emit := func(t template, st parse.PrimaryType, v string, closed bool) {
		if st == parse.Bareword && !bareSafe(v) {
			return
		}
		if st == parse.SingleQuoted && !utf8.ValidString(v) {
			return // cannot be typed in single quotes
		}
		text := typeQuoted(st, v, closed)
		kind := strings.ToLower(strings.TrimPrefix(ptypeName[st], "T"))
		w.runCase(c, ev, t, tblSet{}, []piece{{st, v, text}}, 0, len(text), st, v, kind, false, "/planted")
	}
	arg, redir := template{"echo ", "", "arg"}, template{"echo a > ", "", "redir"}
	for k := 0; k < nDirs; k++ {
		dir := fmt.Sprintf("p%d/", k)
		for _, st := range styles {
			emit(arg, st, dir, false)
		}
		emit(redir, parse.SingleQuoted, dir, true)
		// one-rune (or one-byte) prefixes of the entries
		seen := map[string]bool{}
		for _, n := range dirs[k] {
			_, wd := utf8.DecodeRuneInString(n)
			pre := dir + n[:wd]
			if seen[pre] {
				continue
			}
			seen[pre] = true
			for _, st := range styles {
				emit(arg, st, pre, st == parse.DoubleQuoted)
			}
		}
	}
}

func pathLeafSep(path np.Path) (*parse.Sep, bool) {
	if len(path) == 0 {
		return nil, false
	}
	s, ok := path[0].(*parse.Sep)
	return s, ok
}

func textOf(t ui.Text) string {
	s := ""
	for _, seg := range t {
		s += seg.Text
	}
	return s
}

// ---------------------------------------------------------------- run

func run(c *reg.Ctx) {
	oldwd, _ := os.Getwd()
	oldHome, oldPath := os.Getenv("HOME"), os.Getenv("PATH")
	defer func() {
		os.Chdir(oldwd)
		os.Setenv("HOME", oldHome)
		os.Setenv("PATH", oldPath)
	}()
	// external commands: one directory with two hostile executables
	bin := filepath.Join(c.Scratch, "bin")
	os.MkdirAll(bin, 0o755)
	for _, n := range []string{"ext cmd", "ext'q", "extplain", "~ext"} {
		os.WriteFile(filepath.Join(bin, n), []byte("#!/bin/sh\n"), 0o755)
	}
	os.Setenv("PATH", bin)

	planted(c)

	perWorld := 12
	worlds := c.N/perWorld + 1
	for wi := 0; wi < worlds; wi++ {
		w := newWorld(c, wi)
		os.Chdir(w.root)
		os.Setenv("HOME", w.home)
		ev := eval.NewEvaler()
		nb := eval.BuildNs()
		for k, v := range w.vars {
			nb.AddVar(k, vars.FromInit(v))
		}
		// hostile variable names, each holding a value that identifies it
		for _, n := range []string{"va b", "va'q", "vab", "va~", "vé", "v$", "va\nb", "v-x", "v:"} {
			if strings.HasSuffix(n, ":") {
				continue
			}
			nb.AddVar(n, vars.FromInit(valPrefix+n))
		}
		nb.AddGoFn("fn q", func() {})
		nb.AddGoFn("fnplain", func() {})
		ev.ExtendGlobal(nb)
		for i := 0; i < perWorld; i++ {
			forced := ""
			switch {
			case i == 0 && wi%3 == 0:
				forced = "comment"
			case i == 1:
				forced = "redir"
			case i == 2 && wi%2 == 0:
				forced = "cmd"
			}
			w.oneCase(c, ev, pickTemplate(c, forced))
		}
		// variable completion in the same world
		for _, vb := range []string{"echo $v", "echo $va", "echo $", "echo $@v", "put $v'", "echo a$v", "echo $:v", "echo $e:ext", "echo $@"} {
			if c.Rand.Intn(3) == 0 {
				w.oneCase(c, ev, template{vb, "", "var"})
			}
		}
		os.Chdir(oldwd)
		os.RemoveAll(w.root)
	}
}

