package c44

import (
	"encoding/json"
	"fmt"
	"os"
	"os/exec"
	"path/filepath"
	"strings"
	"sync"
	"time"

	. "verifharness/coqfmt"
	"verifharness/reg"
)

// Class of the (repaired) finding about publication order: full-text changes of one
// document written back to back, without awaiting the diagnostics in between.
const classBurst = "unawaited-changes-publication-order"

type burst struct {
	URI   string     `json:"uri"`
	Texts []string   `json:"texts"`
	Perrs [][][2]int `json:"parse_errors"`
	Pubs  []string   `json:"publications_in_arrival_order"`

	pubsCoq []string
	direct  string
}

// genBurst: 2 or 3 versions; the earlier ones tend to be long with many parse
// errors (their conversion takes longer), the last one short.
func genBurst(c *reg.Ctx, uri string) *burst {
	b := &burst{URI: uri}
	k := 2 + c.Rand.Intn(2)
	for i := 0; i < k; i++ {
		var t string
		if i < k-1 && c.Rand.Intn(4) > 0 {
			var sb strings.Builder
			for j := c.Rand.Intn(60); j >= 0; j-- {
				sb.WriteString(fragments[c.Rand.Intn(len(fragments))])
				sb.WriteString(lineEnds[c.Rand.Intn(len(lineEnds))])
			}
			t = sb.String()
		} else {
			t = genDoc(c)
		}
		b.Texts = append(b.Texts, t)
		b.Perrs = append(b.Perrs, parseErrs(uri, t))
	}
	return b
}

func runBurstSession(self, dir string, bs []*burst) {
	cmd := exec.Command(self)
	cmd.Env = []string{serveEnv + "=1", "PATH=" + filepath.Join(dir, "bin"), "HOME=" + dir}
	cmd.Dir = dir
	stdin, _ := cmd.StdinPipe()
	stdout, _ := cmd.StdoutPipe()
	var errBuf strings.Builder
	cmd.Stderr = &errBuf
	if err := cmd.Start(); err != nil {
		bs[0].direct = "cannot start the server child: " + err.Error()
		return
	}
	ch := make(chan incoming, 64)
	go readFrames(stdout, ch)
	defer func() {
		stdin.Close()
		done := make(chan struct{})
		go func() { cmd.Wait(); close(done) }()
		select {
		case <-done:
		case <-time.After(waitLimit):
			cmd.Process.Kill()
		}
	}()
	note := func(method, params string) string {
		body := fmt.Sprintf(`{"jsonrpc":"2.0","method":%s,"params":%s}`, jsonStr(method), params)
		return fmt.Sprintf("Content-Length: %d\r\n\r\n%s", len(body), body)
	}
	await := func(b *burst, n int) bool {
		timeout := time.After(waitLimit)
		for got := 0; got < n; {
			select {
			case in, ok := <-ch:
				if !ok {
					b.direct = "the server died during unawaited changes: " + errBuf.String()
					return false
				}
				if in.Method != "textDocument/publishDiagnostics" {
					continue
				}
				got++
				if b.Texts == nil {
					continue
				}
				var dp diagParams
				json.Unmarshal(in.Params, &dp)
				var rs, ds []string
				for _, d := range dp.Diagnostics {
					r := d.Range
					rs = append(rs, Pair(posTerm(r.Start.Line, r.Start.Character), posTerm(r.End.Line, r.End.Character)))
					ds = append(ds, fmt.Sprintf("(%d,%d)-(%d,%d)", r.Start.Line, r.Start.Character, r.End.Line, r.End.Character))
				}
				b.pubsCoq = append(b.pubsCoq, Pair(Str(dp.URI), List(rs)))
				b.Pubs = append(b.Pubs, dp.URI+": "+strings.Join(ds, " "))
			case <-timeout:
				b.direct = fmt.Sprintf("only %d of %d publications arrived within %v", got, n, waitLimit)
				return false
			}
		}
		return true
	}
	uri := bs[0].URI
	open := &burst{}
	fmt.Fprint(stdin, note("textDocument/didOpen", fmt.Sprintf(`{"textDocument":{"uri":%s,"text":""}}`, jsonStr(uri))))
	if !await(open, 1) {
		bs[0].direct = open.direct
		return
	}
	for _, b := range bs {
		var sb strings.Builder
		for _, t := range b.Texts {
			sb.WriteString(note("textDocument/didChange",
				fmt.Sprintf(`{"textDocument":{"uri":%s},"contentChanges":[{"text":%s}]}`, jsonStr(uri), jsonStr(t))))
		}
		if _, err := fmt.Fprint(stdin, sb.String()); err != nil {
			b.direct = "the server closed its input: " + errBuf.String()
			return
		}
		if !await(b, len(b.Texts)) {
			return
		}
	}
}

func runBursts(c *reg.Ctx, nSessions, perSession int) {
	self, err := os.Executable()
	if err != nil {
		return
	}
	all := make([][]*burst, nSessions)
	for i := range all {
		uri := fmt.Sprintf("file:///burst%d.elv", i)
		for j := 0; j < perSession; j++ {
			all[i] = append(all[i], genBurst(c, uri))
		}
	}
	var wg sync.WaitGroup
	sem := make(chan struct{}, 8)
	for i := range all {
		wg.Add(1)
		sem <- struct{}{}
		go func(i int) {
			defer wg.Done()
			defer func() { <-sem }()
			runBurstSession(self, c.Scratch, all[i])
		}(i)
	}
	wg.Wait()
	for i, bs := range all {
		for j, b := range bs {
			if b.direct == "" && len(b.Pubs) == 0 {
				continue // not reached because an earlier burst of the session failed
			}
			var ups []string
			for k, t := range b.Texts {
				var ps []string
				for _, p := range b.Perrs[k] {
					ps = append(ps, Pair(Z(int64(p[0])), Z(int64(p[1]))))
				}
				ups = append(ups, Pair(Str(t), List(ps)))
			}
			c.Count("burst")
			c.Emit(reg.Case{
				Coq:        App("CBurst", Str(b.URI), List(ups), List(b.pubsCoq)),
				Desc:       b,
				Key:        fmt.Sprintf("B%d/%d/%d", c.Seed, i, j),
				Nontrivial: true,
				Class:      classBurst,
				Direct:     b.direct,
			})
		}
	}
}
