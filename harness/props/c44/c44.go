// Package c44: the language server (pkg/lsp): exact offset/position mapping and
// one reply per request over a real JSON-RPC connection.
package c44

import (
	"fmt"
	"os"
	"strings"
	"unicode/utf8"

	"src.elv.sh/pkg/lsp"
	"src.elv.sh/pkg/prog"
	. "verifharness/coqfmt"
	"verifharness/reg"
)

// serveEnv makes this binary act as the language server subprogram: the session
// runner re-executes itself with it set, so the server under test is the
// pkg/lsp of the tree the harness was built from, run through prog.Run and
// lsp.Program.Run exactly as cmd/elvish does for "elvish -lsp".
const serveEnv = "VERIF_C44_SERVE"

func init() {
	if os.Getenv(serveEnv) == "1" {
		os.Exit(prog.Run([3]*os.File{os.Stdin, os.Stdout, os.Stderr},
			[]string{"elvish", "-lsp"}, &lsp.Program{}))
	}
	reg.Register(&reg.Spec{ID: "C44",
		Imports: "From verif Require Import lib.Base model.C44.",
		Judge:   "C44.judge", Shard: 400, Run: run})
}

// Class of the (repaired) finding: a position that is exactly the start of a line
// that follows a \r\n pair.
const classAfterCRLF = "to-idx-line-start-after-crlf"

func posTerm(l, ch int) string { return App("mkPos", Z(int64(l)), Z(int64(ch))) }

type textDesc struct {
	Text   string `json:"text"`
	Grid   string `json:"grid,omitempty"`
	ToIdx  []int  `json:"to_idx,omitempty"`
	FromIx string `json:"from_idx,omitempty"`
}

type toIdxDesc struct {
	Text      string `json:"text"`
	Line, Chr int
	Obs       int    `json:"obs"`
	Note      string `json:"note,omitempty"`
}

// unitsOf counts UTF-16 code units of the non-line-break runes of s (an upper
// bound for any character index worth asking about).
func unitsOf(s string) (units, breaks int) {
	for _, r := range s {
		switch {
		case r == '\r' || r == '\n':
			breaks++
		case r > 0xFFFF:
			units += 2
		default:
			units++
		}
	}
	return
}

// afterCRLFPositions: the positions (line, 0) of offsets right after a \r\n
// pair, computed here independently of the code under test (lines counted as:
// every \r, and every \n not preceded by \r).
func afterCRLFPositions(s string) [][2]int {
	var out [][2]int
	line := 0
	for i := 0; i < len(s); i++ {
		switch s[i] {
		case '\r':
			line++
		case '\n':
			if i > 0 && s[i-1] == '\r' {
				out = append(out, [2]int{line, 0})
			} else {
				line++
			}
		}
	}
	return out
}

func textClass(s string) string {
	hasCR, hasLF, astral, bmp := strings.Contains(s, "\r"), strings.Contains(s, "\n"), false, false
	for _, r := range s {
		if r > 0xFFFF {
			astral = true
		} else if r >= 0x80 {
			bmp = true
		}
	}
	cl := "pos"
	if !utf8.ValidString(s) {
		cl += "-invalid-utf8"
	}
	if strings.Contains(s, "\r\n") {
		cl += "-crlf"
	} else if hasCR {
		cl += "-cr"
	}
	if hasLF && !strings.Contains(s, "\r\n") {
		cl += "-lf"
	}
	if astral {
		cl += "-astral"
	} else if bmp {
		cl += "-bmp"
	}
	return cl
}

// emitText observes lspPositionToIdx on the grid l0..l0+nl-1 x c0..c0+nc-1 and
// lspPositionFromIdx on -1..len+1, plus one separate case per position of the
// repaired finding class (kept planted).
func emitText(c *reg.Ctx, via, s string, l0, nl, c0, nc int) {
	tos := make([]byte, 0, nl*nc)
	toInts := make([]int, 0, nl*nc)
	for l := l0; l < l0+nl; l++ {
		for ch := c0; ch < c0+nc; ch++ {
			v := lsp.VerifC44PositionToIdx(s, l, ch)
			tos = append(tos, pack(v))
			toInts = append(toInts, v)
		}
	}
	var froms []byte
	var fromDesc strings.Builder
	for idx := -1; idx <= len(s)+1; idx++ {
		l, ch := lsp.VerifC44PositionFromIdx(s, idx)
		froms = append(froms, pack(l), pack(ch))
		fmt.Fprintf(&fromDesc, "%d:(%d,%d) ", idx, l, ch)
	}
	cl := textClass(s)
	c.Count(via + "/" + cl)
	d := textDesc{Text: s, Grid: fmt.Sprintf("lines %d..%d x chars %d..%d", l0, l0+nl-1, c0, c0+nc-1), FromIx: fromDesc.String()}
	if len(toInts) <= 80 {
		d.ToIdx = toInts
	}
	c.Emit(reg.Case{
		Coq:        App("CText", Str(s), Z(int64(l0)), Nat(nl), Z(int64(c0)), Nat(nc), Bytes(tos), Bytes(froms)),
		Desc:       d,
		Key:        fmt.Sprintf("T%q/%d/%d/%d/%d", s, l0, nl, c0, nc),
		Nontrivial: len(s) >= 2 && (strings.ContainsAny(s, "\r\n") || !isASCII(s)),
		Class:      cl,
	})
	for _, p := range afterCRLFPositions(s) {
		emitToIdx(c, via, s, p[0], p[1], classAfterCRLF, "start of a line that follows \\r\\n")
	}
}

// pack writes an observation as one byte; 255 (never a correct answer for the
// texts used here, which are shorter than 255 bytes) stands for anything else.
func pack(v int) byte {
	if v < 0 || v > 254 {
		return 255
	}
	return byte(v)
}

func emitToIdx(c *reg.Ctx, via, s string, l, ch int, class, note string) {
	v := lsp.VerifC44PositionToIdx(s, l, ch)
	c.Count(via + "/" + class)
	c.Emit(reg.Case{
		Coq:        App("CToIdx", Str(s), posTerm(l, ch), Z(int64(v))),
		Desc:       toIdxDesc{Text: s, Line: l, Chr: ch, Obs: v, Note: note},
		Key:        fmt.Sprintf("P%q/%d/%d", s, l, ch),
		Nontrivial: true,
		Class:      class,
	})
}

func isASCII(s string) bool {
	for i := 0; i < len(s); i++ {
		if s[i] >= 0x80 {
			return false
		}
	}
	return true
}

var smallAlphabet = []string{"a", "é", "😀", "\r", "\n"}

// allTexts calls f on every text of exactly n symbols of the small alphabet.
func allTexts(n int, f func(string)) {
	var rec func(prefix string, k int)
	rec = func(prefix string, k int) {
		if k == 0 {
			f(prefix)
			return
		}
		for _, a := range smallAlphabet {
			rec(prefix+a, k-1)
		}
	}
	rec("", n)
}

func fullGrid(c *reg.Ctx, via, s string) {
	u, b := unitsOf(s)
	emitText(c, via, s, -1, b+3, -1, u+3)
}

var longAlphabets = [][]string{
	{"a", "b", " ", "\n"},
	{"a", "é", "中", "￿", "\n", "\r"},
	{"a", "😀", "\U00010000", "\U0010FFFF", "\r", "\n", "\r\n"},
	{"x", "\r\n", "\r", "\n", "\r\n", "é", "😀"},
	{"a", "\xff", "\xc3", "\xe4\xb8", "\xf0\x9f", "\xed\xa0\x80", "é", "\n", "\r\n"}, // invalid UTF-8 too
	{"\r", "\n"},
}

func genLong(c *reg.Ctx) string {
	al := longAlphabets[c.Rand.Intn(len(longAlphabets))]
	n := 7 + c.Rand.Intn(20)
	if c.Rand.Intn(12) == 0 {
		n = 30 + c.Rand.Intn(30)
	}
	var sb strings.Builder
	for i := 0; i < n; i++ {
		sb.WriteString(al[c.Rand.Intn(len(al))])
	}
	return sb.String()
}

func run(c *reg.Ctx) {
	// (i) the exported position functions
	// exhaustive: every text of length <= 6 over {a, é, 😀, \r, \n} (quick: <= 4
	// exhaustively and a seeded sample of lengths 5 and 6), every position of the
	// grid lines -1..breaks+1 x characters -1..units+1 and every offset -1..len+1
	maxExh := 6
	if c.Tier == "quick" {
		maxExh = 4
	}
	for n := 0; n <= maxExh; n++ {
		allTexts(n, func(s string) { fullGrid(c, "exhaustive", s) })
	}
	if c.Tier == "quick" {
		for i := 0; i < c.N/2; i++ {
			var sb strings.Builder
			for k := 0; k < 5+i%2; k++ {
				sb.WriteString(smallAlphabet[c.Rand.Intn(5)])
			}
			fullGrid(c, "sample56", sb.String())
		}
	}
	// planted: the witness of the repaired CRLF finding and its neighbours
	for _, s := range []string{"nop\r\necho", "\r\n", "a\r\n\r\nb", "a\r\r\nb", "a\n\r\nb", "😀\r\né"} {
		fullGrid(c, "planted", s)
	}
	// random longer texts: a window of positions around a random boundary, some
	// far-away positions, every offset
	for i := 0; i < c.N/4; i++ {
		s := genLong(c)
		o := c.Rand.Intn(len(s) + 1)
		l, ch := lsp.VerifC44PositionFromIdx(s, o) // only aims the window
		emitText(c, "random", s, l-1, 3, ch-2, 6)
		switch c.Rand.Intn(4) {
		case 0:
			emitToIdx(c, "random", s, l, ch+1000+c.Rand.Intn(1000), "to-idx-far", "past the end of the line")
		case 1:
			emitToIdx(c, "random", s, l+1000, c.Rand.Intn(3), "to-idx-far", "past the last line")
		case 2:
			emitToIdx(c, "random", s, -1-c.Rand.Intn(3), c.Rand.Intn(5), "to-idx-far", "negative line")
		case 3:
			emitToIdx(c, "random", s, 1<<40, 1<<40, "to-idx-far", "huge")
		}
		from := c.Rand.Intn(len(s) + 1)
		to := from + c.Rand.Intn(len(s)-from+1)
		sl, sc, el, ec := lsp.VerifC44RangeFromRange(s, from, to)
		c.Count("random/range")
		c.Emit(reg.Case{
			Coq: App("CRange", Str(s), Pair(Z(int64(from)), Z(int64(to))),
				Pair(posTerm(sl, sc), posTerm(el, ec))),
			Desc:       map[string]any{"text": s, "from": from, "to": to, "obs": fmt.Sprintf("(%d,%d)-(%d,%d)", sl, sc, el, ec)},
			Key:        fmt.Sprintf("R%q/%d/%d", s, from, to),
			Nontrivial: true,
			Class:      "range",
		})
	}
	// (ii) sessions over a real JSON-RPC connection
	nSessions := c.N / 12
	if nSessions < 5 {
		nSessions = 5
	}
	runSessions(c, nSessions)
	// (iii) full-text changes written back to back, publications not awaited in between
	runBursts(c, nSessions/5+1, 8)
}
