package c44

import (
	"bufio"
	"encoding/json"
	"fmt"
	"io"
	"os"
	"os/exec"
	"path/filepath"
	"strconv"
	"strings"
	"sync"
	"time"

	elvlsp "src.elv.sh/pkg/lsp"
	"src.elv.sh/pkg/parse"
	. "verifharness/coqfmt"
	"verifharness/reg"
)

// ---- script: what will be sent -------------------------------------------

type msg struct {
	Kind   string `json:"kind"` // didOpen didChange hover completion noop badparams unknown
	Method string `json:"method"`
	Call   bool   `json:"call"`
	URI    string `json:"uri,omitempty"`
	Text   string `json:"text,omitempty"`
	Line   int    `json:"line,omitempty"`
	Chr    int    `json:"chr,omitempty"`
	Raw    string `json:"raw,omitempty"` // raw params for badparams/unknown/noop
	// observed
	Perrs   [][2]int `json:"parse_errors,omitempty"`
	Replies []string `json:"replies"`
	Diags   []string `json:"diags,omitempty"`

	repliesCoq []string
	diagsCoq   []string
}

var fragments = []string{
	"echo foo", "put $paths", "var x = 1", "if true { echo a }", "fn f {|a| put $a }",
	"put [a b", "echo (", "$!", "put 'unterminated", "echo \"é😀\"", "# comment 中文 😀",
	"put $", "}", "put {", "a | | b", "e:ls", "use str; str:join , [a b]", "put é😀$x",
	"echo 😀 (", "nop 'é' ]", "put $pid[", "each {|x| put $x } [a b]", "", "", "  ",
	"put \"\\", "echo a > ", "var 中 = 😀", "put $args[0][1", "echo ?(", "a;b;)", "put &k=",
}

var lineEnds = []string{"\n", "\n", "\r", "\r\n", "\r\n"}

func genDoc(c *reg.Ctx) string {
	var sb strings.Builder
	n := c.Rand.Intn(5)
	if c.Rand.Intn(10) == 0 {
		n = c.Rand.Intn(12)
	}
	style := c.Rand.Intn(4) // 0: LF only, 1: CRLF only, 2: CR only, 3: mixed
	for i := 0; i < n; i++ {
		if c.Rand.Intn(8) == 0 {
			// junk line
			junk := []string{"a", "(", ")", "{", "}", "[", "]", "$", "'", "\"", "|", " ", "é", "😀", "\t", ";", "&", ">"}
			for k := c.Rand.Intn(8); k > 0; k-- {
				sb.WriteString(junk[c.Rand.Intn(len(junk))])
			}
		} else {
			sb.WriteString(fragments[c.Rand.Intn(len(fragments))])
		}
		if i < n-1 || c.Rand.Intn(2) == 0 {
			switch style {
			case 0:
				sb.WriteString("\n")
			case 1:
				sb.WriteString("\r\n")
			case 2:
				sb.WriteString("\r")
			default:
				sb.WriteString(lineEnds[c.Rand.Intn(len(lineEnds))])
			}
		}
	}
	return sb.String()
}

func genPos(c *reg.Ctx, text string) (int, int) {
	switch c.Rand.Intn(10) {
	case 0: // past the end of a line
		l, _ := elvlsp.VerifC44PositionFromIdx(text, c.Rand.Intn(len(text)+1))
		return l, 200 + c.Rand.Intn(100)
	case 1: // past the last line
		return 50 + c.Rand.Intn(1000), c.Rand.Intn(4)
	case 2: // negative
		return -1 - c.Rand.Intn(2), c.Rand.Intn(4) - 2
	case 3: // huge
		return 1 << 40, 1 << 41
	case 4: // between the halves of a surrogate pair, when there is an astral rune
		for i, r := range text {
			if r > 0xFFFF && c.Rand.Intn(2) == 0 {
				l, ch := elvlsp.VerifC44PositionFromIdx(text, i)
				return l, ch + 1
			}
		}
		fallthrough
	case 5: // start of a line after \r\n, when there is one
		if ps := afterCRLFPositions(text); len(ps) > 0 {
			p := ps[c.Rand.Intn(len(ps))]
			return p[0], p[1]
		}
		fallthrough
	default: // the exact position of a random offset (possibly inside a rune or a CRLF pair)
		return elvlsp.VerifC44PositionFromIdx(text, c.Rand.Intn(len(text)+1))
	}
}

func genScript(c *reg.Ctx, sid int) []*msg {
	uris := []string{fmt.Sprintf("file:///s%d/a.elv", sid), fmt.Sprintf("file:///s%d/b é.elv", sid), "untitled:1"}
	texts := map[string]string{}
	n := 10 + c.Rand.Intn(30)
	var ms []*msg
	ms = append(ms, &msg{Kind: "noop", Method: "initialize", Call: true, Raw: `{"processId":null,"rootUri":null,"capabilities":{}}`})
	for i := 0; i < n; i++ {
		uri := uris[c.Rand.Intn(len(uris))]
		if c.Rand.Intn(3) > 0 {
			uri = uris[0]
		}
		_, open := texts[uri]
		k := c.Rand.Intn(20)
		switch {
		case k < 2 || (!open && k < 8):
			m := &msg{Kind: "didOpen", Method: "textDocument/didOpen", Call: c.Rand.Intn(5) == 0, URI: uri, Text: genDoc(c)}
			texts[uri] = m.Text
			ms = append(ms, m)
		case k < 7:
			// didChange, also for a document that was never opened
			m := &msg{Kind: "didChange", Method: "textDocument/didChange", Call: c.Rand.Intn(5) == 0, URI: uri, Text: genDoc(c)}
			texts[uri] = m.Text
			ms = append(ms, m)
		case k < 12:
			l, ch := genPos(c, texts[uri])
			ms = append(ms, &msg{Kind: "hover", Method: "textDocument/hover", Call: c.Rand.Intn(12) > 0, URI: uri, Line: l, Chr: ch})
		case k < 17:
			l, ch := genPos(c, texts[uri])
			ms = append(ms, &msg{Kind: "completion", Method: "textDocument/completion", Call: c.Rand.Intn(12) > 0, URI: uri, Line: l, Chr: ch})
		case k == 17:
			meth := []string{"initialized", "textDocument/didClose", "workspace/didChangeWatchedFiles"}[c.Rand.Intn(3)]
			ms = append(ms, &msg{Kind: "noop", Method: meth, Call: c.Rand.Intn(2) == 0,
				Raw: fmt.Sprintf(`{"textDocument":{"uri":%s},"changes":[]}`, jsonStr(uri))})
		case k == 18:
			meth := []string{"textDocument/hover", "textDocument/completion", "textDocument/didOpen", "textDocument/didChange"}[c.Rand.Intn(4)]
			raw := []string{`[]`, `"x"`, `{"textDocument":{"uri":7}}`, `{"textDocument":"x"}`, `12`}[c.Rand.Intn(5)]
			if strings.HasSuffix(meth, "hover") || strings.HasSuffix(meth, "completion") {
				if c.Rand.Intn(2) == 0 {
					raw = fmt.Sprintf(`{"textDocument":{"uri":%s},"position":{"line":"1","character":0}}`, jsonStr(uri))
				}
			}
			ms = append(ms, &msg{Kind: "badparams", Method: meth, Call: c.Rand.Intn(4) > 0, Raw: raw})
		default:
			meth := []string{"textDocument/definition", "shutdown", "$/cancelRequest", "textDocument/Hover", "exit"}[c.Rand.Intn(5)]
			ms = append(ms, &msg{Kind: "unknown", Method: meth, Call: c.Rand.Intn(4) > 0, Raw: `{}`})
		}
	}
	return ms
}

func jsonStr(s string) string { b, _ := json.Marshal(s); return string(b) }

func (m *msg) params() string {
	switch m.Kind {
	case "didOpen":
		return fmt.Sprintf(`{"textDocument":{"uri":%s,"languageId":"elvish","version":1,"text":%s}}`, jsonStr(m.URI), jsonStr(m.Text))
	case "didChange":
		return fmt.Sprintf(`{"textDocument":{"uri":%s,"version":2},"contentChanges":[{"text":%s}]}`, jsonStr(m.URI), jsonStr(m.Text))
	case "hover", "completion":
		return fmt.Sprintf(`{"textDocument":{"uri":%s},"position":{"line":%d,"character":%d}}`, jsonStr(m.URI), m.Line, m.Chr)
	}
	return m.Raw
}

// ---- wire ------------------------------------------------------------------

type incoming struct {
	ID     *json.RawMessage `json:"id"`
	Method string           `json:"method"`
	Params json.RawMessage  `json:"params"`
	Result *json.RawMessage `json:"result"`
	Error  *struct {
		Code int `json:"code"`
	} `json:"error"`
}

func readFrames(r io.Reader, ch chan<- incoming) {
	defer close(ch)
	br := bufio.NewReader(r)
	for {
		n := -1
		for {
			line, err := br.ReadString('\n')
			if err != nil {
				return
			}
			line = strings.TrimRight(line, "\r\n")
			if line == "" {
				break
			}
			if v, ok := strings.CutPrefix(strings.ToLower(line), "content-length:"); ok {
				n, _ = strconv.Atoi(strings.TrimSpace(v))
			}
		}
		if n < 0 {
			return
		}
		buf := make([]byte, n)
		if _, err := io.ReadFull(br, buf); err != nil {
			return
		}
		var in incoming
		if json.Unmarshal(buf, &in) != nil {
			in.Method = "!unparsable"
		}
		ch <- in
	}
}

type diagParams struct {
	URI         string `json:"uri"`
	Diagnostics []struct {
		Range struct {
			Start, End struct{ Line, Character int }
		} `json:"range"`
	} `json:"diagnostics"`
}

const waitLimit = 20 * time.Second

type sessionResult struct {
	msgs   []*msg
	alive  bool
	direct string
	stderr string
}

// runSession drives one server child through the script.
func runSession(self, dir string, ms []*msg) (res sessionResult) {
	res.msgs = ms
	cmd := exec.Command(self)
	cmd.Env = []string{serveEnv + "=1", "PATH=" + filepath.Join(dir, "bin"), "HOME=" + dir, "XDG_CONFIG_HOME=" + dir, "XDG_STATE_HOME=" + dir, "XDG_DATA_HOME=" + dir}
	cmd.Dir = dir
	stdin, _ := cmd.StdinPipe()
	stdout, _ := cmd.StdoutPipe()
	var errBuf strings.Builder
	cmd.Stderr = &errBuf
	if err := cmd.Start(); err != nil {
		res.direct = "cannot start the server child: " + err.Error()
		return
	}
	ch := make(chan incoming, 64)
	go readFrames(stdout, ch)
	exited := make(chan error, 1)
	go func() { exited <- cmd.Wait() }()
	defer func() {
		res.stderr = errBuf.String()
		if len(res.stderr) > 600 {
			res.stderr = res.stderr[:600]
		}
	}()

	send := func(id int, call bool, method, params string) error {
		var body string
		if call {
			body = fmt.Sprintf(`{"jsonrpc":"2.0","id":%d,"method":%s,"params":%s}`, id, jsonStr(method), params)
		} else {
			body = fmt.Sprintf(`{"jsonrpc":"2.0","method":%s,"params":%s}`, jsonStr(method), params)
		}
		_, err := fmt.Fprintf(stdin, "Content-Length: %d\r\n\r\n%s", len(body), body)
		return err
	}
	// dispatch attributes an incoming message: responses by id, publications to
	// the message in progress
	dispatch := func(in incoming, cur *msg) {
		switch {
		case in.Method == "textDocument/publishDiagnostics":
			var dp diagParams
			json.Unmarshal(in.Params, &dp)
			var rs, ds []string
			for _, d := range dp.Diagnostics {
				r := d.Range
				rs = append(rs, Pair(posTerm(r.Start.Line, r.Start.Character), posTerm(r.End.Line, r.End.Character)))
				ds = append(ds, fmt.Sprintf("(%d,%d)-(%d,%d)", r.Start.Line, r.Start.Character, r.End.Line, r.End.Character))
			}
			cur.diagsCoq = append(cur.diagsCoq, Pair(Str(dp.URI), List(rs)))
			cur.Diags = append(cur.Diags, dp.URI+": "+strings.Join(ds, " "))
		case in.ID != nil && in.Method == "":
			var id int
			if json.Unmarshal(*in.ID, &id) != nil || id < 0 || id >= len(ms) {
				cur.Replies = append(cur.Replies, "reply with a foreign id "+string(*in.ID))
				cur.repliesCoq = append(cur.repliesCoq, "(RErr OtherError)")
				return
			}
			t := ms[id]
			switch {
			case in.Error == nil:
				t.Replies = append(t.Replies, "ok")
				t.repliesCoq = append(t.repliesCoq, "ROk")
			case in.Error.Code == -32602:
				t.Replies = append(t.Replies, "InvalidParams")
				t.repliesCoq = append(t.repliesCoq, "(RErr InvalidParams)")
			case in.Error.Code == -32601:
				t.Replies = append(t.Replies, "MethodNotFound")
				t.repliesCoq = append(t.repliesCoq, "(RErr MethodNotFound)")
			default:
				t.Replies = append(t.Replies, fmt.Sprintf("error %d", in.Error.Code))
				t.repliesCoq = append(t.repliesCoq, "(RErr OtherError)")
			}
		default:
			cur.Replies = append(cur.Replies, "unexpected message "+in.Method)
			cur.repliesCoq = append(cur.repliesCoq, "(RErr OtherError)")
		}
	}

	died := func(i int, m *msg, why string) {
		res.direct = fmt.Sprintf("%s at message %d (%s %s): stderr: %.400s", why, i, m.Method, m.params(), errBuf.String())
	}
	for i, m := range ms {
		if err := send(i, m.Call, m.Method, m.params()); err != nil {
			died(i, m, "the server closed its input (crashed)")
			cmd.Process.Kill()
			return
		}
		needReply := m.Call
		needDiag := m.Kind == "didOpen" || m.Kind == "didChange"
		timeout := time.After(waitLimit)
		for (needReply && len(m.Replies) == 0) || (needDiag && len(m.Diags) == 0) {
			select {
			case in, ok := <-ch:
				if !ok {
					died(i, m, "the server died or closed the connection")
					cmd.Process.Kill()
					return
				}
				dispatch(in, m)
			case <-timeout:
				died(i, m, fmt.Sprintf("no reply/diagnostics within %v (reply needed %v got %d; diagnostics needed %v got %d)", waitLimit, needReply, len(m.Replies), needDiag, len(m.Diags)))
				cmd.Process.Kill()
				return
			}
		}
	}
	// liveness: a final request must still be answered; anything else that
	// arrives before its reply is attributed to the last message
	last := ms[len(ms)-1]
	syncID := len(ms)
	ms = append(ms, &msg{Kind: "sync"})
	if err := send(syncID, true, "initialized", `{}`); err == nil {
		timeout := time.After(waitLimit)
	loop:
		for {
			select {
			case in, ok := <-ch:
				if !ok {
					break loop
				}
				if in.ID != nil && string(*in.ID) == strconv.Itoa(syncID) {
					res.alive = true
					break loop
				}
				dispatch(in, last)
			case <-timeout:
				break loop
			}
		}
	}
	ms = ms[:syncID]
	// a short grace period for stray messages (duplicates, late publications)
	grace := time.After(30 * time.Millisecond)
drain:
	for {
		select {
		case in, ok := <-ch:
			if !ok {
				break drain
			}
			dispatch(in, last)
		case <-grace:
			break drain
		}
	}
	stdin.Close()
	select {
	case err := <-exited:
		if err != nil && res.alive {
			res.alive = false
			res.direct = "the server exited with " + err.Error() + " after its input was closed: " + errBuf.String()
		}
	case <-time.After(waitLimit):
		cmd.Process.Kill()
		res.alive = false
		res.direct = "the server did not exit after its input was closed"
	}
	if !res.alive && res.direct == "" {
		res.direct = "the server did not answer the final request: " + errBuf.String()
	}
	return
}

// ---- cases -------------------------------------------------------------------

func parseErrs(uri, text string) [][2]int {
	_, err := parse.Parse(parse.Source{Name: uri, Code: text}, parse.Config{})
	var out [][2]int
	for _, e := range parse.UnpackErrors(err) {
		out = append(out, [2]int{e.Context.From, e.Context.To})
	}
	return out
}

func reqTerm(m *msg) string {
	perrs := func() string {
		var ps []string
		for _, p := range m.Perrs {
			ps = append(ps, Pair(Z(int64(p[0])), Z(int64(p[1]))))
		}
		return List(ps)
	}
	switch m.Kind {
	case "didOpen":
		return App("DidOpen", Str(m.URI), Str(m.Text), perrs())
	case "didChange":
		return App("DidChange", Str(m.URI), Str(m.Text), perrs())
	case "hover":
		return App("Hover", Str(m.URI), posTerm(m.Line, m.Chr))
	case "completion":
		return App("Completion", Str(m.URI), posTerm(m.Line, m.Chr))
	case "noop":
		return "Noop"
	case "badparams":
		return "BadParams"
	}
	return "UnknownMethod"
}

type sessionDesc struct {
	Msgs   []*msg `json:"messages"`
	Alive  bool   `json:"alive"`
	Stderr string `json:"stderr,omitempty"`
}

func runSessions(c *reg.Ctx, n int) {
	self, err := os.Executable()
	if err != nil {
		c.Emit(reg.Case{Direct: "harness: os.Executable: " + err.Error(), Class: "session", Key: "self"})
		return
	}
	// a small world for completion: a few files, one external command
	os.MkdirAll(filepath.Join(c.Scratch, "bin"), 0o755)
	os.WriteFile(filepath.Join(c.Scratch, "bin", "ext-cmd"), []byte("#!/bin/sh\n"), 0o755)
	os.WriteFile(filepath.Join(c.Scratch, "file é.txt"), nil, 0o644)
	os.WriteFile(filepath.Join(c.Scratch, "a.elv"), nil, 0o644)

	scripts := make([][]*msg, n)
	for i := range scripts {
		scripts[i] = genScript(c, i)
		for _, m := range scripts[i] {
			if m.Kind == "didOpen" || m.Kind == "didChange" {
				m.Perrs = parseErrs(m.URI, m.Text)
			}
		}
	}
	results := make([]sessionResult, n)
	var wg sync.WaitGroup
	sem := make(chan struct{}, 8)
	for i := range scripts {
		wg.Add(1)
		sem <- struct{}{}
		go func(i int) {
			defer wg.Done()
			defer func() { <-sem }()
			results[i] = runSession(self, c.Scratch, scripts[i])
		}(i)
	}
	wg.Wait()
	for i, r := range results {
		var evs []string
		kinds := map[string]bool{}
		nerr, crlf, astral := 0, false, false
		for _, m := range r.msgs {
			evs = append(evs, App("mkEv", reqTerm(m), Bool(m.Call), List(m.repliesCoq), List(m.diagsCoq)))
			kinds[m.Kind] = true
			nerr += len(m.Perrs)
			crlf = crlf || strings.Contains(m.Text, "\r\n")
			for _, ru := range m.Text {
				astral = astral || ru > 0xFFFF
			}
			c.Count("session-msg/" + m.Kind)
		}
		if nerr > 0 {
			c.Count("session/with-parse-errors")
		}
		if crlf {
			c.Count("session/with-crlf")
		}
		if astral {
			c.Count("session/with-astral")
		}
		cs := reg.Case{
			Coq:        App("CSession", List(evs), Bool(r.alive)),
			Desc:       sessionDesc{Msgs: r.msgs, Alive: r.alive, Stderr: r.stderr},
			Key:        fmt.Sprintf("S%d/%d/%d", c.Seed, i, len(r.msgs)),
			Nontrivial: kinds["hover"] && kinds["completion"] && (kinds["didOpen"] || kinds["didChange"]),
			Class:      "session",
		}
		if r.direct != "" {
			cs.Direct = r.direct
		}
		c.Count("session")
		c.Emit(cs)
	}
}
