// Package c24: the history store as a sequential log (pkg/store/cmd.go, dir.go)
// observed through store.NewStore on a fresh database per history.
package c24

import (
	"crypto/sha1"
	"fmt"
	"math"
	"os"
	"path/filepath"
	"strings"

	bolt "go.etcd.io/bbolt"
	"src.elv.sh/pkg/store"
	"src.elv.sh/pkg/store/storedefs"
	. "verifharness/coqfmt"
	"verifharness/reg"
)

func init() {
	reg.Register(&reg.Spec{ID: "C24",
		Imports: "From Coq Require Import Floats.SpecFloat.\nFrom verif Require Import lib.Base model.C24_F64 model.C24_StoreSpec model.C24.",
		Judge:   "C24.judge", Shard: 13, Run: run})
}

type desc struct {
	Class string   `json:"class"`
	Seq0  uint64   `json:"seq0"`
	Ops   []string `json:"ops"` // operation = observed result, in order
}

// F64 prints a float64 as a SpecFloat term in canonical form.
func F64(x float64) string {
	b := math.Float64bits(x)
	s := Bool(b>>63 == 1)
	exp := int64((b >> 52) & 0x7ff)
	frac := b & (1<<52 - 1)
	switch {
	case exp == 0x7ff && frac != 0:
		return "S754_nan"
	case exp == 0x7ff:
		return "(S754_infinity " + s + ")"
	case exp == 0 && frac == 0:
		return "(S754_zero " + s + ")"
	case exp == 0:
		return fmt.Sprintf("(S754_finite %s %d%%positive (-1074)%%Z)", s, frac)
	}
	return fmt.Sprintf("(S754_finite %s %d%%positive (%d)%%Z)", s, frac|1<<52, exp-1075)
}

var words = []string{"", "e", "ec", "echo", "echo a", "echo b", "echo a b", "ls", "ls -l", "l",
	"\x00", "\x00\xff", "\xff", "\xff\xfe\x00", "é", "échec", "put 中", "a\nb", "a", "ab", "abc"}

func genText(c *reg.Ctx) string {
	switch c.Rand.Intn(10) {
	case 0:
		b := make([]byte, c.Rand.Intn(6))
		c.Rand.Read(b)
		return string(b)
	case 1:
		return words[c.Rand.Intn(len(words))] + words[c.Rand.Intn(len(words))]
	}
	return words[c.Rand.Intn(len(words))]
}

func genPrefix(c *reg.Ctx) string {
	w := genText(c)
	if c.Rand.Intn(2) == 0 {
		w = w[:c.Rand.Intn(len(w)+1)]
	}
	return w
}

var dirs = []string{"/", "/a", "/a/b", "/a/b/c", "/tmp", "/home/é", "/\xff\x00", "~", "/b", "/c", "rel", " "}

func genDir(c *reg.Ctx, many bool) string {
	if many {
		return fmt.Sprintf("/%03d/some/rather/long/directory/name/used/to/fill/pages", c.Rand.Intn(110))
	}
	if c.Rand.Intn(40) == 0 {
		return ""
	}
	return dirs[c.Rand.Intn(len(dirs))]
}

var factors = []float64{1, 1, 1, 0.5, 2, 0.1, 3.7, -1, 0, 1e-3, 100, 1e-7, -0.25}

func genFactor(c *reg.Ctx) float64 {
	if c.Rand.Intn(4) == 0 {
		return math.Round(c.Rand.Float64()*1e4) / 1e3
	}
	return factors[c.Rand.Intn(len(factors))]
}

// genSeq: present, deleted, absent, boundary, negative and huge sequence numbers.
func genSeq(c *reg.Ctx, seq0, cur uint64) int {
	span := int(cur-seq0) + 3
	switch c.Rand.Intn(14) {
	case 0:
		return 0
	case 1:
		return -1
	case 2:
		return -c.Rand.Intn(1000) - 2
	case 3:
		return math.MaxInt64 - c.Rand.Intn(3)
	case 4:
		return math.MinInt64 + c.Rand.Intn(3)
	case 5:
		return int(cur) + 1 + c.Rand.Intn(3)
	case 6:
		return c.Rand.Intn(span + 300)
	}
	return int(seq0) + c.Rand.Intn(span)
}

type hist struct {
	class string
	seq0  uint64
	n     int
	// weights of the operations
	wAdd, wDel, wGet, wList, wNext, wPrev, wSeq, wAddDir, wDelDir, wDirs int
	manyDirs                                                             bool
}

var preseqs = []uint64{254, 65534, 1<<32 - 2, 1<<63 - 3, 1<<63 + 5, 1<<64 - 400}

func genHist(c *reg.Ctx, i int) hist {
	h := hist{n: 20 + c.Rand.Intn(281)}
	switch i % 8 {
	case 0, 1:
		h.class = "cmd-mixed"
		h.wAdd, h.wDel, h.wGet, h.wList, h.wNext, h.wPrev, h.wSeq = 30, 10, 10, 6, 16, 16, 4
	case 2:
		h.class = "cmd-addheavy" // more than 256 commands: second key byte in use
		h.n = 290 + c.Rand.Intn(11)
		h.wAdd, h.wDel, h.wGet, h.wList, h.wNext, h.wPrev, h.wSeq = 240, 6, 6, 2, 10, 10, 2
	case 3:
		h.class = "dir-mixed"
		h.wAddDir, h.wDelDir, h.wDirs = 60, 8, 20
	case 4:
		if i%32 != 4 {
			h.class = "dir-mixed"
			h.wAddDir, h.wDelDir, h.wDirs = 60, 8, 20
			h.n = 20 + c.Rand.Intn(100)
			break
		}
		// the dir bucket spans several pages; judged slowly (every visit
		// re-quantises every score), hence rare and short
		h.class = "dir-many"
		h.n = 125 + c.Rand.Intn(20)
		h.wAddDir, h.wDelDir, h.wDirs = 95, 2, 3
		h.manyDirs = true
	case 5:
		h.class = "mixed"
		h.wAdd, h.wDel, h.wGet, h.wList, h.wNext, h.wPrev, h.wSeq, h.wAddDir, h.wDelDir, h.wDirs = 20, 6, 6, 4, 10, 10, 2, 20, 3, 8
	case 6:
		h.class = "cmd-preseq" // bucket sequence preset: multi-byte keys, int wrap
		h.seq0 = preseqs[c.Rand.Intn(len(preseqs))]
		if h.seq0 >= 1<<63-3 && h.seq0 < 1<<63+300 {
			h.class = "cmd-preseq-intwrap"
		}
		h.wAdd, h.wDel, h.wGet, h.wList, h.wNext, h.wPrev, h.wSeq = 30, 8, 10, 6, 16, 16, 4
	case 7:
		h.class = "cmd-sparse" // mostly deleted
		h.wAdd, h.wDel, h.wGet, h.wList, h.wNext, h.wPrev, h.wSeq = 20, 25, 8, 6, 16, 16, 3
	}
	return h
}

func errKind(err error) string {
	if err == nil {
		return ""
	}
	if err == storedefs.ErrNoMatchingCmd {
		return "RNoMatch"
	}
	return "RErr"
}

func coqCmd(t string, s int) string { return Pair(Str(t), Z(int64(s))) }

type iterator interface {
	IterateCmds(from, upto int, f func(storedefs.Cmd)) error
}

func runHist(c *reg.Ctx, idx int, h hist, dir string) (rc reg.Case) {
	path := filepath.Join(dir, fmt.Sprintf("c24-%d-%d.db", os.Getpid(), idx))
	os.Remove(path)
	defer os.Remove(path)
	d := desc{Class: h.class, Seq0: h.seq0}
	rc = reg.Case{Class: h.class}
	if h.seq0 != 0 {
		db, err := bolt.Open(path, 0644, nil)
		if err != nil {
			panic(err)
		}
		err = db.Update(func(tx *bolt.Tx) error {
			b, err := tx.CreateBucketIfNotExists([]byte("cmd"))
			if err != nil {
				return err
			}
			return b.SetSequence(h.seq0)
		})
		if err != nil {
			panic(err)
		}
		db.Close()
	}
	st, err := store.NewStore(path)
	if err != nil {
		panic(err)
	}
	defer st.Close()
	var items []string
	defer func() {
		if r := recover(); r != nil {
			rc.Coq = ""
			rc.Direct = fmt.Sprintf("panic in store operation %d: %v", len(d.Ops), r)
			rc.Desc = d
			rc.Key = fmt.Sprintf("panic-%d", idx)
		}
	}()
	weights := []int{h.wAdd, h.wDel, h.wGet, h.wList, h.wNext, h.wPrev, h.wSeq, h.wAddDir, h.wDelDir, h.wDirs}
	total := 0
	for _, x := range weights {
		total += x
	}
	cur := h.seq0
	queries, muts := 0, 0
	for k := 0; k < h.n; k++ {
		w := c.Rand.Intn(total)
		kind := 0
		for w >= weights[kind] {
			w -= weights[kind]
			kind++
		}
		var op, res, ds string
		switch kind {
		case 0:
			t := genText(c)
			s, err := st.AddCmd(t)
			cur++
			op = App("OAddCmd", Str(t))
			if err != nil {
				res = errKind(err)
			} else {
				res = App("RInt", Z(int64(s)))
			}
			ds = fmt.Sprintf("AddCmd(%q)=%d,%v", t, s, err)
		case 1:
			s := genSeq(c, h.seq0, cur)
			err := st.DelCmd(s)
			op = App("ODelCmd", Z(int64(s)))
			res = "ROk"
			if err != nil {
				res = errKind(err)
			}
			muts++
			ds = fmt.Sprintf("DelCmd(%d)=%v", s, err)
		case 2:
			s := genSeq(c, h.seq0, cur)
			t, err := st.Cmd(s)
			op = App("OCmd", Z(int64(s)))
			if err != nil {
				res = errKind(err)
			} else {
				res = App("RText", Str(t))
			}
			ds = fmt.Sprintf("Cmd(%d)=%q,%v", s, t, err)
		case 3:
			a, b := genSeq(c, h.seq0, cur), genSeq(c, h.seq0, cur)
			var cmds []storedefs.Cmd
			var err error
			via := "CmdsWithSeq"
			if it, ok := st.(iterator); ok && c.Rand.Intn(3) == 0 {
				via = "IterateCmds"
				err = it.IterateCmds(a, b, func(x storedefs.Cmd) { cmds = append(cmds, x) })
			} else {
				cmds, err = st.CmdsWithSeq(a, b)
			}
			op = App("OCmds", Z(int64(a)), Z(int64(b)))
			if err != nil {
				res = errKind(err)
			} else {
				l := make([]string, len(cmds))
				for i, x := range cmds {
					l[i] = coqCmd(x.Text, x.Seq)
				}
				res = App("RCmds", List(l))
			}
			queries++
			ds = fmt.Sprintf("%s(%d,%d)=%d cmds,%v", via, a, b, len(cmds), err)
			if len(cmds) > 0 {
				ds += fmt.Sprintf(" first=%d last=%d", cmds[0].Seq, cmds[len(cmds)-1].Seq)
			}
		case 4, 5:
			s := genSeq(c, h.seq0, cur)
			p := genPrefix(c)
			var x storedefs.Cmd
			var err error
			name := "NextCmd"
			if kind == 4 {
				x, err = st.NextCmd(s, p)
				op = App("ONextCmd", Z(int64(s)), Str(p))
			} else {
				name = "PrevCmd"
				x, err = st.PrevCmd(s, p)
				op = App("OPrevCmd", Z(int64(s)), Str(p))
			}
			if err != nil {
				res = errKind(err)
			} else {
				res = App("RCmd", Str(x.Text), Z(int64(x.Seq)))
			}
			queries++
			ds = fmt.Sprintf("%s(%d,%q)=%q@%d,%v", name, s, p, x.Text, x.Seq, err)
		case 6:
			s, err := st.NextCmdSeq()
			op = "ONextCmdSeq"
			if err != nil {
				res = errKind(err)
			} else {
				res = App("RInt", Z(int64(s)))
			}
			ds = fmt.Sprintf("NextCmdSeq()=%d,%v", s, err)
		case 7:
			dn := genDir(c, h.manyDirs)
			f := genFactor(c)
			err := st.AddDir(dn, f)
			op = App("OAddDir", Str(dn), F64(f))
			res = "ROk"
			if err != nil {
				res = errKind(err)
			}
			muts++
			ds = fmt.Sprintf("AddDir(%q,%v)=%v", dn, f, err)
		case 8:
			dn := genDir(c, h.manyDirs)
			err := st.DelDir(dn)
			op = App("ODelDir", Str(dn))
			res = "ROk"
			if err != nil {
				res = errKind(err)
			}
			ds = fmt.Sprintf("DelDir(%q)=%v", dn, err)
		default:
			bl := map[string]struct{}{}
			var bls []string
			for j := c.Rand.Intn(4); j > 0; j-- {
				dn := genDir(c, h.manyDirs)
				if _, ok := bl[dn]; !ok {
					bl[dn] = struct{}{}
					bls = append(bls, Str(dn))
				}
			}
			ds0, err := st.Dirs(bl)
			op = App("ODirs", List(bls))
			if err != nil {
				res = errKind(err)
			} else {
				l := make([]string, len(ds0))
				for i, x := range ds0 {
					l[i] = Pair(Str(x.Path), F64(x.Score))
				}
				res = App("RDirs", List(l))
			}
			queries++
			ds = fmt.Sprintf("Dirs(%d blacklisted)=%d dirs,%v", len(bl), len(ds0), err)
			if len(ds0) > 0 {
				ds += fmt.Sprintf(" top=%q:%v", ds0[0].Path, ds0[0].Score)
			}
		}
		items = append(items, Pair(op, res))
		d.Ops = append(d.Ops, ds)
	}
	sum := sha1.Sum([]byte(strings.Join(d.Ops, "\n")))
	rc.Coq = App("mkCase", N(h.seq0), List(items))
	rc.Desc = d
	rc.Key = fmt.Sprintf("%x", sum[:8])
	rc.Nontrivial = len(d.Ops) >= 20 && queries > 0 && (muts > 0 || cur > h.seq0+1)
	return rc
}

func run(c *reg.Ctx) {
	dir := c.Scratch
	if fi, err := os.Stat("/dev/shm"); err == nil && fi.IsDir() {
		// bbolt syncs on every update; a memory-backed file keeps 300-operation
		// histories fast
		if d, err := os.MkdirTemp("/dev/shm", "verif-c24-"); err == nil {
			dir = d
			defer os.RemoveAll(d)
		}
	}
	for i := 0; i < c.N; i++ {
		h := genHist(c, i)
		c.Count(h.class)
		c.Emit(runHist(c, i, h, dir))
	}
}
