package c20

// Stress stream: many thousand cheap iterations of bounded peach inside ONE
// evaluation per batch (no Evaler / compile cost per iteration), to hit
// scheduling windows of ~100 ns such as "the worker gives its slot back before
// it has recorded broken".  Every iteration runs peach and, for bound 1, each on
// the same inputs and the same callback; the per-input call counts, the maximum
// number of running callbacks and the reported failures are recorded.  Identical
// outcomes are aggregated (outcome -> count) into one case each, so the Coq side
// stays small; a deviating iteration is a different outcome and therefore its
// own case, judged by the oracle (bound 1: calls must equal each's) and by the
// acceptor (bound k: no start after k breakers, at most k running).

import (
	"fmt"
	"runtime"
	"sort"
	"strings"
	"sync"
	"time"

	"src.elv.sh/pkg/eval"
	"src.elv.sh/pkg/parse"
	. "verifharness/coqfmt"
	"verifharness/reg"
)

type stressRec struct {
	c  *reg.Ctx
	mu sync.Mutex
	// configuration of the batch
	bound int
	piped bool
	// configuration of the iteration
	n     int
	kinds []int // per input: kNormal | kBreak | kFail
	yield int   // 0 none, 1 before the work, 2 right before the callback returns, 3 both
	// observation of the iteration: [0] peach, [1] each
	phase   int
	calls   [2][]int
	running int
	maxrun  [2]int
	late    bool
	errs    [2][]uint64
	// aggregation
	iters    int
	outcomes map[string]*stressOutcome
	order    []string
}

type stressOutcome struct {
	Bound  int    `json:"bound"`
	Piped  bool   `json:"piped"`
	Kinds  []int  `json:"kinds"`
	Peach  obs    `json:"peach"`
	Each   *obs   `json:"each,omitempty"`
	Count  int    `json:"count"`
	Yields [4]int `json:"count_by_yield_mode"`
}

func (sr *stressRec) begin() {
	sr.mu.Lock()
	defer sr.mu.Unlock()
	r := sr.c.Rand
	// few shapes (so that identical outcomes aggregate), breakers at EARLY items
	sr.n = []int{3, 5}[r.Intn(2)]
	nb := 1
	if sr.bound > 1 {
		sr.n = 6
		nb = sr.bound + r.Intn(2)
	}
	sr.kinds = make([]int, sr.n)
	if sr.bound > 1 {
		// the first bound (or bound+1) callbacks all break: nothing may start
		// once [bound] breakers have returned
		for k := 0; k < nb; k++ {
			sr.kinds[k] = kBreak
		}
	} else {
		sr.kinds[r.Intn(2)] = kBreak + r.Intn(2)
	}
	if r.Intn(12) == 0 { // sometimes nothing breaks
		for i := range sr.kinds {
			sr.kinds[i] = kNormal
		}
	}
	sr.yield = 0
	if r.Intn(2) == 0 {
		sr.yield = 1 + r.Intn(3)
	}
	sr.phase = 0
	for p := 0; p < 2; p++ {
		sr.calls[p] = make([]int, sr.n)
		sr.maxrun[p] = 0
		sr.errs[p] = nil
	}
	sr.running = 0
	sr.late = false
}

// the callback itself (a Go callable: as cheap as a callback can be)
func (sr *stressRec) cb(x int) error {
	sr.mu.Lock()
	p, y := sr.phase, sr.yield
	kind := kNormal
	if x >= 0 && x < sr.n {
		sr.calls[p][x]++
		kind = sr.kinds[x]
	}
	sr.running++
	if sr.running > sr.maxrun[p] {
		sr.maxrun[p] = sr.running
	}
	sr.mu.Unlock()
	if y&1 != 0 {
		runtime.Gosched()
	}
	sr.mu.Lock()
	sr.running--
	sr.mu.Unlock()
	if y&2 != 0 {
		runtime.Gosched()
	}
	switch kind {
	case kBreak:
		return eval.Break
	case kFail:
		return eval.FailError{Content: fmt.Sprintf("f%d", x)}
	}
	return nil
}

func (sr *stressRec) mid() {
	sr.mu.Lock()
	if sr.running > 0 {
		sr.late = true
	}
	sr.phase = 1
	sr.mu.Unlock()
}

func (sr *stressRec) exc(e any) {
	err, _ := e.(error)
	sr.mu.Lock()
	errIDs(err, &sr.errs[sr.phase])
	sr.mu.Unlock()
}

func (sr *stressRec) end() {
	sr.mu.Lock()
	defer sr.mu.Unlock()
	if sr.running > 0 {
		sr.late = true
	}
	mk := func(p int) obs {
		o := obs{Calls: append([]int{}, sr.calls[p]...), MaxRun: sr.maxrun[p], Late: sr.late && p == 0}
		o.Errs = append([]uint64{}, sr.errs[p]...)
		sort.Slice(o.Errs, func(i, j int) bool { return o.Errs[i] < o.Errs[j] })
		return o
	}
	po := mk(0)
	key := fmt.Sprintf("%d/%v/%v/%v/%v/%v", sr.bound, sr.piped, sr.kinds, po.Calls, po.Errs, po.Late)
	var eo *obs
	if sr.bound == 1 {
		e := mk(1)
		eo = &e
		key += fmt.Sprintf("|%v/%v", e.Calls, e.Errs)
	}
	sr.iters++
	oc := sr.outcomes[key]
	if oc == nil {
		if len(sr.outcomes) >= 600 {
			return // keep the Coq side bounded; the regular outcomes are a few dozen
		}
		oc = &stressOutcome{Bound: sr.bound, Piped: sr.piped, Kinds: append([]int{}, sr.kinds...), Peach: po, Each: eo}
		sr.outcomes[key] = oc
		sr.order = append(sr.order, key)
	}
	// identical outcomes differ at most in the measured overlap: keep the worst
	if po.MaxRun > oc.Peach.MaxRun {
		oc.Peach.MaxRun = po.MaxRun
	}
	if eo != nil && oc.Each != nil && eo.MaxRun > oc.Each.MaxRun {
		oc.Each.MaxRun = eo.MaxRun
	}
	oc.Count++
	oc.Yields[sr.yield]++
}

func (sr *stressRec) items(fm *eval.Frame) error {
	sr.mu.Lock()
	n := sr.n
	sr.mu.Unlock()
	out := fm.ValueOutput()
	for i := 0; i < n; i++ {
		if err := out.Put(i); err != nil {
			return err
		}
	}
	return nil
}

func stressProgram(bound int, piped bool, iters int) string {
	peach := fmt.Sprintf("peach &num-workers=%d $verif:s~ [(verif:items)]", bound)
	each := "each $verif:s~ [(verif:items)]"
	if piped {
		peach = fmt.Sprintf("verif:items | peach &num-workers=%d $verif:s~", bound)
		each = "verif:items | each $verif:s~"
	}
	return fmt.Sprintf(`for i [(range %d)] {
  verif:begin
  try { %s } catch e { verif:exc $e }
  verif:mid
  try { %s } catch e { verif:exc $e }
  verif:end
}`, iters, peach, each)
}

// stress runs batches until the time box is used up and emits one case per
// distinct outcome.
func stress(c *reg.Ctx) {
	box := 8 * time.Second
	switch {
	case c.Tier == "thorough":
		box = 60 * time.Second
	case c.Mode == "search":
		box = 20 * time.Second
	}
	sr := &stressRec{c: c, outcomes: map[string]*stressOutcome{}}
	ev := eval.NewEvaler()
	ns := eval.BuildNsNamed("verif").AddGoFns(map[string]any{
		"begin": sr.begin,
		"s":     sr.cb,
		"mid":   sr.mid,
		"exc":   sr.exc,
		"end":   sr.end,
		"items": sr.items,
	})
	ev.ExtendBuiltin(eval.BuildNs().AddNs("verif", ns))
	old := runtime.GOMAXPROCS(0)
	defer runtime.GOMAXPROCS(old)
	deadline := time.Now().Add(box)
	batches := 0
	for time.Now().Before(deadline) {
		// mostly bound 1 (side by side with each); bounds 2 and 3 in between
		sr.bound = 1
		if batches%4 == 3 {
			sr.bound = 2 + (batches/4)%2
		}
		sr.piped = batches%2 == 1
		if sr.bound > 1 {
			sr.piped = (batches/8)%2 == 0
		}
		runtime.GOMAXPROCS([]int{4, 8, 16, 4}[batches%4])
		code := stressProgram(sr.bound, sr.piped, 250)
		done := make(chan error, 1)
		go func() { done <- ev.Eval(parse.Source{Name: "[c20-stress]", Code: code}, eval.EvalCfg{}) }()
		select {
		case err := <-done:
			if err != nil {
				if _, bad := err.(*parse.Error); bad || strings.Contains(err.Error(), "compilation error") {
					panic("c20 stress: program does not compile: " + err.Error())
				}
				c.Emit(reg.Case{Direct: "stress batch ended with an exception: " + err.Error(),
					Desc: map[string]any{"prog": code}, Key: "stress-exc/" + err.Error(), Class: "stress-batch", Nontrivial: true})
				return
			}
		case <-time.After(60 * time.Second):
			c.Emit(reg.Case{Direct: "stress batch did not finish within 60s (deadlock in peach?)",
				Desc: map[string]any{"prog": code, "bound": sr.bound}, Key: fmt.Sprintf("stress-hang/%d", sr.bound),
				Class: "stress-batch", Nontrivial: true})
			return
		}
		batches++
	}
	sr.mu.Lock()
	defer sr.mu.Unlock()
	c.Dist["stress-iterations"] += sr.iters
	c.Dist["stress-outcomes"] += len(sr.outcomes)
	for _, key := range sr.order {
		oc := sr.outcomes[key]
		specs := make([]cbSpec, len(oc.Kinds))
		for i, k := range oc.Kinds {
			specs[i].Kind = k
		}
		class := "stress-peach1"
		if oc.Bound > 1 {
			class = "stress-peach-bounded"
		}
		eo := None()
		if oc.Each != nil {
			eo = Some(oc.Each.coq())
		}
		c.Emit(reg.Case{
			Coq:        App("CPeach", Some(Nat(oc.Bound)), specsCoq(specs), oc.Peach.coq(), eo),
			Desc:       oc,
			Key:        "stress/" + key,
			Nontrivial: true,
			Class:      class,
		})
	}
}
