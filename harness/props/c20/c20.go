// Package c20: peach / each / run-parallel (pkg/eval/builtin_fn_flow.go).
//
// Every case runs a generated Elvish program in a fresh Evaler that has the
// harness builtins verif:enter / verif:emit / verif:leave / verif:ret registered.
// The callback behaviours (outputs, delay, how it ends) are chosen by the
// generator per input; the builtins count callback entries per input, the
// number of callbacks inside enter..leave, and whether any was still running
// when the command returned.  Bound-1 peach is run side by side with each on
// the same callbacks.  The observation is judged inside Coq (model/C20.v).
package c20

import (
	"fmt"
	"reflect"
	"runtime"
	"sort"
	"strconv"
	"strings"
	"sync"
	"time"

	"src.elv.sh/pkg/eval"
	"src.elv.sh/pkg/parse"
	. "verifharness/coqfmt"
	"verifharness/reg"
)

func init() {
	reg.Register(&reg.Spec{ID: "C20",
		Imports: "From verif Require Import lib.Base model.C20_Peach model.C20.",
		Judge:   "C20.judge", Shard: 60, Run: run})
}

const (
	kNormal = iota
	kCont
	kBreak
	kFail
)

type cbSpec struct {
	Outs  []uint64 `json:"outs"`
	Kind  int      `json:"kind"`
	Delay int      `json:"delay"` // 0 none, 1 yield, 2 short sleep, 3 longer sleep
}

func (s cbSpec) coq(i int) string {
	outs := make([]string, len(s.Outs))
	for j, o := range s.Outs {
		outs[j] = N(o)
	}
	k := "KNormal"
	switch s.Kind {
	case kCont:
		k = "KCont"
	case kBreak:
		k = "KBreak"
	case kFail:
		k = App("KFail", N(uint64(i)))
	}
	return App("mkCb", List(outs), k)
}

type obs struct {
	Calls  []int    `json:"calls"`
	MaxRun int      `json:"maxrun"`
	Out    []uint64 `json:"out"`
	Errs   []uint64 `json:"errs"`
	Late   bool     `json:"late"`
	Err    string   `json:"err,omitempty"`
}

func (o obs) coq() string {
	calls := make([]string, len(o.Calls))
	for i, c := range o.Calls {
		calls[i] = Nat(c)
	}
	out := make([]string, len(o.Out))
	for i, v := range o.Out {
		out[i] = N(v)
	}
	errs := make([]string, len(o.Errs))
	for i, v := range o.Errs {
		errs[i] = N(v)
	}
	return App("mkObs", List(calls), Nat(o.MaxRun), List(out), List(errs), Bool(o.Late))
}

// recorder is the shared state behind the verif: builtins of one run.
type recorder struct {
	mu      sync.Mutex
	specs   []cbSpec
	calls   []int
	running int
	maxrun  int
	ret     bool
	late    bool
}

func (r *recorder) enter(x int) {
	r.mu.Lock()
	if x >= 0 && x < len(r.calls) {
		r.calls[x]++
	}
	r.running++
	if r.running > r.maxrun {
		r.maxrun = r.running
	}
	if r.ret {
		r.late = true
	}
	r.mu.Unlock()
}

func (r *recorder) leave() {
	r.mu.Lock()
	r.running--
	if r.ret {
		r.late = true
	}
	r.mu.Unlock()
}

func delay(d int) {
	switch d {
	case 1:
		runtime.Gosched()
	case 2:
		time.Sleep(20 * time.Microsecond)
	case 3:
		time.Sleep(300 * time.Microsecond)
	}
}

const otherErr = 999000

func newEvaler(r *recorder) *eval.Evaler {
	ev := eval.NewEvaler()
	spec := func(x int) cbSpec {
		if x >= 0 && x < len(r.specs) {
			return r.specs[x]
		}
		return cbSpec{}
	}
	ns := eval.BuildNsNamed("verif").AddGoFns(map[string]any{
		"enter": func(x int) { r.enter(x) },
		"emit": func(fm *eval.Frame, x int) error {
			s := spec(x)
			out := fm.ValueOutput()
			delay(s.Delay)
			for _, v := range s.Outs {
				if err := out.Put(strconv.FormatUint(v, 10)); err != nil {
					return err
				}
				delay(s.Delay)
			}
			return nil
		},
		// leave, then end the callback from Go the way the spec says
		"leave": func(x int) error {
			r.leave()
			switch spec(x).Kind {
			case kCont:
				return eval.Continue
			case kBreak:
				return eval.Break
			case kFail:
				return eval.FailError{Content: "f" + strconv.Itoa(x)}
			}
			return nil
		},
		// leave, and tell the Elvish code how to end
		"leave-kind": func(x int) string {
			r.leave()
			return [...]string{"n", "c", "b", "f"}[spec(x).Kind]
		},
		"ret": func() {
			r.mu.Lock()
			r.ret = true
			if r.running > 0 {
				r.late = true
			}
			r.mu.Unlock()
		},
	})
	ev.ExtendBuiltin(eval.BuildNs().AddNs("verif", ns))
	return ev
}

// errIDs flattens the error returned by Eval into the ids of the fail
// exceptions it reports (f<i> -> i); anything else becomes otherErr+code.
func errIDs(err error, ids *[]uint64) {
	if err == nil {
		return
	}
	if exc, ok := err.(eval.Exception); ok {
		errIDs(exc.Reason(), ids)
		return
	}
	switch e := err.(type) {
	case eval.FailError:
		if s, ok := e.Content.(string); ok && strings.HasPrefix(s, "f") {
			if i, perr := strconv.Atoi(s[1:]); perr == nil {
				*ids = append(*ids, uint64(i))
				return
			}
		}
		*ids = append(*ids, otherErr+1)
		return
	case eval.PipelineError:
		for _, x := range e.Errors {
			if x != nil && x.Reason() != nil {
				errIDs(x, ids)
			}
		}
		return
	case eval.Flow:
		*ids = append(*ids, otherErr+10+uint64(e))
		return
	}
	// errutil.multiError is an unexported []error
	v := reflect.ValueOf(err)
	if v.Kind() == reflect.Slice {
		for i := 0; i < v.Len(); i++ {
			if x, ok := v.Index(i).Interface().(error); ok {
				errIDs(x, ids)
			}
		}
		return
	}
	*ids = append(*ids, otherErr+2)
}

const cbGo = `{|x| verif:enter $x; verif:emit $x; verif:leave $x }`
const cbElv = `{|x| verif:enter $x; verif:emit $x; var k = (verif:leave-kind $x); if (eq $k b) { break } elif (eq $k c) { continue } elif (eq $k f) { fail f$x } }`

type runCfg struct {
	Cmd    string // peach | each | run-parallel
	Bound  int    // 0 = +inf
	Style  int    // 0: Go-level endings, 1: Elvish-level break/continue/fail
	Piped  bool   // inputs arrive through a pipe instead of a list argument
	Procs  int
	Prog   string
}

func program(rc runCfg, n int) string {
	cb := cbGo
	if rc.Style == 1 {
		cb = cbElv
	}
	var cmd string
	switch rc.Cmd {
	case "peach":
		opt := ""
		if rc.Bound > 0 {
			opt = fmt.Sprintf("&num-workers=%d ", rc.Bound)
		}
		if rc.Piped {
			cmd = fmt.Sprintf("range %d | peach %s$cb~", n, opt)
		} else {
			cmd = fmt.Sprintf("peach %s$cb~ [(range %d)]", opt, n)
		}
	case "each":
		if rc.Piped {
			cmd = fmt.Sprintf("range %d | each $cb~", n)
		} else {
			cmd = fmt.Sprintf("each $cb~ [(range %d)]", n)
		}
	case "run-parallel":
		var sb strings.Builder
		sb.WriteString("run-parallel")
		for i := 0; i < n; i++ {
			fmt.Fprintf(&sb, " { cb %d }", i)
		}
		cmd = sb.String()
	}
	return "var cb~ = " + cb + "\ntry { " + cmd + " } finally { verif:ret }"
}

// runOne runs one command once and returns the observation; ok=false on a hang.
func runOne(rc *runCfg, specs []cbSpec) (obs, bool) {
	n := len(specs)
	r := &recorder{specs: specs, calls: make([]int, n)}
	ev := newEvaler(r)
	rc.Prog = program(*rc, n)
	old := runtime.GOMAXPROCS(rc.Procs)
	defer runtime.GOMAXPROCS(old)
	port1, collect, perr := eval.CapturePort()
	if perr != nil {
		panic(perr)
	}
	done := make(chan error, 1)
	go func() {
		done <- ev.Eval(parse.Source{Name: "[c20]", Code: rc.Prog},
			eval.EvalCfg{Ports: []*eval.Port{nil, port1, nil}})
	}()
	var err error
	select {
	case err = <-done:
	case <-time.After(30 * time.Second):
		return obs{Err: "hang"}, false
	}
	values, _ := collect()
	if _, bad := err.(*parse.Error); bad || (err != nil && strings.Contains(err.Error(), "compilation error")) {
		panic("c20: program does not compile: " + err.Error() + "\n" + rc.Prog)
	}
	// give a late callback the chance to show itself
	for i := 0; i < 3; i++ {
		runtime.Gosched()
	}
	r.mu.Lock()
	defer r.mu.Unlock()
	o := obs{Calls: append([]int{}, r.calls...), MaxRun: r.maxrun, Late: r.late || r.running > 0}
	for _, v := range values {
		s, _ := v.(string)
		u, perr := strconv.ParseUint(s, 10, 64)
		if perr != nil {
			u = otherErr
		}
		o.Out = append(o.Out, u)
	}
	errIDs(err, &o.Errs)
	sort.Slice(o.Errs, func(i, j int) bool { return o.Errs[i] < o.Errs[j] })
	if err != nil {
		o.Err = err.Error()
		if len(o.Err) > 80 {
			o.Err = o.Err[:80]
		}
	}
	return o, true
}

type desc struct {
	Cmd    string   `json:"cmd"`
	Bound  int      `json:"bound"`
	Procs  int      `json:"gomaxprocs"`
	Prog   string   `json:"prog"`
	Specs  []cbSpec `json:"specs"`
	Obs    obs      `json:"obs"`
	Each   *obs     `json:"each,omitempty"`
}

func genSpecs(c *reg.Ctx, n int, endings string) []cbSpec {
	specs := make([]cbSpec, n)
	delayMode := c.Rand.Intn(4) // per case: mostly none / mixed / sleepy
	for i := range specs {
		no := c.Rand.Intn(3)
		if c.Rand.Intn(8) == 0 {
			no = 3 + c.Rand.Intn(4)
		}
		for j := 0; j < no; j++ {
			specs[i].Outs = append(specs[i].Outs, uint64(i*100+j))
		}
		switch delayMode {
		case 1:
			specs[i].Delay = c.Rand.Intn(3)
		case 2:
			specs[i].Delay = c.Rand.Intn(4)
		case 3:
			specs[i].Delay = 2
		}
	}
	switch endings {
	case "none":
	case "continue":
		for i := range specs {
			if c.Rand.Intn(3) == 0 {
				specs[i].Kind = kCont
			}
		}
	default: // one or a few breaks / fails at chosen items
		k := 1
		if c.Rand.Intn(3) == 0 {
			k = 2 + c.Rand.Intn(2)
		}
		for ; k > 0 && n > 0; k-- {
			i := c.Rand.Intn(n)
			switch endings {
			case "break":
				specs[i].Kind = kBreak
			case "fail":
				specs[i].Kind = kFail
			default:
				specs[i].Kind = kBreak + c.Rand.Intn(2)
			}
		}
		for i := range specs {
			if specs[i].Kind == kNormal && c.Rand.Intn(6) == 0 {
				specs[i].Kind = kCont
			}
		}
	}
	return specs
}

func firstBreaker(specs []cbSpec) int {
	for i, s := range specs {
		if s.Kind == kBreak || s.Kind == kFail {
			return i
		}
	}
	return -1
}

// class is computed from the input only.
func classOf(cmd string, bound int, specs []cbSpec) string {
	fb := firstBreaker(specs)
	switch {
	case cmd == "run-parallel":
		return "run-parallel"
	case cmd == "each":
		return "each"
	case bound == 1 && fb >= 0 && fb+1 < len(specs):
		// documented as equal to each; the dispatcher tests broken before it
		// blocks in Acquire, so input fb+1 is still started
		return "peach1-break-before-last"
	case bound == 1:
		return "peach1"
	case bound == 0 && fb >= 0:
		return "peach-inf-break"
	case bound == 0:
		return "peach-inf"
	case fb >= 0:
		return "peach-bounded-break"
	}
	return "peach-bounded"
}

func specsCoq(specs []cbSpec) string {
	items := make([]string, len(specs))
	for i, s := range specs {
		items[i] = s.coq(i)
	}
	return List(items)
}

func emitPeach(c *reg.Ctx, specs []cbSpec, bound int, style int, piped bool, procs int) {
	rc := runCfg{Cmd: "peach", Bound: bound, Style: style, Piped: piped, Procs: procs}
	class := classOf("peach", bound, specs)
	key := fmt.Sprintf("peach/%d/%d/%v/%d/%v", bound, style, piped, procs, specs)
	o, ok := runOne(&rc, specs)
	d := desc{Cmd: "peach", Bound: bound, Procs: procs, Prog: rc.Prog, Specs: specs, Obs: o}
	if !ok {
		c.Emit(reg.Case{Direct: "peach did not return within 30s", Desc: d, Key: key, Class: class, Nontrivial: true})
		return
	}
	eo := None()
	if bound == 1 {
		erc := runCfg{Cmd: "each", Style: style, Piped: piped, Procs: procs}
		e, eok := runOne(&erc, specs)
		if eok {
			d.Each = &e
			eo = Some(e.coq())
		}
	}
	b := None()
	if bound > 0 {
		b = Some(Nat(bound))
	}
	c.Count(class)
	c.Count(fmt.Sprintf("procs=%d", procs))
	c.Emit(reg.Case{
		Coq:        App("CPeach", b, specsCoq(specs), o.coq(), eo),
		Desc:       d,
		Key:        key,
		Nontrivial: len(specs) >= 2,
		Class:      class,
	})
}

func emitRunPar(c *reg.Ctx, specs []cbSpec, procs int) {
	rc := runCfg{Cmd: "run-parallel", Procs: procs}
	key := fmt.Sprintf("runpar/%d/%v", procs, specs)
	o, ok := runOne(&rc, specs)
	d := desc{Cmd: "run-parallel", Procs: procs, Prog: rc.Prog, Specs: specs, Obs: o}
	if !ok {
		c.Emit(reg.Case{Direct: "run-parallel did not return within 30s", Desc: d, Key: key, Class: "run-parallel", Nontrivial: true})
		return
	}
	c.Count("run-parallel")
	c.Emit(reg.Case{Coq: App("CRunPar", specsCoq(specs), o.coq()), Desc: d, Key: key,
		Nontrivial: len(specs) >= 2, Class: "run-parallel"})
}

func emitEach(c *reg.Ctx, specs []cbSpec, style int, piped bool) {
	rc := runCfg{Cmd: "each", Style: style, Piped: piped, Procs: 2}
	key := fmt.Sprintf("each/%d/%v/%v", style, piped, specs)
	o, ok := runOne(&rc, specs)
	d := desc{Cmd: "each", Procs: 2, Prog: rc.Prog, Specs: specs, Obs: o}
	if !ok {
		c.Emit(reg.Case{Direct: "each did not return within 30s", Desc: d, Key: key, Class: "each", Nontrivial: true})
		return
	}
	c.Count("each")
	c.Emit(reg.Case{Coq: App("CEach", specsCoq(specs), o.coq()), Desc: d, Key: key,
		Nontrivial: len(specs) >= 2, Class: "each"})
}

var procsChoices = []int{1, 2, 4, 8}
var endingsChoices = []string{"none", "none", "continue", "break", "fail", "mixed", "mixed"}

func size(c *reg.Ctx) int {
	switch r := c.Rand.Intn(20); {
	case r == 0:
		return 0
	case r == 1:
		return 1
	case r < 14:
		return 2 + c.Rand.Intn(9)
	case r < 19:
		return 10 + c.Rand.Intn(40)
	default:
		if c.Tier == "thorough" {
			return 100 + c.Rand.Intn(401)
		}
		return 50 + c.Rand.Intn(70)
	}
}

func run(c *reg.Ctx) {
	// 1. planted: the documented bound-1 equivalence with a break / fail in the
	//    middle, at the end, at the start; the reproduced defect 1 2 3 vs 1 2.
	plant := func(n, at, kind int) []cbSpec {
		specs := make([]cbSpec, n)
		for i := range specs {
			specs[i].Outs = []uint64{uint64(i*100 + 1)}
		}
		if at >= 0 {
			specs[at].Kind = kind
		}
		return specs
	}
	for _, procs := range []int{1, 4} {
		emitPeach(c, plant(4, 1, kBreak), 1, 1, false, procs)
		emitPeach(c, plant(4, 1, kFail), 1, 0, false, procs)
		emitPeach(c, plant(3, 2, kBreak), 1, 1, false, procs)
		emitPeach(c, plant(3, 0, kFail), 1, 1, true, procs)
		emitPeach(c, plant(5, -1, 0), 1, 0, false, procs)
		emitPeach(c, plant(6, 2, kBreak), 2, 1, false, procs)
		emitPeach(c, plant(6, 2, kFail), 0, 1, false, procs)
		emitPeach(c, plant(0, -1, 0), 3, 0, false, procs)
		// run-parallel: all functions fail; none fails
		allFail := plant(5, -1, 0)
		for i := range allFail {
			allFail[i].Kind = kFail
		}
		emitRunPar(c, allFail, procs)
		emitRunPar(c, plant(4, -1, 0), procs)
		// several failures in one peach: all must be reported
		twoFail := plant(6, 1, kFail)
		twoFail[2].Kind = kFail
		twoFail[3].Kind = kFail
		emitPeach(c, twoFail, 0, 0, false, procs)
		emitPeach(c, twoFail, 4, 1, false, procs)
	}
	// 1b. stress stream: thousands of cheap bound-1 / bound-k iterations, aggregated
	stress(c)
	// 2. generated
	for i := 0; i < c.N; i++ {
		n := size(c)
		endings := endingsChoices[c.Rand.Intn(len(endingsChoices))]
		specs := genSpecs(c, n, endings)
		procs := procsChoices[c.Rand.Intn(len(procsChoices))]
		style := c.Rand.Intn(2)
		piped := c.Rand.Intn(4) == 0
		switch r := c.Rand.Intn(10); {
		case r < 3: // bound 1, side by side with each
			emitPeach(c, specs, 1, style, piped, procs)
		case r < 6: // bounds 2..8
			emitPeach(c, specs, 2+c.Rand.Intn(7), style, piped, procs)
		case r < 8: // +inf
			emitPeach(c, specs, 0, style, piped, procs)
		case r < 9:
			if n > 40 {
				specs = specs[:40]
			}
			manyFail := c.Rand.Intn(2) == 0
			for j := range specs { // run-parallel functions: normal or fail
				if specs[j].Kind == kBreak || specs[j].Kind == kCont {
					specs[j].Kind = kNormal
				}
				// several failing functions at once: every exception must be reported
				if manyFail && c.Rand.Intn(2) == 0 {
					specs[j].Kind = kFail
				}
			}
			emitRunPar(c, specs, procs)
		default:
			emitEach(c, specs, style, piped)
		}
	}
}
