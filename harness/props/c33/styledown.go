package c33

// Styledown: styledown.Derender (Text -> markup) followed by styledown.Render
// (markup -> Text) must give the same Text; Render must be total on arbitrary
// markup.  Both are compared with the model (coq/model/C33_styledown.v).

import (
	"fmt"
	"strings"
	"unicode/utf8"

	"src.elv.sh/pkg/ui"
	"src.elv.sh/pkg/ui/styledown"
	"src.elv.sh/pkg/wcwidth"
	. "verifharness/coqfmt"
	"verifharness/reg"
)

// atomOf mirrors ui.parseOneStyling for one space-free name and gives the
// model's styling atom.
func atomOf(name string) (string, bool) {
	st := ui.ParseStyling(name)
	if st == nil || strings.ContainsRune(name, ' ') {
		return "", false
	}
	applied := ui.ApplyStyling(ui.Style{}, st)
	field := func(n string) (string, bool) {
		for i, f := range fieldNames {
			if f == n {
				return fieldCoq[i], true
			}
		}
		return "", false
	}
	switch {
	case name == "default" || name == "fg-default":
		return "(SFg None)", true
	case strings.HasPrefix(name, "fg-"):
		return App("SFg", coqColor(applied.Fg)), true
	case name == "bg-default":
		return "(SBg None)", true
	case strings.HasPrefix(name, "bg-"):
		return App("SBg", coqColor(applied.Bg)), true
	case strings.HasPrefix(name, "no-"):
		f, ok := field(name[3:])
		return App("SOff", f), ok
	case strings.HasPrefix(name, "toggle-"):
		f, ok := field(name[7:])
		return App("SToggle", f), ok
	default:
		if f, ok := field(name); ok {
			return App("SOn", f), true
		}
		return App("SFg", coqColor(applied.Fg)), true
	}
}

// parseDef mirrors styledown.parseStyleCharDef (which is not exported) with the
// exported pieces it is made of; result as a Coq option (char, atoms).
func parseDef(line string) string {
	fields := strings.Fields(line)
	if len(fields) < 2 {
		return "None"
	}
	r, _ := utf8.DecodeRuneInString(fields[0])
	if string(r) != fields[0] || wcwidth.OfRune(r) != 1 {
		return "None"
	}
	if ui.ParseStyling(strings.Join(fields[1:], " ")) == nil {
		return "None"
	}
	atoms := make([]string, 0, len(fields)-1)
	for _, f := range fields[1:] {
		a, ok := atomOf(f)
		if !ok {
			return "None"
		}
		atoms = append(atoms, a)
	}
	return Some(Pair(N(uint64(r)), List(atoms)))
}

// defTable lists the parse of every distinct non-empty line of the given strings.
func defTable(ss ...string) string {
	seen := map[string]bool{}
	var items []string
	for _, s := range ss {
		for _, l := range strings.Split(s, "\n") {
			if l == "" || l == "no-eol" || seen[l] {
				continue
			}
			seen[l] = true
			if p := parseDef(l); p != "None" || strings.ContainsAny(l, " \t") {
				items = append(items, Pair(Str(l), p))
			}
		}
	}
	if len(items) == 0 {
		return "(@nil (bytes * option (N * list styling)))"
	}
	return List(items)
}

type sdDesc struct {
	Kind   string `json:"kind"`
	Text   string `json:"text,omitempty"`
	Defs   string `json:"defs,omitempty"`
	Markup string `json:"markup"`
	Back   string `json:"back"`
}

// render with panic capture: (coq sd_back, shown, panic text)
func renderBack(markup string) (string, string, string) {
	var t ui.Text
	var err error
	var panicked any
	func() {
		defer func() { panicked = recover() }()
		t, err = styledown.Render(markup)
	}()
	switch {
	case panicked != nil:
		return "BackNone", "panic", fmt.Sprint(panicked)
	case err != nil:
		return "BackErr", "error: " + err.Error(), ""
	default:
		return App("BackOk", coqRes(t)), showText(t), ""
	}
}

var sdValidDefs = []string{"r fg-red", "G inverse fg-green", "b bold", "* fg-red", "u underlined",
	"x toggle-bold", "m bg-color42 italic", "  k   fg-#0a0b0c  dim "}
var sdBadDefs = []string{"好 bold", "rr bold", "r", "q nosuch", "r fg-blue", "R fg-red", "́ bold", "no-eol"}

var sdNeeded = map[ui.Style]string{
	{Fg: ui.Red}:                             "r fg-red",
	{Inverse: true, Fg: ui.Green}:            "G inverse fg-green",
	{Bg: ui.XTerm256Color(42), Italic: true}: "m bg-color42 italic",
}

// genDefs: usually the definitions the text needs, plus extras (also bad ones)
func genDefs(c *reg.Ctx, t ui.Text) string {
	var lines []string
	if c.Rand.Intn(8) != 0 {
		seen := map[string]bool{}
		for _, seg := range t {
			if l, ok := sdNeeded[seg.Style]; ok && !seen[l] {
				seen[l] = true
				lines = append(lines, l)
			}
		}
	}
	for i := c.Rand.Intn(3); i > 0; i-- {
		l := sdValidDefs[c.Rand.Intn(len(sdValidDefs))]
		dup := false
		for _, x := range lines {
			dup = dup || x == l
		}
		if !dup || c.Rand.Intn(10) == 0 {
			lines = append(lines, l)
		}
	}
	if c.Rand.Intn(10) == 0 {
		lines = append(lines, sdBadDefs[c.Rand.Intn(len(sdBadDefs))])
	}
	if c.Rand.Intn(6) == 0 {
		lines = append(lines, "")
	}
	c.Rand.Shuffle(len(lines), func(i, j int) { lines[i], lines[j] = lines[j], lines[i] })
	return strings.Join(lines, "\n")
}

var sdStyles = []ui.Style{{}, {Bold: true}, {Underlined: true}, {Inverse: true}, {Fg: ui.Red},
	{Inverse: true, Fg: ui.Green}, {Bg: ui.XTerm256Color(42), Italic: true}, {Blink: true}}
var sdAlphabets = [][]rune{[]rune("ab "), []rune("a中文"), []rune("é好 x"), []rune("*_# "), []rune("😀ｗz")}
var sdZeroWidth = []rune("á\t​")

func genSDText(c *reg.Ctx) ui.Text {
	n := c.Rand.Intn(6)
	var parts []ui.Text
	for i := 0; i < n; i++ {
		al := sdAlphabets[c.Rand.Intn(len(sdAlphabets))]
		var sb strings.Builder
		for k := 1 + c.Rand.Intn(5); k > 0; k-- {
			sb.WriteRune(al[c.Rand.Intn(len(al))])
		}
		if c.Rand.Intn(25) == 0 {
			sb.WriteRune(sdZeroWidth[c.Rand.Intn(len(sdZeroWidth))])
		}
		st := sdStyles[c.Rand.Intn(len(sdStyles)-1)]
		if c.Rand.Intn(30) == 0 {
			st = sdStyles[len(sdStyles)-1] // no character for it
		}
		switch c.Rand.Intn(10) {
		case 0, 1, 2:
			// newline in the default style
			parts = append(parts, ui.Text{&ui.Segment{Style: st, Text: sb.String()}}, ui.T(strings.Repeat("\n", 1+c.Rand.Intn(2))))
			continue
		case 3:
			if c.Rand.Intn(3) == 0 {
				sb.WriteString("\n") // newline carrying the segment's style
			}
		}
		parts = append(parts, ui.Text{&ui.Segment{Style: st, Text: sb.String()}})
	}
	return ui.Concat(parts...)
}

// sdTextClass: all applicable input classes joined by "|" (each predicate is
// evaluated on the input independently).
func sdTextClass(t ui.Text) string {
	classes := []string{"styledown-roundtrip"}
	zero, styledNL := false, false
	for _, seg := range t {
		for _, r := range seg.Text {
			if r != '\n' && wcwidth.OfRune(r) == 0 {
				zero = true
			}
		}
		if seg.Style != (ui.Style{}) && strings.Contains(seg.Text, "\n") {
			styledNL = true
		}
	}
	if zero {
		classes = append(classes, "styledown-zero-width-char")
	}
	if styledNL {
		classes = append(classes, "styledown-styled-newline")
	}
	return strings.Join(classes, "|")
}

func sdRound(c *reg.Ctx, t ui.Text, defs string) {
	class := sdTextClass(t)
	markup, err := styledown.Derender(t, defs)
	if err != nil {
		c.Count("styledown/derender-error")
		c.Emit(reg.Case{
			Coq:  App("CSD", App("SDRound", coqText(t), Str(defs), defTable(defs), "None", "BackNone")),
			Desc: sdDesc{Kind: "Derender", Text: showText(t), Defs: defs, Markup: "error: " + err.Error()},
			Key:  "sdround/" + showText(t) + "/" + defs, Nontrivial: len(t) >= 2, Class: class,
		})
		return
	}
	back, shown, panicked := renderBack(markup)
	cs := reg.Case{
		Coq:  App("CSD", App("SDRound", coqText(t), Str(defs), defTable(defs, markup), Some(Str(markup)), back)),
		Desc: sdDesc{Kind: "Derender+Render", Text: showText(t), Defs: defs, Markup: markup, Back: shown},
		Key:  "sdround/" + showText(t) + "/" + defs, Nontrivial: len(t) >= 2, Class: class,
	}
	if panicked != "" {
		cs.Coq = ""
		cs.Direct = "styledown.Render panicked on the output of Derender: " + panicked
	}
	c.Count("styledown/" + class)
	c.Emit(cs)
}

// class of a markup: can the style line run out under a wide character?
func sdMarkupClass(markup string) string {
	lines := strings.Split(markup, "\n")
	for i := 0; i+1 < len(lines) && wcwidth.Of(lines[i]) == wcwidth.Of(lines[i+1]); i += 2 {
		if utf8.RuneCountInString(lines[i+1]) < wcwidth.Of(lines[i]) {
			return "styledown-parse-short-style-line"
		}
	}
	return "styledown-parse"
}

func sdParse(c *reg.Ctx, markup string) {
	class := sdMarkupClass(markup)
	back, shown, panicked := renderBack(markup)
	cs := reg.Case{
		Coq:  App("CSD", App("SDParse", Str(markup), defTable(markup), back)),
		Desc: sdDesc{Kind: "Render", Markup: markup, Back: shown},
		Key:  "sdparse/" + markup, Nontrivial: strings.Count(markup, "\n") >= 2, Class: class,
	}
	if panicked != "" {
		cs.Coq = ""
		cs.Direct = "styledown.Render panicked: " + panicked
	}
	c.Count("styledown/" + class)
	c.Emit(cs)
}

var sdInserts = []rune(" *_#r好\n\nx́")

func mutateMarkup(c *reg.Ctx, m string) string {
	rs := []rune(m)
	for k := 1 + c.Rand.Intn(3); k > 0; k-- {
		switch c.Rand.Intn(4) {
		case 0, 1:
			i := c.Rand.Intn(len(rs) + 1)
			rs = append(rs[:i:i], append([]rune{sdInserts[c.Rand.Intn(len(sdInserts))]}, rs[i:]...)...)
		case 2:
			if len(rs) > 0 {
				i := c.Rand.Intn(len(rs))
				rs = append(rs[:i:i], rs[i+1:]...)
			}
		default:
			lines := strings.Split(string(rs), "\n")
			i := c.Rand.Intn(len(lines))
			lines = append(lines[:i+1], lines[i:]...)
			rs = []rune(strings.Join(lines, "\n"))
		}
	}
	return string(rs)
}

func sdFixed(c *reg.Ctx) {
	bold := ui.Style{Bold: true}
	mk := func(pairs ...any) ui.Text {
		var parts []ui.Text
		for i := 0; i < len(pairs); i += 2 {
			parts = append(parts, ui.Text{&ui.Segment{Style: pairs[i].(ui.Style), Text: pairs[i+1].(string)}})
		}
		return ui.Concat(parts...)
	}
	// boundary conventions
	sdRound(c, nil, "")
	sdRound(c, mk(ui.Style{}, "\n"), "")
	sdRound(c, mk(ui.Style{}, "\n\n"), "")
	sdRound(c, mk(bold, "a", ui.Style{}, "\n"), "")
	sdRound(c, mk(bold, "好x", ui.Style{}, "\n\nz"), "b bold")
	sdRound(c, mk(ui.Style{Fg: ui.Red}, "好x", ui.Style{Inverse: true, Fg: ui.Green}, "y"), "r fg-red\nG inverse fg-green\nu underlined")
	sdRound(c, mk(ui.Style{Fg: ui.Red}, "x"), "* fg-red")
	sdRound(c, mk(bold, "x"), "* fg-red")
	// the defect witnesses
	sdRound(c, mk(bold, "a\nb"), "")
	sdRound(c, mk(ui.Style{}, "á"), "")
	sdRound(c, mk(ui.Style{}, "a\tb"), "")
	for _, k := range []int{31, 47} {
		sdParse(c, strings.Repeat("a", k)+"好\n"+strings.Repeat("*", k)+"好\n")
	}
	for _, m := range []string{"", "a", "a\n", "a\n*", "a\n*\n", "\n\n\n", "a\n*\n\nx", "a\n*\n\nno-eol\nno-eol", "ab\n好\n",
		"a好\n*好\n", "好好\n*好*\n", "a\nr\n\nr fg-red\nr fg-blue", "a\nr\n\nr fg-red\n\nno-eol\n", "a\n*\nb\n", "好\n**\n\n* fg-red", "a\n \n\n\n"} {
		sdParse(c, m)
	}
}

func opStyledown(c *reg.Ctx) {
	if c.Rand.Intn(3) != 0 {
		t := genSDText(c)
		sdRound(c, t, genDefs(c, t))
		return
	}
	t := genSDText(c)
	defs := genDefs(c, t)
	m, err := styledown.Derender(t, defs)
	if err != nil {
		m = "ab\n* \n"
	}
	sdParse(c, mutateMarkup(c, m))
}
