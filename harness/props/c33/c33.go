// Package c33: styled text stays normalised and keeps its content (pkg/ui).
//
// Every case runs one ui operation on generated inputs and reports the
// operation (as data) together with what it returned; the Coq side judges the
// observation with the oracle check_C33 (normal form + content law) and
// compares it with the model (model/C33.v).
package c33

import (
	"fmt"
	"sort"
	"strconv"
	"strings"
	"unicode/utf8"

	"src.elv.sh/pkg/eval"
	"src.elv.sh/pkg/eval/vals"
	"src.elv.sh/pkg/ui"
	"src.elv.sh/pkg/wcwidth"
	. "verifharness/coqfmt"
	"verifharness/reg"
)

func init() {
	reg.Register(&reg.Spec{ID: "C33",
		Imports: "From verif Require Import lib.Base model.C33 model.C33_styledown.",
		Judge:   "C33_styledown.judge", Shard: 600, Run: run})
}

// ---------------------------------------------------------------- printing

func coqColor(c ui.Color) string {
	if c == nil {
		return "None"
	}
	s := c.String()
	names := []string{"black", "red", "green", "yellow", "blue", "magenta", "cyan", "white"}
	for i, n := range names {
		if s == n {
			return fmt.Sprintf("(Some (0%%N, %d%%N))", i)
		}
		if s == "bright-"+n {
			return fmt.Sprintf("(Some (1%%N, %d%%N))", i)
		}
	}
	if strings.HasPrefix(s, "color") {
		i, _ := strconv.Atoi(s[5:])
		return fmt.Sprintf("(Some (2%%N, %d%%N))", i)
	}
	if strings.HasPrefix(s, "#") {
		v, _ := strconv.ParseUint(s[1:], 16, 32)
		return fmt.Sprintf("(Some (3%%N, %d%%N))", v)
	}
	return "(Some (9%N, 0%N))"
}

func coqStyle(s ui.Style) string {
	return App("mkStyle", coqColor(s.Fg), coqColor(s.Bg), Bool(s.Bold), Bool(s.Dim), Bool(s.Italic),
		Bool(s.Underlined), Bool(s.Blink), Bool(s.Inverse))
}

func coqSeg(s *ui.Segment) string { return Pair(coqStyle(s.Style), Str(s.Text)) }

func coqText(t ui.Text) string {
	items := make([]string, len(t))
	for i, s := range t {
		items[i] = coqSeg(s)
	}
	if len(items) == 0 {
		return "(@nil seg)"
	}
	return List(items)
}

func coqRes(t ui.Text) string { return Pair(Bool(t == nil), coqText(t)) }

func coqResList(ts []ui.Text) string {
	items := make([]string, len(ts))
	for i, t := range ts {
		items[i] = coqRes(t)
	}
	if len(items) == 0 {
		return "(@nil res)"
	}
	return List(items)
}

func showText(t ui.Text) string {
	var sb strings.Builder
	if t == nil {
		sb.WriteString("nil")
	}
	for _, s := range t {
		fmt.Fprintf(&sb, "{%q %s}", s.Text, s.Style.SGR())
	}
	return sb.String()
}

func showTexts(ts []ui.Text) string {
	parts := make([]string, len(ts))
	for i, t := range ts {
		parts[i] = showText(t)
	}
	return strings.Join(parts, " | ")
}

// ---------------------------------------------------------------- generators

var fieldNames = []string{"bold", "dim", "italic", "underlined", "blink", "inverse"}
var fieldCoq = []string{"FBold", "FDim", "FItalic", "FUnderlined", "FBlink", "FInverse"}
var colorNames = []string{"red", "green", "bright-blue", "color42", "#0a0b0c", "black"}

// a styling atom: Go value, elvish name, Coq term
type atom struct {
	st   ui.Styling
	name string
	coq  string
}

func genAtom(c *reg.Ctx) atom {
	mk := func(name string) atom {
		st := ui.ParseStyling(name)
		if st == nil {
			panic("bad styling " + name)
		}
		return atom{st: st, name: name}
	}
	switch c.Rand.Intn(10) {
	case 0, 1:
		f := c.Rand.Intn(6)
		a := mk(fieldNames[f])
		a.coq = App("SOn", fieldCoq[f])
		return a
	case 2:
		f := c.Rand.Intn(6)
		a := mk("no-" + fieldNames[f])
		a.coq = App("SOff", fieldCoq[f])
		return a
	case 3, 4:
		f := c.Rand.Intn(6)
		a := mk("toggle-" + fieldNames[f])
		a.coq = App("SToggle", fieldCoq[f])
		return a
	case 5, 6:
		n := colorNames[c.Rand.Intn(len(colorNames))]
		a := mk("fg-" + n)
		a.coq = App("SFg", coqColor(ui.ApplyStyling(ui.Style{}, a.st).Fg))
		return a
	case 7:
		n := colorNames[c.Rand.Intn(len(colorNames))]
		a := mk("bg-" + n)
		a.coq = App("SBg", coqColor(ui.ApplyStyling(ui.Style{}, a.st).Bg))
		return a
	case 8:
		if c.Rand.Intn(2) == 0 {
			a := mk("fg-default")
			a.coq = "(SFg None)"
			return a
		}
		a := mk("bg-default")
		a.coq = "(SBg None)"
		return a
	default:
		return atom{st: ui.Reset, name: "", coq: "SReset"}
	}
}

func genAtoms(c *reg.Ctx, max int) []atom {
	n := c.Rand.Intn(max + 1)
	as := make([]atom, n)
	for i := range as {
		as[i] = genAtom(c)
	}
	return as
}

func stylings(as []atom) []ui.Styling {
	ts := make([]ui.Styling, len(as))
	for i, a := range as {
		ts[i] = a.st
	}
	return ts
}

func coqAtoms(as []atom) string {
	items := make([]string, len(as))
	for i, a := range as {
		items[i] = a.coq
	}
	if len(items) == 0 {
		return "(@nil styling)"
	}
	return List(items)
}

func atomNames(as []atom) string {
	ns := make([]string, len(as))
	for i, a := range as {
		ns[i] = a.coq
	}
	return strings.Join(ns, " ")
}

var alphabets = [][]rune{
	[]rune("ab"),
	[]rune("a中\n"),
	[]rune("áé "),
	[]rune("x\n\n"),
	[]rune("a\t\x01\x7f中"),
	[]rune("😀a​ｗ"),
}

func genStr(c *reg.Ctx, allowEmpty bool) string {
	al := alphabets[c.Rand.Intn(len(alphabets))]
	n := c.Rand.Intn(6)
	if c.Rand.Intn(12) == 0 {
		n = c.Rand.Intn(30)
	}
	if !allowEmpty && n == 0 {
		n = 1
	}
	var sb strings.Builder
	for i := 0; i < n; i++ {
		sb.WriteRune(al[c.Rand.Intn(len(al))])
	}
	return sb.String()
}

// a small pool of styles so that equal neighbours occur often
func genStyle(c *reg.Ctx) ui.Style {
	var s ui.Style
	switch c.Rand.Intn(6) {
	case 0:
	case 1:
		s.Bold = true
	case 2:
		s.Fg = ui.Red
	case 3:
		s.Bold = true
		s.Fg = ui.Red
	case 4:
		s.Bg = ui.XTerm256Color(42)
		s.Inverse = true
	default:
		s = ui.ApplyStyling(s, stylings(genAtoms(c, 3))...)
	}
	return s
}

// a normal text built through the normalising builder (ui.Concat of one-segment texts)
func genText(c *reg.Ctx) ui.Text {
	n := c.Rand.Intn(5)
	if c.Rand.Intn(10) == 0 {
		n = 0
	}
	var parts []ui.Text
	for i := 0; i < n; i++ {
		s := genStr(c, false)
		parts = append(parts, ui.Text{&ui.Segment{Style: genStyle(c), Text: s}})
	}
	return ui.Concat(parts...)
}

func genSeg(c *reg.Ctx) *ui.Segment {
	return &ui.Segment{Style: genStyle(c), Text: genStr(c, c.Rand.Intn(5) == 0)}
}

// ---------------------------------------------------------------- emitting

type desc struct {
	Op  string `json:"op"`
	In  string `json:"in"`
	Arg string `json:"arg"`
	Via string `json:"via"`
	Obs string `json:"obs"`
}

func emit(c *reg.Ctx, class, via, opName, coqOp, in, arg string, nsegs int, obs []ui.Text) {
	c.Count(via + "/" + class)
	c.Emit(reg.Case{
		Coq:        App("COp", App("mkCase", coqOp, coqResList(obs))),
		Desc:       desc{opName, in, arg, via, showTexts(obs)},
		Key:        coqOp,
		Nontrivial: nsegs >= 2,
		Class:      class,
	})
}

func firstRune(s string) rune {
	r, _ := utf8.DecodeRuneInString(s)
	return r
}

// class of a TrimWcwidth input: does the width budget run out exactly at the
// start of a segment (the segment's first character no longer fits)?
func trimClass(t ui.Text, n int) string {
	rem := n
	for _, seg := range t {
		w := wcwidth.Of(seg.Text)
		if w >= rem {
			if seg.Text == "" || wcwidth.OfRune(firstRune(seg.Text)) > rem {
				return "trim-budget-ends-at-segment-start"
			}
			return "trim"
		}
		rem -= w
	}
	return "trim"
}

func restyleClass(t ui.Text, ts []ui.Styling) string {
	if len(t) == 0 {
		return "restyle-empty-text"
	}
	for i := 0; i+1 < len(t); i++ {
		if ui.ApplyStyling(t[i].Style, ts...) == ui.ApplyStyling(t[i+1].Style, ts...) {
			return "restyle-neighbours-become-equal"
		}
	}
	return "restyle"
}

func intsCoq(xs []int) string {
	items := make([]string, len(xs))
	for i, x := range xs {
		items[i] = Z(int64(x))
	}
	if len(items) == 0 {
		return "(@nil Z)"
	}
	return List(items)
}

func opT(c *reg.Ctx) {
	s := genStr(c, true)
	as := genAtoms(c, 3)
	out := ui.T(s, stylings(as)...)
	emit(c, "T", "api", "T", App("OpT", Str(s), coqAtoms(as)), strconv.Quote(s), atomNames(as), 1, []ui.Text{out})
}

func opConcat(c *reg.Ctx) {
	n := c.Rand.Intn(5)
	ts := make([]ui.Text, n)
	items := make([]string, n)
	shown := make([]string, n)
	segs := 0
	for i := range ts {
		ts[i] = genText(c)
		items[i] = coqText(ts[i])
		shown[i] = showText(ts[i])
		segs += len(ts[i])
	}
	arg := "(@nil text)"
	if n > 0 {
		arg = List(items)
	}
	out := ui.Concat(ts...)
	emit(c, "concat", "api", "Concat", App("OpConcat", arg), strings.Join(shown, " + "), "", segs, []ui.Text{out})
}

func genIndices(c *reg.Ctx, total int) ([]int, string) {
	k := c.Rand.Intn(4)
	idx := make([]int, k)
	for i := range idx {
		idx[i] = c.Rand.Intn(total + 1)
	}
	switch c.Rand.Intn(8) {
	case 0: // unsorted / out of range / negative: the code tolerates them
		for i := range idx {
			idx[i] += c.Rand.Intn(5) - 2
		}
		return idx, "partition-irregular-indices"
	default:
		sort.Ints(idx)
		return idx, "partition"
	}
}

func opPartition(c *reg.Ctx) {
	t := genText(c)
	total := 0
	for _, s := range t {
		total += len(s.Text)
	}
	idx, class := genIndices(c, total)
	out := t.Partition(idx...)
	emit(c, class, "api", "Partition", App("OpPartition", coqText(t), intsCoq(idx)), showText(t), fmt.Sprint(idx), len(t), out)
}

func opSplit(c *reg.Ctx) {
	t := genText(c)
	seps := []rune{'\n', 'a', '中', ' ', 'x', 0x301, 0xD800, -1}
	r := seps[c.Rand.Intn(len(seps))]
	out := t.SplitByRune(r)
	emit(c, "split", "api", "SplitByRune", App("OpSplit", coqText(t), Str(string(r))), showText(t), strconv.QuoteRune(r), len(t), out)
}

func opTrim(c *reg.Ctx) {
	t := genText(c)
	total := 0
	for _, s := range t {
		total += wcwidth.Of(s.Text)
	}
	n := c.Rand.Intn(total + 3)
	if c.Rand.Intn(20) == 0 {
		n = -1 - c.Rand.Intn(2)
	}
	out := t.TrimWcwidth(n)
	emit(c, trimClass(t, n), "api", "TrimWcwidth", App("OpTrim", coqText(t), Z(int64(n))), showText(t), fmt.Sprint(n), len(t), []ui.Text{out})
}

func opStyleText(c *reg.Ctx) {
	t := genText(c)
	as := genAtoms(c, 3)
	out := ui.StyleText(t, stylings(as)...)
	emit(c, restyleClass(t, stylings(as)), "api", "StyleText", App("OpStyleText", coqText(t), coqAtoms(as)), showText(t), atomNames(as), len(t), []ui.Text{out})
}

func opStyleSeg(c *reg.Ctx) {
	s := genSeg(c)
	as := genAtoms(c, 3)
	out := ui.StyleSegment(s, stylings(as)...)
	emit(c, "style-segment", "api", "StyleSegment", App("OpStyleSeg", coqSeg(s), coqAtoms(as)), showText(ui.Text{s}), atomNames(as), 1, []ui.Text{{out}})
}

// Concat through vals.Concat, the dispatcher the language uses for compound
// expressions such as (styled a bold)b.
func opValsConcat(c *reg.Ctx) {
	concat := func(l, r any) (ui.Text, bool) {
		v, err := vals.Concat(l, r)
		if err != nil {
			return nil, false
		}
		t, ok := v.(ui.Text)
		return t, ok
	}
	str := func() (any, string) {
		switch c.Rand.Intn(6) {
		case 0:
			i := c.Rand.Intn(2000) - 1000
			return i, vals.ToString(i)
		case 1:
			f := float64(c.Rand.Intn(100)) / 4
			return f, vals.ToString(f)
		default:
			s := genStr(c, c.Rand.Intn(4) == 0)
			return s, s
		}
	}
	switch c.Rand.Intn(8) {
	case 0:
		s := genSeg(c)
		rv, rs := str()
		if out, ok := concat(s, rv); ok {
			class := "segment-concat"
			if s.Text == "" || rs == "" || s.Style == (ui.Style{}) {
				class = "segment-concat-empty-or-same-style"
			}
			emit(c, class, "vals.Concat", "Segment.Concat(string)", App("OpSegConcatStr", coqSeg(s), Str(rs)), showText(ui.Text{s}), strconv.Quote(rs), 2, []ui.Text{out})
		}
	case 1:
		s, s2 := genSeg(c), genSeg(c)
		if out, ok := concat(s, s2); ok {
			class := "segment-concat"
			if s.Text == "" || s2.Text == "" || s.Style == s2.Style {
				class = "segment-concat-empty-or-same-style"
			}
			emit(c, class, "vals.Concat", "Segment.Concat(Segment)", App("OpSegConcatSeg", coqSeg(s), coqSeg(s2)), showText(ui.Text{s}), showText(ui.Text{s2}), 2, []ui.Text{out})
		}
	case 2:
		s, t := genSeg(c), genText(c)
		if out, ok := concat(s, t); ok {
			class := "segment-concat"
			if s.Text == "" || (len(t) > 0 && t[0].Style == s.Style) {
				class = "segment-concat-empty-or-same-style"
			}
			emit(c, class, "vals.Concat", "Segment.Concat(Text)", App("OpSegConcatText", coqSeg(s), coqText(t)), showText(ui.Text{s}), showText(t), 1+len(t), []ui.Text{out})
		}
	case 3:
		s := genSeg(c)
		lv, ls := str()
		if out, ok := concat(lv, s); ok {
			class := "segment-concat"
			if s.Text == "" || ls == "" || s.Style == (ui.Style{}) {
				class = "segment-concat-empty-or-same-style"
			}
			emit(c, class, "vals.Concat", "Segment.RConcat(string)", App("OpSegRConcatStr", Str(ls), coqSeg(s)), strconv.Quote(ls), showText(ui.Text{s}), 2, []ui.Text{out})
		}
	case 4:
		t := genText(c)
		rv, rs := str()
		if out, ok := concat(t, rv); ok {
			emit(c, "text-concat", "vals.Concat", "Text.Concat(string)", App("OpTextConcatStr", coqText(t), Str(rs)), showText(t), strconv.Quote(rs), len(t)+1, []ui.Text{out})
		}
	case 5:
		t, s := genText(c), genSeg(c)
		if out, ok := concat(t, s); ok {
			class := "text-concat"
			if s.Text == "" && len(t) > 0 && t[len(t)-1].Style != s.Style {
				class = "text-concat-empty-segment"
			}
			emit(c, class, "vals.Concat", "Text.Concat(Segment)", App("OpTextConcatSeg", coqText(t), coqSeg(s)), showText(t), showText(ui.Text{s}), len(t)+1, []ui.Text{out})
		}
	case 6:
		t, t2 := genText(c), genText(c)
		if out, ok := concat(t, t2); ok {
			emit(c, "text-concat", "vals.Concat", "Text.Concat(Text)", App("OpTextConcatText", coqText(t), coqText(t2)), showText(t), showText(t2), len(t)+len(t2), []ui.Text{out})
		}
	default:
		t := genText(c)
		lv, ls := str()
		if out, ok := concat(lv, t); ok {
			emit(c, "text-concat", "vals.Concat", "Text.RConcat(string)", App("OpTextRConcatStr", Str(ls), coqText(t)), strconv.Quote(ls), showText(t), len(t)+1, []ui.Text{out})
		}
	}
}

// through the styled / styled-segment builtins
func callBuiltin(ev *eval.Evaler, name string, args []any, opts map[string]any) ([]any, error) {
	f, ok := ev.Builtin().Index(name + "~")
	if !ok {
		return nil, fmt.Errorf("no builtin %s", name)
	}
	port, collect, err := eval.ValueCapturePort()
	if err != nil {
		return nil, err
	}
	err = ev.Call(f.(eval.Callable), eval.CallCfg{Args: args, Opts: opts, From: "[verif]"},
		eval.EvalCfg{Ports: []*eval.Port{nil, port, nil}})
	return collect(), err
}

func opBuiltin(c *reg.Ctx, ev *eval.Evaler) {
	switch c.Rand.Intn(3) {
	case 0: // styled $text name...
		t := genText(c)
		as := genAtoms(c, 3)
		var used []atom
		args := []any{t}
		for _, a := range as {
			if a.name != "" {
				args = append(args, a.name)
				used = append(used, a)
			}
		}
		if len(used) == 0 {
			return // styled $t alone is Clone, not a restyling
		}
		vs, err := callBuiltin(ev, "styled", args, nil)
		if err != nil || len(vs) != 1 {
			c.Emit(reg.Case{Direct: fmt.Sprintf("styled builtin failed: %v (%d values)", err, len(vs)), Class: "builtin-error",
				Desc: desc{Op: "styled", In: showText(t), Arg: atomNames(used)}, Key: "err" + showText(t)})
			return
		}
		out := vs[0].(ui.Text)
		emit(c, restyleClass(t, stylings(used)), "builtin styled", "StyleText", App("OpStyleText", coqText(t), coqAtoms(used)), showText(t), atomNames(used), len(t), []ui.Text{out})
	case 1: // styled $segment name...  = StyleText(TextFromSegment(seg))
		s := genSeg(c)
		as := genAtoms(c, 2)
		var used []atom
		args := []any{s}
		for _, a := range as {
			if a.name != "" {
				args = append(args, a.name)
				used = append(used, a)
			}
		}
		if len(used) == 0 {
			return
		}
		vs, err := callBuiltin(ev, "styled", args, nil)
		if err != nil || len(vs) != 1 {
			return
		}
		t := ui.Text{s}
		if s.Text == "" {
			t = nil
		}
		out := vs[0].(ui.Text)
		emit(c, restyleClass(t, stylings(used)), "builtin styled", "StyleText", App("OpStyleText", coqText(t), coqAtoms(used)), showText(t), atomNames(used), len(t), []ui.Text{out})
	default: // styled-segment $seg &bold=... &fg-color=...
		s := genSeg(c)
		opts := map[string]any{}
		var coq []string
		for f := 0; f < 6; f++ {
			if c.Rand.Intn(3) == 0 {
				v := c.Rand.Intn(2) == 0
				opts[fieldNames[f]] = v
				if v {
					coq = append(coq, App("SOn", fieldCoq[f]))
				} else {
					coq = append(coq, App("SOff", fieldCoq[f]))
				}
			}
		}
		if c.Rand.Intn(2) == 0 {
			n := colorNames[c.Rand.Intn(len(colorNames))]
			opts["fg-color"] = n
			coq = append(coq, App("SFg", coqColor(ui.ApplyStyling(ui.Style{}, ui.ParseStyling("fg-"+n)).Fg)))
		}
		if c.Rand.Intn(4) == 0 {
			opts["bg-color"] = "default"
			coq = append(coq, "(SBg None)")
		}
		vs, err := callBuiltin(ev, "styled-segment", []any{s}, opts)
		if err != nil || len(vs) != 1 {
			return
		}
		out := vs[0].(*ui.Segment)
		arg := "(@nil styling)"
		if len(coq) > 0 {
			arg = List(coq)
		}
		emit(c, "style-segment", "builtin styled-segment", "StyleSegment", App("OpStyleSeg", coqSeg(s), arg), showText(ui.Text{s}), strings.Join(coq, " "), 1, []ui.Text{{out}})
	}
}

// ---------------------------------------------------------------- fixed cases

func fixed(c *reg.Ctx) {
	bold := ui.Style{Bold: true}
	mk := func(pairs ...any) ui.Text {
		var t ui.Text
		for i := 0; i < len(pairs); i += 2 {
			t = append(t, &ui.Segment{Style: pairs[i].(ui.Style), Text: pairs[i+1].(string)})
		}
		return t
	}
	// the reproduced defects (DESIGN section 7, item 11), one per class
	t := mk(bold, "a", ui.Style{}, "中")
	for _, n := range []int{0, 1, 2, 3} {
		emit(c, trimClass(t, n), "api", "TrimWcwidth", App("OpTrim", coqText(t), Z(int64(n))), showText(t), fmt.Sprint(n), 2, []ui.Text{t.TrimWcwidth(n)})
	}
	t2 := mk(bold, "a", ui.Style{}, "b")
	boldAtom := []atom{{st: ui.Bold, name: "bold", coq: "(SOn FBold)"}}
	emit(c, restyleClass(t2, stylings(boldAtom)), "api", "StyleText", App("OpStyleText", coqText(t2), coqAtoms(boldAtom)), showText(t2), "bold", 2, []ui.Text{ui.StyleText(t2, ui.Bold)})
	emit(c, restyleClass(nil, stylings(boldAtom)), "api", "StyleText", App("OpStyleText", coqText(nil), coqAtoms(boldAtom)), "nil", "bold", 0, []ui.Text{ui.StyleText(nil, ui.Bold)})
	sa := &ui.Segment{Text: "a"}
	if v, err := sa.Concat("b"); err == nil {
		emit(c, "segment-concat-empty-or-same-style", "api", "Segment.Concat(string)", App("OpSegConcatStr", coqSeg(sa), Str("b")), showText(ui.Text{sa}), `"b"`, 2, []ui.Text{v.(ui.Text)})
	}
	se := &ui.Segment{Text: ""}
	if v, err := t2[:1].Concat(se); err == nil {
		emit(c, "text-concat-empty-segment", "api", "Text.Concat(Segment)", App("OpTextConcatSeg", coqText(t2[:1]), coqSeg(se)), showText(t2[:1]), showText(ui.Text{se}), 2, []ui.Text{v.(ui.Text)})
	}
	// boundary cases of the correct operations
	emit(c, "concat", "api", "Concat", App("OpConcat", "(@nil text)"), "", "", 0, []ui.Text{ui.Concat()})
	emit(c, "split", "api", "SplitByRune", App("OpSplit", coqText(nil), Str("\n")), "nil", `'\n'`, 0, ui.Text(nil).SplitByRune('\n'))
	t3 := mk(bold, "a\n", ui.Style{}, "\n\nb", bold, "c")
	emit(c, "split", "api", "SplitByRune", App("OpSplit", coqText(t3), Str("\n")), showText(t3), `'\n'`, 3, t3.SplitByRune('\n'))
	emit(c, "partition", "api", "Partition", App("OpPartition", coqText(t3), intsCoq([]int{0, 2, 2, 6})), showText(t3), "[0 2 2 6]", 3, t3.Partition(0, 2, 2, 6))
}

func run(c *reg.Ctx) {
	fixed(c)
	sdFixed(c)
	ev := eval.NewEvaler()
	for i := 0; i < c.N; i++ {
		if c.Rand.Intn(4) == 0 {
			opStyledown(c)
			continue
		}
		switch c.Rand.Intn(16) {
		case 0:
			opT(c)
		case 1, 2:
			opConcat(c)
		case 3, 4:
			opPartition(c)
		case 5, 6:
			opSplit(c)
		case 7, 8, 9:
			opTrim(c)
		case 10, 11:
			opStyleText(c)
		case 12:
			opStyleSeg(c)
		case 13, 14:
			opValsConcat(c)
		default:
			opBuiltin(c, ev)
		}
	}
}
