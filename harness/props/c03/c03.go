// Package c03: quoting round-trips (pkg/parse/quote.go, the string-literal
// part of pkg/parse/parse.go, literal evaluation in pkg/eval/compile_value.go),
// plus the cross-check of coq/lib/Utf8.v against Go's unicode/utf8.
package c03

import (
	"fmt"
	"os"
	"sort"
	"strings"
	"unicode"
	"unicode/utf8"

	"src.elv.sh/pkg/eval"
	"src.elv.sh/pkg/eval/vals"
	"src.elv.sh/pkg/eval/vars"
	"src.elv.sh/pkg/parse"
	"src.elv.sh/pkg/parse/cmpd"
	. "verifharness/coqfmt"
	"verifharness/reg"
)

func init() {
	reg.Register(&reg.Spec{ID: "C03",
		Imports: "From verif Require Import lib.Base model.C03.",
		Judge:   "C03.judge", Shard: 250, Run: run})
}

type desc struct {
	Kind string `json:"kind"`
	Fn   string `json:"fn,omitempty"`
	S    string `json:"s,omitempty"`   // Go-quoted input string
	Q    string `json:"q,omitempty"`   // Go-quoted quoting result
	Pos  string `json:"pos,omitempty"` // position / context
	Src  string `json:"src,omitempty"` // Go-quoted evaluated source
	Obs  string `json:"obs,omitempty"`
}

// ---------------------------------------------------------------- Coq printing

// tbl prints the unicode.IsPrint classification of every non-ASCII rune that a
// range loop over any of the strings yields (U+FFFD always included).
func tbl(strs ...string) string {
	set := map[rune]bool{unicode.ReplacementChar: true}
	for _, s := range strs {
		for _, r := range s {
			if r >= 0x80 {
				set[r] = true
			}
		}
		// runes produced by escapes inside the text are only re-encoded, never classified
	}
	rs := make([]rune, 0, len(set))
	for r := range set {
		rs = append(rs, r)
	}
	sort.Slice(rs, func(i, j int) bool { return rs[i] < rs[j] })
	items := make([]string, len(rs))
	for i, r := range rs {
		items[i] = Pair(N(uint64(r)), Bool(unicode.IsPrint(r)))
	}
	return List(items)
}

var ptypeName = map[parse.PrimaryType]string{parse.Bareword: "TBare", parse.SingleQuoted: "TSingle",
	parse.DoubleQuoted: "TDouble", parse.Variable: "TVar", parse.Tilde: "TTilde"}

var ctxName = map[parse.ExprCtx]string{parse.NormalExpr: "CNormal", parse.CmdExpr: "CCmd",
	parse.LHSExpr: "CLHS", parse.BracedElemExpr: "CBraced"}

type qfun struct {
	name string // for Desc
	coq  string
	pref parse.PrimaryType
}

var (
	qBare   = qfun{"QuoteAs/Bareword", "(QAs TBare)", parse.Bareword}
	qSingle = qfun{"QuoteAs/SingleQuoted", "(QAs TSingle)", parse.SingleQuoted}
	qDouble = qfun{"QuoteAs/DoubleQuoted", "(QAs TDouble)", parse.DoubleQuoted}
	qCmd    = qfun{"QuoteCommandName", "QCmd", 0}
	qVar    = qfun{"QuoteVariableName", "QVar", 0}
)

// apply runs the implementation's quoting function.
func (f qfun) apply(s string) (q string, ty string) {
	switch f.coq {
	case "QCmd":
		return parse.QuoteCommandName(s), None()
	case "QVar":
		return parse.QuoteVariableName(s), None()
	}
	q, t := parse.QuoteAs(s, f.pref)
	if f.pref == parse.Bareword && parse.Quote(s) != q {
		// Quote must be QuoteAs(s, Bareword); make a disagreement visible as a mismatch
		q = parse.Quote(s)
	}
	n, ok := ptypeName[t]
	if !ok {
		n = "TTilde" // never a legal answer; the model will disagree
	}
	return q, Some(n)
}

// ---------------------------------------------------------------- observation

type eobs struct {
	kind string // "str" | "parse-error" | "other"
	v    string
	note string
}

func (o eobs) coq() string {
	switch o.kind {
	case "str":
		return App("EStr", Str(o.v))
	case "parse-error":
		return "EParseErr"
	}
	return "EOtherObs"
}
func (o eobs) String() string {
	if o.kind == "str" {
		return fmt.Sprintf("str %q%s", o.v, o.note)
	}
	return o.kind + o.note
}

var theEvaler = eval.NewEvaler()

// evalValues evaluates src and returns the values written to the value channel.
func evalValues(src string, global *eval.Ns) (vs []any, parseErr bool, err error) {
	defer func() {
		if r := recover(); r != nil {
			err = fmt.Errorf("panic: %v", r)
		}
	}()
	port, collect, perr := eval.ValueCapturePort()
	if perr != nil {
		return nil, false, perr
	}
	err = theEvaler.Eval(parse.Source{Name: "[c03]", Code: src},
		eval.EvalCfg{Ports: []*eval.Port{nil, port, nil}, Global: global})
	vs = collect()
	if err != nil && len(parse.UnpackErrors(err)) > 0 {
		return vs, true, err
	}
	return vs, false, err
}

func short(err error) string {
	s := err.Error()
	if len(s) > 80 {
		s = s[:80]
	}
	return s
}

// useArg: prefix+q+suffix is a command that outputs the word as one value.
func useArg(src string) eobs {
	vs, perr, err := evalValues(src, nil)
	switch {
	case perr:
		return eobs{kind: "parse-error", note: " " + short(err)}
	case err != nil:
		return eobs{kind: "other", note: " " + short(err)}
	case len(vs) != 1:
		return eobs{kind: "other", note: fmt.Sprintf(" %d values", len(vs))}
	}
	if s, ok := vs[0].(string); ok {
		return eobs{kind: "str", v: s}
	}
	return eobs{kind: "other", note: " non-string " + vals.Kind(vs[0])}
}

// useKey: the command outputs one map; the observed string is its only key
// (extra selects the key that is not the fixed second key, if any).
func useKey(src string, otherKey string) eobs {
	vs, perr, err := evalValues(src, nil)
	switch {
	case perr:
		return eobs{kind: "parse-error", note: " " + short(err)}
	case err != nil:
		return eobs{kind: "other", note: " " + short(err)}
	case len(vs) != 1:
		return eobs{kind: "other", note: fmt.Sprintf(" %d values", len(vs))}
	}
	m, ok := vs[0].(vals.Map)
	if !ok {
		return eobs{kind: "other", note: " not a map: " + vals.Kind(vs[0])}
	}
	var keys []any
	for it := m.Iterator(); it.HasElem(); it.Next() {
		k, _ := it.Elem()
		if ks, ok := k.(string); ok && otherKey != "" && ks == otherKey {
			continue
		}
		keys = append(keys, k)
	}
	if len(keys) != 1 {
		return eobs{kind: "other", note: fmt.Sprintf(" %d keys", len(keys))}
	}
	if s, ok := keys[0].(string); ok {
		return eobs{kind: "str", v: s}
	}
	return eobs{kind: "other", note: " non-string key"}
}

// parseTree parses src as a whole program.
func parseTree(src string) (parse.Tree, error) {
	return parse.Parse(parse.Source{Name: "[c03]", Code: src}, parse.Config{})
}

// compoundAt finds the Compound node that starts at byte offset from, and the
// Form it is the head of (nil if it is not a head).
func compoundAt(n parse.Node, from int) (*parse.Compound, *parse.Form) {
	if cn, ok := n.(*parse.Compound); ok && cn.Range().From == from {
		return cn, nil
	}
	for _, ch := range parse.Children(n) {
		if ch.Range().From <= from && from <= ch.Range().To {
			if cn, fn := compoundAt(ch, from); cn != nil {
				if f, ok := n.(*parse.Form); ok && fn == nil && f.Head == cn {
					fn = f
				}
				return cn, fn
			}
		}
	}
	return nil, nil
}

// useCmd: src starts with the word in command position.  Parse level: the head
// is one string literal.  Evaluation level, when the name s can be bound as a
// function (no namespace separator, not a special form): calling src calls
// exactly the function named s.
func useCmd(src string, from int, s string) eobs {
	tree, err := parseTree(src)
	if err != nil {
		return eobs{kind: "parse-error", note: " " + short(err)}
	}
	cn, form := compoundAt(tree.Root, from)
	if cn == nil || form == nil {
		return eobs{kind: "other", note: " no form headed by a compound at the position"}
	}
	v, ok := cmpd.StringLiteral(form.Head)
	if !ok {
		return eobs{kind: "other", note: " head is " + cmpd.Shape(form.Head)}
	}
	if v == s && cmdBindable(s) {
		// the template's own filler commands may have the same name (s = "nop"):
		// expect one call per form whose head is the literal s
		expected := countHeads(tree.Root, s)
		called := 0
		ns := eval.BuildNs().AddGoFn(s, func(_ eval.RawOptions, _ ...any) { called++ }).Ns()
		_, _, err := evalValues(src, ns)
		if err != nil || called != expected {
			return eobs{kind: "other", note: fmt.Sprintf(" head literal %q but function %q called %d times (expected %d), err=%v", v, s, called, expected, err)}
		}
		return eobs{kind: "str", v: v, note: " (function called)"}
	}
	return eobs{kind: "str", v: v}
}

// countHeads counts the forms whose head is the string literal s.
func countHeads(n parse.Node, s string) int {
	k := 0
	if f, ok := n.(*parse.Form); ok && f.Head != nil {
		if v, ok := cmpd.StringLiteral(f.Head); ok && v == s {
			k++
		}
	}
	for _, ch := range parse.Children(n) {
		k += countHeads(ch, s)
	}
	return k
}

func cmdBindable(s string) bool {
	return !strings.Contains(s, ":") && !eval.IsBuiltinSpecial[s] && !strings.HasPrefix(s, "@") &&
		!strings.Contains(s, "/") && s != ".."
}

func varBindable(s string) bool {
	return s != "" && !strings.Contains(s, ":") && s[0] != '@'
}

// useVar: src is "put $<q><suffix>".  Parse level: the argument is one Variable
// primary; its name is observed.  Evaluation level, when s is a plain name:
// the variable named s is the one that is read.
func useVar(src string, from int, s string) eobs {
	tree, err := parseTree(src)
	if err != nil {
		return eobs{kind: "parse-error", note: " " + short(err)}
	}
	cn, _ := compoundAt(tree.Root, from)
	if cn == nil {
		return eobs{kind: "other", note: " no compound at the position"}
	}
	pn, ok := cmpd.Primary(cn)
	if !ok || pn.Type != parse.Variable {
		return eobs{kind: "other", note: " argument is " + cmpd.Shape(cn)}
	}
	v := pn.Value
	if v == s && varBindable(s) {
		const marker = "C03-VALUE"
		ns := eval.BuildNs().AddVar(s, vars.FromInit(marker)).Ns()
		vs, _, err := evalValues(src, ns)
		if err != nil || len(vs) < 1 || vs[0] != marker {
			return eobs{kind: "other", note: fmt.Sprintf(" variable primary %q but evaluation gave %v err=%v", v, vs, err)}
		}
		return eobs{kind: "str", v: v, note: " (variable read)"}
	}
	return eobs{kind: "str", v: v}
}

// ---------------------------------------------------------------- input classes

func classOf(s string) string {
	switch {
	case s == "":
		return "empty"
	case !utf8.ValidString(s):
		return "invalid-utf8"
	case s[0] == '~':
		return "leading-tilde"
	}
	unprintable, meta, nonASCII := false, false, false
	for _, r := range s {
		if r == unicode.ReplacementChar || !unicode.IsPrint(r) {
			unprintable = true
		}
		if r >= 0x80 {
			nonASCII = true
		} else if !(r >= '0' && r <= '9' || r >= 'a' && r <= 'z' || r >= 'A' && r <= 'Z') {
			meta = true
		}
	}
	switch {
	case unprintable:
		return "unprintable"
	case meta && nonASCII:
		return "meta+unicode"
	case meta:
		return "meta"
	case nonASCII:
		return "unicode"
	}
	return "alnum"
}

// ---------------------------------------------------------------- templates

type tmpl struct{ pre, suf string }

var argTmpls = []tmpl{{"put ", ""}, {"put ", "\n"}, {"put ", " "}, {"put ", ";nop"}, {"put ", "\t# c"},
	{"put (put ", ")"}, {"put [", "][0]"}, {"put [x ", "][1]"}, {"put ", "|put (one)"}, {"nop x; put ", "\r\n"}}

// map-key templates; other = a fixed second key
var keyTmpls = []struct {
	pre, suf, other string
}{{"put [&", "=v]", ""}, {"put [&", "=]", ""}, {"put [&zzother=1 &", "=v]", "zzother"}, {"put [\n&", "=v\n]", ""}}

var cmdTmpls = []tmpl{{"", ""}, {"", " a b"}, {"", "\n"}, {"", ";nop"}, {"nop;", " x"}, {"", "|nop"}, {" ", " &k=v"}}

var varTmpls = []tmpl{{"put $", ""}, {"put $", " x"}, {"put $", "\n"}, {"put $", ";nop"}, {"put (put $", ")"}}

// ---------------------------------------------------------------- emitters

func emitQuote(c *reg.Ctx, f qfun, s string) string {
	q, ty := f.apply(s)
	cl := classOf(s)
	c.Count("quote/" + f.name + "/" + cl)
	c.Emit(reg.Case{
		Coq:        App("KQuote", tbl(s), f.coq, Str(s), Str(q), ty),
		Desc:       desc{Kind: "quote", Fn: f.name, S: fmt.Sprintf("%q", s), Q: fmt.Sprintf("%q", q), Obs: ty},
		Key:        fmt.Sprintf("quote/%s/%q", f.name, s),
		Nontrivial: cl != "alnum",
		Class:      cl,
	})
	return q
}

func emitUse(c *reg.Ctx, f qfun, s, q, ty, pos string, t tmpl, o eobs, src string) {
	cl := classOf(s)
	c.Count("use/" + pos + "/" + f.name + "/" + cl)
	c.Emit(reg.Case{
		Coq: App("KUse", tbl(s, q, t.suf), f.coq, Str(s), Str(q), ty, pos, Str(t.suf), o.coq()),
		Desc: desc{Kind: "use", Fn: f.name, S: fmt.Sprintf("%q", s), Q: fmt.Sprintf("%q", q), Pos: pos,
			Src: fmt.Sprintf("%q", src), Obs: o.String()},
		Key:        fmt.Sprintf("use/%s/%s/%q/%q", f.name, pos, s, src),
		Nontrivial: cl != "alnum",
		Class:      cl,
	})
}

func pick[T any](c *reg.Ctx, l []T) T { return l[c.Rand.Intn(len(l))] }

// oneString quotes s with all five functions and places each result at the
// positions the property speaks about (plus some cross uses that only check the
// model correspondence).  Every use case also carries the quoting result, so the
// model of the quoting function is compared on each of them.
func oneString(c *reg.Ctx, s string, allTemplates bool) {
	for _, f := range []qfun{qBare, qSingle, qDouble} {
		q, ty := f.apply(s)
		var ats []tmpl
		kts := keyTmpls[:0]
		switch {
		case allTemplates && f.coq == qBare.coq:
			ats, kts = argTmpls, keyTmpls
		case f.coq == qBare.coq:
			ats, kts = []tmpl{pick(c, argTmpls)}, keyTmpls[c.Rand.Intn(len(keyTmpls)):][:1]
		case c.Rand.Intn(2) == 0:
			ats = []tmpl{pick(c, argTmpls)}
		default:
			kts = keyTmpls[c.Rand.Intn(len(keyTmpls)):][:1]
		}
		for _, t := range ats {
			src := t.pre + q + t.suf
			emitUse(c, f, s, q, ty, "PosArg", t, useArg(src), src)
		}
		for _, t := range kts {
			src := t.pre + q + t.suf
			emitUse(c, f, s, q, ty, "PosKey", tmpl{t.pre, t.suf}, useKey(src, t.other), src)
		}
		if f.coq == qBare.coq && c.Rand.Intn(6) == 0 {
			// cross use (not demanded by the property): general form in command position
			t := pick(c, cmdTmpls)
			src := t.pre + q + t.suf
			emitUse(c, f, s, q, ty, "PosCmd", t, useCmd(src, len(t.pre), s), src)
		}
	}
	{
		q, ty := qCmd.apply(s)
		ts := []tmpl{pick(c, cmdTmpls)}
		if allTemplates {
			ts = cmdTmpls
		}
		for _, t := range ts {
			src := t.pre + q + t.suf
			emitUse(c, qCmd, s, q, ty, "PosCmd", t, useCmd(src, len(t.pre), s), src)
		}
	}
	{
		q, ty := qVar.apply(s)
		ts := []tmpl{pick(c, varTmpls)}
		if allTemplates {
			ts = varTmpls
		}
		for _, t := range ts {
			src := t.pre + q + t.suf
			emitUse(c, qVar, s, q, ty, "PosVar", t, useVar(src, len(t.pre)-1, s), src)
		}
	}
}

// ---------------------------------------------------------------- generators

var fixedStrings = []string{
	"", "~", "~a", "~/x", "a~", "a~b", "~~", "~é", "a b", "'", "''", "a'b", "\"", "a\"b", "\\", "a\\b", "\\n",
	"a\nb", "\n", "\r", "\t", " ", "  ", "\x00", "\x01", "\x07", "\x1b", "\x7f", "\x80", "\xff", "\xc3", "\xc3(",
	"a\xffb", "\xe2\x82", "\xf0\x9f\x98", "\xed\xa0\x80", "\xc0\x80", "\xf4\x90\x80\x80", "é", "中文", "€", "😀",
	"\u00a0", "\u00ad", "\u200b", "\ufeff", "\ue000", "\ufffd", "a\ufffdb", "\uffff", "\U00010000", "\U000e0001",
	"\U0010ffff", "\u0080", "\u07ff", "\u0800", "\u2028",
	"$x", "$", "a=b", "=", "a,b", ",", "<", ">", "a>b", "*", "a*", "?", "a?b", "^", "a;b", ";", "#", "a#b", "(", ")",
	"[", "]", "a[0]", "{", "}", "{a,b}", "|", "&", "&k", "@", "@a", "a@b", "%", "+", "!", ".", "..", "/", "a/b", ":",
	"a:b", "e:ls", "-", "--", "-a", "_", "0x10", "1e3", "if", "var", "set", "fn", "put", "nop", "and", "use", "e:",
	"\\x41", "'a'", "\"a\"", "a'b\"c\\d", "'\"", "\"'", "a\x00b'c", "é'\xff", "~\xff", "~\n", "~'", "\x7f~",
	"λ", "a-b_c:d", "über", "a.b/c\\d@e%f+g!h", "x=1", "a b=c", "日本語 テキスト", "tab\there", "cr\rlf\n",
}

var alphabet = []string{
	"~", "'", "\"", "\\", "$", "*", "?", "(", ")", "[", "]", "{", "}", "<", ">", "|", "&", ";", "#", "=", ",", "^",
	"@", "%", "+", "!", ".", "/", ":", "-", "_", " ", "\t", "\n", "\r",
	"a", "b", "Z", "0", "9", "x", "n", "u", "U", "c",
	"\x00", "\x01", "\x07", "\x08", "\x0b", "\x0c", "\x1b", "\x1f", "\x7f",
	"\x80", "\xbf", "\xc0", "\xc3", "\xe2", "\xe2\x82", "\xf0", "\xf0\x9f", "\xff", "\xed\xa0\x80",
	"é", "ß", "中", "€", "😀", "λ",
	"\u00a0", "\u00ad", "\u200b", "\u2028", "\ufeff", "\ue000", "\ufffd", "\U000e0001", "\U0010ffff", "\u0085",
}

func genString(c *reg.Ctx) string {
	n := c.Rand.Intn(8)
	switch c.Rand.Intn(10) {
	case 0:
		n = c.Rand.Intn(24)
	case 1:
		n = 1 + c.Rand.Intn(2)
	}
	var sb strings.Builder
	// mostly-plain strings with one or two adversarial characters are the ones
	// that come out as barewords or single-quoted strings
	plain := c.Rand.Intn(3) == 0
	for i := 0; i < n; i++ {
		if plain && c.Rand.Intn(4) != 0 {
			sb.WriteString(pick(c, []string{"a", "b", "x", "0", "-", "_", ":", ".", "/", "é", "中", "~", "%", "+", "@", "!", "\\"}))
		} else if c.Rand.Intn(30) == 0 {
			sb.WriteByte(byte(c.Rand.Intn(256)))
		} else if c.Rand.Intn(30) == 0 {
			sb.WriteRune(rune(c.Rand.Intn(0x110000)))
		} else {
			sb.WriteString(pick(c, alphabet))
		}
	}
	s := sb.String()
	if c.Rand.Intn(12) == 0 {
		s = "~" + s
	}
	return s
}

// ---- arbitrary text for the reader / evaluator correspondence

var textPieces = []string{
	"a", "b", "xyz", "é", "中", "=", ",", "<", ">", "*", "^", "~", "\\", "@", "%", ":", "-", ".", "/", "+", "!", "0",
	"''", "'a'", "'a''b'", "'é\n'", "'\"'", "'", "'abc", "'a'''",
	"\"\"", "\"a\"", "\"a\\nb\"", "\"\\a\\b\\f\\n\\r\\t\\v\\\\\\\"\\e\"", "\"\\x41\\x7f\\xff\\x00\"", "\"\\u00e9\\u4E2d\\ud800\\uFFFD\"",
	"\"\\U0001f600\\U0010FFFF\\U00110000\\Uffffffff\\U80000000\"", "\"\\^@\\^A\\^_\\^?\\c[\\cZ\"", "\"\\101\\000\\377\"",
	"\"\\400\"", "\"\\18\"", "\"\\8\"", "\"\\q\"", "\"\\x4\"", "\"\\xg0\"", "\"\\u12\"", "\"\\U0000004\"", "\"\\^a\"", "\"\\^>\"", "\"\\c\"",
	"\"\\", "\"abc", "\"é'\\\"\"", "\"\\x", "\"\\^", "\"\\1", "\"\\é\"", "\"\\^é\"", "\"\\x4é\"",
	"$a", "$a-b:c~", "$@a", "$é", "$'a b'", "$\"a\\nb\"", "$", "$=", "$'", "$@", "$a/b", "$a.b",
	" ", "\n", ";", "|", ")", "]", "}", "#", "&",
	"(", "[", "{", "?", "?(", "[a]", "(x)", "{a,b}", "a[0]", "'a'[0]",
}

func genText(c *reg.Ctx) string {
	n := 1 + c.Rand.Intn(4)
	var sb strings.Builder
	for i := 0; i < n; i++ {
		switch c.Rand.Intn(12) {
		case 0:
			// a double-quoted string made of random escape fragments
			sb.WriteByte('"')
			for j := c.Rand.Intn(5); j > 0; j-- {
				sb.WriteString(pick(c, []string{"\\x", "\\u", "\\U", "\\^", "\\c", "\\", "0", "1", "7", "8", "a", "f", "F", "g", "4", "e", "é", "'", "@", "?", "_", "`", "n", "\\\\", "\\\"", "00", "41"}))
			}
			if c.Rand.Intn(5) != 0 {
				sb.WriteByte('"')
			}
		case 1:
			if c.Rand.Intn(3) == 0 {
				sb.WriteString(pick(c, []string{"\xff", "\xc3", "\xe2\x82", "\x80"})) // invalid UTF-8 in source text
			} else {
				sb.WriteString(pick(c, alphabet))
			}
		default:
			sb.WriteString(pick(c, textPieces))
		}
	}
	return sb.String()
}

var ctxs = []parse.ExprCtx{parse.NormalExpr, parse.CmdExpr, parse.LHSExpr, parse.BracedElemExpr}

func emitRead(c *reg.Ctx, ctx parse.ExprCtx, src string) {
	cn := &parse.Compound{ExprCtx: ctx}
	err := parse.ParseAs(parse.Source{Name: "[c03]", Code: src}, cn, parse.Config{})
	to := cn.Range().To
	nerr := len(parse.UnpackErrors(err))
	if to != len(src) {
		nerr-- // the "unexpected rune" error of parser.done, not part of the compound
	}
	obs, note := "", ""
	other := false
	var words []string
	for _, in := range cn.Indexings {
		n, ok := ptypeName[in.Head.Type]
		if !ok || len(in.Indices) > 0 {
			other = true
			break
		}
		words = append(words, Pair(n, Str(in.Head.Value)))
		note += fmt.Sprintf(" %s:%q", n, in.Head.Value)
	}
	kind := "ok"
	switch {
	case nerr > 0:
		obs, kind = "RErr", "error"
	case other:
		obs, kind = "ROtherObs", "other"
	default:
		obs = App("ROk", List(words), Nat(to))
	}
	c.Count("read/" + ctxName[ctx] + "/" + kind)
	c.Emit(reg.Case{
		Coq:        App("KRead", tbl(src), ctxName[ctx], Str(src), obs),
		Desc:       desc{Kind: "read", Pos: ctxName[ctx], Src: fmt.Sprintf("%q", src), Obs: fmt.Sprintf("%s to=%d%s", kind, to, note)},
		Key:        fmt.Sprintf("read/%s/%q", ctxName[ctx], src),
		Nontrivial: len(src) > 1,
		Class:      "reader-text",
	})
}

func emitEvalText(c *reg.Ctx, text string) {
	t := pick(c, argTmpls[:5])
	src := t.pre + text + t.suf
	o := useArg(src)
	c.Count("evaltext/" + o.kind)
	c.Emit(reg.Case{
		Coq:        App("KEvalText", tbl(text, t.suf), "PosArg", Str(text), Str(t.suf), o.coq()),
		Desc:       desc{Kind: "evaltext", Src: fmt.Sprintf("%q", src), Obs: o.String()},
		Key:        fmt.Sprintf("evaltext/%q", src),
		Nontrivial: len(text) > 1,
		Class:      "reader-text",
	})
}

// literal-only compound text (its evaluation is inside the model)
func genLiteralText(c *reg.Ctx) string {
	var sb strings.Builder
	for i := 1 + c.Rand.Intn(3); i > 0; i-- {
		sb.WriteString(pick(c, []string{"a", "b-c", "é", "x=y", "a,b", "%", "'q r'", "'it''s'", "''", "\"\"", "\"a\\tb\"",
			"\"\\x00\\xff\"", "\"\\u00e9\\^A\"", "\"\\101\"", "\\", "a~", "\"\\e[0m\"", "'\n'", "\"\\U0001F600\""}))
	}
	return sb.String()
}

// ---------------------------------------------------------------- UTF-8 cross-check

func emitUtf8(c *reg.Ctx, kind, coq, key, obs string) {
	c.Count("utf8/" + kind)
	c.Emit(reg.Case{Coq: coq, Desc: desc{Kind: "utf8-" + kind, S: key, Obs: obs},
		Key: "utf8/" + kind + "/" + key, Nontrivial: true, Class: "utf8-lib"})
}

func utf8Bytes(c *reg.Ctx, b []byte) {
	r, w := utf8.DecodeRune(b)
	emitUtf8(c, "decode", App("KDec", Bytes(b), N(uint64(r)), Nat(w)), fmt.Sprintf("%x", b), fmt.Sprintf("%#x,%d", r, w))
	r, w = utf8.DecodeLastRune(b)
	emitUtf8(c, "decode-last", App("KDecLast", Bytes(b), N(uint64(r)), Nat(w)), fmt.Sprintf("%x", b), fmt.Sprintf("%#x,%d", r, w))
	v := utf8.Valid(b)
	emitUtf8(c, "valid", App("KValid", Bytes(b), Bool(v)), fmt.Sprintf("%x", b), fmt.Sprint(v))
}

func utf8Rune(c *reg.Ctx, r rune) {
	b := utf8.AppendRune(nil, r)
	var buf [4]byte
	n := utf8.EncodeRune(buf[:], r)
	if string(buf[:n]) != string(b) {
		panic("utf8.EncodeRune and AppendRune disagree")
	}
	emitUtf8(c, "encode", App("KEnc", N(uint64(r)), Bytes(b)), fmt.Sprintf("%#x", r), fmt.Sprintf("%x", b))
	emitUtf8(c, "valid-rune", App("KValidRune", N(uint64(r)), Bool(utf8.ValidRune(r))), fmt.Sprintf("%#x", r), fmt.Sprint(utf8.ValidRune(r)))
}

var leadBytes = []byte{0x00, 0x41, 0x7f, 0x80, 0xbf, 0xc0, 0xc1, 0xc2, 0xdf, 0xe0, 0xe1, 0xec, 0xed, 0xee, 0xef, 0xf0, 0xf1, 0xf3, 0xf4, 0xf5, 0xf7, 0xf8, 0xff}
var contBytes = []byte{0x00, 0x7f, 0x80, 0x8f, 0x90, 0x9f, 0xa0, 0xbf, 0xc0, 0xff, 0x41}

func utf8Cases(c *reg.Ctx, budget int) {
	utf8Bytes(c, nil)
	for _, r := range []rune{0, 1, 0x7f, 0x80, 0x7ff, 0x800, 0xfff, 0x1000, 0xd7ff, 0xd800, 0xdbff, 0xdfff, 0xe000, 0xfffd, 0xfffe,
		0xffff, 0x10000, 0x3ffff, 0x40000, 0xfffff, 0x100000, 0x10ffff, 0x110000, 0x1fffff, 0x200000, 0x7fffffff} {
		utf8Rune(c, r)
	}
	// every boundary combination of lead and continuation bytes, lengths 1..4 (+ a trailing byte)
	var all [][]byte
	for _, l := range leadBytes {
		all = append(all, []byte{l})
		for _, b1 := range contBytes {
			all = append(all, []byte{l, b1})
			for _, b2 := range contBytes {
				all = append(all, []byte{l, b1, b2})
				if l >= 0xf0 {
					for _, b3 := range contBytes {
						all = append(all, []byte{l, b1, b2, b3})
					}
				}
			}
		}
	}
	if os.Getenv("C03_UTF8_ONLY") != "" {
		// one-off deep comparison of lib/Utf8.v with Go: every boundary combination
		for _, b := range all {
			utf8Bytes(c, b)
		}
		return
	}
	if deep(c) {
		for _, b := range all {
			utf8Bytes(c, b)
		}
		// all two-byte strings
		for a := 0; a < 256; a++ {
			for b := 0; b < 256; b++ {
				utf8Bytes(c, []byte{byte(a), byte(b)})
			}
		}
	} else {
		for _, a := range leadBytes {
			utf8Bytes(c, []byte{a})
		}
		c.Rand.Shuffle(len(all), func(i, j int) { all[i], all[j] = all[j], all[i] })
		for i := 0; i < len(all) && i < budget/2; i++ {
			utf8Bytes(c, all[i])
		}
	}
	// random: valid runes glued with noise, prefixes and suffixes cut at every point
	for i := 0; i < budget/2; i++ {
		var b []byte
		for j := c.Rand.Intn(4); j >= 0; j-- {
			switch c.Rand.Intn(4) {
			case 0:
				b = append(b, byte(c.Rand.Intn(256)))
			case 1:
				b = append(b, pick(c, leadBytes), pick(c, contBytes))
			default:
				r := rune(c.Rand.Intn(0x110000))
				switch c.Rand.Intn(4) {
				case 0:
					r = rune(c.Rand.Intn(0x80))
				case 1:
					r = rune(c.Rand.Intn(0x800))
				case 2:
					r = rune(c.Rand.Intn(0x10000))
				}
				b = utf8.AppendRune(b, r)
				if c.Rand.Intn(8) == 0 {
					utf8Rune(c, r)
				}
			}
		}
		lo, hi := c.Rand.Intn(len(b)+1), c.Rand.Intn(len(b)+1)
		if lo > hi {
			lo, hi = hi, lo
		}
		if c.Rand.Intn(3) == 0 {
			lo, hi = 0, len(b)
		}
		utf8Bytes(c, b[lo:hi])
	}
}

// deep says whether the exhaustive enumerations (all 65536 two-byte strings) are
// affordable: only in a real thorough run, not in the orchestrator's intensified
// search round (tier thorough with a small case budget).
func deep(c *reg.Ctx) bool { return c.Tier == "thorough" && c.N >= 100000 }

// ---------------------------------------------------------------- run

func run(c *reg.Ctx) {
	// no external command can be found, whatever a (mutated) quoting makes of a name
	os.Setenv("PATH", c.Scratch)
	// unicode.IsPrint on ASCII, fixed in the model
	{
		items := make([]string, 128)
		for i := range items {
			items[i] = Bool(unicode.IsPrint(rune(i)))
		}
		c.Count("ascii-table")
		c.Emit(reg.Case{Coq: App("KAscii", List(items)), Desc: desc{Kind: "ascii-isprint"}, Key: "ascii", Class: "ascii-table"})
	}
	total := 0
	emit0 := c.Emit
	c.Emit = func(k reg.Case) { total++; emit0(k) }

	utf8Cases(c, c.N/20)
	if os.Getenv("C03_UTF8_ONLY") != "" {
		return
	}

	// fixed adversarial strings (all templates for a rotating subset keeps the quick tier small)
	for i, s := range fixedStrings {
		oneString(c, s, c.Tier == "thorough" || i%16 == int(c.Seed%16+16)%16)
	}
	// every single byte and, in the thorough tier, every two-byte string (DESIGN: exhaustive <= 2)
	for b := 0; b < 256; b++ {
		punct := b >= 0x20 && b < 0x30 || b >= 0x3a && b <= 0x40 || b >= 0x5b && b <= 0x60 || b >= 0x7b && b <= 0x7f
		if c.Tier == "thorough" || punct || c.Rand.Intn(5) == 0 {
			oneString(c, string([]byte{byte(b)}), false)
		}
	}
	if deep(c) {
		for a := 0; a < 256; a++ {
			for b := 0; b < 256; b++ {
				s := string([]byte{byte(a), byte(b)})
				for _, f := range []qfun{qCmd, qVar} {
					emitQuote(c, f, s)
				}
				q, ty := qBare.apply(s)
				emitUse(c, qBare, s, q, ty, "PosArg", argTmpls[0], useArg("put "+q), "put "+q)
			}
		}
	}
	// reader and evaluator correspondence on arbitrary text
	nread := c.N / 10
	for i := 0; i < nread; i++ {
		emitRead(c, pick(c, ctxs), genText(c))
	}
	for _, p := range textPieces {
		emitRead(c, pick(c, ctxs), p)
	}
	for i := 0; i < c.N/30; i++ {
		emitEvalText(c, genLiteralText(c))
		if i%3 == 0 {
			emitEvalText(c, genText(c))
		}
	}
	// random adversarial strings until the budget is used
	base := total
	for total-base < c.N/4 || total < c.N {
		oneString(c, genString(c), false)
	}
}
