// Package c26: concurrent clients of the storage daemon see a linearizable
// history (pkg/daemon server.go, service.go, client.go; pkg/rpc; pkg/store).
//
// One run = a real daemon.Serve on a unix socket under the scratch directory
// with a fresh database, and 2..8 client goroutines issuing random history
// operations concurrently: some through their own daemon.NewClient (separate
// connections), the others sharing one client after its first request has
// succeeded (as the shell does after activation).  Every call is recorded with
// a monotonic invocation time taken before the call and a response time taken
// after it returned.  The runner then searches a linearization (depth-first
// search over the minimal pending calls with memoisation, against a Go copy of
// the sequential store model — an unverified search engine) and hands the
// history plus the witness order to Coq, where check_witness validates it
// against the proved specification.  No witness found = the case carries an
// empty order, which Coq rejects (code 2): the history is the replay.
package c26

import (
	"crypto/sha1"
	"fmt"
	"math"
	"math/rand"
	"os"
	"path/filepath"
	"runtime"
	"sort"
	"strconv"
	"strings"
	"sync"
	"sync/atomic"
	"time"

	"src.elv.sh/pkg/daemon"
	"src.elv.sh/pkg/daemon/daemondefs"
	"src.elv.sh/pkg/rpc"
	"src.elv.sh/pkg/store"
	"src.elv.sh/pkg/store/storedefs"
	. "verifharness/coqfmt"
	"verifharness/reg"
)

func init() {
	reg.Register(&reg.Spec{ID: "C26",
		Imports: "From Coq Require Import Floats.SpecFloat.\nFrom verif Require Import lib.Base model.C24_F64 model.C24_StoreSpec model.C26.",
		Judge:   "C26.judge", Shard: 10, Run: run})
}


// interner: byte strings of a case are bound once with let (string literals are
// by far the slowest thing for Coq to elaborate) and referenced by name.
type interner struct {
	names map[string]string
	order []string
}

var cur = &interner{names: map[string]string{}}

func resetIntern() { cur = &interner{names: map[string]string{}} }

// S is the interned counterpart of coqfmt.Str.
func S(s string) string {
	if s == "" {
		return Str(s)
	}
	if n, ok := cur.names[s]; ok {
		return n
	}
	n := fmt.Sprintf("w%d", len(cur.order))
	cur.names[s] = n
	cur.order = append(cur.order, s)
	return n
}


// typed list: an empty list carries its element type, so that no term of a
// case needs an implicit argument to be inferred
func tlist(ty string, items []string) string {
	if len(items) == 0 {
		return "(@nil " + ty + ")"
	}
	return List(items)
}

// wrap puts the let bindings of the interned strings around a term.
func wrap(term string) string {
	var sb strings.Builder
	sb.WriteString("(")
	for i, s := range cur.order {
		fmt.Fprintf(&sb, "let w%d := %s in ", i, Str(s))
	}
	sb.WriteString(term)
	sb.WriteString(")")
	return sb.String()
}

// ---------------------------------------------------------------- operations

type op struct {
	K      string // add del get list next prev seq adddir deldir dirs
	Text   string
	A, B   int
	Factor float64
	BL     []string
}

// result of a call, in a comparable normal form
type result struct {
	Kind string // int ok text cmd cmds dirs nomatch err
	Z    int
	Text string
	Cmds []storedefs.Cmd
	Dirs []storedefs.Dir
	Err  string
}

// F64 prints a float64 as a SpecFloat term in canonical form.
func F64(x float64) string {
	b := math.Float64bits(x)
	s := Bool(b>>63 == 1)
	exp := int64((b >> 52) & 0x7ff)
	frac := b & (1<<52 - 1)
	switch {
	case exp == 0x7ff && frac != 0:
		return "S754_nan"
	case exp == 0x7ff:
		return "(S754_infinity " + s + ")"
	case exp == 0 && frac == 0:
		return "(S754_zero " + s + ")"
	case exp == 0:
		return fmt.Sprintf("(S754_finite %s %d%%positive (-1074)%%Z)", s, frac)
	}
	return fmt.Sprintf("(S754_finite %s %d%%positive (%d)%%Z)", s, frac|1<<52, exp-1075)
}

func (o op) coq() string {
	switch o.K {
	case "add":
		return App("OAddCmd", S(o.Text))
	case "del":
		return App("ODelCmd", Z(int64(o.A)))
	case "get":
		return App("OCmd", Z(int64(o.A)))
	case "list":
		return App("OCmds", Z(int64(o.A)), Z(int64(o.B)))
	case "next":
		return App("ONextCmd", Z(int64(o.A)), S(o.Text))
	case "prev":
		return App("OPrevCmd", Z(int64(o.A)), S(o.Text))
	case "seq":
		return "ONextCmdSeq"
	case "adddir":
		return App("OAddDir", S(o.Text), F64(o.Factor))
	case "deldir":
		return App("ODelDir", S(o.Text))
	case "dirs":
		l := make([]string, len(o.BL))
		for i, d := range o.BL {
			l[i] = S(d)
		}
		return App("ODirs", tlist("bytes", l))
	}
	panic("bad op " + o.K)
}

func (o op) String() string {
	switch o.K {
	case "add":
		return fmt.Sprintf("AddCmd(%q)", o.Text)
	case "del":
		return fmt.Sprintf("DelCmd(%d)", o.A)
	case "get":
		return fmt.Sprintf("Cmd(%d)", o.A)
	case "list":
		return fmt.Sprintf("CmdsWithSeq(%d,%d)", o.A, o.B)
	case "next":
		return fmt.Sprintf("NextCmd(%d,%q)", o.A, o.Text)
	case "prev":
		return fmt.Sprintf("PrevCmd(%d,%q)", o.A, o.Text)
	case "seq":
		return "NextCmdSeq()"
	case "adddir":
		return fmt.Sprintf("AddDir(%q,%v)", o.Text, o.Factor)
	case "deldir":
		return fmt.Sprintf("DelDir(%q)", o.Text)
	}
	return fmt.Sprintf("Dirs(%q)", o.BL)
}

func (r result) coq() string {
	switch r.Kind {
	case "int":
		return App("RInt", Z(int64(r.Z)))
	case "ok":
		return "ROk"
	case "text":
		return App("RText", S(r.Text))
	case "cmd":
		return App("RCmd", S(r.Text), Z(int64(r.Z)))
	case "cmds":
		l := make([]string, len(r.Cmds))
		for i, x := range r.Cmds {
			l[i] = App("pz", S(x.Text), Z(int64(x.Seq)))
		}
		return App("RCmds", tlist("(bytes * Z)", l))
	case "dirs":
		l := make([]string, len(r.Dirs))
		for i, x := range r.Dirs {
			l[i] = App("pd", S(x.Path), F64(x.Score))
		}
		return App("RDirs", tlist("dir", l))
	case "nomatch":
		return "RNoMatch"
	}
	return "RErr"
}

func (r result) String() string {
	switch r.Kind {
	case "int":
		return strconv.Itoa(r.Z)
	case "text":
		return strconv.Quote(r.Text)
	case "cmd":
		return fmt.Sprintf("%q@%d", r.Text, r.Z)
	case "cmds":
		l := make([]string, len(r.Cmds))
		for i, x := range r.Cmds {
			l[i] = strconv.Itoa(x.Seq)
		}
		return "[" + strings.Join(l, " ") + "]"
	case "dirs":
		l := make([]string, len(r.Dirs))
		for i, x := range r.Dirs {
			l[i] = fmt.Sprintf("%s:%v", x.Path, x.Score)
		}
		return "[" + strings.Join(l, " ") + "]"
	case "err":
		return "error: " + r.Err
	case "transport":
		return "transport error (pending): " + r.Err
	}
	return r.Kind
}

// equal up to the order among equal scores in a Dirs listing
func (r result) equal(e result) bool {
	if r.Kind != e.Kind {
		return false
	}
	switch r.Kind {
	case "int":
		return r.Z == e.Z
	case "text":
		return r.Text == e.Text
	case "cmd":
		return r.Z == e.Z && r.Text == e.Text
	case "cmds":
		if len(r.Cmds) != len(e.Cmds) {
			return false
		}
		for i := range r.Cmds {
			if r.Cmds[i] != e.Cmds[i] {
				return false
			}
		}
	case "dirs":
		if len(r.Dirs) != len(e.Dirs) {
			return false
		}
		a, b := normDirs(r.Dirs), normDirs(e.Dirs)
		for i := range a {
			if a[i].Path != b[i].Path || math.Float64bits(a[i].Score) != math.Float64bits(b[i].Score) {
				return false
			}
		}
	}
	return true
}

func normDirs(d []storedefs.Dir) []storedefs.Dir {
	c := append([]storedefs.Dir(nil), d...)
	sort.Slice(c, func(i, j int) bool {
		if c[i].Score != c[j].Score {
			return c[i].Score > c[j].Score
		}
		return c[i].Path < c[j].Path
	})
	return c
}

func errResult(err error) result {
	// an error returned by the service method arrives as rpc.ServerError;
	// anything else (connection lost, daemon unreachable) is a transport error:
	// the call is recorded as pending, no result is claimed for it
	if _, ok := err.(rpc.ServerError); !ok {
		return result{Kind: "transport", Err: err.Error()}
	}
	// errors cross net/rpc as strings
	if err.Error() == storedefs.ErrNoMatchingCmd.Error() {
		return result{Kind: "nomatch"}
	}
	return result{Kind: "err", Err: err.Error()}
}

func exec1(st storedefs.Store, o op) result {
	switch o.K {
	case "add":
		s, err := st.AddCmd(o.Text)
		if err != nil {
			return errResult(err)
		}
		return result{Kind: "int", Z: s}
	case "del":
		if err := st.DelCmd(o.A); err != nil {
			return errResult(err)
		}
		return result{Kind: "ok"}
	case "get":
		t, err := st.Cmd(o.A)
		if err != nil {
			return errResult(err)
		}
		return result{Kind: "text", Text: t}
	case "list":
		cmds, err := st.CmdsWithSeq(o.A, o.B)
		if err != nil {
			return errResult(err)
		}
		return result{Kind: "cmds", Cmds: cmds}
	case "next", "prev":
		var x storedefs.Cmd
		var err error
		if o.K == "next" {
			x, err = st.NextCmd(o.A, o.Text)
		} else {
			x, err = st.PrevCmd(o.A, o.Text)
		}
		if err != nil {
			return errResult(err)
		}
		return result{Kind: "cmd", Text: x.Text, Z: x.Seq}
	case "seq":
		s, err := st.NextCmdSeq()
		if err != nil {
			return errResult(err)
		}
		return result{Kind: "int", Z: s}
	case "adddir":
		if err := st.AddDir(o.Text, o.Factor); err != nil {
			return errResult(err)
		}
		return result{Kind: "ok"}
	case "deldir":
		if err := st.DelDir(o.Text); err != nil {
			return errResult(err)
		}
		return result{Kind: "ok"}
	}
	bl := map[string]struct{}{}
	for _, d := range o.BL {
		bl[d] = struct{}{}
	}
	ds, err := st.Dirs(bl)
	if err != nil {
		return errResult(err)
	}
	return result{Kind: "dirs", Dirs: ds}
}

// ---------------------------------------------------------------- the Go copy of the sequential model (search engine only)

type mstate struct {
	seq  uint64
	cmds []storedefs.Cmd // ascending sequence numbers
	dirs map[string]float64
}

func quant(x float64) float64 {
	f, _ := strconv.ParseFloat(strconv.FormatFloat(x, 'E', store.DirScorePrecision, 64), 64)
	return f
}

// step returns the successor state (sharing what is unchanged) and the result.
func (m *mstate) step(o op) (*mstate, result) {
	switch o.K {
	case "add":
		n := &mstate{seq: m.seq + 1, dirs: m.dirs}
		n.cmds = append(append(make([]storedefs.Cmd, 0, len(m.cmds)+1), m.cmds...), storedefs.Cmd{Text: o.Text, Seq: int(n.seq)})
		return n, result{Kind: "int", Z: int(n.seq)}
	case "del":
		n := &mstate{seq: m.seq, dirs: m.dirs}
		for _, c := range m.cmds {
			if uint64(c.Seq) != uint64(o.A) {
				n.cmds = append(n.cmds, c)
			}
		}
		return n, result{Kind: "ok"}
	case "get":
		for _, c := range m.cmds {
			if uint64(c.Seq) == uint64(o.A) {
				return m, result{Kind: "text", Text: c.Text}
			}
		}
		return m, result{Kind: "nomatch"}
	case "list":
		var l []storedefs.Cmd
		for _, c := range m.cmds {
			if uint64(o.A) <= uint64(c.Seq) && uint64(c.Seq) < uint64(o.B) {
				l = append(l, c)
			}
		}
		return m, result{Kind: "cmds", Cmds: l}
	case "next":
		for _, c := range m.cmds {
			if uint64(o.A) <= uint64(c.Seq) && strings.HasPrefix(c.Text, o.Text) {
				return m, result{Kind: "cmd", Text: c.Text, Z: c.Seq}
			}
		}
		return m, result{Kind: "nomatch"}
	case "prev":
		for i := len(m.cmds) - 1; i >= 0; i-- {
			c := m.cmds[i]
			if uint64(c.Seq) < uint64(o.A) && strings.HasPrefix(c.Text, o.Text) {
				return m, result{Kind: "cmd", Text: c.Text, Z: c.Seq}
			}
		}
		return m, result{Kind: "nomatch"}
	case "seq":
		return m, result{Kind: "int", Z: int(m.seq + 1)}
	case "adddir":
		if o.Text == "" {
			return m, result{Kind: "err", Err: "key required"}
		}
		n := &mstate{seq: m.seq, cmds: m.cmds, dirs: map[string]float64{}}
		for k, v := range m.dirs {
			n.dirs[k] = quant(v * store.DirScoreDecay)
		}
		n.dirs[o.Text] = quant(n.dirs[o.Text] + store.DirScoreIncrement*o.Factor)
		return n, result{Kind: "ok"}
	case "deldir":
		n := &mstate{seq: m.seq, cmds: m.cmds, dirs: map[string]float64{}}
		for k, v := range m.dirs {
			if k != o.Text {
				n.dirs[k] = v
			}
		}
		return n, result{Kind: "ok"}
	}
	var l []storedefs.Dir
	for k, v := range m.dirs {
		skip := false
		for _, b := range o.BL {
			if b == k {
				skip = true
			}
		}
		if !skip {
			l = append(l, storedefs.Dir{Path: k, Score: v})
		}
	}
	return m, result{Kind: "dirs", Dirs: normDirs(l)}
}

func (m *mstate) key() string {
	var sb strings.Builder
	fmt.Fprintf(&sb, "%d|", m.seq)
	for _, c := range m.cmds {
		fmt.Fprintf(&sb, "%d,", c.Seq) // the text of a number never changes
	}
	ks := make([]string, 0, len(m.dirs))
	for k := range m.dirs {
		ks = append(ks, k)
	}
	sort.Strings(ks)
	for _, k := range ks {
		fmt.Fprintf(&sb, "|%s=%x", k, math.Float64bits(m.dirs[k]))
	}
	return sb.String()
}

// ---------------------------------------------------------------- recorded calls and the witness search

type call struct {
	Client   int
	Op       op
	Inv, Ret int64 // nanoseconds on one monotonic clock
	Res      result
}

// linearize searches an order of all calls that respects real time and the
// model.  Returns the order (indices into calls) or nil, and the longest
// prefix reached (for the replay description).
func linearize(calls []call, budget int) (order []int, best []int, exhausted bool) {
	n := len(calls)
	done := make([]bool, n)
	memo := map[string]bool{}
	pending := func(c call) bool { return c.Res.Kind == "transport" }
	need := 0 // calls that returned: all of them must be placed; pending ones may be
	for _, c := range calls {
		if !pending(c) {
			need++
		}
	}
	var cur []int
	steps := 0
	var dfs func(m *mstate, left int) bool
	dfs = func(m *mstate, left int) bool {
		if left == 0 {
			return true
		}
		steps++
		if steps > budget {
			exhausted = true
			return false
		}
		// memo key: set of linearized calls + state
		bs := make([]byte, (n+7)/8)
		for i, d := range done {
			if d {
				bs[i/8] |= 1 << (i % 8)
			}
		}
		key := string(bs) + m.key()
		if memo[key] {
			return false
		}
		// minimal pending calls: invoked before every pending call's response
		minRet := int64(math.MaxInt64)
		for i, c := range calls {
			if !done[i] && !pending(c) && c.Ret < minRet {
				minRet = c.Ret
			}
		}
		for i, c := range calls {
			if done[i] || c.Inv > minRet {
				continue
			}
			m2, r := m.step(c.Op)
			dec := 1
			if pending(c) {
				dec = 0 // may have taken effect, with whatever result
			} else if !r.equal(c.Res) {
				continue
			}
			done[i] = true
			cur = append(cur, i)
			if len(cur) > len(best) {
				best = append([]int(nil), cur...)
			}
			if dfs(m2, left-dec) {
				return true
			}
			cur = cur[:len(cur)-1]
			done[i] = false
			if exhausted {
				return false
			}
		}
		memo[key] = true
		return false
	}
	if dfs(&mstate{dirs: map[string]float64{}}, need) {
		return append([]int(nil), cur...), best, false
	}
	return nil, best, exhausted
}

// ---------------------------------------------------------------- generators

var words = []string{"", "e", "echo", "echo a", "echo b", "ls", "ls -l", "\x00\xff", "é", "put 中", "cd /tmp"}
var dirNames = []string{"/", "/a", "/a/b", "/tmp", "/home/é", ""}
var factors = []float64{1, 1, 1, 0.5, 2, 0.1}

// genOp: sequence arguments concentrate on the numbers the run will allocate
// (1..span), so that concurrent calls touch the same commands.
func genOp(r *rand.Rand, span int, addHeavy bool) op {
	seq := func() int {
		switch r.Intn(10) {
		case 0:
			return 0
		case 1:
			return -1
		}
		return 1 + r.Intn(span)
	}
	w := r.Intn(100)
	if addHeavy && w >= 30 && r.Intn(2) == 0 {
		w = r.Intn(30)
	}
	switch {
	case w < 30:
		return op{K: "add", Text: words[r.Intn(len(words))]}
	case w < 42:
		return op{K: "del", A: seq()}
	case w < 50:
		return op{K: "get", A: seq()}
	case w < 60:
		a, b := seq(), seq()
		if r.Intn(2) == 0 {
			a, b = 0, -1
		}
		return op{K: "list", A: a, B: b}
	case w < 67:
		return op{K: "next", A: seq(), Text: words[r.Intn(len(words))]}
	case w < 74:
		return op{K: "prev", A: seq(), Text: words[r.Intn(len(words))]}
	case w < 86:
		return op{K: "seq"}
	case w < 92:
		return op{K: "adddir", Text: dirNames[r.Intn(len(dirNames))], Factor: factors[r.Intn(len(factors))]}
	case w < 94:
		return op{K: "deldir", Text: dirNames[r.Intn(len(dirNames))]}
	}
	return op{K: "dirs", BL: []string{dirNames[r.Intn(len(dirNames))]}}
}

// ---------------------------------------------------------------- one run

type desc struct {
	Class     string   `json:"class"`
	Clients   string   `json:"clients"`
	Procs     int      `json:"gomaxprocs"`
	DB        string   `json:"db"` // disk | shm
	Total     int      `json:"calls_recorded"`
	Calls     []string `json:"calls"` // judged calls: client, op, result, [inv,ret] in ns
	Projected bool     `json:"projected"`
	Pending   int      `json:"calls_with_transport_error"`
	Anomalies []string `json:"real_time_anomalies,omitempty"`
	Witness   string   `json:"witness"`
	Overlaps  int      `json:"overlapping_pairs"`
}

var runCount int

// cfg describes one run.  Ordinary runs: every goroutine executes a random
// operation list.  Probe runs: nWriters goroutines add commands continuously
// while the other goroutines loop NextCmdSeq -> Cmd(seq-1) / CmdsWithSeq(seq-3,
// seq) / PrevCmd(seq, "") back to back, i.e. they read what the sequence
// counter has just promised.
type cfg struct {
	nSep, nShared int
	perClient     int
	procs         int
	disk          bool // database under c.Scratch (fsync-bound commits) instead of /dev/shm
	probe         bool
	restart       bool // the daemon is stopped and started again between two phases (client retry on ErrShutdown)
	nWriters      int // probe: the first nWriters goroutines are writers
	adds          int // probe: AddCmd calls per writer
	readerCap     int // probe: maximal loop iterations per reader
}

func (k cfg) class() string {
	if k.restart {
		return "restart"
	}
	if k.probe {
		if k.disk {
			return "probe-disk"
		}
		return "probe-shm"
	}
	switch {
	case k.nSep == 0:
		return "shared"
	case k.nShared > 0:
		return "mixed"
	}
	return "separate"
}

func isMutator(o op) bool {
	switch o.K {
	case "add", "del", "adddir", "deldir":
		return true
	}
	return false
}

// anomalies is the fast per-key check of real-time anomalies around the
// sequence counter.  known(t) = the largest number that some call which
// returned before t has shown to be allocated (NextCmdSeq -> r shows r-1,
// AddCmd -> z shows z).  A number that is known to be allocated and that no
// DelCmd of the history names must be visible to every later read, and the
// counter must never fall behind it.  Returns the offending calls, each with
// the call that established the knowledge (both are needed to make the
// projected history non-linearizable), and a description.
func anomalies(calls []call) (flagged []int, texts []string) {
	type ev struct {
		ret  int64
		upTo int
		idx  int
	}
	var evs []ev
	deleted := map[uint64]bool{}
	for i, c := range calls {
		switch {
		case c.Op.K == "seq" && c.Res.Kind == "int":
			evs = append(evs, ev{c.Ret, c.Res.Z - 1, i})
		case c.Op.K == "add" && c.Res.Kind == "int":
			evs = append(evs, ev{c.Ret, c.Res.Z, i})
		case c.Op.K == "del":
			deleted[uint64(c.Op.A)] = true
		}
	}
	sort.Slice(evs, func(i, j int) bool { return evs[i].ret < evs[j].ret })
	// prefix maxima
	best := make([]ev, len(evs))
	for i, e := range evs {
		best[i] = e
		if i > 0 && best[i-1].upTo >= e.upTo {
			best[i] = best[i-1]
		}
	}
	known := func(t int64) (int, int) {
		j := sort.Search(len(evs), func(i int) bool { return evs[i].ret >= t })
		if j == 0 {
			return 0, -1
		}
		return best[j-1].upTo, best[j-1].idx
	}
	flag := func(i, by int, msg string) {
		if len(flagged) < 40 {
			flagged = append(flagged, i, by)
		}
		if len(texts) < 20 {
			texts = append(texts, fmt.Sprintf("#%d c%d %s = %s [%d,%d]: %s (shown by #%d c%d %s = %s [%d,%d])",
				i, calls[i].Client, calls[i].Op, calls[i].Res, calls[i].Inv, calls[i].Ret, msg,
				by, calls[by].Client, calls[by].Op, calls[by].Res, calls[by].Inv, calls[by].Ret))
		}
	}
	for i, c := range calls {
		k, by := known(c.Inv)
		if by < 0 {
			continue
		}
		present := func(n int) bool { return n >= 1 && n <= k && !deleted[uint64(n)] }
		switch c.Op.K {
		case "get":
			if c.Res.Kind == "nomatch" && present(c.Op.A) {
				flag(i, by, fmt.Sprintf("command %d was known to exist", c.Op.A))
			}
		case "list":
			if c.Res.Kind != "cmds" || c.Op.A < 0 || c.Op.B < 0 || c.Op.B-c.Op.A > 64 {
				continue
			}
			seen := map[int]bool{}
			for _, x := range c.Res.Cmds {
				seen[x.Seq] = true
			}
			for n := c.Op.A; n < c.Op.B; n++ {
				if present(n) && !seen[n] {
					flag(i, by, fmt.Sprintf("command %d was known to exist", n))
					break
				}
			}
		case "prev":
			if c.Op.Text == "" && c.Op.A >= 2 && present(c.Op.A-1) && !(c.Res.Kind == "cmd" && c.Res.Z == c.Op.A-1) {
				flag(i, by, fmt.Sprintf("command %d was known to exist", c.Op.A-1))
			}
		case "seq":
			if c.Res.Kind == "int" && c.Res.Z <= k {
				flag(i, by, fmt.Sprintf("number %d was known to be allocated", k))
			}
		case "add":
			if c.Res.Kind == "int" && c.Res.Z <= k {
				flag(i, by, fmt.Sprintf("number %d was known to be allocated", k))
			}
		}
	}
	return
}

// project keeps every call that changes the state, the flagged calls and a
// sample of the other reads (with the same client's next call, so that
// NextCmdSeq/read pairs stay together).  Dropping read-only calls from a
// linearizable history leaves a linearizable history, so judging the
// projection never raises a false alarm.
func project(r *rand.Rand, calls []call, flagged []int, reads int) []call {
	keep := make([]bool, len(calls))
	for i, c := range calls {
		if isMutator(c.Op) {
			keep[i] = true
		}
	}
	for _, i := range flagged {
		keep[i] = true
	}
	next := func(i int) int { // the same goroutine's next call
		for j := i + 1; j < len(calls); j++ {
			if calls[j].Client == calls[i].Client {
				return j
			}
		}
		return -1
	}
	for n := 0; n < reads/2 && len(calls) > 0; n++ {
		i := r.Intn(len(calls))
		keep[i] = true
		if j := next(i); j >= 0 {
			keep[j] = true
		}
	}
	var out []call
	for i, c := range calls {
		if keep[i] {
			out = append(out, c)
		}
	}
	return out
}

const longRun = 320 // histories with more calls are judged through their projection

func oneRun(c *reg.Ctx, k cfg) {
	runCount++
	// Linearizability does not depend on durability: a memory-backed directory
	// makes the update transactions as short as the read transactions, so that
	// many more interleavings of reads and updates occur per run; a disk-backed
	// one makes commits long, so that the window in which an update is in flight
	// is wide.  Both are used.
	base, dbKind := c.Scratch, "disk"
	if fi, err := os.Stat("/dev/shm"); !k.disk && err == nil && fi.IsDir() {
		base, dbKind = "/dev/shm", "shm"
	}
	dir, err := os.MkdirTemp(base, "verif-c26-")
	if err != nil {
		panic(err)
	}
	defer os.RemoveAll(dir)
	sock, db := filepath.Join(dir, "sock"), filepath.Join(dir, "db")
	class := k.class()
	nG := k.nSep + k.nShared
	d := desc{Class: class, Clients: fmt.Sprintf("%d separate + %d sharing one", k.nSep, k.nShared), Procs: k.procs, DB: dbKind}
	if k.probe {
		d.Clients += fmt.Sprintf("; %d writers x %d AddCmd, %d readers probing the sequence counter", k.nWriters, k.adds, nG-k.nWriters)
	}
	rc := reg.Case{Class: class}
	old := runtime.GOMAXPROCS(k.procs)
	defer runtime.GOMAXPROCS(old)

	startDaemon := func() (chan os.Signal, chan int) {
		ready := make(chan struct{})
		sig := make(chan os.Signal, 1)
		served := make(chan int, 1)
		go func() { served <- daemon.Serve(sock, db, daemon.ServeOpts{Ready: ready, Signals: sig}) }()
		select {
		case <-ready:
		case code := <-served:
			panic(fmt.Sprintf("daemon.Serve exited early with %d", code))
		case <-time.After(60 * time.Second):
			panic("daemon.Serve not ready after 60 s")
		}
		return sig, served
	}
	sig, served := startDaemon()
	var phase1 sync.WaitGroup      // restart runs: every goroutine has finished its first half
	resume := make(chan struct{}) // ... and may go on

	t0 := time.Now()
	recs := make([][]call, nG)
	doCall := func(g int, cl daemondefs.Client, o op) result {
		inv := int64(time.Since(t0))
		res := exec1(cl, o)
		ret := int64(time.Since(t0))
		recs[g] = append(recs[g], call{Client: g, Op: o, Inv: inv, Ret: ret, Res: res})
		return res
	}
	// the program of each goroutine
	progs := make([]func(g int, cl daemondefs.Client), nG)
	var first func(cl daemondefs.Client) // first request on the shared client, made alone
	if !k.probe {
		span := nG*k.perClient*3/10 + 2
		addHeavy := c.Rand.Intn(3) == 0
		plans := make([][]op, nG)
		for g := range plans {
			r := rand.New(rand.NewSource(c.Rand.Int63()))
			plans[g] = make([]op, k.perClient)
			for i := range plans[g] {
				plans[g][i] = genOp(r, span, addHeavy)
			}
		}
		for g := range progs {
			progs[g] = func(g int, cl daemondefs.Client) {
				for i, o := range plans[g] {
					if k.restart && i == len(plans[g])/2 {
						phase1.Done()
						<-resume
					}
					doCall(g, cl, o)
				}
			}
		}
		if k.nShared > 0 {
			first = func(cl daemondefs.Client) {
				doCall(k.nSep, cl, plans[k.nSep][0])
				plans[k.nSep] = plans[k.nSep][1:]
			}
		}
	} else {
		var writersLeft atomic.Int32
		writersLeft.Store(int32(k.nWriters))
		for g := range progs {
			seed := c.Rand.Int63()
			if g < k.nWriters {
				progs[g] = func(g int, cl daemondefs.Client) {
					defer writersLeft.Add(-1)
					r := rand.New(rand.NewSource(seed))
					for i := 0; i < k.adds; i++ {
						doCall(g, cl, op{K: "add", Text: words[r.Intn(len(words))]})
					}
				}
				continue
			}
			progs[g] = func(g int, cl daemondefs.Client) {
				r := rand.New(rand.NewSource(seed))
				for i := 0; i < k.readerCap && (writersLeft.Load() > 0 || i < 8); i++ {
					res := doCall(g, cl, op{K: "seq"})
					if res.Kind != "int" || res.Z < 2 {
						continue
					}
					s := res.Z
					switch r.Intn(3) {
					case 0:
						doCall(g, cl, op{K: "get", A: s - 1})
					case 1:
						a := s - 3
						if a < 0 {
							a = 0
						}
						doCall(g, cl, op{K: "list", A: a, B: s})
					default:
						doCall(g, cl, op{K: "prev", A: s, Text: ""})
					}
				}
			}
		}
		if k.nShared > 0 {
			first = func(cl daemondefs.Client) { doCall(k.nSep, cl, op{K: "seq"}) }
		}
	}

	var clients []daemondefs.Client
	var wg sync.WaitGroup
	start := make(chan struct{})
	launch := func(g int, cl daemondefs.Client) {
		wg.Add(1)
		go func() {
			defer wg.Done()
			<-start
			progs[g](g, cl)
		}()
	}
	for g := 0; g < k.nSep; g++ {
		cl := daemon.NewClient(sock)
		clients = append(clients, cl)
		launch(g, cl)
	}
	if k.nShared > 0 {
		shared := daemon.NewClient(sock)
		clients = append(clients, shared)
		// the first request on the shared client is made alone (it dials);
		// afterwards its goroutines use it concurrently
		first(shared)
		for g := k.nSep; g < nG; g++ {
			launch(g, shared)
		}
	}
	if k.restart {
		phase1.Add(nG)
	}
	close(start)
	if k.restart {
		// no call is in flight: stop the daemon (it closes every connection and
		// removes the socket), give the clients' readers time to see the end of
		// their connections, start a new daemon on the same socket and database.
		// The first call of every client in the second phase then finds its codec
		// shut down (ErrShutdown) and goes through client.call's retry.
		phase1.Wait()
		sig <- os.Interrupt
		select {
		case <-served:
		case <-time.After(30 * time.Second):
			panic("daemon.Serve did not stop on interrupt")
		}
		time.Sleep(200 * time.Millisecond)
		sig, served = startDaemon()
		close(resume)
	}
	finished := make(chan struct{})
	go func() { wg.Wait(); close(finished) }()
	select {
	case <-finished:
	case <-time.After(120 * time.Second):
		rc.Direct = "client calls did not return within 120 s"
	}
	if rc.Direct == "" {
		for _, cl := range clients {
			cl.Close()
		}
	}
	// the daemon exits when its last client has gone; make sure it does
	select {
	case <-served:
	case <-time.After(5 * time.Second):
		sig <- os.Interrupt
		select {
		case <-served:
		case <-time.After(20 * time.Second):
		}
	}
	if rc.Direct != "" {
		rc.Desc, rc.Key = d, fmt.Sprintf("hang-%d", runCount)
		c.Count(class)
		c.Emit(rc)
		return
	}

	var calls []call
	for _, l := range recs {
		calls = append(calls, l...)
	}
	sort.SliceStable(calls, func(i, j int) bool { return calls[i].Inv < calls[j].Inv })
	d.Total = len(calls)
	// fast real-time check on the whole history; its findings are judged by Coq
	// like everything else: the flagged calls are part of the judged history
	flagged, texts := anomalies(calls)
	d.Anomalies = texts
	budget := 2_000_000
	if len(calls) > longRun {
		calls = project(rand.New(rand.NewSource(c.Rand.Int63())), calls, flagged, 100)
		d.Projected = true
		budget = 300_000
	}
	order, best, exhausted := linearize(calls, budget)
	resetIntern()
	items := make([]string, len(calls))
	for i, k := range calls {
		if k.Res.Kind == "transport" {
			items[i] = App("kp", N(uint64(k.Client)), k.Op.coq(), N(uint64(k.Inv)))
			d.Pending++
		} else {
			items[i] = App("kc", N(uint64(k.Client)), k.Op.coq(), N(uint64(k.Inv)), k.Res.coq(), N(uint64(k.Ret)))
		}
		d.Calls = append(d.Calls, fmt.Sprintf("#%d c%d %s = %s [%d,%d]", i, k.Client, k.Op, k.Res, k.Inv, k.Ret))
	}
	for i := range calls {
		for j := i + 1; j < len(calls) && calls[j].Inv <= calls[i].Ret; j++ {
			if calls[i].Client != calls[j].Client {
				d.Overlaps++
			}
		}
	}
	ord := make([]string, len(order))
	for i, k := range order {
		ord[i] = N(uint64(k))
	}
	switch {
	case order != nil:
		d.Witness = fmt.Sprint(order)
		if len(order) > 60 {
			d.Witness = fmt.Sprint(order[:60]) + "..."
		}
	case exhausted:
		d.Witness = fmt.Sprintf("none found within the search budget; longest linearizable prefix: %v", best)
	default:
		d.Witness = fmt.Sprintf("none exists according to the search; longest linearizable prefix: %v", best)
	}
	var sb strings.Builder
	for _, s := range d.Calls {
		sb.WriteString(s)
	}
	sum := sha1.Sum([]byte(sb.String()))
	rc.Coq = wrap(App("mkCase", tlist("call", items), tlist("N", ord)))
	rc.Desc = d
	rc.Key = fmt.Sprintf("%x", sum[:8])
	rc.Nontrivial = d.Overlaps >= len(calls)/2 && len(calls) >= 20
	c.Count(class)
	c.Count("db=" + dbKind)
	c.Count(fmt.Sprintf("goroutines=%d", nG))
	c.Emit(rc)
}

func run(c *reg.Ctx) {
	for i := 0; i < c.N; i++ {
		procs := runtime.NumCPU()
		if c.Tier == "thorough" || i%4 == 3 {
			procs = 1 + c.Rand.Intn(16)
		}
		if i%5 >= 3 {
			// probe run: writers add continuously, readers chase the sequence
			// counter; alternately on a disk-backed and a memory-backed database
			k := cfg{probe: true, disk: i%5 == 3, procs: procs}
			k.nWriters = 2 + c.Rand.Intn(3)
			nReaders := 2 + c.Rand.Intn(4)
			if k.nWriters+nReaders > 8 {
				nReaders = 8 - k.nWriters
			}
			if i%2 == 0 && nReaders >= 2 {
				k.nSep, k.nShared = k.nWriters, nReaders // the readers share one client
			} else {
				k.nSep = k.nWriters + nReaders
			}
			k.adds, k.readerCap = 100+c.Rand.Intn(50), 300
			if k.disk {
				k.adds = 40 + c.Rand.Intn(30)
			}
			oneRun(c, k)
			continue
		}
		nG := 2 + c.Rand.Intn(7) // 2..8 client goroutines
		var nSep, nShared int
		switch i % 3 {
		case 0:
			nSep = nG
		case 1:
			nShared = nG
		default:
			nShared = 2 + c.Rand.Intn(nG-1)
			if nShared > nG-1 {
				nShared = nG - 1
			}
			if nShared < 2 {
				nShared = 0
			}
			nSep = nG - nShared
		}
		total := 120 + c.Rand.Intn(81)
		if i%15 == 2 {
			// restart run: separate clients only (a shared client's reconnect is
			// unsynchronised, outside the property's quantifier)
			oneRun(c, cfg{nSep: nG, perClient: total/nG + 1, procs: procs, restart: true})
			continue
		}
		oneRun(c, cfg{nSep: nSep, nShared: nShared, perClient: total/nG + 1, procs: procs, disk: i%10 == 0})
	}
}
