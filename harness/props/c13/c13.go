// Package c13: indexing and slicing (pkg/eval/vals/index_list.go,
// index_string.go, assoc.go) through vals.ConvertListIndex, vals.Index,
// vals.Assoc and through Elvish `$x[i]` / `set x[i] = v`.
package c13

import (
	"fmt"
	"math/big"
	"regexp"
	"strconv"
	"strings"
	"unicode/utf8"

	"src.elv.sh/pkg/eval"
	"src.elv.sh/pkg/eval/errs"
	"src.elv.sh/pkg/eval/vals"
	"src.elv.sh/pkg/eval/vars"
	"src.elv.sh/pkg/parse"
	. "verifharness/coqfmt"
	"verifharness/reg"
)

func init() {
	reg.Register(&reg.Spec{ID: "C13",
		Imports: "From verif Require Import lib.Base model.C13.",
		Judge:   "C13.judge", Shard: 1200, Run: run})
}

// ---------------------------------------------------------------- index values

// idx is an index value handed to the implementation.
type idx struct {
	val   any    // int, string, or anything else
	label string // for Desc / Key
}

func (x idx) coq() string {
	switch v := x.val.(type) {
	case int:
		return App("IInt", Z(int64(v)))
	case string:
		return App("IStr", Str(v))
	default:
		return "IOther"
	}
}

func intIdx(i int) idx    { return idx{i, fmt.Sprintf("int:%d", i)} }
func strIdx(s string) idx { return idx{s, fmt.Sprintf("str:%q", s)} }
func otherIdx(v any) idx  { return idx{v, fmt.Sprintf("other:%T:%v", v, v)} }

// ---------------------------------------------------------------- error kinds

// Sentinel errors of package vals are unexported; obtain them by identity from
// calls whose outcome does not depend on the code under test being right.
var (
	sentNotInteger, sentNotBoundary, sentAssocSlice, sentReplNotString error
)

func init() {
	_, sentNotInteger = vals.Index(vals.MakeList("a"), "x")
	_, sentNotBoundary = vals.Index("é", 1)
	_, sentAssocSlice = vals.Assoc(vals.MakeList("a"), "0..1", "b")
	_, sentReplNotString = vals.Assoc("a", 0, 1)
}

func errKind(err error) string {
	if _, ok := err.(errs.OutOfRange); ok {
		return "EOutOfRange"
	}
	switch err {
	case sentNotInteger:
		return "ENotInteger"
	case sentNotBoundary:
		return "ENotBoundary"
	case sentAssocSlice:
		return "EAssocSlice"
	case sentReplNotString:
		return "EReplNotString"
	}
	return "EOther"
}

// ---------------------------------------------------------------- observations

const newElem = 1000 // id of the value stored by assoc / set

func elemName(i int) string { return "e" + strconv.Itoa(i) }

func mkList(n int) (vals.List, string) {
	items := make([]any, n)
	ids := make([]string, n)
	for i := range items {
		items[i] = elemName(i)
		ids[i] = N(uint64(i))
	}
	return vals.MakeList(items...), List(ids)
}

func elemID(v any) uint64 {
	if s, ok := v.(string); ok {
		if s == "NEW" {
			return newElem
		}
		if strings.HasPrefix(s, "e") {
			if k, err := strconv.Atoi(s[1:]); err == nil && k >= 0 {
				return uint64(k)
			}
		}
	}
	return 999999
}

// obsValue renders a result value of Index/Assoc as a Coq `obs`.
func obsValue(v any, wantStr bool) (string, string) {
	switch v := v.(type) {
	case string:
		if wantStr {
			return App("ObsVal", App("VStr", Str(v))), fmt.Sprintf("%q", v)
		}
		return App("ObsVal", App("VElem", N(elemID(v)))), v
	case vals.List:
		var ids []string
		vals.Iterate(v, func(e any) bool { ids = append(ids, N(elemID(e))); return true })
		return App("ObsVal", App("VList", List(ids))), vals.ReprPlain(v)
	}
	return App("ObsVal", App("VElem", N(999998))), fmt.Sprintf("unexpected %T", v)
}

func obsErr(err error) (string, string) {
	return App("ObsErr", errKind(err)), "error(" + errKind(err) + "): " + err.Error()
}

// ---------------------------------------------------------------- Elvish route

type elvish struct {
	ev            *eval.Evaler
	x, i, v       vars.Var
	textualBareRe *regexp.Regexp
}

func newElvish() *elvish {
	e := &elvish{ev: eval.NewEvaler(), x: vars.FromInit(nil), i: vars.FromInit(nil), v: vars.FromInit(nil),
		textualBareRe: regexp.MustCompile(`^[0-9+\-.=]+$`)}
	e.ev.ExtendGlobal(eval.BuildNs().AddVar("x", e.x).AddVar("i", e.i).AddVar("v", e.v))
	return e
}

// indexExpr returns the source text of the index: the literal text when it is
// a plain bareword (alternating with the variable form), `(num k)` for ints.
func (e *elvish) indexExpr(x idx, literal bool) string {
	if literal {
		switch v := x.val.(type) {
		case string:
			if e.textualBareRe.MatchString(v) {
				return v
			}
		case int:
			return "(num " + strconv.Itoa(v) + ")"
		}
	}
	return "$i"
}

// eval runs code and returns the single output value or the exception's reason.
func (e *elvish) run(code string) (any, error) {
	port, collect, err := eval.ValueCapturePort()
	if err != nil {
		return nil, err
	}
	xerr := e.ev.Eval(parse.Source{Name: "c13", Code: code},
		eval.EvalCfg{Ports: []*eval.Port{eval.DummyInputPort, port, eval.DummyOutputPort}})
	out := collect()
	if xerr != nil {
		if r := eval.Reason(xerr); r != nil {
			return nil, r
		}
		return nil, xerr
	}
	if len(out) != 1 {
		return nil, fmt.Errorf("expected 1 output value, got %d", len(out))
	}
	return out[0], nil
}

// ---------------------------------------------------------------- cases

type desc struct {
	Via    string `json:"via"`
	Target string `json:"target"`
	Index  string `json:"index"`
	Code   string `json:"code,omitempty"`
	Obs    string `json:"obs"`
}

var intTok = regexp.MustCompile(`[+-]?[0-9]+`)
var wellFormedRe = regexp.MustCompile(`^([+-]?[0-9]+)?(\.\.=?([+-]?[0-9]+)?)?$`)

// touchesFFFD: input-derived test whether an offset the index may denote is
// the start or the end of a U+FFFD code point of s (the class of the recorded
// finding).
func touchesFFFD(s string, x idx) bool {
	if !strings.ContainsRune(s, utf8.RuneError) || !utf8.ValidString(s) {
		return false
	}
	n := len(s)
	cand := map[int]bool{0: true, n: true}
	add := func(v int) {
		for _, c := range []int{v, v + n, v + 1, v + n + 1} {
			cand[c] = true
		}
	}
	switch v := x.val.(type) {
	case int:
		add(v)
	case string:
		for _, t := range intTok.FindAllString(v, -1) {
			if k, err := strconv.Atoi(t); err == nil {
				add(k)
			}
		}
	}
	for off, r := range s {
		if r == utf8.RuneError && (cand[off] || cand[off+3]) {
			return true
		}
	}
	return false
}

func shapeOf(x idx) string {
	switch v := x.val.(type) {
	case int:
		if v < 0 {
			return "typed-neg"
		}
		return "typed-int"
	case string:
		big := false
		for _, t := range intTok.FindAllString(v, -1) {
			if len(strings.TrimLeft(t, "+-0")) >= 18 {
				big = true
			}
		}
		ok := wellFormedRe.MatchString(v) && v != ""
		switch {
		case !ok:
			return "malformed"
		case big:
			return "huge"
		case strings.HasSuffix(v, "..=-1"):
			return "incl-minus1"
		case strings.HasSuffix(v, "..="):
			return "incl-omitted"
		case strings.Contains(v, "..="):
			return "slice-incl"
		case strings.Contains(v, ".."):
			return "slice"
		case strings.HasPrefix(v, "-"):
			return "neg"
		default:
			return "int"
		}
	}
	return "other-type"
}

type runner struct {
	c   *reg.Ctx
	elv *elvish
	k   int
}

func (r *runner) emit(via, target, key string, x idx, opCoq, obsCoq, obsText, code string, nontrivial bool, class, direct string) {
	r.c.Count(via + "/" + class)
	cs := reg.Case{
		Desc:       desc{via, target, x.label, code, obsText},
		Key:        via + "|" + key + "|" + x.label,
		Nontrivial: nontrivial,
		Class:      class,
		Direct:     direct,
	}
	if direct == "" {
		cs.Coq = App("mkCase", opCoq, obsCoq)
	}
	r.c.Emit(cs)
}

// guard runs f, turning a Go panic into a direct finding text.
func guard(f func()) (direct string) {
	defer func() {
		if p := recover(); p != nil {
			direct = fmt.Sprintf("Go panic instead of a result or an exception: %v", p)
		}
	}()
	f()
	return ""
}

func nontrivialIdx(n int, x idx) bool {
	if n < 2 {
		return false
	}
	switch v := x.val.(type) {
	case int:
		return v < 0 || v >= n
	case string:
		k, err := strconv.Atoi(v)
		return err != nil || k < 0 || k >= n
	}
	return true
}

// convert: vals.ConvertListIndex(x, n) directly (n may be huge).
func (r *runner) convert(n int, x idx) {
	op := App("OpConvert", Z(int64(n)), x.coq())
	var oc, ot string
	d := guard(func() {
		li, err := vals.ConvertListIndex(x.val, n)
		if err != nil {
			oc, ot = obsErr(err)
		} else {
			oc = App("ObsConv", Bool(li.Slice), Z(int64(li.Lower)), Z(int64(li.Upper)))
			ot = fmt.Sprintf("%+v", *li)
		}
	})
	r.emit("ConvertListIndex", fmt.Sprintf("n=%d", n), fmt.Sprintf("n=%d", n), x, op, oc, ot, "", nontrivialIdx(n, x), "conv/"+shapeOf(x), d)
}

func (r *runner) indexList(n int, x idx, elvishToo bool) {
	l, lcoq := mkList(n)
	op := App("OpIndexList", lcoq, x.coq())
	class := "list/" + shapeOf(x)
	var oc, ot string
	d := guard(func() {
		v, err := vals.Index(l, x.val)
		if err != nil {
			oc, ot = obsErr(err)
		} else {
			oc, ot = obsValue(v, false)
		}
	})
	r.emit("vals.Index", fmt.Sprintf("list%d", n), fmt.Sprintf("list%d", n), x, op, oc, ot, "", nontrivialIdx(n, x), class, d)
	if !elvishToo {
		return
	}
	r.k++
	code := "put $x[" + r.elv.indexExpr(x, r.k%2 == 0) + "]"
	d = guard(func() {
		r.elv.x.Set(l)
		r.elv.i.Set(x.val)
		v, err := r.elv.run(code)
		if err != nil {
			oc, ot = obsErr(err)
		} else {
			oc, ot = obsValue(v, false)
		}
	})
	r.emit("elvish", fmt.Sprintf("list%d", n), fmt.Sprintf("list%d", n), x, op, oc, ot, code, nontrivialIdx(n, x), class, d)
}

func (r *runner) assocList(n int, x idx, elvishToo bool) {
	l, lcoq := mkList(n)
	op := App("OpAssocList", lcoq, x.coq(), N(newElem))
	class := "list-assoc/" + shapeOf(x)
	var oc, ot string
	d := guard(func() {
		v, err := vals.Assoc(l, x.val, "NEW")
		if err != nil {
			oc, ot = obsErr(err)
		} else {
			oc, ot = obsValue(v, false)
		}
	})
	r.emit("vals.Assoc", fmt.Sprintf("list%d", n), fmt.Sprintf("list%d", n), x, op, oc, ot, "", n >= 2, class, d)
	if !elvishToo {
		return
	}
	r.k++
	code := "set x[" + r.elv.indexExpr(x, r.k%2 == 0) + "] = $v; put $x"
	d = guard(func() {
		r.elv.x.Set(l)
		r.elv.i.Set(x.val)
		r.elv.v.Set("NEW")
		v, err := r.elv.run(code)
		if err != nil {
			oc, ot = obsErr(err)
		} else {
			oc, ot = obsValue(v, false)
		}
	})
	r.emit("elvish", fmt.Sprintf("list%d", n), fmt.Sprintf("list%d", n), x, op, oc, ot, code, n >= 2, class, d)
}

// strCoq: the optional code point list (only for valid UTF-8) and the bytes.
func strCoq(s string) string {
	if utf8.ValidString(s) {
		return Some(Runes([]rune(s))) + " " + Str(s)
	}
	return "None " + Str(s)
}

func strClass(s string, x idx, assoc bool) string {
	t := "str/"
	if assoc {
		t = "str-assoc/"
	}
	switch {
	case !utf8.ValidString(s):
		return t + "invalid-utf8"
	case touchesFFFD(s, x):
		return "str-index-at-U+FFFD"
	case len(s) == utf8.RuneCountInString(s):
		return t + "ascii/" + shapeOf(x)
	}
	return t + "multibyte/" + shapeOf(x)
}

func (r *runner) indexStr(s string, x idx, elvishToo bool) {
	op := App("OpIndexStr", strCoq(s), x.coq())
	class := strClass(s, x, false)
	nt := len(s) != utf8.RuneCountInString(s)
	var oc, ot string
	d := guard(func() {
		v, err := vals.Index(s, x.val)
		if err != nil {
			oc, ot = obsErr(err)
		} else {
			oc, ot = obsValue(v, true)
		}
	})
	r.emit("vals.Index", fmt.Sprintf("%q", s), fmt.Sprintf("%q", s), x, op, oc, ot, "", nt, class, d)
	if !elvishToo {
		return
	}
	r.k++
	code := "put $x[" + r.elv.indexExpr(x, r.k%2 == 0) + "]"
	d = guard(func() {
		r.elv.x.Set(s)
		r.elv.i.Set(x.val)
		v, err := r.elv.run(code)
		if err != nil {
			oc, ot = obsErr(err)
		} else {
			oc, ot = obsValue(v, true)
		}
	})
	r.emit("elvish", fmt.Sprintf("%q", s), fmt.Sprintf("%q", s), x, op, oc, ot, code, nt, class, d)
}

func (r *runner) assocStr(s string, x idx, repl any, elvishToo bool) {
	rc := "None"
	if rs, ok := repl.(string); ok {
		rc = Some(Str(rs))
	}
	op := App("OpAssocStr", strCoq(s), x.coq(), rc)
	class := strClass(s, x, true)
	nt := len(s) != utf8.RuneCountInString(s)
	key := fmt.Sprintf("%q<-%v", s, repl)
	var oc, ot string
	d := guard(func() {
		v, err := vals.Assoc(s, x.val, repl)
		if err != nil {
			oc, ot = obsErr(err)
		} else {
			oc, ot = obsValue(v, true)
		}
	})
	r.emit("vals.Assoc", key, key, x, op, oc, ot, "", nt, class, d)
	if !elvishToo {
		return
	}
	r.k++
	code := "set x[" + r.elv.indexExpr(x, r.k%2 == 0) + "] = $v; put $x"
	d = guard(func() {
		r.elv.x.Set(s)
		r.elv.i.Set(x.val)
		r.elv.v.Set(repl)
		v, err := r.elv.run(code)
		if err != nil {
			oc, ot = obsErr(err)
		} else {
			oc, ot = obsValue(v, true)
		}
	})
	r.emit("elvish", key, key, x, op, oc, ot, code, nt, class, d)
}

// ---------------------------------------------------------------- generators

// allIndices: every single index (typed and text) and every slice text with
// bounds in [-n-2, n+2], with and without each optional part, `..` and `..=`.
func allIndices(n int, withIncl bool) []idx {
	var out []idx
	var bounds []string
	bounds = append(bounds, "")
	for b := -n - 2; b <= n+2; b++ {
		out = append(out, intIdx(b), strIdx(strconv.Itoa(b)))
		bounds = append(bounds, strconv.Itoa(b))
	}
	seps := []string{".."}
	if withIncl {
		seps = append(seps, "..=")
	}
	for _, sep := range seps {
		for _, a := range bounds {
			for _, b := range bounds {
				out = append(out, strIdx(a+sep+b))
			}
		}
	}
	return out
}

var hugeNums = []string{
	"9223372036854775806", "9223372036854775807", "9223372036854775808", "9223372036854775809",
	"-9223372036854775807", "-9223372036854775808", "-9223372036854775809",
	"18446744073709551615", "18446744073709551616", "18446744073709551617", "1844674407370955161", "1844674407370955162",
	"18446744073709551609", "18446744073709551610", "-18446744073709551616",
	"99999999999999999999", "-99999999999999999999", "100000000000000000000000000000000",
	"4611686018427387904", "-4611686018427387904", "999999999999999999", "1000000000000000000",
	"+9223372036854775807", "00000000000000000000001", "-00000000000000000000002",
}

func (r *runner) randNum(n int) string {
	c := r.c
	switch c.Rand.Intn(6) {
	case 0:
		return ""
	case 1:
		return hugeNums[c.Rand.Intn(len(hugeNums))]
	case 2:
		// random digit string of random length 15..25
		k := 15 + c.Rand.Intn(11)
		var sb strings.Builder
		if c.Rand.Intn(2) == 0 {
			sb.WriteByte('-')
		}
		for i := 0; i < k; i++ {
			sb.WriteByte(byte('0' + c.Rand.Intn(10)))
		}
		return sb.String()
	default:
		return strconv.Itoa(c.Rand.Intn(2*n+7) - n - 3)
	}
}

func (r *runner) randIndexText(n int) string {
	c := r.c
	switch c.Rand.Intn(8) {
	case 0:
		return r.randNum(n)
	case 1: // malformed stream
		const al = "0123456789..==+-x_ e"
		k := c.Rand.Intn(8)
		var sb strings.Builder
		for i := 0; i < k; i++ {
			sb.WriteByte(al[c.Rand.Intn(len(al))])
		}
		return sb.String()
	case 2: // well-formed with a defect spliced in
		t := r.randNum(n) + []string{"..", "..="}[c.Rand.Intn(2)] + r.randNum(n)
		p := c.Rand.Intn(len(t) + 1)
		return t[:p] + []string{".", "=", "x", "-", "+", " ", "..", "0x", "_"}[c.Rand.Intn(9)] + t[p:]
	default:
		return r.randNum(n) + []string{"..", "..="}[c.Rand.Intn(2)] + r.randNum(n)
	}
}

var otherIndices = []any{1.0, 0.0, new(big.Int).Lsh(big.NewInt(1), 64), new(big.Int).Lsh(big.NewInt(1), 70), big.NewRat(1, 2), nil, true,
	vals.EmptyList, vals.EmptyMap}

var runeAlphabet = []rune{'a', 'b', '\u00e9', '\u4e16', '\U0001f600', '\u00df', '\u07ff', '\u0800', '\uffff', '\U00010000', '\U0010ffff', '\ud7ff', '\ue000'}

func (r *runner) randString(maxRunes int) string {
	k := r.c.Rand.Intn(maxRunes + 1)
	var sb strings.Builder
	for i := 0; i < k; i++ {
		sb.WriteRune(runeAlphabet[r.c.Rand.Intn(len(runeAlphabet))])
	}
	return sb.String()
}

func run(c *reg.Ctx) {
	r := &runner{c: c, elv: newElvish()}
	maxN, elvN := 6, 3
	if c.Tier == "thorough" {
		maxN, elvN = 12, 8
	}

	// 1. exhaustive: all lengths 0..maxN x all index/slice shapes with bounds in [-n-2, n+2]
	//    through ConvertListIndex and vals.Index; through Elvish for n <= elvN (all shapes)
	//    and for every n (single indices); Assoc / set for single indices and small n.
	for n := 0; n <= maxN; n++ {
		for _, x := range allIndices(n, true) {
			_, isInt := x.val.(int)
			single := isInt || !strings.Contains(x.val.(string), "..")
			r.convert(n, x)
			r.indexList(n, x, single || n <= elvN)
			if single || n <= 1 {
				r.assocList(n, x, true)
			} else if n <= 3 {
				r.assocList(n, x, false)
			}
		}
		for _, o := range otherIndices {
			r.convert(n, otherIdx(o))
			r.indexList(n, otherIdx(o), n <= 2)
			r.assocList(n, otherIdx(o), n <= 2)
		}
	}

	// 2. strings: every string of <= 2 code points over {a, é, 世} (quick) or {a, é, 世, 😀}
	//    (thorough) with every index shape (`..=` only for the shorter ones), plus fixed
	//    samples with 4-byte code points, U+FFFD and invalid UTF-8
	base := []rune{'a', 'é', '世'}
	if c.Tier == "thorough" {
		base = append(base, '😀')
	}
	strs := []string{"", "😀", "a😀"}
	for _, a := range base {
		strs = append(strs, string(a))
		for _, b := range base {
			strs = append(strs, string([]rune{a, b}))
		}
	}
	for _, s := range strs {
		for _, x := range allIndices(len(s), len(s) <= 3) {
			_, isInt := x.val.(int)
			single := isInt || !strings.Contains(x.val.(string), "..")
			r.indexStr(s, x, single || len(s) <= 2)
			if single || len(s) <= 2 {
				r.assocStr(s, x, "Zß", single && len(s) <= 3)
			}
		}
		r.assocStr(s, intIdx(0), 1, true)
		r.assocStr(s, strIdx("0.."), vals.EmptyList, true)
		for _, o := range otherIndices[:5] {
			r.indexStr(s, otherIdx(o), len(s) <= 2)
		}
	}
	fixed := []string{"a\ufffdb", "\ufffd", "é\ufffd", "a\xffb", "\xe4\xb8", "\x80a", "a\xc3", "\xf0\x9f\x98", "ab\xed\xa0\x80"}
	for _, s := range fixed {
		for _, x := range allIndices(len(s), false) {
			_, isInt := x.val.(int)
			if c.Tier == "thorough" || isInt || len(s) <= 2 || r.k%3 == 0 {
				r.indexStr(s, x, false)
			}
			r.k++
		}
		r.assocStr(s, intIdx(1), "Q", true)
		r.assocStr(s, strIdx("1.."), "Q", true)
		r.assocStr(s, intIdx(0), "Q", true)
	}

	// 3. huge / overflowing bounds, directly and inside slices, also with huge n
	ns := []int{0, 3, 1 << 62, 1<<63 - 2, 1<<63 - 1}
	for _, h := range hugeNums {
		for _, t := range []string{h, h + "..", ".." + h, "..=" + h, h + "..=" + h, "1.." + h, h + "..=-1", "-1..=" + h} {
			for _, n := range ns {
				r.convert(n, strIdx(t))
			}
			r.indexList(3, strIdx(t), true)
			r.indexStr("aé世", strIdx(t), false)
		}
	}
	for _, n := range ns[2:] {
		for _, d := range []int{-2, -1, 0} {
			for _, t := range []string{strconv.Itoa(n + d), "-" + strconv.Itoa(n+d), ".." + strconv.Itoa(n+d), "..=" + strconv.Itoa(n+d),
				strconv.Itoa(n+d) + "..", "-" + strconv.Itoa(n+d) + "..", "..=-" + strconv.Itoa(n+d), "..-" + strconv.Itoa(n+d)} {
				r.convert(n, strIdx(t))
			}
			r.convert(n, intIdx(n+d))
			r.convert(n, intIdx(-(n + d)))
			r.convert(n, intIdx(-(n+d)-1))
		}
	}
	for _, i := range []int{1<<63 - 1, -1 << 63, -1<<63 + 1, 1 << 62} {
		for _, n := range ns {
			r.convert(n, intIdx(i))
		}
		r.indexList(3, intIdx(i), true)
	}

	// 4. random: lists, strings, index texts (well-formed, huge, malformed)
	for i := 0; i < c.N; i++ {
		switch c.Rand.Intn(6) {
		case 0:
			n := c.Rand.Intn(maxN + 8)
			r.convert(n, strIdx(r.randIndexText(n)))
		case 1:
			n := c.Rand.Intn(maxN + 8)
			r.indexList(n, strIdx(r.randIndexText(n)), true)
		case 2:
			n := c.Rand.Intn(maxN + 8)
			if c.Rand.Intn(2) == 0 {
				r.assocList(n, strIdx(r.randIndexText(n)), true)
			} else {
				r.assocList(n, intIdx(c.Rand.Intn(2*n+5)-n-2), true)
			}
		case 3, 4:
			s := r.randString(5)
			if c.Rand.Intn(12) == 0 {
				p := c.Rand.Intn(len(s) + 1)
				s = s[:p] + "\ufffd" + s[p:]
			}
			if c.Rand.Intn(2) == 0 {
				r.indexStr(s, strIdx(r.randIndexText(len(s))), true)
			} else {
				r.indexStr(s, intIdx(c.Rand.Intn(2*len(s)+5)-len(s)-2), true)
			}
		default:
			s := r.randString(5)
			var x idx
			if c.Rand.Intn(2) == 0 {
				x = strIdx(r.randIndexText(len(s)))
			} else {
				x = intIdx(c.Rand.Intn(2*len(s)+5) - len(s) - 2)
			}
			r.assocStr(s, x, r.randString(2), true)
		}
	}
}
